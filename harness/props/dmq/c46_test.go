package dmq

import (
	"crypto/ed25519"
	"encoding/hex"
	"fmt"
	"io"
	"log/slog"
	"strings"
	"testing"

	"github.com/blinklabs-io/gouroboros/kes"
	"github.com/blinklabs-io/gouroboros/ledger"
	pcommon "github.com/blinklabs-io/gouroboros/protocol/common"
	"golang.org/x/crypto/blake2b"
	"pgregory.net/rapid"

	"verif/harness/internal/evi"
	"verif/harness/internal/xcbor"
)

const slotsPerKes = 129600 // the authenticator's documented default

type pool struct {
	idx      int
	coldPriv ed25519.PrivateKey
	coldPub  ed25519.PublicKey
	kesSeed  []byte
	kesPub   []byte
	poolID   string
}

var (
	poolCache = map[[2]int]*pool{}
	skCache   = map[string]*kes.SecretKey{}
)

func newPool(idx int, seedByte byte) *pool {
	if p, ok := poolCache[[2]int{idx, int(seedByte)}]; ok {
		return p
	}
	p := newPoolUncached(idx, seedByte)
	poolCache[[2]int{idx, int(seedByte)}] = p
	return p
}

func newPoolUncached(idx int, seedByte byte) *pool {
	seed := make([]byte, 32)
	for i := range seed {
		seed[i] = seedByte ^ byte(i*7+idx)
	}
	priv := ed25519.NewKeyFromSeed(seed)
	kseed := make([]byte, 32)
	for i := range kseed {
		kseed[i] = seedByte + byte(i) + byte(idx*31)
	}
	_, kpub, err := kes.KeyGen(kes.CardanoKesDepth, kseed)
	if err != nil {
		panic(err)
	}
	h := blake2b.Sum256(priv.Public().(ed25519.PublicKey))
	return &pool{idx: idx, coldPriv: priv, coldPub: priv.Public().(ed25519.PublicKey), kesSeed: kseed, kesPub: kpub, poolID: hex.EncodeToString(h[:])}
}

// kesSignAt signs msg with the pool's KES key evolved t times.
func (p *pool) kesSignAt(t uint64, msg []byte) []byte {
	ck := fmt.Sprintf("%x/%d", p.kesSeed, t)
	sk, ok := skCache[ck]
	if !ok {
		var err error
		sk, _, err = kes.KeyGen(kes.CardanoKesDepth, p.kesSeed)
		if err != nil {
			panic(err)
		}
		for i := uint64(0); i < t; i++ {
			sk, err = kes.Update(sk)
			if err != nil {
				panic(err)
			}
		}
		skCache[ck] = sk
	}
	sig, err := kes.Sign(sk, t, msg)
	if err != nil {
		panic(err)
	}
	return sig
}

// msgSpec is a fully explicit description of one submitted message.
type msgSpec struct {
	Pool       int    `json:"pool"`
	Issue      uint64 `json:"issue"`
	OpStart    uint64 `json:"opcert_kes_period"`
	PayloadKP  uint64 `json:"payload_kes_period"`
	Evolution  uint64 `json:"key_evolution"`
	Body       string `json:"body_hex"`
	ExpiresAt  uint32 `json:"expires_at"`
	Corruption string `json:"corruption"`
	UseSlotAPI bool   `json:"with_slot_api"`
}

// build returns the library message and which of the three cryptographic
// conditions hold for it by construction.
func build(pools []*pool, s msgSpec, rt *rapid.T) (*pcommon.DmqMessage, bool, bool, bool, uint64) {
	p := pools[s.Pool]
	body, _ := hex.DecodeString(s.Body)
	payload := xcbor.A(xcbor.B(body), xcbor.U(s.PayloadKP), xcbor.U(uint64(s.ExpiresAt))).Encode()
	id := blake2b.Sum256(payload)
	wrapped := xcbor.B(payload).Encode()
	kesSig := p.kesSignAt(s.Evolution, wrapped)
	certData := xcbor.A(xcbor.B(p.kesPub), xcbor.U(s.Issue), xcbor.U(s.OpStart)).Encode()
	coldSig := ed25519.Sign(p.coldPriv, certData)

	msg := &pcommon.DmqMessage{
		MessageID:    append([]byte{}, id[:]...),
		Payload:      pcommon.DmqMessagePayload{MessageBody: body, KESPeriod: s.PayloadKP, ExpiresAt: s.ExpiresAt},
		KESSignature: kesSig,
		OperationalCertificate: pcommon.OperationalCertificate{
			KESVerificationKey: append([]byte{}, p.kesPub...),
			IssueNumber:        s.Issue,
			KESPeriod:          s.OpStart,
			ColdSignature:      coldSig,
		},
		ColdVerificationKey: append([]byte{}, p.coldPub...),
	}
	// the slot the verifier is told about: evolution periods after the payload period
	slot := (s.PayloadKP+s.Evolution)*slotsPerKes + 17
	idOK, coldOK, kesOK := true, true, true
	if !s.UseSlotAPI && s.Evolution != 0 {
		// VerifyMessage derives the slot from the payload period, i.e. evolution 0
		kesOK = false
	}
	flip := func(b []byte, label string) {
		i := rapid.IntRange(0, len(b)-1).Draw(rt, label+"Byte")
		b[i] ^= 1 << uint(rapid.IntRange(0, 7).Draw(rt, label+"Bit"))
	}
	switch s.Corruption {
	case "":
	case "id-bit":
		flip(msg.MessageID, "id")
		idOK = false
	case "body-changed-id-stale": // payload edited after hashing and signing
		msg.Payload.MessageBody = append(append([]byte{}, body...), 0x01)
		idOK, kesOK = false, false
	case "body-changed-id-recomputed": // only the KES signature still binds the old payload
		nb := append(append([]byte{}, body...), 0x01)
		msg.Payload.MessageBody = nb
		np := xcbor.A(xcbor.B(nb), xcbor.U(s.PayloadKP), xcbor.U(uint64(s.ExpiresAt))).Encode()
		nid := blake2b.Sum256(np)
		msg.MessageID = nid[:]
		kesOK = false
	case "expiry-changed-id-recomputed":
		msg.Payload.ExpiresAt = s.ExpiresAt + 1
		np := xcbor.A(xcbor.B(body), xcbor.U(s.PayloadKP), xcbor.U(uint64(s.ExpiresAt)+1)).Encode()
		nid := blake2b.Sum256(np)
		msg.MessageID = nid[:]
		kesOK = false
	case "kes-sig-bit":
		flip(msg.KESSignature, "kes")
		kesOK = false
	case "wrong-evolution": // verifier is told a slot one period later than the key was evolved to
		slot += slotsPerKes
		kesOK = false
	case "slot-before-payload-period":
		if s.PayloadKP > 0 {
			slot = (s.PayloadKP-1)*slotsPerKes + 5
			kesOK = false
		}
	case "opcert-issue-changed":
		msg.OperationalCertificate.IssueNumber = s.Issue + 1
		coldOK = false
	case "opcert-period-changed":
		msg.OperationalCertificate.KESPeriod = s.OpStart + 1
		coldOK = false
	case "opcert-kes-key-other-pool": // cert no longer signed for this KES key; the KES signature does not verify under it either
		o := pools[(s.Pool+1)%len(pools)]
		msg.OperationalCertificate.KESVerificationKey = append([]byte{}, o.kesPub...)
		coldOK, kesOK = false, false
	case "cold-sig-bit":
		flip(msg.OperationalCertificate.ColdSignature, "cold")
		coldOK = false
	case "cold-key-other-pool": // claims another (possibly registered) pool's identity
		o := pools[(s.Pool+1)%len(pools)]
		msg.ColdVerificationKey = append([]byte{}, o.coldPub...)
		coldOK = false
	case "kes-key-swapped-and-resigned-by-attacker":
		// an attacker without the cold key substitutes its own KES key and signs the payload with it
		att := newPool(9, 0xEE)
		msg.OperationalCertificate.KESVerificationKey = append([]byte{}, att.kesPub...)
		msg.KESSignature = att.kesSignAt(s.Evolution, wrapped)
		coldOK = false // the cold signature covers the original KES key
	default:
		panic("unknown corruption " + s.Corruption)
	}
	return msg, idOK, coldOK, kesOK, slot
}

var corruptions = []string{"id-bit", "body-changed-id-stale", "body-changed-id-recomputed", "expiry-changed-id-recomputed",
	"kes-sig-bit", "wrong-evolution", "slot-before-payload-period", "opcert-issue-changed", "opcert-period-changed",
	"opcert-kes-key-other-pool", "cold-sig-bit", "cold-key-other-pool", "kes-key-swapped-and-resigned-by-attacker"}

func realVerifier(payload, sig, vkey []byte, kesPeriod, slot, spkp uint64) (bool, error) {
	return ledger.VerifyKesComponents(payload, sig, vkey, kesPeriod, slot, spkp)
}

func TestC46(t *testing.T) {
	rec := evi.New(t, "C46", evi.Exploration,
		"rapid state machine over one MessageAuthenticator and 3 pools (ed25519 cold keys, depth-6 KES keys): actions register / unregister pool, submit a correctly signed message (issue number from a walk around the last accepted one with occasional jumps to 2^31, 2^32, 2^63, 2^64 edges, KES key evolved 0..3 periods, via VerifyMessage or VerifyMessageWithSlot), submit the same with exactly one of 13 corruptions, re-submit the last ACCEPTED message of a pool unchanged or with one of the corruptions (same cold key and signature), set / clear the real KES verifier (ledger.VerifyKesComponents), toggle insecure mode, drop the counter cache entry. Model: registered set + last accepted counter per pool + verifier/insecure flags; invariant after every submission: accepted <=> id ok AND cold signature ok AND (verifier set ? KES ok : insecure) AND registered AND counter >= last accepted; counter moves only on acceptance (observed through later submissions). non-trivial = a sequence containing >= 1 accepted and >= 1 rejected submission; distinct by the action history")
	defer rec.Finish()
	rec.Assume("the injected verifier is ledger.VerifyKesComponents (evolution = slot/slotsPerKESPeriod - payload KES period), i.e. the verifier a node would inject",
		"KES signing itself is the library's kes package (its correctness is property C39)")
	logger := slog.New(slog.NewTextHandler(io.Discard, nil))

	rec.Check(func(rt *rapid.T) {
		seedByte := byte(rapid.IntRange(0, 3).Draw(rt, "keySeed"))
		pools := []*pool{newPool(0, seedByte), newPool(1, seedByte), newPool(2, seedByte)}
		auth := pcommon.NewMessageAuthenticator(logger)
		// model
		registered := map[int]bool{}
		last := map[int]uint64{}
		hasLast := map[int]bool{}
		lastGenuine := map[int]msgSpec{}
		verifierSet := false
		insecure := false
		var hist []string
		accepted, rejected := 0, 0

		submit := func(s msgSpec) {
			msg, idOK, coldOK, kesOK, slot := build(pools, s, rt)
			want := idOK && coldOK && registered[s.Pool] && (!hasLast[s.Pool] || s.Issue >= last[s.Pool])
			if s.Corruption == "opcert-issue-changed" {
				// the counter the authenticator sees is the edited one; irrelevant because coldOK is false
				want = false
			}
			if verifierSet {
				want = want && kesOK
			} else {
				want = want && insecure
			}
			var err error
			if s.UseSlotAPI {
				err = auth.VerifyMessageWithSlot(msg, slot)
			} else {
				err = auth.VerifyMessage(msg)
			}
			got := err == nil
			rec.Eval()
			h := fmt.Sprintf("submit{pool=%d issue=%d evo=%d slotapi=%v corrupt=%q}->%v", s.Pool, s.Issue, s.Evolution, s.UseSlotAPI, s.Corruption, got)
			hist = append(hist, h)
			if got {
				accepted++
			} else {
				rejected++
			}
			if s.Corruption != "" {
				rec.Class("corrupt:" + s.Corruption)
			}
			if got != want {
				kind := "rejected-genuine"
				if got {
					kind = "accepted-unauthenticated"
				}
				cond := fmt.Sprintf("id=%v cold=%v kes=%v registered=%v counterOK=%v verifier=%v insecure=%v", idOK, coldOK, kesOK, registered[s.Pool],
					!hasLast[s.Pool] || s.Issue >= last[s.Pool], verifierSet, insecure)
				key := fmt.Sprintf("%s:corruption=%s:%s", kind, orNone(s.Corruption), condKey(idOK, coldOK, kesOK, registered[s.Pool], !hasLast[s.Pool] || s.Issue >= last[s.Pool], verifierSet, insecure))
				rec.Fail(rt, key, fmt.Sprintf("authenticator returned %v (err=%v), model expects accept=%v; %s; history: %s", got, err, want, cond, strings.Join(hist, " ; ")),
					map[string]any{"history": hist, "message": s, "conditions": cond})
			}
			if got {
				last[s.Pool] = s.Issue
				hasLast[s.Pool] = true
				if s.Corruption == "" {
					lastGenuine[s.Pool] = s
				}
			}
		}

		genSpec := func() msgSpec {
			pi := rapid.IntRange(0, 2).Draw(rt, "pool")
			base := uint64(5)
			if hasLast[pi] {
				base = last[pi]
			}
			// occasionally jump to a counter near a width boundary (uint32 / int64 / uint64 edges)
			if rapid.IntRange(0, 7).Draw(rt, "issueJump") == 0 {
				base = rapid.SampledFrom([]uint64{0, 1, 1<<31 - 1, 1 << 31, 1<<32 - 2, 1<<32 - 1, 1 << 32, 1<<63 - 2, 1<<63 - 1, 1 << 63, 1<<64 - 3}).Draw(rt, "issueEdge")
				rec.Class("issue_number_edge")
			}
			delta := rapid.IntRange(-2, 3).Draw(rt, "issueDelta")
			issue := base
			if delta < 0 && uint64(-delta) <= base {
				issue = base - uint64(-delta)
			} else if delta > 0 {
				issue = base + uint64(delta)
			}
			return msgSpec{
				Pool: pi, Issue: issue,
				OpStart:    uint64(rapid.IntRange(0, 400).Draw(rt, "opStart")),
				PayloadKP:  uint64(rapid.IntRange(0, 500).Draw(rt, "payloadPeriod")),
				Evolution:  uint64(rapid.IntRange(0, 3).Draw(rt, "evolution")),
				Body:       hex.EncodeToString(rapid.SliceOfN(rapid.Byte(), 0, 40).Draw(rt, "body")),
				ExpiresAt:  rapid.Uint32Range(0, 1<<31).Draw(rt, "expires"),
				UseSlotAPI: rapid.Bool().Draw(rt, "slotAPI"),
			}
		}

		rt.Repeat(map[string]func(*rapid.T){
			"register": func(rt *rapid.T) {
				i := rapid.IntRange(0, 2).Draw(rt, "pool")
				auth.RegisterSPOPool(pools[i].poolID)
				registered[i] = true
				hist = append(hist, fmt.Sprintf("register(%d)", i))
			},
			"unregister": func(rt *rapid.T) {
				i := rapid.IntRange(0, 2).Draw(rt, "pool")
				auth.UnregisterSPOPool(pools[i].poolID)
				delete(registered, i)
				hist = append(hist, fmt.Sprintf("unregister(%d)", i))
			},
			"setVerifier": func(rt *rapid.T) {
				auth.SetKESVerifier(realVerifier)
				verifierSet = true
				hist = append(hist, "setVerifier")
			},
			"clearVerifier": func(rt *rapid.T) {
				auth.SetKESVerifier(nil)
				verifierSet = false
				hist = append(hist, "clearVerifier")
			},
			"toggleInsecure": func(rt *rapid.T) {
				insecure = !insecure
				auth.SetAllowInsecureKES(insecure)
				hist = append(hist, fmt.Sprintf("insecure=%v", insecure))
			},
			"dropCounter": func(rt *rapid.T) {
				i := rapid.IntRange(0, 2).Draw(rt, "pool")
				auth.RemoveKESOpCertCacheEntry(pools[i].poolID)
				delete(last, i)
				delete(hasLast, i)
				hist = append(hist, fmt.Sprintf("dropCounter(%d)", i))
			},
			"submitGenuine": func(rt *rapid.T) {
				s := genSpec()
				if !s.UseSlotAPI && rapid.IntRange(0, 2).Draw(rt, "forceEvo0") != 0 {
					s.Evolution = 0
				}
				submit(s)
			},
			"submitCorrupted": func(rt *rapid.T) {
				s := genSpec()
				s.Corruption = corruptions[rapid.IntRange(0, len(corruptions)-1).Draw(rt, "corruption")]
				if s.Corruption == "wrong-evolution" || s.Corruption == "slot-before-payload-period" {
					s.UseSlotAPI = true // these corrupt the slot handed to the verifier
					if s.Corruption == "slot-before-payload-period" && s.PayloadKP == 0 {
						s.PayloadKP = 1
					}
				}
				submit(s)
			},
			// the message that was just accepted, sent again with one field changed (same
			// cold key, same cold signature, same certificate otherwise): whatever the
			// authenticator remembered from the genuine one must not vouch for the changed one
			"replayAcceptedCorrupted": func(rt *rapid.T) {
				var cands []int
				for i := 0; i < 3; i++ {
					if _, ok := lastGenuine[i]; ok {
						cands = append(cands, i)
					}
				}
				if len(cands) == 0 {
					rt.Skip("nothing accepted yet")
				}
				s := lastGenuine[cands[rapid.IntRange(0, len(cands)-1).Draw(rt, "replayPool")]]
				s.Corruption = corruptions[rapid.IntRange(0, len(corruptions)-1).Draw(rt, "corruption")]
				if s.Corruption == "wrong-evolution" || s.Corruption == "slot-before-payload-period" {
					s.UseSlotAPI = true
					if s.Corruption == "slot-before-payload-period" && s.PayloadKP == 0 {
						s.PayloadKP = 1
					}
				}
				rec.Class("replay_of_accepted_with_corruption")
				submit(s)
			},
			"replayAcceptedGenuine": func(rt *rapid.T) {
				for i := 0; i < 3; i++ {
					if s, ok := lastGenuine[i]; ok && rapid.Bool().Draw(rt, "replayThis") {
						submit(s)
						return
					}
				}
				rt.Skip("nothing to replay")
			},
			"": func(rt *rapid.T) {
				for i, p := range pools {
					if auth.IsSPOPoolRegistered(p.poolID) != registered[i] {
						rec.Fail(rt, "registration-state", fmt.Sprintf("IsSPOPoolRegistered(pool %d)=%v, model %v; history %s", i, !registered[i], registered[i], strings.Join(hist, " ; ")), hist)
					}
				}
			},
		})
		if accepted > 0 && rejected > 0 {
			rec.NonTrivial(strings.Join(hist, ";"), map[string]any{"history": hist})
		}
		if accepted > 0 {
			rec.Class("seq_with_acceptance")
		}
	})
}

func orNone(s string) string {
	if s == "" {
		return "none"
	}
	return s
}

func condKey(id, cold, kesok, reg, ctr, ver, ins bool) string {
	b := func(n string, v bool) string {
		if v {
			return n
		}
		return "!" + n
	}
	return strings.Join([]string{b("id", id), b("cold", cold), b("kes", kesok), b("reg", reg), b("ctr", ctr), b("verifier", ver), b("insecure", ins)}, ",")
}
