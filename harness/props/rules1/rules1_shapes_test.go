package rules1

// "Tokens dropped / tokens appear" shapes for C27: small transactions whose
// coin side is exactly balanced, so that the per-asset side alone decides.
// The position of the token-bearing input among the inputs (in encoded = sorted
// order), of the token-bearing output among the outputs, and the presence of a
// mint / burn are explicit parameters.

import (
	"fmt"
	"math/big"
	"sort"

	"pgregory.net/rapid"
)

type shapeSpec struct {
	NIn      int      // 2..3 inputs
	TokIn    int      // index (in sorted input order) of the token-bearing input, -1 = none
	NOut     int      // 1..3 outputs
	TokOut   int      // index of the token-bearing output, -1 = none
	Mint     *big.Int // nil = no mint field; >0 mint; <0 burn
	InQty    *big.Int // quantity held by the token-bearing input
	OutQty   *big.Int // quantity written into the token-bearing output (nil: whatever balances, if positive)
	OwnPol   bool     // token under a policy we can mint (needed for mint/burn); else foreign
	MapForm  bool
	UtxoMap  bool
	Name     string
	ExtraIn  bool // a second, different asset travels correctly from the same input to output 0
	CoinSeed uint64
}

func (s shapeSpec) String() string {
	pos := func(i, n int) string {
		if i < 0 {
			return "none"
		}
		return fmt.Sprintf("%d/%d", i, n)
	}
	m := "none"
	if s.Mint != nil {
		if s.Mint.Sign() > 0 {
			m = "mint"
		} else {
			m = "burn"
		}
	}
	return fmt.Sprintf("shape:tok-in=%s:tok-out=%s:%s", pos(s.TokIn, s.NIn), pos(s.TokOut, s.NOut), m)
}

// buildShape makes the transaction; the coin side is balanced exactly
// (sum of inputs = sum of outputs + fee), fee and min-UTxO are satisfied.
func buildShape(era Era, s shapeSpec, p Params) *Case {
	tx := &TxSpec{Era: era, Net: 0}
	if era == Shelley {
		tx.TTL = u64p(100_000)
	}
	c := &Case{Tx: tx, P: p, SS: newStSpec(), Slot: 5000, UtxoMap: s.UtxoMap && era >= Babbage, Sink: 0}
	polKey := payKeys[int(s.CoinSeed%4)]
	id := AssetID{Policy: foreignPolicy(0), Name: s.Name}
	if s.Mint != nil {
		id.Policy = policyOfKey(polKey)
	} else if !s.OwnPol {
		// without a mint field the token may sit under any policy id, including
		// the special ones (28x00, 28xff, ...)
		sp := specialPolicies()
		if k := int(s.CoinSeed % uint64(len(sp)+1)); k < len(sp) {
			id.Policy = sp[k].ID
		}
	} else {
		id.Policy = policyOfKey(polKey)
	}
	other := AssetID{Policy: foreignPolicy(1), Name: "tok"}
	// inputs with increasing tx ids so that the encoded order is the index order
	var ins []In
	for i := 0; i < s.NIn; i++ {
		ins = append(ins, In{TxID: hash256([]byte(fmt.Sprintf("shape/%d/%d", s.CoinSeed, i))), Ix: uint32(i),
			Key: payKeys[(int(s.CoinSeed)+i)%4], V: Val{Coin: 40_000_000 + (s.CoinSeed*7919+uint64(i)*104729)%20_000_000}})
	}
	sort.Slice(ins, func(a, b int) bool { return string(ins[a].TxID[:]) < string(ins[b].TxID[:]) })
	if s.TokIn >= 0 {
		ins[s.TokIn].V.Assets = append(ins[s.TokIn].V.Assets, AQ{id, new(big.Int).Set(s.InQty)})
		if s.ExtraIn {
			ins[s.TokIn].V.Assets = append(ins[s.TokIn].V.Assets, AQ{other, big.NewInt(5)})
		}
	}
	tx.Ins = ins
	if s.Mint != nil {
		tx.Mint = []AQ{{id, new(big.Int).Set(s.Mint)}}
		tx.MintKeys = []int{polKey}
	}
	for i := 0; i < s.NOut; i++ {
		tx.Outs = append(tx.Outs, Out{Addr: payAddr(0, payKeys[(int(s.CoinSeed)+i+1)%4]), MapForm: s.MapForm && era >= Babbage})
	}
	if s.TokOut >= 0 {
		q := s.OutQty
		if q == nil {
			q = new(big.Int)
			if s.TokIn >= 0 {
				q.Add(q, s.InQty)
			}
			if s.Mint != nil {
				q.Add(q, s.Mint)
			}
			if q.Sign() <= 0 {
				q = big.NewInt(7) // nothing to pay out: tokens appear from nowhere
			}
		}
		tx.Outs[s.TokOut].V.Assets = append(tx.Outs[s.TokOut].V.Assets, AQ{id, new(big.Int).Set(q)})
	}
	if s.ExtraIn && s.TokIn >= 0 {
		tx.Outs[0].V.Assets = append(tx.Outs[0].V.Assets, AQ{other, big.NewInt(5)})
	}
	// coin: exact balance
	total := uint64(0)
	for _, in := range tx.Ins {
		total += in.V.Coin
	}
	tx.Fee = p.MinFeeA*2000 + p.MinFeeB + 1000
	rest := total - tx.Fee
	for i := range tx.Outs {
		share := rest / uint64(len(tx.Outs)-i)
		if i == len(tx.Outs)-1 {
			share = rest
		}
		tx.Outs[i].V.Coin = share
		rest -= share
	}
	return c
}

// shapeSweep enumerates the shapes deterministically (fixed quantities).
func shapeSweep() []shapeSpec {
	var out []shapeSpec
	seed := uint64(0)
	for nIn := 2; nIn <= 3; nIn++ {
		for tokIn := -1; tokIn < nIn; tokIn++ {
			for nOut := 1; nOut <= 3; nOut++ {
				for tokOut := -1; tokOut < nOut; tokOut++ {
					for m := 0; m < 3; m++ {
						seed++
						s := shapeSpec{NIn: nIn, TokIn: tokIn, NOut: nOut, TokOut: tokOut, InQty: big.NewInt(100),
							Name: "tok", CoinSeed: seed, OwnPol: m != 0 || seed%2 == 1, MapForm: seed%2 == 0, UtxoMap: seed%3 == 0}
						switch m {
						case 1:
							s.Mint = big.NewInt(40)
						case 2:
							s.Mint = big.NewInt(-40)
							if tokIn >= 0 && tokOut < 0 {
								s.Mint = big.NewInt(-100) // burn everything: balanced without any token output
							}
						}
						out = append(out, s)
					}
				}
			}
		}
	}
	return out
}

// genShape draws a shape with rapid (positions, quantities, forms, an
// optional off-by-one in the paid-out quantity).
func genShape(rt *rapid.T) shapeSpec {
	s := shapeSpec{NIn: rapid.IntRange(2, 3).Draw(rt, "shapeNIn"), NOut: rapid.IntRange(1, 3).Draw(rt, "shapeNOut"),
		Name: assetNames[rapid.IntRange(0, len(assetNames)-1).Draw(rt, "shapeName")], CoinSeed: rapid.Uint64Range(0, 1<<20).Draw(rt, "shapeSeed"),
		OwnPol: rapid.Bool().Draw(rt, "shapeOwnPol"), MapForm: rapid.Bool().Draw(rt, "shapeMap"), UtxoMap: rapid.Bool().Draw(rt, "shapeUtxoMap"),
		ExtraIn: rapid.IntRange(0, 3).Draw(rt, "shapeExtra") == 0}
	s.TokIn = rapid.IntRange(-1, s.NIn-1).Draw(rt, "shapeTokIn")
	s.TokOut = rapid.IntRange(-1, s.NOut-1).Draw(rt, "shapeTokOut")
	if rapid.IntRange(0, 2).Draw(rt, "shapeDropBias") == 0 {
		// the plain "tokens dropped" family: tokens come in, nothing else mentions them
		if s.TokIn < 0 {
			s.TokIn = rapid.IntRange(0, s.NIn-1).Draw(rt, "shapeTokIn2")
		}
		s.TokOut = -1
		s.ExtraIn = false
	}
	s.InQty = genQty(rt, "shapeInQty")
	switch rapid.IntRange(0, 3).Draw(rt, "shapeMint") {
	case 1:
		s.Mint = new(big.Int).SetUint64(rapid.Uint64Range(1, 1_000_000).Draw(rt, "shapeMintQ"))
	case 2:
		if s.TokIn >= 0 && rapid.Bool().Draw(rt, "shapeBurnAll") {
			s.Mint = new(big.Int).Neg(s.InQty)
		} else {
			s.Mint = new(big.Int).Neg(new(big.Int).SetUint64(rapid.Uint64Range(1, 1_000_000).Draw(rt, "shapeBurnQ")))
		}
		if !s.Mint.IsInt64() {
			s.Mint = big.NewInt(-1)
		}
	}
	if s.TokOut >= 0 && rapid.IntRange(0, 3).Draw(rt, "shapeOutOff") == 0 {
		q := new(big.Int)
		if s.TokIn >= 0 {
			q.Add(q, s.InQty)
		}
		if s.Mint != nil {
			q.Add(q, s.Mint)
		}
		q.Add(q, big.NewInt(int64(rapid.IntRange(-1, 1).Draw(rt, "shapeOutDelta"))))
		if q.Sign() > 0 && q.IsUint64() {
			s.OutQty = q
		}
	}
	return s
}

// ---- certificate-sequence sweep ---------------------------------------------

type certSeq struct {
	Name  string
	Certs []Cert
}

// certSweep lists hand-written valid certificate sequences (against the state
// made by certSweepState) that exercise repeated (de)registrations of the SAME
// credential / pool / DRep within one transaction.
func certSweep(era Era, p Params) []certSeq {
	const K, K2, U, P, PN, D, DN = 4, 6, 5, 8, 9, 10, 11 // K,K2 registered keys; U unregistered; P registered pool; PN new pool; D registered drep; DN new
	reg := func(k int) Cert {
		if era >= Dijkstra {
			return Cert{Kind: CReg, Key: k, Amount: p.KeyDeposit}
		}
		return Cert{Kind: CStakeReg, Key: k}
	}
	dereg := func(k int) Cert {
		if era >= Dijkstra {
			return Cert{Kind: CUnreg, Key: k, Amount: p.KeyDeposit}
		}
		return Cert{Kind: CStakeDereg, Key: k}
	}
	pool := func(k int) Cert { return Cert{Kind: CPoolReg, Key: k, Pool: k} }
	out := []certSeq{
		{"dereg-reg-dereg-same-key", []Cert{dereg(K), reg(K), dereg(K)}},
		{"dereg-reg-dereg-reg-same-key", []Cert{dereg(K), reg(K), dereg(K), reg(K)}},
		{"reg-dereg-reg-same-key", []Cert{reg(U), dereg(U), reg(U)}},
		{"reg-dereg-same-key", []Cert{reg(U), dereg(U)}},
		{"dereg-two-keys", []Cert{dereg(K), dereg(K2)}},
		{"dereg-one-key", []Cert{dereg(K)}},
		{"reg-one-key", []Cert{reg(U)}},
		{"pool-new", []Cert{pool(PN)}},
		{"pool-rereg", []Cert{pool(P)}},
		{"pool-new-and-rereg", []Cert{pool(PN), pool(P)}},
		{"pool-new-then-retire", []Cert{pool(PN), {Kind: CPoolRetire, Key: PN, Pool: PN, Amount: 5}}},
		{"pool-retire", []Cert{{Kind: CPoolRetire, Key: P, Pool: P, Amount: 5}}},
		{"pool-rereg-then-retire", []Cert{pool(P), {Kind: CPoolRetire, Key: P, Pool: P, Amount: 7}}},
		{"pool-retire-then-rereg", []Cert{{Kind: CPoolRetire, Key: P, Pool: P, Amount: 7}, pool(P)}},
		{"pool-retire-then-new", []Cert{{Kind: CPoolRetire, Key: P, Pool: P, Amount: 7}, pool(PN)}},
		{"pool-new-retire-rereg", []Cert{pool(PN), {Kind: CPoolRetire, Key: PN, Pool: PN, Amount: 7}, pool(P)}},
	}
	if era >= Conway {
		creg := func(k int) Cert { return Cert{Kind: CReg, Key: k, Amount: p.KeyDeposit} }
		cunreg := func(k int) Cert { return Cert{Kind: CUnreg, Key: k, Amount: p.KeyDeposit} }
		dreg := func(k int) Cert { return Cert{Kind: CDRepReg, Key: k, Amount: p.DRepDeposit} }
		dunreg := func(k int) Cert { return Cert{Kind: CDRepUnreg, Key: k, Amount: p.DRepDeposit} }
		out = append(out,
			certSeq{"unreg-reg-unreg-same-key", []Cert{cunreg(K), creg(K), cunreg(K)}},
			certSeq{"drep-unreg-reg-unreg", []Cert{dunreg(D), dreg(D), dunreg(D)}},
			certSeq{"drep-reg-unreg-reg", []Cert{dreg(DN), dunreg(DN), dreg(DN)}},
			certSeq{"drep-reg", []Cert{dreg(DN)}},
			certSeq{"drep-unreg", []Cert{dunreg(D)}},
			certSeq{"reg-deleg-kinds", []Cert{{Kind: CStakeRegDeleg, Key: U, Pool: P, Amount: p.KeyDeposit}, cunreg(U), {Kind: CVoteRegDeleg, Key: U, Amount: p.KeyDeposit}}},
		)
		if era == Conway {
			out = append(out, certSeq{"mixed-old-new-kinds", []Cert{{Kind: CStakeDereg, Key: K}, creg(K), cunreg(K), {Kind: CStakeReg, Key: K}}})
		}
	}
	return out
}

// buildCertCase: one input, one output, the given certificates; the output
// coin is solved from the reference formula so that the case is balanced.
func buildCertCase(era Era, cs []Cert, p Params, delta int64, poolRetiring *uint64) *Case {
	ss := newStSpec()
	ss.StakeReg[4], ss.StakeReg[6] = true, true
	ss.Pools[8] = true
	ss.PoolRetiring[8] = poolRetiring // pool 8 is registered, possibly with a pending retirement
	ss.DReps[10] = true
	in := In{TxID: hash256([]byte("certsweep")), Ix: 0, Key: 0, V: Val{Coin: 5_000_000_000}}
	tx := &TxSpec{Era: era, Net: 0, Ins: []In{in}, Certs: cs, Fee: p.MinFeeA*3000 + p.MinFeeB + 1000,
		Outs: []Out{{Addr: payAddr(0, 1), MapForm: era >= Babbage}}}
	if era == Shelley {
		tx.TTL = u64p(100_000)
	}
	c := &Case{Tx: tx, P: p, SS: ss, Slot: 5000}
	rem := new(big.Int).Sub(refConsumed(tx, p).Coin, refProduced(tx, p, ss).Coin)
	rem.Add(rem, big.NewInt(delta))
	tx.Outs[0].V.Coin = rem.Uint64()
	return c
}
