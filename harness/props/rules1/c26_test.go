package rules1

import (
	"fmt"
	"testing"

	"github.com/blinklabs-io/gouroboros/ledger/common"
	"pgregory.net/rapid"

	"verif/harness/internal/evi"
)

func fmtSubTxs(ss []SubTx) string {
	out := "["
	for i, st := range ss {
		if i > 0 {
			out += " "
		}
		out += "(" + fmtOpt(st.Start) + "," + fmtOpt(st.TTL) + ")"
	}
	return out + "]"
}

func fmtOpt(v *uint64) string {
	if v == nil {
		return "absent"
	}
	return fmt.Sprintf("%d", *v)
}

// c26Key names the violated bound: the failing input class of a case where the
// full rule list accepted although the reference interval excludes the slot.
func c26Key(era Era, slot uint64, start, ttl *uint64, hasSubTx bool) string {
	sfx := ""
	if hasSubTx {
		// the transaction carries sub-transactions (Dijkstra body key 23)
		sfx = ":subtx"
	}
	if era != Shelley && start != nil && slot < *start {
		return fmt.Sprintf("C26:%s:accepted-before-validity-start%s", era, sfx)
	}
	if ttl != nil && *ttl == 0 {
		// a top-level ttl of exactly 0: the known absent/zero conflation, with or without sub-transactions
		return fmt.Sprintf("C26:%s:ttl-0-treated-as-absent", era)
	}
	if era == Shelley {
		return "C26:shelley:accepted-after-ttl"
	}
	return fmt.Sprintf("C26:%s:invalid-hereafter-not-enforced%s", era, sfx)
}

// subTxNarrows reports whether some sub-transaction's own interval excludes
// the slot. The statement only speaks about the top-level interval; whether a
// narrower sub-transaction interval must reject the batch is left unspecified
// here (a rejection in that situation is counted separately, never flagged).
func subTxNarrows(tx *TxSpec, slot uint64) bool {
	for _, st := range tx.SubTxs {
		if !refIntervalOK(Dijkstra, slot, st.Start, st.TTL) {
			return true
		}
	}
	return false
}

type c26Result struct {
	decoded    bool
	fullAccept bool
	ruleAccept bool
	err        error
}

func c26Run(c *Case) (c26Result, []byte, error) {
	era := c.Tx.Era
	st, err := c.state()
	if err != nil {
		return c26Result{}, nil, fmt.Errorf("state: %w", err)
	}
	raw, _ := c.Tx.Encode()
	dtx, err := decodeTx(era, raw)
	if err != nil {
		return c26Result{err: err}, raw, nil
	}
	pp := c.P.forEra(era)
	res := c26Result{decoded: true}
	res.err = common.VerifyTransaction(dtx, c.Slot, st, pp, rulesFor(era))
	res.fullAccept = res.err == nil
	res.ruleAccept = intervalRule(era)(dtx, c.Slot, st, pp) == nil
	return res, raw, nil
}

// c26Judge applies the one-directional oracle and records the evidence classes.
// report is rec.Fail (inside rapid) or rec.Violation (enumeration).
func c26Judge(rec *evi.Recorder, c *Case, res c26Result, raw []byte, report func(key, what string, cs any)) {
	era := c.Tx.Era
	tx := c.Tx
	want := refIntervalOK(era, c.Slot, tx.Start, tx.TTL)
	rec.Eval()
	rec.Class(fmt.Sprintf("%s:ref_%v", era, map[bool]string{true: "accept", false: "reject"}[want]))
	if !res.decoded {
		rec.Class(fmt.Sprintf("%s:decode_rejected", era))
		return
	}
	if len(tx.SubTxs) > 0 {
		rec.Class(fmt.Sprintf("dijkstra:sub_transactions=%d", len(tx.SubTxs)))
		unb := false
		for _, st := range tx.SubTxs {
			unb = unb || st.TTL == nil
		}
		if unb && tx.TTL != nil && *tx.TTL != 0 && c.Slot >= *tx.TTL {
			rec.Class("dijkstra:slot_past_top_ttl_with_unbounded_subtx")
		}
	}
	if tx.TTL != nil || tx.Start != nil {
		rec.NonTrivial(fmt.Sprintf("%s slot=%d start=%s ttl=%s sub=%s", era, c.Slot, fmtOpt(tx.Start), fmtOpt(tx.TTL), fmtSubTxs(tx.SubTxs)),
			map[string]any{"era": era.String(), "slot": c.Slot, "start": fmtOpt(tx.Start), "ttl": fmtOpt(tx.TTL), "sub_transactions": fmtSubTxs(tx.SubTxs),
				"ref_accepts": want, "lib_accepts": res.fullAccept, "tx": evi.Hex(raw)})
	}
	switch {
	case res.fullAccept && want:
		rec.Class(fmt.Sprintf("%s:both_accept", era))
	case !res.fullAccept && !want:
		rec.Class(fmt.Sprintf("%s:both_reject", era))
	case !res.fullAccept && want && subTxNarrows(tx, c.Slot):
		rec.Class("dijkstra:subtx_interval_excludes_slot:rejected(unspecified)")
	case !res.fullAccept && want:
		// statement is "accepts only if": over-rejection is counted, not flagged
		rec.Class(fmt.Sprintf("%s:over_rejection", era))
		rec.Class("over_rejection_total")
	case res.fullAccept && !want:
		rec.Class(fmt.Sprintf("%s:lib_accepts_outside_interval", era))
		what := fmt.Sprintf("%s: full rule list (VerifyTransaction) accepts at slot %d a transaction with validity start %s and ttl/invalid-hereafter %s; reference interval excludes the slot (single interval rule accepts: %v)",
			era, c.Slot, fmtOpt(tx.Start), fmtOpt(tx.TTL), res.ruleAccept)
		if len(tx.SubTxs) > 0 {
			what += "; sub-transactions (start, ttl): " + fmtSubTxs(tx.SubTxs)
		}
		report(c26Key(era, c.Slot, tx.Start, tx.TTL, len(tx.SubTxs) > 0), what,
			map[string]any{"era": era.String(), "slot": c.Slot, "start": fmtOpt(tx.Start), "ttl": fmtOpt(tx.TTL),
				"tx_cbor": evi.Hex(raw), "net": tx.Net, "params": c.P})
	}
}

// boundary values around s, deduplicated, nil = absent
func c26Bounds(s uint64) []*uint64 {
	vals := []uint64{0, s - 1, s, s + 1, 1 << 63, ^uint64(0)}
	if s == 0 {
		vals[1] = 0 // no s-1
	}
	if s == ^uint64(0) {
		vals[3] = s // no s+1
	}
	out := []*uint64{nil}
	seen := map[uint64]bool{}
	for _, v := range vals {
		if !seen[v] {
			seen[v] = true
			out = append(out, u64p(v))
		}
	}
	return out
}

var c26Slots = []uint64{0, 1, 5000, 1<<32 + 7, 1<<63 - 1, 1 << 63, ^uint64(0)}

func genBound(rt *rapid.T, s uint64, label string) *uint64 {
	switch rapid.IntRange(0, 9).Draw(rt, label+"Class") {
	case 0:
		return nil
	case 1:
		return u64p(0)
	case 2:
		return u64p(s)
	case 3:
		if s > 0 {
			return u64p(s - 1)
		}
		return u64p(0)
	case 4:
		if s < ^uint64(0) {
			return u64p(s + 1)
		}
		return u64p(s)
	case 5:
		return u64p(1 << 63)
	case 6:
		return u64p(^uint64(0))
	case 7:
		d := rapid.Uint64Range(0, 100_000).Draw(rt, label+"Near")
		if rapid.Bool().Draw(rt, label+"Below") {
			if d > s {
				d = s
			}
			return u64p(s - d)
		}
		if ^uint64(0)-s < d {
			return u64p(^uint64(0))
		}
		return u64p(s + d)
	default:
		return u64p(rapid.Uint64().Draw(rt, label))
	}
}

func genSlot(rt *rapid.T) uint64 {
	switch rapid.IntRange(0, 6).Draw(rt, "slotClass") {
	case 0:
		return c26Slots[rapid.IntRange(0, len(c26Slots)-1).Draw(rt, "slotFixed")]
	case 1:
		return rapid.Uint64Range(0, 10).Draw(rt, "slotTiny")
	case 2:
		return rapid.Uint64Range(1<<32-3, 1<<32+3).Draw(rt, "slot32")
	case 3:
		return rapid.Uint64Range(^uint64(0)-3, ^uint64(0)).Draw(rt, "slotMax")
	case 4:
		return rapid.Uint64Range(1<<63-3, 1<<63+3).Draw(rt, "slot63")
	default:
		return rapid.Uint64Range(0, 200_000_000).Draw(rt, "slotReal")
	}
}

func TestC26(t *testing.T) {
	rec := evi.New(t, "C26", evi.Exploration,
		"(a) exhaustive grid per era: slot in {0,1,5000,2^32+7,2^63-1,2^63,2^64-1} x validity start x ttl/invalid-hereafter in {absent,0,s-1,s,s+1,2^63,2^64-1} on a harness-built, signed, balanced transaction; (a2) Dijkstra sweep with 0-3 sub-transactions (body key 23), each with/without its own ttl and start below/equal/above the top-level bounds; (b) rapid: fully generated transactions (Dijkstra: optionally 1-3 sub-transactions) (inputs, assets, certificates, withdrawals, mint, proposals, encodings, parameters) with boundary-biased slot/start/ttl. Each is decoded by the era decoder and run through VerifyTransaction with the era's complete rule list; oracle: accepted => reference interval contains the slot (Shelley slot<=ttl; Allegra+ start<=slot<hereafter, absent bounds unconstrained). Non-trivial = at least one bound present; distinct by (era, slot, start, ttl).")
	defer rec.Finish()
	rec.Assume(
		"ed25519 and blake2b from the Go standard/x libraries are trusted (used to sign the generated transactions)",
		"a Shelley transaction always carries a ttl (mandatory in the Shelley CDDL); Shelley bodies without key 3 are outside the statement and skipped",
		"over-rejection (reference accepts, library rejects) is counted, not flagged: the statement is 'accepts only if'",
	)

	// (a) exhaustive grid
	gridPoints := 0
	for _, era := range allEras {
		for _, s := range c26Slots {
			for _, start := range c26Bounds(s) {
				if era == Shelley && start != nil {
					continue // Shelley bodies have no key 8
				}
				for _, ttl := range c26Bounds(s) {
					if era == Shelley && ttl == nil {
						rec.Class("shelley:ttl_absent_skipped")
						continue
					}
					c := c26GridCase(era, s, start, ttl)
					res, raw, err := c26Run(c)
					if err != nil {
						t.Fatalf("harness: %v", err)
					}
					gridPoints++
					c26Judge(rec, c, res, raw, func(key, what string, cs any) { rec.Violation(key, what, cs) })
				}
			}
		}
	}
	rec.SetExtra("grid_points", gridPoints)

	// (a2) Dijkstra sub-transactions (body key 23): 0-3 sub-transactions with /
	// without their own ttl and start, below / equal / above the top-level bounds
	subPoints := 0
	for _, s := range []uint64{5000, 1<<32 + 7} {
		subCfgs := [][]SubTx{
			{{}},
			{{Start: u64p(s - 100)}},
			{{TTL: u64p(s + 1000)}},
			{{TTL: u64p(s)}},
			{{TTL: u64p(s - 1)}},
			{{TTL: u64p(s + 1)}, {}},
			{{}, {TTL: u64p(s + 1)}},
			{{TTL: u64p(s + 1000), Start: u64p(s)}, {Start: u64p(s + 1)}},
			{{TTL: u64p(0)}},
			{{}, {}, {TTL: u64p(1 << 63)}},
			{{Start: u64p(s - 1), TTL: u64p(s + 2)}, {TTL: u64p(s + 3)}, {}},
		}
		for _, subs := range subCfgs {
			for _, start := range []*uint64{nil, u64p(s - 1), u64p(s), u64p(s + 1)} {
				for _, ttl := range []*uint64{nil, u64p(0), u64p(s - 1), u64p(s), u64p(s + 1), u64p(1 << 63)} {
					c := c26GridCase(Dijkstra, s, start, ttl)
					c.Tx.SubTxs = subs
					c.Tx.SetTag = subPoints%2 == 0
					c.Tx.ThreeElems = subPoints%3 == 0
					res, raw, err := c26Run(c)
					if err != nil {
						t.Fatalf("harness: %v", err)
					}
					subPoints++
					c26Judge(rec, c, res, raw, func(key, what string, cs any) { rec.Violation(key, what, cs) })
				}
			}
		}
	}
	rec.SetExtra("dijkstra_subtx_sweep_points", subPoints)

	// (b) generated transactions with boundary-biased intervals
	rec.Check(func(rt *rapid.T) {
		era := allEras[rapid.IntRange(0, len(allEras)-1).Draw(rt, "era")]
		c := genCase(rt, era, genOpts{MaxCerts: 2, Bystanders: true, Interval: func(rt *rapid.T, c *Case) {
			c.Slot = genSlot(rt)
			c.Tx.TTL = genBound(rt, c.Slot, "ttl")
			if era == Shelley {
				if c.Tx.TTL == nil {
					c.Tx.TTL = u64p(c.Slot)
				}
			} else {
				c.Tx.Start = genBound(rt, c.Slot, "start")
			}
			if era == Dijkstra && rapid.Bool().Draw(rt, "withSubTxs") {
				n := rapid.IntRange(1, 3).Draw(rt, "nSubTxs")
				for i := 0; i < n; i++ {
					var st SubTx
					// bounds relative to the slot and to the top-level bounds
					if rapid.Bool().Draw(rt, "subHasTTL") {
						base := c.Slot
						if c.Tx.TTL != nil && rapid.Bool().Draw(rt, "subTTLNearTop") {
							base = *c.Tx.TTL
						}
						st.TTL = genBound(rt, base, "subTTL")
					}
					if rapid.IntRange(0, 2).Draw(rt, "subHasStart") == 0 {
						st.Start = genBound(rt, c.Slot, "subStart")
					}
					c.Tx.SubTxs = append(c.Tx.SubTxs, st)
				}
			}
		}})
		res, raw, err := c26Run(c)
		if err != nil {
			rt.Fatalf("harness: %v", err)
		}
		if len(c.Tx.Certs) > 0 {
			rec.Class("noise:has_certs")
		}
		if len(c.Tx.Mint) > 0 {
			rec.Class("noise:has_mint")
		}
		if len(c.Tx.Wdrl) > 0 {
			rec.Class("noise:has_withdrawals")
		}
		c26Judge(rec, c, res, raw, func(key, what string, cs any) { rec.Fail(rt, key, what, cs) })
	})
}

// c26GridCase is a fixed minimal valid transaction of the era.
func c26GridCase(era Era, slot uint64, start, ttl *uint64) *Case {
	p := defaultParams(era)
	in := In{TxID: hash256([]byte("c26")), Ix: 0, Key: 0, V: Val{Coin: 50_000_000}}
	tx := &TxSpec{Era: era, Net: 0, Ins: []In{in}, Fee: 400_000, TTL: ttl, Start: start,
		Outs: []Out{{Addr: payAddr(0, 1), V: Val{Coin: 50_000_000 - 400_000}, MapForm: era >= Babbage}}}
	return &Case{Tx: tx, P: p, SS: newStSpec(), Slot: slot}
}
