package rules1

import (
	"fmt"
	"testing"

	"github.com/blinklabs-io/gouroboros/ledger/common"
	"pgregory.net/rapid"

	"verif/harness/internal/evi"
)

func fmtOpt(v *uint64) string {
	if v == nil {
		return "absent"
	}
	return fmt.Sprintf("%d", *v)
}

// c26Key names the violated bound: the failing input class of a case where the
// full rule list accepted although the reference interval excludes the slot.
func c26Key(era Era, slot uint64, start, ttl *uint64) string {
	if era != Shelley && start != nil && slot < *start {
		return fmt.Sprintf("C26:%s:accepted-before-validity-start", era)
	}
	if ttl != nil && *ttl == 0 {
		return fmt.Sprintf("C26:%s:ttl-0-treated-as-absent", era)
	}
	if era == Shelley {
		return "C26:shelley:accepted-after-ttl"
	}
	return fmt.Sprintf("C26:%s:invalid-hereafter-not-enforced", era)
}

type c26Result struct {
	decoded    bool
	fullAccept bool
	ruleAccept bool
	err        error
}

func c26Run(c *Case) (c26Result, []byte, error) {
	era := c.Tx.Era
	st, err := c.state()
	if err != nil {
		return c26Result{}, nil, fmt.Errorf("state: %w", err)
	}
	raw, _ := c.Tx.Encode()
	dtx, err := decodeTx(era, raw)
	if err != nil {
		return c26Result{err: err}, raw, nil
	}
	pp := c.P.forEra(era)
	res := c26Result{decoded: true}
	res.err = common.VerifyTransaction(dtx, c.Slot, st, pp, rulesFor(era))
	res.fullAccept = res.err == nil
	res.ruleAccept = intervalRule(era)(dtx, c.Slot, st, pp) == nil
	return res, raw, nil
}

// c26Judge applies the one-directional oracle and records the evidence classes.
// report is rec.Fail (inside rapid) or rec.Violation (enumeration).
func c26Judge(rec *evi.Recorder, c *Case, res c26Result, raw []byte, report func(key, what string, cs any)) {
	era := c.Tx.Era
	tx := c.Tx
	want := refIntervalOK(era, c.Slot, tx.Start, tx.TTL)
	rec.Eval()
	rec.Class(fmt.Sprintf("%s:ref_%v", era, map[bool]string{true: "accept", false: "reject"}[want]))
	if !res.decoded {
		rec.Class(fmt.Sprintf("%s:decode_rejected", era))
		return
	}
	if tx.TTL != nil || tx.Start != nil {
		rec.NonTrivial(fmt.Sprintf("%s slot=%d start=%s ttl=%s", era, c.Slot, fmtOpt(tx.Start), fmtOpt(tx.TTL)),
			map[string]any{"era": era.String(), "slot": c.Slot, "start": fmtOpt(tx.Start), "ttl": fmtOpt(tx.TTL),
				"ref_accepts": want, "lib_accepts": res.fullAccept, "tx": evi.Hex(raw)})
	}
	switch {
	case res.fullAccept && want:
		rec.Class(fmt.Sprintf("%s:both_accept", era))
	case !res.fullAccept && !want:
		rec.Class(fmt.Sprintf("%s:both_reject", era))
	case !res.fullAccept && want:
		// statement is "accepts only if": over-rejection is counted, not flagged
		rec.Class(fmt.Sprintf("%s:over_rejection", era))
		rec.Class("over_rejection_total")
	case res.fullAccept && !want:
		rec.Class(fmt.Sprintf("%s:lib_accepts_outside_interval", era))
		what := fmt.Sprintf("%s: full rule list (VerifyTransaction) accepts at slot %d a transaction with validity start %s and ttl/invalid-hereafter %s; reference interval excludes the slot (single interval rule accepts: %v)",
			era, c.Slot, fmtOpt(tx.Start), fmtOpt(tx.TTL), res.ruleAccept)
		report(c26Key(era, c.Slot, tx.Start, tx.TTL), what,
			map[string]any{"era": era.String(), "slot": c.Slot, "start": fmtOpt(tx.Start), "ttl": fmtOpt(tx.TTL),
				"tx_cbor": evi.Hex(raw), "net": tx.Net, "params": c.P})
	}
}

// boundary values around s, deduplicated, nil = absent
func c26Bounds(s uint64) []*uint64 {
	vals := []uint64{0, s - 1, s, s + 1, 1 << 63, ^uint64(0)}
	if s == 0 {
		vals[1] = 0 // no s-1
	}
	if s == ^uint64(0) {
		vals[3] = s // no s+1
	}
	out := []*uint64{nil}
	seen := map[uint64]bool{}
	for _, v := range vals {
		if !seen[v] {
			seen[v] = true
			out = append(out, u64p(v))
		}
	}
	return out
}

var c26Slots = []uint64{0, 1, 5000, 1<<32 + 7, 1<<63 - 1, 1 << 63, ^uint64(0)}

func genBound(rt *rapid.T, s uint64, label string) *uint64 {
	switch rapid.IntRange(0, 9).Draw(rt, label+"Class") {
	case 0:
		return nil
	case 1:
		return u64p(0)
	case 2:
		return u64p(s)
	case 3:
		if s > 0 {
			return u64p(s - 1)
		}
		return u64p(0)
	case 4:
		if s < ^uint64(0) {
			return u64p(s + 1)
		}
		return u64p(s)
	case 5:
		return u64p(1 << 63)
	case 6:
		return u64p(^uint64(0))
	case 7:
		d := rapid.Uint64Range(0, 100_000).Draw(rt, label+"Near")
		if rapid.Bool().Draw(rt, label+"Below") {
			if d > s {
				d = s
			}
			return u64p(s - d)
		}
		if ^uint64(0)-s < d {
			return u64p(^uint64(0))
		}
		return u64p(s + d)
	default:
		return u64p(rapid.Uint64().Draw(rt, label))
	}
}

func genSlot(rt *rapid.T) uint64 {
	switch rapid.IntRange(0, 6).Draw(rt, "slotClass") {
	case 0:
		return c26Slots[rapid.IntRange(0, len(c26Slots)-1).Draw(rt, "slotFixed")]
	case 1:
		return rapid.Uint64Range(0, 10).Draw(rt, "slotTiny")
	case 2:
		return rapid.Uint64Range(1<<32-3, 1<<32+3).Draw(rt, "slot32")
	case 3:
		return rapid.Uint64Range(^uint64(0)-3, ^uint64(0)).Draw(rt, "slotMax")
	case 4:
		return rapid.Uint64Range(1<<63-3, 1<<63+3).Draw(rt, "slot63")
	default:
		return rapid.Uint64Range(0, 200_000_000).Draw(rt, "slotReal")
	}
}

func TestC26(t *testing.T) {
	rec := evi.New(t, "C26", evi.Exploration,
		"(a) exhaustive grid per era: slot in {0,1,5000,2^32+7,2^63-1,2^63,2^64-1} x validity start x ttl/invalid-hereafter in {absent,0,s-1,s,s+1,2^63,2^64-1} on a harness-built, signed, balanced transaction; (b) rapid: fully generated transactions (inputs, assets, certificates, withdrawals, mint, proposals, encodings, parameters) with boundary-biased slot/start/ttl. Each is decoded by the era decoder and run through VerifyTransaction with the era's complete rule list; oracle: accepted => reference interval contains the slot (Shelley slot<=ttl; Allegra+ start<=slot<hereafter, absent bounds unconstrained). Non-trivial = at least one bound present; distinct by (era, slot, start, ttl).")
	defer rec.Finish()
	rec.Assume(
		"ed25519 and blake2b from the Go standard/x libraries are trusted (used to sign the generated transactions)",
		"a Shelley transaction always carries a ttl (mandatory in the Shelley CDDL); Shelley bodies without key 3 are outside the statement and skipped",
		"over-rejection (reference accepts, library rejects) is counted, not flagged: the statement is 'accepts only if'",
	)

	// (a) exhaustive grid
	gridPoints := 0
	for _, era := range allEras {
		for _, s := range c26Slots {
			for _, start := range c26Bounds(s) {
				if era == Shelley && start != nil {
					continue // Shelley bodies have no key 8
				}
				for _, ttl := range c26Bounds(s) {
					if era == Shelley && ttl == nil {
						rec.Class("shelley:ttl_absent_skipped")
						continue
					}
					c := c26GridCase(era, s, start, ttl)
					res, raw, err := c26Run(c)
					if err != nil {
						t.Fatalf("harness: %v", err)
					}
					gridPoints++
					c26Judge(rec, c, res, raw, func(key, what string, cs any) { rec.Violation(key, what, cs) })
				}
			}
		}
	}
	rec.SetExtra("grid_points", gridPoints)

	// (b) generated transactions with boundary-biased intervals
	rec.Check(func(rt *rapid.T) {
		era := allEras[rapid.IntRange(0, len(allEras)-1).Draw(rt, "era")]
		c := genCase(rt, era, genOpts{MaxCerts: 2, Bystanders: true, Interval: func(rt *rapid.T, c *Case) {
			c.Slot = genSlot(rt)
			c.Tx.TTL = genBound(rt, c.Slot, "ttl")
			if era == Shelley {
				if c.Tx.TTL == nil {
					c.Tx.TTL = u64p(c.Slot)
				}
			} else {
				c.Tx.Start = genBound(rt, c.Slot, "start")
			}
		}})
		res, raw, err := c26Run(c)
		if err != nil {
			rt.Fatalf("harness: %v", err)
		}
		if len(c.Tx.Certs) > 0 {
			rec.Class("noise:has_certs")
		}
		if len(c.Tx.Mint) > 0 {
			rec.Class("noise:has_mint")
		}
		if len(c.Tx.Wdrl) > 0 {
			rec.Class("noise:has_withdrawals")
		}
		c26Judge(rec, c, res, raw, func(key, what string, cs any) { rec.Fail(rt, key, what, cs) })
	})
}

// c26GridCase is a fixed minimal valid transaction of the era.
func c26GridCase(era Era, slot uint64, start, ttl *uint64) *Case {
	p := defaultParams(era)
	in := In{TxID: hash256([]byte("c26")), Ix: 0, Key: 0, V: Val{Coin: 50_000_000}}
	tx := &TxSpec{Era: era, Net: 0, Ins: []In{in}, Fee: 400_000, TTL: ttl, Start: start,
		Outs: []Out{{Addr: payAddr(0, 1), V: Val{Coin: 50_000_000 - 400_000}, MapForm: era >= Babbage}}}
	return &Case{Tx: tx, P: p, SS: newStSpec(), Slot: slot}
}
