package rules1

import (
	"fmt"
	"math/big"
	"sort"
	"strings"
	"testing"

	"github.com/blinklabs-io/gouroboros/ledger/common"
	"pgregory.net/rapid"

	"verif/harness/internal/evi"
)

// ---- perturbations ------------------------------------------------------------

func genDelta(rt *rapid.T) uint64 {
	switch rapid.IntRange(0, 5).Draw(rt, "deltaClass") {
	case 0, 1, 2:
		return 1
	case 3:
		return rapid.Uint64Range(2, 1000).Draw(rt, "delta")
	case 4:
		return rapid.Uint64Range(1, 1<<40).Draw(rt, "delta")
	default:
		return 1 << uint(rapid.IntRange(0, 62).Draw(rt, "deltaPow"))
	}
}

// bump adds +d or -d to *v without wrapping; reports whether it changed it.
func bump(rt *rapid.T, v *uint64, d uint64, minV uint64) bool {
	up := rapid.Bool().Draw(rt, "up")
	if up && ^uint64(0)-*v >= d {
		*v += d
		return true
	}
	if *v >= minV+d {
		*v -= d
		return true
	}
	if ^uint64(0)-*v >= d {
		*v += d
		return true
	}
	return false
}

func bumpBig(rt *rapid.T, q *big.Int, d uint64) {
	if rapid.Bool().Draw(rt, "up") {
		q.Add(q, new(big.Int).SetUint64(d))
	} else {
		q.Sub(q, new(big.Int).SetUint64(d))
	}
}

var zeroPolicy [28]byte

func genAnyAssetID(rt *rapid.T) AssetID {
	var id AssetID
	switch rapid.IntRange(0, 6).Draw(rt, "anyPolicy") {
	case 0:
		id.Policy = zeroPolicy
	case 6:
		sp := specialPolicies()
		id.Policy = sp[rapid.IntRange(0, len(sp)-1).Draw(rt, "specialPolicy")].ID
	case 1, 2:
		id.Policy = foreignPolicy(rapid.IntRange(0, 3).Draw(rt, "foreignIx"))
	default:
		id.Policy = policyOfKey(payKeys[rapid.IntRange(0, 3).Draw(rt, "polKey")])
	}
	id.Name = assetNames[rapid.IntRange(0, len(assetNames)-1).Draw(rt, "anyName")]
	return id
}

// perturb applies one mutation to the case (transaction, state description or
// parameters) WITHOUT re-balancing. It returns the name of the mutation, or ""
// if the drawn mutation does not apply to this case.
func perturb(rt *rapid.T, c *Case) string {
	tx := c.Tx
	era := tx.Era
	d := genDelta(rt)
	ops := []string{"in-coin", "fee", "pp-key-deposit", "pp-pool-deposit", "drop-cert", "dup-cert", "pool-state-flip"}
	if len(tx.Outs) > 0 {
		ops = append(ops, "out-coin")
	}
	if len(tx.Wdrl) > 0 {
		ops = append(ops, "wdrl", "drop-wdrl")
	}
	if era >= Mary {
		ops = append(ops, "mint-add", "in-asset-add")
		if len(tx.Outs) > 0 {
			ops = append(ops, "out-asset-add", "mint-add-with-output")
		}
		if len(tx.Mint) > 0 {
			ops = append(ops, "mint-qty", "mint-drop", "mint-rename")
		}
		hasOutAsset, hasInAsset := false, false
		for _, o := range tx.Outs {
			hasOutAsset = hasOutAsset || len(o.V.Assets) > 0
		}
		for _, i := range tx.Ins {
			hasInAsset = hasInAsset || len(i.V.Assets) > 0
		}
		if hasOutAsset {
			ops = append(ops, "out-asset-qty", "out-asset-drop", "out-asset-rename", "out-asset-move-policy")
		}
		if hasInAsset {
			ops = append(ops, "in-asset-qty")
		}
	}
	if era >= Conway {
		ops = append(ops, "donation", "pp-drep-deposit", "pp-gov-deposit", "add-prop")
		if len(tx.Props) > 0 {
			ops = append(ops, "prop-deposit", "drop-prop")
		}
		ops = append(ops, "cert-declared-amount")
	}
	op := ops[rapid.IntRange(0, len(ops)-1).Draw(rt, "op")]
	pickOutAsset := func() (*AQ, int, int) {
		var cand [][2]int
		for oi, o := range tx.Outs {
			for ai := range o.V.Assets {
				cand = append(cand, [2]int{oi, ai})
			}
		}
		p := cand[rapid.IntRange(0, len(cand)-1).Draw(rt, "outAssetPick")]
		return &tx.Outs[p[0]].V.Assets[p[1]], p[0], p[1]
	}
	switch op {
	case "in-coin":
		i := rapid.IntRange(0, len(tx.Ins)-1).Draw(rt, "ix")
		if !bump(rt, &tx.Ins[i].V.Coin, d, 0) {
			return ""
		}
	case "out-coin":
		i := rapid.IntRange(0, len(tx.Outs)-1).Draw(rt, "ix")
		if !bump(rt, &tx.Outs[i].V.Coin, d, 0) {
			return ""
		}
	case "fee":
		if !bump(rt, &tx.Fee, d, 0) {
			return ""
		}
	case "wdrl":
		i := rapid.IntRange(0, len(tx.Wdrl)-1).Draw(rt, "ix")
		if !bump(rt, &tx.Wdrl[i].Amount, d, 0) {
			return ""
		}
	case "drop-wdrl":
		i := rapid.IntRange(0, len(tx.Wdrl)-1).Draw(rt, "ix")
		tx.Wdrl = append(tx.Wdrl[:i:i], tx.Wdrl[i+1:]...)
	case "pp-key-deposit":
		if !bump(rt, &c.P.KeyDeposit, d, 1) {
			return ""
		}
	case "pp-pool-deposit":
		if !bump(rt, &c.P.PoolDeposit, d, 1) {
			return ""
		}
	case "pp-drep-deposit":
		if !bump(rt, &c.P.DRepDeposit, d, 1) {
			return ""
		}
	case "pp-gov-deposit":
		// the conservation formula uses the deposits carried by the proposals,
		// so this must NOT change the verdict of either side
		if !bump(rt, &c.P.GovDeposit, d, 1) {
			return ""
		}
	case "drop-cert":
		if len(tx.Certs) == 0 {
			return ""
		}
		i := rapid.IntRange(0, len(tx.Certs)-1).Draw(rt, "ix")
		tx.Certs = append(tx.Certs[:i:i], tx.Certs[i+1:]...)
	case "dup-cert":
		if len(tx.Certs) == 0 {
			return ""
		}
		i := rapid.IntRange(0, len(tx.Certs)-1).Draw(rt, "ix")
		tx.Certs = append(tx.Certs, tx.Certs[i])
	case "pool-state-flip":
		var cand []int
		for _, ct := range tx.Certs {
			if ct.Kind == CPoolReg {
				cand = append(cand, ct.Pool)
			}
		}
		if len(cand) == 0 {
			return ""
		}
		k := cand[rapid.IntRange(0, len(cand)-1).Draw(rt, "ix")]
		c.SS.Pools[k] = !c.SS.Pools[k]
	case "out-asset-qty":
		a, _, _ := pickOutAsset()
		bumpBig(rt, a.Q, d)
		if a.Q.Sign() <= 0 {
			return "" // negative / zero output quantities are C08's subject
		}
	case "out-asset-drop":
		_, oi, ai := pickOutAsset()
		as := tx.Outs[oi].V.Assets
		tx.Outs[oi].V.Assets = append(as[:ai:ai], as[ai+1:]...)
	case "out-asset-rename":
		a, oi, _ := pickOutAsset()
		nn := assetNames[rapid.IntRange(0, len(assetNames)-1).Draw(rt, "newName")]
		for _, o := range tx.Outs[oi].V.Assets {
			if o.ID.Policy == a.ID.Policy && o.ID.Name == nn {
				return "" // would create a duplicate key inside one value
			}
		}
		a.ID.Name = nn
	case "out-asset-move-policy":
		a, oi, _ := pickOutAsset()
		np := genAnyAssetID(rt).Policy
		for _, o := range tx.Outs[oi].V.Assets {
			if o.ID.Policy == np && o.ID.Name == a.ID.Name {
				return ""
			}
		}
		a.ID.Policy = np
	case "out-asset-add":
		oi := rapid.IntRange(0, len(tx.Outs)-1).Draw(rt, "ix")
		id := genAnyAssetID(rt)
		for _, o := range tx.Outs[oi].V.Assets {
			if o.ID == id {
				return ""
			}
		}
		tx.Outs[oi].V.Assets = append(tx.Outs[oi].V.Assets, AQ{id, new(big.Int).SetUint64(d)})
	case "in-asset-qty":
		var cand [][2]int
		for ii, in := range tx.Ins {
			for ai := range in.V.Assets {
				cand = append(cand, [2]int{ii, ai})
			}
		}
		p := cand[rapid.IntRange(0, len(cand)-1).Draw(rt, "inAssetPick")]
		a := &tx.Ins[p[0]].V.Assets[p[1]]
		bumpBig(rt, a.Q, d)
		if a.Q.Sign() <= 0 || !a.Q.IsUint64() {
			return "" // the UTxO set only holds valid values
		}
	case "in-asset-add":
		ii := rapid.IntRange(0, len(tx.Ins)-1).Draw(rt, "ix")
		id := genAnyAssetID(rt)
		for _, o := range tx.Ins[ii].V.Assets {
			if o.ID == id {
				return ""
			}
		}
		tx.Ins[ii].V.Assets = append(tx.Ins[ii].V.Assets, AQ{id, new(big.Int).SetUint64(d)})
	case "mint-qty":
		i := rapid.IntRange(0, len(tx.Mint)-1).Draw(rt, "ix")
		bumpBig(rt, tx.Mint[i].Q, d)
		if tx.Mint[i].Q.Sign() == 0 || !tx.Mint[i].Q.IsInt64() {
			return ""
		}
	case "mint-drop":
		i := rapid.IntRange(0, len(tx.Mint)-1).Draw(rt, "ix")
		tx.Mint = append(tx.Mint[:i:i], tx.Mint[i+1:]...)
	case "mint-rename":
		i := rapid.IntRange(0, len(tx.Mint)-1).Draw(rt, "ix")
		nn := assetNames[rapid.IntRange(0, len(assetNames)-1).Draw(rt, "newName")]
		for _, m := range tx.Mint {
			if m.ID.Policy == tx.Mint[i].ID.Policy && m.ID.Name == nn {
				return ""
			}
		}
		tx.Mint[i].ID.Name = nn
	case "mint-add", "mint-add-with-output":
		id := genAnyAssetID(rt)
		for _, m := range tx.Mint {
			if m.ID == id {
				return ""
			}
		}
		q := new(big.Int).SetUint64(d)
		if !q.IsInt64() {
			return ""
		}
		if op == "mint-add" && rapid.Bool().Draw(rt, "negMint") {
			q.Neg(q)
		}
		tx.Mint = append(tx.Mint, AQ{id, q})
		if op == "mint-add-with-output" {
			// stays balanced: the minted amount is paid to an output
			oi := rapid.IntRange(0, len(tx.Outs)-1).Draw(rt, "ix")
			found := false
			for ai := range tx.Outs[oi].V.Assets {
				if tx.Outs[oi].V.Assets[ai].ID == id {
					tx.Outs[oi].V.Assets[ai].Q.Add(tx.Outs[oi].V.Assets[ai].Q, q)
					found = true
				}
			}
			if !found {
				tx.Outs[oi].V.Assets = append(tx.Outs[oi].V.Assets, AQ{id, new(big.Int).Set(q)})
			}
		}
	case "donation":
		if tx.Donation == nil {
			tx.Donation = u64p(d)
		} else if rapid.IntRange(0, 3).Draw(rt, "dropDonation") == 0 {
			tx.Donation = nil
		} else {
			v := *tx.Donation
			if !bump(rt, &v, d, 1) {
				return ""
			}
			tx.Donation = &v
		}
	case "prop-deposit":
		i := rapid.IntRange(0, len(tx.Props)-1).Draw(rt, "ix")
		if !bump(rt, &tx.Props[i].Deposit, d, 0) {
			return ""
		}
	case "drop-prop":
		i := rapid.IntRange(0, len(tx.Props)-1).Draw(rt, "ix")
		tx.Props = append(tx.Props[:i:i], tx.Props[i+1:]...)
	case "add-prop":
		tx.Props = append(tx.Props, Prop{Deposit: c.P.GovDeposit, RetKey: stakeKeys[rapid.IntRange(0, 3).Draw(rt, "propRet")]})
	case "cert-declared-amount":
		var cand []int
		for i, ct := range tx.Certs {
			switch ct.Kind {
			case CReg, CUnreg, CStakeRegDeleg, CVoteRegDeleg, CStakeVoteRegDg, CDRepReg, CDRepUnreg:
				cand = append(cand, i)
			}
		}
		if len(cand) == 0 {
			return ""
		}
		i := cand[rapid.IntRange(0, len(cand)-1).Draw(rt, "ix")]
		if !bump(rt, &tx.Certs[i].Amount, d, 1) {
			return ""
		}
	}
	return op
}

// declaredMismatch lists certificate kinds whose declared coin differs from the
// deposit the ledger formula uses (the stated precondition is that they agree).
func declaredMismatch(tx *TxSpec, p Params) []CertKind {
	seen := map[CertKind]bool{}
	for _, c := range tx.Certs {
		switch c.Kind {
		case CReg, CUnreg, CStakeRegDeleg, CVoteRegDeleg, CStakeVoteRegDg:
			if c.Amount != p.KeyDeposit {
				seen[c.Kind] = true
			}
		case CDRepReg, CDRepUnreg:
			if c.Amount != p.DRepDeposit {
				seen[c.Kind] = true
			}
		}
	}
	var out []CertKind
	for k := range seen {
		out = append(out, k)
	}
	sort.Slice(out, func(i, j int) bool { return out[i] < out[j] })
	return out
}

// certsValid reports whether every (de)registration in the sequence is
// consistent with the registration state, tracking changes made earlier in the
// same transaction.
func certsValid(cs []Cert, ss *StSpec) bool {
	stake := map[int]bool{}
	dreps := map[int]bool{}
	for k, v := range ss.StakeReg {
		stake[k] = v
	}
	for k, v := range ss.DReps {
		dreps[k] = v
	}
	for _, c := range cs {
		switch c.Kind {
		case CStakeReg, CReg, CStakeRegDeleg, CVoteRegDeleg, CStakeVoteRegDg:
			if stake[c.Key] {
				return false
			}
			stake[c.Key] = true
		case CStakeDereg, CUnreg:
			if !stake[c.Key] {
				return false
			}
			stake[c.Key] = false
		case CDRepReg:
			if dreps[c.Key] {
				return false
			}
			dreps[c.Key] = true
		case CDRepUnreg:
			if !dreps[c.Key] {
				return false
			}
			dreps[c.Key] = false
		}
	}
	return true
}

func hasZeroPolicyMint(tx *TxSpec) (any, emptyName bool) {
	for _, m := range tx.Mint {
		if m.ID.Policy == zeroPolicy {
			any = true
			if m.ID.Name == "" {
				emptyName = true
			}
		}
	}
	return
}

func poolRegisteredTwice(tx *TxSpec, ss *StSpec) bool {
	n := map[int]int{}
	for _, c := range tx.Certs {
		if c.Kind == CPoolReg && !ss.Pools[c.Pool] {
			n[c.Pool]++
			if n[c.Pool] > 1 {
				return true
			}
		}
	}
	return false
}

// c27Key classifies a failure into the specific input class.
func c27Key(c *Case, op string, libAccepts bool) string {
	era := c.Tx.Era
	dir := "rejects-balanced"
	if libAccepts {
		dir = "accepts-unbalanced"
	}
	if mm := declaredMismatch(c.Tx, c.P); len(mm) > 0 {
		return fmt.Sprintf("C27:%s:cert%d-declared-coin-used-instead-of-deposit", era, mm[0])
	}
	if z, _ := hasZeroPolicyMint(c.Tx); z {
		return fmt.Sprintf("C27:%s:mint-under-all-zero-policy-not-counted-as-asset", era)
	}
	if poolRegisteredTwice(c.Tx, c.SS) {
		return fmt.Sprintf("C27:%s:new-pool-registered-twice-in-one-tx-charged-twice", era)
	}
	if op == "" {
		op = "as-generated"
	}
	return fmt.Sprintf("C27:%s:%s:%s", era, dir, op)
}

func describeCase(c *Case) map[string]any {
	raw, _ := c.Tx.Encode()
	var utxo []map[string]any
	for _, in := range c.Tx.Ins {
		var as []string
		for _, a := range in.V.Assets {
			as = append(as, a.ID.String()+"="+a.Q.String())
		}
		utxo = append(utxo, map[string]any{"txid": fmt.Sprintf("%x", in.TxID), "ix": in.Ix, "coin": in.V.Coin, "assets": as, "owner_key": in.Key})
	}
	reg := func(m map[int]bool) []int {
		var o []int
		for k, v := range m {
			if v {
				o = append(o, k)
			}
		}
		sort.Ints(o)
		return o
	}
	return map[string]any{"era": c.Tx.Era.String(), "tx_cbor": evi.Hex(raw), "utxo": utxo, "params": c.P, "slot": c.Slot,
		"net": c.Tx.Net, "registered_stake_keys": reg(c.SS.StakeReg), "registered_pools": reg(c.SS.Pools), "registered_dreps": reg(c.SS.DReps),
		"certs": fmt.Sprintf("%+v", c.Tx.Certs)}
}

func TestC27(t *testing.T) {
	rec := evi.New(t, "C27", evi.Exploration,
		"per era (Shelley..Dijkstra): a generated transaction (1-3 inputs with assets, 1-3 outputs in array/map form, withdrawals, 0-3 certificates of every deposit-relevant kind incl. pool re-registration and Conway explicit-deposit/DRep certificates, proposals, mint/burn, donation; random protocol parameters and registration state) that is balanced by construction, then either left as generated or hit by one un-compensated (or deliberately compensated) mutation of a single component (coin/asset/fee/withdrawal/mint/donation/proposal/certificate/parameter/pool state). The CBOR is decoded by the era decoder; oracle: era UtxoValidateValueNotConservedUtxo accepts <=> independent reference (consumed = inputs+withdrawals+refunds+mint, produced = outputs+fee+deposits+proposal deposits+donation; coin and each asset separately) is balanced; additionally full rule list accepts => reference balanced. Non-trivial = the transaction has at least one of certificates/withdrawals/mint/assets/proposals/donation or was mutated; distinct by (era, tx bytes, parameters, state, mutation).")
	defer rec.Finish()
	rec.Assume(
		"recorded deposits equal the current parameters (KeyDeposit for stake credentials, DRepDeposit for DReps); certificates that declare a coin declare exactly that amount unless the mutation 'cert-declared-amount'/'pp-*-deposit' deliberately breaks it (reported under its own key)",
		"UTxO entries hold valid values (positive quantities below 2^64); all inputs resolve in the state",
		"Dijkstra direct deposits / sub-transactions / account balance intervals are not generated (outside the statement's formula)",
		"ed25519 and blake2b from the Go standard/x libraries are trusted",
	)

	// deterministic sweep of the "tokens dropped / tokens appear" shapes: position
	// of the token-bearing input and output, mint / burn / none; coin side exact
	nSweep := 0
	for _, era := range []Era{Mary, Alonzo, Babbage, Conway, Dijkstra} {
		for _, sh := range shapeSweep() {
			c := buildShape(era, sh, defaultParams(era))
			nSweep++
			rec.Class("sweep:" + era.String())
			c27Judge(rec, c, sh.String(), func(m string) { t.Fatalf("%s", m) },
				func(key, what string, cs any) bool { return rec.Violation(key, what, cs) })
		}
	}
	rec.SetExtra("shape_sweep_cases", nSweep)

	// deterministic sweep of certificate sequences that (de)register the same
	// credential / pool / DRep repeatedly; balanced and off by +-1 lovelace
	nCertSweep := 0
	for _, era := range allEras {
		p := defaultParams(era)
		p.KeyDeposit, p.PoolDeposit, p.DRepDeposit = 2_000_003, 500_000_007, 400_000_009
		// pool 8 is registered; its pending-retirement epoch (second return value
		// of PoolCurrentState) must not matter for the balance
		retireStates := []struct {
			name string
			e    *uint64
		}{{"none", nil}, {"epoch0", u64p(0)}, {"current", u64p(5)}, {"future", u64p(300)}, {"max", u64p(^uint64(0))}}
		for _, sq := range certSweep(era, p) {
			for _, rs := range retireStates {
				if rs.e != nil && !strings.HasPrefix(sq.Name, "pool-") {
					continue // the pool state only matters for pool certificates
				}
				for _, delta := range []int64{0, 1, -1, int64(p.PoolDeposit), -int64(p.PoolDeposit)} {
					c := buildCertCase(era, sq.Certs, p, delta, rs.e)
					if !certsValid(c.Tx.Certs, c.SS) {
						t.Fatalf("harness: cert sweep sequence %s invalid", sq.Name)
					}
					nCertSweep++
					c27Judge(rec, c, fmt.Sprintf("certseq:%s:pool-retiring=%s:delta=%d", sq.Name, rs.name, delta), func(m string) { t.Fatalf("%s", m) },
						func(key, what string, cs any) bool { return rec.Violation(key, what, cs) })
				}
			}
		}
	}
	rec.SetExtra("cert_sweep_cases", nCertSweep)

	assetEras := []Era{Mary, Alonzo, Babbage, Conway, Dijkstra}
	rec.Check(func(rt *rapid.T) {
		if rapid.IntRange(0, 3).Draw(rt, "shapeFamily") == 0 {
			era := assetEras[rapid.IntRange(0, len(assetEras)-1).Draw(rt, "shapeEra")]
			sh := genShape(rt)
			c := buildShape(era, sh, genParams(rt, era))
			rec.Class("family:shape")
			c27Judge(rec, c, sh.String(), func(m string) { rt.Fatalf("%s", m) },
				func(key, what string, cs any) bool { return rec.Fail(rt, key, what, cs) })
			return
		}
		era := allEras[rapid.IntRange(0, len(allEras)-1).Draw(rt, "era")]
		twice := rapid.IntRange(0, 3).Draw(rt, "allowPoolTwice") == 0
		c := genCase(rt, era, genOpts{MaxCerts: 3, PoolRegTwice: twice, Bystanders: true, AllowNoOutputs: true})
		op := ""
		mode := rapid.IntRange(0, 3).Draw(rt, "mode")
		if mode != 0 {
			// a mutation is kept only if the certificate sequence stays valid
			// w.r.t. the registration state (deregistering an unregistered
			// credential etc. is a DELEG-rule matter, not part of the statement)
			c2 := c.clone()
			if o1 := perturb(rt, c2); o1 != "" && certsValid(c2.Tx.Certs, c2.SS) {
				c, op = c2, o1
				if mode == 3 {
					// second mutation: sometimes compensates, sometimes compounds
					c3 := c.clone()
					if o2 := perturb(rt, c3); o2 != "" && certsValid(c3.Tx.Certs, c3.SS) {
						c, op = c3, o1+"+"+o2
					}
				}
			}
		}
		c27Judge(rec, c, op, func(m string) { rt.Fatalf("%s", m) },
			func(key, what string, cs any) bool { return rec.Fail(rt, key, what, cs) })
	})
}

// c27Judge decodes the case, runs the era's conservation rule and the full rule
// list, records the evidence classes and applies the oracle. fail is rec.Fail
// (inside rapid) or rec.Violation (deterministic sweep).
func c27Judge(rec *evi.Recorder, c *Case, op string, fatal func(string), fail func(key, what string, cs any) bool) {
	era := c.Tx.Era
	st, err := c.state()
	if err != nil {
		fatal(fmt.Sprintf("harness: state: %v", err))
		return
	}
	raw, _ := c.Tx.Encode()
	dtx, err := decodeTx(era, raw)
	if err != nil {
		rec.Class(fmt.Sprintf("%s:decode_rejected", era))
		rec.Class("decode_rejected:" + op)
		return
	}
	pp := c.P.forEra(era)
	snapBefore := snapshotQuantities(dtx)
	ruleErr := conservationRule(era)(dtx, c.Slot, st, pp)
	fullErr := common.VerifyTransaction(dtx, c.Slot, st, pp, rulesFor(era))
	// validation must be a pure observer: same outputs afterwards, same verdict again
	ruleErr2 := conservationRule(era)(dtx, c.Slot, st, pp)
	if diff := diffSnapshots(snapBefore, snapshotQuantities(dtx)); diff != "" {
		cs := describeCase(c)
		cs["before"] = snapBefore
		if fail(fmt.Sprintf("C27:%s:rule-mutates-output-quantity", era),
			fmt.Sprintf("%s: validating the transaction changed the values its outputs carry: %s", era, diff), cs) {
			return
		}
	}
	if (ruleErr == nil) != (ruleErr2 == nil) {
		if fail(fmt.Sprintf("C27:%s:second-run-of-conservation-rule-differs", era),
			fmt.Sprintf("%s: the conservation rule gives %v and then %v on the same decoded transaction", era, ruleErr, ruleErr2), describeCase(c)) {
			return
		}
	}
	if assetInSeveralOutputs(c.Tx) {
		rec.Class("same_asset_in_several_outputs")
	}
	want, why := refBalanced(refConsumed(c.Tx, c.P), refProduced(c.Tx, c.P, c.SS))
	rec.Eval()

	tx := c.Tx
	hasAssets := false
	for _, in := range tx.Ins {
		hasAssets = hasAssets || len(in.V.Assets) > 0
	}
	rec.Class(fmt.Sprintf("%s:ref_balanced=%v", era, want))
	if op == "" {
		rec.Class("mode:as_generated")
		if fullErr == nil {
			rec.Class("as_generated:full_list_accepts")
		} else {
			rec.Class("as_generated:full_list_rejects")
			rec.Class(fmt.Sprintf("as_generated:full_list_rejects:%s:%s", era, errClass(fullErr)))
		}
	} else if strings.HasPrefix(op, "certseq:") {
		rec.Class("mode:cert_sweep")
		if want {
			rec.Class(fmt.Sprintf("cert_sweep:balanced:full_list_accepts=%v", fullErr == nil))
			if fullErr != nil {
				rec.Class("cert_sweep:balanced:full_list_rejects:" + errClass(fullErr))
			}
		}
	} else if strings.HasPrefix(op, "shape:") {
		rec.Class("mode:shape")
		for _, part := range strings.Split(op, ":")[1:] {
			rec.Class(fmt.Sprintf("shape:%s:%s", era, part))
		}
		rec.Class(fmt.Sprintf("shape:ref_balanced=%v", want))
		if n := len(tx.Ins); n >= 2 && len(tx.Mint) == 0 && len(tx.Ins[n-1].V.Assets) == 0 && !want {
			dropped := true
			for _, o := range tx.Outs {
				dropped = dropped && len(o.V.Assets) == 0
			}
			if dropped {
				rec.Class(fmt.Sprintf("shape:%s:tokens_dropped_last_input_ada_only", era))
			}
		}
		if want {
			rec.Class(fmt.Sprintf("shape:balanced:full_list_accepts=%v", fullErr == nil))
			if fullErr != nil {
				rec.Class("shape:balanced:full_list_rejects:" + errClass(fullErr))
			}
		}
	} else {
		parts := strings.Split(op, "+")
		if len(parts) > 1 {
			rec.Class("mode:two_mutations")
		} else {
			rec.Class("mode:one_mutation")
		}
		for _, p := range parts {
			rec.Class("op:" + p)
		}
	}
	for _, ct := range tx.Certs {
		rec.Class(fmt.Sprintf("cert_kind_%d", ct.Kind))
		if ct.Kind == CPoolReg {
			rec.Class(fmt.Sprintf("pool_reg_new=%v", !c.SS.Pools[ct.Pool]))
			if c.SS.Pools[ct.Pool] && c.SS.PoolRetiring[ct.Pool] != nil {
				rec.Class(fmt.Sprintf("%s:rereg_of_retiring_pool", era))
			}
		}
		if (ct.Kind == CAuthHot || ct.Kind == CResignCold) && len(c.SS.Committee) > 0 {
			rec.Class("committee_cert_with_committee_state")
		}
	}
	if len(tx.Wdrl) > 0 {
		rec.Class("has_withdrawals")
	}
	if len(tx.Mint) > 0 {
		rec.Class("has_mint")
		for _, m := range tx.Mint {
			if m.Q.Sign() < 0 {
				rec.Class("has_burn")
				break
			}
		}
	}
	if hasAssets {
		rec.Class("has_input_assets")
	}
	if len(tx.Props) > 0 {
		rec.Class("has_proposals")
	}
	if tx.Donation != nil {
		rec.Class("has_donation")
	}
	if len(tx.Coll) > 0 {
		rec.Class("has_collateral_inputs")
	}
	if tx.CollRet != nil {
		rec.Class("has_collateral_return")
	}
	if len(tx.RefIns) > 0 {
		rec.Class("has_reference_inputs")
	}
	if len(tx.Outs) == 0 {
		rec.Class("no_outputs")
	}
	if poolRegisteredTwice(tx, c.SS) {
		rec.Class("new_pool_registered_twice")
	}
	if z, _ := hasZeroPolicyMint(tx); z {
		rec.Class(fmt.Sprintf("zero_policy_mint:%s:rule_accepts=%v:full_list_accepts=%v:ref_balanced=%v", era, ruleErr == nil, fullErr == nil, want))
	}
	if len(tx.Certs) > 0 || len(tx.Wdrl) > 0 || len(tx.Mint) > 0 || hasAssets || len(tx.Props) > 0 || tx.Donation != nil || op != "" {
		h := hash256(raw)
		rec.NonTrivial(fmt.Sprintf("%s %x %+v %v %v %s", era, h[:], c.P, c.SS.Pools, c.SS.StakeReg, op),
			map[string]any{"era": era.String(), "mutation": op, "ref_balanced": want, "ref_difference": why,
				"rule_accepts": ruleErr == nil, "full_list_accepts": fullErr == nil, "tx": evi.Hex(raw)})
	}

	libAccepts := ruleErr == nil
	if libAccepts != want {
		cs := describeCase(c)
		cs["mutation"] = op
		cs["ref_balanced"] = want
		cs["ref_difference"] = why
		cs["rule_error"] = fmt.Sprint(ruleErr)
		cs["full_list_error"] = fmt.Sprint(fullErr)
		what := fmt.Sprintf("%s UtxoValidateValueNotConservedUtxo accepts=%v but the reference balance says balanced=%v (%s); mutation=%q; rule error: %v; full rule list accepts=%v",
			era, libAccepts, want, why, op, ruleErr, fullErr == nil)
		if fail(c27Key(c, op, libAccepts), what, cs) {
			return
		}
	} else if fullErr == nil && !want {
		// implied by the rule check above unless the list omits the rule
		cs := describeCase(c)
		cs["mutation"] = op
		cs["ref_difference"] = why
		if fail(c27Key(c, op, true)+":full-list", fmt.Sprintf("%s full rule list accepts an unbalanced transaction (%s)", era, why), cs) {
			return
		}
	}
	if libAccepts {
		rec.Class("rule_accepts")
	} else {
		rec.Class("rule_rejects")
	}
}
