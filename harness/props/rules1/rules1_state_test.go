package rules1

// Map-backed implementation of the library's LedgerState interface plus the
// protocol parameters of every era, shaped so that every rule of the era's
// list other than the one under test passes for harness-built transactions.

import (
	"errors"
	"fmt"
	"math/big"
	"time"

	"github.com/blinklabs-io/gouroboros/cbor"
	"github.com/blinklabs-io/gouroboros/ledger"
	"github.com/blinklabs-io/gouroboros/ledger/allegra"
	"github.com/blinklabs-io/gouroboros/ledger/alonzo"
	"github.com/blinklabs-io/gouroboros/ledger/babbage"
	"github.com/blinklabs-io/gouroboros/ledger/common"
	"github.com/blinklabs-io/gouroboros/ledger/conway"
	"github.com/blinklabs-io/gouroboros/ledger/dijkstra"
	"github.com/blinklabs-io/gouroboros/ledger/mary"
	"github.com/blinklabs-io/gouroboros/ledger/shelley"
)

// Params are the era-independent parameter values the harness chooses; they
// are copied into the era's concrete parameter struct.
type Params struct {
	MinFeeA, MinFeeB uint64
	KeyDeposit       uint64
	PoolDeposit      uint64
	DRepDeposit      uint64
	GovDeposit       uint64
	MinUtxo          uint64 // Shelley..Alonzo minUTxOValue
	PerByte          uint64 // Babbage+ coinsPerUTxOByte
	Major            uint
}

func defaultParams(era Era) Params {
	p := Params{MinFeeA: 44, MinFeeB: 155381, KeyDeposit: 2_000_000, PoolDeposit: 500_000_000,
		DRepDeposit: 500_000_000, GovDeposit: 100_000_000_000, MinUtxo: 1_000_000, PerByte: 4310}
	p.Major = map[Era]uint{Shelley: 2, Allegra: 3, Mary: 4, Alonzo: 6, Babbage: 8, Conway: 10, Dijkstra: 12}[era]
	return p
}

func (p Params) forEra(era Era) common.ProtocolParameters {
	rat := func(n, d int64) *cbor.Rat { return &cbor.Rat{Rat: big.NewRat(n, d)} }
	switch era {
	case Shelley:
		return &shelley.ShelleyProtocolParameters{MinFeeA: uint(p.MinFeeA), MinFeeB: uint(p.MinFeeB),
			MaxTxSize: 16384, KeyDeposit: uint(p.KeyDeposit), PoolDeposit: uint(p.PoolDeposit),
			ProtocolMajor: p.Major, MinUtxoValue: uint(p.MinUtxo)}
	case Allegra:
		return &allegra.AllegraProtocolParameters{MinFeeA: uint(p.MinFeeA), MinFeeB: uint(p.MinFeeB),
			MaxTxSize: 16384, KeyDeposit: uint(p.KeyDeposit), PoolDeposit: uint(p.PoolDeposit),
			ProtocolMajor: p.Major, MinUtxoValue: uint(p.MinUtxo)}
	case Mary:
		return &mary.MaryProtocolParameters{MinFeeA: uint(p.MinFeeA), MinFeeB: uint(p.MinFeeB),
			MaxTxSize: 16384, KeyDeposit: uint(p.KeyDeposit), PoolDeposit: uint(p.PoolDeposit),
			ProtocolMajor: p.Major, MinUtxoValue: uint(p.MinUtxo)}
	case Alonzo:
		return &alonzo.AlonzoProtocolParameters{MinFeeA: uint(p.MinFeeA), MinFeeB: uint(p.MinFeeB),
			MaxTxSize: 16384, KeyDeposit: uint(p.KeyDeposit), PoolDeposit: uint(p.PoolDeposit),
			ProtocolMajor: p.Major, MinUtxoValue: uint(p.MinUtxo), AdaPerUtxoByte: p.PerByte,
			MaxValueSize: 5000, CollateralPercentage: 150, MaxCollateralInputs: 3,
			MaxTxExUnits:    common.ExUnits{Memory: 14_000_000, Steps: 10_000_000_000},
			MaxBlockExUnits: common.ExUnits{Memory: 62_000_000, Steps: 20_000_000_000}}
	case Babbage:
		return &babbage.BabbageProtocolParameters{MinFeeA: uint(p.MinFeeA), MinFeeB: uint(p.MinFeeB),
			MaxTxSize: 16384, KeyDeposit: uint(p.KeyDeposit), PoolDeposit: uint(p.PoolDeposit),
			ProtocolMajor: p.Major, AdaPerUtxoByte: p.PerByte,
			MaxValueSize: 5000, CollateralPercentage: 150, MaxCollateralInputs: 3,
			MaxTxExUnits:    common.ExUnits{Memory: 14_000_000, Steps: 10_000_000_000},
			MaxBlockExUnits: common.ExUnits{Memory: 62_000_000, Steps: 20_000_000_000}}
	case Conway, Dijkstra:
		cp := conway.ConwayProtocolParameters{MinFeeA: uint(p.MinFeeA), MinFeeB: uint(p.MinFeeB),
			MaxTxSize: 16384, KeyDeposit: uint(p.KeyDeposit), PoolDeposit: uint(p.PoolDeposit),
			ProtocolVersion: common.ProtocolParametersProtocolVersion{Major: p.Major},
			AdaPerUtxoByte:  p.PerByte,
			MaxValueSize:    5000, CollateralPercentage: 150, MaxCollateralInputs: 3,
			MaxTxExUnits:               common.ExUnits{Memory: 14_000_000, Steps: 10_000_000_000},
			MaxBlockExUnits:            common.ExUnits{Memory: 62_000_000, Steps: 20_000_000_000},
			GovActionDeposit:           p.GovDeposit,
			DRepDeposit:                p.DRepDeposit,
			GovActionValidityPeriod:    6,
			MinFeeRefScriptCostPerByte: rat(15, 1),
		}
		if era == Conway {
			return &cp
		}
		return &dijkstra.DijkstraProtocolParameters{ConwayProtocolParameters: cp,
			MaxRefScriptSizePerBlock: 1 << 20, MaxRefScriptSizePerTx: 200 * 1024,
			RefScriptCostStride: 25600, RefScriptCostMultiplier: rat(6, 5)}
	}
	panic("era")
}

func rulesFor(era Era) []common.UtxoValidationRuleFunc {
	switch era {
	case Shelley:
		return shelley.UtxoValidationRules
	case Allegra:
		return allegra.UtxoValidationRules
	case Mary:
		return mary.UtxoValidationRules
	case Alonzo:
		return alonzo.UtxoValidationRules
	case Babbage:
		return babbage.UtxoValidationRules
	case Conway:
		return conway.UtxoValidationRules
	case Dijkstra:
		return dijkstra.UtxoValidationRules
	}
	panic("era")
}

func conservationRule(era Era) common.UtxoValidationRuleFunc {
	switch era {
	case Shelley:
		return shelley.UtxoValidateValueNotConservedUtxo
	case Allegra:
		return allegra.UtxoValidateValueNotConservedUtxo
	case Mary:
		return mary.UtxoValidateValueNotConservedUtxo
	case Alonzo:
		return alonzo.UtxoValidateValueNotConservedUtxo
	case Babbage:
		return babbage.UtxoValidateValueNotConservedUtxo
	case Conway:
		return conway.UtxoValidateValueNotConservedUtxo
	case Dijkstra:
		return dijkstra.UtxoValidateValueNotConservedUtxo
	}
	panic("era")
}

func intervalRule(era Era) common.UtxoValidationRuleFunc {
	switch era {
	case Shelley:
		return shelley.UtxoValidateTimeToLive
	case Allegra:
		return allegra.UtxoValidateOutsideValidityIntervalUtxo
	case Mary:
		return mary.UtxoValidateOutsideValidityIntervalUtxo
	case Alonzo:
		return alonzo.UtxoValidateOutsideValidityIntervalUtxo
	case Babbage:
		return babbage.UtxoValidateOutsideValidityIntervalUtxo
	case Conway, Dijkstra:
		return conway.UtxoValidateOutsideValidityIntervalUtxo
	}
	panic("era")
}

func decodeTx(era Era, raw []byte) (ledger.Transaction, error) {
	return ledger.NewTransactionFromCbor(uint(era), raw)
}

// ---- ledger state -----------------------------------------------------------

type State struct {
	net        uint
	utxo       map[string]common.Utxo
	stakeReg   map[[28]byte]bool
	pools      map[[28]byte]bool
	poolRetire map[[28]byte]*uint64 // pending retirement epoch of a registered pool
	committee  map[[28]byte]common.CommitteeMember
	dreps      map[[28]byte]uint64 // recorded deposit
	rewards    map[[28]byte]uint64
	drepDeleg  map[[28]byte]bool
}

func newState(net uint8) *State {
	return &State{net: uint(net), utxo: map[string]common.Utxo{}, stakeReg: map[[28]byte]bool{},
		pools: map[[28]byte]bool{}, poolRetire: map[[28]byte]*uint64{}, committee: map[[28]byte]common.CommitteeMember{}, dreps: map[[28]byte]uint64{}, rewards: map[[28]byte]uint64{},
		drepDeleg: map[[28]byte]bool{}}
}

func utxoKey(id common.Blake2b256, ix uint32) string { return fmt.Sprintf("%x#%d", id[:], ix) }

// decodeOutput runs harness-built output bytes through the library's output
// decoder of the era (the UTxO set holds outputs decoded from earlier txs).
func decodeOutput(era Era, o Out) (common.TransactionOutput, error) {
	b := o.node(era).Encode()
	switch {
	case era <= Allegra:
		return shelley.NewShelleyTransactionOutputFromCbor(b)
	case era == Mary:
		return mary.NewMaryTransactionOutputFromCbor(b)
	case era == Alonzo:
		return alonzo.NewAlonzoTransactionOutputFromCbor(b)
	default:
		if o.MapForm {
			return babbage.NewBabbageTransactionOutputFromCbor(b)
		}
		return alonzo.NewAlonzoTransactionOutputFromCbor(b)
	}
}

func (s *State) addUtxo(era Era, in In, mapForm bool) error {
	out, err := decodeOutput(era, Out{Addr: payAddr(uint8(s.net), in.Key), V: in.V, MapForm: mapForm})
	if err != nil {
		return err
	}
	id := shelley.NewShelleyTransactionInput(fmt.Sprintf("%x", in.TxID[:]), int(in.Ix))
	s.utxo[utxoKey(common.Blake2b256(in.TxID), in.Ix)] = common.Utxo{Id: id, Output: out}
	return nil
}

func (s *State) UtxoById(in common.TransactionInput) (common.Utxo, error) {
	u, ok := s.utxo[utxoKey(in.Id(), in.Index())]
	if !ok {
		return common.Utxo{}, errors.New("utxo not found")
	}
	return u, nil
}

func (s *State) StakeRegistration(c []byte) ([]common.StakeRegistrationCertificate, error) {
	var k [28]byte
	copy(k[:], c)
	if s.stakeReg[k] {
		return []common.StakeRegistrationCertificate{{StakeCredential: common.Credential{Credential: common.Blake2b224(k)}}}, nil
	}
	return nil, nil
}
func (s *State) IsStakeCredentialRegistered(c common.Credential) bool {
	return s.stakeReg[[28]byte(c.Credential)]
}
func (s *State) SlotToTime(slot uint64) (time.Time, error) {
	return time.Unix(1_600_000_000, 0).Add(time.Duration(slot%(1<<40)) * time.Second), nil
}
func (s *State) TimeToSlot(t time.Time) (uint64, error) {
	return uint64(t.Unix() - 1_600_000_000), nil
}
func (s *State) PoolCurrentState(p common.PoolKeyHash) (*common.PoolRegistrationCertificate, *uint64, error) {
	if s.pools[[28]byte(p)] {
		var ret *uint64
		if e := s.poolRetire[[28]byte(p)]; e != nil {
			v := *e
			ret = &v
		}
		return &common.PoolRegistrationCertificate{Operator: p}, ret, nil
	}
	return nil, nil, nil
}
func (s *State) IsPoolRegistered(p common.PoolKeyHash) bool { return s.pools[[28]byte(p)] }
func (s *State) IsVrfKeyInUse(common.Blake2b256) (bool, common.PoolKeyHash, error) {
	return false, common.PoolKeyHash{}, nil
}
func (s *State) CalculateRewards(common.AdaPots, common.RewardSnapshot, common.RewardParameters) (*common.RewardCalculationResult, error) {
	return nil, errors.New("not modelled")
}
func (s *State) GetAdaPots() common.AdaPots         { return common.AdaPots{} }
func (s *State) UpdateAdaPots(common.AdaPots) error { return nil }
func (s *State) GetRewardSnapshot(uint64) (common.RewardSnapshot, error) {
	return common.RewardSnapshot{}, errors.New("not modelled")
}
func (s *State) IsRewardAccountRegistered(c common.Credential) bool {
	return s.stakeReg[[28]byte(c.Credential)]
}
func (s *State) RewardAccountBalance(c common.Credential) (*uint64, error) {
	if !s.stakeReg[[28]byte(c.Credential)] {
		return nil, nil
	}
	v := s.rewards[[28]byte(c.Credential)]
	return &v, nil
}
func (s *State) NetworkId() uint { return s.net }
func (s *State) CostModels() map[common.PlutusLanguage]common.CostModel {
	return map[common.PlutusLanguage]common.CostModel{}
}
func (s *State) DRepRegistration(c common.Blake2b224) (*common.DRepRegistration, error) {
	if d, ok := s.dreps[[28]byte(c)]; ok {
		return &common.DRepRegistration{Credential: c, Deposit: d}, nil
	}
	return nil, nil
}
func (s *State) DRepRegistrations() ([]common.DRepRegistration, error) { return nil, nil }
func (s *State) Constitution() (*common.Constitution, error)           { return nil, nil }
func (s *State) TreasuryValue() (uint64, error)                        { return 0, nil }
func (s *State) GovActionById(common.GovActionId) (*common.GovActionState, error) {
	return nil, nil
}
func (s *State) GovActionExists(common.GovActionId) bool { return false }

// DRepDelegationState (needed for PV10/11 withdrawals)
func (s *State) DRepDelegation(c common.Credential) (*common.Drep, error) {
	if s.drepDeleg[[28]byte(c.Credential)] {
		return &common.Drep{Type: common.DrepTypeAbstain}, nil
	}
	return nil, nil
}

var _ common.LedgerState = (*State)(nil)
var _ common.DRepDelegationState = (*State)(nil)

func (s *State) CommitteeMember(c common.Blake2b224) (*common.CommitteeMember, error) {
	if m, ok := s.committee[[28]byte(c)]; ok {
		mm := m
		return &mm, nil
	}
	return nil, nil
}

func (s *State) CommitteeMembers() ([]common.CommitteeMember, error) {
	var out []common.CommitteeMember
	for _, k := range drepKeys { // deterministic order
		if m, ok := s.committee[keys[k].hash]; ok {
			out = append(out, m)
		}
	}
	return out, nil
}
