package rules1

// Reference models, written from the ledger specification / the property
// statements. They look only at the harness-side description of the
// transaction (TxSpec), the chosen parameters and the harness-side state
// description -- never at anything the library decoded.

import (
	"math/big"
	"sort"
)

// StSpec is the harness-side description of the ledger state.
type StSpec struct {
	StakeReg map[int]bool   // stake credential (key index) registered, recorded deposit = KeyDeposit
	Pools    map[int]bool   // pool (operator key index) registered
	DReps    map[int]bool   // drep registered, recorded deposit = DRepDeposit
	Rewards  map[int]uint64 // reward balance
	// PoolRetiring: pending retirement epoch of a REGISTERED pool (nil = none).
	// It never changes the balance: a registered pool, retiring or not, pays no
	// new deposit when it re-registers.
	PoolRetiring map[int]*uint64
	// Committee: cold credential (key index) -> resigned? (absent = not a member)
	Committee map[int]bool
	NoUtxoFor map[string]bool
}

func newStSpec() *StSpec {
	return &StSpec{StakeReg: map[int]bool{}, Pools: map[int]bool{}, DReps: map[int]bool{}, Rewards: map[int]uint64{}, PoolRetiring: map[int]*uint64{}, Committee: map[int]bool{}}
}

type Bal struct {
	Coin   *big.Int
	Assets map[AssetID]*big.Int
}

func newBal() Bal { return Bal{Coin: new(big.Int), Assets: map[AssetID]*big.Int{}} }

func (b Bal) addVal(v Val) {
	b.Coin.Add(b.Coin, new(big.Int).SetUint64(v.Coin))
	for _, a := range v.Assets {
		b.addAsset(a.ID, a.Q)
	}
}
func (b Bal) addCoin(c uint64) { b.Coin.Add(b.Coin, new(big.Int).SetUint64(c)) }
func (b Bal) addAsset(id AssetID, q *big.Int) {
	if b.Assets[id] == nil {
		b.Assets[id] = new(big.Int)
	}
	b.Assets[id].Add(b.Assets[id], q)
}

// lastWins applies the pre-Conway decoder semantics for duplicate asset keys
// in one value (Map.fromList: the last entry of a key wins); used only for the
// classes that deliberately contain duplicates.
func lastWins(as []AQ) []AQ {
	idx := map[AssetID]int{}
	var out []AQ
	for _, a := range as {
		if i, ok := idx[a.ID]; ok {
			out[i] = a
			continue
		}
		idx[a.ID] = len(out)
		out = append(out, a)
	}
	return out
}

// refConsumed: inputs + withdrawals + deposit refunds + mint.
// Refunds use the *recorded* deposits, which by the stated precondition equal
// the current parameters (KeyDeposit for stake credentials, DRepDeposit for
// DReps). Pool retirement refunds nothing inside the transaction.
func refConsumed(tx *TxSpec, p Params) Bal {
	b := newBal()
	for _, i := range tx.Ins {
		b.addVal(i.V)
	}
	for _, w := range tx.Wdrl {
		b.addCoin(w.Amount)
	}
	for _, c := range tx.Certs {
		switch c.Kind {
		case CStakeDereg, CUnreg:
			b.addCoin(p.KeyDeposit)
		case CDRepUnreg:
			b.addCoin(p.DRepDeposit)
		}
	}
	if tx.Era >= Mary {
		for _, m := range tx.Mint {
			b.addAsset(m.ID, m.Q)
		}
	}
	return b
}

// refProduced: outputs + fee + new deposits (stake, pool, DRep, proposals) + donation.
// A pool registration pays the pool deposit only when the pool is not yet
// registered, and only once per pool id within one transaction.
func refProduced(tx *TxSpec, p Params, st *StSpec) Bal {
	b := newBal()
	for _, o := range tx.Outs {
		b.addVal(o.V)
	}
	b.addCoin(tx.Fee)
	newPools := map[int]bool{}
	for _, c := range tx.Certs {
		switch c.Kind {
		case CStakeReg, CReg, CStakeRegDeleg, CVoteRegDeleg, CStakeVoteRegDg:
			b.addCoin(p.KeyDeposit)
		case CDRepReg:
			b.addCoin(p.DRepDeposit)
		case CPoolReg:
			if !st.Pools[c.Pool] && !newPools[c.Pool] {
				newPools[c.Pool] = true
				b.addCoin(p.PoolDeposit)
			}
		}
	}
	if tx.Era >= Conway {
		for _, pr := range tx.Props {
			b.addCoin(pr.Deposit)
		}
		if tx.Donation != nil {
			b.addCoin(*tx.Donation)
		}
	}
	return b
}

// refBalanced compares coin and every asset separately; returns a description
// of the first difference (deterministic order) when unbalanced.
func refBalanced(c, p Bal) (bool, string) {
	if c.Coin.Cmp(p.Coin) != 0 {
		return false, "coin: consumed " + c.Coin.String() + " produced " + p.Coin.String()
	}
	ids := map[AssetID]bool{}
	for id := range c.Assets {
		ids[id] = true
	}
	for id := range p.Assets {
		ids[id] = true
	}
	var order []AssetID
	for id := range ids {
		order = append(order, id)
	}
	sort.Slice(order, func(i, j int) bool { return order[i].String() < order[j].String() })
	zero := new(big.Int)
	for _, id := range order {
		cv, pv := c.Assets[id], p.Assets[id]
		if cv == nil {
			cv = zero
		}
		if pv == nil {
			pv = zero
		}
		if cv.Cmp(pv) != 0 {
			return false, "asset " + id.String() + ": consumed " + cv.String() + " produced " + pv.String()
		}
	}
	return true, ""
}

// refIntervalOK is the C26 reference: Shelley accepts iff slot <= ttl (ttl is
// mandatory in the Shelley CDDL); Allegra+ accepts iff (start absent or start
// <= slot) and (hereafter absent or slot < hereafter).
func refIntervalOK(era Era, slot uint64, start, ttl *uint64) bool {
	if era == Shelley {
		if ttl == nil {
			return false // not a Shelley transaction per CDDL; never generated
		}
		return slot <= *ttl
	}
	if start != nil && !(*start <= slot) {
		return false
	}
	if ttl != nil && !(slot < *ttl) {
		return false
	}
	return true
}

var maxU64 = new(big.Int).SetUint64(^uint64(0))

// refQuantityInRange: an output asset quantity must be in 1..2^64-1 (0 is
// pruned by the decoder and therefore never observable in an accepted output).
func refQuantityInRange(q *big.Int) bool { return q.Sign() > 0 && q.Cmp(maxU64) <= 0 }
