package rules1

import (
	"fmt"
	"math/big"
	"sort"
	"testing"

	gcbor "github.com/blinklabs-io/gouroboros/cbor"
	"github.com/blinklabs-io/gouroboros/ledger/common"
	"pgregory.net/rapid"

	"verif/harness/internal/evi"
	"verif/harness/internal/xcbor"
)

var (
	two63 = new(big.Int).Lsh(big.NewInt(1), 63)
	two64 = new(big.Int).Lsh(big.NewInt(1), 64)
)

// genMagnitude draws a positive magnitude from the full bignum range with
// emphasis on the 2^63 / 2^64 boundaries.
func genMagnitude(rt *rapid.T, label string) *big.Int {
	switch rapid.IntRange(0, 7).Draw(rt, label+"Class") {
	case 0:
		return big.NewInt(1)
	case 1:
		return new(big.Int).SetUint64(rapid.Uint64Range(2, 1000).Draw(rt, label))
	case 2:
		return new(big.Int).Add(two63, big.NewInt(int64(rapid.IntRange(-2, 2).Draw(rt, label+"Off"))))
	case 3:
		return new(big.Int).Add(two64, big.NewInt(int64(rapid.IntRange(-3, 3).Draw(rt, label+"Off"))))
	case 4:
		bits := rapid.IntRange(65, 128).Draw(rt, label+"Bits")
		v := new(big.Int).Lsh(big.NewInt(1), uint(bits))
		return v.Add(v, new(big.Int).SetUint64(rapid.Uint64().Draw(rt, label)))
	case 5:
		return new(big.Int).SetUint64(rapid.Uint64Range(1, ^uint64(0)).Draw(rt, label))
	case 6:
		return new(big.Int).SetUint64(rapid.Uint64Range(1<<32, 1<<40).Draw(rt, label))
	default:
		return new(big.Int).SetUint64(^uint64(0))
	}
}

type badQty struct {
	Where string // "output" | "collateral-return"
	Form  string // "array" | "map"
	Index int
	ID    AssetID
	Q     *big.Int
	Class string // "negative" | "above-u64"
}

func classifyQty(q *big.Int) string {
	switch {
	case q.Sign() < 0:
		return "negative"
	case q.Cmp(maxU64) > 0:
		return "above-u64"
	}
	return ""
}

func findBad(tx *TxSpec) []badQty {
	var out []badQty
	form := func(o Out) string {
		if o.MapForm && tx.Era >= Babbage {
			return "map"
		}
		return "array"
	}
	for i, o := range tx.Outs {
		for _, a := range o.V.Assets {
			if c := classifyQty(a.Q); c != "" {
				out = append(out, badQty{"output", form(o), i, a.ID, a.Q, c})
			}
		}
	}
	if tx.CollRet != nil && tx.Era >= Babbage {
		for _, a := range tx.CollRet.V.Assets {
			if c := classifyQty(a.Q); c != "" {
				out = append(out, badQty{"collateral-return", form(*tx.CollRet), 0, a.ID, a.Q, c})
			}
		}
	}
	return out
}

func freshAsset(rt *rapid.T, tx *TxSpec) (AssetID, bool) {
	used := map[AssetID]bool{}
	for _, in := range tx.Ins {
		for _, a := range in.V.Assets {
			used[a.ID] = true
		}
	}
	for _, m := range tx.Mint {
		used[m.ID] = true
	}
	for try := 0; try < 4; try++ {
		var id AssetID
		switch rapid.IntRange(0, 3).Draw(rt, "freshPolClass") {
		case 0:
			id.Policy = policyOfKey(payKeys[rapid.IntRange(0, 3).Draw(rt, "freshPolKey")])
		case 1:
			id.Policy = foreignPolicy(rapid.IntRange(2, 5).Draw(rt, "freshForeign"))
		default:
			sp := specialPolicies()
			id.Policy = sp[rapid.IntRange(0, len(sp)-1).Draw(rt, "freshSpecial")].ID
		}
		id.Name = assetNames[rapid.IntRange(0, len(assetNames)-1).Draw(rt, "freshName")]
		if !used[id] {
			return id, true
		}
	}
	return AssetID{}, false
}

func addToOut(o *Out, id AssetID, q *big.Int) {
	for i := range o.V.Assets {
		if o.V.Assets[i].ID == id {
			o.V.Assets[i].Q = new(big.Int).Add(o.V.Assets[i].Q, q)
			return
		}
	}
	o.V.Assets = append(o.V.Assets, AQ{id, new(big.Int).Set(q)})
}

// c08Families: how the out-of-range quantity gets into the transaction.
var c08Families = []string{"pair", "pair", "shift", "sum", "single", "collret", "control", "spread", "spread", "spread"}

func genC08(rt *rapid.T, era Era) (*Case, string) {
	fam := c08Families[rapid.IntRange(0, len(c08Families)-1).Draw(rt, "family")]
	if fam == "collret" && era < Babbage {
		fam = "pair"
	}
	o := genOpts{MaxCerts: 1, FewAssets: true, MinOuts: 2}
	if fam == "sum" {
		// two holders of the same asset whose sum exceeds 2^64-1: the value is
		// conserved, yet a single output would have to carry the whole sum
		o.MinOuts = 1
		o.AfterInputs = func(rt *rapid.T, c *Case) {
			id := AssetID{Policy: foreignPolicy(7), Name: assetNames[rapid.IntRange(0, len(assetNames)-1).Draw(rt, "sumName")]}
			hi := rapid.Uint64Range(1<<63, ^uint64(0)).Draw(rt, "sumA")
			c.Tx.Ins[0].V.Assets = append(c.Tx.Ins[0].V.Assets, AQ{id, new(big.Int).SetUint64(hi)})
			if len(c.Tx.Ins) > 1 {
				lo := rapid.Uint64Range(^uint64(0)-hi+1, ^uint64(0)).Draw(rt, "sumB")
				c.Tx.Ins[1].V.Assets = append(c.Tx.Ins[1].V.Assets, AQ{id, new(big.Int).SetUint64(lo)})
			} else {
				// second holder: a second asset entry is impossible in one value, so
				// use a second input
				in := In{TxID: hash256([]byte("c08/sum")), Ix: 9, Key: payKeys[rapid.IntRange(0, 3).Draw(rt, "sumKey")],
					V: Val{Coin: rapid.Uint64Range(1_000_000, 5_000_000).Draw(rt, "sumCoin")}}
				lo := rapid.Uint64Range(^uint64(0)-hi+1, ^uint64(0)).Draw(rt, "sumB")
				in.V.Assets = []AQ{{id, new(big.Int).SetUint64(lo)}}
				c.Tx.Ins = append(c.Tx.Ins, in)
			}
		}
	}
	// 'spread': the SAME (policy, asset) sits in 2..3 outputs, every quantity
	// legal on its own (incl. 2^63, 2^64-1, 1); one UTxO entry per part supplies
	// it, so conservation holds. Nothing here is out of range when written -
	// the point is what the outputs look like AFTER validation ran.
	var spreadID AssetID
	var spreadParts []*big.Int
	if fam == "spread" {
		np := rapid.IntRange(2, 3).Draw(rt, "spreadParts")
		o.MinOuts = np
		spreadID = AssetID{Policy: foreignPolicy(8), Name: assetNames[rapid.IntRange(0, len(assetNames)-1).Draw(rt, "spreadName")]}
		for i := 0; i < np; i++ {
			var q *big.Int
			switch rapid.IntRange(0, 4).Draw(rt, "spreadQClass") {
			case 0:
				q = new(big.Int).Set(two63)
			case 1:
				q = new(big.Int).Set(maxU64)
			case 2:
				q = big.NewInt(int64(rapid.IntRange(1, 1000).Draw(rt, "spreadQSmall")))
			case 3:
				q = new(big.Int).SetUint64(rapid.Uint64Range(1<<63-2, 1<<63+2).Draw(rt, "spreadQ63"))
			default:
				q = new(big.Int).SetUint64(rapid.Uint64Range(1, ^uint64(0)).Draw(rt, "spreadQ"))
			}
			spreadParts = append(spreadParts, q)
		}
		o.AfterInputs = func(rt *rapid.T, c *Case) {
			for i, q := range spreadParts {
				in := In{TxID: hash256([]byte("c08/spread")), Ix: uint32(10 + i), Key: payKeys[rapid.IntRange(0, 3).Draw(rt, "spreadKey")],
					V: Val{Coin: rapid.Uint64Range(1_000_000, 5_000_000).Draw(rt, "spreadCoin"), Assets: []AQ{{spreadID, new(big.Int).Set(q)}}}}
				c.Tx.Ins = append(c.Tx.Ins, in)
			}
		}
	}
	o.BeforeCoins = func(rt *rapid.T, c *Case) {
		tx := c.Tx
		n := len(tx.Outs)
		tagged := rapid.IntRange(0, 3).Draw(rt, "taggedBig") == 0
		switch fam {
		case "pair":
			id, ok := freshAsset(rt, tx)
			if !ok {
				return
			}
			q := genMagnitude(rt, "pairQ")
			i := rapid.IntRange(0, n-1).Draw(rt, "pairPlus")
			j := (i + 1 + rapid.IntRange(0, n-2).Draw(rt, "pairMinus")) % n
			addToOut(&tx.Outs[i], id, q)
			addToOut(&tx.Outs[j], id, new(big.Int).Neg(q))
			tx.Outs[i].V.TaggedBig = tagged
			tx.Outs[j].V.TaggedBig = tagged
		case "shift":
			// move d of an asset that really is consumed from output j to output i
			var cand [][2]int
			for oi, out := range tx.Outs {
				for ai := range out.V.Assets {
					cand = append(cand, [2]int{oi, ai})
				}
			}
			if len(cand) == 0 {
				return
			}
			p := cand[rapid.IntRange(0, len(cand)-1).Draw(rt, "shiftPick")]
			id := tx.Outs[p[0]].V.Assets[p[1]].ID
			d := genMagnitude(rt, "shiftD")
			j := (p[0] + 1 + rapid.IntRange(0, n-2).Draw(rt, "shiftOther")) % n
			addToOut(&tx.Outs[p[0]], id, d)
			addToOut(&tx.Outs[j], id, new(big.Int).Neg(d))
			tx.Outs[p[0]].V.TaggedBig = tagged
		case "sum":
			// merge all parts of the summed asset into one output
			id := AssetID{Policy: foreignPolicy(7)}
			total := new(big.Int)
			for oi := range tx.Outs {
				var keep []AQ
				for _, a := range tx.Outs[oi].V.Assets {
					if a.ID.Policy == id.Policy {
						id = a.ID
						total.Add(total, a.Q)
						continue
					}
					keep = append(keep, a)
				}
				tx.Outs[oi].V.Assets = keep
			}
			i := rapid.IntRange(0, n-1).Draw(rt, "sumOut")
			if rapid.IntRange(0, 3).Draw(rt, "sumSplitLegal") == 0 && n > 1 {
				// legal alternative: two outputs each within range (control)
				a := new(big.Int).Set(maxU64)
				addToOut(&tx.Outs[i], id, a)
				addToOut(&tx.Outs[(i+1)%n], id, new(big.Int).Sub(total, a))
			} else {
				addToOut(&tx.Outs[i], id, total)
			}
			tx.Outs[i].V.TaggedBig = tagged
		case "spread":
			// undo the generic distribution of the asset and pay one part per output
			for oi := range tx.Outs {
				var keep []AQ
				for _, a := range tx.Outs[oi].V.Assets {
					if a.ID != spreadID {
						keep = append(keep, a)
					}
				}
				tx.Outs[oi].V.Assets = keep
			}
			first := rapid.IntRange(0, n-1).Draw(rt, "spreadFirst")
			for i, q := range spreadParts {
				oi := (first + i) % n
				tx.Outs[oi].V.Assets = append(tx.Outs[oi].V.Assets, AQ{spreadID, new(big.Int).Set(q)})
				tx.Outs[oi].V.TaggedBig = tagged && rapid.Bool().Draw(rt, "spreadTagged")
			}
		case "single":
			// one bad quantity without compensation (value NOT conserved)
			id, ok := freshAsset(rt, tx)
			if !ok {
				return
			}
			q := genMagnitude(rt, "singleQ")
			if rapid.Bool().Draw(rt, "singleNeg") {
				q.Neg(q)
			}
			i := rapid.IntRange(0, n-1).Draw(rt, "singleOut")
			addToOut(&tx.Outs[i], id, q)
			tx.Outs[i].V.TaggedBig = tagged
		case "collret":
			cin := In{TxID: hash256([]byte("c08/coll")), Ix: uint32(rapid.IntRange(0, 2).Draw(rt, "collIx")),
				Key: payKeys[rapid.IntRange(0, 3).Draw(rt, "collKey")], V: Val{Coin: rapid.Uint64Range(20_000_000, 90_000_000).Draw(rt, "collCoin")}}
			tx.Coll = []In{cin}
			ret := Out{Addr: payAddr(tx.Net, cin.Key), MapForm: rapid.Bool().Draw(rt, "collMap")}
			id, ok := freshAsset(rt, tx)
			if !ok {
				return
			}
			q := genMagnitude(rt, "collQ")
			if rapid.Bool().Draw(rt, "collNeg") {
				q.Neg(q)
			}
			ret.V.Assets = []AQ{{id, q}}
			ret.V.TaggedBig = tagged
			ret.V.Coin = outMinCoin(tx.Era, c.P, ret) + c.P.MinUtxo + rapid.Uint64Range(0, 1_000_000).Draw(rt, "collRetExtra")
			if ret.V.Coin > cin.V.Coin {
				ret.V.Coin = cin.V.Coin
			}
			tx.CollRet = &ret
			if rapid.Bool().Draw(rt, "totalColl") {
				tx.TotalColl = u64p(cin.V.Coin - ret.V.Coin)
			}
		case "control":
			// valid boundary quantities only
			id, ok := freshAsset(rt, tx)
			if !ok {
				return
			}
			// fresh asset paid out needs a source: put it on the mint side is not
			// possible here (mint is fixed), so use +q/-q = 0 split: q and 0
			i := rapid.IntRange(0, n-1).Draw(rt, "ctlOut")
			addToOut(&tx.Outs[i], id, big.NewInt(0)) // explicit zero: pruned by the decoder
			tx.Outs[i].V.TaggedBig = tagged
		}
	}
	return genCase(rt, era, o), fam
}

func c08Key(era Era, b badQty, conserving bool) string {
	bal := "unbalanced"
	if conserving {
		bal = "value-conserving"
	}
	if b.Where == "collateral-return" {
		return fmt.Sprintf("C08:%s:collateral-return:%s", era, b.Class)
	}
	return fmt.Sprintf("C08:%s:output:%s:%s", era, b.Class, bal)
}

func TestC08(t *testing.T) {
	rec := evi.New(t, "C08", evi.Exploration,
		"Mary..Dijkstra transactions that are valid for the era's complete rule list (funded, signed, fees/min-UTxO/sizes satisfied, certificates/withdrawals/mint as noise) into which out-of-range asset quantities are injected by construction: 'pair' (+q/-q of a fresh asset in two outputs, nothing minted), 'shift' (+d/-d of a really consumed asset), 'sum' (two UTxO entries whose quantities add up beyond 2^64-1 paid to one output), 'single' (one uncompensated bad quantity), 'collret' (Babbage+ collateral return carrying the bad quantity), 'control' (only legal quantities incl. explicit 0), 'spread' (the SAME policy+asset in 2-3 outputs, each quantity legal on its own - 2^63, 2^64-1, small, random - supplied by one UTxO entry per part). Magnitudes from the full bignum range with emphasis on 2^63 and 2^64 (+-3), plain and bignum-tagged encodings, array and map output forms. Pipeline = era decoder + VerifyTransaction with the era's UtxoValidationRules. Oracle: decode and validation accept => every output / collateral-return quantity q written in the transaction satisfies 0 <= q <= 2^64-1 (0 is pruned). In addition, for every decoded transaction the quantities observable through Outputs()/Produced()/CollateralReturn() (and each output's Cbor()) are snapshotted before validation and must be identical after the era's conservation rule, after the full rule list and after a second run of the list; both runs must give the same verdict, and an accepted transaction must still carry only quantities in 1..2^64-1. Policy ids come from ordinary hashes and from special values (28x00, 28xff, 27x00+01, a payment key hash), the latter also in a deterministic sweep (era x special policy x output form x {-1,-5,2^64,-2^64,2^64+1,5} x pair/single/collateral return). The harness reads every written (output, policy, name) back with Asset(policy,name), from the library's re-encoding of the output parsed with xcbor, and requires Policies()/Assets() to enumerate exactly the written non-zero pairs. Non-trivial = some written quantity is < 0 or > 2^64-1, or one asset occurs in several outputs; distinct by (era, transaction bytes).")
	defer rec.Finish()
	rec.Assume(
		"the UTxO set holds only valid values (inputs are not the subject)",
		"rejection of a transaction is never a violation here (one-directional statement); acceptance rates of the control family are reported so that rejections are not vacuous",
		"ed25519 and blake2b from the Go standard/x libraries are trusted",
	)
	eras := []Era{Mary, Alonzo, Babbage, Conway, Dijkstra}

	// deterministic sweep: special policy ids (28x00, 28xff, 27x00+01, a key hash
	// used as address) x out-of-range quantities x output form x pair/single/collateral return
	nSweep := 0
	for _, era := range eras {
		for _, sc := range c08Sweep(era) {
			nSweep++
			c08Judge(rec, sc.C, sc.Name, func(m string) { t.Fatalf("%s", m) },
				func(key, what string, cs any) bool { return rec.Violation(key, what, cs) })
		}
	}
	rec.SetExtra("special_policy_sweep_cases", nSweep)

	rec.Check(func(rt *rapid.T) {
		era := eras[rapid.IntRange(0, len(eras)-1).Draw(rt, "era")]
		c, fam := genC08(rt, era)
		c08Judge(rec, c, fam, func(m string) { rt.Fatalf("%s", m) },
			func(key, what string, cs any) bool { return rec.Fail(rt, key, what, cs) })
	})
}

// c08Judge runs one case through decoder + rules and applies the oracle. fail
// is rec.Fail (rapid) or rec.Violation (deterministic sweep).
func c08Judge(rec *evi.Recorder, c *Case, fam string, fatal func(string), fail func(key, what string, cs any) bool) {
	era := c.Tx.Era
	tx := c.Tx
	bad := findBad(tx)
	conserving, _ := refBalanced(refConsumed(tx, c.P), refProduced(tx, c.P, c.SS))
	st, err := c.state()
	if err != nil {
		fatal(fmt.Sprintf("harness: state: %v", err))
		return
	}
	raw, _ := tx.Encode()
	rec.Eval()
	rec.Class("family:" + fam)
	for _, b := range bad {
		rec.Class(fmt.Sprintf("written:%s:%s:%s", b.Where, b.Form, b.Class))
		if b.Q.IsInt64() || b.Q.IsUint64() || new(big.Int).Neg(b.Q).Cmp(two64) <= 0 {
			rec.Class("written:fits-cbor-int")
		} else {
			rec.Class("written:needs-bignum-tag")
		}
	}
	if len(bad) > 0 {
		h := hash256(raw)
		rec.NonTrivial(fmt.Sprintf("%s %x", era, h[:]), map[string]any{"era": era.String(), "family": fam,
			"bad_quantities": fmt.Sprintf("%+v", bad), "value_conserving": conserving, "tx": evi.Hex(raw)})
	}
	dtx, err := decodeTx(era, raw)
	if err != nil {
		if len(bad) > 0 {
			rec.Class(fmt.Sprintf("%s:bad:decode_rejected", era))
		} else {
			rec.Class(fmt.Sprintf("%s:clean:decode_rejected", era))
			rec.Class("clean_decode_rejected:" + errClass(err))
		}
		return
	}
	// The harness knows which (output, policy, name) pairs it wrote: read them
	// back one by one with Asset(policy, name) - not through Policies() - and
	// from the library's re-encoding of each output parsed with xcbor; then
	// require that Policies()/Assets() enumerate exactly the non-zero pairs.
	if key, what := crossCheckAccessors(rec, tx, dtx); key != "" {
		cs := describeCase(c)
		cs["family"] = fam
		if fail(fmt.Sprintf("C08:%s:%s", era, key), fmt.Sprintf("%s: %s", era, what), cs) {
			return
		}
	}
	// Observable output quantities BEFORE any rule ran ...
	snap0 := snapshotQuantities(dtx)
	sharedAsset := assetInSeveralOutputs(tx)
	if sharedAsset {
		rec.Class(fmt.Sprintf("%s:same_asset_in_several_outputs", era))
		if len(bad) == 0 {
			h := hash256(raw)
			rec.NonTrivial(fmt.Sprintf("%s shared %x", era, h[:]), map[string]any{"era": era.String(), "family": fam,
				"same_asset_in_several_outputs": true, "tx": evi.Hex(raw)})
		}
	}
	pp := c.P.forEra(era)
	// ... the era's conservation rule alone, then the full list, twice
	rerr := conservationRule(era)(dtx, c.Slot, st, pp)
	snapR := snapshotQuantities(dtx)
	verr := common.VerifyTransaction(dtx, c.Slot, st, pp, rulesFor(era))
	snap1 := snapshotQuantities(dtx)
	verr2 := common.VerifyTransaction(dtx, c.Slot, st, pp, rulesFor(era))
	snap2 := snapshotQuantities(dtx)
	rerr2 := conservationRule(era)(dtx, c.Slot, st, pp)
	for _, sn := range []struct {
		after string
		s     []string
	}{{"the value-conservation rule", snapR}, {"the full rule list", snap1}, {"the second run of the full rule list", snap2}} {
		if diff := diffSnapshots(snap0, sn.s); diff != "" {
			cs := describeCase(c)
			cs["family"] = fam
			cs["before"] = snap0
			cs["after"] = sn.s
			cs["verdict_first"] = fmt.Sprint(verr)
			cs["verdict_second"] = fmt.Sprint(verr2)
			what := fmt.Sprintf("%s: the quantities carried by the decoded transaction's outputs (Outputs()/Produced()/CollateralReturn()) change while it is validated: after %s %s; every written quantity was within 1..2^64-1=%v, rule verdict=%v, full-list verdict=%v",
				era, sn.after, diff, len(bad) == 0, rerr, verr)
			if fail(fmt.Sprintf("C08:%s:rule-mutates-output-quantity", era), what, cs) {
				return
			}
			break
		}
	}
	if (verr == nil) != (verr2 == nil) || (rerr == nil) != (rerr2 == nil) {
		cs := describeCase(c)
		cs["family"] = fam
		what := fmt.Sprintf("%s: validating the same decoded transaction twice gives different verdicts: full list %v then %v; conservation rule %v then %v", era, verr, verr2, rerr, rerr2)
		if fail(fmt.Sprintf("C08:%s:second-validation-verdict-differs", era), what, cs) {
			return
		}
	}
	if verr == nil {
		// whatever was accepted must (still) carry only quantities in 1..2^64-1
		if q := firstOutOfRange(dtx); q != "" && len(bad) == 0 {
			cs := describeCase(c)
			cs["family"] = fam
			if fail(fmt.Sprintf("C08:%s:accepted-tx-carries-out-of-range-quantity-after-validation", era),
				fmt.Sprintf("%s: after acceptance the transaction's outputs carry %s although every written quantity was within 1..2^64-1", era, q), cs) {
				return
			}
		}
	}
	if len(bad) == 0 {
		if verr == nil {
			rec.Class(fmt.Sprintf("%s:clean:accepted", era))
		} else {
			rec.Class(fmt.Sprintf("%s:clean:rejected", era))
			rec.Class(fmt.Sprintf("clean_rejected:%s:%s", fam, errClass(verr)))
		}
		return
	}
	if verr != nil {
		rec.Class(fmt.Sprintf("%s:bad:validation_rejected", era))
		rec.Class(fmt.Sprintf("bad_rejected:%s:conserving=%v:%s", fam, conserving, errClass(verr)))
		return
	}
	rec.Class(fmt.Sprintf("%s:bad:ACCEPTED", era))
	// report the most specific class: a negative quantity wins over an oversized one
	pick := bad[0]
	for _, b := range bad {
		if b.Class == "negative" {
			pick = b
			break
		}
	}
	// what the library decoded for it (information only)
	decoded := "?"
	var outs []common.TransactionOutput
	if pick.Where == "output" {
		outs = dtx.Outputs()
	} else if cr := dtx.CollateralReturn(); cr != nil {
		outs = []common.TransactionOutput{cr}
	}
	if pick.Index < len(outs) && outs[pick.Index].Assets() != nil {
		if v := outs[pick.Index].Assets().Asset(common.Blake2b224(pick.ID.Policy), []byte(pick.ID.Name)); v != nil {
			decoded = v.String()
		}
	}
	cs := describeCase(c)
	cs["family"] = fam
	cs["bad_quantities"] = fmt.Sprintf("%+v", bad)
	cs["value_conserving"] = conserving
	what := fmt.Sprintf("%s: decoder and full rule list accept a transaction whose %s #%d (%s form) carries quantity %s of asset %s (%s; library decoded it as %s); family=%s, reference balance conserved=%v",
		era, pick.Where, pick.Index, pick.Form, pick.Q, pick.ID, pick.Class, decoded, fam, conserving)
	fail(c08Key(era, pick, conserving), what, cs)
}

// snapshotQuantities lists every asset quantity observable on the decoded
// transaction through the public accessors: Outputs(), Produced() and
// CollateralReturn(), plus the bytes each output reports as its CBOR.
func snapshotQuantities(tx common.Transaction) []string {
	var out []string
	one := func(where string, i int, o common.TransactionOutput) {
		if o == nil {
			return
		}
		coin := "nil"
		if a := o.Amount(); a != nil {
			coin = a.String()
		}
		out = append(out, fmt.Sprintf("%s#%d coin=%s cbor=%x", where, i, coin, hash256(o.Cbor())))
		as := o.Assets()
		if as == nil {
			return
		}
		var lines []string
		for _, pol := range as.Policies() {
			for _, name := range as.Assets(pol) {
				q := as.Asset(pol, name)
				qs := "nil"
				if q != nil {
					qs = q.String()
				}
				lines = append(lines, fmt.Sprintf("%s#%d %x.%x=%s", where, i, pol.Bytes(), name, qs))
			}
		}
		sort.Strings(lines)
		out = append(out, lines...)
	}
	for i, o := range tx.Outputs() {
		one("output", i, o)
	}
	for i, u := range tx.Produced() {
		one("produced", i, u.Output)
	}
	one("collateral-return", 0, tx.CollateralReturn())
	return out
}

func diffSnapshots(a, b []string) string {
	if len(a) != len(b) {
		return fmt.Sprintf("%d observable entries became %d", len(a), len(b))
	}
	for i := range a {
		if a[i] != b[i] {
			return fmt.Sprintf("%q became %q", a[i], b[i])
		}
	}
	return ""
}

// firstOutOfRange looks at the decoded transaction (not at the harness spec).
func firstOutOfRange(tx common.Transaction) string {
	check := func(where string, i int, o common.TransactionOutput) string {
		if o == nil || o.Assets() == nil {
			return ""
		}
		as := o.Assets()
		pols := as.Policies()
		sort.Slice(pols, func(a, b int) bool { return string(pols[a].Bytes()) < string(pols[b].Bytes()) })
		for _, pol := range pols {
			names := as.Assets(pol)
			sort.Slice(names, func(a, b int) bool { return string(names[a]) < string(names[b]) })
			for _, name := range names {
				if q := as.Asset(pol, name); q != nil && !refQuantityInRange(q) {
					return fmt.Sprintf("%s #%d asset %x.%x quantity %s", where, i, pol.Bytes(), name, q)
				}
			}
		}
		return ""
	}
	for i, o := range tx.Outputs() {
		if s := check("output", i, o); s != "" {
			return s
		}
	}
	for i, u := range tx.Produced() {
		if s := check("produced", i, u.Output); s != "" {
			return s
		}
	}
	return check("collateral-return", 0, tx.CollateralReturn())
}

func assetInSeveralOutputs(tx *TxSpec) bool {
	n := map[AssetID]int{}
	for _, o := range tx.Outs {
		seen := map[AssetID]bool{}
		for _, a := range o.V.Assets {
			if !seen[a.ID] {
				seen[a.ID] = true
				n[a.ID]++
			}
		}
	}
	for _, k := range n {
		if k > 1 {
			return true
		}
	}
	return false
}

// ---- special policy ids ------------------------------------------------------

type namedPolicy struct {
	Name string
	ID   [28]byte
}

// specialPolicies: ids a generator drawing hashes would never produce.
func specialPolicies() []namedPolicy {
	var zero, ff, one [28]byte
	for i := range ff {
		ff[i] = 0xff
	}
	one[27] = 1
	return []namedPolicy{{"all-zero", zero}, {"all-ff", ff}, {"zero-then-01", one}, {"equals-payment-key-hash", keys[1].hash}}
}

func policyClass(p [28]byte) string {
	for _, sp := range specialPolicies() {
		if sp.ID == p {
			return sp.Name
		}
	}
	return "ordinary"
}

// crossCheckAccessors compares, per output (and collateral return), what the
// harness wrote with what the decoded transaction reports (a) through
// Asset(policy, name) for exactly the written pairs, (b) through the
// Policies()/Assets() enumeration, (c) in the library's re-encoding of the
// output, parsed with xcbor. Returns a finding key suffix and description.
func crossCheckAccessors(rec *evi.Recorder, tx *TxSpec, dtx common.Transaction) (string, string) {
	type target struct {
		where string
		idx   int
		spec  Out
		out   common.TransactionOutput
	}
	var ts []target
	outs := dtx.Outputs()
	if len(outs) != len(tx.Outs) {
		return "decoded-output-count-differs", fmt.Sprintf("%d outputs written, %d decoded", len(tx.Outs), len(outs))
	}
	for i := range tx.Outs {
		ts = append(ts, target{"output", i, tx.Outs[i], outs[i]})
	}
	if tx.CollRet != nil && tx.Era >= Babbage {
		if cr := dtx.CollateralReturn(); cr != nil {
			ts = append(ts, target{"collateral-return", 0, *tx.CollRet, cr})
		}
	}
	for _, tg := range ts {
		want := map[AssetID]*big.Int{}
		for _, a := range tg.spec.V.Assets {
			if a.Q.Sign() != 0 { // zero entries are pruned by the decoder
				want[a.ID] = a.Q
			}
			rec.Class("written_policy:" + policyClass(a.ID.Policy))
		}
		as := tg.out.Assets()
		// (a) direct lookups
		for id, q := range want {
			var got *big.Int
			if as != nil {
				got = as.Asset(common.Blake2b224(id.Policy), []byte(id.Name))
			}
			if got == nil || got.Cmp(q) != 0 {
				return "decoded-quantity-differs-from-written", fmt.Sprintf("%s #%d: wrote %s of %s, Asset() returns %v", tg.where, tg.idx, q, id, got)
			}
		}
		// (b) enumeration must list exactly the written non-zero pairs
		enum := map[AssetID]bool{}
		if as != nil {
			for _, pol := range as.Policies() {
				for _, name := range as.Assets(pol) {
					enum[AssetID{Policy: [28]byte(pol), Name: string(name)}] = true
				}
			}
		}
		for id := range want {
			if !enum[id] {
				return "accessor-hides-asset-entry", fmt.Sprintf("%s #%d: Policies()/Assets() do not list %s (policy class %s) although Asset() returns %s for it", tg.where, tg.idx, id, policyClass(id.Policy), want[id])
			}
		}
		for id := range enum {
			if want[id] == nil {
				return "accessor-invents-asset-entry", fmt.Sprintf("%s #%d: Policies()/Assets() list %s which was not written", tg.where, tg.idx, id)
			}
		}
		// (c) the library's own re-encoding of the output
		enc, err := gcbor.Encode(tg.out)
		if err != nil {
			return "output-reencode-fails", fmt.Sprintf("%s #%d: %v", tg.where, tg.idx, err)
		}
		got, ok := quantitiesInOutputCbor(enc)
		if !ok {
			return "output-reencode-unparseable", fmt.Sprintf("%s #%d: %x", tg.where, tg.idx, enc)
		}
		for id, q := range want {
			if g := got[id]; g == nil || g.Cmp(q) != 0 {
				return "reencoded-quantity-differs-from-written", fmt.Sprintf("%s #%d: wrote %s of %s, re-encoded output carries %v", tg.where, tg.idx, q, id, g)
			}
		}
		for id, g := range got {
			if want[id] == nil && g.Sign() != 0 {
				return "reencoded-output-invents-asset-entry", fmt.Sprintf("%s #%d: re-encoded output carries %s of %s", tg.where, tg.idx, g, id)
			}
		}
	}
	return "", ""
}

// quantitiesInOutputCbor parses an encoded transaction output (array or map
// form) with xcbor and returns its multi-asset quantities.
func quantitiesInOutputCbor(b []byte) (map[AssetID]*big.Int, bool) {
	n, err := xcbor.ParseExact(b)
	if err != nil {
		return nil, false
	}
	var val *xcbor.Node
	switch n.Kind {
	case xcbor.Array:
		if len(n.Items) < 2 {
			return nil, false
		}
		val = n.Items[1]
	case xcbor.Map:
		val = n.MapGet(1)
	}
	if val == nil {
		return nil, false
	}
	out := map[AssetID]*big.Int{}
	if val.Kind != xcbor.Array {
		return out, true // coin only
	}
	if len(val.Items) != 2 || val.Items[1].Kind != xcbor.Map {
		return nil, false
	}
	ma := val.Items[1]
	for i := 0; i+1 < len(ma.Items); i += 2 {
		pol, inner := ma.Items[i], ma.Items[i+1]
		if pol.Kind != xcbor.Bytes || len(pol.Payload()) != 28 || inner.Kind != xcbor.Map {
			return nil, false
		}
		for j := 0; j+1 < len(inner.Items); j += 2 {
			q, ok := inner.Items[j+1].Int()
			if !ok || inner.Items[j].Kind != xcbor.Bytes {
				return nil, false
			}
			id := AssetID{Name: string(inner.Items[j].Payload())}
			copy(id.Policy[:], pol.Payload())
			out[id] = q
		}
	}
	return out, true
}

// ---- deterministic sweep over special policy ids ---------------------------------

type c08SweepCase struct {
	Name string
	C    *Case
}

// c08Sweep: for every era, special policy id, output form and a handful of
// out-of-range quantities: a value-conserving pair (+q/-q), a lone bad
// quantity, and (Babbage+) a collateral return carrying it. Coin side exact.
func c08Sweep(era Era) []c08SweepCase {
	var out []c08SweepCase
	p := defaultParams(era)
	negTwo64 := new(big.Int).Neg(two64)
	qs := []*big.Int{big.NewInt(-1), big.NewInt(-5), new(big.Int).Set(two64), negTwo64, new(big.Int).Add(two64, big.NewInt(1)), big.NewInt(5)}
	forms := []bool{false}
	if era >= Babbage {
		forms = []bool{false, true}
	}
	for _, sp := range specialPolicies() {
		for _, mapForm := range forms {
			for qi, q := range qs {
				for _, kind := range []string{"pair", "single", "collret"} {
					if kind == "collret" && era < Babbage {
						continue
					}
					id := AssetID{Policy: sp.ID, Name: assetNames[qi%len(assetNames)]}
					in := In{TxID: hash256([]byte("c08sweep")), Ix: 0, Key: 0, V: Val{Coin: 60_000_000}}
					tx := &TxSpec{Era: era, Net: 0, Ins: []In{in}, Fee: p.MinFeeA*2500 + p.MinFeeB + 1000}
					rest := in.V.Coin - tx.Fee
					tx.Outs = []Out{{Addr: payAddr(0, 1), MapForm: mapForm, V: Val{Coin: rest / 2}}, {Addr: payAddr(0, 2), MapForm: mapForm, V: Val{Coin: rest - rest/2}}}
					switch kind {
					case "pair":
						tx.Outs[0].V.Assets = []AQ{{id, new(big.Int).Set(q)}}
						tx.Outs[1].V.Assets = []AQ{{id, new(big.Int).Neg(q)}}
					case "single":
						tx.Outs[1].V.Assets = []AQ{{id, new(big.Int).Set(q)}}
					case "collret":
						cin := In{TxID: hash256([]byte("c08sweep/coll")), Ix: 1, Key: 0, V: Val{Coin: 30_000_000}}
						tx.Coll = []In{cin}
						tx.CollRet = &Out{Addr: payAddr(0, 0), MapForm: mapForm, V: Val{Coin: 25_000_000, Assets: []AQ{{id, new(big.Int).Set(q)}}}}
					}
					out = append(out, c08SweepCase{fmt.Sprintf("sweep-%s-%s", kind, sp.Name), &Case{Tx: tx, P: p, SS: newStSpec(), Slot: 5000, UtxoMap: mapForm}})
				}
			}
		}
	}
	return out
}
