package rules1

import (
	"fmt"
	"math/big"
	"sort"
	"testing"

	"github.com/blinklabs-io/gouroboros/ledger/common"
	"pgregory.net/rapid"

	"verif/harness/internal/evi"
)

var (
	two63 = new(big.Int).Lsh(big.NewInt(1), 63)
	two64 = new(big.Int).Lsh(big.NewInt(1), 64)
)

// genMagnitude draws a positive magnitude from the full bignum range with
// emphasis on the 2^63 / 2^64 boundaries.
func genMagnitude(rt *rapid.T, label string) *big.Int {
	switch rapid.IntRange(0, 7).Draw(rt, label+"Class") {
	case 0:
		return big.NewInt(1)
	case 1:
		return new(big.Int).SetUint64(rapid.Uint64Range(2, 1000).Draw(rt, label))
	case 2:
		return new(big.Int).Add(two63, big.NewInt(int64(rapid.IntRange(-2, 2).Draw(rt, label+"Off"))))
	case 3:
		return new(big.Int).Add(two64, big.NewInt(int64(rapid.IntRange(-3, 3).Draw(rt, label+"Off"))))
	case 4:
		bits := rapid.IntRange(65, 128).Draw(rt, label+"Bits")
		v := new(big.Int).Lsh(big.NewInt(1), uint(bits))
		return v.Add(v, new(big.Int).SetUint64(rapid.Uint64().Draw(rt, label)))
	case 5:
		return new(big.Int).SetUint64(rapid.Uint64Range(1, ^uint64(0)).Draw(rt, label))
	case 6:
		return new(big.Int).SetUint64(rapid.Uint64Range(1<<32, 1<<40).Draw(rt, label))
	default:
		return new(big.Int).SetUint64(^uint64(0))
	}
}

type badQty struct {
	Where string // "output" | "collateral-return"
	Form  string // "array" | "map"
	Index int
	ID    AssetID
	Q     *big.Int
	Class string // "negative" | "above-u64"
}

func classifyQty(q *big.Int) string {
	switch {
	case q.Sign() < 0:
		return "negative"
	case q.Cmp(maxU64) > 0:
		return "above-u64"
	}
	return ""
}

func findBad(tx *TxSpec) []badQty {
	var out []badQty
	form := func(o Out) string {
		if o.MapForm && tx.Era >= Babbage {
			return "map"
		}
		return "array"
	}
	for i, o := range tx.Outs {
		for _, a := range o.V.Assets {
			if c := classifyQty(a.Q); c != "" {
				out = append(out, badQty{"output", form(o), i, a.ID, a.Q, c})
			}
		}
	}
	if tx.CollRet != nil && tx.Era >= Babbage {
		for _, a := range tx.CollRet.V.Assets {
			if c := classifyQty(a.Q); c != "" {
				out = append(out, badQty{"collateral-return", form(*tx.CollRet), 0, a.ID, a.Q, c})
			}
		}
	}
	return out
}

func freshAsset(rt *rapid.T, tx *TxSpec) (AssetID, bool) {
	used := map[AssetID]bool{}
	for _, in := range tx.Ins {
		for _, a := range in.V.Assets {
			used[a.ID] = true
		}
	}
	for _, m := range tx.Mint {
		used[m.ID] = true
	}
	for try := 0; try < 4; try++ {
		var id AssetID
		if rapid.Bool().Draw(rt, "freshOwn") {
			id.Policy = policyOfKey(payKeys[rapid.IntRange(0, 3).Draw(rt, "freshPolKey")])
		} else {
			id.Policy = foreignPolicy(rapid.IntRange(2, 5).Draw(rt, "freshForeign"))
		}
		id.Name = assetNames[rapid.IntRange(0, len(assetNames)-1).Draw(rt, "freshName")]
		if !used[id] {
			return id, true
		}
	}
	return AssetID{}, false
}

func addToOut(o *Out, id AssetID, q *big.Int) {
	for i := range o.V.Assets {
		if o.V.Assets[i].ID == id {
			o.V.Assets[i].Q = new(big.Int).Add(o.V.Assets[i].Q, q)
			return
		}
	}
	o.V.Assets = append(o.V.Assets, AQ{id, new(big.Int).Set(q)})
}

// c08Families: how the out-of-range quantity gets into the transaction.
var c08Families = []string{"pair", "pair", "shift", "sum", "single", "collret", "control", "spread", "spread", "spread"}

func genC08(rt *rapid.T, era Era) (*Case, string) {
	fam := c08Families[rapid.IntRange(0, len(c08Families)-1).Draw(rt, "family")]
	if fam == "collret" && era < Babbage {
		fam = "pair"
	}
	o := genOpts{MaxCerts: 1, FewAssets: true, MinOuts: 2}
	if fam == "sum" {
		// two holders of the same asset whose sum exceeds 2^64-1: the value is
		// conserved, yet a single output would have to carry the whole sum
		o.MinOuts = 1
		o.AfterInputs = func(rt *rapid.T, c *Case) {
			id := AssetID{Policy: foreignPolicy(7), Name: assetNames[rapid.IntRange(0, len(assetNames)-1).Draw(rt, "sumName")]}
			hi := rapid.Uint64Range(1<<63, ^uint64(0)).Draw(rt, "sumA")
			c.Tx.Ins[0].V.Assets = append(c.Tx.Ins[0].V.Assets, AQ{id, new(big.Int).SetUint64(hi)})
			if len(c.Tx.Ins) > 1 {
				lo := rapid.Uint64Range(^uint64(0)-hi+1, ^uint64(0)).Draw(rt, "sumB")
				c.Tx.Ins[1].V.Assets = append(c.Tx.Ins[1].V.Assets, AQ{id, new(big.Int).SetUint64(lo)})
			} else {
				// second holder: a second asset entry is impossible in one value, so
				// use a second input
				in := In{TxID: hash256([]byte("c08/sum")), Ix: 9, Key: payKeys[rapid.IntRange(0, 3).Draw(rt, "sumKey")],
					V: Val{Coin: rapid.Uint64Range(1_000_000, 5_000_000).Draw(rt, "sumCoin")}}
				lo := rapid.Uint64Range(^uint64(0)-hi+1, ^uint64(0)).Draw(rt, "sumB")
				in.V.Assets = []AQ{{id, new(big.Int).SetUint64(lo)}}
				c.Tx.Ins = append(c.Tx.Ins, in)
			}
		}
	}
	// 'spread': the SAME (policy, asset) sits in 2..3 outputs, every quantity
	// legal on its own (incl. 2^63, 2^64-1, 1); one UTxO entry per part supplies
	// it, so conservation holds. Nothing here is out of range when written -
	// the point is what the outputs look like AFTER validation ran.
	var spreadID AssetID
	var spreadParts []*big.Int
	if fam == "spread" {
		np := rapid.IntRange(2, 3).Draw(rt, "spreadParts")
		o.MinOuts = np
		spreadID = AssetID{Policy: foreignPolicy(8), Name: assetNames[rapid.IntRange(0, len(assetNames)-1).Draw(rt, "spreadName")]}
		for i := 0; i < np; i++ {
			var q *big.Int
			switch rapid.IntRange(0, 4).Draw(rt, "spreadQClass") {
			case 0:
				q = new(big.Int).Set(two63)
			case 1:
				q = new(big.Int).Set(maxU64)
			case 2:
				q = big.NewInt(int64(rapid.IntRange(1, 1000).Draw(rt, "spreadQSmall")))
			case 3:
				q = new(big.Int).SetUint64(rapid.Uint64Range(1<<63-2, 1<<63+2).Draw(rt, "spreadQ63"))
			default:
				q = new(big.Int).SetUint64(rapid.Uint64Range(1, ^uint64(0)).Draw(rt, "spreadQ"))
			}
			spreadParts = append(spreadParts, q)
		}
		o.AfterInputs = func(rt *rapid.T, c *Case) {
			for i, q := range spreadParts {
				in := In{TxID: hash256([]byte("c08/spread")), Ix: uint32(10 + i), Key: payKeys[rapid.IntRange(0, 3).Draw(rt, "spreadKey")],
					V: Val{Coin: rapid.Uint64Range(1_000_000, 5_000_000).Draw(rt, "spreadCoin"), Assets: []AQ{{spreadID, new(big.Int).Set(q)}}}}
				c.Tx.Ins = append(c.Tx.Ins, in)
			}
		}
	}
	o.BeforeCoins = func(rt *rapid.T, c *Case) {
		tx := c.Tx
		n := len(tx.Outs)
		tagged := rapid.IntRange(0, 3).Draw(rt, "taggedBig") == 0
		switch fam {
		case "pair":
			id, ok := freshAsset(rt, tx)
			if !ok {
				return
			}
			q := genMagnitude(rt, "pairQ")
			i := rapid.IntRange(0, n-1).Draw(rt, "pairPlus")
			j := (i + 1 + rapid.IntRange(0, n-2).Draw(rt, "pairMinus")) % n
			addToOut(&tx.Outs[i], id, q)
			addToOut(&tx.Outs[j], id, new(big.Int).Neg(q))
			tx.Outs[i].V.TaggedBig = tagged
			tx.Outs[j].V.TaggedBig = tagged
		case "shift":
			// move d of an asset that really is consumed from output j to output i
			var cand [][2]int
			for oi, out := range tx.Outs {
				for ai := range out.V.Assets {
					cand = append(cand, [2]int{oi, ai})
				}
			}
			if len(cand) == 0 {
				return
			}
			p := cand[rapid.IntRange(0, len(cand)-1).Draw(rt, "shiftPick")]
			id := tx.Outs[p[0]].V.Assets[p[1]].ID
			d := genMagnitude(rt, "shiftD")
			j := (p[0] + 1 + rapid.IntRange(0, n-2).Draw(rt, "shiftOther")) % n
			addToOut(&tx.Outs[p[0]], id, d)
			addToOut(&tx.Outs[j], id, new(big.Int).Neg(d))
			tx.Outs[p[0]].V.TaggedBig = tagged
		case "sum":
			// merge all parts of the summed asset into one output
			id := AssetID{Policy: foreignPolicy(7)}
			total := new(big.Int)
			for oi := range tx.Outs {
				var keep []AQ
				for _, a := range tx.Outs[oi].V.Assets {
					if a.ID.Policy == id.Policy {
						id = a.ID
						total.Add(total, a.Q)
						continue
					}
					keep = append(keep, a)
				}
				tx.Outs[oi].V.Assets = keep
			}
			i := rapid.IntRange(0, n-1).Draw(rt, "sumOut")
			if rapid.IntRange(0, 3).Draw(rt, "sumSplitLegal") == 0 && n > 1 {
				// legal alternative: two outputs each within range (control)
				a := new(big.Int).Set(maxU64)
				addToOut(&tx.Outs[i], id, a)
				addToOut(&tx.Outs[(i+1)%n], id, new(big.Int).Sub(total, a))
			} else {
				addToOut(&tx.Outs[i], id, total)
			}
			tx.Outs[i].V.TaggedBig = tagged
		case "spread":
			// undo the generic distribution of the asset and pay one part per output
			for oi := range tx.Outs {
				var keep []AQ
				for _, a := range tx.Outs[oi].V.Assets {
					if a.ID != spreadID {
						keep = append(keep, a)
					}
				}
				tx.Outs[oi].V.Assets = keep
			}
			first := rapid.IntRange(0, n-1).Draw(rt, "spreadFirst")
			for i, q := range spreadParts {
				oi := (first + i) % n
				tx.Outs[oi].V.Assets = append(tx.Outs[oi].V.Assets, AQ{spreadID, new(big.Int).Set(q)})
				tx.Outs[oi].V.TaggedBig = tagged && rapid.Bool().Draw(rt, "spreadTagged")
			}
		case "single":
			// one bad quantity without compensation (value NOT conserved)
			id, ok := freshAsset(rt, tx)
			if !ok {
				return
			}
			q := genMagnitude(rt, "singleQ")
			if rapid.Bool().Draw(rt, "singleNeg") {
				q.Neg(q)
			}
			i := rapid.IntRange(0, n-1).Draw(rt, "singleOut")
			addToOut(&tx.Outs[i], id, q)
			tx.Outs[i].V.TaggedBig = tagged
		case "collret":
			cin := In{TxID: hash256([]byte("c08/coll")), Ix: uint32(rapid.IntRange(0, 2).Draw(rt, "collIx")),
				Key: payKeys[rapid.IntRange(0, 3).Draw(rt, "collKey")], V: Val{Coin: rapid.Uint64Range(20_000_000, 90_000_000).Draw(rt, "collCoin")}}
			tx.Coll = []In{cin}
			ret := Out{Addr: payAddr(tx.Net, cin.Key), MapForm: rapid.Bool().Draw(rt, "collMap")}
			id, ok := freshAsset(rt, tx)
			if !ok {
				return
			}
			q := genMagnitude(rt, "collQ")
			if rapid.Bool().Draw(rt, "collNeg") {
				q.Neg(q)
			}
			ret.V.Assets = []AQ{{id, q}}
			ret.V.TaggedBig = tagged
			ret.V.Coin = outMinCoin(tx.Era, c.P, ret) + c.P.MinUtxo + rapid.Uint64Range(0, 1_000_000).Draw(rt, "collRetExtra")
			if ret.V.Coin > cin.V.Coin {
				ret.V.Coin = cin.V.Coin
			}
			tx.CollRet = &ret
			if rapid.Bool().Draw(rt, "totalColl") {
				tx.TotalColl = u64p(cin.V.Coin - ret.V.Coin)
			}
		case "control":
			// valid boundary quantities only
			id, ok := freshAsset(rt, tx)
			if !ok {
				return
			}
			// fresh asset paid out needs a source: put it on the mint side is not
			// possible here (mint is fixed), so use +q/-q = 0 split: q and 0
			i := rapid.IntRange(0, n-1).Draw(rt, "ctlOut")
			addToOut(&tx.Outs[i], id, big.NewInt(0)) // explicit zero: pruned by the decoder
			tx.Outs[i].V.TaggedBig = tagged
		}
	}
	return genCase(rt, era, o), fam
}

func c08Key(era Era, b badQty, conserving bool) string {
	bal := "unbalanced"
	if conserving {
		bal = "value-conserving"
	}
	if b.Where == "collateral-return" {
		return fmt.Sprintf("C08:%s:collateral-return:%s", era, b.Class)
	}
	return fmt.Sprintf("C08:%s:output:%s:%s", era, b.Class, bal)
}

func TestC08(t *testing.T) {
	rec := evi.New(t, "C08", evi.Exploration,
		"Mary..Dijkstra transactions that are valid for the era's complete rule list (funded, signed, fees/min-UTxO/sizes satisfied, certificates/withdrawals/mint as noise) into which out-of-range asset quantities are injected by construction: 'pair' (+q/-q of a fresh asset in two outputs, nothing minted), 'shift' (+d/-d of a really consumed asset), 'sum' (two UTxO entries whose quantities add up beyond 2^64-1 paid to one output), 'single' (one uncompensated bad quantity), 'collret' (Babbage+ collateral return carrying the bad quantity), 'control' (only legal quantities incl. explicit 0), 'spread' (the SAME policy+asset in 2-3 outputs, each quantity legal on its own - 2^63, 2^64-1, small, random - supplied by one UTxO entry per part). Magnitudes from the full bignum range with emphasis on 2^63 and 2^64 (+-3), plain and bignum-tagged encodings, array and map output forms. Pipeline = era decoder + VerifyTransaction with the era's UtxoValidationRules. Oracle: decode and validation accept => every output / collateral-return quantity q written in the transaction satisfies 0 <= q <= 2^64-1 (0 is pruned). In addition, for every decoded transaction the quantities observable through Outputs()/Produced()/CollateralReturn() (and each output's Cbor()) are snapshotted before validation and must be identical after the era's conservation rule, after the full rule list and after a second run of the list; both runs must give the same verdict, and an accepted transaction must still carry only quantities in 1..2^64-1. Non-trivial = some written quantity is < 0 or > 2^64-1, or one asset occurs in several outputs; distinct by (era, transaction bytes).")
	defer rec.Finish()
	rec.Assume(
		"the UTxO set holds only valid values (inputs are not the subject)",
		"rejection of a transaction is never a violation here (one-directional statement); acceptance rates of the control family are reported so that rejections are not vacuous",
		"ed25519 and blake2b from the Go standard/x libraries are trusted",
	)
	eras := []Era{Mary, Alonzo, Babbage, Conway, Dijkstra}

	rec.Check(func(rt *rapid.T) {
		era := eras[rapid.IntRange(0, len(eras)-1).Draw(rt, "era")]
		c, fam := genC08(rt, era)
		tx := c.Tx
		bad := findBad(tx)
		conserving, _ := refBalanced(refConsumed(tx, c.P), refProduced(tx, c.P, c.SS))
		st, err := c.state()
		if err != nil {
			rt.Fatalf("harness: state: %v", err)
		}
		raw, _ := tx.Encode()
		rec.Eval()
		rec.Class("family:" + fam)
		for _, b := range bad {
			rec.Class(fmt.Sprintf("written:%s:%s:%s", b.Where, b.Form, b.Class))
			if b.Q.IsInt64() || b.Q.IsUint64() || new(big.Int).Neg(b.Q).Cmp(two64) <= 0 {
				rec.Class("written:fits-cbor-int")
			} else {
				rec.Class("written:needs-bignum-tag")
			}
		}
		if len(bad) > 0 {
			h := hash256(raw)
			rec.NonTrivial(fmt.Sprintf("%s %x", era, h[:]), map[string]any{"era": era.String(), "family": fam,
				"bad_quantities": fmt.Sprintf("%+v", bad), "value_conserving": conserving, "tx": evi.Hex(raw)})
		}
		dtx, err := decodeTx(era, raw)
		if err != nil {
			if len(bad) > 0 {
				rec.Class(fmt.Sprintf("%s:bad:decode_rejected", era))
			} else {
				rec.Class(fmt.Sprintf("%s:clean:decode_rejected", era))
				rec.Class("clean_decode_rejected:" + errClass(err))
			}
			return
		}
		// Observable output quantities BEFORE any rule ran ...
		snap0 := snapshotQuantities(dtx)
		sharedAsset := assetInSeveralOutputs(tx)
		if sharedAsset {
			rec.Class(fmt.Sprintf("%s:same_asset_in_several_outputs", era))
			if len(bad) == 0 {
				h := hash256(raw)
				rec.NonTrivial(fmt.Sprintf("%s shared %x", era, h[:]), map[string]any{"era": era.String(), "family": fam,
					"same_asset_in_several_outputs": true, "tx": evi.Hex(raw)})
			}
		}
		pp := c.P.forEra(era)
		// ... the era's conservation rule alone, then the full list, twice
		rerr := conservationRule(era)(dtx, c.Slot, st, pp)
		snapR := snapshotQuantities(dtx)
		verr := common.VerifyTransaction(dtx, c.Slot, st, pp, rulesFor(era))
		snap1 := snapshotQuantities(dtx)
		verr2 := common.VerifyTransaction(dtx, c.Slot, st, pp, rulesFor(era))
		snap2 := snapshotQuantities(dtx)
		rerr2 := conservationRule(era)(dtx, c.Slot, st, pp)
		for _, sn := range []struct {
			after string
			s     []string
		}{{"the value-conservation rule", snapR}, {"the full rule list", snap1}, {"the second run of the full rule list", snap2}} {
			if diff := diffSnapshots(snap0, sn.s); diff != "" {
				cs := describeCase(c)
				cs["family"] = fam
				cs["before"] = snap0
				cs["after"] = sn.s
				cs["verdict_first"] = fmt.Sprint(verr)
				cs["verdict_second"] = fmt.Sprint(verr2)
				what := fmt.Sprintf("%s: the quantities carried by the decoded transaction's outputs (Outputs()/Produced()/CollateralReturn()) change while it is validated: after %s %s; every written quantity was within 1..2^64-1=%v, rule verdict=%v, full-list verdict=%v",
					era, sn.after, diff, len(bad) == 0, rerr, verr)
				if rec.Fail(rt, fmt.Sprintf("C08:%s:rule-mutates-output-quantity", era), what, cs) {
					return
				}
				break
			}
		}
		if (verr == nil) != (verr2 == nil) || (rerr == nil) != (rerr2 == nil) {
			cs := describeCase(c)
			cs["family"] = fam
			what := fmt.Sprintf("%s: validating the same decoded transaction twice gives different verdicts: full list %v then %v; conservation rule %v then %v", era, verr, verr2, rerr, rerr2)
			if rec.Fail(rt, fmt.Sprintf("C08:%s:second-validation-verdict-differs", era), what, cs) {
				return
			}
		}
		if verr == nil {
			// whatever was accepted must (still) carry only quantities in 1..2^64-1
			if q := firstOutOfRange(dtx); q != "" && len(bad) == 0 {
				cs := describeCase(c)
				cs["family"] = fam
				if rec.Fail(rt, fmt.Sprintf("C08:%s:accepted-tx-carries-out-of-range-quantity-after-validation", era),
					fmt.Sprintf("%s: after acceptance the transaction's outputs carry %s although every written quantity was within 1..2^64-1", era, q), cs) {
					return
				}
			}
		}
		if len(bad) == 0 {
			if verr == nil {
				rec.Class(fmt.Sprintf("%s:clean:accepted", era))
			} else {
				rec.Class(fmt.Sprintf("%s:clean:rejected", era))
				rec.Class(fmt.Sprintf("clean_rejected:%s:%s", fam, errClass(verr)))
			}
			return
		}
		if verr != nil {
			rec.Class(fmt.Sprintf("%s:bad:validation_rejected", era))
			rec.Class(fmt.Sprintf("bad_rejected:%s:conserving=%v:%s", fam, conserving, errClass(verr)))
			return
		}
		rec.Class(fmt.Sprintf("%s:bad:ACCEPTED", era))
		// report the most specific class: a negative quantity wins over an oversized one
		pick := bad[0]
		for _, b := range bad {
			if b.Class == "negative" {
				pick = b
				break
			}
		}
		// what the library decoded for it (information only)
		decoded := "?"
		var outs []common.TransactionOutput
		if pick.Where == "output" {
			outs = dtx.Outputs()
		} else if cr := dtx.CollateralReturn(); cr != nil {
			outs = []common.TransactionOutput{cr}
		}
		if pick.Index < len(outs) && outs[pick.Index].Assets() != nil {
			if v := outs[pick.Index].Assets().Asset(common.Blake2b224(pick.ID.Policy), []byte(pick.ID.Name)); v != nil {
				decoded = v.String()
			}
		}
		cs := describeCase(c)
		cs["family"] = fam
		cs["bad_quantities"] = fmt.Sprintf("%+v", bad)
		cs["value_conserving"] = conserving
		what := fmt.Sprintf("%s: decoder and full rule list accept a transaction whose %s #%d (%s form) carries quantity %s of asset %s (%s; library decoded it as %s); family=%s, reference balance conserved=%v",
			era, pick.Where, pick.Index, pick.Form, pick.Q, pick.ID, pick.Class, decoded, fam, conserving)
		rec.Fail(rt, c08Key(era, pick, conserving), what, cs)
	})
}

// snapshotQuantities lists every asset quantity observable on the decoded
// transaction through the public accessors: Outputs(), Produced() and
// CollateralReturn(), plus the bytes each output reports as its CBOR.
func snapshotQuantities(tx common.Transaction) []string {
	var out []string
	one := func(where string, i int, o common.TransactionOutput) {
		if o == nil {
			return
		}
		coin := "nil"
		if a := o.Amount(); a != nil {
			coin = a.String()
		}
		out = append(out, fmt.Sprintf("%s#%d coin=%s cbor=%x", where, i, coin, hash256(o.Cbor())))
		as := o.Assets()
		if as == nil {
			return
		}
		var lines []string
		for _, pol := range as.Policies() {
			for _, name := range as.Assets(pol) {
				q := as.Asset(pol, name)
				qs := "nil"
				if q != nil {
					qs = q.String()
				}
				lines = append(lines, fmt.Sprintf("%s#%d %x.%x=%s", where, i, pol.Bytes(), name, qs))
			}
		}
		sort.Strings(lines)
		out = append(out, lines...)
	}
	for i, o := range tx.Outputs() {
		one("output", i, o)
	}
	for i, u := range tx.Produced() {
		one("produced", i, u.Output)
	}
	one("collateral-return", 0, tx.CollateralReturn())
	return out
}

func diffSnapshots(a, b []string) string {
	if len(a) != len(b) {
		return fmt.Sprintf("%d observable entries became %d", len(a), len(b))
	}
	for i := range a {
		if a[i] != b[i] {
			return fmt.Sprintf("%q became %q", a[i], b[i])
		}
	}
	return ""
}

// firstOutOfRange looks at the decoded transaction (not at the harness spec).
func firstOutOfRange(tx common.Transaction) string {
	check := func(where string, i int, o common.TransactionOutput) string {
		if o == nil || o.Assets() == nil {
			return ""
		}
		as := o.Assets()
		pols := as.Policies()
		sort.Slice(pols, func(a, b int) bool { return string(pols[a].Bytes()) < string(pols[b].Bytes()) })
		for _, pol := range pols {
			names := as.Assets(pol)
			sort.Slice(names, func(a, b int) bool { return string(names[a]) < string(names[b]) })
			for _, name := range names {
				if q := as.Asset(pol, name); q != nil && !refQuantityInRange(q) {
					return fmt.Sprintf("%s #%d asset %x.%x quantity %s", where, i, pol.Bytes(), name, q)
				}
			}
		}
		return ""
	}
	for i, o := range tx.Outputs() {
		if s := check("output", i, o); s != "" {
			return s
		}
	}
	for i, u := range tx.Produced() {
		if s := check("produced", i, u.Output); s != "" {
			return s
		}
	}
	return check("collateral-return", 0, tx.CollateralReturn())
}

func assetInSeveralOutputs(tx *TxSpec) bool {
	n := map[AssetID]int{}
	for _, o := range tx.Outs {
		seen := map[AssetID]bool{}
		for _, a := range o.V.Assets {
			if !seen[a.ID] {
				seen[a.ID] = true
				n[a.ID]++
			}
		}
	}
	for _, k := range n {
		if k > 1 {
			return true
		}
	}
	return false
}
