package rules1

// Era-aware transaction builder: a TxSpec (plain Go description of a
// transaction) is turned into CBOR bytes with internal/xcbor following the era
// CDDL, signed with harness-owned ed25519 keys, and only then handed to the
// library's era decoder. Nothing here uses gouroboros encoders.

import (
	"crypto/ed25519"
	"fmt"
	"math/big"
	"sort"

	"golang.org/x/crypto/blake2b"

	"verif/harness/internal/xcbor"
)

type Era int

// numeric values equal the library's TxType ids
const (
	Shelley Era = 1 + iota
	Allegra
	Mary
	Alonzo
	Babbage
	Conway
	Dijkstra
)

var allEras = []Era{Shelley, Allegra, Mary, Alonzo, Babbage, Conway, Dijkstra}

func (e Era) String() string {
	return [...]string{"?", "shelley", "allegra", "mary", "alonzo", "babbage", "conway", "dijkstra"}[e]
}

// ---- keys -----------------------------------------------------------------

const nKeys = 12

type keyPair struct {
	priv ed25519.PrivateKey
	pub  ed25519.PublicKey
	hash [28]byte
}

var keys = func() []keyPair {
	ks := make([]keyPair, nKeys)
	for i := range ks {
		seed := blake2b.Sum256([]byte(fmt.Sprintf("verif/rules1/key/%d", i)))
		ks[i].priv = ed25519.NewKeyFromSeed(seed[:])
		ks[i].pub = ks[i].priv.Public().(ed25519.PublicKey)
		ks[i].hash = hash224(ks[i].pub)
	}
	return ks
}()

func hash224(b []byte) [28]byte {
	h, _ := blake2b.New(28, nil)
	h.Write(b)
	var out [28]byte
	copy(out[:], h.Sum(nil))
	return out
}

func hash256(b []byte) [32]byte { return blake2b.Sum256(b) }

// native script "signature of key k" and its hash (= minting policy id)
func sigScript(k int) *xcbor.Node { return xcbor.A(xcbor.U(0), xcbor.B(keys[k].hash[:])) }

func policyOfKey(k int) [28]byte {
	return hash224(append([]byte{0}, sigScript(k).Encode()...))
}

// ---- addresses --------------------------------------------------------------

func payAddr(net uint8, k int) []byte { // enterprise, key payment credential
	return append([]byte{0x60 | net}, keys[k].hash[:]...)
}
func baseAddr(net uint8, k, s int) []byte {
	b := append([]byte{0x00 | net}, keys[k].hash[:]...)
	return append(b, keys[s].hash[:]...)
}
func rewardAddr(net uint8, k int) []byte {
	return append([]byte{0xe0 | net}, keys[k].hash[:]...)
}

// ---- values -----------------------------------------------------------------

type AssetID struct {
	Policy [28]byte
	Name   string
}

func (a AssetID) String() string { return fmt.Sprintf("%x.%x", a.Policy[:], a.Name) }

type AQ struct {
	ID AssetID
	Q  *big.Int
}

type Val struct {
	Coin   uint64
	Assets []AQ // order and duplicates are preserved in the encoding
	// EmptyMA forces the [coin, {}] form when there are no assets
	EmptyMA bool
	// TaggedBig forces bignum tags for the quantities (legal non-preferred form)
	TaggedBig bool
}

func (v Val) clone() Val {
	o := v
	o.Assets = make([]AQ, len(v.Assets))
	for i, a := range v.Assets {
		o.Assets[i] = AQ{a.ID, new(big.Int).Set(a.Q)}
	}
	return o
}

// multiAssetNode encodes {policy => {name => qty}}; entries of one policy are
// grouped under the first occurrence of the policy, keeping relative order.
func multiAssetNode(as []AQ, tagged bool) *xcbor.Node {
	var order [][28]byte
	groups := map[[28]byte][]AQ{}
	for _, a := range as {
		if _, ok := groups[a.ID.Policy]; !ok {
			order = append(order, a.ID.Policy)
		}
		groups[a.ID.Policy] = append(groups[a.ID.Policy], a)
	}
	var kv []*xcbor.Node
	for _, p := range order {
		var inner []*xcbor.Node
		for _, a := range groups[p] {
			q := xcbor.Big(a.Q)
			if tagged {
				q = xcbor.BigTagged(a.Q)
			}
			inner = append(inner, xcbor.B([]byte(a.ID.Name)), q)
		}
		pp := p
		kv = append(kv, xcbor.B(pp[:]), xcbor.M(inner...))
	}
	return xcbor.M(kv...)
}

func (v Val) node(era Era) *xcbor.Node {
	if era < Mary {
		return xcbor.U(v.Coin)
	}
	if len(v.Assets) == 0 && !v.EmptyMA {
		return xcbor.U(v.Coin)
	}
	return xcbor.A(xcbor.U(v.Coin), multiAssetNode(v.Assets, v.TaggedBig))
}

// ---- transaction description ------------------------------------------------

type In struct {
	TxID [32]byte
	Ix   uint32
	Key  int // owner of the (enterprise) address the UTxO entry sits at
	V    Val
}

type Out struct {
	Addr      []byte
	V         Val
	MapForm   bool   // Babbage+ {0: addr, 1: value}; otherwise the array form
	DatumHash []byte // optional (Alonzo+), 32 bytes
}

func (o Out) node(era Era) *xcbor.Node {
	if o.MapForm && era >= Babbage {
		kv := []*xcbor.Node{xcbor.U(0), xcbor.B(o.Addr), xcbor.U(1), o.V.node(era)}
		if o.DatumHash != nil {
			kv = append(kv, xcbor.U(2), xcbor.A(xcbor.U(0), xcbor.B(o.DatumHash)))
		}
		return xcbor.M(kv...)
	}
	items := []*xcbor.Node{xcbor.B(o.Addr), o.V.node(era)}
	if o.DatumHash != nil && era >= Alonzo {
		items = append(items, xcbor.B(o.DatumHash))
	}
	return xcbor.A(items...)
}

type CertKind int

const (
	CStakeReg       CertKind = 0  // [0, cred]                    deposit keyDeposit
	CStakeDereg     CertKind = 1  // [1, cred]                    refund keyDeposit
	CStakeDeleg     CertKind = 2  // [2, cred, pool]
	CPoolReg        CertKind = 3  // [3, ...]                     deposit poolDeposit if new
	CPoolRetire     CertKind = 4  // [4, pool, epoch]
	CReg            CertKind = 7  // [7, cred, coin]              deposit
	CUnreg          CertKind = 8  // [8, cred, coin]              refund
	CVoteDeleg      CertKind = 9  // [9, cred, drep]
	CStakeVoteDeleg CertKind = 10 // [10, cred, pool, drep]
	CStakeRegDeleg  CertKind = 11 // [11, cred, pool, coin]       deposit
	CVoteRegDeleg   CertKind = 12 // [12, cred, drep, coin]       deposit
	CStakeVoteRegDg CertKind = 13 // [13, cred, pool, drep, coin] deposit
	CAuthHot        CertKind = 14 // [14, cold cred, hot cred]    no deposit
	CResignCold     CertKind = 15 // [15, cold cred, null]        no deposit
	CDRepReg        CertKind = 16 // [16, cred, coin, null]       deposit
	CDRepUnreg      CertKind = 17 // [17, cred, coin]             refund
	CDRepUpdate     CertKind = 18 // [18, cred, null]
)

type Cert struct {
	Kind   CertKind
	Key    int    // stake / drep credential key
	Pool   int    // pool operator key (kinds 2,3,4,10,11,13)
	Amount uint64 // declared coin (kinds 7,8,11,12,13,16,17)
}

func cred(k int) *xcbor.Node { return xcbor.A(xcbor.U(0), xcbor.B(keys[k].hash[:])) }

var drepAbstain = xcbor.A(xcbor.U(2))

func (c Cert) node(net uint8) *xcbor.Node {
	pool := xcbor.B(keys[c.Pool].hash[:])
	switch c.Kind {
	case CStakeReg, CStakeDereg:
		return xcbor.A(xcbor.U(uint64(c.Kind)), cred(c.Key))
	case CStakeDeleg:
		return xcbor.A(xcbor.U(2), cred(c.Key), pool)
	case CPoolReg:
		vrf := hash256([]byte(fmt.Sprintf("vrf/%d", c.Pool)))
		return xcbor.A(xcbor.U(3), pool, xcbor.B(vrf[:]),
			xcbor.U(1_000_000), xcbor.U(340_000_000),
			xcbor.Tg(30, xcbor.A(xcbor.U(1), xcbor.U(20))),
			xcbor.B(rewardAddr(net, c.Pool)),
			xcbor.A(xcbor.B(keys[c.Pool].hash[:])),
			xcbor.A(), xcbor.Null())
	case CPoolRetire:
		return xcbor.A(xcbor.U(4), pool, xcbor.U(uint64(c.Amount)))
	case CReg, CUnreg:
		return xcbor.A(xcbor.U(uint64(c.Kind)), cred(c.Key), xcbor.U(c.Amount))
	case CVoteDeleg:
		return xcbor.A(xcbor.U(9), cred(c.Key), drepAbstain)
	case CStakeVoteDeleg:
		return xcbor.A(xcbor.U(10), cred(c.Key), pool, drepAbstain)
	case CStakeRegDeleg:
		return xcbor.A(xcbor.U(11), cred(c.Key), pool, xcbor.U(c.Amount))
	case CVoteRegDeleg:
		return xcbor.A(xcbor.U(12), cred(c.Key), drepAbstain, xcbor.U(c.Amount))
	case CStakeVoteRegDg:
		return xcbor.A(xcbor.U(13), cred(c.Key), pool, drepAbstain, xcbor.U(c.Amount))
	case CAuthHot:
		return xcbor.A(xcbor.U(14), cred(c.Key), cred((c.Key+1)%nKeys))
	case CResignCold:
		return xcbor.A(xcbor.U(15), cred(c.Key), xcbor.Null())
	case CDRepReg:
		return xcbor.A(xcbor.U(16), cred(c.Key), xcbor.U(c.Amount), xcbor.Null())
	case CDRepUnreg:
		return xcbor.A(xcbor.U(17), cred(c.Key), xcbor.U(c.Amount))
	case CDRepUpdate:
		return xcbor.A(xcbor.U(18), cred(c.Key), xcbor.Null())
	}
	panic("cert kind")
}

type Wd struct {
	Key    int
	Amount uint64
}

type Prop struct { // info action proposal
	Deposit uint64
	RetKey  int
}

type TxSpec struct {
	Era       Era
	Net       uint8
	Ins       []In
	Outs      []Out
	Fee       uint64
	TTL       *uint64 // body key 3
	Start     *uint64 // body key 8 (Allegra+)
	Certs     []Cert
	Wdrl      []Wd
	Mint      []AQ // policies must be policyOfKey(k) for MintKeys, unless RawMintPolicies
	MintKeys  []int
	Coll      []In
	RefIns    []In    // Babbage+ reference inputs (body key 18)
	SubTxs    []SubTx // Dijkstra sub-transactions (body key 23)
	CollRet   *Out
	TotalColl *uint64
	NetID     *uint8
	Props     []Prop
	Donation  *uint64
	Treasury  *uint64
	ReqSign   []int
	MetaLabel *uint64 // adds auxiliary data {label: 1} and its hash
	// encoding choices
	SetTag      bool // inputs (and collateral) as #6.258 sets (Conway+)
	ThreeElems  bool // Dijkstra: [body, wits, aux] envelope
	ExtraSigner []int
	// body keys to emit as explicit zero even when semantically "nothing"
}

// SubTx is a minimal Dijkstra sub-transaction [body, witness_set, nil] whose
// body has one (distinct) input, no outputs and optional validity bounds.
type SubTx struct {
	TTL   *uint64 // sub body key 3
	Start *uint64 // sub body key 8
}

func (tx *TxSpec) subTxNode(i int, st SubTx) *xcbor.Node {
	id := hash256([]byte(fmt.Sprintf("verif/rules1/subtx/%d", i)))
	kv := []*xcbor.Node{xcbor.U(0), tx.setNode([]*xcbor.Node{xcbor.A(xcbor.B(id[:]), xcbor.U(uint64(i)))}), xcbor.U(1), xcbor.A()}
	if st.TTL != nil {
		kv = append(kv, xcbor.U(3), xcbor.U(*st.TTL))
	}
	if st.Start != nil {
		kv = append(kv, xcbor.U(8), xcbor.U(*st.Start))
	}
	return xcbor.A(xcbor.M(kv...), xcbor.M(), xcbor.Null())
}

func u64p(v uint64) *uint64 { return &v }

func inputNode(i In) *xcbor.Node {
	id := i.TxID
	return xcbor.A(xcbor.B(id[:]), xcbor.U(uint64(i.Ix)))
}

func sortIns(ins []In) []In {
	out := append([]In(nil), ins...)
	sort.Slice(out, func(a, b int) bool {
		if out[a].TxID != out[b].TxID {
			return string(out[a].TxID[:]) < string(out[b].TxID[:])
		}
		return out[a].Ix < out[b].Ix
	})
	return out
}

func (tx *TxSpec) setNode(items []*xcbor.Node) *xcbor.Node {
	if tx.SetTag && tx.Era >= Conway {
		return xcbor.Tg(258, xcbor.A(items...))
	}
	return xcbor.A(items...)
}

// BodyNode builds the transaction body map per the era CDDL (keys ascending).
func (tx *TxSpec) BodyNode() (*xcbor.Node, []byte) {
	var kv []*xcbor.Node
	add := func(k uint64, v *xcbor.Node) { kv = append(kv, xcbor.U(k), v) }
	var ins []*xcbor.Node
	for _, i := range sortIns(tx.Ins) {
		ins = append(ins, inputNode(i))
	}
	add(0, tx.setNode(ins))
	var outs []*xcbor.Node
	for _, o := range tx.Outs {
		outs = append(outs, o.node(tx.Era))
	}
	add(1, xcbor.A(outs...))
	add(2, xcbor.U(tx.Fee))
	if tx.TTL != nil {
		add(3, xcbor.U(*tx.TTL))
	}
	if len(tx.Certs) > 0 {
		var cs []*xcbor.Node
		for _, c := range tx.Certs {
			cs = append(cs, c.node(tx.Net))
		}
		add(4, xcbor.A(cs...))
	}
	if len(tx.Wdrl) > 0 {
		var ws []*xcbor.Node
		for _, w := range tx.Wdrl {
			ws = append(ws, xcbor.B(rewardAddr(tx.Net, w.Key)), xcbor.U(w.Amount))
		}
		add(5, xcbor.M(ws...))
	}
	var aux []byte
	if tx.MetaLabel != nil {
		aux = xcbor.M(xcbor.U(*tx.MetaLabel), xcbor.U(1)).Encode()
		h := hash256(aux)
		add(7, xcbor.B(h[:]))
	}
	if tx.Start != nil && tx.Era >= Allegra {
		add(8, xcbor.U(*tx.Start))
	}
	if len(tx.Mint) > 0 && tx.Era >= Mary {
		add(9, multiAssetNode(tx.Mint, false))
	}
	if tx.Era >= Alonzo {
		if len(tx.Coll) > 0 {
			var cs []*xcbor.Node
			for _, i := range sortIns(tx.Coll) {
				cs = append(cs, inputNode(i))
			}
			add(13, tx.setNode(cs))
		}
		if len(tx.ReqSign) > 0 {
			var rs []*xcbor.Node
			for _, k := range tx.ReqSign {
				rs = append(rs, xcbor.B(keys[k].hash[:]))
			}
			if tx.Era >= Dijkstra {
				// guards: set of credentials
				var gs []*xcbor.Node
				for _, k := range tx.ReqSign {
					gs = append(gs, cred(k))
				}
				add(14, tx.setNode(gs))
			} else {
				add(14, tx.setNode(rs))
			}
		}
		if tx.NetID != nil {
			add(15, xcbor.U(uint64(*tx.NetID)))
		}
	}
	if tx.Era >= Babbage {
		if tx.CollRet != nil {
			add(16, tx.CollRet.node(tx.Era))
		}
		if tx.TotalColl != nil {
			add(17, xcbor.U(*tx.TotalColl))
		}
		if len(tx.RefIns) > 0 {
			var rs []*xcbor.Node
			for _, i := range sortIns(tx.RefIns) {
				rs = append(rs, inputNode(i))
			}
			add(18, tx.setNode(rs))
		}
	}
	if tx.Era >= Conway {
		if len(tx.Props) > 0 {
			var ps []*xcbor.Node
			for _, p := range tx.Props {
				ah := hash256([]byte("anchor"))
				ps = append(ps, xcbor.A(xcbor.U(p.Deposit), xcbor.B(rewardAddr(tx.Net, p.RetKey)),
					xcbor.A(xcbor.U(6)), xcbor.A(xcbor.T("https://example.invalid/a"), xcbor.B(ah[:]))))
			}
			add(20, tx.setNode(ps))
		}
		if tx.Treasury != nil {
			add(21, xcbor.U(*tx.Treasury))
		}
		if tx.Donation != nil {
			add(22, xcbor.U(*tx.Donation))
		}
	}
	if tx.Era >= Dijkstra && len(tx.SubTxs) > 0 {
		var ss []*xcbor.Node
		for i, st := range tx.SubTxs {
			ss = append(ss, tx.subTxNode(i, st))
		}
		add(23, tx.setNode(ss))
	}
	return xcbor.M(kv...), aux
}

// signers returns the key indices whose vkey witnesses are added.
func (tx *TxSpec) signers() []int {
	set := map[int]bool{}
	for _, i := range tx.Ins {
		set[i.Key] = true
	}
	for _, i := range tx.Coll {
		set[i.Key] = true
	}
	for _, w := range tx.Wdrl {
		set[w.Key] = true
	}
	for _, c := range tx.Certs {
		set[c.Key] = true
		switch c.Kind {
		case CPoolReg, CPoolRetire:
			set[c.Pool] = true
		}
	}
	for _, k := range tx.MintKeys {
		set[k] = true
	}
	for _, k := range tx.ReqSign {
		set[k] = true
	}
	for _, k := range tx.ExtraSigner {
		set[k] = true
	}
	var out []int
	for k := range set {
		out = append(out, k)
	}
	sort.Ints(out)
	return out
}

// Encode returns the full transaction bytes and the body bytes.
func (tx *TxSpec) Encode() (raw, body []byte) {
	bn, aux := tx.BodyNode()
	body = bn.Encode()
	h := hash256(body)
	var vk []*xcbor.Node
	for _, k := range tx.signers() {
		sig := ed25519.Sign(keys[k].priv, h[:])
		vk = append(vk, xcbor.A(xcbor.B(keys[k].pub), xcbor.B(sig)))
	}
	var wkv []*xcbor.Node
	if len(vk) > 0 {
		wkv = append(wkv, xcbor.U(0), tx.setNode(vk))
	}
	if len(tx.MintKeys) > 0 {
		var ss []*xcbor.Node
		for _, k := range tx.MintKeys {
			ss = append(ss, sigScript(k))
		}
		wkv = append(wkv, xcbor.U(1), tx.setNode(ss))
	}
	wits := xcbor.M(wkv...)
	auxNode := xcbor.Null()
	if aux != nil {
		auxNode = xcbor.Raw(aux)
	}
	var top *xcbor.Node
	switch {
	case tx.Era < Alonzo:
		top = xcbor.A(xcbor.Raw(body), wits, auxNode)
	case tx.Era == Dijkstra && tx.ThreeElems:
		top = xcbor.A(xcbor.Raw(body), wits, auxNode)
	default:
		top = xcbor.A(xcbor.Raw(body), wits, xcbor.Bool(true), auxNode)
	}
	return top.Encode(), body
}
