package rules1

// Generator of transactions that are valid by construction for the era's full
// rule list (balanced, funded, signed, registered where needed). Properties
// then vary the single quantity they are about.

import (
	"fmt"
	"github.com/blinklabs-io/gouroboros/ledger/common"
	"math/big"
	"sort"

	"pgregory.net/rapid"
)

type Case struct {
	Tx   *TxSpec
	P    Params
	SS   *StSpec
	Slot uint64
	// UTxO entries are stored in the Babbage map form (Babbage+) when set
	UtxoMap bool
	// the index of the output that absorbs the coin remainder
	Sink int
}

func (c *Case) clone() *Case {
	n := *c
	t := *c.Tx
	t.Ins = append([]In(nil), c.Tx.Ins...)
	for i := range t.Ins {
		t.Ins[i].V = t.Ins[i].V.clone()
	}
	t.Coll = append([]In(nil), c.Tx.Coll...)
	t.RefIns = append([]In(nil), c.Tx.RefIns...)
	t.Outs = append([]Out(nil), c.Tx.Outs...)
	for i := range t.Outs {
		t.Outs[i].V = t.Outs[i].V.clone()
	}
	t.Certs = append([]Cert(nil), c.Tx.Certs...)
	t.Wdrl = append([]Wd(nil), c.Tx.Wdrl...)
	t.Props = append([]Prop(nil), c.Tx.Props...)
	t.Mint = nil
	for _, m := range c.Tx.Mint {
		t.Mint = append(t.Mint, AQ{m.ID, new(big.Int).Set(m.Q)})
	}
	if c.Tx.CollRet != nil {
		cr := *c.Tx.CollRet
		cr.V = cr.V.clone()
		t.CollRet = &cr
	}
	if c.Tx.Donation != nil {
		t.Donation = u64p(*c.Tx.Donation)
	}
	n.Tx = &t
	ss := newStSpec()
	for k, v := range c.SS.StakeReg {
		ss.StakeReg[k] = v
	}
	for k, v := range c.SS.Pools {
		ss.Pools[k] = v
	}
	for k, v := range c.SS.DReps {
		ss.DReps[k] = v
	}
	for k, v := range c.SS.Rewards {
		ss.Rewards[k] = v
	}
	for k, v := range c.SS.PoolRetiring {
		ss.PoolRetiring[k] = v
	}
	for k, v := range c.SS.Committee {
		ss.Committee[k] = v
	}
	n.SS = ss
	return &n
}

// state builds the library-side ledger state from the harness-side description.
func (c *Case) state() (*State, error) {
	st := newState(c.Tx.Net)
	for _, in := range c.Tx.Ins {
		if err := st.addUtxo(c.Tx.Era, in, c.UtxoMap); err != nil {
			return nil, err
		}
	}
	for _, in := range c.Tx.Coll {
		if err := st.addUtxo(c.Tx.Era, in, c.UtxoMap); err != nil {
			return nil, err
		}
	}
	for _, in := range c.Tx.RefIns {
		if err := st.addUtxo(c.Tx.Era, in, c.UtxoMap); err != nil {
			return nil, err
		}
	}
	for k, v := range c.SS.StakeReg {
		if v {
			st.stakeReg[keys[k].hash] = true
			st.drepDeleg[keys[k].hash] = true
			st.rewards[keys[k].hash] = c.SS.Rewards[k]
		}
	}
	for k, v := range c.SS.Pools {
		if v {
			st.pools[keys[k].hash] = true
			if e := c.SS.PoolRetiring[k]; e != nil {
				st.poolRetire[keys[k].hash] = e
			}
		}
	}
	for k, resigned := range c.SS.Committee {
		hot := common.Blake2b224(keys[(k+1)%nKeys].hash)
		st.committee[keys[k].hash] = common.CommitteeMember{ColdKey: common.Blake2b224(keys[k].hash), HotKey: &hot, ExpiryEpoch: 500, Resigned: resigned}
	}
	for k, v := range c.SS.DReps {
		if v {
			st.dreps[keys[k].hash] = c.P.DRepDeposit
		}
	}
	return st, nil
}

var (
	payKeys   = []int{0, 1, 2, 3}
	stakeKeys = []int{4, 5, 6, 7}
	poolKeys  = []int{8, 9}
	drepKeys  = []int{10, 11}
)

func foreignPolicy(i int) [28]byte { return hash224([]byte(fmt.Sprintf("verif/rules1/foreign/%d", i))) }

var assetNames = []string{"", "a", "tok", "0123456789abcdef0123456789abcdef"}

func genParams(rt *rapid.T, era Era) Params {
	p := defaultParams(era)
	if rapid.IntRange(0, 3).Draw(rt, "ppDefault") != 0 {
		p.MinFeeA = rapid.Uint64Range(0, 100).Draw(rt, "minFeeA")
		p.MinFeeB = rapid.Uint64Range(0, 300_000).Draw(rt, "minFeeB")
		p.KeyDeposit = rapid.Uint64Range(1, 5_000_000).Draw(rt, "keyDep")
		p.PoolDeposit = rapid.Uint64Range(1, 1_000_000_000).Draw(rt, "poolDep")
		p.DRepDeposit = rapid.Uint64Range(1, 1_000_000_000).Draw(rt, "drepDep")
		p.GovDeposit = rapid.Uint64Range(1, 200_000_000_000).Draw(rt, "govDep")
		p.MinUtxo = rapid.Uint64Range(0, 2_000_000).Draw(rt, "minUtxo")
		p.PerByte = rapid.Uint64Range(0, 5000).Draw(rt, "perByte")
	}
	if era == Conway {
		p.Major = uint(rapid.IntRange(9, 11).Draw(rt, "pv"))
	}
	return p
}

func genQty(rt *rapid.T, label string) *big.Int {
	switch rapid.IntRange(0, 5).Draw(rt, label+"Class") {
	case 0:
		return big.NewInt(1)
	case 1, 2:
		return new(big.Int).SetUint64(rapid.Uint64Range(1, 1000).Draw(rt, label))
	case 3:
		return new(big.Int).SetUint64(rapid.Uint64Range(1, 1_000_000_000_000).Draw(rt, label))
	case 4:
		return new(big.Int).SetUint64(rapid.Uint64Range(1<<32, 1<<62).Draw(rt, label))
	default:
		return new(big.Int).SetUint64(rapid.Uint64Range(1, 1<<20).Draw(rt, label))
	}
}

type genOpts struct {
	MaxCerts  int
	NoMint    bool
	NoWdrl    bool
	NoProps   bool
	FewAssets bool
	// PoolRegTwice allows the same new pool to be registered twice in one tx
	PoolRegTwice bool
	// Interval, when set, chooses c.Slot, Tx.TTL and Tx.Start (before fees are settled)
	Interval func(rt *rapid.T, c *Case)
	// MinOuts is the minimum number of outputs (default 1)
	MinOuts int
	// AfterInputs may add assets to the inputs before mint/outputs are derived
	AfterInputs func(rt *rapid.T, c *Case)
	// BeforeCoins may edit the outputs (and add collateral fields) after the
	// consumed assets were distributed and before min-UTxO, fee and the coin
	// remainder are settled; it must keep the reference balance of the assets
	BeforeCoins func(rt *rapid.T, c *Case)
	// Bystanders adds collateral inputs / collateral return / total collateral /
	// reference inputs that must not take part in the balance
	Bystanders bool
	// AllowNoOutputs lets the whole remainder go to the fee (no outputs) when
	// no assets are left to pay out
	AllowNoOutputs bool
}

func genValidInterval(rt *rapid.T, c *Case) {
	tx := c.Tx
	switch {
	case tx.Era == Shelley:
		tx.TTL = u64p(c.Slot + rapid.Uint64Range(0, 1000).Draw(rt, "ttlAhead"))
		if *tx.TTL == 0 {
			tx.TTL = u64p(1) // explicit 0 is C26's subject
		}
	default:
		if rapid.Bool().Draw(rt, "hasTTL") {
			tx.TTL = u64p(c.Slot + 1 + rapid.Uint64Range(0, 1000).Draw(rt, "ttlAhead"))
		}
		if rapid.Bool().Draw(rt, "hasStart") {
			tx.Start = u64p(c.Slot - min(c.Slot, rapid.Uint64Range(0, 1000).Draw(rt, "startBack")))
		}
	}
}

// genCerts draws a certificate sequence that is valid against ss (tracking
// registrations made earlier in the same transaction).
func genCerts(rt *rapid.T, era Era, p Params, ss *StSpec, max int, twice bool) []Cert {
	n := rapid.IntRange(0, max).Draw(rt, "nCerts")
	stake := map[int]bool{}
	pools := map[int]bool{}
	dreps := map[int]bool{}
	for _, k := range stakeKeys {
		stake[k] = ss.StakeReg[k]
	}
	for _, k := range poolKeys {
		pools[k] = ss.Pools[k]
	}
	for _, k := range drepKeys {
		dreps[k] = ss.DReps[k]
	}
	pick := func(m map[int]bool, ks []int, want bool, label string) (int, bool) {
		var c []int
		for _, k := range ks {
			if m[k] == want {
				c = append(c, k)
			}
		}
		if len(c) == 0 {
			return 0, false
		}
		return c[rapid.IntRange(0, len(c)-1).Draw(rt, label)], true
	}
	var kinds []CertKind
	switch {
	case era <= Babbage:
		kinds = []CertKind{CStakeReg, CStakeDereg, CStakeDeleg, CPoolReg, CPoolRetire}
	case era == Conway:
		kinds = []CertKind{CStakeReg, CStakeDereg, CStakeDeleg, CPoolReg, CPoolRetire, CReg, CUnreg,
			CVoteDeleg, CStakeVoteDeleg, CStakeRegDeleg, CVoteRegDeleg, CStakeVoteRegDg, CDRepReg, CDRepUnreg, CDRepUpdate, CAuthHot, CResignCold}
	default: // Dijkstra removed the deposit-less registration certificates
		kinds = []CertKind{CStakeDeleg, CPoolReg, CPoolRetire, CReg, CUnreg,
			CVoteDeleg, CStakeVoteDeleg, CStakeRegDeleg, CVoteRegDeleg, CStakeVoteRegDg, CDRepReg, CDRepUnreg, CDRepUpdate, CAuthHot, CResignCold}
	}
	var out []Cert
	for i := 0; i < n; i++ {
		kind := kinds[rapid.IntRange(0, len(kinds)-1).Draw(rt, "certKind")]
		c := Cert{Kind: kind}
		ok := true
		switch kind {
		case CStakeReg, CReg, CVoteRegDeleg:
			c.Key, ok = pick(stake, stakeKeys, false, "certKey")
			if ok {
				stake[c.Key] = true
			}
			c.Amount = p.KeyDeposit
		case CStakeRegDeleg, CStakeVoteRegDg:
			c.Key, ok = pick(stake, stakeKeys, false, "certKey")
			if ok {
				c.Pool, ok = pick(pools, poolKeys, true, "certPool")
			}
			if ok {
				stake[c.Key] = true
			}
			c.Amount = p.KeyDeposit
		case CStakeDereg, CUnreg:
			c.Key, ok = pick(stake, stakeKeys, true, "certKey")
			if ok {
				stake[c.Key] = false
			}
			c.Amount = p.KeyDeposit
		case CStakeDeleg, CStakeVoteDeleg:
			c.Key, ok = pick(stake, stakeKeys, true, "certKey")
			if ok {
				c.Pool, ok = pick(pools, poolKeys, true, "certPool")
			}
		case CVoteDeleg:
			c.Key, ok = pick(stake, stakeKeys, true, "certKey")
		case CPoolReg:
			c.Pool = poolKeys[rapid.IntRange(0, len(poolKeys)-1).Draw(rt, "certPool")]
			c.Key = c.Pool
			if !twice && !ss.Pools[c.Pool] && pools[c.Pool] {
				ok = false // already registered earlier in this tx
			}
			pools[c.Pool] = true
		case CPoolRetire:
			c.Pool, ok = pick(pools, poolKeys, true, "certPool")
			c.Key = c.Pool
			c.Amount = uint64(rapid.IntRange(1, 18).Draw(rt, "retireEpoch"))
		case CDRepReg:
			c.Key, ok = pick(dreps, drepKeys, false, "certKey")
			if ok {
				dreps[c.Key] = true
			}
			c.Amount = p.DRepDeposit
		case CDRepUnreg:
			c.Key, ok = pick(dreps, drepKeys, true, "certKey")
			if ok {
				dreps[c.Key] = false
			}
			c.Amount = p.DRepDeposit
		case CDRepUpdate:
			c.Key, ok = pick(dreps, drepKeys, true, "certKey")
		case CAuthHot, CResignCold:
			// committee cold credential; whether it is a (resigned) member is up to
			// the state - irrelevant for the balance
			c.Key = drepKeys[rapid.IntRange(0, len(drepKeys)-1).Draw(rt, "ccKey")]
		}
		if ok {
			out = append(out, c)
			// churn: re-register and deregister the same credential again, so that
			// one credential is refunded twice within the transaction
			if (kind == CStakeDereg || kind == CUnreg) && rapid.IntRange(0, 2).Draw(rt, "churn") == 0 {
				rk, dk := CStakeReg, CStakeDereg
				if era >= Dijkstra || (era == Conway && rapid.Bool().Draw(rt, "churnNewKinds")) {
					rk, dk = CReg, CUnreg
				}
				out = append(out, Cert{Kind: rk, Key: c.Key, Amount: p.KeyDeposit}, Cert{Kind: dk, Key: c.Key, Amount: p.KeyDeposit})
			}
		}
	}
	return out
}

// outMinCoin is a harness-side upper bound of the era's min-UTxO requirement.
func outMinCoin(era Era, p Params, o Out) uint64 {
	if era < Babbage {
		return p.MinUtxo
	}
	t := o
	t.V.Coin = ^uint64(0)
	return p.PerByte * uint64(160+len(t.node(era).Encode()))
}

// genCase draws a valid, balanced transaction with its state and parameters.
func genCase(rt *rapid.T, era Era, o genOpts) *Case {
	net := uint8(rapid.IntRange(0, 1).Draw(rt, "net"))
	p := genParams(rt, era)
	ss := newStSpec()
	for _, k := range stakeKeys {
		if rapid.Bool().Draw(rt, "stakeReg") {
			ss.StakeReg[k] = true
			if rapid.Bool().Draw(rt, "hasRewards") {
				ss.Rewards[k] = rapid.Uint64Range(0, 50_000_000).Draw(rt, "rewards")
			}
		}
	}
	for _, k := range poolKeys {
		ss.Pools[k] = rapid.Bool().Draw(rt, "poolReg")
		if ss.Pools[k] {
			// pending retirement reported through PoolCurrentState's second value
			switch rapid.IntRange(0, 6).Draw(rt, "poolRetiring") {
			case 0:
				ss.PoolRetiring[k] = u64p(0)
			case 1:
				ss.PoolRetiring[k] = u64p(rapid.Uint64Range(1, 1000).Draw(rt, "retireEpochState"))
			case 2:
				ss.PoolRetiring[k] = u64p(^uint64(0))
			}
		}
	}
	if era >= Conway && rapid.IntRange(0, 3).Draw(rt, "committee") == 0 {
		for _, k := range drepKeys {
			if rapid.Bool().Draw(rt, "ccMember") {
				ss.Committee[k] = rapid.Bool().Draw(rt, "ccResigned")
			}
		}
	}
	for _, k := range drepKeys {
		ss.DReps[k] = rapid.Bool().Draw(rt, "drepReg")
	}
	tx := &TxSpec{Era: era, Net: net}
	c := &Case{Tx: tx, P: p, SS: ss, Slot: rapid.Uint64Range(0, 1<<40).Draw(rt, "slot")}
	if era >= Babbage {
		c.UtxoMap = rapid.Bool().Draw(rt, "utxoMapForm")
	}
	if era >= Conway {
		tx.SetTag = rapid.Bool().Draw(rt, "setTag")
	}
	if era == Dijkstra {
		tx.ThreeElems = rapid.Bool().Draw(rt, "threeElems")
	}

	// certificates
	if o.MaxCerts > 0 {
		tx.Certs = genCerts(rt, era, p, ss, o.MaxCerts, o.PoolRegTwice)
	}
	// withdrawals: registered accounts, distinct
	if !o.NoWdrl {
		for _, k := range stakeKeys {
			if ss.StakeReg[k] && rapid.IntRange(0, 3).Draw(rt, "wdrl") == 0 {
				amt := ss.Rewards[k]
				if rapid.IntRange(0, 3).Draw(rt, "wdrlAmtArb") == 0 {
					amt = rapid.Uint64Range(0, 1_000_000_000).Draw(rt, "wdrlAmt")
				}
				tx.Wdrl = append(tx.Wdrl, Wd{Key: k, Amount: amt})
			}
		}
	}
	// inputs
	nIn := rapid.IntRange(1, 3).Draw(rt, "nIn")
	seenIn := map[string]bool{}
	for i := 0; i < nIn; i++ {
		in := In{TxID: hash256([]byte{byte(rapid.IntRange(0, 40).Draw(rt, "inTx"))}),
			Ix: uint32(rapid.IntRange(0, 3).Draw(rt, "inIx")), Key: payKeys[rapid.IntRange(0, 3).Draw(rt, "inKey")]}
		k := fmt.Sprintf("%x#%d", in.TxID, in.Ix)
		if seenIn[k] {
			continue
		}
		seenIn[k] = true
		in.V.Coin = rapid.Uint64Range(1_000_000, 50_000_000_000).Draw(rt, "inCoin")
		tx.Ins = append(tx.Ins, in)
	}
	// assets on inputs
	if era >= Mary {
		maxA := 3
		if o.FewAssets {
			maxA = 1
		}
		for i := range tx.Ins {
			na := rapid.IntRange(0, maxA).Draw(rt, "nInAssets")
			seen := map[AssetID]bool{}
			for j := 0; j < na; j++ {
				var id AssetID
				if rapid.Bool().Draw(rt, "ownPolicy") {
					id.Policy = policyOfKey(payKeys[rapid.IntRange(0, 3).Draw(rt, "polKey")])
				} else {
					id.Policy = foreignPolicy(rapid.IntRange(0, 1).Draw(rt, "foreign"))
				}
				id.Name = assetNames[rapid.IntRange(0, len(assetNames)-1).Draw(rt, "assetName")]
				if seen[id] {
					continue
				}
				seen[id] = true
				tx.Ins[i].V.Assets = append(tx.Ins[i].V.Assets, AQ{id, genQty(rt, "inQty")})
			}
		}
	}
	if o.AfterInputs != nil {
		o.AfterInputs(rt, c)
	}
	// mint / burn
	if era >= Mary && !o.NoMint {
		nm := rapid.IntRange(0, 2).Draw(rt, "nMint")
		seen := map[AssetID]bool{}
		mk := map[int]bool{}
		for j := 0; j < nm; j++ {
			k := payKeys[rapid.IntRange(0, 3).Draw(rt, "mintKey")]
			id := AssetID{Policy: policyOfKey(k), Name: assetNames[rapid.IntRange(0, len(assetNames)-1).Draw(rt, "mintName")]}
			if seen[id] {
				continue
			}
			seen[id] = true
			q := genQty(rt, "mintQty")
			if rapid.Bool().Draw(rt, "burn") {
				// make sure an input holds at least q of it
				have := new(big.Int)
				for _, in := range tx.Ins {
					for _, a := range in.V.Assets {
						if a.ID == id {
							have.Add(have, a.Q)
						}
					}
				}
				if have.Cmp(q) < 0 {
					need := new(big.Int).Sub(q, have)
					need.Add(need, new(big.Int).SetUint64(rapid.Uint64Range(0, 5).Draw(rt, "burnExtra")))
					ii := rapid.IntRange(0, len(tx.Ins)-1).Draw(rt, "burnIn")
					found := false
					for ai := range tx.Ins[ii].V.Assets {
						if tx.Ins[ii].V.Assets[ai].ID == id {
							tx.Ins[ii].V.Assets[ai].Q.Add(tx.Ins[ii].V.Assets[ai].Q, need)
							found = true
						}
					}
					if !found && need.Sign() > 0 {
						tx.Ins[ii].V.Assets = append(tx.Ins[ii].V.Assets, AQ{id, need})
					}
				}
				q = new(big.Int).Neg(q)
			}
			tx.Mint = append(tx.Mint, AQ{id, q})
			mk[k] = true
		}
		for k := range mk {
			tx.MintKeys = append(tx.MintKeys, k)
		}
		sort.Ints(tx.MintKeys)
	}
	// proposals and donation
	if era >= Conway && !o.NoProps {
		var regd []int
		for _, k := range stakeKeys {
			if ss.StakeReg[k] {
				regd = append(regd, k)
			}
		}
		if len(regd) > 0 {
			np := rapid.IntRange(0, 2).Draw(rt, "nProps")
			if rapid.IntRange(0, 2).Draw(rt, "propsRare") != 0 {
				np = 0
			}
			for j := 0; j < np; j++ {
				tx.Props = append(tx.Props, Prop{Deposit: p.GovDeposit, RetKey: regd[rapid.IntRange(0, len(regd)-1).Draw(rt, "propRet")]})
			}
		}
		if rapid.IntRange(0, 3).Draw(rt, "donate") == 0 {
			tx.Donation = u64p(rapid.Uint64Range(1, 10_000_000_000).Draw(rt, "donation"))
		}
		if rapid.IntRange(0, 3).Draw(rt, "treasury") == 0 {
			tx.Treasury = u64p(rapid.Uint64Range(0, 1<<50).Draw(rt, "treasuryVal"))
		}
	}
	// validity interval: by default one that contains the slot
	if o.Interval != nil {
		o.Interval(rt, c)
	} else {
		genValidInterval(rt, c)
	}
	if rapid.IntRange(0, 4).Draw(rt, "meta") == 0 {
		tx.MetaLabel = u64p(rapid.Uint64Range(0, 1<<20).Draw(rt, "metaLabel"))
	}
	if era >= Alonzo {
		if rapid.IntRange(0, 3).Draw(rt, "netid") == 0 {
			n := net
			tx.NetID = &n
		}
		if rapid.IntRange(0, 4).Draw(rt, "reqsign") == 0 {
			tx.ReqSign = []int{payKeys[rapid.IntRange(0, 3).Draw(rt, "reqKey")]}
		}
	}

	// outputs: distribute what is consumed
	nOut := rapid.IntRange(max(1, o.MinOuts), 3).Draw(rt, "nOut")
	for i := 0; i < nOut; i++ {
		out := Out{}
		if rapid.Bool().Draw(rt, "outBase") {
			out.Addr = baseAddr(net, payKeys[rapid.IntRange(0, 3).Draw(rt, "outKey")], stakeKeys[rapid.IntRange(0, 3).Draw(rt, "outStake")])
		} else {
			out.Addr = payAddr(net, payKeys[rapid.IntRange(0, 3).Draw(rt, "outKey")])
		}
		if era >= Babbage {
			out.MapForm = rapid.Bool().Draw(rt, "outMap")
		}
		if era >= Alonzo && rapid.IntRange(0, 4).Draw(rt, "outDatum") == 0 {
			h := hash256([]byte("datum"))
			out.DatumHash = h[:]
		}
		tx.Outs = append(tx.Outs, out)
	}
	cons := refConsumed(tx, p)
	var ids []AssetID
	for id := range cons.Assets {
		ids = append(ids, id)
	}
	sort.Slice(ids, func(i, j int) bool { return ids[i].String() < ids[j].String() })
	for _, id := range ids {
		t := cons.Assets[id]
		if t.Sign() <= 0 {
			continue // fully burnt (never negative by construction)
		}
		parts := []*big.Int{new(big.Int).Set(t)}
		if t.Cmp(big.NewInt(2)) >= 0 && rapid.Bool().Draw(rt, "splitAsset") {
			var a *big.Int
			if t.IsUint64() {
				a = new(big.Int).SetUint64(rapid.Uint64Range(1, t.Uint64()-1).Draw(rt, "splitAt"))
			} else {
				a = new(big.Int).Rsh(t, 1)
			}
			parts = []*big.Int{a, new(big.Int).Sub(t, a)}
		}
		first := rapid.IntRange(0, nOut-1).Draw(rt, "assetOut")
		for pi, part := range parts {
			oi := (first + pi) % nOut
			if len(parts) == 2 && nOut == 1 {
				// a single output cannot list the same asset twice
				tx.Outs[0].V.Assets = append(tx.Outs[0].V.Assets, AQ{id, new(big.Int).Set(t)})
				break
			}
			tx.Outs[oi].V.Assets = append(tx.Outs[oi].V.Assets, AQ{id, part})
		}
	}
	if o.Bystanders && era >= Alonzo && rapid.IntRange(0, 2).Draw(rt, "bystanders") == 0 {
		cin := In{TxID: hash256([]byte("bystander/coll")), Ix: uint32(rapid.IntRange(0, 2).Draw(rt, "collIx")),
			Key: payKeys[rapid.IntRange(0, 3).Draw(rt, "collKey")], V: Val{Coin: rapid.Uint64Range(20_000_000, 90_000_000).Draw(rt, "collCoin")}}
		tx.Coll = []In{cin}
		if era >= Babbage && rapid.Bool().Draw(rt, "collRet") {
			ret := Out{Addr: payAddr(net, cin.Key), MapForm: rapid.Bool().Draw(rt, "collMap")}
			ret.V.Coin = outMinCoin(era, p, ret) + p.MinUtxo + rapid.Uint64Range(0, 1_000_000).Draw(rt, "collRetExtra")
			if ret.V.Coin > cin.V.Coin {
				ret.V.Coin = cin.V.Coin
			}
			tx.CollRet = &ret
			if rapid.Bool().Draw(rt, "totalColl") {
				tx.TotalColl = u64p(cin.V.Coin - ret.V.Coin)
			}
		}
		if era >= Babbage && rapid.Bool().Draw(rt, "refIn") {
			rin := In{TxID: hash256([]byte("bystander/ref")), Ix: uint32(rapid.IntRange(0, 2).Draw(rt, "refIx")),
				Key: payKeys[rapid.IntRange(0, 3).Draw(rt, "refKey")], V: Val{Coin: rapid.Uint64Range(1_000_000, 90_000_000).Draw(rt, "refCoin")}}
			if rapid.Bool().Draw(rt, "refAssets") {
				rin.V.Assets = []AQ{{AssetID{Policy: foreignPolicy(0), Name: "tok"}, genQty(rt, "refQty")}}
			}
			tx.RefIns = []In{rin}
		}
	}
	assetsLeft := false
	for _, id := range ids {
		if cons.Assets[id].Sign() > 0 {
			assetsLeft = true
		}
	}
	if o.AllowNoOutputs && !assetsLeft && rapid.IntRange(0, 9).Draw(rt, "noOutputs") == 0 {
		tx.Outs = nil
		nOut = 0
	}
	if o.BeforeCoins != nil {
		o.BeforeCoins(rt, c)
	}
	// coins
	if nOut > 0 {
		c.Sink = rapid.IntRange(0, nOut-1).Draw(rt, "sink")
	} else {
		c.Sink = -1
	}
	feeUpper := p.MinFeeA*16384 + p.MinFeeB
	prodFixed := refProduced(tx, p, ss) // outputs carry no coin yet, fee 0
	need := new(big.Int).Set(prodFixed.Coin)
	need.Add(need, new(big.Int).SetUint64(feeUpper+2_000_000))
	for i := range tx.Outs {
		base := outMinCoin(era, p, tx.Outs[i]) + rapid.Uint64Range(0, 3_000_000).Draw(rt, "outExtra")
		tx.Outs[i].V.Coin = base
		need.Add(need, new(big.Int).SetUint64(base))
	}
	if cons.Coin.Cmp(need) < 0 {
		deficit := new(big.Int).Sub(need, cons.Coin)
		tx.Ins[0].V.Coin += deficit.Uint64()
		cons = refConsumed(tx, p)
	}
	if nOut == 0 {
		// everything that is not a deposit/donation goes to the fee
		tx.Fee = 0
		prod := refProduced(tx, p, ss)
		rem := new(big.Int).Sub(cons.Coin, prod.Coin)
		if rem.Sign() < 0 || !rem.IsUint64() {
			panic("generator: negative remainder")
		}
		tx.Fee = rem.Uint64()
		return c
	}
	// remainder goes to the sink output, fee settled by iteration
	slack := uint64(0)
	if rapid.Bool().Draw(rt, "feeSlack") {
		slack = rapid.Uint64Range(0, 1_000_000).Draw(rt, "feeSlackAmt")
	}
	tx.Fee = feeUpper
	settle := func() {
		tx.Outs[c.Sink].V.Coin = 0
		prod := refProduced(tx, p, ss)
		rem := new(big.Int).Sub(cons.Coin, prod.Coin)
		if rem.Sign() < 0 || !rem.IsUint64() {
			panic("generator: negative remainder")
		}
		tx.Outs[c.Sink].V.Coin = rem.Uint64()
	}
	settle()
	for iter := 0; iter < 6; iter++ {
		raw, _ := tx.Encode()
		needFee := p.MinFeeA*uint64(len(raw)) + p.MinFeeB
		if iter > 0 && tx.Fee >= needFee {
			break
		}
		tx.Fee = needFee + slack + p.MinFeeA*uint64(iter)*4
		settle()
	}
	return c
}
