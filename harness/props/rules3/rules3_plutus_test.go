package rules3

// Plutus-side building blocks for C31: plutus-data generator (as CBOR trees),
// redeemer / datum containers, and the reference implementation of the
// language-views encoding and of the script-integrity hash preimage, written
// from the Alonzo ledger specification (section "Script Data Hash") and the
// cardano-ledger functions getLanguageView / encodeLangViews / hashScriptIntegrity.

import (
	"bytes"
	"sort"

	"pgregory.net/rapid"

	"verif/harness/internal/xcbor"
)

// genPlutusData draws a plutus_data item as a CBOR tree.
func genPlutusData(rt *rapid.T, depth int) *xcbor.Node {
	max := 4
	if depth <= 0 {
		max = 1
	}
	switch rapid.IntRange(0, max).Draw(rt, "pdKind") {
	case 0: // integer
		switch rapid.IntRange(0, 3).Draw(rt, "pdInt") {
		case 0:
			return xcbor.U(uint64(rapid.IntRange(0, 30).Draw(rt, "pdSmall")))
		case 1:
			return xcbor.I(rapid.Int64().Draw(rt, "pdI64"))
		case 2:
			return xcbor.U(rapid.Uint64().Draw(rt, "pdU64"))
		default:
			return xcbor.Tg(2, xcbor.B(rapid.SliceOfN(rapid.Byte(), 9, 12).Draw(rt, "pdBig")))
		}
	case 1: // bounded bytes
		b := rapid.SliceOfN(rapid.Byte(), 0, 40).Draw(rt, "pdBytes")
		if b == nil {
			b = []byte{}
		}
		return xcbor.B(b)
	case 2: // list
		n := rapid.IntRange(0, 3).Draw(rt, "pdListN")
		var it []*xcbor.Node
		for i := 0; i < n; i++ {
			it = append(it, genPlutusData(rt, depth-1))
		}
		l := xcbor.A(it...)
		if n > 0 && rapid.Bool().Draw(rt, "pdListIndef") {
			l.Indef = true
		}
		return l
	case 3: // map
		n := rapid.IntRange(0, 2).Draw(rt, "pdMapN")
		var kv []*xcbor.Node
		for i := 0; i < n; i++ {
			kv = append(kv, xcbor.U(uint64(i)), genPlutusData(rt, depth-1))
		}
		return xcbor.M(kv...)
	default: // constructor
		n := rapid.IntRange(0, 3).Draw(rt, "pdConN")
		var it []*xcbor.Node
		for i := 0; i < n; i++ {
			it = append(it, genPlutusData(rt, depth-1))
		}
		fields := xcbor.A(it...)
		if n > 0 && rapid.Bool().Draw(rt, "pdConIndef") {
			fields.Indef = true
		}
		switch rapid.IntRange(0, 2).Draw(rt, "pdConTag") {
		case 0:
			return xcbor.Tg(uint64(121+rapid.IntRange(0, 6).Draw(rt, "pdCon")), fields)
		case 1:
			return xcbor.Tg(uint64(1280+rapid.IntRange(0, 20).Draw(rt, "pdConHi")), fields)
		default:
			return xcbor.Tg(102, xcbor.A(xcbor.U(uint64(rapid.IntRange(0, 200).Draw(rt, "pdConGen"))), fields))
		}
	}
}

// Redeemer is one redeemer entry.
type Redeemer struct {
	Tag   uint64
	Index uint64
	Data  *xcbor.Node
	Mem   uint64
	Steps uint64
}

// redeemersNode encodes the redeemers either as the Alonzo list
// [[tag, index, data, [mem, steps]], ...] or as the Conway map
// {[tag, index] => [data, [mem, steps]]}.
func redeemersNode(rs []Redeemer, mapForm bool) *xcbor.Node {
	if mapForm {
		var kv []*xcbor.Node
		for _, r := range rs {
			kv = append(kv, xcbor.A(xcbor.U(r.Tag), xcbor.U(r.Index)),
				xcbor.A(r.Data, xcbor.A(xcbor.U(r.Mem), xcbor.U(r.Steps))))
		}
		return xcbor.M(kv...)
	}
	var it []*xcbor.Node
	for _, r := range rs {
		it = append(it, xcbor.A(xcbor.U(r.Tag), xcbor.U(r.Index), r.Data, xcbor.A(xcbor.U(r.Mem), xcbor.U(r.Steps))))
	}
	return xcbor.A(it...)
}

// ---- reference: language views --------------------------------------------------------

// LangViewOpts are deliberately WRONG variants of the encoding, used to build
// adversarial declared hashes; the zero value is the specification.
type LangViewOpts struct {
	OrderByLanguageID bool // PlutusV1 first instead of length-then-lexicographic key order
	V1Plain           bool // PlutusV1 encoded like the later languages (key 00, definite list, no wrapping)
	V1DefiniteInside  bool // PlutusV1 double-wrapped but with a definite-length list inside
	AllIndefinite     bool // every language uses the indefinite list (unwrapped for V2+)
}

func costModelList(params []int64, indef bool) *xcbor.Node {
	var it []*xcbor.Node
	for _, v := range params {
		it = append(it, xcbor.I(v))
	}
	l := xcbor.A(it...)
	l.Indef = indef
	return l
}

// refLangViews encodes the language views of the given languages (0 = PlutusV1
// ... 3 = PlutusV4): a definite map; PlutusV1 has the key bytes(serialise(0)) =
// 41 00 and the value bytes(indefinite-list of the parameters); every later
// language l has the key l and a definite list; entries are ordered by key
// length, then lexicographically ("shortLex" on the serialised keys). A language
// without a cost model has the value null (cardano-ledger getLanguageView).
func refLangViews(langs []uint, cm map[uint][]int64, o LangViewOpts) []byte {
	type entry struct{ k, v []byte }
	var es []entry
	seen := map[uint]bool{}
	for _, l := range langs {
		if seen[l] {
			continue
		}
		seen[l] = true
		params, ok := cm[l]
		var e entry
		switch {
		case l == 0 && !o.V1Plain:
			e.k = xcbor.B(xcbor.U(0).Encode()).Encode()
			inner := xcbor.Null().Encode()
			if ok {
				inner = costModelList(params, !o.V1DefiniteInside).Encode()
			}
			e.v = xcbor.B(inner).Encode()
		default:
			e.k = xcbor.U(uint64(l)).Encode()
			e.v = xcbor.Null().Encode()
			if ok {
				e.v = costModelList(params, o.AllIndefinite).Encode()
			}
		}
		es = append(es, e)
	}
	if o.OrderByLanguageID {
		// input order of langs sorted numerically
		sort.SliceStable(es, func(i, j int) bool { return langIDOfKey(es[i].k) < langIDOfKey(es[j].k) })
	} else {
		sort.SliceStable(es, func(i, j int) bool {
			if len(es[i].k) != len(es[j].k) {
				return len(es[i].k) < len(es[j].k)
			}
			return bytes.Compare(es[i].k, es[j].k) < 0
		})
	}
	out := xcbor.M().Encode() // a0
	out[0] = 0xa0 | byte(len(es))
	for _, e := range es {
		out = append(out, e.k...)
		out = append(out, e.v...)
	}
	return out
}

func langIDOfKey(k []byte) int {
	if len(k) == 2 {
		return 0
	}
	return int(k[0])
}

// refIntegrityPreimage is the preimage of the script data hash: the original
// redeemer bytes (the era's encoding of "no redeemers" when the witness set has
// no redeemers field), the original datum bytes if there is at least one datum,
// and the language views.
func refIntegrityPreimage(era Era, redeemersOrig, datumsOrig []byte, nDatums int, langViews []byte) []byte {
	var pre []byte
	switch {
	case redeemersOrig != nil:
		pre = append(pre, redeemersOrig...)
	case era >= Conway:
		pre = append(pre, 0xa0)
	default:
		pre = append(pre, 0x80)
	}
	if nDatums > 0 {
		pre = append(pre, datumsOrig...)
	}
	return append(pre, langViews...)
}
