package rules3

import (
	"bytes"
	"errors"
	"fmt"
	"math"
	"strings"
	"testing"

	"github.com/blinklabs-io/gouroboros/cbor"
	"github.com/blinklabs-io/gouroboros/ledger/allegra"
	"github.com/blinklabs-io/gouroboros/ledger/alonzo"
	"github.com/blinklabs-io/gouroboros/ledger/babbage"
	"github.com/blinklabs-io/gouroboros/ledger/common"
	"github.com/blinklabs-io/gouroboros/ledger/conway"
	"github.com/blinklabs-io/gouroboros/ledger/dijkstra"
	"github.com/blinklabs-io/gouroboros/ledger/mary"
	"pgregory.net/rapid"

	"verif/harness/internal/evi"
	"verif/harness/internal/xcbor"
)

var scriptEras = []Era{Allegra, Mary, Alonzo, Babbage, Conway, Dijkstra}

func nativeRule(era Era) common.UtxoValidationRuleFunc {
	switch era {
	case Allegra:
		return allegra.UtxoValidateNativeScripts
	case Mary:
		return mary.UtxoValidateNativeScripts
	case Alonzo:
		return alonzo.UtxoValidateNativeScripts
	case Babbage:
		return babbage.UtxoValidateNativeScripts
	case Conway:
		return conway.UtxoValidateNativeScripts
	case Dijkstra:
		return dijkstra.UtxoValidateNativeScripts
	}
	panic("era")
}

// refScriptHash: Blake2b-224 of a zero byte followed by the script's bytes as given.
func refScriptHash(raw []byte) [28]byte { return hash224(append([]byte{0}, raw...)) }

const payerKey = 4 // owns the fee-paying input; outside the script key universe

// c29Tx is one transaction-level case.
type c29Tx struct {
	Era     Era
	Scripts []*NS
	Raws    [][]byte // encodings actually put into the witness set
	Ctx     SCtx
	Payer   bool // the payer's vkey witness is included
	SetTag  bool
	Three   bool
	// SlotOff: the slot the rules are called with is validity start (or 0) + SlotOff;
	// native-script evaluation must not depend on it
	SlotOff uint64
}

func (c *c29Tx) desc() string {
	var ss []string
	for i, s := range c.Scripts {
		ss = append(ss, fmt.Sprintf("%s=%x", s, c.Raws[i]))
	}
	return fmt.Sprintf("%s scripts=[%s] %s payer=%v", c.Era, strings.Join(ss, "; "), c.Ctx, c.Payer)
}

func (c *c29Tx) sample(raw []byte) map[string]any {
	var ss []string
	for _, s := range c.Scripts {
		ss = append(ss, s.String())
	}
	var rs []string
	for _, r := range c.Raws {
		rs = append(rs, evi.Hex(r))
	}
	return map[string]any{"era": c.Era.String(), "scripts": ss, "script_cbor": rs, "context": c.Ctx.String(), "tx_cbor": evi.Hex(raw)}
}

// build makes the transaction: one key-locked fee input, one input locked by
// each script, the native scripts as witnesses, vkey witnesses for the chosen
// universe keys (properly signed) and the chosen validity interval.
func (c *c29Tx) build() (raw []byte, st *State, pp common.ProtocolParameters, slot uint64, err error) {
	tx := &TxSpec{Era: c.Era, Net: 0, OutKey: payerKey, Fee: 1_000_000, IsValid: true, SetTag: c.SetTag, ThreeElems: c.Three}
	tx.Ins = append(tx.Ins, In{TxID: hash256([]byte("c29/payer")), Ix: 0, Lock: Lock{Kind: LKey, Key: payerKey}, Coin: 10_000_000})
	seen := map[[28]byte]bool{}
	for i, r := range c.Raws {
		h := refScriptHash(r)
		if seen[h] {
			continue
		}
		seen[h] = true
		tx.Ins = append(tx.Ins, In{TxID: hash256([]byte("c29/locked")), Ix: uint32(i), Lock: Lock{Kind: LScript, Script: h}, Coin: 5_000_000})
		tx.Natives = append(tx.Natives, r)
	}
	tx.TTL = c.Ctx.End
	tx.Start = c.Ctx.Start
	body := tx.BodyBytes()
	id := hash256(body)
	for k := 0; k < scriptUniverse; k++ {
		if c.Ctx.Keys[k] {
			tx.VKeys = append(tx.VKeys, goodVKey(k, id))
		}
		if c.Ctx.BootKeys[k] {
			// a bootstrap witness whose public key is the universe key (validly signed)
			bw := BootWit{Pub: append([]byte{}, keys[k].pub...), CC: bytes.Repeat([]byte{byte(k)}, 32), Attrs: []byte{0xa0}}
			bw.Sig = signWith(k, id)
			tx.Boots = append(tx.Boots, bw)
		}
	}
	if c.Payer {
		tx.VKeys = append(tx.VKeys, goodVKey(payerKey, id))
	}
	raw, _ = tx.Assemble(body)
	st = newState(tx.Net)
	for _, in := range tx.Ins {
		if e := st.addUtxo(c.Era, in); e != nil {
			return nil, nil, nil, 0, e
		}
	}
	pp = defaultParams(c.Era).forEra(c.Era)
	// a slot inside the validity interval where one exists
	if c.Ctx.Start != nil {
		slot = *c.Ctx.Start
	}
	if c.SlotOff > 0 {
		if slot+c.SlotOff < slot {
			slot = math.MaxUint64
		} else {
			slot += c.SlotOff
		}
	} else if c.Ctx.End != nil && *c.Ctx.End > 0 && slot >= *c.Ctx.End {
		slot = *c.Ctx.End - 1
	}
	return raw, st, pp, slot, nil
}

func signWith(k int, id [32]byte) []byte { return goodVKey(k, id).Sig }

// libKeyHashes builds the key-hash set argument of NativeScript.Evaluate.
func libKeyHashes(c SCtx) map[common.Blake2b224]bool {
	m := map[common.Blake2b224]bool{}
	for k, b := range c.Keys {
		if b {
			m[common.Blake2b224(keys[k].hash)] = true
		}
	}
	return m
}

type c29Run struct {
	rec *evi.Recorder
}

// report classifies a disagreement. agree(q) must tell whether the reference
// under quirks q reproduces the library verdict.
func (r *c29Run) report(fail func(key, what string) bool, site, entry, what string, agree func(Quirks) bool) {
	names, ok := explain(agree)
	if !ok {
		fail("C29:unexplained:"+site, what+" (no modelled deviation explains it; entry point: "+entry+")")
		return
	}
	for _, n := range names {
		fail("C29:"+n+":"+site, what+" [deviation: "+strings.Join(names, "+")+"; entry point: "+entry+"]")
	}
}

// ruleSite names the implementation a rule call ends up in: Mary, Alonzo and
// Babbage delegate to allegra.UtxoValidateNativeScripts; Conway and Dijkstra
// have their own copies.
func ruleSite(era Era) string {
	switch era {
	case Conway:
		return "conway-rule"
	case Dijkstra:
		return "dijkstra-rule"
	}
	return "allegra-rule"
}

// checkAPI evaluates one decoded script through NativeScript.Evaluate.
func (r *c29Run) checkAPI(fail func(key, what string) bool, s *NS, raw []byte, ctx SCtx, extra ...SCtx) {
	rec := r.rec
	var ns common.NativeScript
	if _, err := cbor.Decode(raw, &ns); err != nil {
		rec.Class("api_decode_rejected")
		return
	}
	// hash oracle
	rec.Eval()
	if got, want := ns.Hash(), refScriptHash(raw); !bytes.Equal(got[:], want[:]) {
		fail("C29:hash:standalone-decode", fmt.Sprintf("script %s bytes %x: Hash()=%x, blake2b-224(00||original)=%x", s, raw, got[:], want[:]))
	}
	// the same script carried as a Babbage+ script reference of a UTxO entry
	refOut := utxoOutNode(Babbage, 0, In{Lock: Lock{Kind: LKey, Key: 0}, Coin: 2_000_000, RefScript: &RefScript{Lang: 0, Bytes: raw}}).Encode()
	if out, err := decodeOutputBytes(Babbage, refOut); err != nil {
		rec.Class("scriptref_decode_rejected")
	} else if sr := out.ScriptRef(); sr == nil {
		fail("C29:hash:script-ref", fmt.Sprintf("output with a native script reference decodes without ScriptRef (script %x)", raw))
	} else {
		rec.Eval()
		if got, want := sr.Hash(), refScriptHash(raw); !bytes.Equal(got[:], want[:]) {
			fail("C29:hash:script-ref", fmt.Sprintf("script %s bytes %x as script_ref: Hash()=%x, blake2b-224(00||original)=%x", s, raw, got[:], want[:]))
		}
	}
	// One decoded object, several contexts in a history-dependent order: the
	// context under test, the extra contexts, then the context under test again.
	// Every result must be the reference result for ITS context (modulo the
	// listed deviations, which are functions of the context alone).
	seq := append(append([]SCtx{ctx}, extra...), ctx)
	for i, cx := range seq {
		r.evalOn(fail, &ns, s, raw, cx, i)
	}
}

// evalOn evaluates the (possibly already used) decoded script in one context.
// The API has no notion of an absent bound: its documentation prescribes 0 for
// "no validity start" and 2^64-1 for "no ttl".
func (r *c29Run) evalOn(fail func(key, what string) bool, ns *common.NativeScript, s *NS, raw []byte, ctx SCtx, nth int) {
	rec := r.rec
	start, end := uint64(0), uint64(math.MaxUint64)
	if ctx.Start != nil {
		start = *ctx.Start
	}
	if ctx.End != nil {
		end = *ctx.End
	}
	kh := libKeyHashes(ctx)
	nKeys := len(kh)
	got := ns.Evaluate(0, start, end, kh)
	want := refEval(s, ctx, Quirks{})
	rec.Eval()
	if len(kh) != nKeys || len(libKeyHashes(ctx)) != nKeys {
		fail("C29:Evaluate:mutates-key-hash-set", fmt.Sprintf("Evaluate changed the key-hash map it was given (%d -> %d entries)", nKeys, len(kh)))
	}
	if h, w := ns.Hash(), refScriptHash(raw); !bytes.Equal(h[:], w[:]) {
		fail("C29:Evaluate:mutates-script", fmt.Sprintf("after %d evaluation(s) Hash()=%x, blake2b-224(00||original)=%x", nth+1, h[:], w[:]))
	}
	if got != want {
		what := fmt.Sprintf("NativeScript.Evaluate(start=%d,end=%d) of %s with %s = %v, ledger semantics = %v (script cbor %x; evaluation #%d on this object)",
			start, end, s, ctx, got, want, raw, nth+1)
		if nth > 0 {
			// is it the history? a freshly decoded object decides
			var fresh common.NativeScript
			if _, err := cbor.Decode(raw, &fresh); err == nil && fresh.Evaluate(0, start, end, libKeyHashes(ctx)) != got {
				fail("C29:Evaluate:result-depends-on-history", what+" - a freshly decoded copy of the same script gives the other result for this context")
				return
			}
		}
		r.report(fail, "Evaluate", "NativeScript.Evaluate", what, func(q Quirks) bool { return refEval(s, ctx, q) == got })
	}
}

// checkTx evaluates the scripts through the era's native-script rule (and the
// full rule list) inside a real transaction.
func (r *c29Run) checkTx(fail func(key, what string) bool, c *c29Tx) (decoded bool) {
	rec := r.rec
	raw, st, pp, slot, err := c.build()
	if err != nil {
		panic(fmt.Sprintf("harness: cannot build state: %v", err))
	}
	tx, err := decodeTx(c.Era, raw)
	if err != nil {
		rec.Class("tx_decode_rejected")
		return false
	}
	// hashes of the scripts as the transaction carries them
	nss := tx.Witnesses().NativeScripts()
	wantN := 0
	seen := map[[28]byte]bool{}
	var order [][28]byte
	for _, rw := range c.Raws {
		h := refScriptHash(rw)
		if !seen[h] {
			seen[h] = true
			order = append(order, h)
			wantN++
		}
	}
	rec.Eval()
	if len(nss) != wantN {
		fail("C29:tx:script-count", fmt.Sprintf("%s: witness set carries %d native scripts, library sees %d", c.Era, wantN, len(nss)))
		return true
	}
	for i := range nss {
		if got := nss[i].Hash(); !bytes.Equal(got[:], order[i][:]) {
			fail("C29:hash:witness-set:"+c.Era.String(), fmt.Sprintf("%s: script #%d Hash()=%x, blake2b-224(00||original)=%x; case %s", c.Era, i, got[:], order[i][:], c.desc()))
			return true
		}
	}
	// evaluation through the rule
	names := []string{c.Era.String() + ".UtxoValidateNativeScripts", "VerifyTransaction(" + c.Era.String() + ".UtxoValidationRules)"}
	errs := pureRun(fail, "C29", c.Era.String(), tx, names, func() []error {
		e := []error{nativeRule(c.Era)(tx, slot, st, pp), nil}
		if c.Payer {
			e[1] = common.VerifyTransaction(tx, slot, st, pp, rulesFor(c.Era))
		}
		return e
	})
	rerr := errs[0]
	got := rerr == nil
	want := true
	firstFail := -1
	for i, s := range c.Scripts {
		if !refEval(s, c.Ctx, Quirks{}) {
			want = false
			if firstFail < 0 {
				firstFail = i
			}
		}
	}
	rec.Eval()
	if got != want {
		r.report(fail, ruleSite(c.Era), c.Era.String()+".UtxoValidateNativeScripts", fmt.Sprintf("%s rule result accept=%v (err=%v), ledger semantics accept=%v; case %s",
			c.Era, got, rerr, want, c.desc()),
			func(q Quirks) bool {
				for _, s := range c.Scripts {
					if !refEval(s, c.Ctx, q) {
						return !got
					}
				}
				return got
			})
	} else if !got {
		rec.Class("tx_rule_rejects")
		var nf allegra.NativeScriptFailedError
		if errors.As(rerr, &nf) {
			// the error must name one of the transaction's scripts by its original-bytes
			// hash; when no modelled deviation touches any script of the case it must
			// be the first one the reference rejects
			member, pure := false, true
			for i, s := range c.Scripts {
				h := refScriptHash(c.Raws[i])
				if bytes.Equal(nf.ScriptHash[:], h[:]) {
					member = true
				}
				for mask := 1; mask < 16; mask++ {
					if refEval(s, c.Ctx, quirksOf(mask)) != refEval(s, c.Ctx, Quirks{}) {
						pure = false
					}
				}
			}
			wantH := refScriptHash(c.Raws[firstFail])
			if !member || (pure && !bytes.Equal(nf.ScriptHash[:], wantH[:])) {
				fail("C29:tx:failed-script-hash", fmt.Sprintf("%s: NativeScriptFailedError names %x, expected %x (first script the ledger semantics reject); case %s", c.Era, nf.ScriptHash[:], wantH[:], c.desc()))
			}
		} else {
			fail("C29:tx:error-type", fmt.Sprintf("%s: rule rejected with %T (%v), expected NativeScriptFailedError", c.Era, rerr, rerr))
		}
	} else {
		rec.Class("tx_rule_accepts")
	}
	// the complete rule list: acceptance must imply the reference accepts
	if c.Payer {
		ferr := errs[1]
		rec.Eval()
		if ferr == nil {
			rec.Class("tx_full_list_accepts")
			if !want {
				rec.Class("tx_full_list_accepts_but_ledger_rejects_a_script")
				r.report(fail, ruleSite(c.Era), "VerifyTransaction("+c.Era.String()+".UtxoValidationRules)", fmt.Sprintf("%s complete rule list accepts, ledger semantics reject script #%d; case %s", c.Era, firstFail, c.desc()),
					func(q Quirks) bool {
						for _, s := range c.Scripts {
							if !refEval(s, c.Ctx, q) {
								return false
							}
						}
						return true
					})
			}
		} else {
			rec.Class("tx_full_list_rejects:" + errClass(ferr))
		}
	}
	return true
}

func TestC29(t *testing.T) {
	rec := evi.New(t, "C29", evi.Exploration,
		"native scripts from the grammar sig|all|any|n-of-k|invalid_before|invalid_hereafter (depth<=4, width<=4, n in 0..k+1, 4-key universe), encoded by the harness (canonical and restyled heads), decoded by the library and evaluated (i) by NativeScript.Evaluate and (ii) by the era's UtxoValidateNativeScripts + the full rule list inside signed Allegra..Dijkstra transactions whose validity start / ttl are absent, 0, extreme or at/next to the script bounds; oracle = ledger timelock semantics + blake2b-224(00||original bytes); non-trivial = script has a time lock or depth>=2; distinct by (entry point, era, script bytes, context)")
	defer rec.Finish()
	rec.Assume("blake2b / ed25519 from the Go libraries are trusted by both sides",
		"reference evaluator is the harness transcription of evalTimelock (cardano-ledger Allegra) / the Shelley multisig semantics",
		"transactions are decoded by the library's era decoder; cases it rejects are counted, not judged")
	run := &c29Run{rec: rec}

	// ---- deterministic grid: every leaf kind x every bound state, both entry points ----
	vfail := func(key, what string) bool { return rec.Violation(key, what, map[string]any{"what": what}) }
	gridBounds := []uint64{0, 1, 5, math.MaxUint64 - 1, math.MaxUint64}
	gridN := 0
	for _, l := range gridBounds {
		states := []*uint64{nil, u64p(0), u64p(l), u64p(math.MaxUint64)}
		if l > 0 {
			states = append(states, u64p(l-1))
		}
		if l < math.MaxUint64 {
			states = append(states, u64p(l+1))
		}
		shapes := []func(leaf *NS) *NS{
			func(x *NS) *NS { return x },
			func(x *NS) *NS { return &NS{Kind: NSAll, Subs: []*NS{x, {Kind: NSSig, Key: 0}}} },
			func(x *NS) *NS { return &NS{Kind: NSAny, Subs: []*NS{{Kind: NSSig, Key: 1}, x}} },
			func(x *NS) *NS { return &NS{Kind: NSNofK, N: 2, Subs: []*NS{x, {Kind: NSSig, Key: 0}, {Kind: NSSig, Key: 1}}} },
		}
		for _, kind := range []NSKind{NSBefore, NSHereafter} {
			for si, shape := range shapes {
				s := shape(&NS{Kind: kind, Slot: l})
				raw := s.node().Encode()
				for _, st := range states {
					for _, en := range states {
						ctx := SCtx{Start: st, End: en}
						ctx.Keys[0] = true
						run.checkAPI(vfail, s, raw, ctx, SCtx{Keys: [scriptUniverse]bool{true, true, true, true}, Start: u64p(math.MaxUint64), End: u64p(0)})
						gridN++
						for _, era := range scriptEras {
							if si > 1 && era != Allegra && era != Conway {
								continue // composite shapes: two eras are enough in the grid
							}
							c := &c29Tx{Era: era, Scripts: []*NS{s}, Raws: [][]byte{raw}, Ctx: ctx, Payer: true}
							if run.checkTx(vfail, c) {
								rec.NonTrivial("grid:"+c.desc(), nil)
							}
							gridN++
						}
					}
				}
			}
		}
	}
	rec.SetExtra("n_grid_cases", gridN)

	// ---- generated search ----
	rec.Check(func(rt *rapid.T) {
		fail := func(key, what string) bool { return rec.Fail(rt, key, what, map[string]any{"what": what}) }
		s := genScript(rt, rapid.IntRange(1, 4).Draw(rt, "depth"))
		node := s.node()
		restyled := false
		if rapid.Bool().Draw(rt, "restyle") {
			edits := xcbor.Restyle(rt, node, xcbor.StyleOpts{MaxEdits: 3})
			restyled = len(edits) > 0
		}
		raw := node.Encode()
		before, hereafter := s.timeBounds()
		var ctx SCtx
		for k := range ctx.Keys {
			ctx.Keys[k] = rapid.Bool().Draw(rt, "hasKey")
		}
		ctx.Start = genBound(rt, "start", before)
		ctx.End = genBound(rt, "ttl", hereafter)

		hasTime := len(before)+len(hereafter) > 0
		switch {
		case restyled:
			rec.Class("script_restyled")
		default:
			rec.Class("script_canonical")
		}
		if hasTime {
			rec.Class("script_has_timelock")
		}
		rec.Class(fmt.Sprintf("script_depth_%d", s.depth()))
		if ctx.Start == nil {
			rec.Class("ctx_start_absent")
		} else if *ctx.Start == 0 {
			rec.Class("ctx_start_zero")
		}
		if ctx.End == nil {
			rec.Class("ctx_ttl_absent")
		} else if *ctx.End == 0 {
			rec.Class("ctx_ttl_zero")
		}
		if refEval(s, ctx, Quirks{}) {
			rec.Class("ref_true")
		} else {
			rec.Class("ref_false")
		}
		nontrivial := hasTime || s.depth() >= 2

		// (i) direct evaluation
		var extra []SCtx
		for i, n := 0, rapid.IntRange(1, 3).Draw(rt, "nExtraCtx"); i < n; i++ {
			var e SCtx
			for k := range e.Keys {
				e.Keys[k] = rapid.Bool().Draw(rt, "extraKey")
			}
			e.Start = genBound(rt, "extraStart", before)
			e.End = genBound(rt, "extraTtl", hereafter)
			extra = append(extra, e)
		}
		run.checkAPI(fail, s, raw, ctx, extra...)
		if nontrivial {
			rec.NonTrivial(fmt.Sprintf("api %x %s", raw, ctx), map[string]any{"entry": "Evaluate", "script": s.String(), "script_cbor": evi.Hex(raw), "context": ctx.String()})
		}

		// (ii) inside a transaction
		era := scriptEras[rapid.IntRange(0, len(scriptEras)-1).Draw(rt, "era")]
		c := &c29Tx{Era: era, Scripts: []*NS{s}, Raws: [][]byte{raw}, Ctx: ctx, Payer: rapid.IntRange(0, 3).Draw(rt, "payer") != 0}
		if rapid.IntRange(0, 3).Draw(rt, "second") == 0 {
			s2 := genScript(rt, rapid.IntRange(1, 3).Draw(rt, "depth2"))
			c.Scripts = append(c.Scripts, s2)
			c.Raws = append(c.Raws, s2.node().Encode())
			rec.Class("tx_two_scripts")
		}
		if rapid.IntRange(0, 5).Draw(rt, "boot") == 0 {
			k := rapid.IntRange(0, scriptUniverse-1).Draw(rt, "bootKey")
			if !c.Ctx.Keys[k] {
				c.Ctx.BootKeys[k] = true
				rec.Class("tx_bootstrap_witness_for_universe_key")
			}
		}
		if era >= Conway {
			c.SetTag = rapid.Bool().Draw(rt, "setTag")
		}
		if era == Dijkstra {
			c.Three = rapid.Bool().Draw(rt, "three")
		}
		if rapid.Bool().Draw(rt, "slotOff") {
			c.SlotOff = genSlot(rt, "slotOffset")
		}
		rec.Class("tx_era_" + era.String())
		if run.checkTx(fail, c) && nontrivial {
			raw, _, _, _, _ := c.build()
			rec.NonTrivial("tx "+c.desc(), c.sample(raw))
		}
	})
}
