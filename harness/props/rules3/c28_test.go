package rules3

import (
	"crypto/ed25519"
	"fmt"
	"sort"
	"strings"
	"testing"

	"github.com/blinklabs-io/gouroboros/ledger/allegra"
	"github.com/blinklabs-io/gouroboros/ledger/alonzo"
	"github.com/blinklabs-io/gouroboros/ledger/babbage"
	"github.com/blinklabs-io/gouroboros/ledger/common"
	"github.com/blinklabs-io/gouroboros/ledger/conway"
	"github.com/blinklabs-io/gouroboros/ledger/mary"
	"github.com/blinklabs-io/gouroboros/ledger/shelley"
	"pgregory.net/rapid"

	"verif/harness/internal/evi"
	"verif/harness/internal/xcbor"
)

// ---- the rule functions that implement the statement, per era ----------------------

type sigRules struct {
	sig, req, coll common.UtxoValidationRuleFunc // coll is nil before Alonzo
}

func sigRulesFor(era Era) sigRules {
	switch era {
	case Shelley:
		return sigRules{shelley.UtxoValidateSignatures, shelley.UtxoValidateRequiredVKeyWitnesses, nil}
	case Allegra:
		return sigRules{allegra.UtxoValidateSignatures, allegra.UtxoValidateRequiredVKeyWitnesses, nil}
	case Mary:
		return sigRules{mary.UtxoValidateSignatures, mary.UtxoValidateRequiredVKeyWitnesses, nil}
	case Alonzo:
		return sigRules{alonzo.UtxoValidateSignatures, alonzo.UtxoValidateRequiredVKeyWitnesses, alonzo.UtxoValidateCollateralVKeyWitnesses}
	case Babbage:
		return sigRules{babbage.UtxoValidateSignatures, babbage.UtxoValidateRequiredVKeyWitnesses, babbage.UtxoValidateCollateralVKeyWitnesses}
	case Conway, Dijkstra: // the Dijkstra rule list uses the Conway functions
		return sigRules{conway.UtxoValidateSignatures, conway.UtxoValidateRequiredVKeyWitnesses, conway.UtxoValidateCollateralVKeyWitnesses}
	}
	panic("era")
}

// ---- reference ------------------------------------------------------------------------

// c28Ref is computed from the bytes actually emitted: the body bytes (their
// blake2b-256 is the transaction id), the witnesses, and the locks of the
// resolvable inputs.
type c28Ref struct {
	BadVKeySigs []int // indexes of vkey witnesses whose signature does not verify
	BadBootSigs []int
	// unwitnessed owners, as "input#i:<lock kind>" / "collateral#i:<lock kind>"
	UnwitnessedInputs []string
	UnwitnessedColl   []string
	UnwitnessedReq    []string
	// withdrawal key credentials without a vkey witness (not part of the
	// statement's consequent; used only for the over-rejection statistics)
	UnwitnessedWdrl []string
}

func (r *c28Ref) ok() bool {
	return len(r.BadVKeySigs)+len(r.BadBootSigs)+len(r.UnwitnessedInputs)+len(r.UnwitnessedColl)+len(r.UnwitnessedReq) == 0
}

func c28Reference(tx *TxSpec, body []byte) *c28Ref {
	id := hash256(body)
	ref := &c28Ref{}
	provided := map[[28]byte]bool{}
	for i, w := range tx.VKeys {
		if len(w.VKey) != ed25519.PublicKeySize || len(w.Sig) != ed25519.SignatureSize ||
			!ed25519.Verify(ed25519.PublicKey(w.VKey), id[:], w.Sig) {
			ref.BadVKeySigs = append(ref.BadVKeySigs, i)
		}
		provided[hash224(w.VKey)] = true
	}
	roots := map[[28]byte]bool{}
	for i, b := range tx.Boots {
		if len(b.Pub) != ed25519.PublicKeySize || len(b.Sig) != ed25519.SignatureSize ||
			!ed25519.Verify(ed25519.PublicKey(b.Pub), id[:], b.Sig) {
			ref.BadBootSigs = append(ref.BadBootSigs, i)
		}
		if len(b.Pub) == 32 && len(b.CC) == 32 {
			if _, err := xcbor.ParseExact(b.Attrs); err == nil {
				roots[byronRoot(b.Pub, b.CC, b.Attrs)] = true
			}
		}
	}
	owner := func(in In) (h [28]byte, keyOwned, known bool) {
		if in.Missing {
			return h, false, false
		}
		switch {
		case in.Lock.keyLocked():
			return keys[in.Lock.Key].hash, true, true
		case in.Lock.Kind == LByron:
			return byronIDs[in.Lock.Byron].root, true, true
		}
		return h, false, true
	}
	for i, in := range sortIns(tx.Ins) {
		h, keyOwned, known := owner(in)
		if !known || !keyOwned {
			continue // unresolvable (bad-inputs rule) or script-locked (script rules)
		}
		ok := provided[h]
		if in.Lock.Kind == LByron {
			ok = ok || roots[h]
		}
		if !ok {
			ref.UnwitnessedInputs = append(ref.UnwitnessedInputs, fmt.Sprintf("input#%d:%s", i, in.Lock.Kind))
		}
	}
	if tx.Era >= Alonzo {
		for i, in := range sortIns(tx.Coll) {
			h, keyOwned, known := owner(in)
			if !known {
				continue
			}
			ok := keyOwned && provided[h]
			if in.Lock.Kind == LByron {
				ok = ok || roots[h]
			}
			if !ok {
				ref.UnwitnessedColl = append(ref.UnwitnessedColl, fmt.Sprintf("collateral#%d:%s", i, in.Lock.Kind))
			}
		}
		for i, h := range tx.ReqSign {
			if !provided[h] && !roots[h] {
				ref.UnwitnessedReq = append(ref.UnwitnessedReq, fmt.Sprintf("required-signer#%d", i))
			}
		}
	}
	for i, w := range tx.Wdrl {
		if w.ScriptHash == nil && !provided[keys[w.Key].hash] {
			ref.UnwitnessedWdrl = append(ref.UnwitnessedWdrl, fmt.Sprintf("withdrawal#%d", i))
		}
	}
	return ref
}

// ---- generator ----------------------------------------------------------------------------

var alwaysTrueScript = []byte{0x82, 0x01, 0x80} // all []

type c28Case struct {
	Tx     *TxSpec
	Faults []string
	Slot   uint64
}

var (
	c28PayKeys   = []int{0, 1, 2, 3}
	c28StakeKeys = []int{5, 6}
	c28Unrelated = 7
)

func genLock(rt *rapid.T, label string, collateral bool) Lock {
	k := c28PayKeys[rapid.IntRange(0, len(c28PayKeys)-1).Draw(rt, label+"Key")]
	scriptH := refScriptHash(alwaysTrueScript)
	switch rapid.IntRange(0, 11).Draw(rt, label+"Kind") {
	case 0, 1, 2, 3:
		return Lock{Kind: LKey, Key: k}
	case 4:
		return Lock{Kind: LKeyBase, Key: k, Stake: c28StakeKeys[rapid.IntRange(0, 1).Draw(rt, label+"Stake")]}
	case 5:
		return Lock{Kind: LKeyStakeScr, Key: k, Script: scriptH}
	case 6:
		return Lock{Kind: LKeyPtr, Key: k}
	case 7:
		return Lock{Kind: LScript, Script: scriptH}
	case 8:
		// script payment credential with a KEY stake credential: the stake key is not the owner
		return Lock{Kind: LScriptKey, Script: scriptH, Key: k}
	default:
		return Lock{Kind: LByron, Byron: rapid.IntRange(0, nByron-1).Draw(rt, label+"Byron")}
	}
}

func genC28(rt *rapid.T, era Era) *c28Case {
	net := uint8(rapid.IntRange(0, 1).Draw(rt, "net"))
	tx := &TxSpec{Era: era, Net: net, OutKey: c28PayKeys[rapid.IntRange(0, 3).Draw(rt, "outKey")], Fee: 1_000_000, IsValid: true}
	c := &c28Case{Tx: tx, Slot: rapid.Uint64Range(0, 1<<32).Draw(rt, "slot")}
	if era >= Conway {
		tx.SetTag = rapid.Bool().Draw(rt, "setTag")
	}
	if era == Dijkstra {
		tx.ThreeElems = rapid.Bool().Draw(rt, "threeElems")
		tx.GuardCreds = rapid.Bool().Draw(rt, "guardCreds")
	}
	if era == Shelley {
		tx.TTL = u64p(c.Slot + 1000)
	} else if rapid.Bool().Draw(rt, "hasTTL") {
		tx.TTL = u64p(c.Slot + 1000)
	}
	nIn := rapid.IntRange(1, 4).Draw(rt, "nIn")
	seen := map[string]bool{}
	addIn := func(label string, collateral bool) (In, bool) {
		in := In{TxID: hash256([]byte{byte(rapid.IntRange(0, 5).Draw(rt, label+"Tx"))}), Ix: uint32(rapid.IntRange(0, 7).Draw(rt, label+"Ix")),
			Coin: rapid.Uint64Range(3_000_000, 50_000_000).Draw(rt, label+"Coin")}
		k := fmt.Sprintf("%x#%d", in.TxID, in.Ix)
		if seen[k] {
			return in, false
		}
		seen[k] = true
		in.Lock = genLock(rt, label, collateral)
		if rapid.IntRange(0, 19).Draw(rt, label+"Missing") == 0 {
			in.Missing = true
		}
		return in, true
	}
	for i := 0; i < nIn; i++ {
		if in, ok := addIn("in", false); ok {
			tx.Ins = append(tx.Ins, in)
		}
	}
	// the first input always resolves and pays the fee
	tx.Ins[0].Missing = false
	tx.Ins[0].Coin += 5_000_000
	if era >= Alonzo {
		for i, n := 0, rapid.IntRange(0, 2).Draw(rt, "nColl"); i < n; i++ {
			if in, ok := addIn("coll", true); ok {
				tx.Coll = append(tx.Coll, in)
			}
		}
		for i, n := 0, rapid.IntRange(0, 2).Draw(rt, "nReq"); i < n; i++ {
			var h [28]byte
			switch rapid.IntRange(0, 5).Draw(rt, "reqKind") {
			case 0:
				h = keys[c28Unrelated].hash
			case 1:
				h = hash224([]byte("nobody"))
			default:
				h = keys[c28PayKeys[rapid.IntRange(0, 3).Draw(rt, "reqKey")]].hash
			}
			dup := false
			for _, e := range tx.ReqSign {
				dup = dup || e == h
			}
			if !dup {
				tx.ReqSign = append(tx.ReqSign, h)
			}
		}
		if rapid.IntRange(0, 3).Draw(rt, "netid") == 0 {
			tx.NetID = &net
		}
	}
	for _, k := range c28StakeKeys {
		if rapid.IntRange(0, 3).Draw(rt, "wdrl") == 0 {
			tx.Wdrl = append(tx.Wdrl, Wd{Key: k, Amount: rapid.Uint64Range(0, 5_000_000).Draw(rt, "wdrlAmt")})
		}
	}
	// script witnesses for script-locked inputs (Alonzo+ checks their presence)
	for _, in := range tx.Ins {
		if !in.Missing && (in.Lock.Kind == LScript || in.Lock.Kind == LScriptKey) && len(tx.Natives) == 0 {
			tx.Natives = [][]byte{alwaysTrueScript}
		}
	}
	if rapid.IntRange(0, 3).Draw(rt, "restyleBody") == 0 {
		tx.BodyStyle = func(n *xcbor.Node) {
			if es := xcbor.Restyle(rt, n, xcbor.StyleOpts{MaxEdits: 2}); len(es) > 0 {
				c.Faults = append(c.Faults, "body-restyled")
			}
		}
	}
	return c
}

// witnessPlan fills tx.VKeys / tx.Boots: the witnesses the transaction needs,
// then a drawn number of faults (missing / corrupted / wrong-key / foreign-message
// signatures, broken bootstrap derivations) and unrelated extras.
func (c *c28Case) witnessPlan(rt *rapid.T, id [32]byte, body []byte) {
	tx := c.Tx
	needKeys := map[int]bool{}
	needByron := map[int]bool{}
	collect := func(ins []In) {
		for _, in := range ins {
			if in.Missing {
				continue
			}
			if in.Lock.keyLocked() {
				needKeys[in.Lock.Key] = true
			}
			if in.Lock.Kind == LByron {
				needByron[in.Lock.Byron] = true
			}
		}
	}
	collect(tx.Ins)
	if tx.Era >= Alonzo {
		collect(tx.Coll)
		for _, h := range tx.ReqSign {
			for k := range keys {
				if keys[k].hash == h {
					needKeys[k] = true
				}
			}
		}
	}
	for _, w := range tx.Wdrl {
		needKeys[w.Key] = true
	}
	var ks, bs []int
	for k := range needKeys {
		ks = append(ks, k)
	}
	for b := range needByron {
		bs = append(bs, b)
	}
	sort.Ints(ks)
	sort.Ints(bs)

	nFaults := [...]int{0, 0, 1, 1, 1, 2}[rapid.IntRange(0, 5).Draw(rt, "nFaults")]
	type slot struct {
		byron bool
		ix    int
	}
	var slots []slot
	for _, k := range ks {
		slots = append(slots, slot{false, k})
	}
	for _, b := range bs {
		slots = append(slots, slot{true, b})
	}
	faultAt := map[slot]bool{}
	for i := 0; i < nFaults && len(slots) > 0; i++ {
		faultAt[slots[rapid.IntRange(0, len(slots)-1).Draw(rt, "faultSlot")]] = true
	}
	otherID := hash256([]byte("some other transaction body"))
	// when the body is not in canonical form, the "other body" is its canonical
	// re-encoding: a validator that re-serialises the body would accept this
	if canon := canonical(xcbor.Raw(body)).Encode(); string(canon) != string(body) && rapid.Bool().Draw(rt, "otherIsCanonical") {
		otherID = hash256(canon)
		c.Faults = append(c.Faults, "other-body-is-canonical-reencoding")
	}
	for _, k := range ks {
		w := goodVKey(k, id)
		if faultAt[slot{false, k}] {
			switch rapid.IntRange(0, 6).Draw(rt, "vkeyFault") {
			case 0:
				c.Faults = append(c.Faults, "vkey-missing")
				continue
			case 1:
				w.Sig = flipBit(w.Sig, rapid.IntRange(0, 511).Draw(rt, "sigBit"))
				w.Note = "sig-bitflip"
			case 2:
				// the owner's key with a signature made by a different key
				w.Sig = goodVKey(c28Unrelated, id).Sig
				w.Note = "sig-by-other-key"
			case 3:
				// a valid signature of the owner over a DIFFERENT message
				w.Sig = goodVKey(k, otherID).Sig
				w.Note = "sig-over-other-body"
			case 4:
				// a different key (valid signature) takes the owner's place
				w = goodVKey(c28Unrelated, id)
				w.Note = "replaced-by-unrelated-valid"
			case 5:
				w.VKey = flipBit(w.VKey, rapid.IntRange(0, 255).Draw(rt, "vkeyBit"))
				w.Note = "vkey-bitflip"
			default:
				// signature over the body hash computed with a different hash width/domain
				h := hash224(id[:])
				w.Sig = ed25519.Sign(keys[k].priv, h[:])
				w.Note = "sig-over-wrong-digest"
			}
			c.Faults = append(c.Faults, "vkey-"+w.Note)
		}
		tx.VKeys = append(tx.VKeys, w)
	}
	for _, b := range bs {
		w := goodBoot(b, id)
		if faultAt[slot{true, b}] {
			switch rapid.IntRange(0, 6).Draw(rt, "bootFault") {
			case 0:
				c.Faults = append(c.Faults, "boot-missing")
				continue
			case 1:
				w.Sig = flipBit(w.Sig, rapid.IntRange(0, 511).Draw(rt, "bootSigBit"))
				w.Note = "sig-bitflip"
			case 2:
				// valid signature, chain code does not derive the address root
				w.CC = flipBit(w.CC, rapid.IntRange(0, 255).Draw(rt, "ccBit"))
				w.Note = "chaincode-bitflip"
			case 3:
				// valid signature, different attributes: derives another root
				w.Attrs = byronIDs[(b+1)%nByron].attrs
				if string(w.Attrs) == string(byronIDs[b].attrs) {
					w.Attrs = []byte{0xa1, 0x01, 0x41, 0x00}
				}
				w.Note = "attributes-changed"
			case 4:
				// a vkey witness of the Byron key instead of a bootstrap witness
				tx.VKeys = append(tx.VKeys, VKeyWit{VKey: w.Pub, Sig: w.Sig, Note: "byron-key-as-vkey"})
				c.Faults = append(c.Faults, "boot-replaced-by-vkey-witness")
				continue
			case 5:
				// another identity's valid bootstrap witness
				w = goodBoot((b+1)%nByron, id)
				w.Note = "other-identity"
			default:
				w.Sig = goodBoot(b, otherID).Sig
				w.Note = "sig-over-other-body"
			}
			c.Faults = append(c.Faults, "boot-"+w.Note)
		}
		tx.Boots = append(tx.Boots, w)
	}
	// unrelated extras
	switch rapid.IntRange(0, 7).Draw(rt, "extra") {
	case 0:
		tx.VKeys = append(tx.VKeys, goodVKey(c28Unrelated, id))
		c.Faults = append(c.Faults, "extra-valid-unrelated-vkey")
	case 1:
		w := goodVKey(c28Unrelated, id)
		w.Sig = flipBit(w.Sig, rapid.IntRange(0, 511).Draw(rt, "extraBit"))
		w.Note = "extra-invalid"
		tx.VKeys = append(tx.VKeys, w)
		c.Faults = append(c.Faults, "extra-invalid-unrelated-vkey")
	case 2:
		b := rapid.IntRange(0, nByron-1).Draw(rt, "extraBoot")
		if !needByron[b] {
			w := goodBoot(b, id)
			if rapid.Bool().Draw(rt, "extraBootBad") {
				w.Sig = flipBit(w.Sig, rapid.IntRange(0, 511).Draw(rt, "extraBootBit"))
				w.Note = "extra-invalid"
				c.Faults = append(c.Faults, "extra-invalid-unrelated-bootstrap")
			} else {
				c.Faults = append(c.Faults, "extra-valid-unrelated-bootstrap")
			}
			tx.Boots = append(tx.Boots, w)
		}
	}
	// order of the vkey witnesses is part of the input
	if len(tx.VKeys) > 1 && rapid.Bool().Draw(rt, "shuffle") {
		i := rapid.IntRange(0, len(tx.VKeys)-1).Draw(rt, "swapA")
		j := rapid.IntRange(0, len(tx.VKeys)-1).Draw(rt, "swapB")
		tx.VKeys[i], tx.VKeys[j] = tx.VKeys[j], tx.VKeys[i]
	}
}

func (c *c28Case) state() *State {
	tx := c.Tx
	st := newState(tx.Net)
	for _, set := range [][]In{tx.Ins, tx.Coll} {
		for _, in := range set {
			if err := st.addUtxo(tx.Era, in); err != nil {
				panic(fmt.Sprintf("harness: utxo entry not decodable: %v (%+v)", err, in))
			}
		}
	}
	for _, k := range c28StakeKeys {
		st.stakeReg[keys[k].hash] = true
		st.drepDeleg[keys[k].hash] = true
	}
	return st
}

func (c *c28Case) sample(raw []byte) map[string]any {
	tx := c.Tx
	var locks, coll []string
	for _, in := range sortIns(tx.Ins) {
		s := in.Lock.Kind.String()
		if in.Missing {
			s += "(unresolvable)"
		}
		locks = append(locks, s)
	}
	for _, in := range sortIns(tx.Coll) {
		s := in.Lock.Kind.String()
		if in.Missing {
			s += "(unresolvable)"
		}
		coll = append(coll, s)
	}
	var wn []string
	for _, w := range tx.VKeys {
		wn = append(wn, "vkey:"+w.Note)
	}
	for _, w := range tx.Boots {
		wn = append(wn, "bootstrap:"+w.Note)
	}
	return map[string]any{"era": tx.Era.String(), "inputs": locks, "collateral": coll, "required_signers": len(tx.ReqSign),
		"withdrawals": len(tx.Wdrl), "witnesses": wn, "faults": c.Faults, "tx_cbor": evi.Hex(raw)}
}

func TestC28(t *testing.T) {
	rec := evi.New(t, "C28", evi.Exploration,
		"signed transactions of every era (Shelley..Dijkstra) with 1-4 inputs and 0-2 collateral inputs locked by key (enterprise/base/pointer/script-stake), script, script+stake-key or Byron addresses (some unresolvable), required signers, withdrawals; witness sets = the needed vkey/bootstrap witnesses with 0-2 drawn faults (missing, signature bit flip, signature by another key, signature over another body / digest, owner replaced by unrelated valid witness, vkey bit flip, chain-code flip, changed attributes, Byron key as vkey witness, other identity) plus unrelated valid/invalid extras; oracle = implication 'signature + collateral-owner + required-signer rules accept (and: full rule list accepts) => every supplied signature verifies under crypto/ed25519 over blake2b-256(body bytes) and every key-/Byron-locked input, collateral input and required signer has a (vkey or root-deriving bootstrap) witness'; non-trivial = at least one fault or a non-plain lock/collateral/required signer; distinct by transaction bytes")
	defer rec.Finish()
	rec.Assume("crypto/ed25519, blake2b and sha3 from the Go libraries are trusted by both sides",
		"Byron address root = blake2b-224(sha3-256(cbor [0,[0,xpub],attrs])) per the Byron address specification",
		"one-directional oracle: rejections of transactions the reference accepts are counted (over_reject_*), not flagged")

	rec.Check(func(rt *rapid.T) {
		era := allEras[rapid.IntRange(0, len(allEras)-1).Draw(rt, "era")]
		c := genC28(rt, era)
		tx := c.Tx
		body := tx.BodyBytes()
		id := hash256(body)
		c.witnessPlan(rt, id, body)
		if rapid.IntRange(0, 3).Draw(rt, "restyleWits") == 0 {
			tx.WitStyle = func(n *xcbor.Node) {
				if es := xcbor.Restyle(rt, n, xcbor.StyleOpts{MaxEdits: 2}); len(es) > 0 {
					c.Faults = append(c.Faults, "witness-set-restyled")
				}
			}
		}
		raw, _ := tx.Assemble(body)
		ref := c28Reference(tx, body)
		ltx, err := decodeTx(era, raw)
		if err != nil {
			rec.Class("decode_rejected")
			return
		}
		st := c.state()
		pp := defaultParams(era).forEra(era)
		rules := sigRulesFor(era)

		rec.Class("era_" + era.String())
		for _, f := range c.Faults {
			rec.Class("fault_" + f)
		}
		for _, in := range tx.Ins {
			rec.Class("input_lock_" + in.Lock.Kind.String())
		}
		for _, in := range tx.Coll {
			rec.Class("collateral_lock_" + in.Lock.Kind.String())
		}
		if len(tx.ReqSign) > 0 {
			rec.Class("has_required_signers")
		}
		if ref.ok() {
			rec.Class("reference_holds")
		} else {
			rec.Class("reference_fails")
		}

		// runRules: (a) the rules that implement the statement, (b) the complete rule list
		ruleNames := []string{era.String() + ".UtxoValidateSignatures", era.String() + ".UtxoValidateRequiredVKeyWitnesses",
			era.String() + ".UtxoValidateCollateralVKeyWitnesses", "VerifyTransaction(" + era.String() + ".UtxoValidationRules)"}
		runRules := func(t common.Transaction, s *State, p common.ProtocolParameters) []error {
			errs := make([]error, 4)
			errs[0] = rules.sig(t, c.Slot, s, p)
			errs[1] = rules.req(t, c.Slot, s, p)
			if rules.coll != nil {
				errs[2] = rules.coll(t, c.Slot, s, p)
			}
			errs[3] = common.VerifyTransaction(t, c.Slot, s, p, rulesFor(era))
			return errs
		}
		pfail := func(key, what string) bool { return rec.Fail(rt, key, what, c.sample(raw)) }

		// transaction B for the history check: A's witnesses under another body, or
		// A's signatures under other vkeys. It is validated FRESH first (own decoded
		// object, own state, own parameters), before A was ever validated.
		b := c.variantB(rt, body)
		var bFresh []string
		var ltxB common.Transaction
		if b != nil {
			if t0, err := decodeTx(era, b.raw); err == nil {
				bFresh = verdictsOf(runRules(t0, c.state(), defaultParams(era).forEra(era)))
				ltxB, _ = decodeTx(era, b.raw)
			}
		}

		// A: twice on the same object (purity + repeatability)
		errsA := pureRun(pfail, "C28", era.String(), ltx, ruleNames, func() []error { return runRules(ltx, st, pp) })
		errSig, errReq, errColl, errFull := errsA[0], errsA[1], errsA[2], errsA[3]
		accept := errSig == nil && errReq == nil && errColl == nil
		rec.EvalN(2)

		nontrivial := len(c.Faults) > 0 || len(tx.Coll) > 0 || len(tx.ReqSign) > 0
		for _, in := range tx.Ins {
			if in.Lock.Kind != LKey {
				nontrivial = true
			}
		}
		if nontrivial {
			rec.NonTrivial(fmt.Sprintf("%s %x", era, hash256(raw)), c.sample(raw))
		}

		var judgeOn func(entry string, tx *TxSpec, ref *c28Ref, raw []byte)
		judge := func(entry string) { judgeOn(entry, tx, ref, raw) }
		judgeOn = func(entry string, tx *TxSpec, ref *c28Ref, raw []byte) {
			cs := c.sample(raw)
			cs["entry"] = entry
			cs["reference"] = ref
			site := era.String()
			for _, i := range ref.BadVKeySigs {
				rec.Fail(rt, "C28:"+site+":accepted-invalid-vkey-signature:"+tx.VKeys[i].Note,
					fmt.Sprintf("%s accepts although vkey witness #%d (%s) does not verify against blake2b-256(body)", entry, i, tx.VKeys[i].Note), cs)
			}
			for _, i := range ref.BadBootSigs {
				rec.Fail(rt, "C28:"+site+":accepted-invalid-bootstrap-signature:"+tx.Boots[i].Note,
					fmt.Sprintf("%s accepts although bootstrap witness #%d (%s) does not verify against blake2b-256(body)", entry, i, tx.Boots[i].Note), cs)
			}
			for _, u := range ref.UnwitnessedInputs {
				rec.Fail(rt, "C28:"+site+":accepted-unwitnessed-input-owner:"+u[strings.Index(u, ":")+1:],
					fmt.Sprintf("%s accepts although %s has no witness of its owner (faults %v)", entry, u, c.Faults), cs)
			}
			for _, u := range ref.UnwitnessedColl {
				rec.Fail(rt, "C28:"+site+":accepted-unwitnessed-collateral-owner:"+u[strings.Index(u, ":")+1:],
					fmt.Sprintf("%s accepts although %s is not owned by a witnessed key (faults %v)", entry, u, c.Faults), cs)
			}
			for _, u := range ref.UnwitnessedReq {
				rec.Fail(rt, "C28:"+site+":accepted-unwitnessed-required-signer",
					fmt.Sprintf("%s accepts although %s has no witness (faults %v)", entry, u, c.Faults), cs)
			}
		}
		if accept {
			rec.Class("rules_accept")
			if !ref.ok() {
				judge("signature+required-signer+collateral rules")
			}
		} else {
			rec.Class("rules_reject")
			if ref.ok() && len(ref.UnwitnessedWdrl) == 0 {
				first := errSig
				if first == nil {
					first = errReq
				}
				if first == nil {
					first = errColl
				}
				rec.Class("over_reject_rules:" + errClass(first))
			}
		}
		if errFull == nil {
			rec.Class("full_list_accepts")
			if !ref.ok() {
				judge("VerifyTransaction(" + era.String() + ".UtxoValidationRules)")
			}
		} else {
			rec.Class("full_list_rejects")
			if ref.ok() && len(ref.UnwitnessedWdrl) == 0 {
				rec.Class("over_reject_full:" + errClass(errFull))
			}
		}

		// ---- history: A, then B, then A again on the same state / parameter objects -------
		if ltxB != nil {
			rec.Class("history_B_" + b.kind)
			errsB := runRules(ltxB, st, pp)
			rec.Eval()
			vB := verdictsOf(errsB)
			for i := range vB {
				if vB[i] != bFresh[i] {
					rec.Fail(rt, "C28:"+era.String()+":verdict-depends-on-history",
						fmt.Sprintf("%s of transaction B (%s): %s on a fresh setup, %s after transaction A was validated on the same state/parameters", ruleNames[i], b.kind, bFresh[i], vB[i]),
						map[string]any{"tx_a": evi.Hex(raw), "tx_b": evi.Hex(b.raw), "kind": b.kind})
				}
			}
			if !b.ref.ok() {
				if errsB[0] == nil && errsB[1] == nil && errsB[2] == nil {
					judgeOn("signature+required-signer+collateral rules (transaction B="+b.kind+", validated after A)", b.spec, b.ref, b.raw)
				}
				if errsB[3] == nil {
					judgeOn("VerifyTransaction (transaction B="+b.kind+", validated after A)", b.spec, b.ref, b.raw)
				}
			}
			vA1 := verdictsOf(errsA)
			vA3 := verdictsOf(runRules(ltx, st, pp))
			rec.Eval()
			for i := range vA1 {
				if vA1[i] != vA3[i] {
					rec.Fail(rt, "C28:"+era.String()+":verdict-depends-on-history",
						fmt.Sprintf("%s of transaction A: %s at first, %s after transaction B (%s) was validated in between", ruleNames[i], vA1[i], vA3[i], b.kind),
						map[string]any{"tx_a": evi.Hex(raw), "tx_b": evi.Hex(b.raw), "kind": b.kind})
				}
			}
		}
	})
}

// c28B is the second transaction of the history check.
type c28B struct {
	kind string
	spec *TxSpec
	raw  []byte
	ref  *c28Ref
}

// variantB derives transaction B from A: either a different body (fee + 1) that
// carries A's witnesses unchanged, or A's body with A's signatures attached to
// other verification keys.
func (c *c28Case) variantB(rt *rapid.T, bodyA []byte) *c28B {
	a := c.Tx
	if len(a.VKeys)+len(a.Boots) == 0 {
		return nil
	}
	bs := *a
	bs.BodyStyle, bs.WitStyle = nil, nil
	bs.VKeys = append([]VKeyWit(nil), a.VKeys...)
	bs.Boots = append([]BootWit(nil), a.Boots...)
	b := &c28B{spec: &bs}
	var body []byte
	if len(a.VKeys) == 0 || rapid.Bool().Draw(rt, "historyTransplant") {
		b.kind = "witnesses-of-A-under-another-body"
		bs.Fee = a.Fee + 1
		body = bs.BodyBytes()
		for i := range bs.VKeys {
			bs.VKeys[i].Note = "transplanted-from-A:" + bs.VKeys[i].Note
		}
		for i := range bs.Boots {
			bs.Boots[i].Note = "transplanted-from-A:" + bs.Boots[i].Note
		}
	} else {
		b.kind = "signatures-of-A-under-other-vkeys"
		body = bodyA
		n := len(bs.VKeys)
		for i := range bs.VKeys {
			other := a.VKeys[(i+1)%n].VKey
			if n == 1 || string(other) == string(a.VKeys[i].VKey) {
				other = keys[c28Unrelated].pub
				if string(other) == string(a.VKeys[i].VKey) {
					other = keys[payerKey].pub
				}
			}
			bs.VKeys[i] = VKeyWit{VKey: append([]byte{}, other...), Sig: a.VKeys[i].Sig, Note: "signature-of-A-under-other-vkey"}
		}
	}
	b.raw, _ = bs.Assemble(body)
	b.ref = c28Reference(&bs, body)
	return b
}
