package rules3

import (
	"regexp"
	"strings"
)

var (
	reHex = regexp.MustCompile(`[0-9a-fA-F]{8,}`)
	reNum = regexp.MustCompile(`-?[0-9]+`)
)

// errClass turns an error into a short class label without the concrete
// numbers / hashes, for the evidence distribution counters.
func errClass(err error) string {
	if err == nil {
		return "nil"
	}
	s := err.Error()
	s = strings.TrimPrefix(s, "transaction: transaction validation failed ")
	s = reHex.ReplaceAllString(s, "H")
	s = reNum.ReplaceAllString(s, "N")
	if len(s) > 70 {
		s = s[:70]
	}
	return s
}
