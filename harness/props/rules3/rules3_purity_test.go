package rules3

// Rule purity / repeatability helpers shared by C28, C29 and C31: a validation
// rule's verdict is a function of (transaction, slot, ledger state, protocol
// parameters) - never of what was validated before - and validating must not
// change the transaction, the parameters or the maps handed in.

import (
	"errors"
	"fmt"
	"sort"
	"strings"

	"github.com/blinklabs-io/gouroboros/cbor"
	"github.com/blinklabs-io/gouroboros/ledger/common"
)

// txSnap is the observable state of a decoded transaction, field -> rendering.
type txSnap struct {
	names []string
	vals  map[string]string
}

func (s *txSnap) put(name, v string) {
	s.names = append(s.names, name)
	s.vals[name] = v
}

func hexs(b []byte) string { return fmt.Sprintf("%x", b) }

// snapshotTx renders everything a caller can observe of a decoded transaction
// through the common.Transaction interface. Only deterministic accessors are
// used (maps are rendered sorted).
func snapshotTx(tx common.Transaction) *txSnap {
	s := &txSnap{vals: map[string]string{}}
	s.put("cbor", hexs(tx.Cbor()))
	if b, err := cbor.Encode(tx); err == nil {
		s.put("re-encoding", hexs(b))
	} else {
		s.put("re-encoding", "error")
	}
	h := tx.Hash()
	s.put("hash", hexs(h[:]))
	id := tx.Id()
	s.put("id", hexs(id[:]))
	s.put("is-valid", fmt.Sprint(tx.IsValid()))
	s.put("fee", fmt.Sprint(tx.Fee()))
	s.put("ttl", fmt.Sprint(tx.TTL()))
	s.put("validity-start", fmt.Sprint(tx.ValidityIntervalStart()))
	if h := tx.ScriptDataHash(); h != nil {
		s.put("script-data-hash", hexs(h[:]))
	} else {
		s.put("script-data-hash", "absent")
	}
	ins := func(name string, l []common.TransactionInput) {
		var p []string
		for _, i := range l {
			p = append(p, i.String())
		}
		s.put(name, strings.Join(p, ","))
	}
	ins("inputs", tx.Inputs())
	ins("collateral", tx.Collateral())
	ins("reference-inputs", tx.ReferenceInputs())
	out := func(o common.TransactionOutput) string {
		if o == nil {
			return "nil"
		}
		a := o.Address()
		ab, _ := a.Bytes()
		r := fmt.Sprintf("addr=%x coin=%v cbor=%x", ab, o.Amount(), o.Cbor())
		if as := o.Assets(); as != nil {
			if b, err := cbor.Encode(as); err == nil {
				r += " assets=" + hexs(b)
			}
		}
		return r
	}
	var outs []string
	for _, o := range tx.Outputs() {
		outs = append(outs, out(o))
	}
	s.put("outputs", strings.Join(outs, ";"))
	var prod []string
	for _, u := range tx.Produced() {
		prod = append(prod, u.Id.String()+"->"+out(u.Output))
	}
	s.put("produced", strings.Join(prod, ";"))
	s.put("collateral-return", out(tx.CollateralReturn()))
	var rs []string
	for _, r := range tx.RequiredSigners() { // order is observable
		rs = append(rs, hexs(r[:]))
	}
	s.put("required-signers", strings.Join(rs, ","))
	var wd []string
	for a, v := range tx.Withdrawals() {
		ab, _ := a.Bytes()
		wd = append(wd, fmt.Sprintf("%x=%v", ab, v))
	}
	sort.Strings(wd)
	s.put("withdrawals", strings.Join(wd, ","))
	if m := tx.AssetMint(); m != nil {
		if b, err := cbor.Encode(m); err == nil {
			s.put("mint", hexs(b))
		}
	}
	if w := tx.Witnesses(); w != nil {
		var vk, bw, ns []string
		for _, v := range w.Vkey() {
			vk = append(vk, hexs(v.Vkey)+"/"+hexs(v.Signature))
		}
		for _, b := range w.Bootstrap() {
			bw = append(bw, hexs(b.PublicKey)+"/"+hexs(b.Signature)+"/"+hexs(b.ChainCode)+"/"+hexs(b.Attributes))
		}
		for _, n := range w.NativeScripts() {
			h := n.Hash()
			ns = append(ns, hexs(n.Cbor())+"#"+hexs(h[:]))
		}
		s.put("vkey-witnesses", fmt.Sprintf("%d:%s", len(vk), strings.Join(vk, ",")))
		s.put("bootstrap-witnesses", fmt.Sprintf("%d:%s", len(bw), strings.Join(bw, ",")))
		s.put("native-scripts", fmt.Sprintf("%d:%s", len(ns), strings.Join(ns, ",")))
		var ps []string
		for _, p := range w.PlutusV1Scripts() {
			ps = append(ps, "v1:"+hexs(p))
		}
		for _, p := range w.PlutusV2Scripts() {
			ps = append(ps, "v2:"+hexs(p))
		}
		for _, p := range w.PlutusV3Scripts() {
			ps = append(ps, "v3:"+hexs(p))
		}
		for _, p := range common.PlutusV4ScriptsFromWitnessSet(w) {
			ps = append(ps, "v4:"+hexs(p))
		}
		s.put("plutus-scripts", fmt.Sprintf("%d:%s", len(ps), strings.Join(ps, ",")))
		var ds []string
		for _, d := range w.PlutusData() {
			ds = append(ds, hexs(d.Cbor()))
		}
		s.put("datums", fmt.Sprintf("%d:%s", len(ds), strings.Join(ds, ",")))
		var rd []string
		if r := w.Redeemers(); r != nil {
			for k, v := range r.Iter() {
				rd = append(rd, fmt.Sprintf("%d/%d=%x[%d,%d]", k.Tag, k.Index, v.Data.Cbor(), v.ExUnits.Memory, v.ExUnits.Steps))
			}
		}
		s.put("redeemers", fmt.Sprintf("%d:%s", len(rd), strings.Join(rd, ",")))
	}
	return s
}

// diff returns the names of the fields that differ.
func (s *txSnap) diff(o *txSnap) []string {
	var d []string
	for _, n := range s.names {
		if s.vals[n] != o.vals[n] {
			d = append(d, n)
		}
	}
	return d
}

// snapCostModels renders cost-model tables deterministically.
func snapCostModels(cm map[uint][]int64) string {
	var ks []int
	for k := range cm {
		ks = append(ks, int(k))
	}
	sort.Ints(ks)
	var p []string
	for _, k := range ks {
		p = append(p, fmt.Sprintf("%d:%v", k, cm[uint(k)]))
	}
	return strings.Join(p, ";")
}

// verdictOf abstracts an error into accept / reject + the chain of error types
// (messages may legitimately render map contents in varying order).
func verdictOf(err error) string {
	if err == nil {
		return "accept"
	}
	var ts []string
	for e := err; e != nil; e = errors.Unwrap(e) {
		ts = append(ts, fmt.Sprintf("%T", e))
	}
	return "reject:" + strings.Join(ts, "<")
}

func verdictsOf(errs []error) []string {
	out := make([]string, len(errs))
	for i, e := range errs {
		out[i] = verdictOf(e)
	}
	return out
}

// pureRun runs the rules twice on the same transaction object and checks that
// (1) the transaction's observable state is unchanged after each run, and
// (2) the second run gives the same verdicts. It returns the errors of the
// first run. names[i] labels run()[i].
func pureRun(fail func(key, what string) bool, prop, era string, tx common.Transaction, names []string, run func() []error) []error {
	before := snapshotTx(tx)
	first := run()
	after := snapshotTx(tx)
	if d := before.diff(after); len(d) > 0 {
		for _, f := range d {
			fail(fmt.Sprintf("%s:%s:rule-mutates-tx:%s", prop, era, f),
				fmt.Sprintf("validating changed the transaction's %s: before %s, after %s (rules run: %v)", f, clipS(before.vals[f]), clipS(after.vals[f]), names))
		}
	}
	second := run()
	v1, v2 := verdictsOf(first), verdictsOf(second)
	for i := range v1 {
		if v1[i] != v2[i] {
			fail(fmt.Sprintf("%s:%s:second-run-verdict-differs", prop, era),
				fmt.Sprintf("%s on the same transaction, state and parameters: first run %s (%v), second run %s (%v)", names[i], v1[i], first[i], v2[i], second[i]))
		}
	}
	if d := after.diff(snapshotTx(tx)); len(d) > 0 {
		for _, f := range d {
			fail(fmt.Sprintf("%s:%s:rule-mutates-tx:%s", prop, era, f), fmt.Sprintf("the second validation run changed the transaction's %s", f))
		}
	}
	return first
}

func clipS(s string) string {
	if len(s) > 300 {
		return s[:300] + "..."
	}
	return s
}
