package rules3

import (
	"bytes"
	"errors"
	"fmt"
	"sort"
	"strings"
	"testing"

	"github.com/blinklabs-io/gouroboros/ledger/alonzo"
	"github.com/blinklabs-io/gouroboros/ledger/babbage"
	"github.com/blinklabs-io/gouroboros/ledger/common"
	"github.com/blinklabs-io/gouroboros/ledger/conway"
	"github.com/blinklabs-io/gouroboros/ledger/dijkstra"
	"pgregory.net/rapid"

	"verif/harness/internal/evi"
	"verif/harness/internal/xcbor"
)

var plutusEras = []Era{Alonzo, Babbage, Conway, Dijkstra}

func scriptDataHashRule(era Era) common.UtxoValidationRuleFunc {
	switch era {
	case Alonzo:
		return alonzo.UtxoValidateScriptDataHash
	case Babbage:
		return babbage.UtxoValidateScriptDataHash
	case Conway:
		return conway.UtxoValidateScriptDataHash
	case Dijkstra:
		return dijkstra.UtxoValidateScriptDataHash
	}
	panic("era")
}

// maxLang is the newest Plutus language (1 = V1) of an era.
func maxLang(era Era) int { return map[Era]int{Alonzo: 1, Babbage: 2, Conway: 3, Dijkstra: 4}[era] }

type scriptRole int

const (
	roleWitNeeded    scriptRole = iota // locks a spent input, script in the witness set
	roleRefNeeded                      // locks a spent input, script on a reference input (Babbage+)
	roleRefInert                       // only sits on a reference input; nothing needs it
	roleSpentInert                     // only sits as script_ref on a spent key-locked input
	roleWitUnneeded                    // in the witness set, nothing needs it (extraneous)
)

func (r scriptRole) String() string {
	return [...]string{"witness-needed", "reference-needed", "reference-input-unused", "spent-input-scriptref-unused", "witness-unneeded"}[r]
}

type pScript struct {
	Lang  int // 1..4
	Bytes []byte
	Role  scriptRole
	NoRdm bool // needed but deliberately without a redeemer
}

func (p pScript) hash() [28]byte { return hash224(append([]byte{byte(p.Lang)}, p.Bytes...)) }

type c31Case struct {
	Era        Era
	Scripts    []pScript
	Redeemers  []Redeemer // filled by layout()
	RdmMap     bool       // map form (Conway+)
	RdmExplEmp bool       // explicit empty redeemers field (Alonzo/Babbage)
	RdmStyled  *xcbor.Node
	RdmDup     string // "" | same-value | different-value: the map carries a duplicated (tag,index) key
	NDatums    int // -1 = no datums field
	Datums     *xcbor.Node
	CM         map[uint][]int64
	SetTag     bool
	Three      bool
	IsValid    bool
	tx         *TxSpec
}

// layout fixes inputs, reference inputs, witness scripts and redeemers.
func (c *c31Case) layout(rt *rapid.T) {
	tx := &TxSpec{Era: c.Era, Net: 0, OutKey: payerKey, Fee: 1_000_000, IsValid: c.IsValid, SetTag: c.SetTag, ThreeElems: c.Three}
	c.tx = tx
	tx.Ins = append(tx.Ins, In{TxID: hash256([]byte("c31/payer")), Ix: 0, Lock: Lock{Kind: LKey, Key: payerKey}, Coin: 20_000_000})
	inWit := map[string]bool{}
	for i, s := range c.Scripts {
		id := hash256([]byte(fmt.Sprintf("c31/script/%d", i)))
		switch s.Role {
		case roleWitNeeded, roleRefNeeded:
			tx.Ins = append(tx.Ins, In{TxID: id, Ix: uint32(i), Lock: Lock{Kind: LScript, Script: s.hash()}, Coin: 5_000_000})
		}
		switch s.Role {
		case roleWitNeeded, roleWitUnneeded:
			k := fmt.Sprintf("%d/%x", s.Lang, s.Bytes)
			if !inWit[k] {
				inWit[k] = true
				tx.Plutus[s.Lang] = append(tx.Plutus[s.Lang], s.Bytes)
			}
		case roleRefNeeded, roleRefInert:
			tx.RefIns = append(tx.RefIns, In{TxID: hash256([]byte(fmt.Sprintf("c31/ref/%d", i))), Ix: 0, Lock: Lock{Kind: LKey, Key: 1},
				Coin: 3_000_000, RefScript: &RefScript{Lang: s.Lang, Bytes: s.Bytes}})
		case roleSpentInert:
			tx.Ins = append(tx.Ins, In{TxID: id, Ix: uint32(i), Lock: Lock{Kind: LKey, Key: payerKey}, Coin: 4_000_000,
				RefScript: &RefScript{Lang: s.Lang, Bytes: s.Bytes}})
		}
	}
	// redeemers: one spending redeemer per needed script, pointing at the
	// position of its input in the (sorted) input set
	sorted := sortIns(tx.Ins)
	for _, s := range c.Scripts {
		if (s.Role != roleWitNeeded && s.Role != roleRefNeeded) || s.NoRdm {
			continue
		}
		h := s.hash()
		for ix, in := range sorted {
			if in.Lock.Kind == LScript && in.Lock.Script == h {
				dup := false
				for _, r := range c.Redeemers {
					dup = dup || r.Index == uint64(ix)
				}
				if !dup {
					c.Redeemers = append(c.Redeemers, Redeemer{Tag: 0, Index: uint64(ix), Data: genPlutusData(rt, 2),
						Mem: rapid.Uint64Range(0, 2_000_000).Draw(rt, "mem"), Steps: rapid.Uint64Range(0, 900_000_000).Draw(rt, "steps")})
				}
			}
		}
	}
}

// usedLanguages: the languages (0-based ids) of the Plutus scripts that are
// both needed (lock a spent input) and provided (witness set, or a script
// reference on a spent / reference input from Babbage on).
func (c *c31Case) usedLanguages() (used, allProvided []uint) {
	needed := map[[28]byte]bool{}
	for _, in := range c.tx.Ins {
		if in.Lock.Kind == LScript {
			needed[in.Lock.Script] = true
		}
	}
	u, a := map[uint]bool{}, map[uint]bool{}
	for _, s := range c.Scripts {
		a[uint(s.Lang-1)] = true
		if needed[s.hash()] {
			u[uint(s.Lang-1)] = true
		}
	}
	for l := range u {
		used = append(used, l)
	}
	for l := range a {
		allProvided = append(allProvided, l)
	}
	sort.Slice(used, func(i, j int) bool { return used[i] < used[j] })
	sort.Slice(allProvided, func(i, j int) bool { return allProvided[i] < allProvided[j] })
	return
}

// assemble builds the transaction bytes for a declared hash (nil = none).
func (c *c31Case) assemble(declared []byte) []byte {
	tx := c.tx
	tx.ScriptDataHash = declared
	tx.RedeemersRaw, tx.DatumsRaw = nil, nil
	if c.RdmStyled != nil {
		tx.RedeemersRaw = c.RdmStyled.Encode()
	}
	if c.Datums != nil {
		tx.DatumsRaw = c.Datums.Encode()
	}
	body := tx.BodyBytes()
	tx.VKeys = []VKeyWit{goodVKey(payerKey, hash256(body)), goodVKey(1, hash256(body))}
	raw, _ := tx.Assemble(body)
	return raw
}

func (c *c31Case) state() *State {
	st := newState(c.tx.Net)
	for _, set := range [][]In{c.tx.Ins, c.tx.RefIns} {
		for _, in := range set {
			if err := st.addUtxo(c.Era, in); err != nil {
				panic(fmt.Sprintf("harness: utxo entry not decodable: %v", err))
			}
		}
	}
	return st
}

// originalWitnessField returns the exact bytes of the value of a witness-set
// key inside the transaction bytes (nil if the key is absent).
func originalWitnessField(raw []byte, key uint64) []byte {
	top, err := xcbor.ParseExact(raw)
	if err != nil || top.Kind != xcbor.Array || len(top.Items) < 2 {
		panic("harness: own transaction does not parse")
	}
	v := top.Items[1].MapGet(key)
	if v == nil {
		return nil
	}
	return raw[v.Start:v.End]
}

func genCostModels(rt *rapid.T, era Era) map[uint][]int64 {
	cm := map[uint][]int64{}
	for l := 0; l < 4; l++ {
		p := 17
		if l >= maxLang(era) {
			p = 4 // languages the era does not have yet: rarely configured
		}
		if rapid.IntRange(0, 19).Draw(rt, "cmPresent") >= p {
			continue
		}
		n := rapid.IntRange(1, 12).Draw(rt, "cmLen")
		switch rapid.IntRange(0, 9).Draw(rt, "cmLenClass") {
		case 0:
			n = []int{166, 175, 251, 297}[l]
		case 1:
			n = 24 + rapid.IntRange(0, 3).Draw(rt, "cmLen24") // list head changes form at 24
		}
		ps := make([]int64, n)
		for i := range ps {
			switch rapid.IntRange(0, 4).Draw(rt, "cmVal") {
			case 0:
				ps[i] = int64(rapid.IntRange(0, 23).Draw(rt, "cmSmall"))
			case 1:
				ps[i] = -int64(rapid.IntRange(1, 1000).Draw(rt, "cmNeg"))
			case 2:
				ps[i] = rapid.Int64().Draw(rt, "cmAny")
			default:
				ps[i] = int64(rapid.IntRange(24, 5_000_000).Draw(rt, "cmTyp"))
			}
		}
		cm[uint(l)] = ps
	}
	return cm
}

func genC31(rt *rapid.T) *c31Case {
	era := plutusEras[rapid.IntRange(0, len(plutusEras)-1).Draw(rt, "era")]
	c := &c31Case{Era: era, IsValid: rapid.IntRange(0, 9).Draw(rt, "isValid") != 0, NDatums: -1}
	if era >= Conway {
		c.SetTag = rapid.Bool().Draw(rt, "setTag")
	}
	if era == Dijkstra {
		c.Three = rapid.Bool().Draw(rt, "three")
	}
	c.CM = genCostModels(rt, era)
	nScripts := [...]int{0, 1, 1, 2, 2, 3, 3, 4}[rapid.IntRange(0, 7).Draw(rt, "nScripts")]
	for i := 0; i < nScripts; i++ {
		s := pScript{Lang: rapid.IntRange(1, maxLang(era)).Draw(rt, "lang")}
		s.Bytes = append([]byte{0x01, 0x00, 0x00, byte(i)}, rapid.SliceOfN(rapid.Byte(), 2, 12).Draw(rt, "scriptBytes")...)
		roles := []scriptRole{roleWitNeeded, roleWitNeeded, roleWitNeeded}
		if era >= Babbage {
			roles = append(roles, roleRefNeeded, roleRefNeeded, roleRefInert, roleRefInert, roleSpentInert)
		}
		if rapid.IntRange(0, 9).Draw(rt, "unneededWitness") == 0 {
			roles = []scriptRole{roleWitUnneeded}
		}
		s.Role = roles[rapid.IntRange(0, len(roles)-1).Draw(rt, "role")]
		s.NoRdm = rapid.IntRange(0, 14).Draw(rt, "noRedeemer") == 0
		c.Scripts = append(c.Scripts, s)
	}
	c.layout(rt)
	// redeemers container
	switch {
	case era == Dijkstra:
		c.RdmMap = true
	case era == Conway:
		c.RdmMap = rapid.Bool().Draw(rt, "rdmMap")
	}
	if len(c.Redeemers) > 0 {
		if c.RdmMap && len(c.Redeemers) > 1 && rapid.Bool().Draw(rt, "rdmReverse") {
			for i, j := 0, len(c.Redeemers)-1; i < j; i, j = i+1, j-1 {
				c.Redeemers[i], c.Redeemers[j] = c.Redeemers[j], c.Redeemers[i]
			}
		}
		entries := c.Redeemers
		if c.RdmMap && rapid.IntRange(0, 3).Draw(rt, "rdmDuplicateKey") == 0 {
			// a duplicated (tag, index) key: cardano-node decodes the map last-wins
			src := rapid.IntRange(0, len(entries)-1).Draw(rt, "dupSrc")
			d := entries[src]
			if rapid.Bool().Draw(rt, "dupOtherValue") {
				d.Data = genPlutusData(rt, 1)
				d.Mem, d.Steps = d.Mem+1, d.Steps+7
				c.RdmDup = "different-value"
			} else {
				c.RdmDup = "same-value"
			}
			at := rapid.IntRange(0, len(entries)).Draw(rt, "dupAt")
			entries = append(append(append([]Redeemer{}, entries[:at]...), d), entries[at:]...)
		}
		c.RdmStyled = redeemersNode(entries, c.RdmMap)
		if c.RdmMap && rapid.IntRange(0, 3).Draw(rt, "rdmIndefMap") == 0 {
			c.RdmStyled.Indef = true
		}
	} else if era <= Babbage && rapid.IntRange(0, 5).Draw(rt, "rdmExplicitEmpty") == 0 {
		c.RdmExplEmp = true
		c.RdmStyled = xcbor.A()
		if rapid.Bool().Draw(rt, "rdmEmptyIndef") {
			c.RdmStyled.Indef = true
		}
	}
	if c.RdmStyled != nil && rapid.IntRange(0, 2).Draw(rt, "rdmRestyle") == 0 {
		xcbor.Restyle(rt, c.RdmStyled, xcbor.StyleOpts{MaxEdits: 3})
	}
	// datums
	switch rapid.IntRange(0, 9).Draw(rt, "datumClass") {
	case 0, 1, 2:
		// none
	case 3:
		if era <= Babbage {
			c.NDatums = 0
			c.Datums = xcbor.A()
		}
	default:
		c.NDatums = rapid.IntRange(1, 3).Draw(rt, "nDatums")
		var it []*xcbor.Node
		seen := map[string]bool{}
		for i := 0; i < c.NDatums; i++ {
			d := genPlutusData(rt, 2)
			if k := string(d.Encode()); seen[k] {
				continue
			} else {
				seen[k] = true
			}
			it = append(it, d)
		}
		c.NDatums = len(it)
		c.Datums = xcbor.A(it...)
		if rapid.Bool().Draw(rt, "datumsIndef") {
			c.Datums.Indef = true
		}
		if rapid.IntRange(0, 2).Draw(rt, "datumRestyle") == 0 {
			xcbor.Restyle(rt, c.Datums, xcbor.StyleOpts{MaxEdits: 3})
		}
		if c.SetTag {
			c.Datums = xcbor.Tg(258, c.Datums)
		}
	}
	return c
}

// canonical returns the tree re-encoded with minimal definite heads everywhere
// (what a decoder that re-serialises would hash).
func canonical(n *xcbor.Node) *xcbor.Node {
	c := n.Clone()
	c.Walk(func(x *xcbor.Node) {
		if x.Kind == xcbor.Simple {
			return
		}
		if x.Indef && (x.Kind == xcbor.Bytes || x.Kind == xcbor.Text) {
			x.Data = x.Payload()
			x.Items = nil
		}
		x.Indef = false
		x.Width = 0
		x.Apply(xcbor.FormMinimal, 0)
	})
	return c
}

func h256(b []byte) []byte { h := hash256(b); return h[:] }

func (c *c31Case) sample(raw []byte, variant string) map[string]any {
	var ss []string
	for _, s := range c.Scripts {
		ss = append(ss, fmt.Sprintf("PlutusV%d:%s", s.Lang, s.Role))
	}
	var cms []string
	for l := uint(0); l < 4; l++ {
		if p, ok := c.CM[l]; ok {
			cms = append(cms, fmt.Sprintf("V%d:%d params", l+1, len(p)))
		}
	}
	form := "none"
	if c.RdmStyled != nil {
		form = "list"
		if c.RdmMap {
			form = "map"
		}
	}
	return map[string]any{"era": c.Era.String(), "scripts": ss, "redeemers": len(c.Redeemers), "redeemer_form": form,
		"datums": c.NDatums, "cost_models": cms, "declared": variant, "tx_cbor": evi.Hex(raw)}
}

func TestC31(t *testing.T) {
	rec := evi.New(t, "C31", evi.Exploration,
		"Alonzo..Dijkstra transactions with 0-3 opaque Plutus V1..V4 scripts (needed+witness, needed+reference input, unused on a reference / spent input, unneeded witness), spending redeemers in list or map form (also none / explicitly empty), datum sets absent / empty / 1-3 items (plain or #6.258), non-canonical re-stylings of redeemers and datums, random cost-model tables for any subset of languages; declared hash = correct | absent | one of ~12 plausible wrong preimages | random | fed back from the library's own computation; oracles: EncodeLangViews == reference bytes (also swept over all 16 language subsets); script-data-hash rule / full rule list accepts => (redeemers or datums present and declared == blake2b-256(original redeemer bytes || original datum bytes if any || reference language views of the languages used)) or (neither present and nothing declared); non-trivial = redeemers or datums present; distinct by (era, witness bytes, declared variant, cost models)")
	defer rec.Finish()
	rec.Assume("blake2b from the Go libraries is trusted by both sides",
		"reference language views / preimage follow cardano-ledger getLanguageView, encodeLangViews, hashScriptIntegrity and ppViewHashesMatch (languages = Plutus languages of scripts that are needed AND provided)",
		"one-directional rule oracle ('passes only if'); rejections of transactions whose declared hash equals the reference are counted (over_reject_*)")

	// ---- EncodeLangViews: all 16 language subsets x fixed cost-model shapes -------------
	shapes := map[string][]int64{
		"one":      {0},
		"small":    {1, 23, 24, 255, 256, 65535, 65536},
		"negative": {-1, -24, -25, -256, -257, -9223372036854775808, 9223372036854775807},
		"len23":    make([]int64, 23),
		"len24":    make([]int64, 24),
		"len300":   make([]int64, 300),
	}
	shapeNames := []string{"one", "small", "negative", "len23", "len24", "len300"}
	sweep := 0
	for mask := 0; mask < 16; mask++ {
		for _, sn := range shapeNames {
			cm := map[uint][]int64{}
			used := map[uint]struct{}{}
			var langs []uint
			for l := uint(0); l < 4; l++ {
				cm[l] = append([]int64{int64(l)}, shapes[sn]...)
				if mask&(1<<l) != 0 {
					used[l] = struct{}{}
					langs = append(langs, l)
				}
			}
			got, err := common.EncodeLangViews(used, cm)
			want := refLangViews(langs, cm, LangViewOpts{})
			rec.Eval()
			sweep++
			if mask != 0 {
				rec.NonTrivial(fmt.Sprintf("sweep langs=%v shape=%s", langs, sn), map[string]any{"languages": langs, "shape": sn, "lang_views": evi.Hex(want)})
			}
			if err != nil || !bytes.Equal(got, want) {
				rec.Violation(fmt.Sprintf("C31:langviews:sweep:langs=%v", langs),
					fmt.Sprintf("EncodeLangViews(langs=%v, shape %s) = %x (err %v), reference = %x", langs, sn, got, err, want),
					map[string]any{"languages": langs, "shape": sn})
			}
		}
	}
	rec.SetExtra("n_langview_sweep_cases", sweep)

	// ---- fixed scenarios: a datum-only transaction next to a script nothing uses -------------
	// (the ledger hashes  <no redeemers> || datums || a0 ; see findings/C31.md)
	for _, era := range plutusEras {
		roles := []scriptRole{roleWitUnneeded}
		if era >= Babbage {
			roles = append(roles, roleRefInert, roleSpentInert)
		}
		for _, role := range roles {
			c := &c31Case{Era: era, IsValid: true, NDatums: 1, CM: map[uint][]int64{0: {1, 2}, 1: {3, 4, 5}, 2: {6}, 3: {7}},
				Scripts: []pScript{{Lang: maxLang(era), Bytes: []byte{1, 0, 0, 0x21}, Role: role}}}
			c.layout(nil)
			c.Datums = xcbor.A(xcbor.U(42))
			probe := c.assemble(nil)
			dOrig := originalWitnessField(probe, 4)
			refHash := h256(refIntegrityPreimage(era, nil, dOrig, 1, refLangViews(nil, c.CM, LangViewOpts{})))
			otherHash := h256(refIntegrityPreimage(era, nil, dOrig, 1, refLangViews([]uint{uint(maxLang(era) - 1)}, c.CM, LangViewOpts{})))
			pr := defaultParams(era)
			pr.CostModels = c.CM
			for _, d := range []struct {
				name string
				h    []byte
			}{{"correct", refHash}, {"languages-of-all-provided-scripts", otherHash}} {
				raw := c.assemble(d.h)
				ltx, err := decodeTx(era, raw)
				if err != nil {
					rec.Violation("C31:fixed:decode:"+era.String(), "fixed scenario does not decode: "+err.Error(), nil)
					continue
				}
				rerr := scriptDataHashRule(era)(ltx, 0, c.state(), pr.forEra(era))
				rec.Eval()
				cs := c.sample(raw, d.name)
				cs["tx_cbor_full"] = fmt.Sprintf("%x", raw)
				cs["reference_hash"] = fmt.Sprintf("%x", refHash)
				rec.NonTrivial(fmt.Sprintf("fixed %s %s %s", era, role, d.name), cs)
				switch {
				case d.name == "correct" && rerr != nil:
					rec.Class("fixed_over_reject_correct_hash:" + role.String())
				case d.name != "correct" && rerr == nil:
					via := "script-reference"
					if role == roleWitUnneeded {
						via = "unneeded-witness-script"
					}
					rec.Violation("C31:"+era.String()+":language-of-unused-script-counted:"+via,
						fmt.Sprintf("%s.UtxoValidateScriptDataHash accepts declared hash %x (over the language view of an unused PlutusV%d script, role %s); reference = %x",
							era, d.h, maxLang(era), role, refHash), cs)
				}
			}
		}
	}

	dupKeySweep(rec)

	rec.Check(func(rt *rapid.T) {
		c := genC31(rt)
		era := c.Era
		used, allProvided := c.usedLanguages()
		hasR, hasD := len(c.Redeemers) > 0, c.NDatums > 0

		// ---- oracle 1: the language-views encoder ------------------------------------
		usedSet := map[uint]struct{}{}
		missingCM := false
		for _, l := range used {
			usedSet[l] = struct{}{}
			if _, ok := c.CM[l]; !ok {
				missingCM = true
			}
		}
		lvRef := refLangViews(used, c.CM, LangViewOpts{})
		lvGot, lvErr := common.EncodeLangViews(usedSet, c.CM)
		rec.Eval()
		switch {
		case missingCM:
			rec.Class("langviews_used_language_without_cost_model")
			if lvErr == nil && !bytes.Equal(lvGot, lvRef) {
				rec.Fail(rt, "C31:langviews:missing-cost-model", fmt.Sprintf("EncodeLangViews(langs=%v) = %x, reference (null for the missing model) = %x", used, lvGot, lvRef),
					map[string]any{"languages": used})
			}
		case lvErr != nil || !bytes.Equal(lvGot, lvRef):
			rec.Fail(rt, fmt.Sprintf("C31:langviews:langs=%v", used), fmt.Sprintf("EncodeLangViews(langs=%v) = %x (err %v), reference = %x", used, lvGot, lvErr, lvRef),
				map[string]any{"languages": used, "cost_models": c.CM})
		}

		// ---- the reference hash needs the ORIGINAL bytes: build once to read them ----
		probe := c.assemble(nil)
		rdOrig := originalWitnessField(probe, 5)
		dOrig := originalWitnessField(probe, 4)
		pre := func(lv []byte) []byte { return refIntegrityPreimage(era, rdOrig, dOrig, c.NDatums, lv) }
		refHash := h256(pre(lvRef))

		// ---- declared hash variants ---------------------------------------------------
		type variant struct {
			name string
			h    []byte
		}
		vs := []variant{{"correct", refHash}, {"correct", refHash}, {"correct", refHash}, {"absent", nil},
			{"random", h256(rapid.SliceOfN(rapid.Byte(), 1, 8).Draw(rt, "randomHash"))}}
		add := func(name string, p []byte) {
			if h := h256(p); !bytes.Equal(h, refHash) {
				vs = append(vs, variant{name, h})
			}
		}
		var allCM []uint
		for l := uint(0); l < 4; l++ {
			if _, ok := c.CM[l]; ok {
				allCM = append(allCM, l)
			}
		}
		add("languages-of-all-provided-scripts", pre(refLangViews(allProvided, c.CM, LangViewOpts{})))
		add("languages-of-all-cost-models", pre(refLangViews(allCM, c.CM, LangViewOpts{})))
		add("views-ordered-by-language-id", pre(refLangViews(used, c.CM, LangViewOpts{OrderByLanguageID: true})))
		add("v1-encoded-like-v2", pre(refLangViews(used, c.CM, LangViewOpts{V1Plain: true})))
		add("v1-definite-list-inside", pre(refLangViews(used, c.CM, LangViewOpts{V1DefiniteInside: true})))
		add("all-indefinite-lists", pre(refLangViews(used, c.CM, LangViewOpts{AllIndefinite: true})))
		add("language-views-omitted", refIntegrityPreimage(era, rdOrig, dOrig, c.NDatums, nil))
		add("empty-language-views", pre([]byte{0xa0}))
		if rdOrig != nil {
			add("redeemers-re-encoded-canonically", refIntegrityPreimage(era, canonical(xcbor.Raw(rdOrig)).Encode(), dOrig, c.NDatums, lvRef))
		} else {
			other := []byte{0xa0}
			if era >= Conway {
				other = []byte{0x80}
			}
			add("other-era-empty-redeemers", refIntegrityPreimage(era, other, dOrig, c.NDatums, lvRef))
			add("no-redeemer-bytes", append(append([]byte{}, condBytes(c.NDatums > 0, dOrig)...), lvRef...))
		}
		if dOrig != nil && c.NDatums > 0 {
			add("datums-re-encoded-canonically", refIntegrityPreimage(era, rdOrig, canonical(xcbor.Raw(dOrig)).Encode(), c.NDatums, lvRef))
			add("datums-omitted", refIntegrityPreimage(era, rdOrig, nil, 0, lvRef))
			if c.SetTag {
				// hash the array inside the #6.258 tag
				inner := xcbor.Raw(dOrig).Items[0]
				add("datums-without-set-tag", refIntegrityPreimage(era, rdOrig, dOrig[inner.Start:inner.End], c.NDatums, lvRef))
			}
		} else {
			add("empty-datum-list-included", refIntegrityPreimage(era, rdOrig, []byte{0x80}, 1, lvRef))
		}
		v := vs[rapid.IntRange(0, len(vs)-1).Draw(rt, "declared")]

		raw := c.assemble(v.h)
		if !bytes.Equal(originalWitnessField(raw, 5), rdOrig) || !bytes.Equal(originalWitnessField(raw, 4), dOrig) {
			panic("harness: witness fields changed between builds")
		}
		ltx, err := decodeTx(era, raw)
		if err != nil {
			rec.Class("decode_rejected")
			return
		}
		st := c.state()
		pr := defaultParams(era)
		pr.CostModels = c.CM
		pp := pr.forEra(era)
		checkKeptBytes(func(key, what string) bool { return rec.Fail(rt, key, what, c.sample(raw, v.name)) }, era, ltx, rdOrig, dOrig, "generated")
		if c.RdmDup != "" {
			rec.Class("redeemers_map_duplicate_key_" + c.RdmDup)
		}
		if c.RdmStyled != nil && c.RdmStyled.Kind == xcbor.Map && c.RdmStyled.Indef {
			rec.Class("redeemers_indefinite_map")
		}

		// classes
		rec.Class("era_" + era.String())
		rec.Class("declared_" + v.name)
		for _, s := range c.Scripts {
			rec.Class(fmt.Sprintf("script_%s", s.Role))
		}
		rec.Class(fmt.Sprintf("languages_used_%d", len(used)))
		if len(allProvided) > len(used) {
			rec.Class("has_unused_script_language")
		}
		switch {
		case hasR && c.RdmMap:
			rec.Class("redeemers_map_form")
		case hasR:
			rec.Class("redeemers_list_form")
		case c.RdmExplEmp:
			rec.Class("redeemers_explicitly_empty")
		default:
			rec.Class("redeemers_absent")
		}
		switch {
		case c.NDatums > 0:
			rec.Class("datums_present")
		case c.NDatums == 0:
			rec.Class("datums_explicitly_empty")
		default:
			rec.Class("datums_absent")
		}
		if rdOrig != nil && !xcbor.Raw(rdOrig).IsCanonicalForm() {
			rec.Class("redeemers_noncanonical_bytes")
		}
		if dOrig != nil && !xcbor.Raw(dOrig).IsCanonicalForm() {
			rec.Class("datums_noncanonical_bytes")
		}
		if hasR || hasD {
			rec.NonTrivial(fmt.Sprintf("%s %x %s %v", era, hash256(raw), v.name, c.CM), c.sample(raw, v.name))
		}

		// ---- oracle 2: the rule -----------------------------------------------------------
		judge := func(entry string, accepted bool, declared []byte, vname string, txRaw []byte) {
			if !accepted {
				return
			}
			cs := c.sample(txRaw, vname)
			cs["entry"] = entry
			cs["reference_hash"] = evi.Hex(refHash)
			cs["languages_used"] = used
			switch {
			case !hasR && !hasD:
				if declared != nil {
					rec.Fail(rt, "C31:"+era.String()+":accepted-declared-hash-without-redeemers-or-datums",
						fmt.Sprintf("%s accepts a declared script data hash although the transaction has neither redeemers nor datums", entry), cs)
				}
			case declared == nil:
				rec.Fail(rt, "C31:"+era.String()+":accepted-missing-hash",
					fmt.Sprintf("%s accepts a transaction with redeemers/datums but no script data hash", entry), cs)
			case !bytes.Equal(declared, refHash):
				key := "C31:" + era.String() + ":accepted-wrong-hash:" + vname
				if len(allProvided) > len(used) && bytes.Equal(declared, h256(pre(refLangViews(allProvided, c.CM, LangViewOpts{})))) {
					// the accepted hash is the one over the languages of ALL provided
					// scripts, including scripts nothing needs
					roles := unusedRoles(c, used)
					via := "unneeded-witness-script"
					for _, r := range roles {
						if r != roleWitUnneeded.String() {
							via = "script-reference" // on a reference input or a spent input
						}
					}
					key = "C31:" + era.String() + ":language-of-unused-script-counted:" + via
					rec.Class("unused_language_counted_via_" + strings.Join(roles, "+"))
				}
				rec.Fail(rt, key,
					fmt.Sprintf("%s accepts declared hash %x (%s); reference = %x over redeemers %x, datums %x, language views %x (languages used %v, languages of all provided scripts %v)",
						entry, declared, vname, refHash, rdOrig, condBytes(c.NDatums > 0, dOrig), lvRef, used, allProvided), cs)
			}
		}
		rule := scriptDataHashRule(era)
		ruleNames := []string{era.String() + ".UtxoValidateScriptDataHash", "VerifyTransaction(" + era.String() + ".UtxoValidationRules)"}
		runRules := func(t common.Transaction, s *State, p common.ProtocolParameters) []error {
			return []error{rule(t, 0, s, p), common.VerifyTransaction(t, 0, s, p, rulesFor(era))}
		}
		cmBefore := snapCostModels(c.CM)
		pfail := func(key, what string) bool { return rec.Fail(rt, key, what, c.sample(raw, v.name)) }

		// transaction B for the history check: the same witnesses with another declared
		// hash; validated FRESH first (own objects, own copy of the cost models)
		vb := vs[0] // "correct"
		if v.name == "correct" {
			vb = vs[3+rapid.IntRange(0, len(vs)-4).Draw(rt, "declaredB")]
		}
		rawB := c.assemble(vb.h)
		var bFresh []string
		var ltxB common.Transaction
		if t0, err := decodeTx(era, rawB); err == nil {
			prB := defaultParams(era)
			prB.CostModels = map[uint][]int64{}
			for k, m := range c.CM {
				prB.CostModels[k] = append([]int64(nil), m...)
			}
			bFresh = verdictsOf(runRules(t0, c.state(), prB.forEra(era)))
			ltxB, _ = decodeTx(era, rawB)
		}

		// A: twice on the same object (purity + repeatability)
		errsA := pureRun(pfail, "C31", era.String(), ltx, ruleNames, func() []error { return runRules(ltx, st, pp) })
		rerr, ferr := errsA[0], errsA[1]
		rec.EvalN(2)
		judge(ruleNames[0], rerr == nil, v.h, v.name, raw)
		if rerr == nil {
			rec.Class("rule_accepts")
		} else {
			rec.Class("rule_rejects:" + errClass(rerr))
			if v.name == "correct" && (hasR || hasD) {
				rec.Class("over_reject_correct_hash:" + errClass(rerr))
			}
		}
		judge(ruleNames[1], ferr == nil, v.h, v.name, raw)
		if ferr == nil {
			rec.Class("full_list_accepts")
		}

		// ---- history: A, then B, then A again with the same state / parameters / cost-model maps
		if ltxB != nil {
			errsB := runRules(ltxB, st, pp)
			rec.Eval()
			vB := verdictsOf(errsB)
			for i := range vB {
				if vB[i] != bFresh[i] {
					rec.Fail(rt, "C31:"+era.String()+":verdict-depends-on-history",
						fmt.Sprintf("%s of transaction B (declared %s): %s on a fresh setup, %s after transaction A (declared %s) was validated with the same state/parameters", ruleNames[i], vb.name, bFresh[i], vB[i], v.name),
						map[string]any{"tx_a": evi.Hex(raw), "tx_b": evi.Hex(rawB)})
				}
				judge(ruleNames[i]+" (transaction B, validated after A)", errsB[i] == nil, vb.h, vb.name, rawB)
			}
			vA1, vA3 := verdictsOf(errsA), verdictsOf(runRules(ltx, st, pp))
			rec.Eval()
			for i := range vA1 {
				if vA1[i] != vA3[i] {
					rec.Fail(rt, "C31:"+era.String()+":verdict-depends-on-history",
						fmt.Sprintf("%s of transaction A (declared %s): %s at first, %s after transaction B (declared %s) was validated in between", ruleNames[i], v.name, vA1[i], vA3[i], vb.name),
						map[string]any{"tx_a": evi.Hex(raw), "tx_b": evi.Hex(rawB)})
				}
			}
		}
		// the language-views encoder is a function of its arguments and leaves them alone
		if lv2, err2 := common.EncodeLangViews(usedSet, c.CM); (err2 == nil) != (lvErr == nil) || !bytes.Equal(lv2, lvGot) {
			rec.Fail(rt, "C31:langviews:result-depends-on-history", fmt.Sprintf("EncodeLangViews(langs=%v) with the same arguments: first %x (err %v), later %x (err %v)", used, lvGot, lvErr, lv2, err2), nil)
		}
		if len(usedSet) != len(used) {
			rec.Fail(rt, "C31:langviews:mutates-used-versions", "EncodeLangViews changed the set of used versions it was given", nil)
		}
		if after := snapCostModels(c.CM); after != cmBefore {
			rec.Fail(rt, "C31:"+era.String()+":rule-mutates-cost-models", fmt.Sprintf("validating changed the cost-model tables of the protocol parameters: before %s, after %s", clipS(cmBefore), clipS(after)), nil)
		}

		// ---- feed the library's own computation back ----------------------------------------
		// A rule that compares against a hash other than the reference accepts that other
		// hash: take it from the mismatch error and declare it.
		var mm common.ScriptDataHashMismatchError
		if rerr != nil && errors.As(rerr, &mm) && (hasR || hasD) && !bytes.Equal(mm.Computed[:], refHash) {
			rec.Class("library_computes_other_hash")
			why := "unexplained"
			if bytes.Equal(mm.Computed[:], h256(pre(refLangViews(allProvided, c.CM, LangViewOpts{})))) {
				why = "languages-of-all-provided-scripts"
			}
			raw2 := c.assemble(mm.Computed[:])
			ltx2, err2 := decodeTx(era, raw2)
			if err2 == nil {
				rerr2 := rule(ltx2, 0, st, pp)
				rec.Eval()
				judge(era.String()+".UtxoValidateScriptDataHash", rerr2 == nil, mm.Computed[:], "library-computed="+why, raw2)
			}
		}
	})
}

// keptBytes returns the bytes the library stored for the redeemers / datums
// fields of a decoded transaction.
func keptBytes(tx common.Transaction) (rdm, dat []byte, ok bool) {
	switch t := tx.(type) {
	case *alonzo.AlonzoTransaction:
		return t.WitnessSet.WsRedeemers.Cbor(), t.WitnessSet.WsPlutusData.Cbor(), true
	case *babbage.BabbageTransaction:
		return t.WitnessSet.WsRedeemers.Cbor(), t.WitnessSet.WsPlutusData.Cbor(), true
	case *conway.ConwayTransaction:
		return t.WitnessSet.WsRedeemers.Cbor(), t.WitnessSet.WsPlutusData.Cbor(), true
	case *dijkstra.DijkstraTransaction:
		return t.WitnessSet.WsRedeemers.Cbor(), t.WitnessSet.WsPlutusData.Cbor(), true
	}
	return nil, nil, false
}

// checkKeptBytes: the original-bytes accessors of the witness set return exactly
// the bytes the harness wrote (the hash rule reads them).
func checkKeptBytes(fail func(key, what string) bool, era Era, tx common.Transaction, rdOrig, dOrig []byte, form string) {
	rd, da, ok := keptBytes(tx)
	if !ok {
		fail("C31:"+era.String()+":unexpected-transaction-type", fmt.Sprintf("decoder returned %T", tx))
		return
	}
	if rdOrig != nil && !bytes.Equal(rd, rdOrig) {
		fail("C31:"+era.String()+":original-bytes-not-kept:redeemers", fmt.Sprintf("WsRedeemers.Cbor() = %x, the transaction carries %x (%s)", rd, rdOrig, form))
	}
	if dOrig != nil && !bytes.Equal(da, dOrig) {
		fail("C31:"+era.String()+":original-bytes-not-kept:datums", fmt.Sprintf("WsPlutusData.Cbor() = %x, the transaction carries %x (%s)", da, dOrig, form))
	}
}

// dupKeySweep: deterministic cases with a redeemers MAP that carries a duplicated
// (tag, index) key, in Conway and Dijkstra, for every language of the era, with and
// without datums, in several encodings. The declared hash is the reference hash over
// the original bytes; whenever the library accepts the witness set it must keep the
// bytes, and it must not accept any other hash.
func dupKeySweep(rec *evi.Recorder) {
	type form struct {
		name  string
		build func(base []Redeemer, dup Redeemer) []Redeemer
	}
	forms := []form{
		{"dup-adjacent-after", func(b []Redeemer, d Redeemer) []Redeemer { return []Redeemer{b[0], d, b[1], b[2]} }},
		{"dup-first", func(b []Redeemer, d Redeemer) []Redeemer { return []Redeemer{d, b[1], b[2], b[0]} }},
		{"dup-last-far-apart", func(b []Redeemer, d Redeemer) []Redeemer { return []Redeemer{b[0], b[1], b[2], d} }},
		{"dup-of-middle-key-reverse-order", func(b []Redeemer, d Redeemer) []Redeemer {
			d.Tag, d.Index = b[1].Tag, b[1].Index
			return []Redeemer{b[2], d, b[1], b[0]}
		}},
		{"only-the-duplicated-key", func(b []Redeemer, d Redeemer) []Redeemer { return []Redeemer{b[0], d} }},
		// control without a duplicate (Dijkstra's decoder rejects duplicated keys)
		{"no-duplicate-reverse-order", func(b []Redeemer, d Redeemer) []Redeemer { return []Redeemer{b[2], b[1], b[0]} }},
	}
	styles := []string{"canonical", "indefinite-map", "non-minimal-map-head", "non-minimal-index"}
	n := 0
	for _, era := range []Era{Conway, Dijkstra} {
		for lang := 1; lang <= maxLang(era); lang++ {
			for _, f := range forms {
				for _, sameValue := range []bool{true, false} {
					for _, withDatums := range []bool{false, true} {
						for _, style := range styles {
							c := &c31Case{Era: era, IsValid: true, NDatums: -1, RdmMap: true, SetTag: lang%2 == 0,
								CM:      map[uint][]int64{0: {1, 2}, 1: {3, 4, 5}, 2: {6}, 3: {7, -8}},
								Scripts: []pScript{{Lang: lang, Bytes: []byte{1, 0, 0, byte(lang)}, Role: roleWitNeeded, NoRdm: true}}}
							c.layout(nil)
							// input #0/#1 are the payer and the script-locked input (sorted order irrelevant here)
							base := []Redeemer{
								{Tag: 0, Index: 0, Data: xcbor.U(1), Mem: 10, Steps: 20},
								{Tag: 0, Index: 1, Data: xcbor.Tg(121, xcbor.A()), Mem: 11, Steps: 21},
								{Tag: 1, Index: 0, Data: xcbor.B([]byte{0xca, 0xfe}), Mem: 12, Steps: 22},
							}
							dup := base[0]
							if !sameValue {
								dup.Data, dup.Mem, dup.Steps = xcbor.U(2), 99, 98
								c.RdmDup = "different-value"
							} else {
								c.RdmDup = "same-value"
							}
							entries := f.build(base, dup)
							c.Redeemers = entries
							c.RdmStyled = redeemersNode(entries, true)
							switch style {
							case "indefinite-map":
								c.RdmStyled.Indef = true
							case "non-minimal-map-head":
								c.RdmStyled.Width = 2
							case "non-minimal-index":
								c.RdmStyled.Items[0].Items[1].Width = 4
							}
							if withDatums {
								c.NDatums = 1
								c.Datums = xcbor.A(xcbor.U(42))
								if c.SetTag {
									c.Datums = xcbor.Tg(258, c.Datums)
								}
							}
							desc := fmt.Sprintf("%s PlutusV%d %s %s datums=%v %s", era, lang, f.name, c.RdmDup, withDatums, style)
							fail := func(key, what string) bool {
								return rec.Violation(key, what+" ["+desc+"]", c.sample(c.assemble(nil), "correct"))
							}
							probe := c.assemble(nil)
							rdOrig, dOrig := originalWitnessField(probe, 5), originalWitnessField(probe, 4)
							used, _ := c.usedLanguages()
							refHash := h256(refIntegrityPreimage(era, rdOrig, dOrig, c.NDatums, refLangViews(used, c.CM, LangViewOpts{})))
							raw := c.assemble(refHash)
							ltx, err := decodeTx(era, raw)
							n++
							if err != nil {
								rec.Class("dupkey_sweep_decode_rejected_" + era.String())
								continue
							}
							rec.Class("dupkey_sweep_decoded_" + era.String())
							checkKeptBytes(fail, era, ltx, rdOrig, dOrig, desc)
							pr := defaultParams(era)
							pr.CostModels = c.CM
							st, pp := c.state(), pr.forEra(era)
							rerr := scriptDataHashRule(era)(ltx, 0, st, pp)
							rec.Eval()
							cs := c.sample(raw, "correct")
							cs["tx_cbor_full"] = fmt.Sprintf("%x", raw)
							cs["redeemers_original_bytes"] = fmt.Sprintf("%x", rdOrig)
							rec.NonTrivial("dupkey "+desc, cs)
							if rerr == nil {
								rec.Class("dupkey_sweep_reference_hash_accepted")
								continue
							}
							rec.Class("dupkey_sweep_over_reject:" + errClass(rerr))
							var mm common.ScriptDataHashMismatchError
							if errors.As(rerr, &mm) && !bytes.Equal(mm.Computed[:], refHash) {
								raw2 := c.assemble(mm.Computed[:])
								if ltx2, err2 := decodeTx(era, raw2); err2 == nil {
									rec.Eval()
									if scriptDataHashRule(era)(ltx2, 0, st, pp) == nil {
										fail("C31:"+era.String()+":duplicate-key-redeemer-map:accepted-hash-not-over-original-bytes",
											fmt.Sprintf("%s.UtxoValidateScriptDataHash rejects the hash over the original redeemer bytes %x (reference %x) and accepts %x instead", era, rdOrig, refHash, mm.Computed[:]))
									}
								}
							}
						}
					}
				}
			}
		}
	}
	rec.SetExtra("n_duplicate_key_sweep_cases", n)
}

// unusedRoles lists the roles of the scripts whose language is not among the used ones.
func unusedRoles(c *c31Case, used []uint) []string {
	var where []string
	for _, s := range c.Scripts {
		isUsed := false
		for _, l := range used {
			isUsed = isUsed || l == uint(s.Lang-1)
		}
		if !isUsed {
			where = append(where, s.Role.String())
		}
	}
	sort.Strings(where)
	return dedupe(where)
}

func condBytes(c bool, b []byte) []byte {
	if c {
		return b
	}
	return nil
}

func dedupe(s []string) []string {
	var out []string
	for i, x := range s {
		if i == 0 || x != s[i-1] {
			out = append(out, x)
		}
	}
	return out
}
