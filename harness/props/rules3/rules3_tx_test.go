package rules3

// Era-aware transaction builder for the witness / script / script-data-hash
// properties (C28, C29, C31). A TxSpec (plain Go description) is turned into
// CBOR bytes with internal/xcbor following the era CDDL, signed with
// harness-owned ed25519 keys, and only then handed to the library's era
// decoder. Nothing here uses gouroboros encoders. Adapted from the rules1
// builder (value conservation is kept trivial here: one ada-only output).

import (
	"crypto/ed25519"
	"crypto/sha3"
	"fmt"
	"hash/crc32"
	"sort"

	"golang.org/x/crypto/blake2b"

	"verif/harness/internal/xcbor"
)

type Era int

// numeric values equal the library's TxType ids
const (
	Shelley Era = 1 + iota
	Allegra
	Mary
	Alonzo
	Babbage
	Conway
	Dijkstra
)

var allEras = []Era{Shelley, Allegra, Mary, Alonzo, Babbage, Conway, Dijkstra}

func (e Era) String() string {
	return [...]string{"?", "shelley", "allegra", "mary", "alonzo", "babbage", "conway", "dijkstra"}[e]
}

// ---- hashing ----------------------------------------------------------------

func hash224(b []byte) [28]byte {
	h, _ := blake2b.New(28, nil)
	h.Write(b)
	var out [28]byte
	copy(out[:], h.Sum(nil))
	return out
}

func hash256(b []byte) [32]byte { return blake2b.Sum256(b) }

// ---- keys -------------------------------------------------------------------

const nKeys = 8

type keyPair struct {
	priv ed25519.PrivateKey
	pub  ed25519.PublicKey
	hash [28]byte
}

var keys = func() []keyPair {
	ks := make([]keyPair, nKeys)
	for i := range ks {
		seed := blake2b.Sum256([]byte(fmt.Sprintf("verif/rules3/key/%d", i)))
		ks[i].priv = ed25519.NewKeyFromSeed(seed[:])
		ks[i].pub = ks[i].priv.Public().(ed25519.PublicKey)
		ks[i].hash = hash224(ks[i].pub)
	}
	return ks
}()

// Byron (bootstrap) identities: an ed25519 key, a 32-byte chain code and the
// CBOR-encoded address attributes. The address root binds all three.
type byronID struct {
	priv  ed25519.PrivateKey
	pub   ed25519.PublicKey
	cc    [32]byte
	attrs []byte // CBOR map
	root  [28]byte
	addr  []byte // full Byron address bytes
}

const nByron = 4

// byronRoot is the Byron address root written from the Byron address
// specification: blake2b-224(sha3-256(cbor([0, [0, xpub], attrs]))) where xpub is
// the 64-byte extended public key (public key followed by the chain code).
func byronRoot(pub, cc, attrs []byte) [28]byte {
	xpub := append(append([]byte{}, pub...), cc...)
	spending := xcbor.A(xcbor.U(0), xcbor.B(xpub))
	pre := xcbor.A(xcbor.U(0), spending, xcbor.Raw(attrs)).Encode()
	s := sha3.Sum256(pre)
	return hash224(s[:])
}

func byronAddress(root [28]byte, attrs []byte, typ uint64) []byte {
	payload := xcbor.A(xcbor.B(root[:]), xcbor.Raw(attrs), xcbor.U(typ)).Encode()
	crc := crc32.ChecksumIEEE(payload)
	return xcbor.A(xcbor.Tg(24, xcbor.B(payload)), xcbor.U(uint64(crc))).Encode()
}

var byronIDs = func() []byronID {
	attrVariants := [][]byte{
		{0xa0}, // mainnet, no derivation path
		xcbor.M(xcbor.U(2), xcbor.B(xcbor.U(1097911063).Encode())).Encode(),                 // testnet magic
		xcbor.M(xcbor.U(1), xcbor.B(xcbor.B([]byte("derivation-path-ciphertext")).Encode())).Encode(), // HD payload
		{0xa0},
	}
	ids := make([]byronID, nByron)
	for i := range ids {
		seed := blake2b.Sum256([]byte(fmt.Sprintf("verif/rules3/byron/%d", i)))
		ids[i].priv = ed25519.NewKeyFromSeed(seed[:])
		ids[i].pub = ids[i].priv.Public().(ed25519.PublicKey)
		ids[i].cc = blake2b.Sum256([]byte(fmt.Sprintf("verif/rules3/byron-cc/%d", i)))
		ids[i].attrs = attrVariants[i]
		ids[i].root = byronRoot(ids[i].pub, ids[i].cc[:], ids[i].attrs)
		ids[i].addr = byronAddress(ids[i].root, ids[i].attrs, 0)
	}
	return ids
}()

// ---- locks / addresses --------------------------------------------------------

type LockKind int

const (
	LKey         LockKind = iota // enterprise address, key payment credential
	LKeyBase                     // base address: key payment, key stake (other key)
	LKeyStakeScr                 // base address: key payment, script stake
	LKeyPtr                      // pointer address, key payment
	LScript                      // enterprise address, script payment credential
	LScriptKey                   // base address: SCRIPT payment, key stake
	LByron                       // Byron bootstrap address
)

func (k LockKind) String() string {
	return [...]string{"key", "key-base", "key-stakescript", "key-ptr", "script", "script-stakekey", "byron"}[k]
}

type Lock struct {
	Kind   LockKind
	Key    int      // payment key (key kinds) or the stake key (LScriptKey)
	Stake  int      // stake key for LKeyBase
	Script [28]byte // payment script hash (script kinds) or stake script (LKeyStakeScr)
	Byron  int
}

func (l Lock) keyLocked() bool { return l.Kind <= LKeyPtr }

func (l Lock) addr(net uint8) []byte {
	switch l.Kind {
	case LKey:
		return append([]byte{0x60 | net}, keys[l.Key].hash[:]...)
	case LKeyBase:
		b := append([]byte{0x00 | net}, keys[l.Key].hash[:]...)
		return append(b, keys[l.Stake].hash[:]...)
	case LKeyStakeScr:
		b := append([]byte{0x20 | net}, keys[l.Key].hash[:]...)
		return append(b, l.Script[:]...)
	case LKeyPtr:
		b := append([]byte{0x40 | net}, keys[l.Key].hash[:]...)
		return append(b, 0x81, 0x02, 0x03, 0x00) // slot 130, tx 3, cert 0
	case LScript:
		return append([]byte{0x70 | net}, l.Script[:]...)
	case LScriptKey:
		b := append([]byte{0x10 | net}, l.Script[:]...)
		return append(b, keys[l.Key].hash[:]...)
	case LByron:
		return byronIDs[l.Byron].addr
	}
	panic("lock kind")
}

func payAddr(net uint8, k int) []byte    { return Lock{Kind: LKey, Key: k}.addr(net) }
func rewardAddr(net uint8, k int) []byte { return append([]byte{0xe0 | net}, keys[k].hash[:]...) }
func rewardScriptAddr(net uint8, h [28]byte) []byte {
	return append([]byte{0xf0 | net}, h[:]...)
}

// ---- transaction description --------------------------------------------------

type In struct {
	TxID [32]byte
	Ix   uint32
	Lock Lock
	Coin uint64
	// Missing: the input is not in the UTxO set (unresolvable)
	Missing bool
	// RefScript: Babbage+ script_ref carried by the UTxO entry: [type, script]
	RefScript *RefScript
}

type RefScript struct {
	Lang  int    // 0 native, 1..4 Plutus V1..V4
	Bytes []byte // native: script CBOR; Plutus: the script's byte-string content
}

func (r *RefScript) node() *xcbor.Node {
	var inner *xcbor.Node
	if r.Lang == 0 {
		inner = xcbor.A(xcbor.U(0), xcbor.Raw(r.Bytes))
	} else {
		inner = xcbor.A(xcbor.U(uint64(r.Lang)), xcbor.B(r.Bytes))
	}
	return xcbor.Tg(24, xcbor.B(inner.Encode()))
}

func (r *RefScript) hash() [28]byte {
	return hash224(append([]byte{byte(r.Lang)}, r.Bytes...))
}

type Wd struct {
	Key    int
	Amount uint64
	// ScriptHash, when set, makes this a script-credential reward account
	ScriptHash *[28]byte
}

// VKeyWit is one vkey witness exactly as emitted.
type VKeyWit struct {
	VKey []byte
	Sig  []byte
	Note string
}

// BootWit is one bootstrap witness exactly as emitted.
type BootWit struct {
	Pub, Sig, CC, Attrs []byte
	Note               string
}

type TxSpec struct {
	Era    Era
	Net    uint8
	Ins    []In
	Coll   []In
	RefIns []In
	OutKey int
	Fee    uint64
	TTL    *uint64 // body key 3
	Start  *uint64 // body key 8 (Allegra+)
	Wdrl   []Wd
	// ReqSign: body key 14 (Alonzo..Conway required signers; Dijkstra guards)
	ReqSign [][28]byte
	// GuardCreds: Dijkstra only - encode key 14 as a set of credentials
	// ([0, keyhash]) instead of a set of key hashes
	GuardCreds bool
	NetID      *uint8
	// ScriptDataHash: body key 11 (nil = absent)
	ScriptDataHash []byte
	// MintPolicies adds body key 9 with one token per policy
	MintPolicies [][28]byte
	IsValid      bool // Alonzo+ (default set by newTx)

	// witness set, all exactly as emitted
	VKeys   []VKeyWit
	Boots   []BootWit
	Natives [][]byte    // raw CBOR of each native script
	Plutus  [5][][]byte // [1..4]: byte-string contents of Plutus V1..V4 scripts
	// DatumsRaw / RedeemersRaw: complete CBOR of the value of witness keys 4 / 5
	DatumsRaw    []byte
	RedeemersRaw []byte

	// encoding choices
	SetTag     bool // #6.258 sets (Conway+)
	ThreeElems bool // Dijkstra: [body, wits, aux] envelope
	// BodyStyle / WitStyle may restyle the node (heads only) before encoding
	BodyStyle func(n *xcbor.Node)
	WitStyle  func(n *xcbor.Node)
}

func u64p(v uint64) *uint64 { return &v }

func inputNode(i In) *xcbor.Node {
	id := i.TxID
	return xcbor.A(xcbor.B(id[:]), xcbor.U(uint64(i.Ix)))
}

func sortIns(ins []In) []In {
	out := append([]In(nil), ins...)
	sort.Slice(out, func(a, b int) bool {
		if out[a].TxID != out[b].TxID {
			return string(out[a].TxID[:]) < string(out[b].TxID[:])
		}
		return out[a].Ix < out[b].Ix
	})
	return out
}

func (tx *TxSpec) setNode(items []*xcbor.Node) *xcbor.Node {
	if tx.SetTag && tx.Era >= Conway {
		return xcbor.Tg(258, xcbor.A(items...))
	}
	return xcbor.A(items...)
}

// outCoin is what the single output carries so that the value is conserved.
func (tx *TxSpec) outCoin() uint64 {
	var sum uint64
	for _, i := range tx.Ins {
		sum += i.Coin
	}
	for _, w := range tx.Wdrl {
		sum += w.Amount
	}
	return sum - tx.Fee
}

// utxoOutNode is the output a UTxO entry holds (era form; map form when a
// script reference is carried).
func utxoOutNode(era Era, net uint8, in In) *xcbor.Node {
	if in.RefScript != nil && era >= Babbage {
		return xcbor.M(xcbor.U(0), xcbor.B(in.Lock.addr(net)), xcbor.U(1), xcbor.U(in.Coin),
			xcbor.U(3), in.RefScript.node())
	}
	return xcbor.A(xcbor.B(in.Lock.addr(net)), xcbor.U(in.Coin))
}

// BodyNode builds the transaction body map per the era CDDL (keys ascending).
func (tx *TxSpec) BodyNode() *xcbor.Node {
	var kv []*xcbor.Node
	add := func(k uint64, v *xcbor.Node) { kv = append(kv, xcbor.U(k), v) }
	var ins []*xcbor.Node
	for _, i := range sortIns(tx.Ins) {
		ins = append(ins, inputNode(i))
	}
	add(0, tx.setNode(ins))
	add(1, xcbor.A(xcbor.A(xcbor.B(payAddr(tx.Net, tx.OutKey)), xcbor.U(tx.outCoin()))))
	add(2, xcbor.U(tx.Fee))
	if tx.TTL != nil {
		add(3, xcbor.U(*tx.TTL))
	}
	if len(tx.Wdrl) > 0 {
		var ws []*xcbor.Node
		for _, w := range tx.Wdrl {
			if w.ScriptHash != nil {
				ws = append(ws, xcbor.B(rewardScriptAddr(tx.Net, *w.ScriptHash)), xcbor.U(w.Amount))
			} else {
				ws = append(ws, xcbor.B(rewardAddr(tx.Net, w.Key)), xcbor.U(w.Amount))
			}
		}
		add(5, xcbor.M(ws...))
	}
	if tx.Start != nil && tx.Era >= Allegra {
		add(8, xcbor.U(*tx.Start))
	}
	if len(tx.MintPolicies) > 0 && tx.Era >= Mary {
		var ps []*xcbor.Node
		for _, p := range tx.MintPolicies {
			pp := p
			ps = append(ps, xcbor.B(pp[:]), xcbor.M(xcbor.B([]byte("t")), xcbor.U(1)))
		}
		add(9, xcbor.M(ps...))
	}
	if tx.Era >= Alonzo {
		if tx.ScriptDataHash != nil {
			add(11, xcbor.B(tx.ScriptDataHash))
		}
		if len(tx.Coll) > 0 {
			var cs []*xcbor.Node
			for _, i := range sortIns(tx.Coll) {
				cs = append(cs, inputNode(i))
			}
			add(13, tx.setNode(cs))
		}
		if len(tx.ReqSign) > 0 {
			var rs []*xcbor.Node
			for _, h := range tx.ReqSign {
				hh := h
				if tx.Era >= Dijkstra && tx.GuardCreds {
					rs = append(rs, xcbor.A(xcbor.U(0), xcbor.B(hh[:])))
				} else {
					rs = append(rs, xcbor.B(hh[:]))
				}
			}
			add(14, tx.setNode(rs))
		}
		if tx.NetID != nil {
			add(15, xcbor.U(uint64(*tx.NetID)))
		}
	}
	if tx.Era >= Babbage && len(tx.RefIns) > 0 {
		var rs []*xcbor.Node
		for _, i := range sortIns(tx.RefIns) {
			rs = append(rs, inputNode(i))
		}
		add(18, tx.setNode(rs))
	}
	return xcbor.M(kv...)
}

// WitNode builds the witness set map.
func (tx *TxSpec) WitNode() *xcbor.Node {
	var wkv []*xcbor.Node
	if len(tx.VKeys) > 0 {
		var vk []*xcbor.Node
		for _, w := range tx.VKeys {
			vk = append(vk, xcbor.A(xcbor.B(w.VKey), xcbor.B(w.Sig)))
		}
		wkv = append(wkv, xcbor.U(0), tx.setNode(vk))
	}
	if len(tx.Natives) > 0 {
		var ss []*xcbor.Node
		for _, s := range tx.Natives {
			ss = append(ss, xcbor.Raw(s))
		}
		wkv = append(wkv, xcbor.U(1), tx.setNode(ss))
	}
	if len(tx.Boots) > 0 {
		var bs []*xcbor.Node
		for _, b := range tx.Boots {
			bs = append(bs, xcbor.A(xcbor.B(b.Pub), xcbor.B(b.Sig), xcbor.B(b.CC), xcbor.B(b.Attrs)))
		}
		wkv = append(wkv, xcbor.U(2), tx.setNode(bs))
	}
	plutus := func(key uint64, lang int) {
		if len(tx.Plutus[lang]) == 0 {
			return
		}
		var ss []*xcbor.Node
		for _, s := range tx.Plutus[lang] {
			ss = append(ss, xcbor.B(s))
		}
		wkv = append(wkv, xcbor.U(key), tx.setNode(ss))
	}
	if tx.Era >= Alonzo {
		plutus(3, 1)
		if tx.DatumsRaw != nil {
			wkv = append(wkv, xcbor.U(4), xcbor.Raw(tx.DatumsRaw))
		}
		if tx.RedeemersRaw != nil {
			wkv = append(wkv, xcbor.U(5), xcbor.Raw(tx.RedeemersRaw))
		}
	}
	if tx.Era >= Babbage {
		plutus(6, 2)
	}
	if tx.Era >= Conway {
		plutus(7, 3)
	}
	if tx.Era >= Dijkstra {
		plutus(8, 4)
	}
	return xcbor.M(wkv...)
}

// BodyBytes encodes the body (after the optional restyle).
func (tx *TxSpec) BodyBytes() []byte {
	bn := tx.BodyNode()
	if tx.BodyStyle != nil {
		tx.BodyStyle(bn)
	}
	return bn.Encode()
}

// Assemble puts already encoded body bytes and the current witness set into
// the era's envelope.
func (tx *TxSpec) Assemble(body []byte) (raw, wits []byte) {
	wn := tx.WitNode()
	if tx.WitStyle != nil {
		tx.WitStyle(wn)
	}
	wits = wn.Encode()
	var top *xcbor.Node
	switch {
	case tx.Era < Alonzo:
		top = xcbor.A(xcbor.Raw(body), xcbor.Raw(wits), xcbor.Null())
	case tx.Era == Dijkstra && tx.ThreeElems:
		top = xcbor.A(xcbor.Raw(body), xcbor.Raw(wits), xcbor.Null())
	default:
		top = xcbor.A(xcbor.Raw(body), xcbor.Raw(wits), xcbor.Bool(tx.IsValid), xcbor.Null())
	}
	return top.Encode(), wits
}

// ---- witness construction -----------------------------------------------------

func goodVKey(k int, txid [32]byte) VKeyWit {
	return VKeyWit{VKey: append([]byte{}, keys[k].pub...), Sig: ed25519.Sign(keys[k].priv, txid[:]), Note: "good"}
}

func goodBoot(b int, txid [32]byte) BootWit {
	id := byronIDs[b]
	return BootWit{Pub: append([]byte{}, id.pub...), Sig: ed25519.Sign(id.priv, txid[:]),
		CC: append([]byte{}, id.cc[:]...), Attrs: append([]byte{}, id.attrs...), Note: "good"}
}

func flipBit(b []byte, bit int) []byte {
	out := append([]byte{}, b...)
	out[(bit/8)%len(out)] ^= 1 << (bit % 8)
	return out
}
