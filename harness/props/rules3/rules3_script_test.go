package rules3

// Native-script grammar, harness-side encoder and the reference evaluator
// written from the ledger's timelock semantics (Shelley multisig spec fig. 4,
// Allegra/ShelleyMA spec "evalTimelock").

import (
	"fmt"
	"math"
	"strings"

	"pgregory.net/rapid"

	"verif/harness/internal/xcbor"
)

type NSKind int

const (
	NSSig NSKind = iota
	NSAll
	NSAny
	NSNofK
	NSBefore    // invalid_before l       = RequireTimeStart l
	NSHereafter // invalid_hereafter l    = RequireTimeExpire l
)

type NS struct {
	Kind NSKind
	Key  int    // NSSig: index into the key universe
	N    uint64 // NSNofK
	Slot uint64 // time locks
	Subs []*NS
}

const scriptUniverse = 4 // keys[0..3]

func (s *NS) node() *xcbor.Node {
	subs := func() *xcbor.Node {
		var it []*xcbor.Node
		for _, c := range s.Subs {
			it = append(it, c.node())
		}
		return xcbor.A(it...)
	}
	switch s.Kind {
	case NSSig:
		return xcbor.A(xcbor.U(0), xcbor.B(keys[s.Key].hash[:]))
	case NSAll:
		return xcbor.A(xcbor.U(1), subs())
	case NSAny:
		return xcbor.A(xcbor.U(2), subs())
	case NSNofK:
		return xcbor.A(xcbor.U(3), xcbor.U(s.N), subs())
	case NSBefore:
		return xcbor.A(xcbor.U(4), xcbor.U(s.Slot))
	case NSHereafter:
		return xcbor.A(xcbor.U(5), xcbor.U(s.Slot))
	}
	panic("ns kind")
}

func (s *NS) String() string {
	sub := func() string {
		var p []string
		for _, c := range s.Subs {
			p = append(p, c.String())
		}
		return strings.Join(p, ",")
	}
	switch s.Kind {
	case NSSig:
		return fmt.Sprintf("sig(k%d)", s.Key)
	case NSAll:
		return "all[" + sub() + "]"
	case NSAny:
		return "any[" + sub() + "]"
	case NSNofK:
		return fmt.Sprintf("%d-of[%s]", s.N, sub())
	case NSBefore:
		return fmt.Sprintf("invalid_before(%d)", s.Slot)
	case NSHereafter:
		return fmt.Sprintf("invalid_hereafter(%d)", s.Slot)
	}
	return "?"
}

func (s *NS) walk(f func(*NS)) {
	f(s)
	for _, c := range s.Subs {
		c.walk(f)
	}
}

func (s *NS) depth() int {
	d := 0
	for _, c := range s.Subs {
		if cd := c.depth(); cd > d {
			d = cd
		}
	}
	return d + 1
}

func (s *NS) timeBounds() (before, hereafter []uint64) {
	s.walk(func(n *NS) {
		switch n.Kind {
		case NSBefore:
			before = append(before, n.Slot)
		case NSHereafter:
			hereafter = append(hereafter, n.Slot)
		}
	})
	return
}

// ---- evaluation context and reference --------------------------------------------

// SCtx is the transaction context a native script is evaluated in.
type SCtx struct {
	Keys  [scriptUniverse]bool // vkey witnesses present for universe keys
	Start *uint64              // validity interval start (nil = absent)
	End   *uint64              // ttl / invalid_hereafter of the transaction (nil = absent)
	// BootKeys: universe keys for which only a BOOTSTRAP witness carrying that
	// public key is present (no vkey witness)
	BootKeys [scriptUniverse]bool
}

func optStr(p *uint64) string {
	if p == nil {
		return "absent"
	}
	return fmt.Sprint(*p)
}

func (c SCtx) String() string {
	ks := ""
	for i, b := range c.Keys {
		if b {
			ks += fmt.Sprint(i)
		}
	}
	bs := ""
	for i, b := range c.BootKeys {
		if b {
			bs += fmt.Sprint(i)
		}
	}
	return fmt.Sprintf("keys={%s} boot={%s} start=%s ttl=%s", ks, bs, optStr(c.Start), optStr(c.End))
}

// Quirks are deviations from the ledger semantics that the reference can be
// asked to imitate; they are used ONLY to classify a disagreement into a
// specific finding key and to keep searching behind a listed finding.
type Quirks struct {
	AbsentStartIsZero bool // an absent validity start is read as 0
	AbsentEndIsMax    bool // an absent ttl is read as 2^64-1
	ZeroEndIsAbsent   bool // an explicit ttl 0 is read as absent
	BootCountsAsVKey  bool // a bootstrap witness' public key hash satisfies sig()
}

var quirkNames = []string{"absent-start-read-as-0", "absent-ttl-read-as-max", "zero-ttl-read-as-absent", "bootstrap-witness-satisfies-sig"}

func quirksOf(mask int) Quirks {
	return Quirks{mask&1 != 0, mask&2 != 0, mask&4 != 0, mask&8 != 0}
}

// refEval is the ledger semantics (q == Quirks{}):
//
//	RequireSignature h   : h is the hash of a vkey witness' key
//	RequireAllOf ss      : every s holds
//	RequireAnyOf ss      : some s holds
//	RequireMOf m ss      : at least m of ss hold
//	RequireTimeStart l   : the tx has a validity start s and l <= s
//	RequireTimeExpire l  : the tx has an expiry e and e <= l
func refEval(s *NS, c SCtx, q Quirks) bool {
	switch s.Kind {
	case NSSig:
		return c.Keys[s.Key] || (q.BootCountsAsVKey && c.BootKeys[s.Key])
	case NSAll:
		for _, x := range s.Subs {
			if !refEval(x, c, q) {
				return false
			}
		}
		return true
	case NSAny:
		for _, x := range s.Subs {
			if refEval(x, c, q) {
				return true
			}
		}
		return false
	case NSNofK:
		var n uint64
		for _, x := range s.Subs {
			if refEval(x, c, q) {
				n++
			}
		}
		return n >= s.N
	case NSBefore:
		st := c.Start
		if st == nil && q.AbsentStartIsZero {
			st = u64p(0)
		}
		return st != nil && s.Slot <= *st
	case NSHereafter:
		e := c.End
		if e != nil && *e == 0 && q.ZeroEndIsAbsent {
			e = nil
		}
		if e == nil && q.AbsentEndIsMax {
			e = u64p(math.MaxUint64)
		}
		return e != nil && *e <= s.Slot
	}
	panic("ns kind")
}

// explain finds a smallest set of quirks under which the reference reproduces
// the library's verdicts got[i] for scripts[i]; nil,false if none does.
func explain(agree func(q Quirks) bool) ([]string, bool) {
	best := -1
	for mask := 1; mask < 16; mask++ {
		if !agree(quirksOf(mask)) {
			continue
		}
		if best < 0 || popcount(mask) < popcount(best) {
			best = mask
		}
	}
	if best < 0 {
		return nil, false
	}
	var names []string
	for i, n := range quirkNames {
		if best&(1<<i) != 0 {
			names = append(names, n)
		}
	}
	return names, true
}

func popcount(x int) int {
	n := 0
	for ; x != 0; x &= x - 1 {
		n++
	}
	return n
}

// ---- generators ---------------------------------------------------------------------

var slotPool = []uint64{0, 1, 2, 100, 4_492_800, 1 << 32, 1 << 63, math.MaxUint64 - 1, math.MaxUint64}

func genSlot(rt *rapid.T, label string) uint64 {
	if rapid.IntRange(0, 4).Draw(rt, label+"Pool") != 0 {
		return slotPool[rapid.IntRange(0, len(slotPool)-1).Draw(rt, label+"Ix")]
	}
	return rapid.Uint64().Draw(rt, label)
}

func genScript(rt *rapid.T, depth int) *NS { return genScriptAt(rt, depth, true) }

func genScriptAt(rt *rapid.T, depth int, top bool) *NS {
	leaf := depth <= 1 || (!top && rapid.IntRange(0, 2).Draw(rt, "leaf") == 0)
	if leaf {
		switch rapid.IntRange(0, 3).Draw(rt, "leafKind") {
		case 0, 1:
			return &NS{Kind: NSSig, Key: rapid.IntRange(0, scriptUniverse-1).Draw(rt, "sigKey")}
		case 2:
			return &NS{Kind: NSBefore, Slot: genSlot(rt, "before")}
		default:
			return &NS{Kind: NSHereafter, Slot: genSlot(rt, "hereafter")}
		}
	}
	k := rapid.IntRange(0, 4).Draw(rt, "width")
	s := &NS{Kind: NSKind(rapid.IntRange(1, 3).Draw(rt, "nodeKind"))}
	for i := 0; i < k; i++ {
		s.Subs = append(s.Subs, genScriptAt(rt, depth-1, false))
	}
	if s.Kind == NSNofK {
		s.N = uint64(rapid.IntRange(0, k+1).Draw(rt, "n"))
	}
	return s
}

// genBound draws a transaction bound that is absent, 0, extreme, or sits at /
// next to one of the script's own bounds.
func genBound(rt *rapid.T, label string, near []uint64) *uint64 {
	switch rapid.IntRange(0, 7).Draw(rt, label+"Class") {
	case 0, 1:
		return nil
	case 2:
		return u64p(0)
	case 3:
		return u64p(math.MaxUint64)
	case 4:
		return u64p(genSlot(rt, label))
	default:
		if len(near) == 0 {
			return u64p(genSlot(rt, label))
		}
		l := near[rapid.IntRange(0, len(near)-1).Draw(rt, label+"Near")]
		switch rapid.IntRange(-1, 1).Draw(rt, label+"Delta") {
		case -1:
			if l > 0 {
				l--
			}
		case 1:
			if l < math.MaxUint64 {
				l++
			}
		}
		return u64p(l)
	}
}
