package crypto

// Reference model of Cardano's sum-composition KES (MMM, "SumKES" of
// cardano-base: Cardano.Crypto.KES.Sum) written from its definition:
//
//	seed expansion  r0 = blake2b256(0x01 || seed), r1 = blake2b256(0x02 || seed)
//	vk(d)           = blake2b256(vk_left(d-1) || vk_right(d-1)); vk(0) = Ed25519 key of the seed
//	sig(d, t)       = sig(d-1, t mod 2^(d-1)) of the half that contains t || vk_left || vk_right
//	verify(d,vk,t)  = blake2b256(vk_left||vk_right) == vk  and verify(d-1, chosen half, ...)
//
// It materialises the whole tree (at most 64 leaves), which the library never
// does; it shares only crypto/ed25519 and blake2b with the code under test.

import (
	"bytes"
	"crypto/ed25519"

	"golang.org/x/crypto/blake2b"
)

type refKesNode struct {
	depth       int
	seed        []byte // the seed this subtree was generated from
	vk          []byte
	left, right *refKesNode
	first, n    uint64 // periods [first, first+n)
}

func refExpand(seed []byte, sep byte) []byte {
	h := blake2b.Sum256(append([]byte{sep}, seed...))
	return h[:]
}

func refKesBuild(depth int, seed []byte, first uint64) *refKesNode {
	nd := &refKesNode{depth: depth, seed: append([]byte(nil), seed...), first: first, n: 1 << uint(depth)}
	if depth == 0 {
		nd.vk = ed25519.NewKeyFromSeed(seed).Public().(ed25519.PublicKey)
		return nd
	}
	nd.left = refKesBuild(depth-1, refExpand(seed, 1), first)
	nd.right = refKesBuild(depth-1, refExpand(seed, 2), first+nd.n/2)
	h := blake2b.Sum256(append(append([]byte(nil), nd.left.vk...), nd.right.vk...))
	nd.vk = h[:]
	return nd
}

func (nd *refKesNode) sign(t uint64, msg []byte) []byte {
	if nd.depth == 0 {
		return ed25519.Sign(ed25519.NewKeyFromSeed(nd.seed), msg)
	}
	child := nd.left
	if t >= nd.right.first {
		child = nd.right
	}
	sig := child.sign(t, msg)
	sig = append(sig, nd.left.vk...)
	return append(sig, nd.right.vk...)
}

func (nd *refKesNode) leaf(t uint64) *refKesNode {
	for nd.depth > 0 {
		if t >= nd.right.first {
			nd = nd.right
		} else {
			nd = nd.left
		}
	}
	return nd
}

// forbiddenSeeds lists the seed of every subtree that contains a period < t:
// whoever holds one of them can re-derive the signing key of an earlier period.
func (nd *refKesNode) forbiddenSeeds(t uint64, out *[][]byte) {
	if nd.first >= t {
		return
	}
	*out = append(*out, nd.seed)
	if nd.depth > 0 {
		nd.left.forbiddenSeeds(t, out)
		nd.right.forbiddenSeeds(t, out)
	}
}

// refKesVerify verifies a depth-d sum-KES signature at period t.
func refKesVerify(depth int, vk []byte, t uint64, msg, sig []byte) bool {
	if len(sig) != 64+64*depth || len(vk) != 32 {
		return false
	}
	if depth == 0 {
		return ed25519.Verify(ed25519.PublicKey(vk), msg, sig)
	}
	if depth < 64 && t >= uint64(1)<<uint(depth) {
		return false
	}
	n := len(sig)
	vk0, vk1 := sig[n-64:n-32], sig[n-32:]
	h := blake2b.Sum256(sig[n-64:])
	if !bytes.Equal(h[:], vk) {
		return false
	}
	half := uint64(1) << uint(depth-1)
	if t < half {
		return refKesVerify(depth-1, vk0, t, msg, sig[:n-64])
	}
	return refKesVerify(depth-1, vk1, t-half, msg, sig[:n-64])
}
