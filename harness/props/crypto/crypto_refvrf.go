package crypto

// Reference ECVRF-ED25519-SHA512-Elligator2 written from
// draft-irtf-cfrg-vrf-03 (§5.1 prove, §5.2 proof_to_hash, §5.3 verify,
// §5.4.1.2 hash_to_curve_elligator2_25519, §5.4.2.2 nonce, §5.4.3 hash_points)
// on top of the math/big group model in crypto_refed.go. Key validation
// (small-order rejection) and the s < q requirement are the two additions the
// property statement names; both are applied in refVRFVerify.

import (
	"crypto/sha512"
	"errors"
	"math/big"
)

const refSuite = 0x04

var (
	montA     = big.NewInt(486662)
	pMinus1H  = new(big.Int).Rsh(new(big.Int).Sub(edP, big1), 1) // (p-1)/2
	errRefKey = errors.New("ref: invalid public key")
)

func refClampedScalar(seed []byte) (x *big.Int, prefix []byte) {
	h := sha512.Sum512(seed)
	a := append([]byte(nil), h[:32]...)
	a[0] &= 248
	a[31] &= 127
	a[31] |= 64
	return leInt(a), append([]byte(nil), h[32:]...)
}

func refVRFPublicKey(seed []byte) []byte {
	x, _ := refClampedScalar(seed)
	return edEncode(edMul(x, edB))
}

// refHashToCurve is ECVRF_hash_to_curve_elligator2_25519.
func refHashToCurve(pkString, alpha []byte) (*edPoint, error) {
	h := sha512.New()
	h.Write([]byte{refSuite, 0x01})
	h.Write(pkString)
	h.Write(alpha)
	hs := h.Sum(nil)
	tr := append([]byte(nil), hs[:32]...)
	tr[31] &= 0x7f
	r := leInt(tr)
	// u = -A / (1 + 2 r^2)
	den := fadd(big1, fmul(big2, fmul(r, r)))
	u := fmul(fsub(big0, montA), finv(den))
	// w = u (u^2 + A u + 1)
	w := fmul(u, fadd(fadd(fmul(u, u), fmul(montA, u)), big1))
	e := fexp(w, pMinus1H)
	finalU := u
	if e.Cmp(big1) != 0 {
		finalU = fsub(fsub(big0, montA), u)
	}
	y := fmul(fsub(finalU, big1), finv(fadd(finalU, big1)))
	hPrelim, ok := edDecode(leBytes(y, 32), true)
	if !ok {
		return nil, errors.New("ref: elligator2 output is not a point")
	}
	return edMul8(hPrelim), nil
}

func refHashPoints(ps ...*edPoint) *big.Int {
	h := sha512.New()
	h.Write([]byte{refSuite, 0x02})
	for _, p := range ps {
		h.Write(edEncode(p))
	}
	return leInt(h.Sum(nil)[:16])
}

func refGammaToHash(gamma *edPoint) []byte {
	h := sha512.New()
	h.Write([]byte{refSuite, 0x03})
	h.Write(edEncode(edMul8(gamma)))
	return h.Sum(nil)
}

func refEncodeProof(gamma *edPoint, c, s *big.Int) []byte {
	out := append([]byte(nil), edEncode(gamma)...)
	out = append(out, leBytes(c, 16)...)
	return append(out, leBytes(s, 32)...)
}

// refVRFProve is ECVRF_prove; returns (pi, beta, pk).
func refVRFProve(seed, alpha []byte) (pi, beta, pk []byte, err error) {
	x, prefix := refClampedScalar(seed)
	Y := edMul(x, edB)
	pk = edEncode(Y)
	H, err := refHashToCurve(pk, alpha)
	if err != nil {
		return nil, nil, nil, err
	}
	hString := edEncode(H)
	gamma := edMul(x, H)
	kh := sha512.Sum512(append(append([]byte(nil), prefix...), hString...))
	k := new(big.Int).Mod(leInt(kh[:]), edL)
	c := refHashPoints(H, gamma, edMul(k, edB), edMul(k, H))
	s := new(big.Int).Mul(c, x)
	s.Add(s, k)
	s.Mod(s, edL)
	return refEncodeProof(gamma, c, s), refGammaToHash(gamma), pk, nil
}

// refVRFCore evaluates the bare §5.3 verification equations for an already
// decoded key point (no key validation, no range check on s).
func refVRFCore(Y *edPoint, pi, alpha []byte) (ok bool, beta []byte) {
	if len(pi) != 80 {
		return false, nil
	}
	gamma, gok := edDecode(pi[:32], false)
	if !gok {
		return false, nil
	}
	c := leInt(pi[32:48])
	s := leInt(pi[48:80])
	H, err := refHashToCurve(edEncode(Y), alpha)
	if err != nil {
		return false, nil
	}
	U := edSub(edMul(s, edB), edMul(c, Y))
	V := edSub(edMul(s, H), edMul(c, gamma))
	if refHashPoints(H, gamma, U, V).Cmp(c) != 0 {
		return false, nil
	}
	return true, refGammaToHash(gamma)
}

// refVRFVerify is the verifier the property describes: §5.3 plus rejection of
// small-order / undecodable keys and of s >= q.
func refVRFVerify(pk, pi, alpha []byte) (bool, []byte, error) {
	Y, ok := edDecode(pk, false)
	if !ok {
		return false, nil, errRefKey
	}
	if edIsIdentity(edMul8(Y)) {
		return false, nil, errRefKey
	}
	if len(pi) != 80 {
		return false, nil, errors.New("ref: proof length")
	}
	if leInt(pi[48:80]).Cmp(edL) >= 0 {
		return false, nil, errors.New("ref: non-canonical s")
	}
	ok, beta := refVRFCore(Y, pi, alpha)
	return ok, beta, nil
}

// refForgeSmallOrder builds a proof that satisfies the bare §5.3 equations
// under a public key Y of small order m WITHOUT any secret: Gamma = identity,
// s = k, and U = k*B - j*Y for the residue j = c mod m that the challenge
// happens to hit (ground over k). Only the key validation can reject it. tries
// reports how many k were needed; nil if the budget was exhausted.
func refForgeSmallOrder(Y *edPoint, m int, alpha []byte, kSeed []byte, budget int) (pi []byte, tries int) {
	H, err := refHashToCurve(edEncode(Y), alpha)
	if err != nil {
		return nil, 0
	}
	gamma := edIdentity()
	mm := big.NewInt(int64(m))
	for t := 0; t < budget; t++ {
		kh := sha512.Sum512(append(append([]byte(nil), kSeed...), byte(t), byte(t>>8)))
		k := new(big.Int).Mod(leInt(kh[:]), edL)
		kB := edMul(k, edB)
		V := edMul(k, H)
		for j := 0; j < m; j++ {
			U := edSub(kB, edMul(big.NewInt(int64(j)), Y))
			c := refHashPoints(H, gamma, U, V)
			if new(big.Int).Mod(c, mm).Int64() == int64(j) {
				return refEncodeProof(gamma, c, k), t + 1
			}
		}
	}
	return nil, budget
}
