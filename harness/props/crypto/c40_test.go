package crypto

import (
	"bytes"
	"encoding/hex"
	"errors"
	"fmt"
	"math"
	"math/big"
	"testing"

	"github.com/blinklabs-io/gouroboros/consensus"
	"github.com/blinklabs-io/gouroboros/ledger"
	"github.com/blinklabs-io/gouroboros/ledger/allegra"
	"github.com/blinklabs-io/gouroboros/ledger/alonzo"
	"github.com/blinklabs-io/gouroboros/ledger/babbage"
	"github.com/blinklabs-io/gouroboros/ledger/conway"
	"github.com/blinklabs-io/gouroboros/ledger/mary"
	"github.com/blinklabs-io/gouroboros/ledger/shelley"
	"github.com/blinklabs-io/gouroboros/ledger/common"
	"golang.org/x/crypto/blake2b"
	"pgregory.net/rapid"

	"verif/harness/internal/evi"
	"verif/harness/internal/xcbor"
)

// c40Verdict is what the library's validators say about one (header, body, context).
type c40Verdict struct {
	HV        bool // consensus.HeaderValidator.ValidateHeader(...).Valid
	HVErrs    []string
	HVOut     []byte
	Decoded   bool // ledger.NewBlockFromCbor (body hash checked while parsing)
	DecodeErr string
	VB        bool // ledger.VerifyBlock
	VBErr     string
	VBNoParse bool // VerifyBlock on a block parsed with SkipBodyHashValidation (VerifyBlock itself checks the hash)
	HdrKes    bool // ledger.VerifyKes on the header decoded alone
	OC        bool // ledger.ValidateOpCert(ExtractOpCert(header), issuer, slot, spk, maxEvo) == nil
	OCErr     string
}

func (v c40Verdict) ledgerAccepts() bool { return v.Decoded && v.VB }

func errStr(err error) string {
	if err == nil {
		return ""
	}
	s := err.Error()
	if len(s) > 300 {
		s = s[:300]
	}
	return s
}

// ---- history independence of a long-lived HeaderValidator --------------------------
// A node keeps one validator per network and feeds it every header. Its verdict on a
// header must be the verdict a fresh validator gives, whatever it validated before:
// the same header is also put to a validator that is reused across all cases of the
// run, after 0-3 inputs that differ only in the stake context (same pool stake with
// another total stake, another pool stake), and every verdict is compared with a fresh
// validator's. Differences are collected here and reported by the running case.
var (
	c40Reused     = map[string]*consensus.HeaderValidator{}
	c40ReuseDiffs []string
	c40ReuseEvals int
	c40ReuseTick  uint64
)

func c40ReuseProbe(h *hdrFields, c *valCtx, freshValid bool) {
	key := fmt.Sprintf("%s|%d|%d|%v", c.F.Rat.String(), c.SlotsPerKES, c.MaxEvolutions, c.mode())
	shared := c40Reused[key]
	if shared == nil {
		shared = c.validator()
		c40Reused[key] = shared
	}
	c40ReuseTick++
	var ctxs []*valCtx
	mulSat := func(a, k uint64) uint64 {
		if a > ^uint64(0)/k {
			return ^uint64(0)
		}
		return a * k
	}
	alt := func(pool, total uint64) {
		if total == 0 || pool > total {
			return
		}
		cc := *c
		cc.PoolStake, cc.TotalStake = pool, total
		ctxs = append(ctxs, &cc)
	}
	switch c40ReuseTick % 4 {
	case 0: // same pool stake, much larger total first
		alt(c.PoolStake, mulSat(c.TotalStake, 1000))
	case 1: // same pool stake, sigma = 1 first, then a larger total
		alt(c.PoolStake, c.PoolStake)
		alt(c.PoolStake, mulSat(c.TotalStake, 3))
	case 2: // another pool stake under the same total
		alt(c.PoolStake/2+1, c.TotalStake)
		alt(c.PoolStake, mulSat(c.TotalStake, 1_000_000))
	}
	ctxs = append(ctxs, c)
	for i, cc := range ctxs {
		want := freshValid
		if cc != c {
			want = cc.validator().ValidateHeader(cc.input(h)).Valid
		}
		got := shared.ValidateHeader(cc.input(h)).Valid
		c40ReuseEvals++
		if got != want {
			c40ReuseDiffs = append(c40ReuseDiffs, fmt.Sprintf(
				"a HeaderValidator reused across headers says valid=%v for slot %d with poolStake=%d totalStake=%d (step %d of %d in this probe) where a fresh validator says %v",
				got, h.Slot, cc.PoolStake, cc.TotalStake, i+1, len(ctxs), want))
		}
	}
}

func c40Run(h *hdrFields, c *valCtx, body *blockBody, blockBytes []byte) c40Verdict {
	var v c40Verdict
	res := c40ValidateTwice(c, h)
	v.HV = res.Valid
	c40ReuseProbe(h, c, res.Valid)
	v.HVOut = res.VrfOutput
	for _, e := range res.Errors {
		v.HVErrs = append(v.HVErrs, errStr(e))
	}
	if blockBytes == nil {
		blockBytes = assembleBlock(h.headerBytes(), body)
	}
	ls := &poolLedgerState{Pools: map[common.PoolKeyHash]common.VrfKeyHash{}}
	if len(h.Issuer) == 32 && len(h.VrfKey) == 32 {
		kh := blake2b.Sum256(h.VrfKey)
		if c.RegisteredVrfKH != nil {
			copy(kh[:], c.RegisteredVrfKH)
		}
		ph, _ := blake2b.New(28, nil)
		ph.Write(h.Issuer)
		var pk common.PoolKeyHash
		copy(pk[:], ph.Sum(nil))
		ls.Pools[pk] = common.VrfKeyHash(kh)
	}
	cfg := common.VerifyConfig{SkipTransactionValidation: true, LedgerState: ls}
	eta0 := hex.EncodeToString(c.EpochNonce)
	blk, err := ledger.NewBlockFromCbor(c.Era.BlockType, blockBytes)
	if err != nil {
		v.DecodeErr = errStr(err)
	} else {
		v.Decoded = true
		ok, _, _, _, err := ledger.VerifyBlock(blk, eta0, c.SlotsPerKES, cfg)
		v.VB = ok && err == nil
		v.VBErr = errStr(err)
		if oc := opcertOfHeader(blk.Header()); oc != nil {
			iv := blk.Header().IssuerVkey()
			_, err := ledger.ValidateOpCert(oc, iv[:], blk.Header().SlotNumber(), c.SlotsPerKES, c.MaxEvolutions)
			v.OC = err == nil
			v.OCErr = errStr(err)
		} else {
			v.OCErr = "harness: unknown header type"
		}
	}
	if blk2, err := ledger.NewBlockFromCbor(c.Era.BlockType, blockBytes, common.VerifyConfig{SkipBodyHashValidation: true}); err == nil {
		ok, _, _, _, err := ledger.VerifyBlock(blk2, eta0, c.SlotsPerKES, cfg)
		v.VBNoParse = ok && err == nil
	}
	if hd, err := ledger.NewBlockHeaderFromCbor(c.Era.BlockType, h.headerBytes()); err == nil {
		ok, err := ledger.VerifyKes(hd, c.SlotsPerKES)
		v.HdrKes = ok && err == nil
	}
	return v
}

// opcertOfHeader copies the certificate out of a decoded era header (no era
// header implements ledger.OpCertExtractor, so callers have to do this).
func opcertOfHeader(h common.BlockHeader) *ledger.OpCert {
	switch x := h.(type) {
	case *shelley.ShelleyBlockHeader:
		return &ledger.OpCert{KesVkey: x.Body.OpCertHotVkey, IssueNumber: uint64(x.Body.OpCertSequenceNumber), KesPeriod: uint64(x.Body.OpCertKesPeriod), ColdSignature: x.Body.OpCertSignature}
	case *allegra.AllegraBlockHeader:
		return &ledger.OpCert{KesVkey: x.Body.OpCertHotVkey, IssueNumber: uint64(x.Body.OpCertSequenceNumber), KesPeriod: uint64(x.Body.OpCertKesPeriod), ColdSignature: x.Body.OpCertSignature}
	case *mary.MaryBlockHeader:
		return &ledger.OpCert{KesVkey: x.Body.OpCertHotVkey, IssueNumber: uint64(x.Body.OpCertSequenceNumber), KesPeriod: uint64(x.Body.OpCertKesPeriod), ColdSignature: x.Body.OpCertSignature}
	case *alonzo.AlonzoBlockHeader:
		return &ledger.OpCert{KesVkey: x.Body.OpCertHotVkey, IssueNumber: uint64(x.Body.OpCertSequenceNumber), KesPeriod: uint64(x.Body.OpCertKesPeriod), ColdSignature: x.Body.OpCertSignature}
	case *babbage.BabbageBlockHeader:
		return &ledger.OpCert{KesVkey: x.Body.OpCert.HotVkey, IssueNumber: uint64(x.Body.OpCert.SequenceNumber), KesPeriod: uint64(x.Body.OpCert.KesPeriod), ColdSignature: x.Body.OpCert.Signature}
	case *conway.ConwayBlockHeader:
		return &ledger.OpCert{KesVkey: x.Body.OpCert.HotVkey, IssueNumber: uint64(x.Body.OpCert.SequenceNumber), KesPeriod: uint64(x.Body.OpCert.KesPeriod), ColdSignature: x.Body.OpCert.Signature}
	}
	return nil
}

// c40Built is one successfully built header with everything needed to rebuild variants.
type c40Built struct {
	Keys   *poolKeys
	Ctx    *valCtx
	Body   *blockBody
	Hdr    *hdrFields
	Evol   uint64
	Tries  int
	Major  uint64
	Minor  uint64
	OpCert *consensus.OperationalCert
}

// c40Build runs the library's block builder for the given opcert/KES evolution at ctx-chosen slot.
func c40Build(keys *poolKeys, c *valCtx, body *blockBody, oc *consensus.OperationalCert, kesEvol uint64, slot, major, minor uint64) (*hdrFields, error) {
	ks, err := newEvolvingKES(keys.KesSeed, kesEvol)
	if err != nil {
		return nil, fmt.Errorf("harness: KES key: %w", err)
	}
	ph, _ := blake2b.New(28, nil)
	ph.Write(keys.ColdPub)
	b := consensus.NewBlockBuilderWithMode(keys.Vrf, ks, oc, ph.Sum(nil), keys.ColdPub, c.F.Rat, c.mode())
	ch, lr, err := b.BuildHeader(consensus.BuildHeaderInput{
		Slot: slot, BlockNumber: c.PrevBlockNo + 1, PrevHash: c.PrevHeaderHash, EpochNonce: c.EpochNonce,
		PoolStake: c.PoolStake, TotalStake: c.TotalStake, BlockBodyHash: body.commitment(), BlockBodySize: body.size(),
		ProtoMajor: major, ProtoMinor: minor,
	})
	if err != nil {
		return nil, err
	}
	if lr == nil || !lr.Eligible {
		return nil, errors.New("BuildHeader returned a header without an eligible leader result")
	}
	return hdrFromConsensus(ch, c.Era.TPraos), nil
}

type c40Mut struct {
	Name  string
	Apply func(h *hdrFields)
}

func flipIn(b *[]byte, bit int) {
	if len(*b) == 0 {
		return
	}
	bit %= len(*b) * 8
	(*b)[bit/8] ^= 1 << (bit % 8)
}

// wireMutations lists one single-field change per signed header field; r is a
// drawn number steering which bit / delta is used.
func wireMutations(h *hdrFields, r uint64) []c40Mut {
	bit := int(r % 4096)
	num := func(name string, p func(*hdrFields) *uint64, max uint64) c40Mut {
		return c40Mut{name, func(x *hdrFields) {
			v := p(x)
			switch {
			case r%3 == 0 && *v > 0:
				*v--
			case r%3 == 1 && *v+1 <= max:
				*v++
			default:
				*v ^= 1 << (r % 8)
			}
		}}
	}
	byt := func(name string, p func(*hdrFields) *[]byte) c40Mut {
		return c40Mut{name, func(x *hdrFields) { flipIn(p(x), bit) }}
	}
	const u64max = ^uint64(0)
	ms := []c40Mut{
		num("block_number", func(x *hdrFields) *uint64 { return &x.BlockNo }, u64max),
		num("slot", func(x *hdrFields) *uint64 { return &x.Slot }, 1<<62),
		byt("prev_hash", func(x *hdrFields) *[]byte { return &x.PrevHash }),
		byt("issuer_vkey", func(x *hdrFields) *[]byte { return &x.Issuer }),
		byt("vrf_vkey", func(x *hdrFields) *[]byte { return &x.VrfKey }),
		byt("leader_vrf_output", func(x *hdrFields) *[]byte { return &x.VrfOut }),
		byt("leader_vrf_proof", func(x *hdrFields) *[]byte { return &x.VrfProof }),
		num("block_body_size", func(x *hdrFields) *uint64 { return &x.BodySize }, u64max),
		byt("block_body_hash", func(x *hdrFields) *[]byte { return &x.BodyHash }),
		byt("opcert_hot_vkey", func(x *hdrFields) *[]byte { return &x.HotVkey }),
		num("opcert_sequence_number", func(x *hdrFields) *uint64 { return &x.Seq }, 1<<32-1),
		num("opcert_kes_period", func(x *hdrFields) *uint64 { return &x.KesPeriod }, 1<<32-1),
		byt("opcert_cold_signature", func(x *hdrFields) *[]byte { return &x.ColdSig }),
		num("protocol_major", func(x *hdrFields) *uint64 { return &x.Major }, u64max),
		num("protocol_minor", func(x *hdrFields) *uint64 { return &x.Minor }, u64max),
		byt("kes_signature", func(x *hdrFields) *[]byte { return &x.Sig }),
	}
	if h.TPraos {
		ms = append(ms,
			byt("nonce_vrf_output", func(x *hdrFields) *[]byte { return &x.NonceOut }),
			byt("nonce_vrf_proof", func(x *hdrFields) *[]byte { return &x.NonceProof }))
	}
	return ms
}

func genF(rt *rapid.T) (*big.Rat, string) {
	switch rapid.IntRange(0, 5).Draw(rt, "fKind") {
	case 0:
		return big.NewRat(1, 1), "f_one"
	case 1, 2:
		return big.NewRat(1, 20), "f_mainnet"
	case 3:
		return big.NewRat(1, 2), "f_half"
	default:
		q := rapid.Int64Range(2, 1000).Draw(rt, "fDen")
		lo := q/20 + 1
		p := rapid.Int64Range(lo, q).Draw(rt, "fNum")
		return big.NewRat(p, q), "f_random"
	}
}

func TestC40(t *testing.T) {
	rec := evi.New(t, "C40", evi.Exploration,
		"cases = random cold/VRF/KES seeds, era (shelley, allegra, mary, alonzo = TPraos 15-field; babbage, conway = Praos 10-field), active-slot coefficient (1, 1/20, 1/2, random p/q), stake (sigma = 1 or 0.4..1), slotsPerKESPeriod, maxKESEvolutions (62 or 1..64), opcert start period/counter, KES evolution inside the window, epoch nonce, chain context, body (empty / whole real fixture body / first k fixture txs); the slot is found by walking the KES period until consensus.BlockBuilder.BuildHeader leads. The header body is serialised by the harness from the era CDDL; the block is assembled with a harness-computed body commitment. Positive: ValidateHeader valid, block decodes, VerifyBlock (with pool registration) true, VerifyKes true, ValidateOpCert ok, and the harness' own VRF/KES/Ed25519 models accept. Negatives: one change per signed field on the wire (signature kept), KES signature bit, body bit / body swap, opcert changes re-signed with the hot key (counter, period, cold signature, foreign hot key, foreign issuer), certificate from the future / expired / wrong evolution, wrong epoch nonce. Every header validation is repeated on a HeaderValidator that is reused across all cases of the run, after 0-3 inputs that differ only in the stake context, and must agree with a fresh validator. non-trivial = built header that passed all positive validators and had its full negative set evaluated; distinct by header hash")
	defer rec.Finish()
	rec.Assume(
		"blake2b, crypto/ed25519 and crypto/sha512 are trusted by both sides",
		"the harness' CDDL serialisation of the header body (definite lengths, shortest heads) is what is signed on the wire; its VRF and KES reference models are those of C38/C39",
		"the validation of a block = consensus.HeaderValidator.ValidateHeader on the header AND ledger.NewBlockFromCbor+VerifyBlock on the block AND ledger.ValidateOpCert on its certificate; a negative is satisfied when this conjunction fails, and additionally every validator that sees the changed bytes and checks the KES signature must fail on its own",
		"VerifyBlock is run with SkipTransactionValidation (bodies come from other chains' fixtures) and a ledger state that answers only the pool-registration query",
		"cryptographic negatives are sampled single-field neighbours of genuine headers",
	)

	// certificate helpers at special counter / period values and window edges
	c40OpCertSpecials(rec)

	wireRounds := rec.Pick(1, 2)
	rec.Check(func(rt *rapid.T) {
		c40ReuseDiffs, c40ReuseEvals = nil, 0
		defer func() {
			rec.EvalN(c40ReuseEvals)
			if len(c40ReuseDiffs) > 0 && !rt.Failed() {
				rec.Fail(rt, "reused-validator-verdict-differs", c40ReuseDiffs[0], map[string]any{"differences": c40ReuseDiffs})
			}
			if len(c40Notes) > 0 && !rt.Failed() {
				n := c40Notes
				c40Notes = nil
				rec.Fail(rt, "history:purity", n[0], map[string]any{"observations": n})
			}
			c40Notes = nil
		}()
		era := rapid.SampledFrom(c40Eras).Draw(rt, "era")
		rec.Class("era_" + era.Name)
		coldSeed, vrfSeed, kesSeed := genSeed32(rt, "coldSeed"), genSeed32(rt, "vrfSeed"), genSeed32(rt, "kesSeed")
		if rapid.IntRange(0, 15).Draw(rt, "zeroSeeds") == 0 {
			coldSeed, vrfSeed, kesSeed = make([]byte, 32), make([]byte, 32), make([]byte, 32)
			rec.Class("special_all_zero_seeds")
		}
		keys, err := newPoolKeys(coldSeed, vrfSeed, kesSeed)
		if err != nil {
			rt.Fatalf("harness: keys: %v", err)
		}
		f, fClass := genF(rt)
		rec.Class(fClass)
		total := rapid.Uint64Range(1, 45_000_000_000_000_000).Draw(rt, "totalStake")
		if rapid.IntRange(0, 7).Draw(rt, "stakeSpecial") == 0 {
			total = rapid.SampledFrom([]uint64{1, 2, 1<<63 - 1, 1 << 63, math.MaxUint64}).Draw(rt, "totalStakeSpecial")
			rec.Class("special_total_stake")
		}
		pool := total
		if rapid.Bool().Draw(rt, "partialStake") {
			pool = total - rapid.Uint64Range(0, total/10*6).Draw(rt, "stakeGap")
			if pool == 0 {
				pool = 1
			}
		}
		if pool == total {
			rec.Class("sigma_one")
		} else {
			rec.Class("sigma_partial")
		}
		spk := rapid.SampledFrom([]uint64{129600, 129600, 86400, 1, 7, 100, 3600}).Draw(rt, "slotsPerKES")
		maxEvo := uint64(62)
		if rapid.Bool().Draw(rt, "oddMaxEvo") {
			maxEvo = rapid.Uint64Range(1, 64).Draw(rt, "maxEvo")
		}
		kp := rapid.Uint32Range(70, 200000).Draw(rt, "opcertPeriod")
		if rapid.IntRange(0, 7).Draw(rt, "slotSpecial") == 0 {
			// slots close to the top of the int64 range: 2^42 slots per KES period, period just below 2^21
			spk = 1 << 42
			kp = rapid.Uint32Range(1<<21-200, 1<<21-70).Draw(rt, "opcertPeriodHigh")
			rec.Class("special_slot_near_int64_max")
		}
		seq := rapid.Uint32Range(0, 1<<31).Draw(rt, "opcertCounter")
		if rapid.IntRange(0, 2).Draw(rt, "counterSpecial") == 0 {
			seq = rapid.SampledFrom([]uint32{0, 1, 1<<31 - 1, 1 << 31, 1<<31 + 1, 1<<32 - 2, 1<<32 - 1}).Draw(rt, "opcertCounterSpecial")
			rec.Class("special_opcert_counter")
		}
		var evol uint64
		switch rapid.IntRange(0, 3).Draw(rt, "evolKind") {
		case 0:
			evol = 0
		case 1:
			evol = maxEvo - 1
		default:
			evol = rapid.Uint64Range(0, maxEvo-1).Draw(rt, "evol")
		}
		switch {
		case evol == 0:
			rec.Class("evolution_first")
		case evol == maxEvo-1:
			rec.Class("evolution_last_in_window")
		default:
			rec.Class("evolution_middle")
		}
		cur := uint64(kp) + evol
		nonce := rapid.SliceOfN(rapid.Byte(), 32, 32).Draw(rt, "epochNonce")
		prevHash := rapid.SliceOfN(rapid.Byte(), 32, 32).Draw(rt, "prevHash")
		switch rapid.IntRange(0, 11).Draw(rt, "constantInputs") {
		case 0:
			nonce, prevHash = make([]byte, 32), make([]byte, 32)
			rec.Class("special_zero_nonce_and_prev_hash")
		case 1:
			nonce = bytes.Repeat([]byte{0xff}, 32)
			rec.Class("special_ff_nonce")
		}
		prevBlockNo := rapid.Uint64Range(0, 20_000_000).Draw(rt, "prevBlockNo")
		if rapid.IntRange(0, 5).Draw(rt, "blockNoSpecial") == 0 {
			prevBlockNo = rapid.SampledFrom([]uint64{0, 1<<32 - 1, 1 << 32, 1<<63 - 1, 1 << 63, math.MaxUint64 - 1}).Draw(rt, "prevBlockNoSpecial")
			rec.Class("special_block_number")
		}
		major := rapid.Uint64Range(era.MajorLo, era.MajorHi).Draw(rt, "protoMajor")
		minor := rapid.Uint64Range(0, 3).Draw(rt, "protoMinor")
		var body *blockBody
		switch rapid.IntRange(0, 3).Draw(rt, "bodyKind") {
		case 0:
			body = emptyBody(era)
			rec.Class("body_empty")
		case 1:
			body, err = fixtureBody(era, -1)
			rec.Class("body_fixture_full")
		default:
			body, err = fixtureBody(era, rapid.IntRange(1, 6).Draw(rt, "bodyTxs"))
			rec.Class("body_fixture_prefix")
		}
		if err != nil {
			rt.Fatalf("harness: body: %v", err)
		}
		ctx := &valCtx{Era: era, F: common.GenesisRat{Rat: f}, SlotsPerKES: spk, MaxEvolutions: maxEvo, EpochNonce: nonce,
			PoolStake: pool, TotalStake: total, PrevBlockNo: prevBlockNo, PrevHeaderHash: prevHash}
		oc := keys.issueOpCert(seq, kp)
		off := rapid.Uint64Range(0, spk-1).Draw(rt, "slotOffset")
		rmut := rapid.Uint64().Draw(rt, "mutationSteer")
		gap := rapid.Uint64Range(1, 1000).Draw(rt, "slotGap")

		// ---- find a slot of the KES period the pool leads (the builder decides). ONE
		// builder object serves the whole search: its refusals are history for the
		// header it finally produces.
		lb, err := newC40LongBuilder(keys, ctx, oc, evol)
		if err != nil {
			rt.Fatalf("%v", err)
		}
		var hdr *hdrFields
		tries := 0
	search:
		for round := 0; round < 40; round++ {
			span := spk
			if span > 150 {
				span = 150
			}
			for i := uint64(0); i < span; i++ {
				slot := cur*spk + (off+i)%spk
				if slot == 0 {
					continue
				}
				tries++
				h, err := lb.build(ctx, body, slot, major, minor)
				if err == nil {
					hdr = h
					break search
				}
				if !errors.Is(err, consensus.ErrNotSlotLeader) {
					rec.Fail(rt, "build-error", fmt.Sprintf("BuildHeader failed: %v", err), map[string]any{"era": era.Name, "slot": slot})
					return
				}
			}
			n2 := blake2b.Sum256(ctx.EpochNonce)
			ctx.EpochNonce = n2[:]
		}
		if hdr == nil {
			rec.Class("no_leading_slot_found")
			return
		}
		rec.ClassN("leader_search_tries", tries)
		if tries > 1 {
			rec.Class("leadership_needed_search")
		}
		if hdr.Slot > gap {
			ctx.PrevSlot = hdr.Slot - gap
		}
		cs := map[string]any{
			"era": era.Name, "cold_seed": evi.Hex(keys.ColdSeed), "vrf_seed": evi.Hex(keys.VrfSeed), "kes_seed": evi.Hex(keys.KesSeed),
			"f": f.RatString(), "pool_stake": pool, "total_stake": total, "slots_per_kes_period": spk, "max_kes_evolutions": maxEvo,
			"opcert_period": kp, "opcert_counter": seq, "kes_evolution": evol, "epoch_nonce": evi.Hex(ctx.EpochNonce),
			"slot": hdr.Slot, "prev_slot": ctx.PrevSlot, "prev_block_no": prevBlockNo, "prev_hash": evi.Hex(prevHash), "body": body.Desc,
			"header": evi.Hex(hdr.headerBytes()),
		}
		failc := func(key, what string, extra map[string]any) bool {
			c2 := map[string]any{}
			for k, v := range cs {
				c2[k] = v
			}
			for k, v := range extra {
				c2[k] = v
			}
			return rec.Fail(rt, key, what, c2)
		}

		// ---- positive
		v := c40Run(hdr, ctx, body, nil)
		rec.EvalN(5)
		mode := "praos"
		if era.TPraos {
			mode = "tpraos"
		}
		if !v.HV {
			failc("built-header-rejected:ValidateHeader:"+mode, fmt.Sprintf("ValidateHeader rejects the builder's header: %v", v.HVErrs), nil)
			return
		}
		if !bytes.Equal(v.HVOut, hdr.VrfOut) {
			failc("built-header:vrf-output-mismatch", fmt.Sprintf("ValidateResult.VrfOutput %x != header output %x", v.HVOut, hdr.VrfOut), nil)
			return
		}
		if !v.Decoded {
			failc("built-block-rejected:decode:"+era.Name, "block with the builder's header does not decode: "+v.DecodeErr, nil)
			return
		}
		if !v.VB {
			failc("built-block-rejected:VerifyBlock:"+era.Name, "VerifyBlock rejects the built block: "+v.VBErr, nil)
			return
		}
		if !v.VBNoParse {
			failc("built-block-rejected:VerifyBlock-after-lenient-parse:"+era.Name, "VerifyBlock rejects the built block parsed with SkipBodyHashValidation", nil)
			return
		}
		if !v.HdrKes {
			failc("built-header-rejected:VerifyKes:"+era.Name, "ledger.VerifyKes rejects the built header", nil)
			return
		}
		if !v.OC {
			failc("built-header-rejected:ValidateOpCert", "ledger.ValidateOpCert rejects the built header's certificate: "+v.OCErr, nil)
			return
		}
		rec.Eval()
		if err := refValidateCrypto(hdr, ctx); err != nil {
			failc("built-header-rejected:harness-reference:"+mode, "the harness' independent VRF/KES/Ed25519 models reject the builder's header: "+err.Error(), nil)
			return
		}

		// ---- the long-lived builder against fresh ones ------------------------------------
		{
			fresh, ferr := c40Build(keys, ctx, body, oc, evol, hdr.Slot, major, minor)
			rec.Eval()
			if ferr != nil {
				failc("history:fresh-builder-refuses", fmt.Sprintf("a fresh BlockBuilder refuses the slot a builder with %d earlier calls accepted: %v", lb.calls-1, ferr), nil)
				return
			}
			if !bytes.Equal(fresh.headerBytes(), hdr.headerBytes()) {
				rec.Class("reused_builder_bytes_differ_from_fresh")
				if vf := c40Run(fresh, ctx, body, nil); !vf.HV || !vf.ledgerAccepts() {
					failc("history:fresh-builder-header-rejected", "a fresh BlockBuilder's header for the same input is rejected", map[string]any{"fresh_header": evi.Hex(fresh.headerBytes())})
					return
				}
			}
			// same builder: another context on the same slot (other nonce, other stake), then the original again
			alt := *ctx
			alt.EpochNonce = clone(ctx.EpochNonce)
			flipIn(&alt.EpochNonce, int(rmut>>33)%256)
			if rmut&(1<<32) != 0 && ctx.PoolStake > 1 {
				alt.PoolStake = ctx.PoolStake/3 + 1
			}
			hAlt, eAlt := lb.build(&alt, body, hdr.Slot, major, minor)
			fAlt, efAlt := c40Build(keys, &alt, body, oc, evol, hdr.Slot, major, minor)
			rec.EvalN(2)
			if !sameOutcome(eAlt, efAlt) {
				failc("history:reused-builder-outcome-differs", fmt.Sprintf("for another epoch nonce/stake on the same slot the long-lived BlockBuilder says %v, a fresh one %v", eAlt, efAlt), map[string]any{"alt_nonce": evi.Hex(alt.EpochNonce), "alt_pool_stake": alt.PoolStake})
				return
			}
			if eAlt == nil {
				rec.Class("alt_context_also_leads")
				if !alt.validator().ValidateHeader(alt.input(hAlt)).Valid {
					failc("history:reused-builder-alt-header-rejected", "the long-lived BlockBuilder's header for another epoch nonce/stake on the same slot is rejected by ValidateHeader under that context", map[string]any{"alt_nonce": evi.Hex(alt.EpochNonce), "alt_pool_stake": alt.PoolStake, "alt_header": evi.Hex(hAlt.headerBytes())})
					return
				}
				if !bytes.Equal(hAlt.headerBytes(), fAlt.headerBytes()) {
					rec.Class("reused_builder_bytes_differ_from_fresh")
				}
			} else {
				rec.Class("alt_context_does_not_lead")
			}
			// refused requests as history: slots that cannot be represented / cannot follow a block
			for _, sl := range []uint64{math.MaxUint64, 1 << 63, 0} {
				if _, e := lb.build(ctx, body, sl, major, minor); e == nil {
					rec.Class(fmt.Sprintf("builder_builds_for_slot_%d", sl))
				} else if !errors.Is(e, consensus.ErrNotSlotLeader) {
					rec.Class("builder_refuses_extreme_slot")
				}
			}
			again, eAgain := lb.build(ctx, body, hdr.Slot, major, minor)
			rec.Eval()
			if eAgain != nil {
				failc("history:reused-builder-refuses-repeat", fmt.Sprintf("the BlockBuilder that produced the header refuses the identical input after building for another context: %v", eAgain), nil)
				return
			}
			if !bytes.Equal(again.headerBytes(), hdr.headerBytes()) {
				rec.Class("rebuild_bytes_differ")
				if !ctx.validator().ValidateHeader(ctx.input(again)).Valid {
					failc("history:rebuilt-header-rejected", "the header rebuilt from the identical input by the same BlockBuilder is rejected", map[string]any{"rebuilt_header": evi.Hex(again.headerBytes())})
					return
				}
			} else {
				rec.Class("rebuild_same_bytes")
			}
			// one decoded block / header object, verified repeatedly with rejections in between
			ph, _ := blake2b.New(28, nil)
			ph.Write(hdr.Issuer)
			var pkh common.PoolKeyHash
			copy(pkh[:], ph.Sum(nil))
			ls := &poolLedgerState{Pools: map[common.PoolKeyHash]common.VrfKeyHash{pkh: common.VrfKeyHash(blake2b.Sum256(hdr.VrfKey))}}
			if d := c40BlockObjectHistory(ctx, assembleBlock(hdr.headerBytes(), body), hdr.headerBytes(), common.VerifyConfig{SkipTransactionValidation: true, LedgerState: ls}); d != "" {
				failc("history:block-object-verdict-differs", d, nil)
				return
			}
			rec.EvalN(7)
		}

		// expectation helpers -------------------------------------------------------
		// wire-level change: every validator that sees the bytes must reject on its own
		expectAllReject := func(kind, name string, h2 *hdrFields, c2 *valCtx, blockBytes []byte, b2 *blockBody) bool {
			if b2 == nil {
				b2 = body
			}
			vv := c40Run(h2, c2, b2, blockBytes)
			rec.EvalN(4)
			ex := map[string]any{"mutation": kind + ":" + name, "mutated_header": evi.Hex(h2.headerBytes()), "validator_nonce": evi.Hex(c2.EpochNonce)}
			if vv.HV {
				if !failc("accept:"+kind+":"+name+":ValidateHeader", "ValidateHeader accepts a header with "+name+" changed", ex) {
					return false
				}
			}
			if vv.ledgerAccepts() {
				if !failc("accept:"+kind+":"+name+":VerifyBlock", "NewBlockFromCbor+VerifyBlock accept a block with "+name+" changed", ex) {
					return false
				}
			}
			if vv.VBNoParse {
				if !failc("accept:"+kind+":"+name+":VerifyBlock-after-lenient-parse", "VerifyBlock accepts a block (parsed with SkipBodyHashValidation) with "+name+" changed", ex) {
					return false
				}
			}
			if vv.HdrKes && name != "epoch_nonce" {
				if !failc("accept:"+kind+":"+name+":VerifyKes", "ledger.VerifyKes accepts a header with "+name+" changed", ex) {
					return false
				}
			}
			if !vv.Decoded {
				rec.Class("negative_rejected_at_decode")
			}
			return true
		}

		// (1) one change per signed header field, signature kept
		for round := 0; round < wireRounds; round++ {
			for _, m := range wireMutations(hdr, rmut^(uint64(round)*0x9e3779b97f4a7c15)) {
				h2 := hdr.clone()
				m.Apply(h2)
				if bytes.Equal(h2.headerBytes(), hdr.headerBytes()) {
					rt.Fatalf("harness: mutation %s is a no-op", m.Name)
				}
				if !expectAllReject("wire", m.Name, h2, ctx, nil, nil) {
					return
				}
				rec.Class("neg_wire_field")
			}
		}

		// (1b) same header data, one integer head re-encoded in a longer form (the signed
		// bytes change although no field value does): the signature must not survive
		{
			tree := hdr.bodyTree()
			idx := []int{0, 1}[int(rmut>>40)%2]
			w := []int{1, 2, 4, 8}[int(rmut>>42)%4]
			n := tree.Items[idx]
			for n.Width >= w {
				w *= 2
			}
			if w <= 8 {
				n.Width = w
				nb := tree.Encode()
				if bytes.Equal(nb, hdr.bodyBytes()) {
					rt.Fatalf("harness: re-encoding is a no-op")
				}
				hb := xcbor.A(tree, xcbor.B(hdr.Sig)).Encode()
				blockBytes := assembleBlock(hb, body)
				rec.EvalN(3)
				ex := map[string]any{"mutation": "wire:non-minimal-int-head", "mutated_header": evi.Hex(hb)}
				in := ctx.input(hdr)
				in.HeaderBodyCbor = nb
				if ctx.validator().ValidateHeader(in).Valid {
					if !failc("accept:wire:reencoded-body:ValidateHeader", "ValidateHeader accepts the signature over differently encoded body bytes", ex) {
						return
					}
				}
				cfg := common.VerifyConfig{SkipTransactionValidation: true, SkipStakePoolValidation: true}
				if blk, err := ledger.NewBlockFromCbor(era.BlockType, blockBytes); err == nil {
					if ok, _, _, _, err := ledger.VerifyBlock(blk, hex.EncodeToString(ctx.EpochNonce), spk, cfg); ok && err == nil {
						if !failc("accept:wire:reencoded-body:VerifyBlock", "VerifyBlock accepts a header whose body bytes were re-encoded (non-minimal integer head) under the old signature", ex) {
							return
						}
					}
					rec.Class("reencoded_body_decoded")
				} else {
					rec.Class("reencoded_body_rejected_at_decode")
				}
				if hd, err := ledger.NewBlockHeaderFromCbor(era.BlockType, hb); err == nil {
					if ok, err := ledger.VerifyKes(hd, spk); ok && err == nil {
						if !failc("accept:wire:reencoded-body:VerifyKes", "ledger.VerifyKes accepts a header whose body bytes were re-encoded under the old signature", ex) {
							return
						}
					}
				}
			}
		}

		// (2) body changes: one bit somewhere in the body segments; a different body
		full := assembleBlock(hdr.headerBytes(), body)
		hl := 1 + len(hdr.headerBytes())
		bodyBit := int(rmut>>12) % ((len(full) - hl) * 8)
		fb := append([]byte(nil), full...)
		fb[hl+bodyBit/8] ^= 1 << (bodyBit % 8)
		{
			vv := c40Run(hdr, ctx, body, fb)
			rec.EvalN(2)
			ex := map[string]any{"mutation": "body:bit", "body_bit": bodyBit, "block": evi.Hex(fb)}
			if vv.ledgerAccepts() {
				if !failc("accept:body:bit-flip:VerifyBlock", fmt.Sprintf("block with body bit %d flipped decodes and verifies", bodyBit), ex) {
					return
				}
			}
			if vv.VBNoParse {
				if !failc("accept:body:bit-flip:VerifyBlock-after-lenient-parse", fmt.Sprintf("VerifyBlock accepts a block (parsed with SkipBodyHashValidation) whose body bit %d is flipped", bodyBit), ex) {
					return
				}
			}
			if !vv.Decoded {
				rec.Class("body_flip_rejected_at_decode")
			} else {
				rec.Class("body_flip_rejected_by_verifyblock")
			}
		}
		{
			other := emptyBody(era)
			if body.Desc == "empty" {
				other, _ = fixtureBody(era, 1)
			}
			vv := c40Run(hdr, ctx, other, nil)
			rec.EvalN(2)
			if vv.ledgerAccepts() || vv.VBNoParse {
				if !failc("accept:body:swapped:VerifyBlock", "block whose body was replaced ("+other.Desc+") decodes and verifies", map[string]any{"mutation": "body:swap"}) {
					return
				}
			}
		}

		// (3) wrong epoch nonce at the validator
		{
			c2 := *ctx
			c2.EpochNonce = append([]byte(nil), ctx.EpochNonce...)
			flipIn(&c2.EpochNonce, int(rmut>>20)%256)
			if !expectAllReject("context", "epoch_nonce", hdr, &c2, nil, nil) {
				return
			}
		}

		// (4) opcert changes by a holder of the hot (KES) key only: header re-signed
		resign := func(h2 *hdrFields, seed []byte, e uint64) bool {
			if e > 63 {
				e = 63
			}
			ks, err := newEvolvingKES(seed, e)
			if err != nil {
				rt.Fatalf("harness: KES: %v", err)
			}
			s, err := ks.Sign(h2.bodyBytes())
			if err != nil {
				rt.Fatalf("harness: KES sign: %v", err)
			}
			h2.Sig = s
			return true
		}
		// attacker keys are derived so that they can never coincide with the pool's
		ak32 := blake2b.Sum256(append(append([]byte("attacker-kes"), keys.KesSeed...), genSeed32(rt, "attackerKesSeed")...))
		ac32 := blake2b.Sum256(append(append([]byte("attacker-cold"), keys.ColdSeed...), genSeed32(rt, "attackerColdSeed")...))
		attackerKes, attackerCold := ak32[:], ac32[:]
		type rs struct {
			name string
			f    func(h2 *hdrFields) (seed []byte, e uint64)
		}
		for _, m := range []rs{
			{"counter", func(h2 *hdrFields) ([]byte, uint64) {
				if rmut&1 == 0 || h2.Seq == 0 {
					h2.Seq++
				} else {
					h2.Seq--
				}
				return keys.KesSeed, evol
			}},
			{"kes_period", func(h2 *hdrFields) ([]byte, uint64) {
				// start the certificate one period earlier: evolution grows by one
				h2.KesPeriod--
				return keys.KesSeed, evol + 1
			}},
			{"cold_signature", func(h2 *hdrFields) ([]byte, uint64) {
				flipIn(&h2.ColdSig, int(rmut>>28)%512)
				return keys.KesSeed, evol
			}},
			{"foreign_hot_key", func(h2 *hdrFields) ([]byte, uint64) {
				ak, _ := newEvolvingKES(attackerKes, 0)
				h2.HotVkey = ak.PublicKey()
				return attackerKes, evol
			}},
			{"foreign_issuer", func(h2 *hdrFields) ([]byte, uint64) {
				ap, _ := newPoolKeys(attackerCold, keys.VrfSeed, keys.KesSeed)
				h2.Issuer = ap.ColdPub
				return keys.KesSeed, evol
			}},
		} {
			h2 := hdr.clone()
			seed, e := m.f(h2)
			if m.name == "kes_period" && evol+1 >= maxEvo {
				// would also leave the window; covered by the window cases below
				rec.Class("resigned_kes_period_skipped_at_window_end")
				continue
			}
			resign(h2, seed, e)
			vv := c40Run(h2, ctx, body, nil)
			rec.EvalN(3)
			ex := map[string]any{"mutation": "resigned:" + m.name, "mutated_header": evi.Hex(h2.headerBytes())}
			if vv.HV {
				if !failc("accept:resigned-opcert:"+m.name+":ValidateHeader", "ValidateHeader accepts a header whose certificate "+m.name+" was changed and the header re-signed with the hot key", ex) {
					return
				}
			}
			if vv.Decoded && vv.OC {
				if !failc("accept:resigned-opcert:"+m.name+":ValidateOpCert", "ledger.ValidateOpCert accepts a certificate whose "+m.name+" was changed", ex) {
					return
				}
			}
			if vv.HV && vv.ledgerAccepts() && vv.OC {
				failc("accept:resigned-opcert:"+m.name+":all", "every validator accepts", ex)
				return
			}
			if vv.ledgerAccepts() {
				rec.Class("observe_verifyblock_alone_accepts_resigned_" + m.name)
			} else {
				rec.Class("observe_verifyblock_alone_rejects_resigned_" + m.name)
			}
			rec.Class("neg_resigned_opcert")
		}

		// (5) KES period outside the certificate's window, genuinely built
		type win struct {
			name   string
			period uint32
			kesEvo uint64
			vbMust bool // VerifyBlock on its own has enough information to reject
		}
		d := uint32(1 + rmut%3)
		wins := []win{
			{"future", uint32(cur) + d, 0, true},
			{"expired_first", uint32(cur - maxEvo), maxEvo, maxEvo > 63},
			{"expired_later", uint32(cur - maxEvo - uint64(d)), maxEvo + uint64(d), maxEvo+uint64(d) > 63},
		}
		for _, w := range wins {
			oc2 := keys.issueOpCert(seq, w.period)
			ke := w.kesEvo
			if ke > 63 {
				ke = 63
			}
			h2, err := c40Build(keys, ctx, body, oc2, ke, hdr.Slot, major, minor)
			if err != nil {
				failc("build-error:window:"+w.name, fmt.Sprintf("BuildHeader failed for a certificate with start period %d at KES period %d: %v", w.period, cur, err), nil)
				return
			}
			vv := c40Run(h2, ctx, body, nil)
			rec.EvalN(3)
			ex := map[string]any{"mutation": "window:" + w.name, "opcert_period_used": w.period, "current_kes_period": cur, "mutated_header": evi.Hex(h2.headerBytes())}
			if vv.HV {
				if !failc("accept:window:"+w.name+":ValidateHeader", fmt.Sprintf("ValidateHeader accepts a header at KES period %d under a certificate starting at %d (max evolutions %d)", cur, w.period, maxEvo), ex) {
					return
				}
			}
			if vv.Decoded && vv.OC {
				if !failc("accept:window:"+w.name+":ValidateOpCert", fmt.Sprintf("ledger.ValidateOpCert accepts KES period %d under a certificate starting at %d (max evolutions %d)", cur, w.period, maxEvo), ex) {
					return
				}
			}
			if vv.ledgerAccepts() {
				if w.vbMust {
					if !failc("accept:window:"+w.name+":VerifyBlock", fmt.Sprintf("VerifyBlock accepts a block at KES period %d under a certificate starting at %d", cur, w.period), ex) {
						return
					}
				} else {
					rec.Class("observe_verifyblock_alone_accepts_expired_cert")
				}
			}
			rec.Class("neg_window_" + w.name)
		}
		// genuine certificate, but the hot key is at another evolution than the slot implies
		{
			e2 := (evol + 1 + rmut%62) % 64
			if e2 == evol {
				e2 = (evol + 1) % 64
			}
			h2, err := c40Build(keys, ctx, body, oc, e2, hdr.Slot, major, minor)
			if err != nil {
				failc("build-error:evolution-mismatch", fmt.Sprintf("BuildHeader failed: %v", err), nil)
				return
			}
			if !expectAllReject("window", "kes_evolution_mismatch", h2, ctx, nil, nil) {
				return
			}
		}

		// (6) extras outside the statement: recorded, never flagged
		{
			c2 := *ctx
			c2.PoolStake = 0
			if c2.validator().ValidateHeader(c2.input(hdr)).Valid {
				rec.Class("extra_zero_stake_accepted")
			} else {
				rec.Class("extra_zero_stake_rejected")
			}
			c3 := *ctx
			wrong := blake2b.Sum256(append([]byte("x"), hdr.VrfKey...))
			c3.RegisteredVrfKH = wrong[:]
			vv := c40Run(hdr, &c3, body, nil)
			if vv.HV || vv.ledgerAccepts() {
				rec.Class("extra_unregistered_vrf_key_accepted")
			} else {
				rec.Class("extra_unregistered_vrf_key_rejected")
			}
		}

		hh := blake2b.Sum256(hdr.headerBytes())
		rec.NonTrivial(hex.EncodeToString(hh[:]), map[string]any{
			"era": era.Name, "f": f.RatString(), "pool_stake": pool, "total_stake": total, "slot": hdr.Slot, "kes_evolution": evol,
			"max_kes_evolutions": maxEvo, "slots_per_kes_period": spk, "body": body.Desc, "leader_search_tries": tries,
			"header": evi.Hex(hdr.headerBytes())})
	})
}
