package crypto

import (
	"bytes"
	"fmt"
	"math"
	"sort"
	"testing"

	"github.com/blinklabs-io/gouroboros/kes"
	"github.com/blinklabs-io/gouroboros/ledger"
	"golang.org/x/crypto/blake2b"
	"pgregory.net/rapid"

	"verif/harness/internal/evi"
)

// kesPaths runs every public verification path that applies to the depth and
// returns their verdicts by name.
func kesPaths(depth int, pk []byte, t uint64, msg, sig []byte) map[string]bool {
	a, b, c := clone(pk), clone(msg), clone(sig)
	defer func() {
		if (!bytes.Equal(a, pk) || !bytes.Equal(b, msg) || !bytes.Equal(c, sig)) && len(c39ArgWrites) < 8 {
			c39ArgWrites = append(c39ArgWrites, fmt.Sprintf("a KES verification changed its arguments: public key intact=%v message intact=%v signature intact=%v",
				bytes.Equal(a, pk), bytes.Equal(b, msg), bytes.Equal(c, sig)))
		}
	}()
	out := map[string]bool{}
	if depth == 0 {
		// a depth-0 "sum" is the bare Ed25519 leaf; NewSumKesFromBytes has no depth 0
		if len(sig) != kes.Sum0KesSigSize {
			out["Sum0KesSig.Verify"] = false
		} else {
			out["Sum0KesSig.Verify"] = kes.Sum0KesSig(sig).Verify(t, pk, msg)
		}
		return out
	}
	s, err := kes.NewSumKesFromBytes(uint64(depth), sig)
	if err != nil {
		out["SumXKesSig.Verify"] = false
	} else {
		out["SumXKesSig.Verify"] = s.Verify(t, pk, msg)
	}
	if depth == kes.CardanoKesDepth {
		out["VerifySignedKES"] = kes.VerifySignedKES(pk, t, msg, sig)
	}
	return out
}

// c39ArgWrites collects observations of a callee writing into caller memory.
var c39ArgWrites []string

func anyAccept(m map[string]bool) (string, bool) {
	names := make([]string, 0, len(m))
	for k := range m {
		names = append(names, k)
	}
	sort.Strings(names)
	for _, k := range names {
		if m[k] {
			return k, true
		}
	}
	return "", false
}

func firstReject(m map[string]bool) (string, bool) {
	names := make([]string, 0, len(m))
	for k := range m {
		names = append(names, k)
	}
	sort.Strings(names)
	for _, k := range names {
		if !m[k] {
			return k, true
		}
	}
	return "", false
}

// foreignPkOf returns a different, well-formed looking key derived from pk.
func foreignPkOf(pk []byte) []byte {
	h := blake2b.Sum256(pk)
	return h[:]
}

func kesSigRegion(depth, bit int) string {
	byteIdx := bit / 8
	if byteIdx < 64 {
		return "sigma"
	}
	return fmt.Sprintf("vkpair-level%d", (byteIdx-64)/64+1)
}

func TestC39(t *testing.T) {
	rec := evi.New(t, "C39", evi.Exploration,
		"cases = (depth 1..6, 32-byte seed, message 0..300 bytes) drawn by rapid; the key is evolved through EVERY period 0..2^depth-1; at each checked period t (all periods for depth<=4; 0,1,mid-1,mid,last-1,last + random ones for depth 5-6) the signature must verify at t on every public path (SumXKesSig.Verify; VerifySignedKES and ledger.VerifyKesComponents for depth 6) and under an independent tree-materialising reference verifier, and must fail at EVERY other in-range period, at out-of-range periods, for changed messages, changed/foreign keys and bit flips of the signature (exhaustive for depth<=2 and for 1 in 8 other cases, else stratified sample); public key (cached and recomputed from key data) must stay constant; signing for an earlier period must be refused, signing for a later one must error or give a non-verifying signature, also with a re-labelled Period field; the evolved key data must not contain any seed from which an earlier leaf is derivable. non-trivial = (key, period t>=1) pair with all of the above evaluated; distinct by (depth, seed, t, message)")
	defer rec.Finish()
	rec.Assume(
		"crypto/ed25519 and blake2b are trusted by both sides",
		"the harness reference (full-tree sum-KES from the cardano-base definition) is trusted; when its key derivation does not match the library's, the seed-absence check is skipped and counted",
		"negatives are sampled: neighbours of genuine signatures, not arbitrary forgeries",
	)
	flipBudget := rec.Pick(96, 192)
	keyFlipBudget := rec.Pick(32, 64)

	rec.Check(func(rt *rapid.T) {
		depth := rapid.SampledFrom([]int{0, 1, 2, 3, 4, 5, 6, 6, 6, 6, 7}).Draw(rt, "depth")
		seed := genSeed32(rt, "seed")
		seedOrig := clone(seed)
		var msg []byte
		switch rapid.IntRange(0, 19).Draw(rt, "msgKind") {
		case 0:
			msg = []byte{}
			rec.Class("msg_empty")
		case 1:
			// larger than 64 KiB (header bodies are small, but nothing bounds the message)
			n := rapid.SampledFrom([]int{65535, 65536, 65537, 70001}).Draw(rt, "bigLen")
			fill := rapid.SliceOfN(rapid.Byte(), 64, 64).Draw(rt, "bigFill")
			msg = bytes.Repeat(fill, n/64+1)[:n]
			rec.Class("msg_over_64KiB")
		default:
			msg = rapid.SliceOfN(rapid.Byte(), 0, 300).Draw(rt, "msg")
		}
		exhaustiveFlips := depth <= 2 || rapid.IntRange(0, 7).Draw(rt, "exhFlips") == 0
		flipBudget, keyFlipBudget := flipBudget, keyFlipBudget
		if len(msg) > 60000 {
			// hashing 64 KiB per verification: keep the neighbourhood small
			exhaustiveFlips = false
			flipBudget, keyFlipBudget = 8*(depth+1), 8
		}
		nPeriods := uint64(1) << uint(depth)
		last := nPeriods - 1
		check := map[uint64]bool{}
		if depth <= 4 {
			for p := uint64(0); p < nPeriods; p++ {
				check[p] = true
			}
		} else {
			for _, p := range []uint64{0, 1, nPeriods/2 - 1, nPeriods / 2, last - 1, last} {
				check[p] = true
			}
			for _, p := range rapid.SliceOfN(rapid.Uint64Range(0, last), 3, 3).Draw(rt, "periods") {
				check[p] = true
			}
		}
		rec.Class(fmt.Sprintf("depth_%d", depth))
		cs := map[string]any{"depth": depth, "seed": evi.Hex(seed), "msg": evi.Hex(msg)}
		msgOrig := clone(msg)
		type heldSig struct {
			t          uint64
			msg        []byte
			live, copy []byte
		}
		var held []heldSig

		ref := refKesBuild(depth, seed, 0)
		sk, pkLive, err := kes.KeyGen(uint64(depth), seed)
		if err != nil {
			rec.Fail(rt, "keygen-error", fmt.Sprintf("KeyGen(%d) failed: %v", depth, err), cs)
			return
		}
		if !bytes.Equal(seed, seedOrig) {
			rec.Fail(rt, "callee-writes-caller-memory:KeyGen-seed", fmt.Sprintf("KeyGen changed the caller's seed buffer to %x", seed), cs)
			return
		}
		pk0 := append([]byte(nil), pkLive...)
		cs["pk"] = evi.Hex(pk0)
		derivOK := bytes.Equal(pk0, ref.vk)
		if derivOK {
			rec.Class("pk_equals_reference")
		} else {
			rec.Class("pk_differs_from_reference")
		}
		foreignSeed := genSeed32(rt, "foreignSeed")
		_, foreignPk, _ := kes.KeyGen(uint64(depth), foreignSeed)

		for tp := uint64(0); ; tp++ {
			cs["period"] = tp
			// ---- public key is invariant (cached, and recomputed from the evolved key data)
			if got := kes.PublicKey(sk); !bytes.Equal(got, pk0) {
				rec.Fail(rt, "pubkey-changed:cached", fmt.Sprintf("PublicKey after %d updates = %x, was %x", tp, got, pk0), cs)
				return
			}
			rehydrated := &kes.SecretKey{Depth: sk.Depth, Period: sk.Period, Data: append([]byte(nil), sk.Data...)}
			if got := kes.PublicKey(rehydrated); !bytes.Equal(got, pk0) {
				rec.Fail(rt, "pubkey-changed:from-key-data", fmt.Sprintf("public key recomputed from the key data after %d updates = %x, was %x", tp, got, pk0), cs)
				return
			}
			rec.EvalN(2)
			if sk.Period != tp {
				rec.Fail(rt, "period-field", fmt.Sprintf("after %d updates SecretKey.Period = %d", tp, sk.Period), cs)
				return
			}
			// ---- forward security of the key material
			if derivOK {
				if bytes.Contains(sk.Data, ref.leaf(tp).seed) {
					rec.Class("current_leaf_seed_present")
					var forb [][]byte
					ref.forbiddenSeeds(tp, &forb)
					for _, fs := range forb {
						if bytes.Count(fs, []byte{0}) >= 8 {
							// a mostly-zero (counter-like) master seed is indistinguishable from
							// erased memory next to an arbitrary byte; hashes never look like that
							rec.Class("stale_seed_search_skipped_low_entropy_seed")
							continue
						}
						if bytes.Contains(sk.Data, fs) {
							if !rec.Fail(rt, "forward-security:stale-seed-in-key",
								fmt.Sprintf("key evolved to period %d still contains seed %x, from which the signing key of an earlier period is derivable", tp, fs), cs) {
								return
							}
						}
					}
					rec.EvalN(len(forb))
					rec.ClassN("stale_seed_searches", len(forb))
				} else {
					rec.Class("leaf_seed_layout_unknown")
				}
			}

			if check[tp] {
				sig, err := kes.Sign(sk, tp, msg)
				if err != nil {
					rec.Fail(rt, "sign-error", fmt.Sprintf("Sign at the key's own period %d failed: %v", tp, err), cs)
					return
				}
				cs["sig"] = evi.Hex(sig)
				if len(sig) != 64+64*depth {
					rec.Fail(rt, "sig-size", fmt.Sprintf("signature is %d bytes for depth %d", len(sig), depth), cs)
					return
				}
				// positive: every path + the independent verifier
				pos := kesPaths(depth, pk0, tp, msg, sig)
				rec.EvalN(len(pos))
				if name, bad := firstReject(pos); bad {
					rec.Fail(rt, "genuine-rejected:"+name, fmt.Sprintf("%s rejects the genuine signature at period %d", name, tp), cs)
					return
				}
				rec.Eval()
				if !refKesVerify(depth, pk0, tp, msg, sig) {
					rec.Fail(rt, "ref-rejects-library-sig", fmt.Sprintf("independent sum-KES verifier rejects the library signature at period %d", tp), cs)
					return
				}
				held = append(held, heldSig{tp, msg, sig, clone(sig)})
				if derivOK {
					rsig := ref.sign(tp, msg)
					if bytes.Equal(rsig, sig) {
						rec.Class("sig_equals_reference")
					}
					rp := kesPaths(depth, pk0, tp, msg, rsig)
					rec.EvalN(len(rp))
					if name, bad := firstReject(rp); bad {
						cs["ref_sig"] = evi.Hex(rsig)
						rec.Fail(rt, "library-rejects-ref-sig:"+name, fmt.Sprintf("%s rejects the reference signer's signature at period %d", name, tp), cs)
						return
					}
				}
				if depth == kes.CardanoKesDepth {
					// ledger path: evolution = slot/slotsPerKesPeriod - opcert start period
					spk := rapid.Uint64Range(1, 200000).Draw(rt, "slotsPerKesPeriod")
					start := rapid.Uint64Range(0, 5000).Draw(rt, "opcertStart")
					slot := (start+tp)*spk + rapid.Uint64Range(0, spk-1).Draw(rt, "slotInPeriod")
					ok, err := ledger.VerifyKesComponents(msg, sig, pk0, start, slot, spk)
					rec.Eval()
					if err != nil || !ok {
						cs["spk"], cs["start"], cs["slot"] = spk, start, slot
						rec.Fail(rt, "genuine-rejected:ledger.VerifyKesComponents", fmt.Sprintf("VerifyKesComponents(start=%d, slot=%d, spk=%d) = %v, %v for evolution %d", start, slot, spk, ok, err, tp), cs)
						return
					}
					// extreme parameters: one slot per period; certificate start at the top of the range
					if ok, err := ledger.VerifyKesComponents(msg, sig, pk0, 0, tp, 1); err != nil || !ok {
						rec.Fail(rt, "genuine-rejected:ledger.VerifyKesComponents:spk1", fmt.Sprintf("VerifyKesComponents(start=0, slot=%d, spk=1) = %v, %v", tp, ok, err), cs)
						return
					}
					top := uint64(math.MaxUint64) - last
					if ok, err := ledger.VerifyKesComponents(msg, sig, pk0, top, top+tp, 1); err != nil || !ok {
						rec.Fail(rt, "genuine-rejected:ledger.VerifyKesComponents:top-of-range", fmt.Sprintf("VerifyKesComponents(start=%d, slot=%d, spk=1) = %v, %v", top, top+tp, ok, err), cs)
						return
					}
					for _, x := range [][3]uint64{{math.MaxUint64, 0, 1}, {0, math.MaxUint64, 1}, {1 << 63, 1<<63 + nPeriods + tp, 1}, {math.MaxUint64, math.MaxUint64, 1}, {tp + 1, tp, 1}, {0, tp, 0}} {
						if x[0] == 0 && x[1] == tp && x[2] == 1 {
							continue
						}
						if x[0] == math.MaxUint64 && x[1] == math.MaxUint64 && tp == 0 {
							continue // evolution 0: genuinely valid
						}
						ok, _ := ledger.VerifyKesComponents(msg, sig, pk0, x[0], x[1], x[2])
						rec.Eval()
						if ok {
							cs["start"], cs["slot"], cs["spk"] = x[0], x[1], x[2]
							if !rec.Fail(rt, "accept:ledger.VerifyKesComponents:extreme", fmt.Sprintf("signature of evolution %d accepted for start=%d slot=%d spk=%d", tp, x[0], x[1], x[2]), cs) {
								return
							}
						}
					}
					rec.EvalN(2)
					// a slot in another KES period (also before the certificate start) must fail
					for _, dp := range []int64{-1, 1, -int64(tp) - 1, int64(last-tp) + 1} {
						np := int64(start+tp) + dp
						if np < 0 {
							continue
						}
						slot2 := uint64(np)*spk + slot%spk
						ok, _ := ledger.VerifyKesComponents(msg, sig, pk0, start, slot2, spk)
						rec.Eval()
						if ok {
							cs["spk"], cs["start"], cs["slot"] = spk, start, slot2
							if !rec.Fail(rt, "accept:ledger.VerifyKesComponents:other-period", fmt.Sprintf("signature of evolution %d accepted for slot %d (KES period %d, certificate start %d)", tp, slot2, np, start), cs) {
								return
							}
						}
					}
				}

				// negatives ------------------------------------------------------------
				neg := func(key, what string, pk []byte, per uint64, m, s []byte) bool {
					res := kesPaths(depth, pk, per, m, s)
					rec.EvalN(len(res))
					if name, acc := anyAccept(res); acc {
						c2 := map[string]any{}
						for k, v := range cs {
							c2[k] = v
						}
						c2["verify_pk"], c2["verify_period"], c2["verify_msg"], c2["verify_sig"] = evi.Hex(pk), per, evi.Hex(m), evi.Hex(s)
						return rec.Fail(rt, key+":"+name, fmt.Sprintf("signature made at period %d (depth %d): %s — accepted by %s", tp, depth, what, name), c2)
					}
					return true
				}
				// every other in-range period
				for o := uint64(0); o < nPeriods; o++ {
					if o != tp && !neg("accept:other-period", fmt.Sprintf("verified at period %d", o), pk0, o, msg, sig) {
						return
					}
				}
				rec.ClassN("other_period_verifications", int(nPeriods-1))
				// out-of-range periods (a bare depth-0 leaf has no period argument to check)
				outOfRange := []uint64{nPeriods, nPeriods + tp, 2*nPeriods + tp, 1 << 31, 1<<32 - 1, 1 << 32, 1<<32 + tp, 1<<32 + nPeriods + tp,
					1<<63 - 1, 1 << 63, 1<<63 + tp, 1<<63 + nPeriods + tp, math.MaxUint64, math.MaxUint64 - last + tp, math.MaxUint64 - nPeriods + 1 + tp}
				if depth == 0 {
					outOfRange = nil
				}
				for _, o := range outOfRange {
					if !neg("accept:out-of-range-period", fmt.Sprintf("verified at out-of-range period %d", o), pk0, o, msg, sig) {
						return
					}
				}
				// other messages
				var msgs [][]byte
				msgs = append(msgs, append(append([]byte(nil), msg...), rapid.Byte().Draw(rt, "ext")))
				if len(msg) > 0 {
					msgs = append(msgs, msg[:len(msg)-1])
					nb := len(msg) * 8
					k := 12
					if nb < k {
						k = nb
					}
					for _, b := range rapid.SliceOfNDistinct(rapid.IntRange(0, nb-1), k, k, rapid.ID[int]).Draw(rt, "msgBits") {
						msgs = append(msgs, flipBit(msg, b))
					}
				}
				for _, m2 := range msgs {
					if !neg("accept:other-message", "verified for a different message", pk0, tp, m2, sig) {
						return
					}
				}
				// other public keys
				if !bytes.Equal(foreignPk, pk0) {
					if !neg("accept:foreign-key", "verified under an unrelated public key", foreignPk, tp, msg, sig) {
						return
					}
				}
				for _, k2 := range [][]byte{make([]byte, 32), bytes.Repeat([]byte{0xff}, 32)} {
					if !neg("accept:constant-key", fmt.Sprintf("verified under the constant public key %x..", k2[:2]), k2, tp, msg, sig) {
						return
					}
				}
				for _, s2 := range [][]byte{make([]byte, len(sig)), bytes.Repeat([]byte{0xff}, len(sig))} {
					if !neg("accept:constant-signature", fmt.Sprintf("the constant signature %x.. verified", s2[:2]), pk0, tp, msg, s2) {
						return
					}
				}
				wrongSize := [][]byte{pk0[:31], append(append([]byte(nil), pk0...), 0), {}}
				if depth == 0 {
					// the bare leaf hands the key straight to crypto/ed25519, which panics on a
					// key that is not 32 bytes; depth 0 is outside the statement's range, so this
					// is reported in findings/C39.md instead of being exercised here
					wrongSize = nil
					rec.Class("depth0_wrong_size_key_not_exercised")
				}
				for _, k2 := range wrongSize {
					if !neg("accept:wrong-size-key", fmt.Sprintf("verified under a %d-byte public key", len(k2)), k2, tp, msg, sig) {
						return
					}
				}
				var keyBits []int
				if depth <= 3 && len(msg) <= 60000 {
					for b := 0; b < 256; b++ {
						keyBits = append(keyBits, b)
					}
				} else {
					keyBits = rapid.SliceOfNDistinct(rapid.IntRange(0, 255), keyFlipBudget, keyFlipBudget, rapid.ID[int]).Draw(rt, "keyBits")
				}
				for _, b := range keyBits {
					if !neg("accept:key-bit-flip", fmt.Sprintf("verified under the public key with bit %d flipped", b), flipBit(pk0, b), tp, msg, sig) {
						return
					}
				}
				// signature bit flips
				var sigBits []int
				if exhaustiveFlips {
					for b := 0; b < len(sig)*8; b++ {
						sigBits = append(sigBits, b)
					}
					rec.Class("sig_flips_exhaustive")
				} else {
					// stratified: the Ed25519 part and every vk pair get an equal share
					regions := depth + 1
					per := flipBudget / regions
					for r := 0; r < regions; r++ {
						lo, hi := 0, 512
						if r > 0 {
							lo, hi = 512+(r-1)*512, 512+r*512
						}
						for _, b := range rapid.SliceOfNDistinct(rapid.IntRange(lo, hi-1), per, per, rapid.ID[int]).Draw(rt, "sigBits") {
							sigBits = append(sigBits, b)
						}
					}
				}
				for _, b := range sigBits {
					if !neg("accept:sig-bit-flip:"+kesSigRegion(depth, b), fmt.Sprintf("signature with bit %d flipped verified", b), pk0, tp, msg, flipBit(sig, b)) {
						return
					}
				}
				rec.ClassN("sig_bit_flips", len(sigBits))
				// wrong-size signatures
				for _, s2 := range [][]byte{sig[:len(sig)-1], append(append([]byte(nil), sig...), 0), sig[:len(sig)-64], sig[64:]} {
					if !neg("accept:wrong-size-sig", fmt.Sprintf("a %d-byte signature verified", len(s2)), pk0, tp, msg, s2) {
						return
					}
				}

				// one parsed signature object verified repeatedly, interleaved with other
				// periods / messages: every verdict is a function of the arguments only
				if depth >= 1 {
					if so, err := kes.NewSumKesFromBytes(uint64(depth), sig); err == nil {
						other := (tp + 1) % nPeriods
						v1 := so.Verify(tp, pk0, msg)
						w1 := so.Verify(other, pk0, msg)
						w2 := so.Verify(tp, pk0, append(clone(msg), 0))
						w3 := so.Verify(tp, foreignPkOf(pk0), msg)
						v2 := so.Verify(tp, pk0, msg)
						rec.EvalN(5)
						if !v1 || !v2 || w1 && other != tp || w2 || w3 {
							rec.Fail(rt, "history:repeated-verify-verdict-differs", fmt.Sprintf("one SumXKesSig verified repeatedly at period %d: genuine %v, other period %v, other message %v, other key %v, genuine again %v", tp, v1, w1, w2, w3, v2), cs)
							return
						}
					}
				}
				// ---- the key evolved tp times cannot sign for any other period
				var others []uint64
				if depth <= 4 {
					for o := uint64(0); o < nPeriods; o++ {
						others = append(others, o)
					}
				} else {
					others = append(others, 0, last)
					if tp > 0 {
						others = append(others, tp-1, rapid.Uint64Range(0, tp-1).Draw(rt, "earlier"))
					}
					if tp < last {
						others = append(others, tp+1)
					}
				}
				// requests for periods that do not exist (also values whose difference to the
				// key's period wraps or turns negative in a signed cast)
				others = append(others, nPeriods, nPeriods+tp, 1<<32+tp, 1<<63, 1<<63+tp, math.MaxUint64, math.MaxUint64-tp, math.MaxUint64-nPeriods+1+tp)
				for _, o := range others {
					if o == tp {
						continue
					}
					kind := "earlier"
					if o >= nPeriods {
						kind = "nonexistent"
					} else if o > tp {
						kind = "later"
					}
					s2, err := kes.Sign(sk, o, msg)
					rec.Eval()
					if err == nil {
						rec.Class("sign_other_period_no_error")
						if o < tp {
							// "an evolved key cannot sign for an earlier period": a successful Sign is a
							// signature made for period o; whatever the bytes are (here they may verify at
							// the key's own period instead), the request must not succeed
							at := "no checked period"
							if refKesVerify(depth, pk0, tp, msg, s2) {
								at = fmt.Sprintf("period %d (the key's own)", tp)
							}
							rec.Fail(rt, "sign-for-earlier-period-succeeds",
								fmt.Sprintf("Sign with a depth-%d key evolved to period %d, asked for the earlier period %d, returned a signature and no error (the bytes verify at %s)", depth, tp, o, at), cs)
							return
						}
						if !neg("evolved-key-signs-"+kind+"-period", fmt.Sprintf("key at period %d produced a signature for period %d that verifies there", tp, o), pk0, o, msg, s2) {
							return
						}
					} else {
						rec.Class("sign_other_period_refused")
					}
					// same key material with the Period field re-labelled (a holder of the
					// evolved key bytes trying to sign for another period)
					relabel := &kes.SecretKey{Depth: sk.Depth, Period: o, Data: append([]byte(nil), sk.Data...)}
					s3, err := kes.Sign(relabel, o, msg)
					rec.Eval()
					if err == nil {
						if !neg("relabelled-key-signs-"+kind+"-period", fmt.Sprintf("key material of period %d re-labelled as period %d produced a signature that verifies at %d", tp, o, o), pk0, o, msg, s3) {
							return
						}
					}
				}

				// ---- the refused requests above are history: the key still signs for its own
				// period, for the same and for another message, and what was handed out
				// earlier is untouched by it
				sigAgain, err := kes.Sign(sk, tp, msg)
				rec.Eval()
				if err != nil || !refKesVerify(depth, pk0, tp, msg, sigAgain) {
					rec.Fail(rt, "history:sign-after-refused-sign", fmt.Sprintf("after refused Sign requests the key at period %d no longer signs for its own period (err %v)", tp, err), cs)
					return
				}
				if bytes.Equal(sigAgain, sig) {
					rec.Class("resign_same_bytes")
				}
				msg2 := append(clone(msg), 0x5a)
				msg2Orig := clone(msg2)
				sig2, err := kes.Sign(sk, tp, msg2)
				rec.Eval()
				if err != nil || !refKesVerify(depth, pk0, tp, msg2, sig2) {
					rec.Fail(rt, "history:sign-second-message", fmt.Sprintf("the key at period %d fails to sign a second message (err %v)", tp, err), cs)
					return
				}
				held = append(held, heldSig{tp, msg2Orig, sig2, clone(sig2)})
				if !bytes.Equal(msg2, msg2Orig) || !bytes.Equal(msg, msgOrig) {
					rec.Fail(rt, "callee-writes-caller-memory:Sign-message", "Sign changed the caller's message buffer", cs)
					return
				}
				for _, hs := range held {
					if !bytes.Equal(hs.live, hs.copy) {
						rec.Fail(rt, "history:earlier-signature-changed", fmt.Sprintf("the signature obtained at period %d was changed in the caller's hands by later Sign calls (now at period %d)", hs.t, tp), cs)
						return
					}
				}

				if tp >= 1 {
					rec.NonTrivial(fmt.Sprintf("d%d|%x|%d|%x", depth, seed, tp, msg), map[string]any{
						"depth": depth, "seed": evi.Hex(seed), "period": tp, "msg": evi.Hex(msg), "pk": evi.Hex(pk0), "sig": evi.Hex(sig),
						"sig_bit_flips": len(sigBits), "other_periods_checked": int(nPeriods - 1)})
				}
				delete(cs, "sig")
			}

			// ---- evolve
			if tp == last {
				old := sk
				nsk, err := kes.Update(sk)
				rec.Eval()
				if err == nil {
					rec.Fail(rt, "update-past-last-period", fmt.Sprintf("Update at the last period %d returned a key (period %d) instead of an error", tp, nsk.Period), cs)
					return
				}
				// the refused Update is history: same key, same public key, still signs for the last period
				if got := kes.PublicKey(old); !bytes.Equal(got, pk0) {
					rec.Fail(rt, "history:pubkey-after-refused-update", fmt.Sprintf("PublicKey after a refused Update = %x, was %x", got, pk0), cs)
					return
				}
				sl, err := kes.Sign(old, tp, msg)
				rec.Eval()
				if err != nil || !refKesVerify(depth, pk0, tp, msg, sl) {
					rec.Fail(rt, "history:sign-after-refused-update", fmt.Sprintf("after Update was refused at the last period %d the key no longer signs for that period (err %v)", tp, err), cs)
					return
				}
				if _, err := kes.Update(old); err == nil {
					rec.Fail(rt, "update-past-last-period", "a second Update at the last period returned a key", cs)
					return
				}
				break
			}
			old := sk
			sk, err = kes.Update(sk)
			if err != nil {
				rec.Fail(rt, "update-error", fmt.Sprintf("Update from period %d failed: %v", tp, err), cs)
				return
			}
			if _, err := kes.Sign(old, tp, msg); err == nil {
				rec.Class("predecessor_handle_still_signs")
			} else {
				rec.Class("predecessor_handle_erased")
			}
			// operations on the spent predecessor are history for the evolved key: they must
			// not disturb it (the evolved key is checked at every later step)
			if tp%3 == 0 {
				_, _ = kes.Update(old)
				_, _ = kes.Sign(old, tp+1, msg)
			}
		}
		// ---- end of the key's life: everything handed out along the way is intact and valid
		for _, hs := range held {
			rec.Eval()
			if !bytes.Equal(hs.live, hs.copy) {
				rec.Fail(rt, "history:earlier-signature-changed", fmt.Sprintf("the signature obtained at period %d was changed in the caller's hands by later Sign/Update calls", hs.t), cs)
				return
			}
			res := kesPaths(depth, pk0, hs.t, hs.msg, hs.live)
			if name, bad := firstReject(res); bad {
				rec.Fail(rt, "history:earlier-signature-invalid-after-evolution:"+name, fmt.Sprintf("the signature made at period %d no longer verifies there after the key was evolved to the end", hs.t), cs)
				return
			}
		}
		if !bytes.Equal(pkLive, pk0) {
			rec.Fail(rt, "history:returned-pubkey-changed", fmt.Sprintf("the public key slice returned by KeyGen changed to %x while the key evolved", pkLive), cs)
			return
		}
		if !bytes.Equal(msg, msgOrig) || !bytes.Equal(seed, seedOrig) {
			rec.Fail(rt, "callee-writes-caller-memory", "the caller's message or seed buffer was changed", cs)
			return
		}
		if len(c39ArgWrites) > 0 {
			w := c39ArgWrites
			c39ArgWrites = nil
			rec.Fail(rt, "callee-writes-caller-memory:verify", w[0], cs)
			return
		}
	})
}
