package crypto

import (
	"bytes"
	"fmt"
	"math"
	"sort"
	"testing"

	"github.com/blinklabs-io/gouroboros/kes"
	"github.com/blinklabs-io/gouroboros/ledger"
	"pgregory.net/rapid"

	"verif/harness/internal/evi"
)

// kesPaths runs every public verification path that applies to the depth and
// returns their verdicts by name.
func kesPaths(depth int, pk []byte, t uint64, msg, sig []byte) map[string]bool {
	out := map[string]bool{}
	s, err := kes.NewSumKesFromBytes(uint64(depth), sig)
	if err != nil {
		out["SumXKesSig.Verify"] = false
	} else {
		out["SumXKesSig.Verify"] = s.Verify(t, pk, msg)
	}
	if depth == kes.CardanoKesDepth {
		out["VerifySignedKES"] = kes.VerifySignedKES(pk, t, msg, sig)
	}
	return out
}

func anyAccept(m map[string]bool) (string, bool) {
	names := make([]string, 0, len(m))
	for k := range m {
		names = append(names, k)
	}
	sort.Strings(names)
	for _, k := range names {
		if m[k] {
			return k, true
		}
	}
	return "", false
}

func firstReject(m map[string]bool) (string, bool) {
	names := make([]string, 0, len(m))
	for k := range m {
		names = append(names, k)
	}
	sort.Strings(names)
	for _, k := range names {
		if !m[k] {
			return k, true
		}
	}
	return "", false
}

func kesSigRegion(depth, bit int) string {
	byteIdx := bit / 8
	if byteIdx < 64 {
		return "sigma"
	}
	return fmt.Sprintf("vkpair-level%d", (byteIdx-64)/64+1)
}

func TestC39(t *testing.T) {
	rec := evi.New(t, "C39", evi.Exploration,
		"cases = (depth 1..6, 32-byte seed, message 0..300 bytes) drawn by rapid; the key is evolved through EVERY period 0..2^depth-1; at each checked period t (all periods for depth<=4; 0,1,mid-1,mid,last-1,last + random ones for depth 5-6) the signature must verify at t on every public path (SumXKesSig.Verify; VerifySignedKES and ledger.VerifyKesComponents for depth 6) and under an independent tree-materialising reference verifier, and must fail at EVERY other in-range period, at out-of-range periods, for changed messages, changed/foreign keys and bit flips of the signature (exhaustive for depth<=2 and for 1 in 8 other cases, else stratified sample); public key (cached and recomputed from key data) must stay constant; signing for an earlier period must be refused, signing for a later one must error or give a non-verifying signature, also with a re-labelled Period field; the evolved key data must not contain any seed from which an earlier leaf is derivable. non-trivial = (key, period t>=1) pair with all of the above evaluated; distinct by (depth, seed, t, message)")
	defer rec.Finish()
	rec.Assume(
		"crypto/ed25519 and blake2b are trusted by both sides",
		"the harness reference (full-tree sum-KES from the cardano-base definition) is trusted; when its key derivation does not match the library's, the seed-absence check is skipped and counted",
		"negatives are sampled: neighbours of genuine signatures, not arbitrary forgeries",
	)
	flipBudget := rec.Pick(96, 192)
	keyFlipBudget := rec.Pick(32, 64)

	rec.Check(func(rt *rapid.T) {
		depth := rapid.SampledFrom([]int{1, 2, 3, 4, 5, 6, 6, 6}).Draw(rt, "depth")
		seed := genSeed32(rt, "seed")
		msg := rapid.SliceOfN(rapid.Byte(), 0, 300).Draw(rt, "msg")
		exhaustiveFlips := depth <= 2 || rapid.IntRange(0, 7).Draw(rt, "exhFlips") == 0
		nPeriods := uint64(1) << uint(depth)
		last := nPeriods - 1
		check := map[uint64]bool{}
		if depth <= 4 {
			for p := uint64(0); p < nPeriods; p++ {
				check[p] = true
			}
		} else {
			for _, p := range []uint64{0, 1, nPeriods/2 - 1, nPeriods / 2, last - 1, last} {
				check[p] = true
			}
			for _, p := range rapid.SliceOfN(rapid.Uint64Range(0, last), 3, 3).Draw(rt, "periods") {
				check[p] = true
			}
		}
		rec.Class(fmt.Sprintf("depth_%d", depth))
		cs := map[string]any{"depth": depth, "seed": evi.Hex(seed), "msg": evi.Hex(msg)}

		ref := refKesBuild(depth, seed, 0)
		sk, pk0, err := kes.KeyGen(uint64(depth), seed)
		if err != nil {
			rec.Fail(rt, "keygen-error", fmt.Sprintf("KeyGen(%d) failed: %v", depth, err), cs)
			return
		}
		pk0 = append([]byte(nil), pk0...)
		cs["pk"] = evi.Hex(pk0)
		derivOK := bytes.Equal(pk0, ref.vk)
		if derivOK {
			rec.Class("pk_equals_reference")
		} else {
			rec.Class("pk_differs_from_reference")
		}
		foreignSeed := genSeed32(rt, "foreignSeed")
		_, foreignPk, _ := kes.KeyGen(uint64(depth), foreignSeed)

		for tp := uint64(0); ; tp++ {
			cs["period"] = tp
			// ---- public key is invariant (cached, and recomputed from the evolved key data)
			if got := kes.PublicKey(sk); !bytes.Equal(got, pk0) {
				rec.Fail(rt, "pubkey-changed:cached", fmt.Sprintf("PublicKey after %d updates = %x, was %x", tp, got, pk0), cs)
				return
			}
			rehydrated := &kes.SecretKey{Depth: sk.Depth, Period: sk.Period, Data: append([]byte(nil), sk.Data...)}
			if got := kes.PublicKey(rehydrated); !bytes.Equal(got, pk0) {
				rec.Fail(rt, "pubkey-changed:from-key-data", fmt.Sprintf("public key recomputed from the key data after %d updates = %x, was %x", tp, got, pk0), cs)
				return
			}
			rec.EvalN(2)
			if sk.Period != tp {
				rec.Fail(rt, "period-field", fmt.Sprintf("after %d updates SecretKey.Period = %d", tp, sk.Period), cs)
				return
			}
			// ---- forward security of the key material
			if derivOK {
				if bytes.Contains(sk.Data, ref.leaf(tp).seed) {
					rec.Class("current_leaf_seed_present")
					var forb [][]byte
					ref.forbiddenSeeds(tp, &forb)
					for _, fs := range forb {
						if bytes.Count(fs, []byte{0}) >= 8 {
							// a mostly-zero (counter-like) master seed is indistinguishable from
							// erased memory next to an arbitrary byte; hashes never look like that
							rec.Class("stale_seed_search_skipped_low_entropy_seed")
							continue
						}
						if bytes.Contains(sk.Data, fs) {
							if !rec.Fail(rt, "forward-security:stale-seed-in-key",
								fmt.Sprintf("key evolved to period %d still contains seed %x, from which the signing key of an earlier period is derivable", tp, fs), cs) {
								return
							}
						}
					}
					rec.EvalN(len(forb))
					rec.ClassN("stale_seed_searches", len(forb))
				} else {
					rec.Class("leaf_seed_layout_unknown")
				}
			}

			if check[tp] {
				sig, err := kes.Sign(sk, tp, msg)
				if err != nil {
					rec.Fail(rt, "sign-error", fmt.Sprintf("Sign at the key's own period %d failed: %v", tp, err), cs)
					return
				}
				cs["sig"] = evi.Hex(sig)
				if len(sig) != 64+64*depth {
					rec.Fail(rt, "sig-size", fmt.Sprintf("signature is %d bytes for depth %d", len(sig), depth), cs)
					return
				}
				// positive: every path + the independent verifier
				pos := kesPaths(depth, pk0, tp, msg, sig)
				rec.EvalN(len(pos))
				if name, bad := firstReject(pos); bad {
					rec.Fail(rt, "genuine-rejected:"+name, fmt.Sprintf("%s rejects the genuine signature at period %d", name, tp), cs)
					return
				}
				rec.Eval()
				if !refKesVerify(depth, pk0, tp, msg, sig) {
					rec.Fail(rt, "ref-rejects-library-sig", fmt.Sprintf("independent sum-KES verifier rejects the library signature at period %d", tp), cs)
					return
				}
				if derivOK {
					rsig := ref.sign(tp, msg)
					if bytes.Equal(rsig, sig) {
						rec.Class("sig_equals_reference")
					}
					rp := kesPaths(depth, pk0, tp, msg, rsig)
					rec.EvalN(len(rp))
					if name, bad := firstReject(rp); bad {
						cs["ref_sig"] = evi.Hex(rsig)
						rec.Fail(rt, "library-rejects-ref-sig:"+name, fmt.Sprintf("%s rejects the reference signer's signature at period %d", name, tp), cs)
						return
					}
				}
				if depth == kes.CardanoKesDepth {
					// ledger path: evolution = slot/slotsPerKesPeriod - opcert start period
					spk := rapid.Uint64Range(1, 200000).Draw(rt, "slotsPerKesPeriod")
					start := rapid.Uint64Range(0, 5000).Draw(rt, "opcertStart")
					slot := (start+tp)*spk + rapid.Uint64Range(0, spk-1).Draw(rt, "slotInPeriod")
					ok, err := ledger.VerifyKesComponents(msg, sig, pk0, start, slot, spk)
					rec.Eval()
					if err != nil || !ok {
						cs["spk"], cs["start"], cs["slot"] = spk, start, slot
						rec.Fail(rt, "genuine-rejected:ledger.VerifyKesComponents", fmt.Sprintf("VerifyKesComponents(start=%d, slot=%d, spk=%d) = %v, %v for evolution %d", start, slot, spk, ok, err, tp), cs)
						return
					}
					// a slot in another KES period (also before the certificate start) must fail
					for _, dp := range []int64{-1, 1, -int64(tp) - 1, int64(last-tp) + 1} {
						np := int64(start+tp) + dp
						if np < 0 {
							continue
						}
						slot2 := uint64(np)*spk + slot%spk
						ok, _ := ledger.VerifyKesComponents(msg, sig, pk0, start, slot2, spk)
						rec.Eval()
						if ok {
							cs["spk"], cs["start"], cs["slot"] = spk, start, slot2
							if !rec.Fail(rt, "accept:ledger.VerifyKesComponents:other-period", fmt.Sprintf("signature of evolution %d accepted for slot %d (KES period %d, certificate start %d)", tp, slot2, np, start), cs) {
								return
							}
						}
					}
				}

				// negatives ------------------------------------------------------------
				neg := func(key, what string, pk []byte, per uint64, m, s []byte) bool {
					res := kesPaths(depth, pk, per, m, s)
					rec.EvalN(len(res))
					if name, acc := anyAccept(res); acc {
						c2 := map[string]any{}
						for k, v := range cs {
							c2[k] = v
						}
						c2["verify_pk"], c2["verify_period"], c2["verify_msg"], c2["verify_sig"] = evi.Hex(pk), per, evi.Hex(m), evi.Hex(s)
						return rec.Fail(rt, key+":"+name, fmt.Sprintf("signature made at period %d (depth %d): %s — accepted by %s", tp, depth, what, name), c2)
					}
					return true
				}
				// every other in-range period
				for o := uint64(0); o < nPeriods; o++ {
					if o != tp && !neg("accept:other-period", fmt.Sprintf("verified at period %d", o), pk0, o, msg, sig) {
						return
					}
				}
				rec.ClassN("other_period_verifications", int(nPeriods-1))
				// out-of-range periods
				for _, o := range []uint64{nPeriods, nPeriods + tp, 2*nPeriods + tp, 1 << 32, 1<<63 + tp, math.MaxUint64, math.MaxUint64 - last + tp} {
					if !neg("accept:out-of-range-period", fmt.Sprintf("verified at out-of-range period %d", o), pk0, o, msg, sig) {
						return
					}
				}
				// other messages
				var msgs [][]byte
				msgs = append(msgs, append(append([]byte(nil), msg...), rapid.Byte().Draw(rt, "ext")))
				if len(msg) > 0 {
					msgs = append(msgs, msg[:len(msg)-1])
					nb := len(msg) * 8
					k := 12
					if nb < k {
						k = nb
					}
					for _, b := range rapid.SliceOfNDistinct(rapid.IntRange(0, nb-1), k, k, rapid.ID[int]).Draw(rt, "msgBits") {
						msgs = append(msgs, flipBit(msg, b))
					}
				}
				for _, m2 := range msgs {
					if !neg("accept:other-message", "verified for a different message", pk0, tp, m2, sig) {
						return
					}
				}
				// other public keys
				if !bytes.Equal(foreignPk, pk0) {
					if !neg("accept:foreign-key", "verified under an unrelated public key", foreignPk, tp, msg, sig) {
						return
					}
				}
				for _, k2 := range [][]byte{pk0[:31], append(append([]byte(nil), pk0...), 0), {}} {
					if !neg("accept:wrong-size-key", fmt.Sprintf("verified under a %d-byte public key", len(k2)), k2, tp, msg, sig) {
						return
					}
				}
				var keyBits []int
				if depth <= 3 {
					for b := 0; b < 256; b++ {
						keyBits = append(keyBits, b)
					}
				} else {
					keyBits = rapid.SliceOfNDistinct(rapid.IntRange(0, 255), keyFlipBudget, keyFlipBudget, rapid.ID[int]).Draw(rt, "keyBits")
				}
				for _, b := range keyBits {
					if !neg("accept:key-bit-flip", fmt.Sprintf("verified under the public key with bit %d flipped", b), flipBit(pk0, b), tp, msg, sig) {
						return
					}
				}
				// signature bit flips
				var sigBits []int
				if exhaustiveFlips {
					for b := 0; b < len(sig)*8; b++ {
						sigBits = append(sigBits, b)
					}
					rec.Class("sig_flips_exhaustive")
				} else {
					// stratified: the Ed25519 part and every vk pair get an equal share
					regions := depth + 1
					per := flipBudget / regions
					for r := 0; r < regions; r++ {
						lo, hi := 0, 512
						if r > 0 {
							lo, hi = 512+(r-1)*512, 512+r*512
						}
						for _, b := range rapid.SliceOfNDistinct(rapid.IntRange(lo, hi-1), per, per, rapid.ID[int]).Draw(rt, "sigBits") {
							sigBits = append(sigBits, b)
						}
					}
				}
				for _, b := range sigBits {
					if !neg("accept:sig-bit-flip:"+kesSigRegion(depth, b), fmt.Sprintf("signature with bit %d flipped verified", b), pk0, tp, msg, flipBit(sig, b)) {
						return
					}
				}
				rec.ClassN("sig_bit_flips", len(sigBits))
				// wrong-size signatures
				for _, s2 := range [][]byte{sig[:len(sig)-1], append(append([]byte(nil), sig...), 0), sig[:len(sig)-64], sig[64:]} {
					if !neg("accept:wrong-size-sig", fmt.Sprintf("a %d-byte signature verified", len(s2)), pk0, tp, msg, s2) {
						return
					}
				}

				// ---- the key evolved tp times cannot sign for any other period
				var others []uint64
				if depth <= 4 {
					for o := uint64(0); o < nPeriods; o++ {
						others = append(others, o)
					}
				} else {
					others = append(others, 0, last)
					if tp > 0 {
						others = append(others, tp-1, rapid.Uint64Range(0, tp-1).Draw(rt, "earlier"))
					}
					if tp < last {
						others = append(others, tp+1)
					}
				}
				for _, o := range others {
					if o == tp {
						continue
					}
					kind := "earlier"
					if o > tp {
						kind = "later"
					}
					s2, err := kes.Sign(sk, o, msg)
					rec.Eval()
					if err == nil {
						rec.Class("sign_other_period_no_error")
						if o < tp {
							// "an evolved key cannot sign for an earlier period": a successful Sign is a
							// signature made for period o; whatever the bytes are (here they may verify at
							// the key's own period instead), the request must not succeed
							at := "no checked period"
							if refKesVerify(depth, pk0, tp, msg, s2) {
								at = fmt.Sprintf("period %d (the key's own)", tp)
							}
							rec.Fail(rt, "sign-for-earlier-period-succeeds",
								fmt.Sprintf("Sign with a depth-%d key evolved to period %d, asked for the earlier period %d, returned a signature and no error (the bytes verify at %s)", depth, tp, o, at), cs)
							return
						}
						if !neg("evolved-key-signs-"+kind+"-period", fmt.Sprintf("key at period %d produced a signature for period %d that verifies there", tp, o), pk0, o, msg, s2) {
							return
						}
					} else {
						rec.Class("sign_other_period_refused")
					}
					// same key material with the Period field re-labelled (a holder of the
					// evolved key bytes trying to sign for another period)
					relabel := &kes.SecretKey{Depth: sk.Depth, Period: o, Data: append([]byte(nil), sk.Data...)}
					s3, err := kes.Sign(relabel, o, msg)
					rec.Eval()
					if err == nil {
						if !neg("relabelled-key-signs-"+kind+"-period", fmt.Sprintf("key material of period %d re-labelled as period %d produced a signature that verifies at %d", tp, o, o), pk0, o, msg, s3) {
							return
						}
					}
				}

				if tp >= 1 {
					rec.NonTrivial(fmt.Sprintf("d%d|%x|%d|%x", depth, seed, tp, msg), map[string]any{
						"depth": depth, "seed": evi.Hex(seed), "period": tp, "msg": evi.Hex(msg), "pk": evi.Hex(pk0), "sig": evi.Hex(sig),
						"sig_bit_flips": len(sigBits), "other_periods_checked": int(nPeriods - 1)})
				}
				delete(cs, "sig")
			}

			// ---- evolve
			if tp == last {
				old := sk
				nsk, err := kes.Update(sk)
				rec.Eval()
				if err == nil {
					rec.Fail(rt, "update-past-last-period", fmt.Sprintf("Update at the last period %d returned a key (period %d) instead of an error", tp, nsk.Period), cs)
					return
				}
				_ = old
				break
			}
			old := sk
			sk, err = kes.Update(sk)
			if err != nil {
				rec.Fail(rt, "update-error", fmt.Sprintf("Update from period %d failed: %v", tp, err), cs)
				return
			}
			if _, err := kes.Sign(old, tp, msg); err == nil {
				rec.Class("predecessor_handle_still_signs")
			} else {
				rec.Class("predecessor_handle_erased")
			}
		}
	})
}
