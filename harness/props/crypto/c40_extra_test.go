package crypto

// C40 audit additions: a long-lived BlockBuilder (many refused and successful
// BuildHeader calls on one object), argument snapshots around every library call,
// repeated validation on the same validator / block object with rejections in
// between, and special values for the operational-certificate helpers.

import (
	"bytes"
	"crypto/ed25519"
	"encoding/hex"
	"errors"
	"fmt"
	"math"

	"github.com/blinklabs-io/gouroboros/consensus"
	"github.com/blinklabs-io/gouroboros/ledger"
	"github.com/blinklabs-io/gouroboros/ledger/common"
	"golang.org/x/crypto/blake2b"

	"verif/harness/internal/evi"
)

// c40Notes collects purity observations made inside helpers; the running case reports them.
var c40Notes []string

func c40Note(format string, a ...any) {
	if len(c40Notes) < 8 {
		c40Notes = append(c40Notes, fmt.Sprintf(format, a...))
	}
}

// ---- long-lived builder ------------------------------------------------------------

type c40LongBuilder struct {
	keys  *poolKeys
	oc    *consensus.OperationalCert
	ocSnp consensus.OperationalCert
	kes   *evolvingKES
	b     *consensus.BlockBuilder
	tp    bool
	calls int
}

func newC40LongBuilder(keys *poolKeys, c *valCtx, oc *consensus.OperationalCert, kesEvol uint64) (*c40LongBuilder, error) {
	ks, err := newEvolvingKES(keys.KesSeed, kesEvol)
	if err != nil {
		return nil, fmt.Errorf("harness: KES key: %w", err)
	}
	ph, _ := blake2b.New(28, nil)
	ph.Write(keys.ColdPub)
	lb := &c40LongBuilder{keys: keys, oc: oc, kes: ks, tp: c.Era.TPraos}
	lb.ocSnp = consensus.OperationalCert{HotVkey: clone(oc.HotVkey), SequenceNumber: oc.SequenceNumber, KesPeriod: oc.KesPeriod, Signature: clone(oc.Signature)}
	lb.b = consensus.NewBlockBuilderWithMode(keys.Vrf, ks, oc, ph.Sum(nil), keys.ColdPub, c.F.Rat, c.mode())
	return lb, nil
}

// build calls BuildHeader on the long-lived builder with argument snapshots.
func (lb *c40LongBuilder) build(c *valCtx, body *blockBody, slot, major, minor uint64) (*hdrFields, error) {
	prev, nonce, bh := clone(c.PrevHeaderHash), clone(c.EpochNonce), body.commitment()
	prev0, nonce0, bh0 := clone(prev), clone(nonce), clone(bh)
	cold0 := clone(lb.keys.ColdPub)
	lb.calls++
	ch, lr, err := lb.b.BuildHeader(consensus.BuildHeaderInput{
		Slot: slot, BlockNumber: c.PrevBlockNo + 1, PrevHash: prev, EpochNonce: nonce,
		PoolStake: c.PoolStake, TotalStake: c.TotalStake, BlockBodyHash: bh, BlockBodySize: body.size(),
		ProtoMajor: major, ProtoMinor: minor,
	})
	if !bytes.Equal(prev, prev0) || !bytes.Equal(nonce, nonce0) || !bytes.Equal(bh, bh0) {
		c40Note("BuildHeader changed its input buffers: prev hash intact=%v nonce intact=%v body hash intact=%v", bytes.Equal(prev, prev0), bytes.Equal(nonce, nonce0), bytes.Equal(bh, bh0))
	}
	if !bytes.Equal(lb.oc.HotVkey, lb.ocSnp.HotVkey) || !bytes.Equal(lb.oc.Signature, lb.ocSnp.Signature) || lb.oc.SequenceNumber != lb.ocSnp.SequenceNumber || lb.oc.KesPeriod != lb.ocSnp.KesPeriod {
		c40Note("BuildHeader changed the operational certificate it was constructed with")
	}
	if !bytes.Equal(lb.keys.ColdPub, cold0) {
		c40Note("BuildHeader changed the issuer key buffer")
	}
	if err != nil {
		return nil, err
	}
	if lr == nil || !lr.Eligible {
		return nil, errors.New("BuildHeader returned a header without an eligible leader result")
	}
	return hdrFromConsensus(ch, lb.tp), nil
}

// sameOutcome compares two BuildHeader outcomes: both refused for not leading, or both
// headers (bytes compared separately by the caller).
func sameOutcome(e1, e2 error) bool {
	l1, l2 := errors.Is(e1, consensus.ErrNotSlotLeader), errors.Is(e2, consensus.ErrNotSlotLeader)
	return (e1 == nil) == (e2 == nil) && l1 == l2
}

// ---- snapshots around validators ---------------------------------------------------

func cloneInput(in *consensus.ValidateHeaderInput) *consensus.ValidateHeaderInput {
	c := *in
	for _, p := range []*[]byte{&c.PrevHash, &c.IssuerVkey, &c.VrfKey, &c.VrfProof, &c.VrfOutput, &c.KesSignature, &c.HeaderBodyCbor,
		&c.NonceVrfProof, &c.NonceVrfOutput, &c.OpCertHotVkey, &c.OpCertSignature, &c.PrevHeaderHash, &c.EpochNonce, &c.RegisteredVrfKeyHash} {
		if *p != nil {
			*p = clone(*p)
		}
	}
	return &c
}

func inputsEqual(a, b *consensus.ValidateHeaderInput) bool {
	if a.Slot != b.Slot || a.BlockNumber != b.BlockNumber || a.KesPeriod != b.KesPeriod || a.OpCertSequenceNumber != b.OpCertSequenceNumber ||
		a.OpCertKesPeriod != b.OpCertKesPeriod || a.PrevSlot != b.PrevSlot || a.PrevBlockNumber != b.PrevBlockNumber || a.PoolStake != b.PoolStake || a.TotalStake != b.TotalStake {
		return false
	}
	x := [][2][]byte{{a.PrevHash, b.PrevHash}, {a.IssuerVkey, b.IssuerVkey}, {a.VrfKey, b.VrfKey}, {a.VrfProof, b.VrfProof}, {a.VrfOutput, b.VrfOutput},
		{a.KesSignature, b.KesSignature}, {a.HeaderBodyCbor, b.HeaderBodyCbor}, {a.NonceVrfProof, b.NonceVrfProof}, {a.NonceVrfOutput, b.NonceVrfOutput},
		{a.OpCertHotVkey, b.OpCertHotVkey}, {a.OpCertSignature, b.OpCertSignature}, {a.PrevHeaderHash, b.PrevHeaderHash}, {a.EpochNonce, b.EpochNonce},
		{a.RegisteredVrfKeyHash, b.RegisteredVrfKeyHash}}
	for _, p := range x {
		if !bytes.Equal(p[0], p[1]) {
			return false
		}
	}
	return true
}

// c40ValidateTwice runs ValidateHeader twice on ONE validator with the same input (argument
// snapshot in between) and reports a differing verdict or a modified input.
func c40ValidateTwice(c *valCtx, h *hdrFields) *consensus.ValidateResult {
	v := c.validator()
	in := c.input(h)
	snap := cloneInput(in)
	r1 := v.ValidateHeader(in)
	if !inputsEqual(in, snap) {
		c40Note("ValidateHeader changed its input (slot %d)", h.Slot)
	}
	r2 := v.ValidateHeader(in)
	if r1.Valid != r2.Valid || !bytes.Equal(r1.VrfOutput, r2.VrfOutput) {
		c40Note("ValidateHeader gives valid=%v then valid=%v for the same input on the same validator (slot %d)", r1.Valid, r2.Valid, h.Slot)
	}
	return r1
}

// c40BlockObjectHistory verifies ONE decoded block object three times: right nonce, wrong
// nonce, right nonce again; and one decoded header object twice with VerifyKes. Returns a
// description of the first inconsistency.
func c40BlockObjectHistory(c *valCtx, blockBytes, headerBytes []byte, cfg common.VerifyConfig) string {
	snap := clone(blockBytes)
	blk, err := ledger.NewBlockFromCbor(c.Era.BlockType, blockBytes)
	if err != nil {
		return "block no longer decodes: " + errStr(err)
	}
	right := hex.EncodeToString(c.EpochNonce)
	wn := clone(c.EpochNonce)
	wn[7] ^= 0x10
	wrong := hex.EncodeToString(wn)
	ok1, _, _, _, e1 := ledger.VerifyBlock(blk, right, c.SlotsPerKES, cfg)
	ok2, _, _, _, _ := ledger.VerifyBlock(blk, wrong, c.SlotsPerKES, cfg)
	ok3, _, _, _, e3 := ledger.VerifyBlock(blk, right, c.SlotsPerKES, cfg)
	ok4, _, _, _, _ := ledger.VerifyBlock(blk, right, c.SlotsPerKES+1, cfg)
	ok5, _, _, _, e5 := ledger.VerifyBlock(blk, right, c.SlotsPerKES, cfg)
	if !bytes.Equal(blockBytes, snap) {
		return "NewBlockFromCbor/VerifyBlock changed the caller's block bytes"
	}
	if !(ok1 && e1 == nil) || !(ok3 && e3 == nil) || !(ok5 && e5 == nil) {
		return fmt.Sprintf("one decoded block object verified repeatedly with the right parameters: %v(%v), %v(%v), %v(%v), with rejected calls in between", ok1, e1, ok3, e3, ok5, e5)
	}
	if ok2 {
		return "one decoded block object: VerifyBlock with a wrong epoch nonce accepted after it had accepted the right one"
	}
	_ = ok4 // another slotsPerKESPeriod may or may not map the slot into the same evolution; only used as history
	hd, err := ledger.NewBlockHeaderFromCbor(c.Era.BlockType, headerBytes)
	if err != nil {
		return "header no longer decodes: " + errStr(err)
	}
	k1, ke1 := ledger.VerifyKes(hd, c.SlotsPerKES)
	k2, ke2 := ledger.VerifyKes(hd, c.SlotsPerKES)
	if !(k1 && ke1 == nil) || !(k2 && ke2 == nil) {
		return fmt.Sprintf("one decoded header object: VerifyKes %v(%v) then %v(%v)", k1, ke1, k2, ke2)
	}
	return ""
}

// ---- operational-certificate helpers at special values -----------------------------------

func c40OpCertSpecials(rec *evi.Recorder) {
	cold := ed25519.NewKeyFromSeed(bytes.Repeat([]byte{7}, 32))
	coldPub := []byte(cold.Public().(ed25519.PublicKey))
	zeroCold := ed25519.NewKeyFromSeed(make([]byte, 32))
	hot := bytes.Repeat([]byte{0x42}, 32)
	vals := []uint64{0, 1, 1<<31 - 1, 1 << 31, 1<<32 - 1, 1 << 32, 1<<63 - 1, 1 << 63, math.MaxUint64}
	n := 0
	for _, issue := range vals {
		for _, period := range vals {
			for ki, key := range []ed25519.PrivateKey{cold, zeroCold} {
				pub := coldPub
				if ki == 1 {
					pub = []byte(zeroCold.Public().(ed25519.PublicKey))
				}
				cs := map[string]any{"issue_number": issue, "kes_period": period, "cold_pub": evi.Hex(pub)}
				oc, err := ledger.CreateOpCert(hot, issue, period, key.Seed())
				rec.Eval()
				n++
				if err != nil {
					rec.Violation("opcert-special:create-error", fmt.Sprintf("CreateOpCert(issue=%d, period=%d): %v", issue, period, err), cs)
					continue
				}
				// independent: Ed25519 over the OCertSignable written by the harness
				if !ed25519.Verify(pub, opcertSignable(hot, issue, period), oc.ColdSignature) {
					rec.Violation("opcert-special:signature-not-over-ocert-signable", fmt.Sprintf("CreateOpCert(issue=%d, period=%d) does not sign hot||issue||period", issue, period), cs)
					continue
				}
				if err := ledger.VerifyOpCertSignature(oc, pub); err != nil {
					rec.Violation("opcert-special:genuine-rejected", fmt.Sprintf("VerifyOpCertSignature rejects a certificate made by CreateOpCert(issue=%d, period=%d): %v", issue, period, err), cs)
					continue
				}
				// harness-made certificate must be accepted too
				hs := &ledger.OpCert{KesVkey: clone(hot), IssueNumber: issue, KesPeriod: period, ColdSignature: ed25519.Sign(key, opcertSignable(hot, issue, period))}
				if err := ledger.VerifyOpCertSignature(hs, pub); err != nil {
					rec.Violation("opcert-special:harness-cert-rejected", fmt.Sprintf("VerifyOpCertSignature rejects a certificate signed over hot||issue||period (issue=%d, period=%d): %v", issue, period, err), cs)
				}
				for _, m := range []struct {
					name string
					f    func(o *ledger.OpCert)
				}{
					{"issue+1", func(o *ledger.OpCert) { o.IssueNumber++ }},
					{"issue-1", func(o *ledger.OpCert) { o.IssueNumber-- }},
					{"issue^2^32", func(o *ledger.OpCert) { o.IssueNumber ^= 1 << 32 }},
					{"issue^2^31", func(o *ledger.OpCert) { o.IssueNumber ^= 1 << 31 }},
					{"period+1", func(o *ledger.OpCert) { o.KesPeriod++ }},
					{"period^2^32", func(o *ledger.OpCert) { o.KesPeriod ^= 1 << 32 }},
					{"period^2^63", func(o *ledger.OpCert) { o.KesPeriod ^= 1 << 63 }},
					{"swap", func(o *ledger.OpCert) { o.IssueNumber, o.KesPeriod = o.KesPeriod, o.IssueNumber }},
				} {
					o2 := &ledger.OpCert{KesVkey: clone(oc.KesVkey), IssueNumber: oc.IssueNumber, KesPeriod: oc.KesPeriod, ColdSignature: clone(oc.ColdSignature)}
					m.f(o2)
					if o2.IssueNumber == oc.IssueNumber && o2.KesPeriod == oc.KesPeriod {
						continue
					}
					rec.Eval()
					if ledger.VerifyOpCertSignature(o2, pub) == nil {
						rec.Violation("accept:opcert-special:"+m.name, fmt.Sprintf("VerifyOpCertSignature accepts a certificate (issue=%d, period=%d) after %s", issue, period, m.name), cs)
					}
				}
			}
		}
	}
	rec.SetExtra("n_opcert_special_certificates", n)

	// window edges of ValidateKesPeriod, including the top of the uint64 range
	type w struct {
		start, slot, spk, max uint64
		ok                    bool
	}
	M := uint64(math.MaxUint64)
	ws := []w{
		{0, 0, 1, 1, true}, {0, 1, 1, 1, false}, {1, 0, 1, 1, false},
		{100, 100 * 129600, 129600, 62, true}, {100, 161*129600 + 129599, 129600, 62, true}, {100, 162 * 129600, 129600, 62, false}, {100, 100*129600 - 1, 129600, 62, false},
		{M - 61, M, 1, 62, true}, {M - 62, M, 1, 62, false}, {M, M, 1, 62, true}, {M, M - 1, 1, 62, false},
		{0, M, 1, M, false}, {0, M - 1, 1, M, true}, {0, M, 1, 62, false},
		{5, M, M, 62, false}, {1, M, M, 62, true}, {0, M, M, 1, false}, {0, M - 1, M, 1, true},
		{1 << 32, (1<<32 + 61) * 10, 10, 62, true}, {1 << 32, (1<<32 + 62) * 10, 10, 62, false},
	}
	for _, x := range ws {
		evo, err := ledger.ValidateKesPeriod(x.start, x.slot, x.spk, x.max)
		rec.Eval()
		cs := map[string]any{"opcert_period": x.start, "slot": x.slot, "slots_per_kes_period": x.spk, "max_kes_evolutions": x.max}
		if x.ok && (err != nil || evo != x.slot/x.spk-x.start) {
			rec.Violation("opcert-special:window-genuine-rejected", fmt.Sprintf("ValidateKesPeriod(start=%d, slot=%d, spk=%d, max=%d) = %d, %v; inside the window", x.start, x.slot, x.spk, x.max, evo, err), cs)
		}
		if !x.ok && err == nil {
			rec.Violation("accept:opcert-special:window", fmt.Sprintf("ValidateKesPeriod(start=%d, slot=%d, spk=%d, max=%d) accepts (evolution %d); outside the window", x.start, x.slot, x.spk, x.max, evo), cs)
		}
	}
}
