package crypto

// Helpers for C40: pool key material, an independent serialisation of Shelley
// (TPraos, 15-field) and Babbage/Conway (Praos, 10-field) header bodies from
// the era CDDL, block assembly with a harness-computed body commitment, and a
// harness-side validator (reference VRF / KES / Ed25519 checks) used as the
// independent positive anchor.

import (
	"bytes"
	"crypto/ed25519"
	"encoding/binary"
	"errors"
	"fmt"

	"github.com/blinklabs-io/gouroboros/consensus"
	"github.com/blinklabs-io/gouroboros/kes"
	"github.com/blinklabs-io/gouroboros/ledger/common"
	"golang.org/x/crypto/blake2b"

	"verif/harness/internal/fixtures"
	"verif/harness/internal/xcbor"
)

// ---- eras ----------------------------------------------------------------------

type eraSpec struct {
	Name      string
	BlockType uint
	TPraos    bool
	Segments  int // body segments after the header (3 = Shelley..Mary, 4 = Alonzo+)
	MajorLo   uint64
	MajorHi   uint64
}

var c40Eras = []eraSpec{
	{"shelley", fixtures.TypeShelley, true, 3, 2, 2},
	{"allegra", fixtures.TypeAllegra, true, 3, 3, 3},
	{"mary", fixtures.TypeMary, true, 3, 4, 4},
	{"alonzo", fixtures.TypeAlonzo, true, 4, 5, 6},
	{"babbage", fixtures.TypeBabbage, false, 4, 7, 8},
	{"conway", fixtures.TypeConway, false, 4, 9, 11},
}

// ---- pool keys -----------------------------------------------------------------

// evolvingKES implements consensus.KESSigner with a depth-6 key evolved a
// given number of times.
type evolvingKES struct {
	sk *kes.SecretKey
	pk []byte
}

func newEvolvingKES(seed []byte, evolutions uint64) (*evolvingKES, error) {
	sk, pk, err := kes.KeyGen(kes.CardanoKesDepth, seed)
	if err != nil {
		return nil, err
	}
	for i := uint64(0); i < evolutions; i++ {
		if sk, err = kes.Update(sk); err != nil {
			return nil, err
		}
	}
	return &evolvingKES{sk: sk, pk: append([]byte(nil), pk...)}, nil
}

func (k *evolvingKES) Sign(msg []byte) ([]byte, error) { return kes.Sign(k.sk, k.sk.Period, msg) }
func (k *evolvingKES) PublicKey() []byte               { return k.pk }
func (k *evolvingKES) Period() uint64                  { return k.sk.Period }

type poolKeys struct {
	ColdSeed, VrfSeed, KesSeed []byte
	ColdPriv                   ed25519.PrivateKey
	ColdPub                    []byte
	Vrf                        *consensus.SimpleVRFSigner
	KesPk                      []byte
}

func newPoolKeys(coldSeed, vrfSeed, kesSeed []byte) (*poolKeys, error) {
	p := &poolKeys{ColdSeed: coldSeed, VrfSeed: vrfSeed, KesSeed: kesSeed}
	p.ColdPriv = ed25519.NewKeyFromSeed(coldSeed)
	p.ColdPub = append([]byte(nil), p.ColdPriv.Public().(ed25519.PublicKey)...)
	v, err := consensus.NewSimpleVRFSigner(vrfSeed)
	if err != nil {
		return nil, err
	}
	p.Vrf = v
	_, pk, err := kes.KeyGen(kes.CardanoKesDepth, kesSeed)
	if err != nil {
		return nil, err
	}
	p.KesPk = append([]byte(nil), pk...)
	return p, nil
}

// opcertSignable is the OCertSignable representation of cardano-ledger:
// hot vkey || counter (u64 BE) || KES period (u64 BE).
func opcertSignable(hot []byte, seq, period uint64) []byte {
	out := append([]byte(nil), hot...)
	out = binary.BigEndian.AppendUint64(out, seq)
	return binary.BigEndian.AppendUint64(out, period)
}

func (p *poolKeys) issueOpCert(seq, period uint32) *consensus.OperationalCert {
	return &consensus.OperationalCert{
		HotVkey:        append([]byte(nil), p.KesPk...),
		SequenceNumber: seq,
		KesPeriod:      period,
		Signature:      ed25519.Sign(p.ColdPriv, opcertSignable(p.KesPk, uint64(seq), uint64(period))),
	}
}

// ---- header model --------------------------------------------------------------

// hdrFields is the harness' own model of a Shelley-family header.
type hdrFields struct {
	TPraos     bool
	BlockNo    uint64
	Slot       uint64
	PrevHash   []byte
	Issuer     []byte
	VrfKey     []byte
	NonceOut   []byte // TPraos only
	NonceProof []byte // TPraos only
	VrfOut     []byte
	VrfProof   []byte
	BodySize   uint64
	BodyHash   []byte
	HotVkey    []byte
	Seq        uint64
	KesPeriod  uint64
	ColdSig    []byte
	Major      uint64
	Minor      uint64
	Sig        []byte
}

func (h *hdrFields) clone() *hdrFields {
	c := *h
	for _, p := range []*[]byte{&c.PrevHash, &c.Issuer, &c.VrfKey, &c.NonceOut, &c.NonceProof, &c.VrfOut, &c.VrfProof, &c.BodyHash, &c.HotVkey, &c.ColdSig, &c.Sig} {
		*p = append([]byte(nil), (*p)...)
	}
	return &c
}

func hdrFromConsensus(ch *consensus.Header, tpraos bool) *hdrFields {
	b := ch.Body
	h := &hdrFields{
		TPraos: tpraos, BlockNo: b.BlockNumber, Slot: b.Slot, PrevHash: b.PrevHash, Issuer: b.IssuerVkey, VrfKey: b.VrfKey,
		NonceOut: b.NonceVrfOutput, NonceProof: b.NonceVrfProof, VrfOut: b.VrfOutput, VrfProof: b.VrfProof,
		BodySize: b.BlockBodySize, BodyHash: b.BlockBodyHash, HotVkey: b.OpCertHotVkey, Seq: uint64(b.OpCertSequenceNumber),
		KesPeriod: uint64(b.OpCertKesPeriod), ColdSig: b.OpCertSignature, Major: b.ProtoMajor, Minor: b.ProtoMinor, Sig: ch.Signature,
	}
	return h.clone()
}

// bodyTree serialises the header body per the era CDDL with definite lengths
// and shortest-form heads (the encoding cardano-node emits).
//
//	shelley..alonzo: [block_number, slot, prev_hash, issuer_vkey, vrf_vkey, nonce_vrf:[out,proof], leader_vrf:[out,proof],
//	                  block_body_size, block_body_hash, hot_vkey, sequence_number, kes_period, sigma, major, minor]
//	babbage, conway: [block_number, slot, prev_hash, issuer_vkey, vrf_vkey, vrf_result:[out,proof], block_body_size,
//	                  block_body_hash, operational_cert:[hot_vkey, sequence_number, kes_period, sigma], protocol_version:[major, minor]]
func (h *hdrFields) bodyTree() *xcbor.Node {
	U, B, A := xcbor.U, xcbor.B, xcbor.A
	if h.TPraos {
		return A(U(h.BlockNo), U(h.Slot), B(h.PrevHash), B(h.Issuer), B(h.VrfKey),
			A(B(h.NonceOut), B(h.NonceProof)), A(B(h.VrfOut), B(h.VrfProof)),
			U(h.BodySize), B(h.BodyHash), B(h.HotVkey), U(h.Seq), U(h.KesPeriod), B(h.ColdSig), U(h.Major), U(h.Minor))
	}
	return A(U(h.BlockNo), U(h.Slot), B(h.PrevHash), B(h.Issuer), B(h.VrfKey),
		A(B(h.VrfOut), B(h.VrfProof)), U(h.BodySize), B(h.BodyHash),
		A(B(h.HotVkey), U(h.Seq), U(h.KesPeriod), B(h.ColdSig)), A(U(h.Major), U(h.Minor)))
}

func (h *hdrFields) bodyBytes() []byte { return h.bodyTree().Encode() }

func (h *hdrFields) headerBytes() []byte {
	return xcbor.A(h.bodyTree(), xcbor.B(h.Sig)).Encode()
}

// ---- body / block --------------------------------------------------------------

type blockBody struct {
	Desc     string
	Segments [][]byte // raw CBOR of each top-level element after the header
}

func emptyBody(e eraSpec) *blockBody {
	segs := [][]byte{{0x80}, {0x80}, {0xa0}}
	if e.Segments == 4 {
		segs = append(segs, []byte{0x80})
	}
	return &blockBody{Desc: "empty", Segments: segs}
}

// fixtureBody takes the first k transactions of the era's real fixture block
// (k < 0: all), keeping auxiliary data / invalid-transaction indices below k.
func fixtureBody(e eraSpec, k int) (*blockBody, error) {
	fx := fixtures.ByName(e.Name)
	top, err := xcbor.ParseExact(fx.Bytes)
	if err != nil {
		return nil, err
	}
	if top.Kind != xcbor.Array || len(top.Items) != 1+e.Segments {
		return nil, fmt.Errorf("fixture %s has %d top-level items", e.Name, len(top.Items))
	}
	bodies, wits, aux := top.Items[1], top.Items[2], top.Items[3]
	n := len(bodies.Items)
	if len(wits.Items) != n {
		return nil, errors.New("fixture bodies/witnesses differ in length")
	}
	if k < 0 || k > n {
		k = n
	}
	nb := xcbor.A(bodies.Items[:k]...)
	nw := xcbor.A(wits.Items[:k]...)
	var kv []*xcbor.Node
	for i := 0; i+1 < len(aux.Items); i += 2 {
		if aux.Items[i].Kind == xcbor.Uint && aux.Items[i].Arg < uint64(k) {
			kv = append(kv, aux.Items[i], aux.Items[i+1])
		}
	}
	segs := [][]byte{nb.Encode(), nw.Encode(), xcbor.M(kv...).Encode()}
	if e.Segments == 4 {
		var inv []*xcbor.Node
		for _, it := range top.Items[4].Items {
			if it.Kind == xcbor.Uint && it.Arg < uint64(k) {
				inv = append(inv, it)
			}
		}
		segs = append(segs, xcbor.A(inv...).Encode())
	}
	return &blockBody{Desc: fmt.Sprintf("%s fixture, first %d of %d txs", e.Name, k, n), Segments: segs}, nil
}

// commitment is the segregated-witness body hash: blake2b256 of the
// concatenated blake2b256 hashes of every body segment.
func (b *blockBody) commitment() []byte {
	var cat []byte
	for _, s := range b.Segments {
		h := blake2b.Sum256(s)
		cat = append(cat, h[:]...)
	}
	h := blake2b.Sum256(cat)
	return h[:]
}

func (b *blockBody) size() uint64 {
	var n uint64
	for _, s := range b.Segments {
		n += uint64(len(s))
	}
	return n
}

func assembleBlock(headerBytes []byte, body *blockBody) []byte {
	out := []byte{0x80 | byte(1+len(body.Segments))}
	out = append(out, headerBytes...)
	for _, s := range body.Segments {
		out = append(out, s...)
	}
	return out
}

// ---- validation context --------------------------------------------------------

type valCtx struct {
	Era             eraSpec
	F               common.GenesisRat
	SlotsPerKES     uint64
	MaxEvolutions   uint64
	EpochNonce      []byte
	PoolStake       uint64
	TotalStake      uint64
	PrevSlot        uint64
	PrevBlockNo     uint64
	PrevHeaderHash  []byte
	RegisteredVrfKH []byte // optional
}

func (c *valCtx) mode() consensus.ConsensusMode {
	if c.Era.TPraos {
		return consensus.ConsensusModeTPraos
	}
	return consensus.ConsensusModeCPraos
}

func (c *valCtx) validator() *consensus.HeaderValidator {
	return consensus.NewHeaderValidatorWithMode(consensus.NetworkConfig{
		Name: "verif", ActiveSlotCoeff: c.F, SlotsPerKESPeriod: c.SlotsPerKES, MaxKESEvolutions: c.MaxEvolutions,
	}, c.mode())
}

// input derives what a caller that decoded the wire header would hand to
// ValidateHeader: every field from the header, the signed bytes as they appear
// on the wire, and the chain context.
func (c *valCtx) input(h *hdrFields) *consensus.ValidateHeaderInput {
	return &consensus.ValidateHeaderInput{
		Slot: h.Slot, BlockNumber: h.BlockNo, PrevHash: h.PrevHash, IssuerVkey: h.Issuer, VrfKey: h.VrfKey,
		VrfProof: h.VrfProof, VrfOutput: h.VrfOut, KesSignature: h.Sig, HeaderBodyCbor: h.bodyBytes(),
		NonceVrfProof: h.NonceProof, NonceVrfOutput: h.NonceOut,
		OpCertHotVkey: h.HotVkey, OpCertSequenceNumber: uint32(h.Seq), OpCertKesPeriod: uint32(h.KesPeriod), OpCertSignature: h.ColdSig,
		PrevSlot: c.PrevSlot, PrevBlockNumber: c.PrevBlockNo, PrevHeaderHash: c.PrevHeaderHash,
		EpochNonce: c.EpochNonce, PoolStake: c.PoolStake, TotalStake: c.TotalStake, RegisteredVrfKeyHash: c.RegisteredVrfKH,
	}
}

// ---- harness-side reference validation -------------------------------------------

func refVRFInput(slot uint64, nonce []byte, tpraosSeed uint64, tpraos bool) []byte {
	buf := make([]byte, 8, 40)
	binary.BigEndian.PutUint64(buf, slot)
	buf = append(buf, nonce...)
	h := blake2b.Sum256(buf)
	if !tpraos {
		return h[:]
	}
	var n [8]byte
	binary.BigEndian.PutUint64(n[:], tpraosSeed)
	s := blake2b.Sum256(n[:])
	out := make([]byte, 32)
	for i := range out {
		out[i] = h[i] ^ s[i]
	}
	return out
}

// refValidateCrypto re-checks, with the harness' own models only, the four
// cryptographic facts a valid header carries: leader VRF (and nonce VRF for
// TPraos) over the era's VRF input, the cold-key signature over the opcert,
// and the KES signature over the serialised body at evolution
// slot/slotsPerKES - opcert period. It deliberately does not look at the
// leadership threshold (C37's subject).
func refValidateCrypto(h *hdrFields, c *valCtx) error {
	seedL := uint64(1)
	ok, beta, err := refVRFVerify(h.VrfKey, h.VrfProof, refVRFInput(h.Slot, c.EpochNonce, seedL, h.TPraos))
	if err != nil || !ok {
		return fmt.Errorf("leader VRF: ok=%v err=%v", ok, err)
	}
	if !bytes.Equal(beta, h.VrfOut) {
		return errors.New("leader VRF output differs from the proof's hash")
	}
	if h.TPraos {
		ok, beta, err := refVRFVerify(h.VrfKey, h.NonceProof, refVRFInput(h.Slot, c.EpochNonce, 0, true))
		if err != nil || !ok {
			return fmt.Errorf("nonce VRF: ok=%v err=%v", ok, err)
		}
		if !bytes.Equal(beta, h.NonceOut) {
			return errors.New("nonce VRF output differs from the proof's hash")
		}
	}
	if !ed25519.Verify(ed25519.PublicKey(h.Issuer), opcertSignable(h.HotVkey, h.Seq, h.KesPeriod), h.ColdSig) {
		return errors.New("opcert cold signature")
	}
	cur := h.Slot / c.SlotsPerKES
	if cur < h.KesPeriod {
		return errors.New("opcert from the future")
	}
	if cur-h.KesPeriod >= c.MaxEvolutions {
		return errors.New("opcert expired")
	}
	if !refKesVerify(kes.CardanoKesDepth, h.HotVkey, cur-h.KesPeriod, h.bodyBytes(), h.Sig) {
		return errors.New("KES signature over the CDDL serialisation of the header body")
	}
	return nil
}

// poolLedgerState answers only the pool-registration query VerifyBlock makes
// when transaction validation is skipped.
type poolLedgerState struct {
	common.LedgerState
	Pools map[common.PoolKeyHash]common.VrfKeyHash
}

func (p *poolLedgerState) PoolCurrentState(k common.PoolKeyHash) (*common.PoolRegistrationCertificate, *uint64, error) {
	v, ok := p.Pools[k]
	if !ok {
		return nil, nil, nil
	}
	return &common.PoolRegistrationCertificate{Operator: k, VrfKeyHash: v}, nil, nil
}
