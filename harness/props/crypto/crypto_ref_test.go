package crypto

import (
	"bytes"
	"encoding/hex"
	"testing"

	"github.com/blinklabs-io/gouroboros/vrf"
)

// ietfVectors are the ECVRF-ED25519-SHA512-Elligator2 examples of
// draft-irtf-cfrg-vrf-03 appendix A.4 (typed from memory by the harness author;
// TestRefSelf and TestC38 only rely on those that the independent reference
// model reproduces bit for bit).
var ietfVectors = []struct{ sk, pk, alpha, pi, beta string }{
	{"9d61b19deffd5a60ba844af492ec2cc44449c5697b326919703bac031cae7f60",
		"d75a980182b10ab7d54bfed3c964073a0ee172f3daa62325af021a68f707511a",
		"",
		"b6b4699f87d56126c9117a7da55bd0085246f4c56dbc95d20172612e9d38e8d7ca65e573a126ed88d4e30a46f80a666854d675cf3ba81de0de043c3774f061560f55edc256a787afe701677c0f602900",
		"5b49b554d05c0cd5a5325376b3387de59d924fd1e13ded44648ab33c21349a603f25b84ec5ed887995b33da5e3bfcb87cd2f64521c4c62cf825cffabbe5d31cc"},
	{"4ccd089b28ff96da9db6c346ec114e0f5b8a319f35aba624da8cf6ed4fb8a6fb",
		"3d4017c3e843895a92b70aa74d1b7ebc9c982ccf2ec4968cc0cd55f12af4660c",
		"72",
		"ae5b66bdf04b4c010bfe32b2fc126ead2107b697634f6f7337b9bff8785ee111200095ece87dde4dbe87343f6df3b107d91798c8a7eb1245d3bb9c5aafb093358c13e6ae1111a55717e895fd15f99f07",
		"94f4487e1b2fec954309ef1289ecb2e15043a2461ecc7b2ae7d4470607ef82eb1cfa97d84991fe4a7bfdfd715606bc27e2967a6c557cfb5875879b671740b7d8"},
	{"c5aa8df43f9f837bedb7442f31dcb7b166d38535076f094b85ce3a2e0b4458f7",
		"fc51cd8e6218a1a38da47ed00230f0580816ed13ba3303ac5deb911548908025",
		"af82",
		"dfa2cba34b611cc8c833a6ea83b8eb1bb5e2ef2dd1b0c481bc42ff36ae7847f6ab52b976cfd5def172fa412defde270c8b8bdfbaae1c7ece17d9833b1bcf31064fff78ef493f820055b561ece45e1009",
		"2031837f582cd17a9af9e0c7ef5a6540e3453ed894b62c293686ca3c1e319dde9d0aa489a4b59a9594fc2328bc3deff3c8a0929a369a72b1180a596e016b5ded"},
}

func unhex(s string) []byte {
	b, err := hex.DecodeString(s)
	if err != nil {
		panic(err)
	}
	return b
}

// TestRefSelf checks the harness' own reference model (not a property check).
func TestRefSelf(t *testing.T) {
	if got := hex.EncodeToString(edEncode(edB)); got != "5866666666666666666666666666666666666666666666666666666666666666" {
		t.Fatalf("base point encodes to %s", got)
	}
	if !edIsIdentity(edMul(edL, edB)) {
		t.Fatal("L*B != identity")
	}
	encs := edSmallOrderEncodings()
	if len(encs) != 14 {
		t.Fatalf("expected 14 small-order encodings, got %d", len(encs))
	}
	for _, e := range encs {
		p, ok := edDecode(e, false)
		if !ok || edSmallOrder(p) == 0 {
			t.Fatalf("encoding %x does not decode to a small-order point", e)
		}
		t.Logf("small-order encoding %x order %d", e, edSmallOrder(p))
	}
	for i, v := range ietfVectors {
		pi, beta, pk, err := refVRFProve(unhex(v.sk), unhex(v.alpha))
		if err != nil {
			t.Fatal(err)
		}
		t.Logf("vector %d: ref pk ok=%v pi ok=%v beta ok=%v", i, hex.EncodeToString(pk) == v.pk, hex.EncodeToString(pi) == v.pi, hex.EncodeToString(beta) == v.beta)
		lpk, lsk, _ := vrf.KeyGen(unhex(v.sk))
		lpi, lbeta, _ := vrf.Prove(lsk, unhex(v.alpha))
		t.Logf("vector %d: lib pk ok=%v pi ok=%v beta ok=%v; lib==ref %v", i, hex.EncodeToString(lpk) == v.pk, hex.EncodeToString(lpi) == v.pi, hex.EncodeToString(lbeta) == v.beta, bytes.Equal(lpi, pi))
		ok, b2, err := refVRFVerify(pk, pi, unhex(v.alpha))
		if !ok || err != nil || !bytes.Equal(b2, beta) {
			t.Fatalf("reference does not verify its own proof: %v %v", ok, err)
		}
	}
}
