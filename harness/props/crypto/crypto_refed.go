// Package crypto holds the checks for C38 (VRF), C39 (KES) and C40 (produced
// headers). This file is an independent, deliberately simple math/big model of
// the edwards25519 group written from RFC 8032 §5.1 (it shares no code with
// filippo.io/edwards25519, which the library under test uses).
package crypto

import (
	"math/big"
)

var (
	edP, _ = new(big.Int).SetString("7fffffffffffffffffffffffffffffffffffffffffffffffffffffffffffffed", 16)
	// group order of the prime-order subgroup
	edL, _ = new(big.Int).SetString("1000000000000000000000000000000014def9dea2f79cd65812631a5cf5d3ed", 16)
	edD    *big.Int // -121665/121666
	ed2D   *big.Int
	edSqM1 *big.Int // sqrt(-1) = 2^((p-1)/4)
	edB    *edPoint
	big0   = big.NewInt(0)
	big1   = big.NewInt(1)
	big2   = big.NewInt(2)
)

func fe(v int64) *big.Int { return new(big.Int).Mod(big.NewInt(v), edP) }
func fmul(a, b *big.Int) *big.Int {
	r := new(big.Int).Mul(a, b)
	return r.Mod(r, edP)
}
func fadd(a, b *big.Int) *big.Int {
	r := new(big.Int).Add(a, b)
	return r.Mod(r, edP)
}
func fsub(a, b *big.Int) *big.Int {
	r := new(big.Int).Sub(a, b)
	return r.Mod(r, edP)
}
func finv(a *big.Int) *big.Int { return new(big.Int).ModInverse(a, edP) }
func fexp(a, e *big.Int) *big.Int {
	return new(big.Int).Exp(a, e, edP)
}

func init() {
	edD = fmul(fe(-121665), finv(fe(121666)))
	ed2D = fadd(edD, edD)
	e := new(big.Int).Sub(edP, big1)
	e.Rsh(e, 2)
	edSqM1 = fexp(big2, e)
	// base point: y = 4/5, x even (RFC 8032 §5.1)
	by := fmul(fe(4), finv(fe(5)))
	bx, ok := edRecoverX(by, 0, true)
	if !ok {
		panic("crypto ref: base point")
	}
	edB = edFromAffine(bx, by)
}

// edPoint is a point in extended homogeneous coordinates (X:Y:Z:T), x=X/Z,
// y=Y/Z, xy=T/Z on -x^2+y^2 = 1+d x^2 y^2.
type edPoint struct{ X, Y, Z, T *big.Int }

func edFromAffine(x, y *big.Int) *edPoint {
	return &edPoint{new(big.Int).Set(x), new(big.Int).Set(y), big.NewInt(1), fmul(x, y)}
}

func edIdentity() *edPoint { return edFromAffine(big0, big1) }

// edAdd is the unified addition law (add-2008-hwcd-3), complete for a=-1 and
// non-square d, so it is also used for doubling and for small-order inputs.
func edAdd(p, q *edPoint) *edPoint {
	a := fmul(fsub(p.Y, p.X), fsub(q.Y, q.X))
	b := fmul(fadd(p.Y, p.X), fadd(q.Y, q.X))
	c := fmul(fmul(p.T, ed2D), q.T)
	d := fmul(fadd(p.Z, p.Z), q.Z)
	e := fsub(b, a)
	f := fsub(d, c)
	g := fadd(d, c)
	h := fadd(b, a)
	return &edPoint{fmul(e, f), fmul(g, h), fmul(f, g), fmul(e, h)}
}

func edNeg(p *edPoint) *edPoint {
	return &edPoint{fsub(big0, p.X), new(big.Int).Set(p.Y), new(big.Int).Set(p.Z), fsub(big0, p.T)}
}

func edSub(p, q *edPoint) *edPoint { return edAdd(p, edNeg(q)) }

// edMul computes k*P for any non-negative integer k (plain double-and-add; the
// model is not constant time and does not need to be).
func edMul(k *big.Int, p *edPoint) *edPoint {
	r := edIdentity()
	for i := k.BitLen() - 1; i >= 0; i-- {
		r = edAdd(r, r)
		if k.Bit(i) == 1 {
			r = edAdd(r, p)
		}
	}
	return r
}

func edMul8(p *edPoint) *edPoint {
	r := edAdd(p, p)
	r = edAdd(r, r)
	return edAdd(r, r)
}

func (p *edPoint) affine() (x, y *big.Int) {
	zi := finv(p.Z)
	return fmul(p.X, zi), fmul(p.Y, zi)
}

func edEqual(p, q *edPoint) bool {
	// X1 Z2 == X2 Z1 and Y1 Z2 == Y2 Z1
	return fmul(p.X, q.Z).Cmp(fmul(q.X, p.Z)) == 0 && fmul(p.Y, q.Z).Cmp(fmul(q.Y, p.Z)) == 0
}

func edIsIdentity(p *edPoint) bool { return edEqual(p, edIdentity()) }

func leBytes(v *big.Int, n int) []byte {
	be := v.Bytes()
	out := make([]byte, n)
	for i := 0; i < len(be) && i < n; i++ {
		out[i] = be[len(be)-1-i]
	}
	return out
}

func leInt(b []byte) *big.Int {
	be := make([]byte, len(b))
	for i := range b {
		be[len(b)-1-i] = b[i]
	}
	return new(big.Int).SetBytes(be)
}

// edEncode is RFC 8032 §5.1.2 point encoding (always canonical).
func edEncode(p *edPoint) []byte {
	x, y := p.affine()
	out := leBytes(y, 32)
	if x.Bit(0) == 1 {
		out[31] |= 0x80
	}
	return out
}

// edRecoverX solves x^2 = (y^2-1)/(d y^2+1) and picks the root with the given
// low bit. strict rejects the encoding "x = 0 with sign bit 1" (RFC 8032
// §5.1.3 step 4); the permissive form maps it to x = 0.
func edRecoverX(y *big.Int, sign uint, strict bool) (*big.Int, bool) {
	yy := fmul(y, y)
	u := fsub(yy, big1)
	v := fadd(fmul(edD, yy), big1)
	xx := fmul(u, finv(v))
	e := new(big.Int).Add(edP, big.NewInt(3))
	e.Rsh(e, 3)
	x := fexp(xx, e)
	if fmul(x, x).Cmp(xx) != 0 {
		x = fmul(x, edSqM1)
	}
	if fmul(x, x).Cmp(xx) != 0 {
		return nil, false
	}
	if x.Sign() == 0 {
		if sign == 1 && strict {
			return nil, false
		}
		return x, true
	}
	if x.Bit(0) != sign {
		x = fsub(big0, x)
	}
	return x, true
}

// edDecode decodes a 32-byte point encoding. strict = RFC 8032 (y < p, no
// "negative zero"); permissive = what most deployed libraries (libsodium's
// frombytes, filippo.io/edwards25519) accept: y is reduced mod p.
func edDecode(b []byte, strict bool) (*edPoint, bool) {
	if len(b) != 32 {
		return nil, false
	}
	c := append([]byte(nil), b...)
	sign := uint(c[31] >> 7)
	c[31] &= 0x7f
	y := leInt(c)
	if y.Cmp(edP) >= 0 {
		if strict {
			return nil, false
		}
		y.Mod(y, edP)
	}
	x, ok := edRecoverX(y, sign, strict)
	if !ok {
		return nil, false
	}
	return edFromAffine(x, y), true
}

// edTorsion returns the 8 points of order dividing 8, found by clearing the
// prime-order component of low-height points (no constants are typed in).
func edTorsion() []*edPoint {
	for yv := int64(2); yv < 200; yv++ {
		x, ok := edRecoverX(big.NewInt(yv), 0, true)
		if !ok {
			continue
		}
		q := edMul(edL, edFromAffine(x, big.NewInt(yv)))
		q4 := edAdd(q, q)
		q4 = edAdd(q4, q4)
		if edIsIdentity(q4) {
			continue // order < 8
		}
		out := []*edPoint{edIdentity()}
		cur := q
		for i := 1; i < 8; i++ {
			out = append(out, cur)
			cur = edAdd(cur, q)
		}
		if !edIsIdentity(cur) {
			panic("crypto ref: torsion generator does not have order 8")
		}
		return out
	}
	panic("crypto ref: no order-8 point found")
}

// edOrder returns the order (1,2,4,8) of a torsion point, 0 if not small order.
func edSmallOrder(p *edPoint) int {
	cur := p
	for _, o := range []int{1, 2, 4, 8} {
		if edIsIdentity(cur) {
			return o
		}
		cur = edAdd(cur, cur)
	}
	return 0
}

// edSmallOrderEncodings lists every 32-byte string that the permissive
// decoding maps to a point of order dividing 8: the canonical encodings of the
// 8 torsion points, the encodings with y replaced by y+p where that still fits
// in 255 bits, and the "negative zero" variants of the points with x = 0.
func edSmallOrderEncodings() [][]byte {
	seen := map[string]bool{}
	var out [][]byte
	add := func(b []byte) {
		if !seen[string(b)] {
			seen[string(b)] = true
			out = append(out, b)
		}
	}
	two255 := new(big.Int).Lsh(big1, 255)
	for _, t := range edTorsion() {
		x, y := t.affine()
		ys := []*big.Int{y}
		if yp := new(big.Int).Add(y, edP); yp.Cmp(two255) < 0 {
			ys = append(ys, yp)
		}
		for _, yy := range ys {
			signs := []byte{byte(x.Bit(0))}
			if x.Sign() == 0 {
				signs = []byte{0, 1}
			}
			for _, s := range signs {
				b := leBytes(yy, 32)
				b[31] |= s << 7
				add(b)
			}
		}
	}
	return out
}
