package crypto

import (
	"bytes"
	"crypto/sha512"
	"encoding/binary"
	"fmt"
	"math/big"
	"testing"

	"github.com/blinklabs-io/gouroboros/vrf"
	"pgregory.net/rapid"

	"verif/harness/internal/evi"
)

// vrfAccepts runs both public verification entry points and reports whether
// either of them accepted (proof, key, message). expected is the output that
// Verify is asked to confirm; for a forged/tampered proof it is the output the
// proof itself hashes to (the most favourable choice for an accepting bug).
func vrfAccepts(pk, proof, msg []byte) (accepted bool, how string, out []byte) {
	out, err := vrfVerifyAndHash(pk, proof, msg)
	if err == nil {
		return true, "VerifyAndHash returned nil error", out
	}
	exp, perr := vrf.ProofToHash(proof)
	if perr != nil {
		exp = make([]byte, 64)
	}
	ok, err := vrfVerify(pk, proof, exp, msg)
	if ok {
		return true, fmt.Sprintf("Verify returned true (err=%v)", err), exp
	}
	return false, "", nil
}

func flipBit(b []byte, i int) []byte {
	c := append([]byte(nil), b...)
	c[i/8] ^= 1 << (i % 8)
	return c
}

func proofRegion(bit int) string {
	switch {
	case bit < 256:
		return "gamma"
	case bit < 384:
		return "c"
	default:
		return "s"
	}
}

func genSeed32(rt *rapid.T, label string) []byte {
	switch rapid.IntRange(0, 9).Draw(rt, label+"Kind") {
	case 0:
		// low-entropy seeds (counter-like), as produced by test tooling
		b := make([]byte, 32)
		binary.LittleEndian.PutUint32(b, rapid.Uint32().Draw(rt, label+"Ctr"))
		return b
	case 1:
		b := bytes.Repeat([]byte{rapid.Byte().Draw(rt, label+"Fill")}, 32)
		return b
	default:
		return rapid.SliceOfN(rapid.Byte(), 32, 32).Draw(rt, label)
	}
}

func genAlpha(rt *rapid.T) ([]byte, string) {
	switch rapid.IntRange(0, 7).Draw(rt, "alphaKind") {
	case 6, 7:
		// lengths around the SHA-512 block boundaries of suite||0x01||pk||alpha (34+n = 128k) and of alpha itself
		n := rapid.SampledFrom([]int{30, 31, 32, 33, 62, 63, 64, 65, 93, 94, 95, 96, 110, 111, 112, 126, 127, 128, 129, 221, 222, 223, 255, 256, 257}).Draw(rt, "alphaBoundaryLen")
		return rapid.SliceOfN(rapid.Byte(), n, n).Draw(rt, "alpha"), "alpha_block_boundary"
	case 0:
		return []byte{}, "alpha_empty"
	case 1:
		return rapid.SliceOfN(rapid.Byte(), 1, 31).Draw(rt, "alpha"), "alpha_short"
	case 2, 3:
		// 32 bytes: the size of every VRF input Cardano uses
		return rapid.SliceOfN(rapid.Byte(), 32, 32).Draw(rt, "alpha"), "alpha_32"
	case 4:
		return rapid.SliceOfN(rapid.Byte(), 33, 130).Draw(rt, "alpha"), "alpha_mid"
	default:
		return rapid.SliceOfN(rapid.Byte(), 131, 600).Draw(rt, "alpha"), "alpha_long"
	}
}

func TestC38(t *testing.T) {
	rec := evi.New(t, "C38", evi.Exploration,
		"cases = (32-byte seed, message of 0..600 bytes) drawn by rapid (seeds: random, counter-like, constant-fill; messages biased to 32 bytes); per case the library proof is cross-verified by an independent math/big ECVRF-draft-03 model and vice versa, then ALL 640 single-bit flips of the proof, ALL 256 single-bit flips of the key, sampled (<=64, all if shorter) bit flips + extend/truncate of the message, every s+k*L that fits in 32 bytes, a foreign key and a tampered expected output must be rejected; plus 14 small-order key encodings x forged proofs that satisfy the bare verification equations. non-trivial = a case whose genuine proof verified in both directions and whose full flip set was evaluated; distinct by (seed, message)")
	defer rec.Finish()
	rec.Assume(
		"crypto/sha512 is trusted by both sides",
		"the harness reference (math/big edwards25519 + ECVRF draft-03) is trusted; it reproduces the three draft-03 appendix A.4 Elligator2 examples bit for bit (checked at the start of every run)",
		"negatives are a sample of the 2^640 proof space: single-bit neighbours, non-canonical scalars, small-order keys, foreign keys",
	)

	// ---- anchors: the draft-03 examples must be reproduced by the reference, and the
	// library must prove/verify them identically.
	for i, v := range ietfVectors {
		sk, alpha, wantPi, wantBeta, wantPk := unhex(v.sk), unhex(v.alpha), unhex(v.pi), unhex(v.beta), unhex(v.pk)
		rpi, rbeta, rpk, err := refVRFProve(sk, alpha)
		if err != nil || !bytes.Equal(rpi, wantPi) || !bytes.Equal(rbeta, wantBeta) || !bytes.Equal(rpk, wantPk) {
			t.Fatalf("harness reference does not reproduce draft-03 example %d", i)
		}
		lpk, lsk, err := vrf.KeyGen(sk)
		rec.Eval()
		if err != nil || !bytes.Equal(lpk, wantPk) {
			rec.Violation(fmt.Sprintf("ietf-vector:%d:pk", i), fmt.Sprintf("KeyGen gives %x (err %v), draft-03 example has %x", lpk, err, wantPk), v)
			continue
		}
		lpi, lbeta, err := vrf.Prove(lsk, alpha)
		rec.Eval()
		if err != nil || !bytes.Equal(lbeta, wantBeta) {
			rec.Violation(fmt.Sprintf("ietf-vector:%d:prove-output", i), fmt.Sprintf("Prove output %x (err %v), draft-03 example has %x", lbeta, err, wantBeta), v)
		}
		if !bytes.Equal(lpi, wantPi) {
			rec.Class("ietf_vector_proof_bytes_differ")
		}
		out, err := vrf.VerifyAndHash(wantPk, wantPi, alpha)
		rec.Eval()
		if err != nil || !bytes.Equal(out, wantBeta) {
			rec.Violation(fmt.Sprintf("ietf-vector:%d:verify", i), fmt.Sprintf("VerifyAndHash of the draft-03 example: out=%x err=%v", out, err), v)
		}
		rec.NonTrivial("ietf:"+v.sk+":"+v.alpha, map[string]any{"kind": "draft-03 A.4 example", "sk": v.sk, "alpha": v.alpha, "pi": v.pi})
	}

	// ---- small-order public keys: every encoding x several messages x {forged, foreign genuine, structured junk}
	encs := edSmallOrderEncodings()
	if len(encs) != 14 {
		t.Fatalf("harness: expected 14 small-order encodings, got %d", len(encs))
	}
	rec.SetExtra("small_order_encodings", len(encs))
	seedBytes := make([]byte, 8)
	binary.BigEndian.PutUint64(seedBytes, uint64(rec.Seed()))
	nAlpha := rec.Pick(3, 12)
	forgedOK, forgedTotal := 0, 0
	for ei, enc := range encs {
		Y, ok := edDecode(enc, false)
		if !ok {
			t.Fatalf("harness: small-order encoding %x does not decode", enc)
		}
		m := edSmallOrder(Y)
		for ai := 0; ai < nAlpha; ai++ {
			h := sha512.Sum512(append(append([]byte("c38-so"), seedBytes...), byte(ei), byte(ai)))
			alpha := h[:32]
			if ai == 0 {
				alpha = []byte{}
			} else if ai%3 == 2 {
				alpha = h[:1+int(h[63])%63]
			}
			forged, tries := refForgeSmallOrder(Y, m, alpha, h[32:], 64)
			forgedTotal++
			if forged == nil {
				rec.Class("small_order_forgery_budget_exhausted")
				continue
			}
			if okc, _ := refVRFCore(Y, forged, alpha); !okc {
				t.Fatalf("harness: forged proof does not satisfy the bare equations (enc %x)", enc)
			}
			forgedOK++
			rec.ClassN("small_order_forge_tries", tries)
			acc, how, out := vrfAccepts(enc, forged, alpha)
			rec.Eval()
			rec.NonTrivial(fmt.Sprintf("so:%x:%x", enc, alpha), map[string]any{
				"kind": "small-order key with a proof that satisfies the bare verification equations", "pk": evi.Hex(enc), "order": m, "alpha": evi.Hex(alpha), "proof": evi.Hex(forged)})
			if acc {
				rec.Violation(fmt.Sprintf("accept:small-order-key:order%d:%x:forged", m, enc[:4]),
					fmt.Sprintf("small-order public key %x (order %d) accepted with a secret-less proof: %s, output %x", enc, m, how, out),
					map[string]any{"pk": evi.Hex(enc), "alpha": evi.Hex(alpha), "proof": evi.Hex(forged)})
			}
			// a genuine proof made for an unrelated key, and structured junk
			gpk, gsk, _ := vrf.KeyGen(h[:32])
			_ = gpk
			gproof, _, _ := vrf.Prove(gsk, alpha)
			junk := append(append([]byte(nil), edEncode(edMul(leInt(h[32:48]), edB))...), h[:48]...)
			junk[79] &= 0x0f
			for pi, p := range [][]byte{gproof, junk} {
				acc, how, _ := vrfAccepts(enc, p, alpha)
				rec.Eval()
				if acc {
					rec.Violation(fmt.Sprintf("accept:small-order-key:order%d:%x:other%d", m, enc[:4], pi),
						fmt.Sprintf("small-order public key %x accepted: %s", enc, how),
						map[string]any{"pk": evi.Hex(enc), "alpha": evi.Hex(alpha), "proof": evi.Hex(p)})
				}
			}
		}
	}
	rec.SetExtra("n_small_order_forged_proofs", forgedOK)
	if forgedOK*2 < forgedTotal {
		t.Fatalf("harness: only %d of %d small-order forgeries succeeded", forgedOK, forgedTotal)
	}

	// ---- every message length once, with changes confined to the end of the message
	if rec.Thorough() {
		c38LengthSweep(rec, 700, []int{1023, 1024, 1025, 4096, 65535, 65536, 65537, 100000})
	} else {
		c38LengthSweep(rec, 300, []int{65537})
	}

	// ---- fixed key, thousands of honest proofs: non-canonical re-encodings of s (seed independent)
	c38ScalarFamily(rec, rec.Pick(3000, 12000))

	two256 := new(big.Int).Lsh(big1, 256)
	msgFlipBudget := 64

	rec.Check(func(rt *rapid.T) {
		seed := genSeed32(rt, "seed")
		alpha, aclass := genAlpha(rt)
		rec.Class(aclass)
		cs := map[string]any{"seed": evi.Hex(seed), "alpha": evi.Hex(alpha)}
		seedOrig := clone(seed)

		pk, sk, err := vrf.KeyGen(seed)
		if err != nil {
			rec.Fail(rt, "keygen-error", fmt.Sprintf("KeyGen failed on a 32-byte seed: %v", err), cs)
			return
		}
		proof, out, err := vrf.Prove(sk, alpha)
		if err != nil {
			rec.Fail(rt, "prove-error", fmt.Sprintf("Prove failed: %v", err), cs)
			return
		}
		cs["pk"], cs["proof"], cs["output"] = evi.Hex(pk), evi.Hex(proof), evi.Hex(out)
		if len(proof) != 80 || len(out) != 64 || len(pk) != 32 {
			rec.Fail(rt, "sizes", fmt.Sprintf("sizes pk=%d proof=%d out=%d", len(pk), len(proof), len(out)), cs)
			return
		}

		// (1) genuine proof verifies and yields the prover's output
		got, err := vrf.VerifyAndHash(pk, proof, alpha)
		rec.Eval()
		if err != nil {
			rec.Fail(rt, "genuine-rejected:VerifyAndHash", fmt.Sprintf("genuine proof rejected: %v", err), cs)
			return
		}
		if !bytes.Equal(got, out) {
			rec.Fail(rt, "output-mismatch:VerifyAndHash", fmt.Sprintf("VerifyAndHash output %x != Prove output %x", got, out), cs)
			return
		}
		ok, err := vrf.Verify(pk, proof, out, alpha)
		rec.Eval()
		if err != nil || !ok {
			rec.Fail(rt, "genuine-rejected:Verify", fmt.Sprintf("Verify(genuine) = %v, %v", ok, err), cs)
			return
		}
		if h, err := vrf.ProofToHash(proof); err != nil || !bytes.Equal(h, out) {
			rec.Fail(rt, "output-mismatch:ProofToHash", fmt.Sprintf("ProofToHash = %x, %v; Prove output %x", h, err, out), cs)
			return
		}

		// (2) independent verifier accepts the library's proof with the same output, and
		// the library accepts the independent prover's proof
		rok, rbeta, rerr := refVRFVerify(pk, proof, alpha)
		rec.Eval()
		if !rok || rerr != nil {
			rec.Fail(rt, "ref-rejects-library-proof", fmt.Sprintf("independent draft-03 verifier rejects the library's proof (err %v)", rerr), cs)
			return
		}
		if !bytes.Equal(rbeta, out) {
			rec.Fail(rt, "ref-output-differs", fmt.Sprintf("independent verifier derives output %x, library %x", rbeta, out), cs)
			return
		}
		rpi, rbeta2, rpk, rerr := refVRFProve(seed, alpha)
		if rerr != nil {
			rt.Fatalf("harness: reference prover failed: %v", rerr)
		}
		lout, err := vrf.VerifyAndHash(rpk, rpi, alpha)
		rec.Eval()
		if err != nil || !bytes.Equal(lout, rbeta2) {
			cs["ref_pk"], cs["ref_proof"] = evi.Hex(rpk), evi.Hex(rpi)
			rec.Fail(rt, "library-rejects-ref-proof", fmt.Sprintf("library rejects a proof made by the independent draft-03 prover: out=%x err=%v want %x", lout, err, rbeta2), cs)
			return
		}
		if bytes.Equal(rpk, pk) {
			rec.Class("pk_equals_reference")
		}
		if bytes.Equal(rpi, proof) {
			rec.Class("proof_equals_reference")
		}

		// (3) every single-bit flip of the proof
		for bit := 0; bit < 640; bit++ {
			p2 := flipBit(proof, bit)
			if acc, how, o := vrfAccepts(pk, p2, alpha); acc {
				cs["flipped_bit"], cs["tampered_proof"] = bit, evi.Hex(p2)
				if !rec.Fail(rt, "accept:proof-bit-flip:"+proofRegion(bit),
					fmt.Sprintf("proof with bit %d (%s) flipped accepted: %s, output %x", bit, proofRegion(bit), how, o), cs) {
					return
				}
			}
		}
		rec.EvalN(640)
		// (4) every single-bit flip of the key
		for bit := 0; bit < 256; bit++ {
			k2 := flipBit(pk, bit)
			if acc, how, o := vrfAccepts(k2, proof, alpha); acc {
				cs["flipped_bit"], cs["tampered_pk"] = bit, evi.Hex(k2)
				if !rec.Fail(rt, "accept:key-bit-flip", fmt.Sprintf("public key with bit %d flipped accepted: %s, output %x", bit, how, o), cs) {
					return
				}
			}
		}
		rec.EvalN(256)
		// (4b) coarse corruptions: a whole byte replaced, two proofs' halves, random (c,s) behind a valid Gamma
		nCoarse := 0
		for i := 0; i < 24; i++ {
			p2 := append([]byte(nil), proof...)
			pos := rapid.IntRange(0, 79).Draw(rt, "corruptPos")
			nb := rapid.Byte().Draw(rt, "corruptByte")
			if p2[pos] == nb {
				continue
			}
			p2[pos] = nb
			if i%3 == 2 {
				copy(p2[32:], rapid.SliceOfN(rapid.Byte(), 48, 48).Draw(rt, "randomCS"))
				p2[79] &= 0x0f
				if bytes.Equal(p2, proof) {
					continue
				}
			}
			nCoarse++
			if acc, how, o := vrfAccepts(pk, p2, alpha); acc {
				cs["tampered_proof"] = evi.Hex(p2)
				if !rec.Fail(rt, "accept:proof-corruption", fmt.Sprintf("corrupted proof accepted: %s, output %x", how, o), cs) {
					return
				}
			}
		}
		rec.EvalN(nCoarse)
		rec.ClassN("coarse_corruptions", nCoarse)
		// (5) message changes
		nbits := len(alpha) * 8
		var msgs [][]byte
		if nbits <= msgFlipBudget {
			for b := 0; b < nbits; b++ {
				msgs = append(msgs, flipBit(alpha, b))
			}
			rec.Class("msg_flips_exhaustive")
		} else {
			for _, b := range rapid.SliceOfNDistinct(rapid.IntRange(0, nbits-1), msgFlipBudget, msgFlipBudget, rapid.ID[int]).Draw(rt, "msgBits") {
				msgs = append(msgs, flipBit(alpha, b))
			}
		}
		// always: the end of the message (last two bytes bit by bit, truncations, extensions)
		msgs = append(msgs, c38TailVariants(alpha)...)
		msgs = append(msgs, append(append([]byte(nil), alpha...), rapid.Byte().Draw(rt, "ext")))
		if len(alpha) > 0 {
			msgs = append(msgs, alpha[:len(alpha)-1])
		}
		for _, m2 := range msgs {
			if acc, how, o := vrfAccepts(pk, proof, m2); acc {
				cs["tampered_alpha"] = evi.Hex(m2)
				if !rec.Fail(rt, "accept:message-change", fmt.Sprintf("changed message accepted: %s, output %x", how, o), cs) {
					return
				}
			}
		}
		rec.EvalN(len(msgs))
		rec.ClassN("msg_variants", len(msgs))
		// (6) non-canonical response scalar: s + k*L for every k that still fits 32 bytes
		s := leInt(proof[48:80])
		nNC := 0
		for k := int64(1); k <= 16; k++ {
			s2 := new(big.Int).Add(s, new(big.Int).Mul(big.NewInt(k), edL))
			if s2.Cmp(two256) >= 0 {
				break
			}
			p2 := append(append([]byte(nil), proof[:48]...), leBytes(s2, 32)...)
			nNC++
			if acc, how, o := vrfAccepts(pk, p2, alpha); acc {
				cs["k"], cs["tampered_proof"] = k, evi.Hex(p2)
				if !rec.Fail(rt, "accept:noncanonical-s", fmt.Sprintf("proof with s+%d*L accepted: %s, output %x", k, how, o), cs) {
					return
				}
			}
		}
		rec.EvalN(nNC)
		rec.ClassN("noncanonical_s_variants", nNC)
		// (7) foreign key, foreign proof, tampered expected output
		seed2 := genSeed32(rt, "seed2")
		if !bytes.Equal(seed2, seed) {
			pk2, sk2, _ := vrf.KeyGen(seed2)
			if acc, how, _ := vrfAccepts(pk2, proof, alpha); acc {
				cs["other_pk"] = evi.Hex(pk2)
				if !rec.Fail(rt, "accept:foreign-key", "proof accepted under an unrelated public key: "+how, cs) {
					return
				}
			}
			proof2, _, _ := vrf.Prove(sk2, alpha)
			// Gamma of the genuine proof with (c,s) of the other, and vice versa
			mix := append(append([]byte(nil), proof[:32]...), proof2[32:]...)
			if acc, how, _ := vrfAccepts(pk, mix, alpha); acc {
				cs["tampered_proof"] = evi.Hex(mix)
				if !rec.Fail(rt, "accept:mixed-proof", "Gamma of one proof with (c,s) of another accepted: "+how, cs) {
					return
				}
			}
			rec.EvalN(2)
		}
		ob := rapid.IntRange(0, 511).Draw(rt, "outBit")
		if ok, _ := vrf.Verify(pk, proof, flipBit(out, ob), alpha); ok {
			cs["flipped_output_bit"] = ob
			if !rec.Fail(rt, "accept:wrong-expected-output", fmt.Sprintf("Verify returned true for an expected output with bit %d flipped", ob), cs) {
				return
			}
		}
		if ok, _ := vrf.Verify(pk, proof, out[:63], alpha); ok {
			if !rec.Fail(rt, "accept:short-expected-output", "Verify returned true for a 63-byte expected output", cs) {
				return
			}
		}
		rec.EvalN(2)

		// (8) purity / history independence, special proofs, failure paths (c38_extra_test.go)
		if !c38Purity(rt, rec, cs, seed, seedOrig, pk, sk, alpha, proof, out, encs) {
			return
		}

		rec.NonTrivial(fmt.Sprintf("%x|%x", seed, alpha), map[string]any{
			"seed": evi.Hex(seed), "alpha": evi.Hex(alpha), "pk": evi.Hex(pk), "proof": evi.Hex(proof), "output": evi.Hex(out),
			"flips_evaluated": 896 + len(msgs) + nNC})
	})
	rec.SetExtra("proof_and_key_bit_flips_per_case", 896)
}
