package crypto

// C38 audit additions: purity / history independence of the VRF entry points,
// special message lengths (every length 0..N, tail-byte changes), special proofs
// (small-order Gamma, constant proofs) and failure paths as history steps.

import (
	"bytes"
	"crypto/sha512"
	"encoding/binary"
	"fmt"
	"math/big"

	"github.com/blinklabs-io/gouroboros/vrf"
	"pgregory.net/rapid"

	"verif/harness/internal/evi"
)

// ---- argument snapshots ----------------------------------------------------------
// Every verification call made through vrfAccepts / vrfCall snapshots its
// arguments and compares them afterwards; a callee that writes into caller memory
// is recorded here and reported by the running case / sweep.
var c38ArgWrites []string

func c38NoteWrite(fn, arg string, before, after []byte) {
	if !bytes.Equal(before, after) && len(c38ArgWrites) < 8 {
		c38ArgWrites = append(c38ArgWrites, fmt.Sprintf("%s changed its %s argument from %x to %x", fn, arg, before, after))
	}
}

func clone(b []byte) []byte { return append([]byte(nil), b...) }

// vrfVerifyAndHash is vrf.VerifyAndHash with argument snapshots.
func vrfVerifyAndHash(pk, proof, msg []byte) ([]byte, error) {
	a, b, c := clone(pk), clone(proof), clone(msg)
	out, err := vrf.VerifyAndHash(pk, proof, msg)
	c38NoteWrite("VerifyAndHash", "public key", a, pk)
	c38NoteWrite("VerifyAndHash", "proof", b, proof)
	c38NoteWrite("VerifyAndHash", "message", c, msg)
	return out, err
}

func vrfVerify(pk, proof, exp, msg []byte) (bool, error) {
	a, b, c, d := clone(pk), clone(proof), clone(exp), clone(msg)
	ok, err := vrf.Verify(pk, proof, exp, msg)
	c38NoteWrite("Verify", "public key", a, pk)
	c38NoteWrite("Verify", "proof", b, proof)
	c38NoteWrite("Verify", "expected output", c, exp)
	c38NoteWrite("Verify", "message", d, msg)
	return ok, err
}

// ---- history ring ------------------------------------------------------------------
type c38Tuple struct{ pk, proof, msg, out []byte }

var c38History []c38Tuple

func c38Remember(t c38Tuple) {
	c38History = append(c38History, c38Tuple{clone(t.pk), clone(t.proof), clone(t.msg), clone(t.out)})
	if len(c38History) > 8 {
		c38History = c38History[1:]
	}
}

func lenBlock(n int) string {
	// which SHA-512 block of suite||0x01||pk||alpha the last message byte falls into
	return fmt.Sprintf("hashblock%d", (34+n-1)/128)
}

// c38TailVariants returns changed messages that differ from alpha only at its end
// (last two bytes bit by bit, truncation by 1 and 2, extension by a zero byte and by a
// repeat of the last byte) plus a change of the very first bit.
func c38TailVariants(alpha []byte) [][]byte {
	var out [][]byte
	n := len(alpha)
	for b := 0; b < 16 && b < n*8; b++ {
		out = append(out, flipBit(alpha, n*8-1-b))
	}
	if n > 0 {
		out = append(out, flipBit(alpha, 0), clone(alpha[:n-1]), append(clone(alpha), alpha[n-1]))
	}
	if n > 1 {
		out = append(out, clone(alpha[:n-2]))
	}
	out = append(out, append(clone(alpha), 0))
	return out
}

// c38LengthSweep proves and verifies one message of EVERY length 0..maxLen (plus a few
// very long ones) and requires every tail variant to be rejected.
func c38LengthSweep(rec *evi.Recorder, maxLen int, extra []int) {
	var sb [8]byte
	binary.BigEndian.PutUint64(sb[:], uint64(rec.Seed()))
	lengths := make([]int, 0, maxLen+1+len(extra))
	for n := 0; n <= maxLen; n++ {
		lengths = append(lengths, n)
	}
	lengths = append(lengths, extra...)
	seeds := [][]byte{nil, make([]byte, 32), bytes.Repeat([]byte{0xff}, 32)}
	done := 0
	for _, n := range lengths {
		h := sha512.Sum512(append(append([]byte("c38-len"), sb[:]...), byte(n), byte(n>>8), byte(n>>16)))
		seed := seeds[n%len(seeds)]
		if seed == nil {
			seed = h[:32]
		}
		alpha := make([]byte, n)
		for i := range alpha {
			alpha[i] = h[32+(i%32)] ^ byte(i>>5) ^ byte(i>>13)
		}
		switch n % 7 {
		case 3:
			alpha = make([]byte, n) // all-zero message
		case 5:
			alpha = bytes.Repeat([]byte{0xff}, n)
		}
		cs := map[string]any{"seed": evi.Hex(seed), "alpha_len": n, "alpha": evi.Hex(alpha)}
		pk, sk, err := vrf.KeyGen(seed)
		if err != nil {
			rec.Violation("length-sweep:keygen-error", fmt.Sprintf("KeyGen: %v", err), cs)
			return
		}
		proof, out, err := vrf.Prove(sk, alpha)
		if err != nil {
			rec.Violation("length-sweep:prove-error:"+lenBlock(n), fmt.Sprintf("Prove failed for a %d-byte message: %v", n, err), cs)
			continue
		}
		cs["pk"], cs["proof"] = evi.Hex(pk), evi.Hex(proof)
		got, err := vrfVerifyAndHash(pk, proof, alpha)
		rec.Eval()
		if err != nil || !bytes.Equal(got, out) {
			rec.Violation("length-sweep:genuine-rejected:"+lenBlock(n), fmt.Sprintf("genuine proof over a %d-byte message: out=%x err=%v, prover output %x", n, got, err, out), cs)
			continue
		}
		if n <= 600 {
			rok, rbeta, rerr := refVRFVerify(pk, proof, alpha)
			rec.Eval()
			if !rok || rerr != nil || !bytes.Equal(rbeta, out) {
				rec.Violation("length-sweep:ref-rejects-library-proof:"+lenBlock(n), fmt.Sprintf("independent verifier on the library proof over a %d-byte message: ok=%v err=%v output equal=%v", n, rok, rerr, bytes.Equal(rbeta, out)), cs)
				continue
			}
		}
		vars := c38TailVariants(alpha)
		for _, m2 := range vars {
			if acc, how, _ := vrfAccepts(pk, proof, m2); acc {
				c2 := map[string]any{"tampered_alpha": evi.Hex(m2), "tampered_len": len(m2)}
				for k, v := range cs {
					c2[k] = v
				}
				rec.Violation("length-sweep:accept:message-tail-change:"+lenBlock(n),
					fmt.Sprintf("proof over a %d-byte message accepted for a message changed at its end (now %d bytes): %s", n, len(m2), how), c2)
				break
			}
		}
		rec.EvalN(len(vars))
		done++
		if n == 32 || n == 94 || n == 95 || n == 128 || n > 60000 {
			rec.NonTrivial(fmt.Sprintf("len:%d:%x", n, seed), map[string]any{"kind": "length sweep", "alpha_len": n, "seed": evi.Hex(seed), "proof": evi.Hex(proof)})
		}
	}
	rec.SetExtra("n_message_lengths_swept", done)
	if len(c38ArgWrites) > 0 {
		rec.Violation("callee-writes-caller-memory", c38ArgWrites[0], map[string]any{"all": c38ArgWrites})
		c38ArgWrites = nil
	}
}

// c38Purity runs the history / purity part of one rapid case. It returns false when the
// case must stop (an unlisted violation was raised).
func c38Purity(rt *rapid.T, rec *evi.Recorder, cs map[string]any, seed, seedOrig, pk, sk, alpha, proof, out []byte, encs [][]byte) bool {
	pk0, sk0, proof0, out0, alpha0 := clone(pk), clone(sk), clone(proof), clone(out), clone(alpha)
	fail := func(key, what string) bool { return rec.Fail(rt, key, what, cs) }

	// the seed buffer handed to KeyGen is still what the caller wrote
	if !bytes.Equal(seed, seedOrig) {
		if !fail("callee-writes-caller-memory:KeyGen-seed", fmt.Sprintf("KeyGen changed the caller's seed buffer to %x", seed)) {
			return false
		}
	}

	// (a) Prove again, with other proofs in between: the output is a function of (key, message)
	otherSeed := sha512.Sum512(append([]byte("c38-other"), seed...))
	_, sk2, _ := vrf.KeyGen(otherSeed[:32])
	_, _, _ = vrf.Prove(sk2, alpha)
	alphaExt := append(clone(alpha), 1)
	pExt, oExt, _ := vrf.Prove(sk, alphaExt)
	if _, _, err := vrf.Prove(sk[:31], alpha); err == nil {
		rec.Class("prove_accepts_31_byte_key")
	}
	if _, _, err := vrf.KeyGen(seed[:31]); err == nil {
		rec.Class("keygen_accepts_31_byte_seed")
	}
	pB, oB, err := vrf.Prove(sk, alpha)
	rec.EvalN(2)
	if err != nil || !bytes.Equal(oB, out0) {
		if !fail("history:reprove-output-differs", fmt.Sprintf("a second Prove of the same (key, message) after other Prove calls gives output %x err=%v, first gave %x", oB, err, out0)) {
			return false
		}
	} else if o, err := vrf.VerifyAndHash(pk0, pB, alpha0); err != nil || !bytes.Equal(o, out0) {
		if !fail("history:reprove-proof-invalid", fmt.Sprintf("the proof of a second Prove of the same (key, message) does not verify: %v", err)) {
			return false
		}
	}
	if bytes.Equal(pB, proof0) {
		rec.Class("reprove_same_bytes")
	} else {
		rec.Class("reprove_different_bytes")
	}
	// results handed out earlier are still what they were
	if !bytes.Equal(proof, proof0) || !bytes.Equal(out, out0) || !bytes.Equal(pk, pk0) || !bytes.Equal(sk, sk0) || !bytes.Equal(alpha, alpha0) {
		if !fail("history:earlier-result-or-argument-changed", fmt.Sprintf("after further KeyGen/Prove calls the earlier results/arguments changed: proof %v output %v pk %v sk %v message %v (true = intact)",
			bytes.Equal(proof, proof0), bytes.Equal(out, out0), bytes.Equal(pk, pk0), bytes.Equal(sk, sk0), bytes.Equal(alpha, alpha0))) {
			return false
		}
	}

	// (b) in-place changes of the very buffers a successful verification saw
	type inplace struct {
		name string
		buf  []byte
		call func(b []byte) ([]byte, error)
	}
	bufs := []inplace{
		{"proof", clone(proof0), func(b []byte) ([]byte, error) { return vrfVerifyAndHash(pk0, b, alpha0) }},
		{"public-key", clone(pk0), func(b []byte) ([]byte, error) { return vrfVerifyAndHash(b, proof0, alpha0) }},
	}
	if len(alpha0) > 0 {
		bufs = append(bufs, inplace{"message", clone(alpha0), func(b []byte) ([]byte, error) { return vrfVerifyAndHash(pk0, proof0, b) }})
	}
	for _, ip := range bufs {
		bit := rapid.IntRange(0, len(ip.buf)*8-1).Draw(rt, "inplaceBit")
		if ip.name == "message" && rapid.Bool().Draw(rt, "inplaceTail") {
			bit = len(ip.buf)*8 - 1 - bit%8
		}
		// a different genuine triple first, so that the next call cannot be answered from
		// anything remembered about an equal request made with other buffers
		if o, e := vrfVerifyAndHash(pk0, pExt, alphaExt); e != nil || !bytes.Equal(o, oExt) {
			if !fail("history:genuine-rejected-around-in-place-change:other-triple", fmt.Sprintf("genuine proof for the extended message rejected: %v", e)) {
				return false
			}
		}
		o1, e1 := ip.call(ip.buf)
		ip.buf[bit/8] ^= 1 << (bit % 8)
		_, e2 := ip.call(ip.buf)
		ip.buf[bit/8] ^= 1 << (bit % 8)
		o3, e3 := ip.call(ip.buf)
		rec.EvalN(3)
		if e1 != nil || !bytes.Equal(o1, out0) || e3 != nil || !bytes.Equal(o3, out0) {
			if !fail("history:genuine-rejected-around-in-place-change:"+ip.name, fmt.Sprintf("genuine triple rejected before (%v) or after (%v) the same %s buffer was changed and restored in place", e1, e3, ip.name)) {
				return false
			}
		}
		if e2 == nil {
			if !fail("accept:in-place-changed:"+ip.name, fmt.Sprintf("after a successful verification, bit %d of the same %s buffer was flipped in place and verification still succeeds", bit, ip.name)) {
				return false
			}
		}
	}

	// (c) interleaving with verifications of other (key, message) pairs from earlier cases
	for i, hst := range c38History {
		if i >= 3 {
			break
		}
		o, e := vrfVerifyAndHash(hst.pk, hst.proof, hst.msg)
		okH := e == nil && bytes.Equal(o, hst.out)
		_, eX := vrfVerifyAndHash(hst.pk, proof0, alpha0) // current proof under the other key
		o2, e2 := vrfVerifyAndHash(pk0, proof0, alpha0)
		_, eY := vrfVerifyAndHash(pk0, hst.proof, hst.msg) // other proof under the current key
		ok2, e3 := vrfVerify(pk0, proof0, out0, alpha0)
		rec.EvalN(5)
		sameKey := bytes.Equal(hst.pk, pk0)
		if !okH || e2 != nil || !bytes.Equal(o2, out0) || !ok2 || e3 != nil {
			if !fail("history:interleaved-genuine-rejected", fmt.Sprintf("interleaving verifications of two genuine triples: earlier triple ok=%v (err %v), current VerifyAndHash err=%v, current Verify=%v/%v", okH, e, e2, ok2, e3)) {
				return false
			}
		}
		if !sameKey && (eX == nil || eY == nil) {
			if !fail("history:interleaved-cross-accepted", fmt.Sprintf("interleaving verifications: a proof was accepted under the other triple's key (current under earlier: %v, earlier under current: %v)", eX == nil, eY == nil)) {
				return false
			}
		}
	}
	rec.ClassN("interleaved_history_triples", min(3, len(c38History)))

	// (d) special proofs under an honest key: small-order Gamma with the genuine (c,s),
	// constant proofs
	specials := [][]byte{make([]byte, 80), bytes.Repeat([]byte{0xff}, 80)}
	for _, e := range encs {
		specials = append(specials, append(clone(e), proof0[32:]...))
	}
	zcs := append(clone(proof0[:32]), make([]byte, 48)...)
	specials = append(specials, zcs)
	for _, p := range specials {
		if acc, how, o := vrfAccepts(pk0, p, alpha0); acc {
			cs["tampered_proof"] = evi.Hex(p)
			if !fail("accept:special-proof", fmt.Sprintf("special proof %x... accepted under an honest key: %s, output %x", p[:8], how, o)) {
				return false
			}
		}
	}
	rec.EvalN(len(specials))
	rec.ClassN("special_proofs", len(specials))

	// (e) the caller's buffers are the caller's: overwrite everything the library returned
	// and everything it was given, then redo the whole thing from the saved seed
	for _, b := range [][]byte{proof, out, pk, sk, pB, oB} {
		for i := range b {
			b[i] = 0xA5
		}
	}
	pk3, sk3, err := vrf.KeyGen(seedOrig)
	if err != nil || !bytes.Equal(pk3, pk0) {
		if !fail("history:keygen-after-overwrite", fmt.Sprintf("KeyGen of the same seed after the earlier returned buffers were overwritten gives %x (err %v), first gave %x", pk3, err, pk0)) {
			return false
		}
		return true
	}
	p3, o3, err := vrf.Prove(sk3, alpha0)
	rec.EvalN(2)
	if err != nil || !bytes.Equal(o3, out0) {
		if !fail("history:prove-after-overwrite", fmt.Sprintf("Prove after the earlier returned buffers were overwritten gives output %x (err %v), first gave %x", o3, err, out0)) {
			return false
		}
		return true
	}
	if o, err := vrf.VerifyAndHash(pk0, p3, alpha0); err != nil || !bytes.Equal(o, out0) {
		if !fail("history:prove-after-overwrite", fmt.Sprintf("the proof made after the earlier returned buffers were overwritten does not verify: %v", err)) {
			return false
		}
	}
	if o, err := vrf.VerifyAndHash(pk0, proof0, alpha0); err != nil || !bytes.Equal(o, out0) {
		if !fail("history:verify-after-overwrite", fmt.Sprintf("the saved copy of the first proof no longer verifies after the returned buffers were overwritten: %v", err)) {
			return false
		}
	}
	copy(proof, proof0)
	copy(out, out0)
	copy(pk, pk0)
	copy(sk, sk0)
	c38Remember(c38Tuple{pk0, proof0, alpha0, out0})

	if len(c38ArgWrites) > 0 {
		w := c38ArgWrites
		c38ArgWrites = nil
		if !fail("callee-writes-caller-memory", w[0]) {
			return false
		}
	}
	return true
}

// c38ScalarFamily is seed-independent on purpose: under one fixed key it proves nProofs
// counter messages, and for the honest proofs tries the non-canonical re-encodings of the
// response scalar: for every proof s+L and the largest s+k*L below 2^256, and for ALL proofs
// whose s has top byte 0x00, 0x0f or 0x10 (s+L then has a top byte equal / adjacent to L's
// top byte 0x10, the only place where a byte-wise comparison with L can go wrong) the whole
// family s+L .. s+15L. The challenge c occupies exactly 16 bytes of the proof, so there is
// no room for an alternative encoding of c. It then presents, behind the genuine (Gamma, c)
// of a few proofs, scalars crafted around every byte-aligned boundary of L.
func c38ScalarFamily(rec *evi.Recorder, nProofs int) {
	seed := sha512.Sum512([]byte("c38 fixed key for the scalar family"))
	pk, sk, err := vrf.KeyGen(seed[:32])
	if err != nil {
		rec.Violation("scalar-family:keygen-error", err.Error(), nil)
		return
	}
	two256 := new(big.Int).Lsh(big1, 256)
	classes := map[byte]int{}
	full, evals := 0, 0
	type kept struct{ proof, alpha []byte }
	var keep []kept
	try := func(proof, alpha []byte, s *big.Int, k int64) {
		s2 := new(big.Int).Add(s, new(big.Int).Mul(big.NewInt(k), edL))
		if s2.Cmp(two256) >= 0 {
			return
		}
		p2 := append(clone(proof[:48]), leBytes(s2, 32)...)
		evals++
		out, err := vrf.VerifyAndHash(pk, p2, alpha)
		if err == nil {
			rec.Violation(fmt.Sprintf("accept:noncanonical-s:s-top-byte-%02x:plus-%dL", proof[79], k),
				fmt.Sprintf("honest proof (fixed key, message %x) with s replaced by s+%d*L (top byte of s %#02x, of s+%dL %#02x) accepted, output %x", alpha, k, proof[79], k, p2[79], out),
				map[string]any{"seed": evi.Hex(seed[:32]), "pk": evi.Hex(pk), "alpha": evi.Hex(alpha), "proof": evi.Hex(proof), "tampered_proof": evi.Hex(p2), "k": k})
		}
	}
	for i := 0; i < nProofs; i++ {
		var alpha [8]byte
		binary.BigEndian.PutUint64(alpha[:], uint64(i))
		proof, _, err := vrf.Prove(sk, alpha[:])
		if err != nil {
			rec.Violation("scalar-family:prove-error", err.Error(), nil)
			return
		}
		if i < 4 {
			if _, err := vrf.VerifyAndHash(pk, proof, alpha[:]); err != nil {
				rec.Violation("scalar-family:genuine-rejected", err.Error(), map[string]any{"alpha": evi.Hex(alpha[:])})
				return
			}
		}
		s := leInt(proof[48:80])
		top := proof[79]
		classes[top]++
		if top == 0x00 || top == 0x0f || top == 0x10 {
			full++
			for k := int64(1); k <= 16; k++ {
				try(proof, alpha[:], s, k)
			}
			if len(keep) < 6 {
				keep = append(keep, kept{proof, clone(alpha[:])})
			}
		} else {
			try(proof, alpha[:], s, 1)
			kmax := new(big.Int).Div(new(big.Int).Sub(new(big.Int).Sub(two256, big1), s), edL).Int64()
			if kmax > 1 {
				try(proof, alpha[:], s, kmax)
			}
		}
	}
	rec.EvalN(evals)
	rec.SetExtra("n_scalar_family_proofs", nProofs)
	rec.SetExtra("n_scalar_family_full_families", full)
	rec.SetExtra("n_scalar_family_s_top_byte_00", classes[0x00])
	rec.SetExtra("n_scalar_family_s_top_byte_0f", classes[0x0f])
	rec.SetExtra("n_scalar_family_s_top_byte_10", classes[0x10])
	if classes[0x00] < 8 {
		rec.Violation("scalar-family:harness-too-few-top-byte-00", fmt.Sprintf("harness: only %d honest proofs with s top byte 0x00 among %d", classes[0x00], nProofs), nil)
	}
	if len(keep) > 0 {
		rec.NonTrivial("scalar-family", map[string]any{"kind": "fixed-key scalar family", "proofs": nProofs, "full_families": full, "example_proof_s_top_byte_00": evi.Hex(keep[0].proof)})
	}

	// crafted scalars around the byte-aligned boundaries of L = 2^252 + Llow, behind genuine (Gamma, c)
	lLow := new(big.Int).Mod(edL, new(big.Int).Lsh(big1, 128))
	top10 := new(big.Int).Lsh(big.NewInt(0x10), 248)
	var crafted []*big.Int
	add := func(v *big.Int) {
		if v.Sign() >= 0 && v.Cmp(two256) < 0 {
			crafted = append(crafted, v)
		}
	}
	for _, base := range []*big.Int{edL, new(big.Int).Sub(edL, big1), new(big.Int).Add(edL, big1)} {
		add(base)
		for j := 16; j <= 30; j++ {
			b := new(big.Int).Lsh(big1, uint(8*j))
			add(new(big.Int).Add(base, b))
			add(new(big.Int).Add(base, new(big.Int).Lsh(big.NewInt(0xff), uint(8*j))))
		}
		for j := 0; j < 16; j++ {
			add(new(big.Int).Add(base, new(big.Int).Lsh(big1, uint(8*j))))
			add(new(big.Int).Sub(base, new(big.Int).Lsh(big1, uint(8*j))))
		}
	}
	for _, low := range []*big.Int{big0, big1, new(big.Int).Sub(lLow, big1), lLow, new(big.Int).Add(lLow, big1), new(big.Int).Sub(new(big.Int).Lsh(big1, 128), big1)} {
		add(new(big.Int).Add(top10, low))
		for _, j := range []int{16, 23, 30} {
			add(new(big.Int).Add(new(big.Int).Add(top10, low), new(big.Int).Lsh(big1, uint(8*j))))
		}
		add(new(big.Int).Add(new(big.Int).Lsh(big.NewInt(0x0f), 248), low))
		add(new(big.Int).Add(new(big.Int).Lsh(big.NewInt(0x11), 248), low))
	}
	add(new(big.Int).Sub(two256, big1))
	add(new(big.Int).Lsh(big1, 252))
	add(new(big.Int).Lsh(big1, 255))
	n := 0
	for _, kp := range keep {
		for _, v := range crafted {
			p2 := append(clone(kp.proof[:48]), leBytes(v, 32)...)
			if bytes.Equal(p2, kp.proof) {
				continue
			}
			n++
			if acc, how, _ := vrfAccepts(pk, p2, kp.alpha); acc {
				rec.Violation("accept:crafted-s-near-L", fmt.Sprintf("proof with the response scalar replaced by %x accepted: %s", leBytes(v, 32), how),
					map[string]any{"pk": evi.Hex(pk), "alpha": evi.Hex(kp.alpha), "proof": evi.Hex(kp.proof), "tampered_proof": evi.Hex(p2)})
			}
		}
	}
	rec.EvalN(n)
	rec.SetExtra("n_crafted_scalars_near_L", n)
}
