package mux

import (
	"fmt"
	"net"
	"runtime"
	"sort"
	"strings"
	"sync"
	"sync/atomic"
	"time"

	"github.com/blinklabs-io/gouroboros/protocol"
	"pgregory.net/rapid"

	"verif/harness/internal/rawpeer"
)

// ---- deterministic payload expansion -------------------------------------------

// fill expands a generator-drawn seed into n bytes (splitmix64). It is a pure
// function of its arguments: all randomness still comes from rapid draws.
func fill(seed uint64, n int) []byte {
	out := make([]byte, n)
	x := seed
	for i := 0; i < n; i += 8 {
		x += 0x9e3779b97f4a7c15
		z := x
		z = (z ^ (z >> 30)) * 0xbf58476d1ce4e5b9
		z = (z ^ (z >> 27)) * 0x94d049bb133111eb
		z ^= z >> 31
		for j := 0; j < 8 && i+j < n; j++ {
			out[i+j] = byte(z >> (8 * j))
		}
	}
	return out
}

func fnv64(b []byte) uint64 {
	h := uint64(0xcbf29ce484222325)
	for _, c := range b {
		h ^= uint64(c)
		h *= 0x100000001b3
	}
	return h
}

// ---- tapConn: observation and write splitting ---------------------------------------

// tapConn wraps the connection handed to a muxer. It counts and optionally
// records the bytes the muxer reads (the read side is single-threaded in the
// muxer, so the record is the exact wire order), and it can split every Write
// into several underlying writes with a yield in between. net.Conn does not
// promise that concurrent Write calls are atomic, so a connection that does
// this is a legal one (TLS records, userspace transports, rate limiters).
type tapConn struct {
	net.Conn
	recordReads bool
	mu          sync.Mutex
	readLog     []byte
	nRead       atomic.Int64
	nWritten    atomic.Int64
	split       []int // cycled piece sizes for Write; empty = unsplit
	si          int
}

func (c *tapConn) Read(p []byte) (int, error) {
	n, err := c.Conn.Read(p)
	if n > 0 {
		c.nRead.Add(int64(n))
		if c.recordReads {
			c.mu.Lock()
			c.readLog = append(c.readLog, p[:n]...)
			c.mu.Unlock()
		}
	}
	return n, err
}

func (c *tapConn) nextPiece() int {
	c.mu.Lock()
	defer c.mu.Unlock()
	if len(c.split) == 0 {
		return 0
	}
	v := c.split[c.si%len(c.split)]
	c.si++
	return v
}

func (c *tapConn) Write(p []byte) (int, error) {
	total := 0
	for len(p) > 0 {
		n := c.nextPiece()
		if n <= 0 || n > len(p) {
			n = len(p)
		}
		m, err := c.Conn.Write(p[:n])
		total += m
		c.nWritten.Add(int64(m))
		if err != nil {
			return total, err
		}
		p = p[n:]
		if len(p) > 0 {
			runtime.Gosched()
		}
	}
	return total, nil
}

// The muxer arms a 120 s read deadline before every segment (slow-loris guard). That
// guard is wall-clock behaviour outside C09/C10/C13; on a loaded machine or under the
// race detector a case can leave one direction idle for longer, so the harness
// connection never lets a deadline fire.
func (c *tapConn) SetReadDeadline(time.Time) error { return nil }
func (c *tapConn) SetDeadline(time.Time) error     { return nil }

func (c *tapConn) ReadLog() []byte {
	c.mu.Lock()
	defer c.mu.Unlock()
	return append([]byte(nil), c.readLog...)
}

// ---- generators ------------------------------------------------------------------

// genPlan draws a read-fragmentation / yield plan for one end of the pipe.
func genPlan(rt *rapid.T, label string) (*rawpeer.SeqPlan, string) {
	kind := rapid.IntRange(0, 5).Draw(rt, label+"_planKind")
	var chunks []int
	switch kind {
	case 0: // unfragmented
	case 1: // byte at a time
		chunks = []int{1}
	case 2: // tiny mixed: always splits the 8-byte header
		n := rapid.IntRange(1, 6).Draw(rt, label+"_nChunks")
		for i := 0; i < n; i++ {
			chunks = append(chunks, rapid.IntRange(1, 7).Draw(rt, label+"_chunk"))
		}
	case 3: // around the header size
		n := rapid.IntRange(1, 5).Draw(rt, label+"_nChunks")
		for i := 0; i < n; i++ {
			chunks = append(chunks, rapid.SampledFrom([]int{3, 7, 8, 9, 15, 16, 17}).Draw(rt, label+"_chunk"))
		}
	case 4: // mixed small / large / unlimited
		n := rapid.IntRange(1, 8).Draw(rt, label+"_nChunks")
		for i := 0; i < n; i++ {
			chunks = append(chunks, rapid.SampledFrom([]int{0, 1, 2, 5, 8, 13, 100, 1000, 4096, 65535, 65543, 70000}).Draw(rt, label+"_chunk"))
		}
	case 5: // medium
		n := rapid.IntRange(1, 4).Draw(rt, label+"_nChunks")
		for i := 0; i < n; i++ {
			chunks = append(chunks, rapid.IntRange(10, 3000).Draw(rt, label+"_chunk"))
		}
	}
	// Sleeping yields are only drawn when the plan implies few reads; otherwise
	// the case would be dominated by timer granularity (harness cost, not a signal).
	sleepy := avgChunk(chunks) >= 1500
	ny := rapid.IntRange(0, 4).Draw(rt, label+"_nYields")
	var yields []int
	for i := 0; i < ny; i++ {
		// 0 none, 1 Gosched, >1 sleep microseconds
		if sleepy {
			yields = append(yields, rapid.SampledFrom([]int{0, 0, 1, 1, 1, 20, 100}).Draw(rt, label+"_yield"))
		} else {
			yields = append(yields, rapid.SampledFrom([]int{0, 0, 1}).Draw(rt, label+"_yield"))
		}
	}
	desc := fmt.Sprintf("chunks=%v yields=%v", chunks, yields)
	return &rawpeer.SeqPlan{Chunks: chunks, Yields: yields}, desc
}

// avgChunk is the mean piece size of a cycled size list (<=0 or empty = unlimited,
// counted as a full segment).
func avgChunk(chunks []int) int {
	if len(chunks) == 0 {
		return 65535
	}
	sum := 0
	for _, c := range chunks {
		if c <= 0 || c > 65535 {
			c = 65535
		}
		sum += c
	}
	return sum / len(chunks)
}

// volumeFor bounds the bytes moved in a case so that the number of Read/Write
// calls implied by the fragmentation stays around <= 25k.
func volumeFor(max int, chunkLists ...[]int) int {
	v := max
	for _, cl := range chunkLists {
		if w := avgChunk(cl) * 25000; w < v {
			v = w
		}
	}
	if v < 20000 {
		v = 20000
	}
	return v
}

// noSleep turns sleeping yields of a plan into plain Gosched yields.
func noSleep(p *rawpeer.SeqPlan) string {
	for i, y := range p.Yields {
		if y > 1 {
			p.Yields[i] = 1
		}
	}
	return fmt.Sprintf("chunks=%v yields=%v", p.Chunks, p.Yields)
}

func planSplitsHeader(p *rawpeer.SeqPlan) bool {
	for _, c := range p.Chunks {
		if c > 0 && c < 8 {
			return true
		}
	}
	return false
}

// specialSegSizes: payload sizes at and next to the header size, powers of two that
// are common internal buffer sizes, and the top of the 16-bit length field.
var specialSegSizes = []int{1, 2, 7, 8, 9, 23, 24, 63, 64, 65, 255, 256, 511, 512, 513, 4095, 4096, 4097, 12287, 12288, 12289, 65534, 65535}

// specialTimestamps wrap / sign boundaries of the 32-bit timestamp field.
var specialTimestamps = []uint32{0, 1, 0x7fffffff, 0x80000000, 0xfffffffe, 0xffffffff}

// genSegSize draws a segment payload size in 1..65535, biased to the boundaries.
func genSegSize(rt *rapid.T, allowBig bool) int {
	hi := 9
	if !allowBig {
		hi = 6
	}
	switch rapid.IntRange(0, hi).Draw(rt, "sizeKind") {
	case 0, 1:
		return rapid.IntRange(1, 16).Draw(rt, "size")
	case 2:
		return rapid.SampledFrom(specialSegSizes[:len(specialSegSizes)-2]).Draw(rt, "size")
	case 3, 4, 5:
		return rapid.IntRange(17, 2048).Draw(rt, "size")
	case 6:
		return rapid.IntRange(2049, 12000).Draw(rt, "size")
	case 7:
		return rapid.SampledFrom([]int{65534, 65535, 65535, 65533, 32768, 32767}).Draw(rt, "size")
	case 8:
		return rapid.IntRange(12001, 65535).Draw(rt, "size")
	default:
		return rapid.IntRange(60000, 65535).Draw(rt, "size")
	}
}

// setProcs applies a generator-chosen GOMAXPROCS for the case and returns the
// restore function (schedule perturbation; the test binary runs one case at a time).
func setProcs(rt *rapid.T) (int, func()) {
	n := rapid.SampledFrom([]int{1, 2, 4, 8, 16}).Draw(rt, "gomaxprocs")
	old := runtime.GOMAXPROCS(n)
	return n, func() { runtime.GOMAXPROCS(old) }
}

// ---- real state maps ---------------------------------------------------------------

// stripTimeouts copies a state map with all state timeouts removed (timeouts are
// C14's subject; a loaded machine must not turn them into noise here). Limits,
// agencies and transitions are unchanged.
func stripTimeouts(sm protocol.StateMap) protocol.StateMap {
	out := protocol.StateMap{}
	for s, e := range sm {
		e.Timeout = 0
		e.TimeoutFunc = nil
		out[s] = e
	}
	return out
}

func stateByName(sm protocol.StateMap, name string) protocol.State {
	for s := range sm {
		if s.Name == name {
			return s
		}
	}
	panic("no state " + name)
}

// ---- misc -------------------------------------------------------------------------

func goroutineDump() string {
	buf := make([]byte, 1<<20)
	n := runtime.Stack(buf, true)
	s := string(buf[:n])
	// keep the blocks that mention the library or the harness package
	blocks := strings.Split(s, "\n\n")
	var keep []string
	for _, b := range blocks {
		if strings.Contains(b, "gouroboros") || strings.Contains(b, "props/mux") {
			keep = append(keep, b)
		}
	}
	out := strings.Join(keep, "\n\n")
	if len(out) > 24000 {
		out = out[:24000] + "\n…(clipped)"
	}
	return out
}

// waitUntil polls cond (cheap, lock-protected) until it holds or d elapsed.
// Used only for bounded-liveness waits with generous d.
func waitUntil(d time.Duration, cond func() bool) bool {
	deadline := time.Now().Add(d)
	sleep := 50 * time.Microsecond
	for {
		if cond() {
			return true
		}
		if time.Now().After(deadline) {
			return cond()
		}
		time.Sleep(sleep)
		if sleep < 2*time.Millisecond {
			sleep *= 2
		}
	}
}

// A stall is declared only when `patience` elapsed without any change of the
// case's progress counter (bytes moved, messages handled, ...): a slow or loaded
// machine delays a verdict, it cannot produce one.
type progressFn func() int64

// stallChan returns a channel that is closed once progress() has not changed
// for patience; stop releases the watcher.
func stallChan(patience time.Duration, progress progressFn) (<-chan struct{}, func()) {
	ch := make(chan struct{})
	quit := make(chan struct{})
	var once sync.Once
	go func() {
		last := int64(-1)
		if progress != nil {
			last = progress()
		}
		deadline := time.Now().Add(patience)
		tick := patience / 40
		if tick > 200*time.Millisecond {
			tick = 200 * time.Millisecond
		}
		if tick < time.Millisecond {
			tick = time.Millisecond
		}
		for {
			select {
			case <-quit:
				return
			case <-time.After(tick):
			}
			if progress != nil {
				if cur := progress(); cur != last {
					last = cur
					deadline = time.Now().Add(patience)
				}
			}
			if time.Now().After(deadline) {
				// Nothing observable moved. Before calling it a stall make sure nobody is
				// merely starved of CPU (race detector, loaded machine, GOMAXPROCS=1): a
				// goroutine of the library or the harness that is runnable or running is
				// work in progress, not a hang.
				if activeGoroutines() > 0 {
					deadline = time.Now().Add(patience / 2)
					continue
				}
				close(ch)
				return
			}
		}
	}()
	return ch, func() { once.Do(func() { close(quit) }) }
}

// activeGoroutines counts goroutines that have a frame in the library or in this
// package and are runnable or running (the caller excluded).
func activeGoroutines() int {
	buf := make([]byte, 2<<20)
	n := runtime.Stack(buf, true)
	blocks := strings.Split(string(buf[:n]), "\n\n")
	active := 0
	for i, b := range blocks {
		if i == 0 {
			continue // the calling goroutine is listed first
		}
		nl := strings.IndexByte(b, '\n')
		if nl < 0 {
			continue
		}
		head := b[:nl]
		if !strings.Contains(head, "[runnable") && !strings.Contains(head, "[running") {
			continue
		}
		if strings.Contains(b, "gouroboros/") || strings.Contains(b, "props/mux.") || strings.Contains(b, "fxamacker/") {
			active++
		}
	}
	return active
}

// waitCond polls cond until it holds; gives up when abort is closed or no
// progress was made for patience.
func waitCond(patience time.Duration, abort <-chan struct{}, progress progressFn, cond func() bool) bool {
	stall, stop := stallChan(patience, progress)
	defer stop()
	sleep := 20 * time.Microsecond
	for {
		if cond() {
			return true
		}
		select {
		case <-abort:
			return cond()
		case <-stall:
			return cond()
		default:
		}
		time.Sleep(sleep)
		if sleep < time.Millisecond {
			sleep *= 2
		}
	}
}

func sortedKeys[V any](m map[string]V) []string {
	ks := make([]string, 0, len(m))
	for k := range m {
		ks = append(ks, k)
	}
	sort.Strings(ks)
	return ks
}

// drainErrs collects everything currently/subsequently available on an error
// channel until it is closed or d elapsed; reports whether it was closed.
func drainErrs(ch <-chan error, d time.Duration) (errs []error, closed bool) {
	t := time.NewTimer(d)
	defer t.Stop()
	for {
		select {
		case e, ok := <-ch:
			if !ok {
				return errs, true
			}
			errs = append(errs, e)
		case <-t.C:
			return errs, false
		}
	}
}
