//go:build race

package mux

// raceEnabled scales per-case volumes down: the race detector slows the byte
// shuffling by roughly an order of magnitude.
const raceEnabled = true
