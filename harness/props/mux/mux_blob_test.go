package mux

import (
	"fmt"
	"net"
	"sync"
	"time"

	"github.com/blinklabs-io/gouroboros/muxer"
	"github.com/blinklabs-io/gouroboros/protocol"
	"pgregory.net/rapid"

	"verif/harness/internal/xcbor"
)

// ---- the harness-defined blob mini-protocol ----------------------------------------
//
//   Idle  (client agency)  --C2S--> Idle   --TurnC--> Busy   --Done--> Done
//   Busy  (server agency)  --S2C--> Busy   --TurnS--> Idle
//
// A message is a CBOR array whose first element is the message type (that is all
// the engine requires) followed by one byte string and optionally padding items.

const (
	blobC2S   uint8 = 0
	blobTurnC uint8 = 1
	blobS2C   uint8 = 2
	blobTurnS uint8 = 3
	blobDone  uint8 = 4
)

var (
	blobIdle = protocol.NewState(1, "Idle")
	blobBusy = protocol.NewState(2, "Busy")
	blobEnd  = protocol.NewState(3, "Done")
)

// blobStateMap builds the state map; limits are PendingMessageByteLimit of the
// Idle and Busy state (0 = none).
func blobStateMap(idleLimit, busyLimit int) protocol.StateMap {
	return protocol.StateMap{
		blobIdle: protocol.StateMapEntry{
			Agency:                  protocol.AgencyClient,
			PendingMessageByteLimit: idleLimit,
			Transitions: []protocol.StateTransition{
				{MsgType: blobC2S, NewState: blobIdle},
				{MsgType: blobTurnC, NewState: blobBusy},
				{MsgType: blobDone, NewState: blobEnd},
			},
		},
		blobBusy: protocol.StateMapEntry{
			Agency:                  protocol.AgencyServer,
			PendingMessageByteLimit: busyLimit,
			Transitions: []protocol.StateTransition{
				{MsgType: blobS2C, NewState: blobBusy},
				{MsgType: blobTurnS, NewState: blobIdle},
			},
		},
		blobEnd: protocol.StateMapEntry{Agency: protocol.AgencyNone},
	}
}

// blobShift moves the conversation from Idle to Idle2: a second state in which the
// client still has agency but which declares a different byte limit.
const blobShift uint8 = 5

var blobIdle2 = protocol.NewState(4, "Idle2")

// blobStateMap2 is blobStateMap(l1, l1) plus Idle --Shift--> Idle2 (client agency,
// limit l2) --C2S--> Idle2.
func blobStateMap2(l1, l2 int) protocol.StateMap {
	sm := blobStateMap(l1, l1)
	idle := sm[blobIdle]
	idle.Transitions = append(append([]protocol.StateTransition(nil), idle.Transitions...), protocol.StateTransition{MsgType: blobShift, NewState: blobIdle2})
	sm[blobIdle] = idle
	sm[blobIdle2] = protocol.StateMapEntry{
		Agency:                  protocol.AgencyClient,
		PendingMessageByteLimit: l2,
		Transitions:             []protocol.StateTransition{{MsgType: blobC2S, NewState: blobIdle2}},
	}
	return sm
}

// blobMsg implements protocol.Message. raw is the exact wire encoding; when
// lazy is set Cbor() is nil until the engine encodes the message through
// MarshalCBOR and caches the result with SetCbor (the path real messages built
// with NewMsgXxx take).
type blobMsg struct {
	typ  uint8
	raw  []byte
	enc  []byte // what MarshalCBOR returns for a lazy message
	lazy bool
}

func (m *blobMsg) SetCbor(b []byte) {
	if b == nil {
		m.raw = nil
		return
	}
	m.raw = append([]byte(nil), b...)
}
func (m *blobMsg) Cbor() []byte                 { return m.raw }
func (m *blobMsg) Type() uint8                  { return m.typ }
func (m *blobMsg) MarshalCBOR() ([]byte, error) { return m.enc, nil }

func newBlobMsg(typ uint8, wire []byte, lazy bool) *blobMsg {
	if lazy {
		return &blobMsg{typ: typ, enc: wire, lazy: true}
	}
	return &blobMsg{typ: typ, raw: wire}
}

// blobStyle selects the CBOR encoding form of a blob message.
type blobStyle struct {
	ArrForm   xcbor.Form // FormMinimal, FormW1.., FormIndef
	BytesForm xcbor.Form
	Chunk     int // chunk size for an indefinite byte string
	Pad       int // number of extra small items after the byte string
	NoBody    bool
}

func (s blobStyle) String() string {
	return fmt.Sprintf("arr=%s bytes=%s chunk=%d pad=%d nobody=%v", s.ArrForm, s.BytesForm, s.Chunk, s.Pad, s.NoBody)
}

func genBlobStyle(rt *rapid.T) blobStyle {
	var s blobStyle
	switch rapid.IntRange(0, 9).Draw(rt, "styleKind") {
	case 0, 1, 2, 3, 4: // canonical
	case 5:
		s.ArrForm = xcbor.FormIndef
	case 6:
		s.BytesForm = xcbor.FormIndef
		s.Chunk = rapid.SampledFrom([]int{1, 7, 64, 1000, 65535, 65536, 100000}).Draw(rt, "chunk")
	case 7:
		s.ArrForm = rapid.SampledFrom([]xcbor.Form{xcbor.FormW1, xcbor.FormW2, xcbor.FormW4, xcbor.FormW8}).Draw(rt, "arrForm")
		s.BytesForm = rapid.SampledFrom([]xcbor.Form{xcbor.FormMinimal, xcbor.FormW4, xcbor.FormW8}).Draw(rt, "bytesForm")
	case 8:
		s.Pad = rapid.IntRange(1, 5).Draw(rt, "pad")
	case 9:
		s.ArrForm = xcbor.FormIndef
		s.BytesForm = xcbor.FormIndef
		s.Chunk = rapid.SampledFrom([]int{3, 500, 70000}).Draw(rt, "chunk")
		s.Pad = rapid.IntRange(0, 2).Draw(rt, "pad")
	}
	return s
}

// buildBlob encodes [typ, h'payload', pad...] in the given style.
func buildBlob(typ uint8, payload []byte, st blobStyle) []byte {
	items := []*xcbor.Node{xcbor.U(uint64(typ))}
	if !st.NoBody {
		b := xcbor.B(payload)
		if st.BytesForm == xcbor.FormIndef {
			chunk := st.Chunk
			// keep the number of chunks moderate for large payloads
			if chunk > 0 && len(payload)/chunk > 4096 {
				chunk = len(payload)/4096 + 1
			}
			b.Apply(xcbor.FormIndef, chunk)
		} else if st.BytesForm != xcbor.FormMinimal && b.CanApply(st.BytesForm) {
			b.Apply(st.BytesForm, 0)
		}
		items = append(items, b)
	}
	for i := 0; i < st.Pad; i++ {
		items = append(items, xcbor.U(uint64(i*1000)))
	}
	a := xcbor.A(items...)
	if st.ArrForm == xcbor.FormIndef {
		a.Apply(xcbor.FormIndef, 0)
	} else if st.ArrForm != xcbor.FormMinimal && a.CanApply(st.ArrForm) {
		a.Apply(st.ArrForm, 0)
	}
	return a.Encode()
}

// buildBlobOfSize returns a message whose total encoded size is as close to
// total as the style permits (exact whenever total >= the style's minimum).
func buildBlobOfSize(typ uint8, total int, seed uint64, st blobStyle) []byte {
	if total <= 2 {
		st2 := st
		st2.NoBody, st2.Pad = true, 0
		if total <= 1 || st2.ArrForm != xcbor.FormMinimal {
			st2.ArrForm = xcbor.FormMinimal
		}
		return buildBlob(typ, nil, st2) // 0x81 typ: the smallest possible message
	}
	// Requested style first; then styles that can hit every size: the canonical one
	// misses the sizes just above a head-width change (27, 260, 65541, 65542), a byte
	// string with an 8-byte length head reaches every total >= 11.
	var out []byte
	for _, style := range []blobStyle{st, {}, {BytesForm: xcbor.FormW8}} {
		p := total - 3
		for iter := 0; iter < 5; iter++ {
			if p < 0 {
				p = 0
			}
			out = buildBlob(typ, fill(seed, p), style)
			if len(out) == total {
				return out
			}
			np := p + total - len(out)
			if np < 0 {
				np = 0
			}
			if np == p {
				break
			}
			p = np
		}
	}
	return out
}

// ---- one real endpoint: muxer + protocol instances + recorders ----------------------

type blobProto struct {
	id   uint16
	role protocol.ProtocolRole
	P    *protocol.Protocol

	mu       sync.Mutex
	cond     *sync.Cond
	decoded  [][]byte // data handed to MessageFromCborFunc (copied there, as real decoders do)
	handled  [][]byte // msg.Cbor() when the handler ran
	types    []uint8
	onHandle func(i int, m *blobMsg) error // optional, runs inside the handler (after recording)
	cfg      protocol.ProtocolConfig       // kept for restarts
	scribble bool                          // overwrite the received message's bytes after recording them
	restarts int
}

// restart stops the protocol instance and starts a fresh one with the same
// configuration on the same muxer (what blockfetch.Server does on ClientDone and
// what every client Stop()/Start() cycle does). The recorders carry on.
func (bp *blobProto) restart(stall <-chan struct{}) bool {
	bp.P.Stop()
	select {
	case <-bp.P.DoneChan():
	case <-stall:
		return false
	}
	bp.P = protocol.New(bp.cfg)
	bp.P.Start()
	bp.restarts++
	return true
}

func (bp *blobProto) fromCbor(msgType uint, data []byte) (protocol.Message, error) {
	if msgType > 255 {
		return nil, fmt.Errorf("blob: message type %d out of range", msgType)
	}
	cp := append([]byte(nil), data...)
	bp.mu.Lock()
	bp.decoded = append(bp.decoded, cp)
	bp.mu.Unlock()
	m := &blobMsg{typ: uint8(msgType)}
	m.SetCbor(data)
	return m, nil
}

func (bp *blobProto) handle(msg protocol.Message) error {
	m := msg.(*blobMsg)
	bp.mu.Lock()
	i := len(bp.handled)
	bp.handled = append(bp.handled, append([]byte(nil), m.Cbor()...))
	bp.types = append(bp.types, m.Type())
	bp.cond.Broadcast()
	f := bp.onHandle
	scribble := bp.scribble
	bp.mu.Unlock()
	if scribble {
		// the message object is the receiver's now: nothing else may depend on its bytes
		for i := range m.raw {
			m.raw[i] = ^m.raw[i]
		}
	}
	if f != nil {
		return f(i, m)
	}
	return nil
}

func (bp *blobProto) handledCount() int {
	bp.mu.Lock()
	defer bp.mu.Unlock()
	return len(bp.handled)
}

func (bp *blobProto) snapshot() (decoded, handled [][]byte) {
	bp.mu.Lock()
	defer bp.mu.Unlock()
	return append([][]byte(nil), bp.decoded...), append([][]byte(nil), bp.handled...)
}

type blobSide struct {
	role   protocol.ProtocolRole
	conn   *tapConn
	mux    *muxer.Muxer
	errCh  chan error
	protos []*blobProto
	duplex bool // protocol instances of both roles live on this muxer
}

type blobProtoSpec struct {
	id        uint16
	stateMap  protocol.StateMap
	recvQueue int
	role      protocol.ProtocolRole // 0 = the side's role
}

// newBlobSide builds a muxer on conn and one protocol.Protocol per spec, wired
// the way Connection.setupConnection wires the real mini-protocols.
func newBlobSide(conn net.Conn, role protocol.ProtocolRole, recordReads bool, specs []blobProtoSpec) *blobSide {
	s := &blobSide{role: role, errCh: make(chan error, 10)}
	s.conn = &tapConn{Conn: conn, recordReads: recordReads}
	s.mux = muxer.New(s.conn)
	for _, sp := range specs {
		prole := role
		if sp.role != protocol.ProtocolRoleNone {
			prole = sp.role
		}
		if prole != role {
			s.duplex = true
		}
		bp := &blobProto{id: sp.id, role: prole}
		bp.cond = sync.NewCond(&bp.mu)
		bp.cfg = protocol.ProtocolConfig{
			Name:                fmt.Sprintf("blob-%d", sp.id),
			ProtocolId:          sp.id,
			ErrorChan:           s.errCh,
			Muxer:               s.mux,
			Mode:                protocol.ProtocolModeNodeToNode,
			Role:                prole,
			MessageHandlerFunc:  bp.handle,
			MessageFromCborFunc: bp.fromCbor,
			StateMap:            sp.stateMap,
			InitialState:        blobIdle,
			RecvQueueSize:       sp.recvQueue,
		}
		bp.P = protocol.New(bp.cfg)
		s.protos = append(s.protos, bp)
	}
	return s
}

func (s *blobSide) start() {
	for _, bp := range s.protos {
		bp.P.Start()
	}
	if s.duplex {
		s.mux.SetDiffusionMode(muxer.DiffusionModeInitiatorAndResponder)
	} else if s.role == protocol.ProtocolRoleClient {
		s.mux.SetDiffusionMode(muxer.DiffusionModeInitiator)
	} else {
		s.mux.SetDiffusionMode(muxer.DiffusionModeResponder)
	}
	s.mux.Start()
}

// pendingErrors returns the protocol / muxer errors reported so far (non-blocking).
func (s *blobSide) pendingErrors() (out []string) {
	for {
		select {
		case e := <-s.errCh:
			out = append(out, "protocol: "+e.Error())
		default:
			for {
				select {
				case e, ok := <-s.mux.ErrorChan():
					if !ok {
						return
					}
					out = append(out, "muxer: "+e.Error())
				default:
					return
				}
			}
		}
	}
}

// stop shuts everything down and waits (bounded) for the protocol goroutines.
func (s *blobSide) stop(wait time.Duration) (clean bool) {
	s.mux.Stop() // muxer first, as Connection.shutdown does
	for _, bp := range s.protos {
		bp.P.Stop()
	}
	clean = true
	deadline := time.After(wait)
	for _, bp := range s.protos {
		select {
		case <-bp.P.DoneChan():
		case <-deadline:
			clean = false
		}
	}
	_, closed := drainErrs(s.mux.ErrorChan(), wait)
	return clean && closed
}

// waitHandled blocks until bp has handled n messages; gives up on abort or when
// progress stalls for d.
func (bp *blobProto) waitHandled(n int, d time.Duration, abort <-chan struct{}, progress progressFn) bool {
	return waitCond(d, abort, progress, func() bool { return bp.handledCount() >= n })
}
