//go:build verif

package mux

import (
	"bytes"
	"fmt"
	"os"
	"runtime"
	"sync"
	"sync/atomic"
	"testing"
	"time"

	"github.com/blinklabs-io/gouroboros/muxer"
	"github.com/blinklabs-io/gouroboros/protocol"
	"github.com/blinklabs-io/gouroboros/protocol/blockfetch"
	"github.com/blinklabs-io/gouroboros/protocol/chainsync"
	pcommon "github.com/blinklabs-io/gouroboros/protocol/common"
	"pgregory.net/rapid"

	"verif/harness/internal/evi"
	"verif/harness/internal/rawpeer"
	"verif/harness/internal/xcbor"
)

// C13 — receive buffering is bounded.
//
// One real protocol.Protocol on a real muxer; the far end is a raw peer that
// streams harness-built messages as fast as the connection takes them while the
// harness-owned handler is slow. Observation: the verif tracer events
// recv_accounted / recv_released, VerifPendingRecvBytes() at every handler
// entry, the harness's own count of decoder and handler invocations, ErrorChan
// and DoneChan.

const maxReadBuffer = 16 * 1024 * 1024 // the bound named in the statement

type c13Acc struct {
	State   string
	Limit   int
	Pending int
	MsgLen  int
}

type c13Fail struct {
	key, what string
	extra     map[string]any
}

// c13Run is the per-case state shared between the tracer, the decoder wrapper,
// the handler and the driver.
type c13Run struct {
	c  *c13Case
	sm protocol.StateMap
	P  *protocol.Protocol

	mu          sync.Mutex
	cond        *sync.Cond
	acc         []c13Acc
	released    int
	handled     [][]byte
	fails       []c13Fail
	decoded     atomic.Int64
	trace       []string // state transitions as traced (diagnostics for stall reports)
	transitions atomic.Int64

	maxPending    int
	maxHeldOther  int // harness model: bytes held apart from the message being processed
	pressure      int // handler entries at which the next message could not have been admitted
	gateReached   bool
	gateTimeout   bool
	writtenAtGate int64
	written       atomic.Int64
	prefix        []int // prefix sums of expected message sizes
}

var c13Current atomic.Pointer[c13Run]

func c13Tracer(ev protocol.VerifEvent) {
	r := c13Current.Load()
	if r == nil || ev.P != r.P || r.P == nil {
		return
	}
	switch ev.Kind {
	case "transition":
		// Schedule perturbation: the event is emitted by the state goroutine between
		// computing the next state and publishing it, so sleeping here is the same as
		// that goroutine being descheduled. It widens the window in which the read
		// loop still sees the previous state (and its byte limit).
		r.mu.Lock()
		if len(r.trace) < 400 {
			e := ""
			if ev.Err != nil {
				e = " ERR"
			}
			r.trace = append(r.trace, fmt.Sprintf("%s-%d->%s%s", ev.From.Name, ev.MsgType, ev.To.Name, e))
		}
		r.mu.Unlock()
		if n := int(r.transitions.Add(1)) - 1; n < len(r.c.TransDelays) {
			if d := r.c.TransDelays[n]; d == 1 {
				runtime.Gosched()
			} else if d > 1 {
				time.Sleep(time.Duration(d) * time.Microsecond)
			}
		}
	case "recv_accounted":
		r.mu.Lock()
		r.acc = append(r.acc, c13Acc{State: ev.From.Name, Limit: ev.Limit, Pending: ev.Pending, MsgLen: ev.MsgLen})
		n := len(r.acc)
		if ev.Pending > r.maxPending {
			r.maxPending = ev.Pending
		}
		want := r.sm[ev.From].PendingMessageByteLimit
		if ev.Limit != want {
			r.failLocked("C13:"+r.c.Family+":limit-of-state", fmt.Sprintf("message #%d accounted in state %s with limit %d, the state map declares %d", n-1, ev.From.Name, ev.Limit, want), nil)
		}
		if ev.Limit > 0 && ev.Pending > ev.Limit {
			r.failLocked("C13:"+r.c.Family+":pending-exceeds-limit", fmt.Sprintf("after accounting message #%d (%d bytes) in state %s: %d unprocessed bytes pending, limit %d", n-1, ev.MsgLen, ev.From.Name, ev.Pending, ev.Limit), nil)
		}
		if n <= len(r.c.Wire) && ev.MsgLen != len(r.c.Wire[n-1]) {
			r.failLocked("C13:"+r.c.Family+":accounted-size", fmt.Sprintf("message #%d accounted with %d bytes, it has %d", n-1, ev.MsgLen, len(r.c.Wire[n-1])), nil)
		}
		r.cond.Broadcast()
		r.mu.Unlock()
	case "recv_released":
		r.mu.Lock()
		r.released++
		if ev.Pending < 0 {
			r.failLocked("C13:"+r.c.Family+":negative-pending", fmt.Sprintf("pending bytes %d after a release", ev.Pending), nil)
		}
		r.cond.Broadcast()
		r.mu.Unlock()
	}
}

func (r *c13Run) traceCopy() []string {
	r.mu.Lock()
	defer r.mu.Unlock()
	return append([]string(nil), r.trace...)
}

func (r *c13Run) failLocked(key, what string, extra map[string]any) {
	if len(r.fails) < 4 {
		r.fails = append(r.fails, c13Fail{key, what, extra})
	}
	c13Failed.Store(true)
}

func (r *c13Run) fail(key, what string, extra map[string]any) {
	r.mu.Lock()
	r.failLocked(key, what, extra)
	r.mu.Unlock()
}

// decoderWrap counts decoder invocations (the harness's own view of how far the
// engine has read ahead) around the protocol's decoder.
func (r *c13Run) decoderWrap(inner protocol.MessageFromCborFunc) protocol.MessageFromCborFunc {
	return func(t uint, data []byte) (protocol.Message, error) {
		m, err := inner(t, data)
		r.decoded.Add(1)
		return m, err
	}
}

func (r *c13Run) handler(msg protocol.Message) error {
	c := r.c
	pend := r.P.VerifPendingRecvBytes()
	d := int(r.decoded.Load())
	r.mu.Lock()
	i := len(r.handled)
	r.handled = append(r.handled, append([]byte(nil), msg.Cbor()...))
	nAcc := len(r.acc)
	limit := c.limitAt(i)
	if i < len(c.Wire) {
		// (1) harness model, no hook involved: every message the decoder has been
		// given, except the most recent one (it may still be waiting for
		// admission), is held by the endpoint; the one being processed is exempt.
		held := 0
		if d-1 > i+1 {
			hi := d - 1
			if hi > len(c.Wire) {
				hi = len(c.Wire)
			}
			held = r.prefix[hi] - r.prefix[i+1]
		}
		if held > r.maxHeldOther {
			r.maxHeldOther = held
		}
		if limit > 0 && held > limit {
			r.failLocked("C13:"+c.Family+":held-exceeds-limit", fmt.Sprintf("while message #%d is being processed the endpoint holds %d further unprocessed message bytes (messages #%d..#%d), limit %d", i, held, i+1, d-2, limit), nil)
		}
		// (2) the engine's own counter must be the sum of a contiguous run of
		// messages starting with the one being processed
		ok := false
		admitted := i + 1 // number of messages admitted so far according to the counter
		for n := i + 1; n <= len(c.Wire); n++ {
			// the statement exempts the message being processed: a counter that
			// has already released it is as good as one that still includes it
			if r.prefix[n]-r.prefix[i] == pend || r.prefix[n]-r.prefix[i+1] == pend {
				ok = true
				admitted = n
				break
			}
		}
		if !ok {
			r.failLocked("C13:"+c.Family+":pending-accounting", fmt.Sprintf("at the handler of message #%d the pending counter is %d, which is not the size of any run of messages starting at #%d or #%d (sizes %v...)", i, pend, i, i+1, clipInts(c.sizes()[i:], 6)), nil)
		}
		if limit > 0 && pend > limit && pend-len(c.Wire[i]) > limit {
			r.failLocked("C13:"+c.Family+":pending-exceeds-limit", fmt.Sprintf("at the handler of message #%d: %d pending bytes apart from the message itself, limit %d", i, pend-len(c.Wire[i]), limit), nil)
		}
		// boundary reached: the next not yet admitted message does not fit
		if ok && admitted < len(c.Wire) && limit > 0 && pend+len(c.Wire[admitted]) > limit {
			r.pressure++
		}
		_ = nAcc
	}
	r.cond.Broadcast()
	gate := c.Gate == i
	r.mu.Unlock()
	if bm, ok := msg.(*blobMsg); ok {
		// the handler owns the message: the accounting must not depend on its bytes
		for j := range bm.raw {
			bm.raw[j] = ^bm.raw[j]
		}
	}

	if gate {
		r.holdGate(i)
	}
	if i < len(c.Delays) {
		switch y := c.Delays[i]; {
		case y == 1:
			runtime.Gosched()
		case y > 1:
			time.Sleep(time.Duration(y) * time.Microsecond)
		}
	}
	return nil
}

// holdGate keeps the handler of message i blocked until the engine has admitted
// everything that fits under the limit (computed by the harness from the sizes),
// then a little longer so that an over-admission would be seen.
func (r *c13Run) holdGate(i int) {
	c := r.c
	// expected steady state: largest n with size(i..n-1) <= limit
	target := len(c.Wire)
	if lim := c.limitAt(i); lim > 0 {
		target = i + 1
		for target < len(c.Wire) && r.prefix[target+1]-r.prefix[i] <= lim {
			target++
		}
	}
	if c.ShiftAt >= 0 && i <= c.ShiftAt && target > c.ShiftAt+1 {
		target = c.ShiftAt + 1 // the peer waits for the Shift message to be handled
	}
	if c.Oversize >= 0 && target > c.Oversize {
		target = c.Oversize
	}
	// the receive queue itself also stops the engine (harness efficiency only:
	// avoids waiting for a state the queue capacity makes unreachable)
	qcap := c.RecvQueue
	if qcap == 0 {
		qcap = protocol.DefaultRecvQueueSize
	}
	if target > i+qcap+2 {
		target = i + qcap + 2
	}
	reached := waitUntil(400*time.Millisecond, func() bool {
		r.mu.Lock()
		defer r.mu.Unlock()
		return len(r.acc) >= target
	})
	r.mu.Lock()
	r.gateReached = reached
	r.gateTimeout = !reached
	r.writtenAtGate = r.written.Load()
	r.mu.Unlock()
	time.Sleep(time.Duration(c.GateHoldUs) * time.Microsecond)
}

func nonBlockingErrs(ch <-chan error) (out []error) {
	for {
		select {
		case e, ok := <-ch:
			if !ok {
				return
			}
			out = append(out, e)
		default:
			return
		}
	}
}

func clipInts(v []int, n int) []int {
	if len(v) > n {
		return v[:n]
	}
	return v
}

// ---- case ---------------------------------------------------------------------------

type c13Case struct {
	Family         string // blob-server | blob-client | chainsync | blockfetch | incomplete | large-legal
	Limit          int    // the limit the states of this family declare (0 = none)
	Wire           [][]byte
	Oversize       int   // index of the message exceeding the limit, -1 = none
	Cuts           []int // segment packaging: nil = one message per segment (split at 65535), else cycled segment sizes over the byte stream
	Delays         []int
	TransDelays    []int // per state transition (in order): delay injected into the state goroutine
	Gate           int
	GateHoldUs     int
	RecvQueue      int
	Sibling        int  // number of messages for a second, unlimited protocol on the same muxer (blob-server only)
	SiblingTwin    bool // the sibling is the OTHER role of the main protocol's id; it is stopped (unregistered) once it has handled its messages, the last third of the main stream is sent only after that
	Limit2         int  // two-state cases: limit of state Idle2, entered by the Shift message at index ShiftAt
	ShiftAt        int  // -1: single state
	IncompleteKind string
	Plan           *rawpeer.SeqPlan
	plan           string
	Procs          int
	sumSleepUs     int
}

// limitAt is the limit of the state in which message i is received.
func (c *c13Case) limitAt(i int) int {
	if c.ShiftAt >= 0 && i > c.ShiftAt {
		return c.Limit2
	}
	return c.Limit
}

func (c *c13Case) sizes() []int {
	out := make([]int, len(c.Wire))
	for i, w := range c.Wire {
		out[i] = len(w)
	}
	return out
}

func (c *c13Case) describe() map[string]any {
	m := map[string]any{
		"family": c.Family, "limit": c.Limit, "sizes": c.sizes(), "oversize_index": c.Oversize,
		"segment_cuts": c.Cuts, "handler_delays_us": c.Delays, "transition_delays_us": c.TransDelays, "gate_at": c.Gate, "recv_queue": c.RecvQueue,
		"sibling_msgs": c.Sibling, "read_plan": c.plan, "gomaxprocs": c.Procs,
	}
	if c.SiblingTwin {
		m["sibling_is_other_role_of_same_id_and_gets_stopped"] = true
	}
	if c.ShiftAt >= 0 {
		m["shift_to_second_state_at"] = c.ShiftAt
		m["limit_of_second_state"] = c.Limit2
	}
	if c.IncompleteKind != "" {
		m["incomplete_kind"] = c.IncompleteKind
	}
	return m
}

var c13Failed atomic.Bool

func c13Patience(c *c13Case) time.Duration {
	if c13Failed.Load() {
		return 15 * time.Second
	}
	return 40*time.Second + 20*time.Duration(c.sumSleepUs)*time.Microsecond
}

// sized builds a message of exactly total bytes with build(payloadLen).
func sized(total int, build func(p int) []byte) []byte {
	p := total - 16
	if p < 0 {
		p = 0
	}
	var out []byte
	for iter := 0; iter < 8; iter++ {
		out = build(p)
		if len(out) == total {
			return out
		}
		np := p + total - len(out)
		if np < 0 {
			np = 0
		}
		if np == p {
			break
		}
		p = np
	}
	// unreachable total (just above a head-width change): stay below it
	for len(out) > total && p > 0 {
		p--
		out = build(p)
	}
	return out
}

func rollForward(total int, seed uint64) []byte {
	return sized(total, func(p int) []byte {
		return xcbor.A(xcbor.U(2),
			xcbor.A(xcbor.U(1), xcbor.Tg(24, xcbor.B(fill(seed, p)))),
			xcbor.A(xcbor.A(xcbor.U(seed%100000), xcbor.B(fill(seed+1, 32))), xcbor.U(seed%5000)),
		).Encode()
	})
}

func blockMsg(total int, seed uint64) []byte {
	return sized(total, func(p int) []byte {
		return xcbor.A(xcbor.U(4), xcbor.Tg(24, xcbor.B(fill(seed, p)))).Encode()
	})
}

// genSizesUnderLimit draws n message sizes in [min, limit], biased to the limit
// boundary, to tiny messages and to sums that land exactly on the limit.
func genSizesUnderLimit(rt *rapid.T, n, min, limit, typical int) []int {
	out := make([]int, n)
	for i := range out {
		var s int
		switch rapid.IntRange(0, 9).Draw(rt, "szKind") {
		case 0:
			s = limit
		case 1:
			s = limit - rapid.IntRange(0, 3).Draw(rt, "szD")
		case 2:
			s = limit / 2
		case 3:
			s = limit/2 + 1
		case 4:
			s = min + rapid.IntRange(0, 4).Draw(rt, "szD")
		case 5:
			s = rapid.IntRange(min, limit).Draw(rt, "sz")
		default:
			hi := typical
			if hi > limit {
				hi = limit
			}
			if hi < min {
				hi = min
			}
			s = rapid.IntRange(min, hi).Draw(rt, "sz")
		}
		if s < min {
			s = min
		}
		if s > limit {
			s = limit
		}
		out[i] = s
	}
	return out
}

// c13Limits: limits of the harness state map, including the smallest possible ones
// (2 = the smallest message), values next to internal buffer sizes and the segment size.
var c13Limits = []int{2, 3, 8, 64, 300, 512, 1000, 4096, 4096, 4096, 12288, 20000, 65535, 65536, 70000}

func genC13Case(rt *rapid.T, thorough bool) *c13Case {
	c := &c13Case{Oversize: -1, Gate: -1, ShiftAt: -1}
	c.Family = rapid.SampledFrom([]string{
		"blob-server", "blob-server", "blob-server", "blob-client", "blob-client",
		"chainsync", "chainsync", "blockfetch", "blockfetch", "blockfetch", "incomplete", "large-legal",
	}).Draw(rt, "family")
	if f := os.Getenv("C13_FAMILY"); f != "" {
		c.Family = f // experiments only
	}
	// the two 16 MiB families cost seconds each (the engine re-parses its buffer per
	// segment): the quick tier runs one fixed instance of each plus a few drawn ones
	if c.Family == "incomplete" || c.Family == "large-legal" {
		keepOneIn := 5
		if thorough {
			keepOneIn = 3
		}
		if rapid.IntRange(0, keepOneIn-1).Draw(rt, "skipHeavy") > 0 {
			c.Family = "blob-server"
		}
	}
	c.Plan, c.plan = genPlan(rt, "lib")
	oversize := rapid.IntRange(0, 9).Draw(rt, "oversize") < 3
	var n int
	var sizes []int
	switch c.Family {
	case "blob-server", "blob-client":
		c.Limit = rapid.SampledFrom(c13Limits).Draw(rt, "limit")
		vol := volumeFor(600_000, c.Plan.Chunks)
		typical := rapid.SampledFrom([]int{8, 40, 400, 4096}).Draw(rt, "typical")
		n = rapid.IntRange(3, 150).Draw(rt, "n")
		sizes = genSizesUnderLimit(rt, n, 2, c.Limit, typical)
		// trim to the volume
		sum := 0
		for i, s := range sizes {
			sum += s
			if sum > vol && i >= 3 {
				sizes = sizes[:i]
				break
			}
		}
		if c.Family == "blob-server" {
			switch rapid.IntRange(0, 5).Draw(rt, "variant") {
			case 0:
				c.Sibling = rapid.IntRange(1, 10).Draw(rt, "nSibling")
			case 1:
				c.Sibling = rapid.IntRange(1, 10).Draw(rt, "nSibling")
				c.SiblingTwin = true
			case 2, 3:
				// second round in a second state with another limit
				for c.Limit2 == 0 || c.Limit2 == c.Limit {
					c.Limit2 = rapid.SampledFrom(c13Limits).Draw(rt, "limit2")
				}
				if len(sizes) > 40 {
					sizes = sizes[:40]
				}
				c.ShiftAt = len(sizes)
				sizes = append(sizes, 2) // the Shift message
				n2 := rapid.IntRange(1, 40).Draw(rt, "n2")
				s2 := genSizesUnderLimit(rt, n2, 2, c.Limit2, typical)
				if c.Limit2 > c.Limit {
					// legal in the second state only
					for j := 0; j < len(s2) && j < 3; j++ {
						s2[rapid.IntRange(0, len(s2)-1).Draw(rt, "bigAt")] = rapid.IntRange(c.Limit+1, c.Limit2).Draw(rt, "bigSz")
					}
				}
				sum2 := 0
				for j, v := range s2 {
					sum2 += v
					if sum2 > vol && j >= 1 {
						s2 = s2[:j]
						break
					}
				}
				sizes = append(sizes, s2...)
			}
		}
	case "chainsync":
		c.Limit = chainsync.MaxPendingMessageBytes
		n = rapid.IntRange(3, 60).Draw(rt, "n")
		typical := rapid.SampledFrom([]int{900, 20000, 60000, 150000}).Draw(rt, "typical")
		sizes = genSizesUnderLimit(rt, n, 60, c.Limit, typical)
		vol, sum := 4_000_000, 0
		for i, s := range sizes {
			sum += s
			if sum > vol && i >= 3 {
				sizes = sizes[:i]
				break
			}
		}
	case "blockfetch":
		c.Limit = blockfetch.StreamingMaxPendingMessageBytes
		n = rapid.IntRange(2, 40).Draw(rt, "n")
		typical := rapid.SampledFrom([]int{2000, 90000, 400000, 900000}).Draw(rt, "typical")
		sizes = genSizesUnderLimit(rt, n, 12, c.Limit, typical)
		if rapid.Bool().Draw(rt, "firstBlockBig") {
			sizes[0] = rapid.SampledFrom([]int{65536, 70000, 90000, 200000, 1000000}).Draw(rt, "firstBlock")
		}
		vol, sum := 9_000_000, 0
		for i, s := range sizes {
			sum += s
			if sum > vol && i >= 2 {
				sizes = sizes[:i]
				break
			}
		}
	case "incomplete":
		c.Limit = rapid.SampledFrom([]int{0, 4096, 462000}).Draw(rt, "limit")
		c.IncompleteKind = rapid.SampledFrom([]string{"definite-bytes", "indefinite-array", "indefinite-bytes", "nested-arrays"}).Draw(rt, "incompleteKind")
		oversize = false
		n = rapid.IntRange(0, 3).Draw(rt, "nBefore")
		hi := 2000
		if c.Limit > 0 && hi > c.Limit {
			hi = c.Limit
		}
		for i := 0; i < n; i++ {
			sizes = append(sizes, rapid.IntRange(2, hi).Draw(rt, "sz"))
		}
	case "large-legal":
		c.Limit = 0
		oversize = false
		sizes = []int{rapid.IntRange(2, 500).Draw(rt, "sz"),
			rapid.SampledFrom([]int{8 << 20, 12 << 20, maxReadBuffer - 70000, maxReadBuffer - 1, maxReadBuffer}).Draw(rt, "bigSize"),
			rapid.IntRange(2, 500).Draw(rt, "sz")}
	}
	if oversize && len(sizes) > 0 {
		c.Oversize = rapid.IntRange(0, len(sizes)-1).Draw(rt, "oversizeAt")
		if c.Oversize == c.ShiftAt {
			c.Oversize++ // the Shift message itself stays legal
			if c.Oversize >= len(sizes) {
				c.Oversize = len(sizes) - 1
				if c.Oversize == c.ShiftAt {
					c.Oversize = 0
				}
			}
		}
		lim := c.limitAt(c.Oversize)
		over := rapid.SampledFrom([]int{1, 1, 2, 100, lim}).Draw(rt, "overBy")
		sizes[c.Oversize] = lim + over
		if c.ShiftAt >= 0 && c.Oversize < c.ShiftAt {
			c.ShiftAt = -1 // the conversation ends before the second state
			c.Limit2 = 0
		}
		sizes = sizes[:min(len(sizes), c.Oversize+1+rapid.IntRange(0, 3).Draw(rt, "afterOversize"))]
	}
	// build the wire messages
	for i, s := range sizes {
		seed := rapid.Uint64().Draw(rt, "seed")
		switch c.Family {
		case "blob-server", "incomplete", "large-legal":
			if i == c.ShiftAt {
				c.Wire = append(c.Wire, []byte{0x81, blobShift})
				continue
			}
			c.Wire = append(c.Wire, buildBlobOfSize(blobC2S, s, seed, genBlobStyle(rt)))
		case "blob-client":
			c.Wire = append(c.Wire, buildBlobOfSize(blobS2C, s, seed, genBlobStyle(rt)))
		case "chainsync":
			c.Wire = append(c.Wire, rollForward(s, seed))
		case "blockfetch":
			_ = i
			c.Wire = append(c.Wire, blockMsg(s, seed))
		}
	}
	// the builders hit the requested size exactly except next to CBOR head-width
	// changes; make sure the classification by construction still holds
	for i, w := range c.Wire {
		if c.limitAt(i) > 0 && i != c.Oversize && len(w) > c.limitAt(i) {
			// e.g. a blob cannot be shorter than 3 bytes: with a limit of 2 the drawn
			// size cannot be built - not a case, draw another one
			rt.Skip(fmt.Sprintf("harness: message %d needs %d bytes, limit %d", i, len(w), c.limitAt(i)))
		}
		if i == c.Oversize && len(w) <= c.limitAt(i) {
			rt.Skip(fmt.Sprintf("harness: oversize message %d built with %d bytes for limit %d", i, len(w), c.limitAt(i)))
		}
	}
	if c.Family == "blockfetch" {
		c.Wire = append([][]byte{{0x81, 0x02}}, c.Wire...) // StartBatch
		if c.Oversize >= 0 {
			c.Oversize++
		} else {
			c.Wire = append(c.Wire, []byte{0x81, 0x05}) // BatchDone
		}
	}
	// packaging into segments
	switch rapid.IntRange(0, 3).Draw(rt, "packaging") {
	case 0: // one message per segment
	case 1:
		c.Cuts = []int{65535}
	default:
		k := rapid.IntRange(1, 4).Draw(rt, "nCuts")
		for i := 0; i < k; i++ {
			c.Cuts = append(c.Cuts, rapid.SampledFrom([]int{1, 2, 5, 100, 1000, 4096, 30000, 65535}).Draw(rt, "cut"))
		}
	}
	// The engine re-parses its whole reassembly buffer for every arriving segment, so
	// a message of s bytes cut into pieces of c bytes costs about s*s/(2c) byte copies.
	// Keep that below ~150 MB per case (harness budget, not an oracle).
	if c.Cuts != nil {
		cost := 0.0
		for _, w := range c.Wire {
			cost += float64(len(w)) * float64(len(w)) / 2
		}
		for cost/float64(avgChunk(c.Cuts)) > 150e6 && avgChunk(c.Cuts) < 65535 {
			c.Cuts = append(c.Cuts, 65535, 65535)
			if len(c.Cuts) > 40 {
				c.Cuts = []int{65535}
			}
		}
	}
	// handler behaviour
	nm := len(c.Wire)
	slow := rapid.SampledFrom([]int{0, 1, 2, 3}).Draw(rt, "handlerKind")
	budgetUs := 30000
	for i := 0; i < nm; i++ {
		d := 0
		switch slow {
		case 1:
			d = rapid.SampledFrom([]int{0, 0, 1, 1, 50}).Draw(rt, "delay")
		case 2:
			d = rapid.SampledFrom([]int{0, 1, 100, 500, 2000}).Draw(rt, "delay")
		case 3:
			if i < 3 {
				d = rapid.SampledFrom([]int{1000, 3000}).Draw(rt, "delay")
			}
		}
		if d > 1 {
			if budgetUs < d {
				d = 1
			} else {
				budgetUs -= d
				c.sumSleepUs += d
			}
		}
		c.Delays = append(c.Delays, d)
	}
	if rapid.IntRange(0, 2).Draw(rt, "delayTransitions") > 0 {
		nt := rapid.IntRange(2, 6).Draw(rt, "nTransDelays")
		for i := 0; i < nt; i++ {
			d := rapid.SampledFrom([]int{0, 1, 300, 2000, 2000}).Draw(rt, "transDelay")
			if d > 1 {
				c.sumSleepUs += d
			}
			c.TransDelays = append(c.TransDelays, d)
		}
	}
	if c.Family == "blockfetch" && rapid.IntRange(0, 3).Draw(rt, "delayStartBatch") > 0 {
		// The known delicate point of this state map (see the comment on
		// BusyMaxPendingMessageBytes): blocks are read while the state is still Busy
		// because the StartBatch transition (the 2nd one, after the RequestRange send)
		// has not been published yet. Hold exactly that transition back.
		for len(c.TransDelays) < 2 {
			c.TransDelays = append(c.TransDelays, 0)
		}
		if c.TransDelays[1] <= 1 {
			c.TransDelays[1] = rapid.SampledFrom([]int{300, 2000, 5000}).Draw(rt, "startBatchDelay")
			c.sumSleepUs += c.TransDelays[1]
		}
	}
	if nm > 0 && rapid.IntRange(0, 9).Draw(rt, "gated") < 6 {
		c.Gate = rapid.IntRange(0, min(nm-1, 5)).Draw(rt, "gateAt")
		c.GateHoldUs = rapid.SampledFrom([]int{200, 1000, 3000}).Draw(rt, "gateHold")
		c.sumSleepUs += 400_000 + c.GateHoldUs
	}
	c.RecvQueue = rapid.SampledFrom([]int{0, 0, 1, 5, 100, 384}).Draw(rt, "recvQueue")
	// keep the number of Read calls the fragmentation implies around <= 40k
	vol := 0
	for _, w := range c.Wire {
		vol += len(w)
	}
	if c.Family == "incomplete" {
		vol += maxReadBuffer + 2<<20
	}
	for len(c.Plan.Chunks) > 0 && len(c.Plan.Chunks) < 64 && vol/avgChunk(c.Plan.Chunks) > 40000 {
		c.Plan.Chunks = append(c.Plan.Chunks, 0) // 0 = unlimited read
	}
	c.plan = fmt.Sprintf("chunks=%v yields=%v", c.Plan.Chunks, c.Plan.Yields)
	return c
}

// ---- run ------------------------------------------------------------------------------

type c13Outcome struct {
	fails     []c13Fail
	run       *c13Run
	errored   bool
	completed bool
}

func runC13Case(c *c13Case) c13Outcome {
	patience := c13Patience(c)
	r := &c13Run{c: c}
	r.cond = sync.NewCond(&r.mu)
	r.prefix = make([]int, len(c.Wire)+1)
	for i, w := range c.Wire {
		r.prefix[i+1] = r.prefix[i] + len(w)
	}
	stopWriter := make(chan struct{})
	a, b := rawpeer.Pipe(c.Plan, nil)
	tap := &tapConn{Conn: a}
	m := muxer.New(tap)
	errCh := make(chan error, 10)
	cfg := protocol.ProtocolConfig{
		ErrorChan: errCh, Muxer: m, Mode: protocol.ProtocolModeNodeToNode,
		MessageHandlerFunc: r.handler, RecvQueueSize: c.RecvQueue,
	}
	var prelude []protocol.Message
	peerIsResponder := false
	blobDecoder := func(t uint, data []byte) (protocol.Message, error) {
		if t > 255 {
			return nil, fmt.Errorf("blob: bad type %d", t)
		}
		msg := &blobMsg{typ: uint8(t)}
		msg.SetCbor(data)
		return msg, nil
	}
	switch c.Family {
	case "blob-server", "incomplete", "large-legal":
		r.sm = blobStateMap(c.Limit, c.Limit)
		if c.ShiftAt >= 0 {
			r.sm = blobStateMap2(c.Limit, c.Limit2)
		}
		cfg.Name, cfg.ProtocolId, cfg.Role, cfg.InitialState = "blob-7", 7, protocol.ProtocolRoleServer, blobIdle
		cfg.MessageFromCborFunc = r.decoderWrap(blobDecoder)
	case "blob-client":
		r.sm = blobStateMap(c.Limit, c.Limit)
		cfg.Name, cfg.ProtocolId, cfg.Role, cfg.InitialState = "blob-7", 7, protocol.ProtocolRoleClient, blobIdle
		cfg.MessageFromCborFunc = r.decoderWrap(blobDecoder)
		prelude = []protocol.Message{newBlobMsg(blobTurnC, []byte{0x81, blobTurnC}, false)}
		peerIsResponder = true
	case "chainsync":
		r.sm = stripTimeouts(chainsync.StateMapNtN)
		cfg.Name, cfg.ProtocolId, cfg.Role = "chain-sync", chainsync.ProtocolIdNtN, protocol.ProtocolRoleClient
		cfg.InitialState = stateByName(r.sm, "Idle")
		cfg.MessageFromCborFunc = r.decoderWrap(chainsync.NewMsgFromCborNtN)
		for range c.Wire {
			prelude = append(prelude, chainsync.NewMsgRequestNext())
		}
		peerIsResponder = true
	case "blockfetch":
		r.sm = stripTimeouts(blockfetch.StateMap)
		cfg.Name, cfg.ProtocolId, cfg.Role = "block-fetch", blockfetch.ProtocolId, protocol.ProtocolRoleClient
		cfg.InitialState = blockfetch.StateIdle
		cfg.MessageFromCborFunc = r.decoderWrap(blockfetch.NewMsgFromCbor)
		prelude = []protocol.Message{blockfetch.NewMsgRequestRange(
			pcommon.NewPoint(10, fill(1, 32)), pcommon.NewPoint(99, fill(2, 32)))}
		peerIsResponder = true
	}
	cfg.StateMap = r.sm
	r.P = protocol.New(cfg)
	c13Current.Store(r)
	defer c13Current.Store(nil)

	// optional sibling protocol without a limit on the same muxer
	var sib *blobProto
	sibID, sibRole, sibTyp := uint16(9), protocol.ProtocolRoleServer, blobC2S
	if c.SiblingTwin {
		// the other role of the main protocol's id: a client instance next to the server instance
		sibID, sibRole, sibTyp = cfg.ProtocolId, protocol.ProtocolRoleClient, blobS2C
	}
	if c.Sibling > 0 {
		sib = &blobProto{id: sibID, role: sibRole}
		sib.cond = sync.NewCond(&sib.mu)
		sib.P = protocol.New(protocol.ProtocolConfig{
			Name: fmt.Sprintf("blob-%d-sibling", sibID), ProtocolId: sibID, ErrorChan: errCh, Muxer: m, Mode: protocol.ProtocolModeNodeToNode,
			Role: sibRole, MessageHandlerFunc: sib.handle, MessageFromCborFunc: sib.fromCbor,
			StateMap: blobStateMap(0, 0), InitialState: blobIdle,
		})
	}
	r.P.Start()
	if sib != nil {
		sib.P.Start()
		if c.SiblingTwin {
			// give the (raw) server side of the sibling conversation agency
			_ = sib.P.SendMessage(newBlobMsg(blobTurnC, []byte{0x81, blobTurnC}, false))
		}
	}
	if c.SiblingTwin {
		m.SetDiffusionMode(muxer.DiffusionModeInitiatorAndResponder)
	} else if cfg.Role == protocol.ProtocolRoleClient {
		m.SetDiffusionMode(muxer.DiffusionModeInitiator)
	} else {
		m.SetDiffusionMode(muxer.DiffusionModeResponder)
	}
	m.Start()
	peer := rawpeer.NewPeer(b) // its reader swallows whatever the library sends

	// the library side of the conversation (requests that give the peer agency)
	preludeErr := make(chan error, 1)
	go func() {
		for _, msg := range prelude {
			if err := r.P.SendMessage(msg); err != nil {
				preludeErr <- err
				return
			}
		}
		preludeErr <- nil
	}()

	// ---- the peer's byte stream and its packaging into segments ----
	var stream []byte
	for _, w := range c.Wire {
		stream = append(stream, w...)
	}
	tail := 0
	if c.Family == "incomplete" {
		var head []byte
		switch c.IncompleteKind {
		case "definite-bytes": // [0, h'...' of 24 MiB] never completed
			head = []byte{0x82, 0x00, 0x5a, 0x01, 0x80, 0x00, 0x00}
		case "indefinite-array": // [_ 0, h'8KiB', h'8KiB', ...
			head = []byte{0x9f, 0x00}
		case "indefinite-bytes": // [0, (_ h'8KiB', h'8KiB', ...
			head = []byte{0x82, 0x00, 0x5f}
		case "nested-arrays": // [0, [_ h'8KiB', ...
			head = []byte{0x82, 0x00, 0x9f}
		}
		stream = append(stream, head...)
		tail = maxReadBuffer + 2*1024*1024
		if c.IncompleteKind == "definite-bytes" {
			stream = append(stream, fill(7, tail)...)
		} else {
			chunk := append([]byte{0x59, 0x20, 0x00}, fill(9, 8192)...)
			for n := 0; n < tail; n += len(chunk) {
				stream = append(stream, chunk...)
			}
		}
	}
	var segs []rawpeer.Seg
	holds := map[int]func() bool{} // segment index -> condition the peer waits for before sending it
	pauseAfterByte := -1           // two-state: stream offset at which round 2 starts
	if c.ShiftAt >= 0 {
		pauseAfterByte = r.prefix[c.ShiftAt+1]
	}
	if c.Cuts == nil && c.Family != "incomplete" {
		for i, w := range c.Wire {
			if c.ShiftAt >= 0 && i == c.ShiftAt+1 {
				holds[len(segs)] = func() bool { r.mu.Lock(); defer r.mu.Unlock(); return len(r.handled) > c.ShiftAt }
			}
			segs = append(segs, rawpeer.SplitPayload(cfg.ProtocolId, peerIsResponder, w, 0)...)
		}
	} else {
		cuts := c.Cuts
		if cuts == nil {
			cuts = []int{65535}
		}
		pos, ci := 0, 0
		for pos < len(stream) {
			n := cuts[ci%len(cuts)]
			ci++
			if pos >= r.prefix[len(c.Wire)] && tail > 0 {
				n = 65535 // the endless part is sent in full segments
			}
			if n > len(stream)-pos {
				n = len(stream) - pos
			}
			if pauseAfterByte > pos && pos+n > pauseAfterByte {
				n = pauseAfterByte - pos // no byte of the second round before the Shift message was handled
			}
			if pos == pauseAfterByte && pos < len(stream) {
				holds[len(segs)] = func() bool { r.mu.Lock(); defer r.mu.Unlock(); return len(r.handled) > c.ShiftAt }
			}
			segs = append(segs, rawpeer.Seg{ProtoID: cfg.ProtocolId, Response: peerIsResponder, Payload: stream[pos : pos+n]})
			pos += n
		}
	}
	// sibling messages are spread evenly between the main segments
	var sibWire [][]byte
	sibStopped := make(chan struct{})
	if sib != nil {
		span := len(segs)
		if c.SiblingTwin {
			span = len(segs) / 2 // all sibling traffic in the first half of the main stream
		}
		step := span/(c.Sibling+1) + 1
		var mixed []rawpeer.Seg
		k := 0
		sibSeg := func() rawpeer.Seg {
			w := buildBlobOfSize(sibTyp, 20+k, uint64(k), blobStyle{})
			sibWire = append(sibWire, w)
			k++
			return rawpeer.Seg{ProtoID: sibID, Response: c.SiblingTwin, Payload: w}
		}
		holdFrom := len(segs) * 2 / 3
		for i, s := range segs {
			if c.SiblingTwin && i == holdFrom {
				for k < c.Sibling {
					mixed = append(mixed, sibSeg())
				}
				// the rest of the main stream flows only after the sibling was unregistered
				holds[len(mixed)] = func() bool {
					select {
					case <-sibStopped:
						return true
					default:
						return false
					}
				}
			}
			mixed = append(mixed, s)
			if (i+1)%step == 0 && k < c.Sibling {
				mixed = append(mixed, sibSeg())
			}
		}
		for k < c.Sibling {
			mixed = append(mixed, sibSeg())
		}
		segs = mixed
	}
	if sib != nil && c.SiblingTwin {
		go func() {
			defer close(sibStopped)
			libProgress := func() int64 { return tap.nRead.Load() + r.decoded.Load() + int64(sib.handledCount()) }
			if sib.waitHandled(c.Sibling, patience, stopWriter, libProgress) {
				sib.P.Stop() // Protocol.Stop -> Muxer.UnregisterProtocol(id, initiator role)
			}
		}()
	}
	// Causality: a peer can answer only what it has been asked. For the families in
	// which the library speaks first (prelude) the peer's stream is therefore cut into
	// segments on the fly: at any time it may only send the bytes of replies whose
	// request it has already received (chain-sync: reply i needs request i; the
	// single-request families: everything once the request has arrived).
	requestsSeen := func() int {
		buf := peer.Stream(cfg.ProtocolId, false)
		n := 0
		for len(buf) > 0 {
			_, used, err := xcbor.Parse(buf)
			if err != nil {
				break
			}
			n++
			buf = buf[used:]
		}
		return n
	}
	allowedEnd := func(seen int) int {
		switch {
		case len(prelude) == 0:
			return len(stream)
		case c.Family == "chainsync":
			return r.prefix[min(seen, len(c.Wire))]
		case seen >= len(prelude):
			return len(stream)
		}
		return 0
	}
	writerDone := make(chan error, 1)
	dynamic := len(prelude) > 0
	go func() {
		if dynamic {
			pos, ci, mi, seen := 0, 0, 0, 0
			for pos < len(stream) {
				limitEnd := allowedEnd(seen)
				for limitEnd <= pos {
					seen = requestsSeen()
					if limitEnd = allowedEnd(seen); limitEnd > pos {
						break
					}
					select {
					case <-stopWriter:
						writerDone <- nil
						return
					case <-time.After(50 * time.Microsecond):
					}
				}
				for mi < len(c.Wire) && r.prefix[mi+1] <= pos {
					mi++
				}
				n := 65535
				if c.Cuts != nil {
					n = c.Cuts[ci%len(c.Cuts)]
					ci++
				} else if mi < len(c.Wire) && r.prefix[mi+1]-pos < n {
					n = r.prefix[mi+1] - pos // one message per segment
				}
				if n > limitEnd-pos {
					n = limitEnd - pos
				}
				f := rawpeer.Frame(rawpeer.Seg{ProtoID: cfg.ProtocolId, Response: peerIsResponder, Payload: stream[pos : pos+n]})
				if _, err := b.Write(f); err != nil {
					writerDone <- err
					return
				}
				pos += n
				r.written.Add(int64(len(f)))
			}
			writerDone <- nil
			return
		}
		for i, s := range segs {
			for h := holds[i]; h != nil && !h(); {
				select {
				case <-stopWriter:
					writerDone <- nil
					return
				case <-time.After(50 * time.Microsecond):
				}
			}
			select {
			case <-stopWriter:
				writerDone <- nil
				return
			default:
			}
			f := rawpeer.Frame(s)
			if _, err := b.Write(f); err != nil {
				writerDone <- err
				return
			}
			r.written.Add(int64(len(f)))
		}
		writerDone <- nil
	}()

	// ---- verdict ----
	var firstErr error
	gotErr := func() bool {
		if firstErr != nil {
			return true
		}
		select {
		case e := <-errCh:
			firstErr = e
			return true
		default:
			return false
		}
	}
	out := c13Outcome{run: r}
	expectError := c.Oversize >= 0 || c.Family == "incomplete"
	nHandledWanted := len(c.Wire)
	if c.Oversize >= 0 {
		nHandledWanted = c.Oversize // at most
	}
	handledCount := func() int { r.mu.Lock(); defer r.mu.Unlock(); return len(r.handled) }
	progress := func() int64 {
		r.mu.Lock()
		n := int64(len(r.handled) + len(r.acc) + r.released)
		r.mu.Unlock()
		return n + tap.nRead.Load() + tap.nWritten.Load() + r.written.Load() + r.decoded.Load()
	}
	if !expectError {
		ok := waitCond(patience, nil, progress, func() bool { return gotErr() || handledCount() >= nHandledWanted })
		switch {
		case gotErr():
			out.errored = true
			r.fail("C13:"+c.Family+":spurious-error", fmt.Sprintf("every message is within the limit (%d) but the protocol failed after %d of %d messages: %v", c.Limit, handledCount(), len(c.Wire), firstErr), nil)
		case !ok:
			r.fail("C13:"+c.Family+":stalled", fmt.Sprintf("only %d of %d messages were handled and nothing moved for %v (sender slowed down for ever)", handledCount(), len(c.Wire), patience),
				map[string]any{"goroutines": goroutineDump(), "pending_now": r.P.VerifPendingRecvBytes(), "muxer_errors": fmt.Sprint(nonBlockingErrs(m.ErrorChan())),
					"transitions": r.traceCopy(), "requests_seen_by_peer": requestsSeen(), "decoder_calls": r.decoded.Load(), "bytes_written_by_peer": r.written.Load(), "bytes_read_by_library": tap.nRead.Load()})
		default:
			out.completed = true
		}
		if sib != nil && out.completed {
			if !sib.waitHandled(c.Sibling, patience, nil, progress) {
				r.fail("C13:"+c.Family+":sibling-stalled", fmt.Sprintf("the unlimited sibling protocol handled %d of %d messages", sib.handledCount(), c.Sibling), map[string]any{"goroutines": goroutineDump()})
			} else {
				_, h := sib.snapshot()
				for i := range h {
					if !bytes.Equal(h[i], sibWire[i]) {
						r.fail("C13:"+c.Family+":sibling-bytes", fmt.Sprintf("sibling message #%d differs", i), nil)
						break
					}
				}
			}
		}
	} else {
		ok := waitCond(patience, nil, progress, gotErr)
		if !ok {
			var what string
			if c.Family != "incomplete" {
				what = fmt.Sprintf("message #%d has %d bytes, the limit is %d, but no error was reported (no progress for %v, handled %d)", c.Oversize, len(c.Wire[c.Oversize]), c.limitAt(c.Oversize), patience, handledCount())
			} else {
				what = fmt.Sprintf("an incomplete message (%s) grew to %d bytes written by the peer (%d consumed by the library) without an error (then no progress for %v)", c.IncompleteKind, r.written.Load(), tap.nRead.Load(), patience)
			}
			r.fail("C13:"+c.Family+":no-error", what, map[string]any{"goroutines": goroutineDump()})
		} else {
			out.errored = true
			select {
			case <-r.P.DoneChan():
			case <-time.After(patience):
				r.fail("C13:"+c.Family+":not-ended", fmt.Sprintf("error %q was reported but the protocol did not end", firstErr), map[string]any{"goroutines": goroutineDump()})
			}
			if c.Family == "incomplete" {
				// premature: the buffer bound is 16 MiB; what the library consumed from the
				// connection is an upper bound for what its buffer can have held
				if n := tap.nRead.Load(); n < maxReadBuffer {
					r.fail("C13:incomplete:premature-error", fmt.Sprintf("error %q after only %d bytes were consumed from the connection (bound is %d)", firstErr, n, maxReadBuffer), nil)
				}
			}
		}
		if c.Oversize >= 0 {
			if h := handledCount(); h > c.Oversize {
				r.fail("C13:"+c.Family+":oversize-handled", fmt.Sprintf("message #%d exceeds the limit but %d messages reached the handler", c.Oversize, h), nil)
			}
			r.mu.Lock()
			if len(r.acc) > c.Oversize {
				r.failLocked("C13:"+c.Family+":oversize-admitted", fmt.Sprintf("message #%d (%d bytes, limit %d) was admitted to the receive queue", c.Oversize, len(c.Wire[c.Oversize]), c.limitAt(c.Oversize)), nil)
			}
			r.mu.Unlock()
		}
	}
	// handled bytes must be the sent messages, in order
	r.mu.Lock()
	for i, h := range r.handled {
		if i >= len(c.Wire) {
			r.failLocked("C13:"+c.Family+":surplus-message", "handler saw more messages than were sent", nil)
			break
		}
		if !bytes.Equal(h, c.Wire[i]) {
			r.failLocked("C13:"+c.Family+":message-bytes", fmt.Sprintf("message #%d reached the handler with %d bytes (fnv %x), sent %d bytes (fnv %x)", i, len(h), fnv64(h), len(c.Wire[i]), fnv64(c.Wire[i])), nil)
			break
		}
	}
	if out.completed && r.released < len(c.Wire)-1 {
		// the last release may still be in flight; everything before it must have happened
		r.failLocked("C13:"+c.Family+":release-missing", fmt.Sprintf("%d messages handled but only %d releases traced", len(r.handled), r.released), nil)
	}
	r.mu.Unlock()
	if out.completed {
		// after everything was processed nothing may remain pending
		if !waitCond(patience, nil, progress, func() bool { return r.P.VerifPendingRecvBytes() == 0 }) {
			r.fail("C13:"+c.Family+":pending-leak", fmt.Sprintf("all %d messages processed but %d bytes still counted as pending", len(c.Wire), r.P.VerifPendingRecvBytes()), nil)
		}
		if gotErr() {
			r.fail("C13:"+c.Family+":spurious-error", fmt.Sprintf("error after all messages were handled: %v", firstErr), nil)
		}
	}

	// shutdown, in the order Connection.shutdown uses: the muxer first.
	// (Protocol.Stop() blocks in Muxer.UnregisterProtocol for as long as the muxer's
	// read loop is parked on this protocol's full receive channel, see findings/C13.md.)
	close(stopWriter)
	m.Stop()
	r.P.Stop()
	if sib != nil {
		sib.P.Stop()
	}
	peer.Close()
	_ = a.Close()
	select {
	case <-writerDone:
	case <-time.After(10 * time.Second):
	}
	select {
	case <-preludeErr:
	case <-time.After(10 * time.Second):
	}
	select {
	case <-r.P.DoneChan():
	case <-time.After(10 * time.Second):
	}
	drainErrs(m.ErrorChan(), 10*time.Second)
	r.mu.Lock()
	out.fails = append(out.fails, r.fails...)
	r.mu.Unlock()
	return out
}

func TestC13(t *testing.T) {
	rec := evi.New(t, "C13", evi.Exploration,
		"each case: a real protocol.Protocol on a real muxer over rawpeer.Pipe (generated read chunking, GOMAXPROCS, receive-queue size 1..384) and a raw peer that writes a generated stream of valid messages as fast as the connection accepts them, packed into segments one-per-message / full segments / generated cuts; families: harness blob state map with limit in {64..70000} in server and client role (optionally with an unlimited sibling protocol on the same muxer), chain-sync NtN client (pipelined RequestNext, RollForward replies up to the 462000 limit), block-fetch client (StartBatch, blocks up to the 2500000 limit, BatchDone), never-completing messages (4 CBOR shapes) and large legal messages (8 MiB..16 MiB); message sizes biased to limit, limit-1.., limit/2, minimum; the handler sleeps generated durations and in 60% of the cases is held at a generated message until the engine has admitted everything that fits; 30% of the limited cases contain one message of limit+{1,2,100,limit} bytes. Non-trivial: the boundary was reached (at some handler entry the next unadmitted message did not fit under the limit), or an oversized / never-completing message was sent. Distinct by (family, limit, sizes, packaging, delays, gate, queue size, read plan).")
	defer rec.Finish()
	rec.Assume(
		"the verif tracer events and VerifPendingRecvBytes report the engine's real counter (hook code reviewed); the harness additionally keeps its own model from decoder/handler invocation counts",
		"state timeouts of the real chain-sync / block-fetch maps are set to 0 for these runs (C14 covers them); limits are taken from the exported state maps",
		"'unprocessed received message bytes' = complete messages admitted to the receive queue; segments still inside the muxer (10-slot channel) and the bytes of the message being assembled are not counted by the statement",
		"bounded liveness: a stall is reported after 40 s + 20x the injected handler sleep, with a goroutine dump",
	)
	protocol.SetVerifTracer(c13Tracer)
	defer protocol.SetVerifTracer(nil)

	// fixed instances of the 16 MiB clauses, so that every run exercises them
	for _, fc := range []*c13Case{
		{Family: "incomplete", Limit: 4096, IncompleteKind: "definite-bytes", Oversize: -1, Gate: -1, ShiftAt: -1, Plan: &rawpeer.SeqPlan{}, plan: "unfragmented",
			Wire: [][]byte{buildBlobOfSize(blobC2S, 100, 1, blobStyle{})}, Delays: []int{0}},
		{Family: "large-legal", Limit: 0, Oversize: -1, Gate: -1, ShiftAt: -1, Plan: &rawpeer.SeqPlan{}, plan: "unfragmented", Cuts: []int{65535},
			Wire: [][]byte{buildBlobOfSize(blobC2S, 10, 1, blobStyle{}), buildBlobOfSize(blobC2S, maxReadBuffer, 2, blobStyle{}), buildBlobOfSize(blobC2S, 7, 3, blobStyle{})}, Delays: []int{0, 0, 0}},
		// sums and single messages exactly on the limit, held at the first message
		{Family: "blob-server", Limit: 4096, Oversize: -1, Gate: 0, GateHoldUs: 1000, ShiftAt: -1, Plan: &rawpeer.SeqPlan{}, plan: "unfragmented",
			Wire: func() (w [][]byte) {
				for i, sz := range []int{4096, 2048, 2048, 2, 4094, 4096, 1024, 1024, 1024, 1024, 4095, 3} {
					w = append(w, buildBlobOfSize(blobC2S, sz, uint64(i), blobStyle{}))
				}
				return
			}(), Delays: make([]int, 12)},
		// second state with a larger limit: 300..5000-byte messages are legal only after the Shift
		{Family: "blob-server", Limit: 300, Limit2: 5000, ShiftAt: 4, Oversize: -1, Gate: 1, GateHoldUs: 500, Plan: &rawpeer.SeqPlan{}, plan: "unfragmented", Cuts: []int{65535},
			Wire: func() (w [][]byte) {
				for i, sz := range []int{300, 150, 150, 299} {
					w = append(w, buildBlobOfSize(blobC2S, sz, uint64(i), blobStyle{}))
				}
				w = append(w, []byte{0x81, blobShift})
				for i, sz := range []int{5000, 301, 2500, 2500, 4999} {
					w = append(w, buildBlobOfSize(blobC2S, sz, uint64(10+i), blobStyle{}))
				}
				return
			}(), Delays: make([]int, 10)},
		// second state with a smaller limit: a message that would have been legal before the Shift is oversized after it
		{Family: "blob-server", Limit: 5000, Limit2: 300, ShiftAt: 2, Oversize: 5, Gate: -1, Plan: &rawpeer.SeqPlan{}, plan: "unfragmented",
			Wire: func() (w [][]byte) {
				for i, sz := range []int{5000, 2500} {
					w = append(w, buildBlobOfSize(blobC2S, sz, uint64(i), blobStyle{}))
				}
				w = append(w, []byte{0x81, blobShift})
				for i, sz := range []int{300, 150, 301} {
					w = append(w, buildBlobOfSize(blobC2S, sz, uint64(10+i), blobStyle{}))
				}
				return
			}(), Delays: make([]int, 6)},
	} {
		fc.Procs = runtime.GOMAXPROCS(0)
		out := runC13Case(fc)
		rec.Eval()
		rec.Class("fixed_" + fc.Family)
		if fc.Family == "incomplete" {
			rec.NonTrivial("fixed incomplete definite-bytes", fc.describe())
		} else if fc.Limit > 0 {
			rec.NonTrivial(fmt.Sprintf("fixed %v", fc.describe()), fc.describe())
		}
		for _, f := range out.fails {
			cs := fc.describe()
			for k, v := range f.extra {
				cs[k] = v
			}
			rec.Violation(f.key, f.what, cs)
		}
	}

	rec.Check(func(rt *rapid.T) {
		c := genC13Case(rt, rec.Thorough())
		procs, restore := setProcs(rt)
		c.Procs = procs
		out := runC13Case(c)
		restore()
		rec.Eval()
		r := out.run
		rec.Class("family_" + c.Family)
		if c.Oversize >= 0 {
			rec.Class("oversize")
			if len(c.Wire[c.Oversize]) == c.limitAt(c.Oversize)+1 {
				rec.Class("oversize_by_1")
			}
		}
		exactLimit := false
		for i, w := range c.Wire {
			if len(w) == c.limitAt(i) && i != c.Oversize {
				exactLimit = true
			}
		}
		if exactLimit {
			rec.Class("msg_exactly_limit")
		}
		if r.pressure > 0 {
			rec.Class("boundary_reached")
		}
		if r.gateReached {
			rec.Class("gate_steady_state_reached")
		}
		if r.gateTimeout {
			rec.Class("gate_timeout")
		}
		if c.Limit > 0 && r.maxPending == c.Limit {
			rec.Class("pending_hit_limit_exactly")
		}
		if c.Limit > 0 && r.maxPending > c.Limit/2 {
			rec.Class("pending_above_half_limit")
		}
		if r.gateReached && r.writtenAtGate < int64(r.prefix[len(c.Wire)]) {
			rec.Class("sender_blocked_at_gate")
		}
		if c.Sibling > 0 {
			rec.Class("with_sibling")
		}
		if c.SiblingTwin {
			rec.Class("sibling_other_role_of_same_id_stopped_mid_stream")
		}
		if c.ShiftAt >= 0 {
			rec.Class("two_states_with_different_limits")
			if c.Limit2 > c.Limit {
				rec.Class("second_state_limit_larger")
				for i, w := range c.Wire {
					if i > c.ShiftAt && len(w) > c.Limit && i != c.Oversize {
						rec.Class("msg_legal_only_in_second_state")
						break
					}
				}
			} else {
				rec.Class("second_state_limit_smaller")
				if c.Oversize > c.ShiftAt && len(c.Wire[c.Oversize]) <= c.Limit {
					rec.Class("oversize_only_for_second_state")
				}
			}
		}
		if c.Limit <= 8 && c.Limit > 0 {
			rec.Class("limit_le_8")
		}
		if out.completed {
			rec.Class("completed")
		}
		if out.errored {
			rec.Class("errored")
		}
		if r.pressure > 0 || c.Oversize >= 0 || c.Family == "incomplete" {
			d := c.describe()
			d["observed"] = map[string]any{"max_pending": r.maxPending, "max_held_apart_from_current": r.maxHeldOther, "boundary_events": r.pressure}
			key := c.describe()
			rec.NonTrivial(fmt.Sprintf("%v", key), d)
		}
		for _, f := range out.fails {
			cs := c.describe()
			for k, v := range f.extra {
				cs[k] = v
			}
			rec.Fail(rt, f.key, f.what, cs)
		}
		c13Failed.Store(false) // reached only if every failure was a listed finding
	})
}
