package mux

import (
	"bytes"
	"errors"
	"fmt"
	"runtime"
	"sync"
	"sync/atomic"
	"testing"
	"time"

	"github.com/blinklabs-io/gouroboros/muxer"
	"github.com/blinklabs-io/gouroboros/protocol"
	"github.com/blinklabs-io/gouroboros/protocol/blockfetch"
	pcommon "github.com/blinklabs-io/gouroboros/protocol/common"
	"pgregory.net/rapid"

	"verif/harness/internal/evi"
	"verif/harness/internal/rawpeer"
	"verif/harness/internal/xcbor"
)

// C10 — messages survive segmentation and reassembly unchanged.
//
// Two real muxers joined by rawpeer.Pipe, on each 1..3 real protocol.Protocol
// instances running the harness blob protocol. A generated script of phases
// (client sends, hands over, server sends, ...) is executed with generated send
// modes; the oracle compares, per protocol and direction, the exact byte strings
// handed to SendMessage with (a) the bytes the peer's decoder was given, (b) the
// bytes the peer's handler saw, in order, and (c) the wire observed at the
// connection, de-framed by the harness.

type c10Msg struct {
	Typ   uint8
	Size  int // requested total encoded size
	Seed  uint64
	Style blobStyle
	Mode  int // 0 SendMessage back-to-back, 1 SendMessage then yield, 2 SendMessage then sleep, 3 SendMessageAndWait
	Lazy  bool
	wire  []byte
}

type c10Phase struct {
	Msgs []c10Msg // last one is the turn message unless it is the final phase
}

type c10Script struct {
	ID            uint16
	Phases        []c10Phase // phase 2k: client sends, phase 2k+1: server sends
	Rev           bool       // the client instance lives on muxer B (and the server instance on muxer A)
	RestartBefore []bool     // per phase: both protocol instances are stopped and fresh ones started (same muxers) before it
	Delays        []int      // handler delays (cycled, both sides): 0 none, 1 Gosched, n>1 sleep us
	Scribble      bool       // handlers overwrite the bytes of the message they were given
}

type c10Case struct {
	Scripts []c10Script
	PlanA   *rawpeer.SeqPlan // reads of the client side muxer
	PlanB   *rawpeer.SeqPlan // reads of the server side muxer
	planA   string
	planB   string
	Procs   int
	Volume  int
	SplitA  []int // write splitting of muxer A's / B's connection (header and payload written separately, ...)
	SplitB  []int
	Label   string
}

var c10IDs = []uint16{2, 3, 7, 0x7fff}

// specialMsgSizes: total message sizes next to CBOR head-width changes, to the muxer
// header size, to common internal buffer sizes and to the segment payload maximum.
var specialMsgSizes = []int{2, 3, 8, 9, 23, 24, 25, 26, 63, 64, 65, 255, 256, 257, 258, 259, 260, 511, 512, 513,
	4095, 4096, 4097, 12287, 12288, 12289, 65527, 65534, 65535, 65536, 65543}

// genMsgSize draws a total message size, biased to the 65535 boundaries.
func genMsgSize(rt *rapid.T, budget int, thorough bool) int {
	kind := rapid.IntRange(0, 11).Draw(rt, "msgSizeKind")
	var s int
	switch kind {
	case 0, 1, 2:
		s = rapid.IntRange(2, 40).Draw(rt, "msgSize")
	case 3:
		s = rapid.SampledFrom(specialMsgSizes).Draw(rt, "msgSize")
	case 4, 5:
		s = rapid.IntRange(41, 5000).Draw(rt, "msgSize")
	case 6:
		// k*65535 + d: crosses (or exactly fills) k segment boundaries
		k := rapid.SampledFrom([]int{1, 1, 1, 2, 2, 3, 4}).Draw(rt, "segMultiple")
		s = k*65535 + rapid.IntRange(-3, 3).Draw(rt, "delta")
	case 7:
		s = rapid.IntRange(65520, 65560).Draw(rt, "msgSize")
	case 8:
		s = rapid.IntRange(5001, 140000).Draw(rt, "msgSize")
	case 9:
		s = rapid.SampledFrom([]int{131069, 131070, 131071, 131072, 196605, 196606}).Draw(rt, "msgSize")
	case 10:
		s = rapid.IntRange(140001, 1<<20).Draw(rt, "msgSize")
	default:
		hi := 3 << 20
		if thorough && !raceEnabled {
			hi = 6 << 20
		}
		s = rapid.IntRange(1<<20, hi).Draw(rt, "msgSize")
	}
	if s > budget {
		// out of volume: fall back to something small but still boundary-biased
		s = rapid.SampledFrom([]int{2, 3, 24, 100, 1000}).Draw(rt, "msgSizeSmall")
	}
	return s
}

func genC10Case(rt *rapid.T, thorough bool) *c10Case {
	c := &c10Case{}
	c.PlanA, c.planA = genPlan(rt, "a")
	c.PlanB, c.planB = genPlan(rt, "b")
	max := 6 << 20
	if thorough {
		max = 14 << 20
	}
	if raceEnabled {
		max = 2 << 20 // the race tier is about interleavings, not volume
	}
	c.Volume = volumeFor(max, c.PlanA.Chunks, c.PlanB.Chunks)
	budget := c.Volume
	nProt := rapid.SampledFrom([]int{1, 1, 2, 3}).Draw(rt, "nProt")
	ids := rapid.SliceOfNDistinct(rapid.SampledFrom(c10IDs), nProt, nProt, func(v uint16) uint16 { return v }).Draw(rt, "ids")
	for _, id := range ids {
		sc := c10Script{ID: id}
		nPh := rapid.IntRange(1, 4).Draw(rt, "nPhases")
		total := rapid.IntRange(1, 60).Draw(rt, "nMsgs")
		if rapid.IntRange(0, 3).Draw(rt, "fewMsgs") == 0 {
			total = rapid.IntRange(1, 4).Draw(rt, "nMsgsFew")
		}
		for ph := 0; ph < nPh; ph++ {
			n := total / nPh
			if ph == 0 {
				n += total % nPh
			}
			var p c10Phase
			dataTyp, turnTyp := blobC2S, blobTurnC
			if ph%2 == 1 {
				dataTyp, turnTyp = blobS2C, blobTurnS
			}
			// a phase either sends everything back to back (batching path) or mixes modes
			burst := rapid.Bool().Draw(rt, "burst")
			for i := 0; i < n; i++ {
				m := c10Msg{Typ: dataTyp}
				m.Size = genMsgSize(rt, budget, thorough)
				budget -= m.Size
				m.Seed = rapid.Uint64().Draw(rt, "seed")
				m.Style = genBlobStyle(rt)
				if !burst {
					m.Mode = rapid.SampledFrom([]int{0, 0, 1, 2, 3}).Draw(rt, "mode")
				}
				m.Lazy = rapid.IntRange(0, 4).Draw(rt, "lazy") == 0
				p.Msgs = append(p.Msgs, m)
			}
			if ph < nPh-1 {
				m := c10Msg{Typ: turnTyp, Size: rapid.SampledFrom([]int{2, 2, 30, 70000}).Draw(rt, "turnSize"),
					Seed: rapid.Uint64().Draw(rt, "seed"), Style: genBlobStyle(rt)}
				if m.Size > budget {
					m.Size = 2
				}
				budget -= m.Size
				p.Msgs = append(p.Msgs, m)
			}
			sc.Phases = append(sc.Phases, p)
		}
		c.Scripts = append(c.Scripts, sc)
	}
	// Some conversations run in the opposite direction (client instance on muxer B);
	// a "twin" is a second, independent conversation on the SAME protocol id with the
	// roles swapped, so that both roles of that id are registered on both muxers.
	n0 := len(c.Scripts)
	for i := 0; i < n0; i++ {
		switch rapid.IntRange(0, 5).Draw(rt, "revKind") {
		case 0:
			c.Scripts[i].Rev = true
		case 1, 2:
			tw := c10Script{ID: c.Scripts[i].ID, Rev: true}
			nPh := rapid.IntRange(1, 3).Draw(rt, "twinPhases")
			for ph := 0; ph < nPh; ph++ {
				var p c10Phase
				dataTyp, turnTyp := blobC2S, blobTurnC
				if ph%2 == 1 {
					dataTyp, turnTyp = blobS2C, blobTurnS
				}
				n := rapid.IntRange(1, 8).Draw(rt, "twinMsgs")
				for j := 0; j < n; j++ {
					m := c10Msg{Typ: dataTyp, Size: genMsgSize(rt, budget, thorough), Seed: rapid.Uint64().Draw(rt, "seed"), Style: genBlobStyle(rt),
						Mode: rapid.SampledFrom([]int{0, 0, 1, 3}).Draw(rt, "mode")}
					budget -= m.Size
					p.Msgs = append(p.Msgs, m)
				}
				if ph < nPh-1 {
					p.Msgs = append(p.Msgs, c10Msg{Typ: turnTyp, Size: 2, Seed: 1})
				}
				tw.Phases = append(tw.Phases, p)
			}
			c.Scripts = append(c.Scripts, tw)
		}
	}
	for i := range c.Scripts {
		sc := &c.Scripts[i]
		sc.RestartBefore = make([]bool, len(sc.Phases))
		for ph := 2; ph < len(sc.Phases); ph += 2 {
			// both instances are back in the initial state here (the client has handled TurnS)
			sc.RestartBefore[ph] = rapid.IntRange(0, 2).Draw(rt, "restart") == 0
		}
		if rapid.IntRange(0, 2).Draw(rt, "slowHandlers") == 0 {
			nd := rapid.IntRange(1, 3).Draw(rt, "nDelays")
			for j := 0; j < nd; j++ {
				sc.Delays = append(sc.Delays, rapid.SampledFrom([]int{0, 1, 1, 100}).Draw(rt, "delay"))
			}
		}
		sc.Scribble = rapid.Bool().Draw(rt, "scribble")
	}
	splits := [][]int{nil, nil, {8, 100000}, {7, 100000}, {9, 100000}, {1, 7, 100000}, {8, 1, 100000}}
	c.SplitA = rapid.SampledFrom(splits).Draw(rt, "splitA")
	c.SplitB = rapid.SampledFrom(splits).Draw(rt, "splitB")
	return c
}

func (c *c10Case) build() {
	for si := range c.Scripts {
		for pi := range c.Scripts[si].Phases {
			ms := c.Scripts[si].Phases[pi].Msgs
			for mi := range ms {
				ms[mi].wire = buildBlobOfSize(ms[mi].Typ, ms[mi].Size, ms[mi].Seed, ms[mi].Style)
			}
		}
	}
}

func (c *c10Case) describe() map[string]any {
	var scripts []any
	for _, sc := range c.Scripts {
		var phases []any
		for pi, p := range sc.Phases {
			var msgs []string
			for _, m := range p.Msgs {
				lazy := ""
				if m.Lazy {
					lazy = " lazy"
				}
				msgs = append(msgs, fmt.Sprintf("t%d %dB mode%d%s {%s}", m.Typ, len(m.wire), m.Mode, lazy, m.Style))
			}
			who := "client"
			if pi%2 == 1 {
				who = "server"
			}
			phases = append(phases, map[string]any{"sender": who, "msgs": msgs})
		}
		scripts = append(scripts, map[string]any{"protocol_id": sc.ID, "phases": phases, "client_on_muxer_B": sc.Rev,
			"restart_before_phase": sc.RestartBefore, "handler_delays": sc.Delays, "handlers_overwrite_message": sc.Scribble})
	}
	m := map[string]any{"scripts": scripts, "muxerA_read_plan": c.planA, "muxerB_read_plan": c.planB, "gomaxprocs": c.Procs,
		"muxerA_write_split": c.SplitA, "muxerB_write_split": c.SplitB}
	if c.Label != "" {
		m["label"] = c.Label
	}
	return m
}

type c10Fail struct {
	key, what string
	cs        map[string]any
}

var c10Failed atomic.Bool

func c10Patience(volume int) time.Duration {
	if c10Failed.Load() {
		return 15 * time.Second
	}
	// a healthy case moves its volume in well under a second
	return 40*time.Second + time.Duration(volume/(1<<20))*2*time.Second
}

type c10Stats struct {
	crossing, sharing, exactFill bool
	maxSpan, maxShare            int
	segments                     int
}

func runC10Case(c *c10Case) (fails []c10Fail, st c10Stats) {
	patience := c10Patience(c.Volume)
	fail := func(key, what string, extra map[string]any) {
		cs := c.describe()
		for k, v := range extra {
			cs[k] = v
		}
		fails = append(fails, c10Fail{key, what, cs})
		c10Failed.Store(true)
		patience = c10Patience(c.Volume)
	}
	a, b := rawpeer.Pipe(c.PlanA, c.PlanB)
	// muxer A hosts the client instance of every conversation that is not reversed and
	// the server instance of every reversed one; muxer B the counterparts
	var specsA, specsB []blobProtoSpec
	for _, sc := range c.Scripts {
		ra, rb := protocol.ProtocolRoleClient, protocol.ProtocolRoleServer
		if sc.Rev {
			ra, rb = rb, ra
		}
		specsA = append(specsA, blobProtoSpec{id: sc.ID, stateMap: blobStateMap(0, 0), role: ra})
		specsB = append(specsB, blobProtoSpec{id: sc.ID, stateMap: blobStateMap(0, 0), role: rb})
	}
	cli := newBlobSide(a, protocol.ProtocolRoleClient, true, specsA)
	srv := newBlobSide(b, protocol.ProtocolRoleServer, true, specsB)
	cli.conn.split, srv.conn.split = c.SplitA, c.SplitB
	for si, sc := range c.Scripts {
		for _, bp := range []*blobProto{cli.protos[si], srv.protos[si]} {
			bp.scribble = sc.Scribble
			if len(sc.Delays) > 0 {
				delays := sc.Delays
				bp.onHandle = func(i int, _ *blobMsg) error {
					switch d := delays[i%len(delays)]; {
					case d == 1:
						runtime.Gosched()
					case d > 1:
						time.Sleep(time.Duration(d) * time.Microsecond)
					}
					return nil
				}
			}
		}
	}
	cli.start()
	srv.start()

	progress := func() int64 {
		n := cli.conn.nRead.Load() + srv.conn.nRead.Load()
		for i := range cli.protos {
			n += int64(cli.protos[i].handledCount() + srv.protos[i].handledCount())
		}
		return n
	}
	abort := make(chan struct{})
	var abortOnce sync.Once
	doAbort := func() { abortOnce.Do(func() { close(abort) }) }
	type drvRes struct {
		si        int
		key, what string
	}
	results := make(chan drvRes, len(c.Scripts))
	for si := range c.Scripts {
		go func(si int) {
			sc := c.Scripts[si]
			sides := [2]*blobProto{cli.protos[si], srv.protos[si]} // [client instance, server instance]
			if sc.Rev {
				sides[0], sides[1] = sides[1], sides[0]
			}
			stall, stopStall := stallChan(patience, progress)
			defer stopStall()
			recvCount := [2]int{}
			for pi, ph := range sc.Phases {
				snd, rcv := sides[pi%2], sides[1-pi%2]
				if sc.RestartBefore[pi] {
					// receiver of the coming phase first, so that it is registered again
					// before the first segment for it can arrive
					if !rcv.restart(stall) || !snd.restart(stall) {
						results <- drvRes{si, "C10:restart-hung", fmt.Sprintf("protocol %d before phase %d: a stopped protocol instance did not finish (idle conversation, both sides in the initial state)", sc.ID, pi)}
						return
					}
				}
				for mi, m := range ph.Msgs {
					// the engine gets its own copy of the encoding: the harness overwrites it
					// as soon as the engine has no business with it any more
					buf := append([]byte(nil), m.wire...)
					msg := newBlobMsg(m.Typ, buf, m.Lazy)
					var err error
					if m.Mode == 3 {
						err = snd.P.SendMessageAndWait(msg)
					} else {
						err = snd.P.SendMessage(msg)
					}
					if err == nil && (m.Mode == 3 || m.Lazy) {
						// Mode 3: the last segment has been written to the connection.
						// Lazy: the engine encoded the message inside SendMessage; what the
						// encoder read from is the caller's again.
						for i := range buf {
							buf[i] = ^buf[i]
						}
					}
					if err != nil {
						results <- drvRes{si, "C10:send-error", fmt.Sprintf("protocol %d phase %d message %d (%d bytes): SendMessage returned %v", sc.ID, pi, mi, len(m.wire), err)}
						return
					}
					switch m.Mode {
					case 1:
						runtime.Gosched()
					case 2:
						time.Sleep(150 * time.Microsecond)
					}
				}
				recvCount[1-pi%2] += len(ph.Msgs)
				// the next phase's sender may only queue once it holds agency,
				// i.e. after its handler has seen the turn message
				if !rcv.waitHandled(recvCount[1-pi%2], patience, abort, progress) {
					results <- drvRes{si, "C10:not-delivered", fmt.Sprintf("protocol %d phase %d: receiver handled %d of %d messages, then no progress for %v",
						sc.ID, pi, rcv.handledCount(), recvCount[1-pi%2], patience)}
					return
				}
			}
			results <- drvRes{si, "", ""}
		}(si)
	}
	stalled := false
	for range c.Scripts {
		r := <-results
		if r.key != "" {
			extra := map[string]any{}
			errsC, errsS := cli.pendingErrors(), srv.pendingErrors()
			extra["client_side_errors"] = errsC
			extra["server_side_errors"] = errsS
			if r.key == "C10:not-delivered" && len(errsC)+len(errsS) == 0 {
				extra["goroutines"] = goroutineDump()
			}
			what := r.what
			if len(errsC)+len(errsS) > 0 {
				what += fmt.Sprintf("; reported errors: client side %v, server side %v", errsC, errsS)
			}
			fail(r.key, what, extra)
			stalled = true
			doAbort()
		}
	}
	if !stalled {
		if e := cli.pendingErrors(); len(e) > 0 {
			fail("C10:spurious-error", fmt.Sprintf("client side reported %v although every message was delivered", e), nil)
		}
		if e := srv.pendingErrors(); len(e) > 0 {
			fail("C10:spurious-error", fmt.Sprintf("server side reported %v although every message was delivered", e), nil)
		}
	}
	// shut down (harness initiated; errors from here on are expected closes)
	cli.stop(10 * time.Second)
	srv.stop(10 * time.Second)
	_ = a.Close()
	_ = b.Close()

	// ---- oracle: per protocol and direction ----
	wireToSrv, _ := rawpeer.ParseSegs(srv.conn.ReadLog())
	wireToCli, _ := rawpeer.ParseSegs(cli.conn.ReadLog())
	for si, sc := range c.Scripts {
		for dir := 0; dir < 2; dir++ { // 0: client->server, 1: server->client
			var sent [][]byte
			for pi, ph := range sc.Phases {
				if pi%2 == dir {
					for _, m := range ph.Msgs {
						sent = append(sent, m.wire)
					}
				}
			}
			// the receiver of direction dir and the connection its segments were read from
			rcv, segs := srv.protos[si], wireToSrv
			if (dir == 1) != sc.Rev {
				rcv, segs = cli.protos[si], wireToCli
			}
			dirName := "client->server"
			if dir == 1 {
				dirName = "server->client"
			}
			if sc.Rev {
				dirName += " (client on muxer B)"
			}
			decoded, handled := rcv.snapshot()
			where := fmt.Sprintf("protocol %d %s", sc.ID, dirName)
			if !stalled || len(handled) > len(sent) {
				if len(handled) != len(sent) {
					fail("C10:count", fmt.Sprintf("%s: %d messages queued, handler saw %d", where, len(sent), len(handled)), nil)
				}
			}
			for i := 0; i < len(handled) && i < len(sent); i++ {
				if !bytes.Equal(handled[i], sent[i]) {
					fail("C10:handler-bytes", fmt.Sprintf("%s message #%d: handler saw %d bytes (fnv %x), queued %d bytes (fnv %x)",
						where, i, len(handled[i]), fnv64(handled[i]), len(sent[i]), fnv64(sent[i])), nil)
					break
				}
			}
			for i := 0; i < len(decoded) && i < len(sent); i++ {
				if !bytes.Equal(decoded[i], sent[i]) {
					fail("C10:decoder-bytes", fmt.Sprintf("%s message #%d: decoder was given %d bytes (fnv %x), queued %d bytes (fnv %x)",
						where, i, len(decoded[i]), fnv64(decoded[i]), len(sent[i]), fnv64(sent[i])), nil)
					break
				}
			}
			if len(decoded) > len(sent) {
				fail("C10:count", fmt.Sprintf("%s: %d messages queued, decoder was given %d", where, len(sent), len(decoded)), nil)
			}
			// wire: segments of this (id, direction) concatenate to the queued encodings
			var stream []byte
			var segLens []int
			for _, s := range segs {
				if s.ProtoID == sc.ID && s.Response == (dir == 1) {
					if len(s.Payload) == 0 || len(s.Payload) > 65535 {
						fail("C10:wire-segment-size", fmt.Sprintf("%s: segment with %d payload bytes", where, len(s.Payload)), nil)
					}
					stream = append(stream, s.Payload...)
					segLens = append(segLens, len(s.Payload))
				}
			}
			want := bytes.Join(sent, nil)
			if !stalled && !bytes.Equal(stream, want) {
				// the muxer may have read further than the protocol consumed, never less
				fail("C10:wire-stream", fmt.Sprintf("%s: wire carries %d bytes (fnv %x), queued encodings are %d bytes (fnv %x)",
					where, len(stream), fnv64(stream), len(want), fnv64(want)), nil)
			}
			if stalled && !bytes.HasPrefix(want, stream) {
				fail("C10:wire-stream", fmt.Sprintf("%s: the %d bytes on the wire are not a prefix of the queued encodings", where, len(stream)), nil)
			}
			// classification: which messages cross segment boundaries, which segments carry several
			st.segments += len(segLens)
			segEnd := make([]int, len(segLens))
			pos := 0
			for i, l := range segLens {
				pos += l
				segEnd[i] = pos
			}
			mpos, sidx := 0, 0
			startsInSeg := map[int]int{}
			for _, m := range sent {
				if mpos >= len(stream) {
					break
				}
				for sidx < len(segEnd) && segEnd[sidx] <= mpos {
					sidx++
				}
				startsInSeg[sidx]++
				end := mpos + len(m)
				span, k := 1, sidx
				for k < len(segEnd) && segEnd[k] < end {
					k++
					span++
				}
				if span > 1 {
					st.crossing = true
				}
				if span > st.maxSpan {
					st.maxSpan = span
				}
				if k < len(segEnd) && segEnd[k] == end && len(m)%65535 == 0 {
					st.exactFill = true
				}
				mpos = end
			}
			for _, n := range startsInSeg {
				if n >= 2 {
					st.sharing = true
				}
				if n > st.maxShare {
					st.maxShare = n
				}
			}
		}
	}
	return
}

// ---- family 2: real block-fetch messages streamed between two real endpoints -----------

type c10BFCase struct {
	Batches  [][]int // wrapped-block sizes per requested range
	Seeds    [][]uint64
	Paced    bool  // the serving application waits for the send queue to drain before it would exceed the state's byte limit
	Delays   []int // client handler delay per received message (cycled): 0 none, 1 Gosched, n>1 sleep us
	PlanA    *rawpeer.SeqPlan
	PlanB    *rawpeer.SeqPlan
	planA    string
	planB    string
	Procs    int
	Volume   int
	sleepSum int
}

func (c *c10BFCase) describe() map[string]any {
	return map[string]any{"family": "blockfetch", "batches_block_sizes": c.Batches, "paced": c.Paced, "client_handler_delays": c.Delays,
		"client_read_plan": c.planA, "server_read_plan": c.planB, "gomaxprocs": c.Procs}
}

func genC10BFCase(rt *rapid.T, thorough bool) *c10BFCase {
	c := &c10BFCase{}
	c.PlanA, c.planA = genPlan(rt, "a")
	c.PlanB, c.planB = genPlan(rt, "b")
	max := 8 << 20
	if thorough {
		max = 16 << 20
	}
	if raceEnabled {
		max = 8 << 20
	}
	c.Volume = volumeFor(max, c.PlanA.Chunks, c.PlanB.Chunks)
	budget := c.Volume
	nb := rapid.IntRange(1, 3).Draw(rt, "nBatches")
	// bulk: one long range of mainnet-sized blocks (what a node serving a syncing peer sends)
	bulk := c.Volume >= 8<<20 && rapid.IntRange(0, 2).Draw(rt, "bulk") == 0
	if bulk {
		nb = 1
	}
	for b := 0; b < nb; b++ {
		n := rapid.IntRange(1, 45).Draw(rt, "nBlocks")
		typical := rapid.SampledFrom([]int{600, 20000, 90000, 90000, 300000}).Draw(rt, "typical")
		if bulk {
			n = rapid.IntRange(30, 90).Draw(rt, "nBlocksBulk")
			typical = rapid.SampledFrom([]int{90000, 200000}).Draw(rt, "typicalBulk")
		}
		var sizes []int
		var seeds []uint64
		for i := 0; i < n; i++ {
			var s int
			kind := rapid.IntRange(0, 5).Draw(rt, "blkKind")
			if bulk {
				kind = 5
			}
			switch kind {
			case 0:
				s = rapid.SampledFrom([]int{1, 65524, 65525, 65526, 65527, 65528, 65529, 65530, 131060, 131061, 131062}).Draw(rt, "blk")
			case 1:
				s = rapid.IntRange(1, 2000).Draw(rt, "blk")
			default:
				s = rapid.IntRange(typical/2+1, typical).Draw(rt, "blk")
			}
			if s > budget {
				s = rapid.IntRange(1, 200).Draw(rt, "blkSmall")
			}
			budget -= s
			sizes = append(sizes, s)
			seeds = append(seeds, rapid.Uint64().Draw(rt, "seed"))
		}
		c.Batches = append(c.Batches, sizes)
		c.Seeds = append(c.Seeds, seeds)
	}
	c.Paced = rapid.Bool().Draw(rt, "paced")
	nd := rapid.IntRange(1, 4).Draw(rt, "nDelays")
	slow := rapid.Bool().Draw(rt, "slowClient")
	for i := 0; i < nd; i++ {
		d := rapid.SampledFrom([]int{0, 0, 1}).Draw(rt, "delay")
		if slow {
			d = rapid.SampledFrom([]int{0, 1, 100, 400}).Draw(rt, "delay")
		}
		c.Delays = append(c.Delays, d)
	}
	msgs := 0
	for _, b := range c.Batches {
		msgs += len(b) + 2
	}
	for i := 0; i < msgs; i++ {
		if d := c.Delays[i%len(c.Delays)]; d > 1 {
			c.sleepSum += d
		}
	}
	return c
}

type bfEnd struct {
	P       *protocol.Protocol
	mu      sync.Mutex
	handled [][]byte // msg.Cbor() at the handler
	blocks  [][]byte // WrappedBlock of every MsgBlock
	delays  []int
}

func (e *bfEnd) handle(msg protocol.Message) error {
	e.mu.Lock()
	i := len(e.handled)
	e.handled = append(e.handled, append([]byte(nil), msg.Cbor()...))
	if b, ok := msg.(*blockfetch.MsgBlock); ok {
		e.blocks = append(e.blocks, append([]byte(nil), b.WrappedBlock...))
	}
	e.mu.Unlock()
	if len(e.delays) > 0 {
		switch d := e.delays[i%len(e.delays)]; {
		case d == 1:
			runtime.Gosched()
		case d > 1:
			time.Sleep(time.Duration(d) * time.Microsecond)
		}
	}
	return nil
}

func (e *bfEnd) count() int { e.mu.Lock(); defer e.mu.Unlock(); return len(e.handled) }

func runC10BFCase(c *c10BFCase) (fails []c10Fail, st c10Stats, sendQueueHit bool) {
	patience := c10Patience(c.Volume) + 20*time.Duration(c.sleepSum)*time.Microsecond
	fail := func(key, what string, extra map[string]any) {
		cs := c.describe()
		for k, v := range extra {
			cs[k] = v
		}
		fails = append(fails, c10Fail{key, what, cs})
		c10Failed.Store(true)
		patience = c10Patience(c.Volume)
	}
	a, b := rawpeer.Pipe(c.PlanA, c.PlanB)
	ta, tb := &tapConn{Conn: a, recordReads: true}, &tapConn{Conn: b, recordReads: true}
	ma, mb := muxer.New(ta), muxer.New(tb)
	errA, errB := make(chan error, 10), make(chan error, 10)
	sm := stripTimeouts(blockfetch.StateMap)
	cli, srv := &bfEnd{delays: c.Delays}, &bfEnd{}
	mk := func(e *bfEnd, m *muxer.Muxer, errCh chan error, role protocol.ProtocolRole) {
		e.P = protocol.New(protocol.ProtocolConfig{
			Name: blockfetch.ProtocolName, ProtocolId: blockfetch.ProtocolId, ErrorChan: errCh, Muxer: m,
			Mode: protocol.ProtocolModeNodeToNode, Role: role, MessageHandlerFunc: e.handle,
			MessageFromCborFunc: blockfetch.NewMsgFromCbor, StateMap: sm, InitialState: blockfetch.StateIdle,
			RecvQueueSize: blockfetch.DefaultRecvQueueSize,
		})
		e.P.Start()
	}
	mk(cli, ma, errA, protocol.ProtocolRoleClient)
	mk(srv, mb, errB, protocol.ProtocolRoleServer)
	ma.SetDiffusionMode(muxer.DiffusionModeInitiator)
	mb.SetDiffusionMode(muxer.DiffusionModeResponder)
	ma.Start()
	mb.Start()

	var sentC2S, sentS2C, blocksSent [][]byte
	progress := func() int64 { return ta.nRead.Load() + tb.nRead.Load() + int64(cli.count()+srv.count()) }
	limit := blockfetch.StreamingMaxPendingMessageBytes
	type res struct{ key, what string }
	done := make(chan res, 1)
	go func() {
		cliWant, srvWant := 0, 0
		for bi, sizes := range c.Batches {
			req := blockfetch.NewMsgRequestRange(pcommon.NewPoint(uint64(bi*100+1), fill(uint64(bi), 32)), pcommon.NewPoint(uint64(bi*100+99), fill(uint64(bi)+7, 32)))
			if err := cli.P.SendMessage(req); err != nil {
				done <- res{"C10:blockfetch:send-error", fmt.Sprintf("RequestRange #%d: %v", bi, err)}
				return
			}
			// expected encodings are built by the harness (xcbor), not read back from the library
			sentC2S = append(sentC2S, xcbor.A(xcbor.U(0),
				xcbor.A(xcbor.U(uint64(bi*100+1)), xcbor.B(fill(uint64(bi), 32))),
				xcbor.A(xcbor.U(uint64(bi*100+99)), xcbor.B(fill(uint64(bi)+7, 32)))).Encode())
			srvWant++
			if !waitCond(patience, nil, progress, func() bool { return srv.count() >= srvWant }) {
				done <- res{"C10:blockfetch:not-delivered", fmt.Sprintf("server handled %d of %d requests", srv.count(), srvWant)}
				return
			}
			var msgs []protocol.Message
			var wires [][]byte
			msgs = append(msgs, blockfetch.NewMsgStartBatch())
			wires = append(wires, []byte{0x81, 0x02})
			for i, s := range sizes {
				blk := fill(c.Seeds[bi][i], s)
				blocksSent = append(blocksSent, append([]byte(nil), blk...))
				msgs = append(msgs, blockfetch.NewMsgBlock(blk)) // keeps a reference to blk
				wires = append(wires, xcbor.A(xcbor.U(4), xcbor.Tg(24, xcbor.B(blocksSent[len(blocksSent)-1]))).Encode())
			}
			msgs = append(msgs, blockfetch.NewMsgBatchDone())
			wires = append(wires, []byte{0x81, 0x05})
			inFlight := 0
			for mi, m := range msgs {
				est := 16
				if blk, ok := m.(*blockfetch.MsgBlock); ok {
					est = len(blk.WrappedBlock) + 16
				}
				if c.Paced && inFlight+est > limit {
					// a careful application: let the queue drain before exceeding the limit
					if !srv.P.WaitSendQueueDrained(patience) {
						done <- res{"C10:blockfetch:not-delivered", fmt.Sprintf("batch %d: send queue did not drain within %v", bi, patience)}
						return
					}
					inFlight = 0
				}
				inFlight += est
				if err := srv.P.SendMessage(m); err != nil {
					if errors.Is(err, protocol.ErrProtocolViolationQueueExceeded) {
						done <- res{"C10:blockfetch:send-queue-exceeded", fmt.Sprintf("batch %d message %d of %d (%d bytes, %d bytes queued since the batch started, state limit %d): SendMessage returned %q and the protocol was stopped; the client had handled %d messages",
							bi, mi, len(msgs), est-16, inFlight, limit, err.Error(), cli.count())}
						return
					}
					done <- res{"C10:blockfetch:send-error", fmt.Sprintf("batch %d message %d: %v", bi, mi, err)}
					return
				}
				sentS2C = append(sentS2C, wires[mi])
				if blk, ok := m.(*blockfetch.MsgBlock); ok {
					// SendMessage has returned: the application may reuse its block buffer
					for i := range blk.WrappedBlock {
						blk.WrappedBlock[i] = ^blk.WrappedBlock[i]
					}
				}
			}
			cliWant += len(msgs)
			if !waitCond(patience, nil, progress, func() bool { return cli.count() >= cliWant }) {
				done <- res{"C10:blockfetch:not-delivered", fmt.Sprintf("batch %d: client handled %d of %d messages, then no progress for %v", bi, cli.count(), cliWant, patience)}
				return
			}
		}
		done <- res{}
	}()
	r := <-done
	pending := func(ch chan error) (out []string) {
		for {
			select {
			case e := <-ch:
				out = append(out, e.Error())
			default:
				return
			}
		}
	}
	stalled := r.key != ""
	if stalled {
		sendQueueHit = r.key == "C10:blockfetch:send-queue-exceeded"
		extra := map[string]any{"client_side_errors": pending(errA), "server_side_errors": pending(errB)}
		if r.key == "C10:blockfetch:not-delivered" {
			extra["goroutines"] = goroutineDump()
		}
		fail(r.key, r.what, extra)
	} else {
		if e := append(pending(errA), pending(errB)...); len(e) > 0 {
			fail("C10:blockfetch:spurious-error", fmt.Sprintf("errors reported although everything was delivered: %v", e), nil)
		}
	}
	ma.Stop()
	mb.Stop()
	cli.P.Stop()
	srv.P.Stop()
	_ = a.Close()
	_ = b.Close()
	drainErrs(ma.ErrorChan(), 10*time.Second)
	drainErrs(mb.ErrorChan(), 10*time.Second)
	select {
	case <-cli.P.DoneChan():
	case <-time.After(10 * time.Second):
	}
	select {
	case <-srv.P.DoneChan():
	case <-time.After(10 * time.Second):
	}
	if sendQueueHit {
		return // everything after the refused message is undefined
	}
	check := func(where string, sent, got [][]byte) {
		if !stalled && len(got) != len(sent) {
			fail("C10:blockfetch:count", fmt.Sprintf("%s: %d messages queued, handler saw %d", where, len(sent), len(got)), nil)
		}
		for i := 0; i < len(got) && i < len(sent); i++ {
			if !bytes.Equal(got[i], sent[i]) {
				fail("C10:blockfetch:handler-bytes", fmt.Sprintf("%s message #%d: handler saw %d bytes (fnv %x), queued %d bytes (fnv %x)", where, i, len(got[i]), fnv64(got[i]), len(sent[i]), fnv64(sent[i])), nil)
				return
			}
		}
	}
	cli.mu.Lock()
	srv.mu.Lock()
	check("server->client", sentS2C, cli.handled)
	check("client->server", sentC2S, srv.handled)
	for i, blk := range cli.blocks {
		if i < len(blocksSent) && !bytes.Equal(blk, blocksSent[i]) {
			fail("C10:blockfetch:block-bytes", fmt.Sprintf("block #%d: client got %d bytes (fnv %x), server sent %d bytes (fnv %x)", i, len(blk), fnv64(blk), len(blocksSent[i]), fnv64(blocksSent[i])), nil)
			break
		}
	}
	cli.mu.Unlock()
	srv.mu.Unlock()
	// wire, server -> client
	segs, _ := rawpeer.ParseSegs(ta.ReadLog())
	var stream []byte
	var segLens []int
	for _, s := range segs {
		if s.ProtoID == blockfetch.ProtocolId && s.Response {
			if len(s.Payload) == 0 {
				fail("C10:blockfetch:wire-segment-size", "zero-length segment on the wire", nil)
			}
			stream = append(stream, s.Payload...)
			segLens = append(segLens, len(s.Payload))
		}
	}
	want := bytes.Join(sentS2C, nil)
	if !stalled && !bytes.Equal(stream, want) {
		fail("C10:blockfetch:wire-stream", fmt.Sprintf("server->client wire carries %d bytes (fnv %x), queued encodings are %d bytes (fnv %x)", len(stream), fnv64(stream), len(want), fnv64(want)), nil)
	}
	st.segments = len(segLens)
	pos, si, segEnd := 0, 0, 0
	for _, m := range sentS2C {
		end := pos + len(m)
		for si < len(segLens) && segEnd+segLens[si] <= pos {
			segEnd += segLens[si]
			si++
		}
		if si < len(segLens) && end > segEnd+segLens[si] {
			st.crossing = true
		} else if si < len(segLens) && pos > segEnd {
			st.sharing = true
		}
		pos = end
	}
	return
}

func TestC10(t *testing.T) {
	rec := evi.New(t, "C10", evi.Exploration,
		"each case: two real muxers over rawpeer.Pipe (generated read chunking/yields on both ends, generated GOMAXPROCS), 1..3 concurrent instances of the harness blob protocol (real protocol.Protocol on both sides); per instance a script of 1..4 alternating phases with 1..60 messages in total; message = CBOR array [type, bytes, pad...] built by the harness (xcbor) in a generated encoding style (definite/indefinite array, chunked byte string, non-minimal heads) with total size drawn from {2..40, 23..260, 41..5000, k*65535+-3 for k<=4, 65520..65560, 131069..131072, up to 1 MiB, 1..3 MiB (6 MiB thorough)}; per message send mode back-to-back / yield / sleep / SendMessageAndWait, pre-encoded or encoded by the engine. Non-trivial: on the observed wire some message spans >=2 segments or some segment carries >=2 messages. Distinct by (scripts incl. sizes, styles, modes; read plans).")
	defer rec.Finish()
	rec.Assume(
		"the receiving MessageFromCborFunc copies the bytes it is given (as DecodeStoreCbor.SetCbor does for every real message type)",
		"a side queues messages only while it holds agency (it waits for the peer's turn message to be handled first); queueing ahead of agency belongs to C12",
		"message sizes stay below the 16 MiB read-buffer bound (C13)",
		"interleavings are sampled, not enumerated",
	)
	// self-check of the message builder against the independent parser (harness sanity, not an oracle)
	for _, st := range []blobStyle{{}, {ArrForm: xcbor.FormIndef}, {BytesForm: xcbor.FormIndef, Chunk: 7}, {ArrForm: xcbor.FormW8, BytesForm: xcbor.FormW8}, {Pad: 3}} {
		for _, sz := range []int{2, 3, 24, 300, 65535, 65536, 70000} {
			w := buildBlobOfSize(blobC2S, sz, 1, st)
			if _, err := xcbor.ParseExact(w); err != nil {
				t.Fatalf("harness builder produced malformed CBOR (style %v size %d): %v", st, sz, err)
			}
		}
	}
	// fixed sweep: every special message size sent alone (SendMessageAndWait: the batch is
	// exactly the message), then as one burst in the other direction, then once more after
	// both instances were restarted; a twin conversation on the same id in the opposite
	// direction runs at the same time; header and payload are written separately
	{
		mk := func(typ uint8, sizes []int, mode int, seed uint64) (out []c10Msg) {
			for i, sz := range sizes {
				out = append(out, c10Msg{Typ: typ, Size: sz, Seed: seed + uint64(i), Mode: mode, Lazy: i%5 == 4})
			}
			return
		}
		all := append(append([]int(nil), specialMsgSizes...), 131069, 131070, 131071, 196605)
		few := []int{2, 65535, 65536, 3, 131070}
		main := c10Script{ID: 2, Scribble: true, Phases: []c10Phase{
			{Msgs: append(mk(blobC2S, all, 3, 100), c10Msg{Typ: blobTurnC, Size: 2, Seed: 1})},
			{Msgs: append(mk(blobS2C, all, 0, 200), c10Msg{Typ: blobTurnS, Size: 2, Seed: 1})},
			{Msgs: mk(blobC2S, few, 3, 300)},
		}, RestartBefore: []bool{false, false, true}}
		twin := c10Script{ID: 2, Rev: true, Phases: []c10Phase{
			{Msgs: append(mk(blobC2S, few, 0, 400), c10Msg{Typ: blobTurnC, Size: 2, Seed: 1})},
			{Msgs: mk(blobS2C, few, 3, 500)},
		}, RestartBefore: []bool{false, false}}
		fc := &c10Case{Scripts: []c10Script{main, twin}, PlanA: &rawpeer.SeqPlan{}, PlanB: &rawpeer.SeqPlan{Chunks: []int{7, 0, 9, 0}},
			planA: "unfragmented", planB: "chunks=[7 0 9 0]", Procs: runtime.GOMAXPROCS(0), Volume: 2 << 20,
			SplitA: []int{8, 100000}, SplitB: []int{7, 100000}, Label: "fixed special-size sweep with twin conversation and restart"}
		fc.build()
		fails, st := runC10Case(fc)
		rec.Eval()
		rec.Class("fixed_size_sweep")
		if st.crossing || st.sharing {
			rec.NonTrivial(fc.Label, fc.describe())
		}
		for _, f := range fails {
			rec.Violation(f.key, f.what, f.cs)
		}
		c10Failed.Store(false)
		rec.SetExtra("fixed_sweep_message_sizes", all)
	}

	// fixed instance: a block-fetch server serving one range of 40 blocks of 200 kB
	// back to back over an unfragmented connection to a fast client
	{
		fc := &c10BFCase{PlanA: &rawpeer.SeqPlan{}, PlanB: &rawpeer.SeqPlan{}, planA: "unfragmented", planB: "unfragmented",
			Delays: []int{0}, Volume: 8 << 20, Procs: runtime.GOMAXPROCS(0)}
		var sizes []int
		var seeds []uint64
		for i := 0; i < 40; i++ {
			sizes = append(sizes, 200000)
			seeds = append(seeds, uint64(i)+1)
		}
		fc.Batches, fc.Seeds = [][]int{sizes}, [][]uint64{seeds}
		fails, st, hit := runC10BFCase(fc)
		rec.Eval()
		rec.Class("fixed_blockfetch_bulk")
		if hit {
			rec.Class("blockfetch_send_queue_limit_hit")
		}
		if st.crossing || st.sharing || hit {
			rec.NonTrivial("fixed block-fetch bulk 40x200000", fc.describe())
		}
		for _, f := range fails {
			rec.Violation(f.key, f.what, f.cs)
		}
		c10Failed.Store(false) // a listed finding must not shorten the patience of the generated cases
	}

	rec.Check(func(rt *rapid.T) {
		if rapid.IntRange(0, 4).Draw(rt, "familyBlockFetch") == 0 {
			c := genC10BFCase(rt, rec.Thorough())
			procs, restore := setProcs(rt)
			c.Procs = procs
			fails, st, hit := runC10BFCase(c)
			restore()
			rec.Eval()
			rec.Class("family_blockfetch")
			if c.Paced {
				rec.Class("blockfetch_paced_sender")
			}
			if hit {
				rec.Class("blockfetch_send_queue_limit_hit")
			}
			if st.crossing {
				rec.Class("msg_crosses_segment")
			}
			if st.sharing {
				rec.Class("segment_shared_by_msgs")
			}
			if st.crossing || st.sharing {
				d := c.describe()
				rec.NonTrivial(fmt.Sprintf("%v", d), d)
			}
			for _, f := range fails {
				rec.Fail(rt, f.key, f.what, f.cs)
			}
			c10Failed.Store(false) // reached only if every failure was a listed finding
			return
		}
		rec.Class("family_blob")
		c := genC10Case(rt, rec.Thorough())
		procs, restore := setProcs(rt)
		c.Procs = procs
		c.build()
		fails, st := runC10Case(c)
		restore()
		rec.Eval()
		rec.Class(fmt.Sprintf("protocols_%d", len(c.Scripts)))
		exact, big, lazy, wait, both := false, false, false, false, false
		for _, sc := range c.Scripts {
			if len(sc.Phases) >= 2 {
				both = true
			}
			for _, p := range sc.Phases {
				for _, m := range p.Msgs {
					if len(m.wire) >= 1<<20 {
						big = true
					}
					if len(m.wire)%65535 == 0 {
						exact = true
					}
					if m.Lazy {
						lazy = true
					}
					if m.Mode == 3 {
						wait = true
					}
				}
			}
		}
		twin, rev, restart := false, false, false
		seen := map[uint16]bool{}
		for _, sc := range c.Scripts {
			if seen[sc.ID] {
				twin = true
			}
			seen[sc.ID] = true
			rev = rev || sc.Rev
			for _, r := range sc.RestartBefore {
				restart = restart || r
			}
		}
		cls := map[string]bool{
			"both_roles_of_one_id_on_a_muxer": twin, "client_on_muxer_B": rev, "protocol_restart_mid_history": restart,
			"conn_splits_writes":  c.SplitA != nil || c.SplitB != nil,
			"msg_crosses_segment": st.crossing, "segment_shared_by_msgs": st.sharing, "msg_multiple_of_65535": exact,
			"msg_ge_1MiB": big, "engine_encoded_msg": lazy, "send_and_wait": wait, "both_directions": both,
			"msg_spans_ge_3_segments": st.maxSpan >= 3, "segment_with_20_msgs": st.maxShare >= 20,
			"muxer_reads_lt8": planSplitsHeader(c.PlanA) || planSplitsHeader(c.PlanB),
		}
		for k, v := range cls {
			if v {
				rec.Class(k)
			}
		}
		if st.crossing || st.sharing {
			d := c.describe()
			rec.NonTrivial(fmt.Sprintf("%v", d), d)
		}
		for _, f := range fails {
			rec.Fail(rt, f.key, f.what, f.cs)
		}
		c10Failed.Store(false) // reached only if every failure was a listed finding
	})
}
