package mux

import (
	"bytes"
	"fmt"
	"runtime"
	"sync"
	"sync/atomic"
	"testing"
	"time"

	"github.com/blinklabs-io/gouroboros/protocol"
	"pgregory.net/rapid"

	"verif/harness/internal/evi"
	"verif/harness/internal/rawpeer"
	"verif/harness/internal/xcbor"
)

// C10 — messages survive segmentation and reassembly unchanged.
//
// Two real muxers joined by rawpeer.Pipe, on each 1..3 real protocol.Protocol
// instances running the harness blob protocol. A generated script of phases
// (client sends, hands over, server sends, ...) is executed with generated send
// modes; the oracle compares, per protocol and direction, the exact byte strings
// handed to SendMessage with (a) the bytes the peer's decoder was given, (b) the
// bytes the peer's handler saw, in order, and (c) the wire observed at the
// connection, de-framed by the harness.

type c10Msg struct {
	Typ   uint8
	Size  int // requested total encoded size
	Seed  uint64
	Style blobStyle
	Mode  int // 0 SendMessage back-to-back, 1 SendMessage then yield, 2 SendMessage then sleep, 3 SendMessageAndWait
	Lazy  bool
	wire  []byte
}

type c10Phase struct {
	Msgs []c10Msg // last one is the turn message unless it is the final phase
}

type c10Script struct {
	ID     uint16
	Phases []c10Phase // phase 2k: client sends, phase 2k+1: server sends
}

type c10Case struct {
	Scripts []c10Script
	PlanA   *rawpeer.SeqPlan // reads of the client side muxer
	PlanB   *rawpeer.SeqPlan // reads of the server side muxer
	planA   string
	planB   string
	Procs   int
	Volume  int
}

var c10IDs = []uint16{2, 3, 7, 0x7fff}

// genMsgSize draws a total message size, biased to the 65535 boundaries.
func genMsgSize(rt *rapid.T, budget int, thorough bool) int {
	kind := rapid.IntRange(0, 11).Draw(rt, "msgSizeKind")
	var s int
	switch kind {
	case 0, 1, 2:
		s = rapid.IntRange(2, 40).Draw(rt, "msgSize")
	case 3:
		s = rapid.SampledFrom([]int{2, 3, 23, 24, 25, 26, 255, 256, 257, 258, 259, 260}).Draw(rt, "msgSize")
	case 4, 5:
		s = rapid.IntRange(41, 5000).Draw(rt, "msgSize")
	case 6:
		// k*65535 + d: crosses (or exactly fills) k segment boundaries
		k := rapid.SampledFrom([]int{1, 1, 1, 2, 2, 3, 4}).Draw(rt, "segMultiple")
		s = k*65535 + rapid.IntRange(-3, 3).Draw(rt, "delta")
	case 7:
		s = rapid.IntRange(65520, 65560).Draw(rt, "msgSize")
	case 8:
		s = rapid.IntRange(5001, 140000).Draw(rt, "msgSize")
	case 9:
		s = rapid.SampledFrom([]int{131069, 131070, 131071, 131072, 196605, 196606}).Draw(rt, "msgSize")
	case 10:
		s = rapid.IntRange(140001, 1<<20).Draw(rt, "msgSize")
	default:
		hi := 3 << 20
		if thorough {
			hi = 6 << 20
		}
		s = rapid.IntRange(1<<20, hi).Draw(rt, "msgSize")
	}
	if s > budget {
		// out of volume: fall back to something small but still boundary-biased
		s = rapid.SampledFrom([]int{2, 3, 24, 100, 1000}).Draw(rt, "msgSizeSmall")
	}
	return s
}

func genC10Case(rt *rapid.T, thorough bool) *c10Case {
	c := &c10Case{}
	c.PlanA, c.planA = genPlan(rt, "a")
	c.PlanB, c.planB = genPlan(rt, "b")
	max := 6 << 20
	if thorough {
		max = 14 << 20
	}
	c.Volume = volumeFor(max, c.PlanA.Chunks, c.PlanB.Chunks)
	budget := c.Volume
	nProt := rapid.SampledFrom([]int{1, 1, 2, 3}).Draw(rt, "nProt")
	ids := rapid.SliceOfNDistinct(rapid.SampledFrom(c10IDs), nProt, nProt, func(v uint16) uint16 { return v }).Draw(rt, "ids")
	for _, id := range ids {
		sc := c10Script{ID: id}
		nPh := rapid.IntRange(1, 4).Draw(rt, "nPhases")
		total := rapid.IntRange(1, 60).Draw(rt, "nMsgs")
		if rapid.IntRange(0, 3).Draw(rt, "fewMsgs") == 0 {
			total = rapid.IntRange(1, 4).Draw(rt, "nMsgsFew")
		}
		for ph := 0; ph < nPh; ph++ {
			n := total / nPh
			if ph == 0 {
				n += total % nPh
			}
			var p c10Phase
			dataTyp, turnTyp := blobC2S, blobTurnC
			if ph%2 == 1 {
				dataTyp, turnTyp = blobS2C, blobTurnS
			}
			// a phase either sends everything back to back (batching path) or mixes modes
			burst := rapid.Bool().Draw(rt, "burst")
			for i := 0; i < n; i++ {
				m := c10Msg{Typ: dataTyp}
				m.Size = genMsgSize(rt, budget, thorough)
				budget -= m.Size
				m.Seed = rapid.Uint64().Draw(rt, "seed")
				m.Style = genBlobStyle(rt)
				if !burst {
					m.Mode = rapid.SampledFrom([]int{0, 0, 1, 2, 3}).Draw(rt, "mode")
				}
				m.Lazy = rapid.IntRange(0, 4).Draw(rt, "lazy") == 0
				p.Msgs = append(p.Msgs, m)
			}
			if ph < nPh-1 {
				m := c10Msg{Typ: turnTyp, Size: rapid.SampledFrom([]int{2, 2, 30, 70000}).Draw(rt, "turnSize"),
					Seed: rapid.Uint64().Draw(rt, "seed"), Style: genBlobStyle(rt)}
				if m.Size > budget {
					m.Size = 2
				}
				budget -= m.Size
				p.Msgs = append(p.Msgs, m)
			}
			sc.Phases = append(sc.Phases, p)
		}
		c.Scripts = append(c.Scripts, sc)
	}
	return c
}

func (c *c10Case) build() {
	for si := range c.Scripts {
		for pi := range c.Scripts[si].Phases {
			ms := c.Scripts[si].Phases[pi].Msgs
			for mi := range ms {
				ms[mi].wire = buildBlobOfSize(ms[mi].Typ, ms[mi].Size, ms[mi].Seed, ms[mi].Style)
			}
		}
	}
}

func (c *c10Case) describe() map[string]any {
	var scripts []any
	for _, sc := range c.Scripts {
		var phases []any
		for pi, p := range sc.Phases {
			var msgs []string
			for _, m := range p.Msgs {
				lazy := ""
				if m.Lazy {
					lazy = " lazy"
				}
				msgs = append(msgs, fmt.Sprintf("t%d %dB mode%d%s {%s}", m.Typ, len(m.wire), m.Mode, lazy, m.Style))
			}
			who := "client"
			if pi%2 == 1 {
				who = "server"
			}
			phases = append(phases, map[string]any{"sender": who, "msgs": msgs})
		}
		scripts = append(scripts, map[string]any{"protocol_id": sc.ID, "phases": phases})
	}
	return map[string]any{"scripts": scripts, "client_read_plan": c.planA, "server_read_plan": c.planB, "gomaxprocs": c.Procs}
}

type c10Fail struct {
	key, what string
	cs        map[string]any
}

var c10Failed atomic.Bool

func c10Patience(volume int) time.Duration {
	if c10Failed.Load() {
		return 5 * time.Second
	}
	// a healthy case moves its volume in well under a second
	return 40*time.Second + time.Duration(volume/(1<<20))*2*time.Second
}

type c10Stats struct {
	crossing, sharing, exactFill bool
	maxSpan, maxShare            int
	segments                     int
}

func runC10Case(c *c10Case) (fails []c10Fail, st c10Stats) {
	patience := c10Patience(c.Volume)
	fail := func(key, what string, extra map[string]any) {
		cs := c.describe()
		for k, v := range extra {
			cs[k] = v
		}
		fails = append(fails, c10Fail{key, what, cs})
		c10Failed.Store(true)
		patience = c10Patience(c.Volume)
	}
	a, b := rawpeer.Pipe(c.PlanA, c.PlanB)
	var specs []blobProtoSpec
	for _, sc := range c.Scripts {
		specs = append(specs, blobProtoSpec{id: sc.ID, stateMap: blobStateMap(0, 0)})
	}
	cli := newBlobSide(a, protocol.ProtocolRoleClient, true, specs)
	srv := newBlobSide(b, protocol.ProtocolRoleServer, true, specs)
	cli.start()
	srv.start()

	abort := make(chan struct{})
	var abortOnce sync.Once
	doAbort := func() { abortOnce.Do(func() { close(abort) }) }
	type drvRes struct {
		si        int
		key, what string
	}
	results := make(chan drvRes, len(c.Scripts))
	for si := range c.Scripts {
		go func(si int) {
			sc := c.Scripts[si]
			sides := [2]*blobProto{cli.protos[si], srv.protos[si]}
			recvCount := [2]int{}
			for pi, ph := range sc.Phases {
				snd, rcv := sides[pi%2], sides[1-pi%2]
				for mi, m := range ph.Msgs {
					msg := newBlobMsg(m.Typ, m.wire, m.Lazy)
					var err error
					if m.Mode == 3 {
						err = snd.P.SendMessageAndWait(msg)
					} else {
						err = snd.P.SendMessage(msg)
					}
					if err != nil {
						results <- drvRes{si, "C10:send-error", fmt.Sprintf("protocol %d phase %d message %d (%d bytes): SendMessage returned %v", sc.ID, pi, mi, len(m.wire), err)}
						return
					}
					switch m.Mode {
					case 1:
						runtime.Gosched()
					case 2:
						time.Sleep(150 * time.Microsecond)
					}
				}
				recvCount[1-pi%2] += len(ph.Msgs)
				// the next phase's sender may only queue once it holds agency,
				// i.e. after its handler has seen the turn message
				if !rcv.waitHandled(recvCount[1-pi%2], patience, abort) {
					results <- drvRes{si, "C10:not-delivered", fmt.Sprintf("protocol %d phase %d: receiver handled %d of %d messages within %v",
						sc.ID, pi, rcv.handledCount(), recvCount[1-pi%2], patience)}
					return
				}
			}
			results <- drvRes{si, "", ""}
		}(si)
	}
	stalled := false
	for range c.Scripts {
		r := <-results
		if r.key != "" {
			extra := map[string]any{}
			errsC, errsS := cli.pendingErrors(), srv.pendingErrors()
			extra["client_side_errors"] = errsC
			extra["server_side_errors"] = errsS
			if r.key == "C10:not-delivered" && len(errsC)+len(errsS) == 0 {
				extra["goroutines"] = goroutineDump()
			}
			what := r.what
			if len(errsC)+len(errsS) > 0 {
				what += fmt.Sprintf("; reported errors: client side %v, server side %v", errsC, errsS)
			}
			fail(r.key, what, extra)
			stalled = true
			doAbort()
		}
	}
	if !stalled {
		if e := cli.pendingErrors(); len(e) > 0 {
			fail("C10:spurious-error", fmt.Sprintf("client side reported %v although every message was delivered", e), nil)
		}
		if e := srv.pendingErrors(); len(e) > 0 {
			fail("C10:spurious-error", fmt.Sprintf("server side reported %v although every message was delivered", e), nil)
		}
	}
	// shut down (harness initiated; errors from here on are expected closes)
	cli.stop(10 * time.Second)
	srv.stop(10 * time.Second)
	_ = a.Close()
	_ = b.Close()

	// ---- oracle: per protocol and direction ----
	wireToSrv, _ := rawpeer.ParseSegs(srv.conn.ReadLog())
	wireToCli, _ := rawpeer.ParseSegs(cli.conn.ReadLog())
	for si, sc := range c.Scripts {
		for dir := 0; dir < 2; dir++ { // 0: client->server, 1: server->client
			var sent [][]byte
			for pi, ph := range sc.Phases {
				if pi%2 == dir {
					for _, m := range ph.Msgs {
						sent = append(sent, m.wire)
					}
				}
			}
			rcv := srv.protos[si]
			segs := wireToSrv
			dirName := "client->server"
			if dir == 1 {
				rcv, segs, dirName = cli.protos[si], wireToCli, "server->client"
			}
			decoded, handled := rcv.snapshot()
			where := fmt.Sprintf("protocol %d %s", sc.ID, dirName)
			if !stalled || len(handled) > len(sent) {
				if len(handled) != len(sent) {
					fail("C10:count", fmt.Sprintf("%s: %d messages queued, handler saw %d", where, len(sent), len(handled)), nil)
				}
			}
			for i := 0; i < len(handled) && i < len(sent); i++ {
				if !bytes.Equal(handled[i], sent[i]) {
					fail("C10:handler-bytes", fmt.Sprintf("%s message #%d: handler saw %d bytes (fnv %x), queued %d bytes (fnv %x)",
						where, i, len(handled[i]), fnv64(handled[i]), len(sent[i]), fnv64(sent[i])), nil)
					break
				}
			}
			for i := 0; i < len(decoded) && i < len(sent); i++ {
				if !bytes.Equal(decoded[i], sent[i]) {
					fail("C10:decoder-bytes", fmt.Sprintf("%s message #%d: decoder was given %d bytes (fnv %x), queued %d bytes (fnv %x)",
						where, i, len(decoded[i]), fnv64(decoded[i]), len(sent[i]), fnv64(sent[i])), nil)
					break
				}
			}
			if len(decoded) > len(sent) {
				fail("C10:count", fmt.Sprintf("%s: %d messages queued, decoder was given %d", where, len(sent), len(decoded)), nil)
			}
			// wire: segments of this (id, direction) concatenate to the queued encodings
			var stream []byte
			var segLens []int
			for _, s := range segs {
				if s.ProtoID == sc.ID && s.Response == (dir == 1) {
					if len(s.Payload) == 0 || len(s.Payload) > 65535 {
						fail("C10:wire-segment-size", fmt.Sprintf("%s: segment with %d payload bytes", where, len(s.Payload)), nil)
					}
					stream = append(stream, s.Payload...)
					segLens = append(segLens, len(s.Payload))
				}
			}
			want := bytes.Join(sent, nil)
			if !stalled && !bytes.Equal(stream, want) {
				// the muxer may have read further than the protocol consumed, never less
				fail("C10:wire-stream", fmt.Sprintf("%s: wire carries %d bytes (fnv %x), queued encodings are %d bytes (fnv %x)",
					where, len(stream), fnv64(stream), len(want), fnv64(want)), nil)
			}
			if stalled && !bytes.HasPrefix(want, stream) {
				fail("C10:wire-stream", fmt.Sprintf("%s: the %d bytes on the wire are not a prefix of the queued encodings", where, len(stream)), nil)
			}
			// classification: which messages cross segment boundaries, which segments carry several
			st.segments += len(segLens)
			segEnd := make([]int, len(segLens))
			pos := 0
			for i, l := range segLens {
				pos += l
				segEnd[i] = pos
			}
			mpos, sidx := 0, 0
			startsInSeg := map[int]int{}
			for _, m := range sent {
				if mpos >= len(stream) {
					break
				}
				for sidx < len(segEnd) && segEnd[sidx] <= mpos {
					sidx++
				}
				startsInSeg[sidx]++
				end := mpos + len(m)
				span, k := 1, sidx
				for k < len(segEnd) && segEnd[k] < end {
					k++
					span++
				}
				if span > 1 {
					st.crossing = true
				}
				if span > st.maxSpan {
					st.maxSpan = span
				}
				if k < len(segEnd) && segEnd[k] == end && len(m)%65535 == 0 {
					st.exactFill = true
				}
				mpos = end
			}
			for _, n := range startsInSeg {
				if n >= 2 {
					st.sharing = true
				}
				if n > st.maxShare {
					st.maxShare = n
				}
			}
		}
	}
	return
}

func TestC10(t *testing.T) {
	rec := evi.New(t, "C10", evi.Exploration,
		"each case: two real muxers over rawpeer.Pipe (generated read chunking/yields on both ends, generated GOMAXPROCS), 1..3 concurrent instances of the harness blob protocol (real protocol.Protocol on both sides); per instance a script of 1..4 alternating phases with 1..60 messages in total; message = CBOR array [type, bytes, pad...] built by the harness (xcbor) in a generated encoding style (definite/indefinite array, chunked byte string, non-minimal heads) with total size drawn from {2..40, 23..260, 41..5000, k*65535+-3 for k<=4, 65520..65560, 131069..131072, up to 1 MiB, 1..3 MiB (6 MiB thorough)}; per message send mode back-to-back / yield / sleep / SendMessageAndWait, pre-encoded or encoded by the engine. Non-trivial: on the observed wire some message spans >=2 segments or some segment carries >=2 messages. Distinct by (scripts incl. sizes, styles, modes; read plans).")
	defer rec.Finish()
	rec.Assume(
		"the receiving MessageFromCborFunc copies the bytes it is given (as DecodeStoreCbor.SetCbor does for every real message type)",
		"a side queues messages only while it holds agency (it waits for the peer's turn message to be handled first); queueing ahead of agency belongs to C12",
		"message sizes stay below the 16 MiB read-buffer bound (C13)",
		"interleavings are sampled, not enumerated",
	)
	// self-check of the message builder against the independent parser (harness sanity, not an oracle)
	for _, st := range []blobStyle{{}, {ArrForm: xcbor.FormIndef}, {BytesForm: xcbor.FormIndef, Chunk: 7}, {ArrForm: xcbor.FormW8, BytesForm: xcbor.FormW8}, {Pad: 3}} {
		for _, sz := range []int{2, 3, 24, 300, 65535, 65536, 70000} {
			w := buildBlobOfSize(blobC2S, sz, 1, st)
			if _, err := xcbor.ParseExact(w); err != nil {
				t.Fatalf("harness builder produced malformed CBOR (style %v size %d): %v", st, sz, err)
			}
		}
	}
	rec.Check(func(rt *rapid.T) {
		c := genC10Case(rt, rec.Thorough())
		procs, restore := setProcs(rt)
		c.Procs = procs
		c.build()
		fails, st := runC10Case(c)
		restore()
		rec.Eval()
		rec.Class(fmt.Sprintf("protocols_%d", len(c.Scripts)))
		exact, big, lazy, wait, both := false, false, false, false, false
		for _, sc := range c.Scripts {
			if len(sc.Phases) >= 2 {
				both = true
			}
			for _, p := range sc.Phases {
				for _, m := range p.Msgs {
					if len(m.wire) >= 1<<20 {
						big = true
					}
					if len(m.wire)%65535 == 0 {
						exact = true
					}
					if m.Lazy {
						lazy = true
					}
					if m.Mode == 3 {
						wait = true
					}
				}
			}
		}
		cls := map[string]bool{
			"msg_crosses_segment": st.crossing, "segment_shared_by_msgs": st.sharing, "msg_multiple_of_65535": exact,
			"msg_ge_1MiB": big, "engine_encoded_msg": lazy, "send_and_wait": wait, "both_directions": both,
			"msg_spans_ge_3_segments": st.maxSpan >= 3, "segment_with_20_msgs": st.maxShare >= 20,
			"muxer_reads_lt8": planSplitsHeader(c.PlanA) || planSplitsHeader(c.PlanB),
		}
		for k, v := range cls {
			if v {
				rec.Class(k)
			}
		}
		if st.crossing || st.sharing {
			d := c.describe()
			rec.NonTrivial(fmt.Sprintf("%v", d), d)
		}
		for _, f := range fails {
			rec.Fail(rt, f.key, f.what, f.cs)
		}
	})
}
