package mux

import (
	"testing"

	"verif/harness/internal/xcbor"
)

// TestBlobBuilderSizes checks the harness's own message builder (not a property
// check): every requested total size is hit exactly and parses as one CBOR item.
func TestBlobBuilderSizes(t *testing.T) {
	styles := []blobStyle{{}, {ArrForm: xcbor.FormIndef}, {BytesForm: xcbor.FormIndef, Chunk: 1}, {BytesForm: xcbor.FormIndef, Chunk: 7},
		{ArrForm: xcbor.FormW8, BytesForm: xcbor.FormW8}, {Pad: 3}, {ArrForm: xcbor.FormIndef, BytesForm: xcbor.FormIndef, Chunk: 3, Pad: 2}}
	for _, st := range styles {
		for _, sz := range []int{2, 3, 4, 5, 10, 11, 12, 25, 26, 27, 28, 64, 65, 259, 260, 261, 300, 4095, 4096, 4097, 8192, 65535, 65536, 65540, 65541, 65542, 65543, 70000, 131070} {
			w := buildBlobOfSize(blobC2S, sz, 1, st)
			if len(w) != sz {
				t.Errorf("style %v: asked %d got %d", st, sz, len(w))
			}
			if _, err := xcbor.ParseExact(w); err != nil {
				t.Errorf("style %v size %d: malformed: %v", st, sz, err)
			}
		}
	}
}
