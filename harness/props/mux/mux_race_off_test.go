//go:build !race

package mux

const raceEnabled = false
