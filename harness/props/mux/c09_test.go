package mux

import (
	"bytes"
	"errors"
	"fmt"
	"io"
	"runtime"
	"sync"
	"sync/atomic"
	"testing"
	"time"

	"github.com/blinklabs-io/gouroboros/muxer"
	"pgregory.net/rapid"

	"verif/harness/internal/evi"
	"verif/harness/internal/rawpeer"
)

// C09 — the muxer delivers each byte stream intact to the right endpoint.
//
// Three families per rapid case (drawn): "send" (k concurrent harness senders ->
// real muxer -> harness de-framer), "recv" (harness framer -> fragmented conn ->
// real muxer -> k registered receivers, optionally with an offending segment
// injected) and "duplex" (both at once on one muxer). The far end is always the
// harness's own framing code (rawpeer.Frame / ParseSegs), never the library's.

type c09Endpoint struct {
	ID   uint16
	Role muxer.ProtocolRole // role the endpoint is registered with locally
}

func (e c09Endpoint) String() string {
	r := "I"
	if e.Role == muxer.ProtocolRoleResponder {
		r = "R"
	}
	return fmt.Sprintf("%d/%s", e.ID, r)
}

// outDir is the direction bit carried by segments this endpoint sends:
// responders set the bit. inDir is the bit segments addressed to it must carry.
func (e c09Endpoint) outDir() bool { return e.Role == muxer.ProtocolRoleResponder }
func (e c09Endpoint) inDir() bool  { return e.Role == muxer.ProtocolRoleInitiator }

var c09IDPool = []uint16{0, 1, 2, 3, 4, 5, 6, 7, 8, 9, 10, 11, 255, 256, 0x1234, 0x7ffe, 0x7fff}

func genEndpoints(rt *rapid.T, maxK int) []c09Endpoint {
	k := rapid.IntRange(1, maxK).Draw(rt, "k")
	n := len(c09IDPool) * 2
	// bias towards id collisions across the two roles: draw from a small window
	window := rapid.SampledFrom([]int{4, 8, n}).Draw(rt, "idWindow")
	if window < k {
		window = k
	}
	idx := rapid.SliceOfNDistinct(rapid.IntRange(0, window-1), k, k, func(i int) int { return i }).Draw(rt, "endpoints")
	eps := make([]c09Endpoint, k)
	for i, x := range idx {
		role := muxer.ProtocolRoleInitiator
		if x%2 == 1 {
			role = muxer.ProtocolRoleResponder
		}
		eps[i] = c09Endpoint{ID: c09IDPool[x/2], Role: role}
	}
	return eps
}

type c09Stream struct {
	Sizes []int
	Seeds []uint64
}

func (s c09Stream) payload(i int) []byte { return fill(s.Seeds[i], s.Sizes[i]) }

// genStreams draws per endpoint a sequence of payload sizes; volume bounds the
// total bytes per case so that the quick tier stays within its budget.
func genStreams(rt *rapid.T, k, maxSegs, volume int) []c09Stream {
	out := make([]c09Stream, k)
	left := volume
	for i := range out {
		n := rapid.IntRange(1, maxSegs).Draw(rt, "nSegs")
		for j := 0; j < n; j++ {
			sz := genSegSize(rt, left > 70000)
			left -= sz
			out[i].Sizes = append(out[i].Sizes, sz)
			out[i].Seeds = append(out[i].Seeds, rapid.Uint64().Draw(rt, "seed"))
		}
	}
	return out
}

func diffusionFor(rt *rapid.T, eps []c09Endpoint) muxer.DiffusionMode {
	allI, allR := true, true
	for _, e := range eps {
		if e.Role != muxer.ProtocolRoleInitiator {
			allI = false
		}
		if e.Role != muxer.ProtocolRoleResponder {
			allR = false
		}
	}
	opts := []muxer.DiffusionMode{muxer.DiffusionModeNone, muxer.DiffusionModeInitiatorAndResponder}
	if allI {
		opts = append(opts, muxer.DiffusionModeInitiator)
	}
	if allR {
		opts = append(opts, muxer.DiffusionModeResponder)
	}
	return rapid.SampledFrom(opts).Draw(rt, "diffusion")
}

type c09Got struct {
	ID       uint16
	Response bool
	Len      uint16
	Payload  []byte
}

type c09Fail struct {
	key, what string
	cs        map[string]any
}

// Bounded-liveness patience: a healthy case completes in well under 1 s even on a
// loaded machine, the bound is >= 20x that. Once a failure has been seen in this
// process rapid is shrinking; re-runs then use a shorter bound so that shrinking
// a stall terminates (a shrink attempt that does not reproduce is simply dropped).
var c09Failed atomic.Bool

func c09Patience() time.Duration {
	if c09Failed.Load() {
		return 10 * time.Second
	}
	return 30 * time.Second
}

// c09Case is one fully drawn scenario.
type c09Case struct {
	Family    string // send | recv | duplex
	Eps       []c09Endpoint
	Out       []c09Stream // what each local endpoint sends
	In        []c09Stream // what is addressed to each local endpoint
	SendMode  []int       // 0 = via the registered channel, 1 = Muxer.Send directly
	SendYield [][]int     // per endpoint, per segment: 0 none, 1 Gosched, n>1 sleep n us
	Order     []int       // interleaving of inbound segments (endpoint indexes)
	Bad       string      // "", zero, unregistered, wrongdir
	BadPos    int         // inbound segments before the offending one
	BadSeg    rawpeer.Seg
	BadEp     int   // unregistered-late: the endpoint that is unregistered before BadSeg is written
	WriteCuts []int // cycled sizes of the harness's writes of the inbound wire
	Split     []int // tapConn write splitting on the muxer side
	Diffusion muxer.DiffusionMode
	Procs     int
	PlanA     *rawpeer.SeqPlan
	PlanB     *rawpeer.SeqPlan
	planADesc string
	planBDesc string
	RecvYield []int
}

func (c *c09Case) describe() map[string]any {
	eps := make([]string, len(c.Eps))
	for i, e := range c.Eps {
		eps[i] = e.String()
	}
	m := map[string]any{
		"family": c.Family, "endpoints": eps, "gomaxprocs": c.Procs,
		"muxer_read_plan": c.planADesc, "far_end_read_plan": c.planBDesc,
		"diffusion": int(c.Diffusion),
	}
	if c.Family != "recv" {
		sz := make([][]int, len(c.Out))
		for i := range c.Out {
			sz[i] = c.Out[i].Sizes
		}
		m["out_sizes"] = sz
		m["send_mode"] = c.SendMode
		m["conn_write_split"] = c.Split
	}
	if c.Family != "send" {
		sz := make([][]int, len(c.In))
		for i := range c.In {
			sz[i] = c.In[i].Sizes
		}
		m["in_sizes"] = sz
		m["in_order"] = c.Order
		m["write_cuts"] = c.WriteCuts
		if c.Bad != "" {
			m["bad"] = c.Bad
			m["bad_pos"] = c.BadPos
			if c.Bad == "unregistered-late" {
				m["unregistered_endpoint"] = c.Eps[c.BadEp].String()
			}
			m["bad_seg"] = fmt.Sprintf("id=%d resp=%v len=%d", c.BadSeg.ProtoID, c.BadSeg.Response, len(c.BadSeg.Payload))
		}
	}
	return m
}

func genC09Case(rt *rapid.T, thorough bool) *c09Case {
	c := &c09Case{}
	c.Family = rapid.SampledFrom([]string{"send", "send", "recv", "recv", "recv", "duplex"}).Draw(rt, "family")
	c.Eps = genEndpoints(rt, 6)
	k := len(c.Eps)
	c.PlanA, c.planADesc = genPlan(rt, "a")
	c.PlanB, c.planBDesc = genPlan(rt, "b")
	if c.Family != "recv" && rapid.IntRange(0, 2).Draw(rt, "splitWrites") > 0 {
		n := rapid.IntRange(1, 4).Draw(rt, "nSplit")
		for i := 0; i < n; i++ {
			c.Split = append(c.Split, rapid.SampledFrom([]int{1, 3, 4, 7, 8, 9, 64, 1000, 30000}).Draw(rt, "split"))
		}
	}
	if c.Family != "send" {
		n := rapid.IntRange(0, 6).Draw(rt, "nCuts")
		for i := 0; i < n; i++ {
			c.WriteCuts = append(c.WriteCuts, rapid.SampledFrom([]int{1, 2, 3, 5, 7, 8, 9, 11, 64, 500, 4000, 65543, 100000}).Draw(rt, "cut"))
		}
	}
	// a plan's yields also run after every Write on that end: no sleeping yields
	// where the writes are cut into small pieces (harness cost only)
	if len(c.Split) > 0 && avgChunk(c.Split) < 1500 {
		c.planADesc = noSleep(c.PlanA)
	}
	if len(c.WriteCuts) > 0 && avgChunk(c.WriteCuts) < 1500 {
		c.planBDesc = noSleep(c.PlanB)
	}
	volume := 400_000
	if thorough {
		volume = 1_200_000
	}
	switch c.Family {
	case "send":
		volume = volumeFor(volume, c.PlanB.Chunks, c.Split)
	case "recv":
		volume = volumeFor(volume, c.PlanA.Chunks, c.WriteCuts)
	default:
		volume = volumeFor(volume, c.PlanA.Chunks, c.PlanB.Chunks, c.Split, c.WriteCuts)
	}
	if c.Family != "recv" {
		c.Out = genStreams(rt, k, 8, volume)
		for i := 0; i < k; i++ {
			c.SendMode = append(c.SendMode, rapid.IntRange(0, 1).Draw(rt, "sendMode"))
			ys := make([]int, len(c.Out[i].Sizes))
			for j := range ys {
				ys[j] = rapid.SampledFrom([]int{0, 0, 0, 1, 1, 30}).Draw(rt, "sendYield")
			}
			c.SendYield = append(c.SendYield, ys)
		}
	}
	if c.Family != "send" {
		c.In = genStreams(rt, k, 8, volume)
		// interleaving: repeatedly pick an endpoint that still has segments left
		left := make([]int, k)
		total := 0
		for i := range c.In {
			left[i] = len(c.In[i].Sizes)
			total += left[i]
		}
		for n := 0; n < total; n++ {
			var alive []int
			for i, l := range left {
				if l > 0 {
					alive = append(alive, i)
				}
			}
			e := alive[rapid.IntRange(0, len(alive)-1).Draw(rt, "next")]
			left[e]--
			c.Order = append(c.Order, e)
		}
		if rapid.IntRange(0, 9).Draw(rt, "injectBad") < 4 {
			c.BadPos = rapid.IntRange(0, total).Draw(rt, "badPos")
			kinds := []string{"zero", "unregistered"}
			// wrong direction is only an offence if the opposite role of that id is not registered
			var wrongDirCandidates []c09Endpoint
			for _, e := range c.Eps {
				other := false
				for _, f := range c.Eps {
					if f.ID == e.ID && f.Role != e.Role {
						other = true
					}
				}
				if !other {
					wrongDirCandidates = append(wrongDirCandidates, e)
				}
			}
			if len(wrongDirCandidates) > 0 {
				kinds = append(kinds, "wrongdir", "wrongdir")
			}
			if c.Family == "recv" {
				// a registered endpoint is unregistered mid-stream, then addressed again
				kinds = append(kinds, "unregistered-late", "unregistered-late")
			}
			c.Bad = rapid.SampledFrom(kinds).Draw(rt, "badKind")
			ts := rapid.Uint32().Draw(rt, "badTs")
			switch c.Bad {
			case "zero":
				e := c.Eps[rapid.IntRange(0, k-1).Draw(rt, "badEp")]
				c.BadSeg = rawpeer.Seg{Timestamp: ts, ProtoID: e.ID, Response: e.inDir()}
			case "unregistered":
				var id uint16
				for {
					id = rapid.Uint16Range(0, 0x7fff).Draw(rt, "badId")
					used := false
					for _, e := range c.Eps {
						if e.ID == id {
							used = true
						}
					}
					if !used {
						break
					}
				}
				c.BadSeg = rawpeer.Seg{Timestamp: ts, ProtoID: id, Response: rapid.Bool().Draw(rt, "badDir"),
					Payload: fill(uint64(ts), rapid.IntRange(1, 300).Draw(rt, "badLen"))}
			case "unregistered-late":
				c.BadEp = rapid.IntRange(0, k-1).Draw(rt, "badEp")
				e := c.Eps[c.BadEp]
				c.BadSeg = rawpeer.Seg{Timestamp: ts, ProtoID: e.ID, Response: e.inDir(),
					Payload: fill(uint64(ts), rapid.IntRange(1, 300).Draw(rt, "badLen"))}
			case "wrongdir":
				e := wrongDirCandidates[rapid.IntRange(0, len(wrongDirCandidates)-1).Draw(rt, "badEp")]
				c.BadSeg = rawpeer.Seg{Timestamp: ts, ProtoID: e.ID, Response: !e.inDir(),
					Payload: fill(uint64(ts), rapid.IntRange(1, 300).Draw(rt, "badLen"))}
			}
		}
		for i := 0; i < k; i++ {
			c.RecvYield = append(c.RecvYield, rapid.SampledFrom([]int{0, 0, 1, 50}).Draw(rt, "recvYield"))
		}
	}
	c.Diffusion = diffusionFor(rt, c.Eps)
	return c
}

// tsFromSeed: a quarter of the inbound segments carry a timestamp at a wrap or
// sign boundary of the 32-bit field, the rest an arbitrary one.
func tsFromSeed(seed uint64) uint32 {
	if seed%4 == 0 {
		return specialTimestamps[(seed>>2)%uint64(len(specialTimestamps))]
	}
	return uint32(seed >> 8)
}

// inboundWire frames the inbound interleaving with the harness's own framer and
// reports, per endpoint, how many of its segments precede the offending one.
func (c *c09Case) inboundWire() (wire []byte, segStarts []int, before []int) {
	next := make([]int, len(c.Eps))
	before = make([]int, len(c.Eps))
	emitBad := func() {
		segStarts = append(segStarts, len(wire))
		wire = append(wire, rawpeer.Frame(c.BadSeg)...)
		copy(before, next)
	}
	for n, e := range c.Order {
		if c.Bad != "" && n == c.BadPos {
			emitBad()
		}
		i := next[e]
		next[e]++
		segStarts = append(segStarts, len(wire))
		wire = append(wire, rawpeer.Frame(rawpeer.Seg{
			Timestamp: tsFromSeed(c.In[e].Seeds[i]),
			ProtoID:   c.Eps[e].ID,
			Response:  c.Eps[e].inDir(),
			Payload:   c.In[e].payload(i),
		})...)
	}
	if c.Bad != "" && c.BadPos >= len(c.Order) {
		emitBad()
	}
	if c.Bad == "" {
		copy(before, next)
	}
	return
}

func runC09Case(c *c09Case) (fails []c09Fail, classes []string, headerCut bool) {
	c09Wait := c09Patience()
	fail := func(key, what string, extra map[string]any) {
		cs := c.describe()
		for k, v := range extra {
			cs[k] = v
		}
		fails = append(fails, c09Fail{key, what, cs})
		c09Failed.Store(true)
		c09Wait = c09Patience()
	}
	k := len(c.Eps)
	a, b := rawpeer.Pipe(c.PlanA, c.PlanB)
	tap := &tapConn{Conn: a, split: c.Split}
	m := muxer.New(tap)
	m.SetDiffusionMode(c.Diffusion)
	sendCh := make([]chan *muxer.Segment, k)
	recvCh := make([]chan *muxer.Segment, k)
	for i, e := range c.Eps {
		s, r, d := m.RegisterProtocol(e.ID, e.Role)
		if s == nil || r == nil || d == nil {
			fail("C09:register-nil", "RegisterProtocol returned nil channels on a fresh muxer", nil)
			m.Stop()
			_ = b.Close()
			return
		}
		sendCh[i], recvCh[i] = s, r
	}
	m.Start()
	muxErrs := make(chan []error, 1)
	go func() {
		errs, _ := drainErrs(m.ErrorChan(), 15*time.Minute) // until closed
		muxErrs <- errs
	}()

	var wg sync.WaitGroup
	var farBytes, delivered atomic.Int64
	progress := func() int64 { return tap.nRead.Load() + tap.nWritten.Load() + farBytes.Load() + delivered.Load() }
	stall, stopStall := stallChan(c09Wait, progress)
	defer stopStall()

	// ---- outbound: local senders, far end collects the raw wire ----
	expectOut := 0
	farWire := make(chan []byte, 1)
	farClosed := make(chan struct{})
	farFinal := make(chan []byte, 1)
	if c.Family != "recv" {
		for i := range c.Out {
			for _, sz := range c.Out[i].Sizes {
				expectOut += 8 + sz
			}
		}
	}
	go func() {
		// the far end reads everything the muxer writes until EOF / close
		var wire []byte
		buf := make([]byte, 70000)
		sent := false
		for {
			n, err := b.Read(buf)
			wire = append(wire, buf[:n]...)
			farBytes.Add(int64(n))
			if !sent && len(wire) >= expectOut {
				sent = true
				farWire <- append([]byte(nil), wire...)
			}
			if err != nil {
				farFinal <- wire
				close(farClosed)
				return
			}
		}
	}()
	sendErrs := make([]error, k)
	if c.Family != "recv" {
		for i := range c.Eps {
			wg.Add(1)
			go func(i int) {
				defer wg.Done()
				e := c.Eps[i]
				for j := range c.Out[i].Sizes {
					seg := muxer.NewSegment(e.ID, c.Out[i].payload(j), e.outDir())
					if seg == nil {
						sendErrs[i] = fmt.Errorf("NewSegment(%d bytes) returned nil", c.Out[i].Sizes[j])
						return
					}
					if c.SendMode[i] == 1 {
						if err := m.Send(seg); err != nil {
							sendErrs[i] = err
							return
						}
					} else {
						sendCh[i] <- seg
					}
					switch y := c.SendYield[i][j]; {
					case y == 1:
						runtime.Gosched()
					case y > 1:
						time.Sleep(time.Duration(y) * time.Microsecond)
					}
				}
			}(i)
		}
	}

	reachedBad, resume := make(chan struct{}), make(chan struct{})
	// ---- inbound: harness writes the framed interleaving, receivers collect ----
	got := make([][]c09Got, k)
	recvDone := make(chan int, k)
	var before []int
	if c.Family != "send" {
		var wire []byte
		var segStarts []int
		wire, segStarts, before = c.inboundWire()
		// does a write boundary fall strictly inside a segment header?
		if len(c.WriteCuts) > 0 {
			pos, ci, si := 0, 0, 0
			for pos < len(wire) {
				pos += c.WriteCuts[ci%len(c.WriteCuts)]
				ci++
				for si < len(segStarts) && segStarts[si]+8 <= pos {
					si++
				}
				if si < len(segStarts) && pos > segStarts[si] && pos < segStarts[si]+8 && pos < len(wire) {
					headerCut = true
					break
				}
			}
		}
		for i := range c.Eps {
			go func(i int) {
				for seg := range recvCh[i] {
					got[i] = append(got[i], c09Got{
						ID: seg.GetProtocolId(), Response: seg.IsResponse(),
						Len: seg.PayloadLength, Payload: append([]byte(nil), seg.Payload...),
					})
					delivered.Add(1)
					switch y := c.RecvYield[i]; {
					case y == 1:
						runtime.Gosched()
					case y > 1:
						time.Sleep(time.Duration(y) * time.Microsecond)
					}
				}
				recvDone <- i
			}(i)
		}
		pauseAt := -1
		if c.Bad == "unregistered-late" {
			pauseAt = len(wire)
			for n, st := range segStarts {
				if n == c.BadPos {
					pauseAt = st
				}
			}
		}
		wg.Add(1)
		go func() {
			defer wg.Done()
			ci := 0
			written := 0
			for len(wire) > 0 {
				if written == pauseAt {
					close(reachedBad)
					<-resume
				}
				n := len(wire)
				if pauseAt > written && n > pauseAt-written {
					n = pauseAt - written
				}
				if len(c.WriteCuts) > 0 {
					if v := c.WriteCuts[ci%len(c.WriteCuts)]; v < n {
						n = v
					}
					ci++
				}
				if _, err := b.Write(wire[:n]); err != nil {
					return // the muxer closed the connection (expected after an offending segment)
				}
				wire = wire[n:]
				written += n
			}
		}()
	}

	// ---- wait for the outbound wire ----
	if c.Family != "recv" {
		senders := make(chan struct{})
		go func() { wg.Wait(); close(senders) }()
		var wire []byte
		torn := farClosed
		if c.Bad == "" {
			torn = nil // nobody closes the connection in a good case
		}
		select {
		case wire = <-farWire:
		case <-torn:
			select {
			case wire = <-farWire:
			default:
				wire = <-farFinal
			}
		case <-stall:
			if c.Bad == "" {
				fail("C09:send:stalled", fmt.Sprintf("far end did not receive the %d expected wire bytes (no progress for %v)", expectOut, c09Wait),
					map[string]any{"goroutines": goroutineDump()})
			}
		}
		if wire != nil && c.Bad == "" {
			c.checkOutboundWire(wire, expectOut, fail)
		} else if wire != nil {
			// the connection may be torn down at any time by the offending inbound
			// segment: only integrity of what did arrive is required
			c.checkOutboundPrefix(wire, fail)
		}
		if c.Bad == "" {
			select {
			case <-senders:
			case <-stall:
				fail("C09:send:sender-blocked", "a sender is still blocked after the whole wire was received", map[string]any{"goroutines": goroutineDump()})
			}
			for i, err := range sendErrs {
				if err != nil {
					fail("C09:send:error", fmt.Sprintf("endpoint %s: %v", c.Eps[i], err), nil)
				}
			}
		}
	}

	// ---- inbound verdict ----
	if c.Bad == "unregistered-late" {
		// everything before the offending segment is written: wait until it has been
		// delivered, unregister the endpoint, then let the writer continue
		select {
		case <-reachedBad:
			if !waitCond(c09Wait, nil, progress, func() bool { return delivered.Load() >= int64(c.BadPos) }) {
				fail("C09:recv:stalled", fmt.Sprintf("only %d of the %d valid segments before the unregistration were delivered", delivered.Load(), c.BadPos), map[string]any{"goroutines": goroutineDump()})
			}
			m.UnregisterProtocol(c.Eps[c.BadEp].ID, c.Eps[c.BadEp].Role)
		case <-stall:
			fail("C09:recv:stalled", "the muxer stopped consuming a valid inbound stream", map[string]any{"goroutines": goroutineDump()})
		}
		close(resume)
	}
	if c.Family != "send" {
		if c.Bad == "" {
			// wait until the writer is done, then close the far end: the muxer
			// sees EOF, closes the receiver channels, receivers finish
			done := make(chan struct{})
			go func() { wg.Wait(); close(done) }()
			select {
			case <-done:
			case <-stall:
				fail("C09:recv:stalled", "the muxer stopped consuming a valid inbound stream", map[string]any{"goroutines": goroutineDump()})
			}
			_ = b.Close()
		}
		finished := 0
		timeout := stall
	waitRecv:
		for finished < k {
			select {
			case <-recvDone:
				finished++
			case <-timeout:
				break waitRecv
			}
		}
		if finished < k {
			if c.Bad != "" {
				fail("C09:bad:"+c.Bad+":not-closed", fmt.Sprintf("offending segment (%s) did not shut the muxer down: %d of %d receiver channels still open, nothing moved for %v", c.Bad, k-finished, k, c09Wait),
					map[string]any{"goroutines": goroutineDump()})
			} else {
				fail("C09:recv:not-closed-on-eof", "receiver channels not closed after the peer closed the connection", map[string]any{"goroutines": goroutineDump()})
			}
			m.Stop()
			_ = b.Close()
			// let the receivers end so that reading got[] below is race free
			for finished < k {
				select {
				case <-recvDone:
					finished++
				case <-stall:
					return
				}
			}
		}
		for i := range c.Eps {
			want := before[i]
			if c.Bad == "" && len(got[i]) != want {
				fail("C09:recv:count", fmt.Sprintf("endpoint %s received %d segments, %d were addressed to it", c.Eps[i], len(got[i]), want), nil)
			}
			if len(got[i]) > want {
				fail("C09:bad:"+c.Bad+":delivered-after", fmt.Sprintf("endpoint %s received %d segments but only %d precede the offending segment", c.Eps[i], len(got[i]), want), nil)
			}
			for j, g := range got[i] {
				if j >= len(c.In[i].Sizes) {
					break
				}
				exp := c.In[i].payload(j)
				if g.ID != c.Eps[i].ID || g.Response != c.Eps[i].inDir() {
					fail("C09:recv:misrouted", fmt.Sprintf("endpoint %s got a segment with header id=%d response=%v", c.Eps[i], g.ID, g.Response), nil)
					break
				}
				if int(g.Len) != len(g.Payload) || !bytes.Equal(g.Payload, exp) {
					fail("C09:recv:payload", fmt.Sprintf("endpoint %s segment #%d: got %d bytes (header says %d, fnv %x), want %d bytes (fnv %x)",
						c.Eps[i], j, len(g.Payload), g.Len, fnv64(g.Payload), len(exp), fnv64(exp)), nil)
					break
				}
			}
		}
	}

	// ---- shutdown and error channel verdict ----
	if c.Bad != "" {
		select {
		case <-farClosed:
		case <-stall:
			fail("C09:bad:"+c.Bad+":conn-open", "the connection was not closed after the offending segment", map[string]any{"goroutines": goroutineDump()})
		}
	}
	m.Stop()
	_ = b.Close()
	var errs []error
	select {
	case errs = <-muxErrs:
	case <-time.After(c09Wait + 60*time.Second): // teardown only
		classes = append(classes, "errorchan_not_closed")
	}
	var cce *muxer.ConnectionClosedError
	switch {
	case c.Bad != "":
		if len(errs) == 0 {
			fail("C09:bad:"+c.Bad+":no-error", "no error was reported on ErrorChan for the offending segment", nil)
		} else if errors.As(errs[0], &cce) || errors.Is(errs[0], io.EOF) {
			fail("C09:bad:"+c.Bad+":no-error", fmt.Sprintf("the only error is the connection close itself: %v", errs[0]), nil)
		}
	case c.Family == "send":
		for _, e := range errs {
			fail("C09:send:muxer-error", fmt.Sprintf("muxer reported %v while only sending", e), nil)
		}
	default:
		// valid inbound stream ended by the far end closing: exactly the close is reported
		for _, e := range errs {
			if !errors.As(e, &cce) {
				fail("C09:recv:muxer-error", fmt.Sprintf("muxer reported %q on a valid inbound stream", e.Error()), nil)
			}
		}
	}
	return
}

// checkOutboundWire: the complete capture must parse (with the harness's own
// parser) into exactly the segments sent, per endpoint in order, unmodified.
func (c *c09Case) checkOutboundWire(wire []byte, expect int, fail func(string, string, map[string]any)) {
	if len(wire) != expect {
		fail("C09:send:wire-length", fmt.Sprintf("wire has %d bytes, the segments sent add up to %d", len(wire), expect), nil)
		return
	}
	segs, rest := rawpeer.ParseSegs(wire)
	if len(rest) != 0 {
		fail("C09:send:wire-framing", fmt.Sprintf("wire does not parse as whole segments: %d trailing bytes after %d segments", len(rest), len(segs)), nil)
		return
	}
	c.matchOutbound(segs, true, fail)
}

func (c *c09Case) checkOutboundPrefix(wire []byte, fail func(string, string, map[string]any)) {
	segs, _ := rawpeer.ParseSegs(wire)
	c.matchOutbound(segs, false, fail)
}

func (c *c09Case) matchOutbound(segs []rawpeer.Seg, complete bool, fail func(string, string, map[string]any)) {
	next := make([]int, len(c.Eps))
	find := func(id uint16, resp bool) int {
		for i, e := range c.Eps {
			if e.ID == id && e.outDir() == resp {
				return i
			}
		}
		return -1
	}
	for n, s := range segs {
		i := find(s.ProtoID, s.Response)
		if i < 0 {
			fail("C09:send:foreign-segment", fmt.Sprintf("wire segment #%d has id=%d response=%v which no sender uses", n, s.ProtoID, s.Response), nil)
			return
		}
		j := next[i]
		if j >= len(c.Out[i].Sizes) {
			fail("C09:send:surplus-segment", fmt.Sprintf("endpoint %s: more segments on the wire than sent", c.Eps[i]), nil)
			return
		}
		if len(s.Payload) == 0 || len(s.Payload) > 65535 {
			fail("C09:send:segment-size", fmt.Sprintf("segment with %d payload bytes on the wire", len(s.Payload)), nil)
			return
		}
		if exp := c.Out[i].payload(j); !bytes.Equal(s.Payload, exp) {
			fail("C09:send:payload", fmt.Sprintf("endpoint %s segment #%d on the wire: %d bytes fnv %x, sent %d bytes fnv %x (modified, torn or reordered)",
				c.Eps[i], j, len(s.Payload), fnv64(s.Payload), len(exp), fnv64(exp)), nil)
			return
		}
		next[i]++
	}
	if complete {
		for i := range c.Eps {
			if next[i] != len(c.Out[i].Sizes) {
				fail("C09:send:missing-segment", fmt.Sprintf("endpoint %s: %d of %d segments on the wire", c.Eps[i], next[i], len(c.Out[i].Sizes)), nil)
			}
		}
	}
}

func TestC09(t *testing.T) {
	rec := evi.New(t, "C09", evi.Exploration,
		"each case: 1..6 endpoints with distinct (protocol id, role) registered on a real muxer over rawpeer.Pipe; family send = every endpoint has its own goroutine pushing 1..8 segments (payload 1..65535 bytes, biased to 1,2,8,255,65534,65535) through its channel or Muxer.Send while the connection splits writes, far end = harness de-framer; family recv = harness-framed generated interleaving for the registered receivers written in generated pieces and read by the muxer in generated chunk sizes (1-byte, <8, around 8, mixed), in 40% of the cases with one offending segment (zero length / unregistered id / registered id with the direction of an unregistered role) inserted at a generated position; family duplex = both at once. Non-trivial: >=2 endpoints active in the exercised direction, or a read/write boundary inside a segment header, or an offending segment. Distinct by (family, endpoints, all payload sizes, interleaving, fragmentation plans, offending segment).")
	defer rec.Finish()
	rec.Assume(
		"rawpeer.Frame/ParseSegs (harness framing written from the network spec: 4-byte timestamp, 2-byte id|direction, 2-byte length) is the reference for the wire format",
		"protocol ids are < 0x8000 and the catch-all id muxer.ProtocolUnknown is not registered (as in every caller inside the library)",
		"interleavings are sampled (GOMAXPROCS, yields, write splitting, read chunking drawn per case; race detector in the thorough tier), not enumerated",
		"a connection may legally split one Write call into several partial writes (net.Conn gives no atomicity for concurrent writers)",
	)

	// NewSegment length guard: every size 0..65535 gives an exact header, larger gives nil
	{
		buf := make([]byte, 70001)
		bad := 0
		for n := 0; n <= 70001; n++ {
			if n > 66000 && n < 70000 {
				continue
			}
			resp := n%2 == 1
			id := uint16(n % 0x8000)
			seg := muxer.NewSegment(id, buf[:n], resp)
			if n > 65535 {
				if seg != nil && bad == 0 {
					bad++
					rec.Violation("C09:newsegment:oversize-accepted", fmt.Sprintf("NewSegment with %d payload bytes returned a segment (header length %d)", n, seg.PayloadLength), map[string]any{"n": n})
				}
				continue
			}
			if seg == nil || int(seg.PayloadLength) != n || len(seg.Payload) != n || seg.GetProtocolId() != id || seg.IsResponse() != resp || seg.IsRequest() == resp {
				if bad == 0 {
					bad++
					rec.Violation("C09:newsegment:header", fmt.Sprintf("NewSegment(id=%d, %d bytes, response=%v) gave %+v", id, n, resp, seg), map[string]any{"n": n})
				}
			}
		}
		rec.Eval()
		rec.SetExtra("newsegment_sizes_swept", 66001+2)
	}

	// deterministic boundary sweep on the lifecycle engine: ids 0 and 0x7fff in both
	// roles plus a third protocol, every special payload size in both directions, write
	// boundaries at header-1 / header / header+1 / 1 / end-1 of every segment, four
	// read fragmentations, three write splittings of the muxer's own connection
	{
		n := 0
		for _, deltas := range [][]int{{7}, {8}, {9}, {1, -1}, {7, 8, 9, -1}} {
			for pi, chunks := range [][]int{nil, {1}, {7, 9}, {8}} {
				split := [][]int{nil, {8, 70000}, {7, 70000}, {9, 70000}}[pi]
				lc := lifeSweepCase(deltas, chunks, split, fmt.Sprintf("boundary sweep deltas=%v read-chunks=%v split=%v", deltas, chunks, split))
				lc.Procs = runtime.GOMAXPROCS(0)
				fails := runLifeCase(lc)
				rec.Eval()
				n++
				rec.NonTrivial(lc.Label, lc.describe())
				for _, f := range fails {
					rec.Violation(f.key, f.what, f.cs)
				}
				c09Failed.Store(false)
			}
		}
		rec.SetExtra("boundary_sweep_cases", n)
		rec.SetExtra("boundary_sweep_payload_sizes", specialSegSizes)
	}

	rec.Check(func(rt *rapid.T) {
		if rapid.IntRange(0, 9).Draw(rt, "lifecycle") < 3 {
			lc := genLifeCase(rt)
			procs, restore := setProcs(rt)
			lc.Procs = procs
			fails := runLifeCase(lc)
			restore()
			rec.Eval()
			rec.Class("family_lifecycle")
			rec.Class("life_final_" + lc.Final)
			unreg, rereg := 0, 0
			for _, st := range lc.Steps {
				switch st.Kind {
				case "unreg":
					unreg++
					if st.Ep < 2 {
						rec.Class("life_unreg_one_role_of_shared_id")
					}
				case "rereg":
					rereg++
				}
			}
			if unreg > 0 {
				rec.Class("life_with_unregister")
			}
			if rereg > 0 {
				rec.Class("life_with_reregister")
			}
			if lc.CutDeltas != nil {
				rec.Class("life_boundary_cuts")
			}
			if len(lc.Eps) >= 3 {
				rec.Class("life_ge_3_endpoints")
			}
			d := lc.describe()
			rec.NonTrivial(fmt.Sprintf("%v", d), d)
			for _, f := range fails {
				rec.Fail(rt, f.key, f.what, f.cs)
			}
			c09Failed.Store(false)
			return
		}
		c := genC09Case(rt, rec.Thorough())
		procs, restore := setProcs(rt)
		c.Procs = procs
		fails, classes, headerCut := runC09Case(c)
		restore()
		rec.Eval()
		rec.Class("family_" + c.Family)
		rec.Class(fmt.Sprintf("endpoints_%d", len(c.Eps)))
		for _, cl := range classes {
			rec.Class(cl)
		}
		if c.Bad != "" {
			rec.Class("bad_" + c.Bad)
		}
		nontrivial := c.Bad != "" || len(c.Eps) >= 2
		if c.Family != "send" {
			if planSplitsHeader(c.PlanA) {
				rec.Class("muxer_reads_lt8")
				nontrivial = true
			}
			if headerCut {
				rec.Class("write_cut_inside_header")
				nontrivial = true
			}
			for i := range c.In {
				for _, s := range c.In[i].Sizes {
					if s >= 65534 {
						rec.Class("in_seg_ge_65534")
					}
					if s == 1 {
						rec.Class("in_seg_1")
					}
				}
			}
		}
		if c.Family != "recv" {
			if len(c.Split) > 0 {
				rec.Class("conn_splits_writes")
			}
			direct := 0
			for _, m := range c.SendMode {
				direct += m
			}
			if direct > 0 && direct < len(c.SendMode) {
				rec.Class("send_mixed_channel_and_direct")
			}
			for i := range c.Out {
				for _, s := range c.Out[i].Sizes {
					if s >= 65534 {
						rec.Class("out_seg_ge_65534")
					}
					if s == 1 {
						rec.Class("out_seg_1")
					}
				}
			}
		}
		if nontrivial {
			d := c.describe()
			rec.NonTrivial(fmt.Sprintf("%v", d), d)
		}
		for _, f := range fails {
			rec.Fail(rt, f.key, f.what, f.cs)
		}
		c09Failed.Store(false) // reached only if every failure was a listed finding
	})
}
