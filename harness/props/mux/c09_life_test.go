package mux

import (
	"bytes"
	"errors"
	"fmt"
	"io"
	"sync"
	"sync/atomic"
	"time"

	"github.com/blinklabs-io/gouroboros/muxer"
	"pgregory.net/rapid"

	"verif/harness/internal/rawpeer"
)

// C09, family "lifecycle": a sequential history on ONE long-lived muxer. Steps are
// traffic (inbound segments for the currently registered endpoints and outbound
// sends from them, both at once), UnregisterProtocol of one endpoint, and
// RegisterProtocol of a previously unregistered (id, role) again. After every step
// the harness waits (progress based) until the step's traffic has arrived, so what
// must be delivered to which registration is exactly known. The endpoint set always
// contains both roles of one protocol id, so that unregistering one role while the
// other keeps receiving is exercised. The history ends with the far end closing,
// with a segment for a currently unregistered endpoint, or with a segment cut off in
// the middle followed by the close.
//
// The same engine runs the deterministic boundary sweep (special payload sizes,
// write boundaries at and next to the header/payload boundaries, ids 0 and 0x7fff
// in both roles).

type lifeSeg struct {
	Ep   int
	Size int
	Seed uint64
}

func (s lifeSeg) payload() []byte { return fill(s.Seed, s.Size) }

type lifeStep struct {
	Kind string // traffic | unreg | rereg
	Ep   int
	In   []lifeSeg
	Out  []lifeSeg
}

type lifeCase struct {
	Eps       []c09Endpoint
	Steps     []lifeStep
	Final     string // close | unregistered | truncated
	FinalSeg  lifeSeg
	TruncAt   int   // truncated: bytes of the framed final segment that are written before the close
	SendMode  []int // per endpoint: 0 channel, 1 Muxer.Send then overwrite the payload, 2 channel + delivery report then overwrite the payload
	RecvMode  []int // per endpoint: 0 copy on receipt, 1 keep the segment and read it at the end, 2 copy then overwrite the received payload
	Cuts      []int // cycled write sizes for the inbound wire (nil: one write per step)
	CutDeltas []int // if set: write boundaries at segmentStart+delta (delta<0: relative to the segment end) instead of Cuts
	Split     []int
	Diffusion muxer.DiffusionMode
	PlanA     *rawpeer.SeqPlan
	PlanB     *rawpeer.SeqPlan
	planA     string
	planB     string
	Procs     int
	Label     string // fixed cases
}

func (c *lifeCase) describe() map[string]any {
	eps := make([]string, len(c.Eps))
	for i, e := range c.Eps {
		eps[i] = e.String()
	}
	var steps []string
	for _, s := range c.Steps {
		switch s.Kind {
		case "traffic":
			in, out := "", ""
			for _, g := range s.In {
				in += fmt.Sprintf(" %s:%d", c.Eps[g.Ep], g.Size)
			}
			for _, g := range s.Out {
				out += fmt.Sprintf(" %s:%d", c.Eps[g.Ep], g.Size)
			}
			steps = append(steps, "traffic in["+in+" ] out["+out+" ]")
		default:
			steps = append(steps, s.Kind+" "+c.Eps[s.Ep].String())
		}
	}
	m := map[string]any{
		"family": "lifecycle", "endpoints": eps, "steps": steps, "final": c.Final,
		"send_mode": c.SendMode, "recv_mode": c.RecvMode, "write_cuts": c.Cuts, "cut_deltas": c.CutDeltas,
		"conn_write_split": c.Split, "diffusion": int(c.Diffusion), "muxer_read_plan": c.planA,
		"far_end_read_plan": c.planB, "gomaxprocs": c.Procs,
	}
	if c.Final != "close" {
		m["final_segment"] = fmt.Sprintf("%s:%d truncated_at=%d", c.Eps[c.FinalSeg.Ep], c.FinalSeg.Size, c.TruncAt)
	}
	if c.Label != "" {
		m["label"] = c.Label
	}
	return m
}

func genLifeCase(rt *rapid.T) *lifeCase {
	c := &lifeCase{}
	// endpoints: both roles of one id, plus 0..3 others
	base := rapid.SampledFrom([]uint16{0, 2, 3, 0x7fff}).Draw(rt, "baseId")
	c.Eps = []c09Endpoint{{base, muxer.ProtocolRoleInitiator}, {base, muxer.ProtocolRoleResponder}}
	extra := rapid.IntRange(0, 3).Draw(rt, "extraEps")
	for len(c.Eps) < 2+extra {
		e := c09Endpoint{ID: rapid.SampledFrom([]uint16{0, 1, 2, 3, 5, 8, 0x7ffe, 0x7fff}).Draw(rt, "epId"), Role: muxer.ProtocolRoleInitiator}
		if rapid.Bool().Draw(rt, "epResp") {
			e.Role = muxer.ProtocolRoleResponder
		}
		dup := false
		for _, f := range c.Eps {
			if f == e {
				dup = true
			}
		}
		if !dup {
			c.Eps = append(c.Eps, e)
		}
	}
	k := len(c.Eps)
	c.Diffusion = rapid.SampledFrom([]muxer.DiffusionMode{muxer.DiffusionModeNone, muxer.DiffusionModeInitiatorAndResponder}).Draw(rt, "diffusion")
	c.PlanA, c.planA = genPlan(rt, "a")
	c.PlanB, c.planB = genPlan(rt, "b")
	if rapid.Bool().Draw(rt, "splitWrites") {
		c.Split = []int{rapid.SampledFrom([]int{1, 7, 8, 9, 64, 1000}).Draw(rt, "split"), 30000}
	}
	switch rapid.IntRange(0, 3).Draw(rt, "cutKind") {
	case 0:
	case 1:
		n := rapid.IntRange(1, 4).Draw(rt, "nCuts")
		for i := 0; i < n; i++ {
			c.Cuts = append(c.Cuts, rapid.SampledFrom([]int{1, 3, 7, 8, 9, 64, 500, 4000, 70000}).Draw(rt, "cut"))
		}
	default:
		c.CutDeltas = rapid.SliceOfNDistinct(rapid.SampledFrom([]int{1, 7, 8, 9, -1}), 1, 4, func(v int) int { return v }).Draw(rt, "cutDeltas")
	}
	if len(c.Split) > 0 && c.Split[0] < 1500 {
		c.planA = noSleep(c.PlanA)
	}
	if c.Cuts != nil || c.CutDeltas != nil {
		c.planB = noSleep(c.PlanB)
	}
	volume := volumeFor(250_000, c.PlanA.Chunks, c.PlanB.Chunks, c.Split, c.Cuts)
	for i := 0; i < k; i++ {
		c.SendMode = append(c.SendMode, rapid.IntRange(0, 2).Draw(rt, "sendMode"))
		c.RecvMode = append(c.RecvMode, rapid.IntRange(0, 2).Draw(rt, "recvMode"))
	}
	reg := make([]bool, k)
	for i := range reg {
		reg[i] = true
	}
	nReg := k
	genSeg := func(e int) lifeSeg {
		sz := genSegSize(rt, volume > 70000)
		volume -= sz
		return lifeSeg{Ep: e, Size: sz, Seed: rapid.Uint64().Draw(rt, "seed")}
	}
	registered := func() []int {
		var out []int
		for i, r := range reg {
			if r {
				out = append(out, i)
			}
		}
		return out
	}
	traffic := func(must []int) lifeStep {
		st := lifeStep{Kind: "traffic"}
		rs := registered()
		nIn := rapid.IntRange(0, 6).Draw(rt, "nIn")
		nOut := rapid.IntRange(0, 4).Draw(rt, "nOut")
		for _, e := range must { // endpoints that have to see traffic in both directions in this step
			st.In = append(st.In, genSeg(e))
			st.Out = append(st.Out, genSeg(e))
		}
		for i := 0; i < nIn; i++ {
			st.In = append(st.In, genSeg(rs[rapid.IntRange(0, len(rs)-1).Draw(rt, "inEp")]))
		}
		for i := 0; i < nOut; i++ {
			st.Out = append(st.Out, genSeg(rs[rapid.IntRange(0, len(rs)-1).Draw(rt, "outEp")]))
		}
		// generated interleaving of the inbound segments
		if len(st.In) > 1 {
			perm := rapid.Permutation(st.In).Draw(rt, "inOrder")
			st.In = perm
		}
		return st
	}
	c.Steps = append(c.Steps, traffic(nil))
	nSteps := rapid.IntRange(2, 8).Draw(rt, "nSteps")
	for len(c.Steps) < nSteps+1 {
		kind := rapid.IntRange(0, 9).Draw(rt, "stepKind")
		switch {
		case kind < 4 && nReg > 1:
			// unregister; prefer one role of the id that has both
			cand := registered()
			e := cand[rapid.IntRange(0, len(cand)-1).Draw(rt, "unregEp")]
			if rapid.IntRange(0, 9).Draw(rt, "unregBase") < 7 {
				if reg[0] && reg[1] {
					e = rapid.IntRange(0, 1).Draw(rt, "unregBaseRole")
				}
			}
			reg[e] = false
			nReg--
			c.Steps = append(c.Steps, lifeStep{Kind: "unreg", Ep: e})
			// the other role of the same id (if registered) must keep working
			var must []int
			for i, f := range c.Eps {
				if reg[i] && f.ID == c.Eps[e].ID {
					must = append(must, i)
				}
			}
			c.Steps = append(c.Steps, traffic(must))
		case kind < 7 && nReg < k:
			var cand []int
			for i, r := range reg {
				if !r {
					cand = append(cand, i)
				}
			}
			e := cand[rapid.IntRange(0, len(cand)-1).Draw(rt, "reregEp")]
			reg[e] = true
			nReg++
			c.Steps = append(c.Steps, lifeStep{Kind: "rereg", Ep: e})
			c.Steps = append(c.Steps, traffic([]int{e}))
		default:
			c.Steps = append(c.Steps, traffic(nil))
		}
	}
	finals := []string{"close", "truncated", "truncated"}
	if nReg < k {
		finals = append(finals, "unregistered", "unregistered")
	}
	c.Final = rapid.SampledFrom(finals).Draw(rt, "final")
	switch c.Final {
	case "unregistered":
		var cand []int
		for i, r := range reg {
			if !r {
				cand = append(cand, i)
			}
		}
		c.FinalSeg = lifeSeg{Ep: cand[rapid.IntRange(0, len(cand)-1).Draw(rt, "finalEp")], Size: rapid.IntRange(1, 300).Draw(rt, "finalSize"), Seed: rapid.Uint64().Draw(rt, "seed")}
	case "truncated":
		rs := registered()
		c.FinalSeg = lifeSeg{Ep: rs[rapid.IntRange(0, len(rs)-1).Draw(rt, "finalEp")], Size: rapid.SampledFrom([]int{1, 2, 8, 9, 64, 300, 5000}).Draw(rt, "finalSize"), Seed: rapid.Uint64().Draw(rt, "seed")}
		total := 8 + c.FinalSeg.Size
		c.TruncAt = rapid.SampledFrom([]int{1, 4, 7, 8, 9, total / 2, total - 1}).Draw(rt, "truncAt")
		if c.TruncAt >= total {
			c.TruncAt = total - 1
		}
		if c.TruncAt < 1 {
			c.TruncAt = 1
		}
	}
	return c
}

// lifeSweepCase builds the deterministic boundary sweep: ids 0 and 0x7fff in both
// roles plus a third protocol, every special payload size once inbound and once
// outbound, write boundaries at the given offsets of every segment.
func lifeSweepCase(deltas []int, chunks []int, split []int, label string) *lifeCase {
	c := &lifeCase{
		Eps: []c09Endpoint{{0, muxer.ProtocolRoleInitiator}, {0, muxer.ProtocolRoleResponder},
			{0x7fff, muxer.ProtocolRoleInitiator}, {0x7fff, muxer.ProtocolRoleResponder}, {5, muxer.ProtocolRoleInitiator}},
		Final: "close", Diffusion: muxer.DiffusionModeInitiatorAndResponder, CutDeltas: deltas, Split: split,
		PlanA: &rawpeer.SeqPlan{Chunks: chunks}, PlanB: &rawpeer.SeqPlan{}, Label: label,
		SendMode: []int{0, 1, 2, 1, 0}, RecvMode: []int{0, 1, 2, 1, 0},
	}
	c.planA = fmt.Sprintf("chunks=%v yields=[]", chunks)
	c.planB = "chunks=[] yields=[]"
	st := lifeStep{Kind: "traffic"}
	for i, sz := range specialSegSizes {
		st.In = append(st.In, lifeSeg{Ep: i % len(c.Eps), Size: sz, Seed: uint64(1000 + i*4)}) // seeds = 0 mod 4: special timestamps
		st.Out = append(st.Out, lifeSeg{Ep: (i + 2) % len(c.Eps), Size: sz, Seed: uint64(5000 + i)})
	}
	c.Steps = []lifeStep{st}
	return c
}

type lifeGot struct {
	seg      *muxer.Segment
	cp       []byte
	id       uint16
	response bool
	length   uint16
}

type lifeReg struct {
	sendCh chan *muxer.Segment
	recvCh chan *muxer.Segment
	done   chan struct{}
	mu     sync.Mutex
	got    []lifeGot
}

var c09LifeStats struct {
	unregSiblingTraffic, rereg, scribbled, lazy atomic.Int64
}

func runLifeCase(c *lifeCase) (fails []c09Fail) {
	patience := c09Patience()
	fail := func(key, what string, extra map[string]any) {
		cs := c.describe()
		for k, v := range extra {
			cs[k] = v
		}
		fails = append(fails, c09Fail{key, what, cs})
		c09Failed.Store(true)
	}
	k := len(c.Eps)
	a, b := rawpeer.Pipe(c.PlanA, c.PlanB)
	tap := &tapConn{Conn: a, split: c.Split}
	m := muxer.New(tap)
	m.SetDiffusionMode(c.Diffusion)

	var delivered, farLen atomic.Int64
	progress := func() int64 { return tap.nRead.Load() + tap.nWritten.Load() + farLen.Load() + delivered.Load() }
	stall, stopStall := stallChan(patience, progress)
	defer stopStall()

	// far end: collect everything the muxer writes
	var farMu sync.Mutex
	var farWire []byte
	farClosed := make(chan struct{})
	go func() {
		buf := make([]byte, 70000)
		for {
			n, err := b.Read(buf)
			if n > 0 {
				farMu.Lock()
				farWire = append(farWire, buf[:n]...)
				farMu.Unlock()
				farLen.Add(int64(n))
			}
			if err != nil {
				close(farClosed)
				return
			}
		}
	}()
	muxErrs := make(chan []error, 1)
	go func() {
		errs, _ := drainErrs(m.ErrorChan(), 15*time.Minute)
		muxErrs <- errs
	}()

	regs := make([][]*lifeReg, k) // per endpoint: registrations in order
	expect := make([][][]lifeSeg, k)
	register := func(e int) bool {
		s, r, d := m.RegisterProtocol(c.Eps[e].ID, c.Eps[e].Role)
		if s == nil || r == nil || d == nil {
			fail("C09:life:register-nil", fmt.Sprintf("RegisterProtocol(%s) returned nil channels on a running muxer", c.Eps[e]), nil)
			return false
		}
		lr := &lifeReg{sendCh: s, recvCh: r, done: make(chan struct{})}
		regs[e] = append(regs[e], lr)
		expect[e] = append(expect[e], nil)
		mode := c.RecvMode[e]
		go func() {
			defer close(lr.done)
			for seg := range lr.recvCh {
				g := lifeGot{id: seg.GetProtocolId(), response: seg.IsResponse(), length: seg.PayloadLength}
				switch mode {
				case 1:
					g.seg = seg // read at the very end: a later segment must not change it
				case 2:
					g.cp = append([]byte(nil), seg.Payload...)
					for i := range seg.Payload { // the receiver owns what it was handed
						seg.Payload[i] = ^seg.Payload[i]
					}
				default:
					g.cp = append([]byte(nil), seg.Payload...)
				}
				lr.mu.Lock()
				lr.got = append(lr.got, g)
				lr.mu.Unlock()
				delivered.Add(1)
			}
		}()
		return true
	}
	cur := func(e int) *lifeReg { return regs[e][len(regs[e])-1] }
	for e := range c.Eps {
		if !register(e) {
			m.Stop()
			_ = b.Close()
			return
		}
	}
	m.Start()

	// writeInbound writes framed segments with the case's write boundaries
	writeInbound := func(segs []rawpeer.Seg, limit int) error {
		var wire []byte
		var cuts []int
		for _, s := range segs {
			start := len(wire)
			f := rawpeer.Frame(s)
			wire = append(wire, f...)
			for _, d := range c.CutDeltas {
				off := start + d
				if d < 0 {
					off = start + len(f) + d
				}
				if off > start && off < start+len(f) {
					cuts = append(cuts, off)
				}
			}
			if c.CutDeltas != nil {
				cuts = append(cuts, start+len(f))
			}
		}
		if limit >= 0 && limit < len(wire) {
			wire = wire[:limit]
		}
		cuts = sortedInts(cuts)
		pos, ci := 0, 0
		for pos < len(wire) {
			end := len(wire)
			if c.CutDeltas != nil {
				// next boundary after pos
				for _, x := range cuts {
					if x > pos && x < end {
						end = x
						break
					}
				}
			} else if len(c.Cuts) > 0 {
				if v := c.Cuts[ci%len(c.Cuts)]; pos+v < end {
					end = pos + v
				}
				ci++
			}
			if _, err := b.Write(wire[pos:end]); err != nil {
				return err
			}
			pos = end
		}
		return nil
	}

	totalIn, totalOut := 0, 0
	var outSent [][]lifeSeg = make([][]lifeSeg, k)
	registered := make([]bool, k)
	for i := range registered {
		registered[i] = true
	}
	aborted := false
stepLoop:
	for si, st := range c.Steps {
		switch st.Kind {
		case "unreg":
			m.UnregisterProtocol(c.Eps[st.Ep].ID, c.Eps[st.Ep].Role)
			registered[st.Ep] = false
			select {
			case <-cur(st.Ep).done:
			case <-stall:
				fail("C09:life:unregister-channel-open", fmt.Sprintf("step %d: receiver channel of %s was not closed by UnregisterProtocol", si, c.Eps[st.Ep]), map[string]any{"goroutines": goroutineDump()})
				aborted = true
				break stepLoop
			}
		case "rereg":
			if !register(st.Ep) {
				aborted = true
				break stepLoop
			}
			registered[st.Ep] = true
			c09LifeStats.rereg.Add(1)
		case "traffic":
			var wg sync.WaitGroup
			var inSegs []rawpeer.Seg
			for _, g := range st.In {
				inSegs = append(inSegs, rawpeer.Seg{Timestamp: tsFromSeed(g.Seed), ProtoID: c.Eps[g.Ep].ID, Response: c.Eps[g.Ep].inDir(), Payload: g.payload()})
				expect[g.Ep][len(expect[g.Ep])-1] = append(expect[g.Ep][len(expect[g.Ep])-1], g)
				totalIn++
			}
			var writeErr error
			wg.Add(1)
			go func() { defer wg.Done(); writeErr = writeInbound(inSegs, -1) }()
			perEp := make([][]lifeSeg, k)
			for _, g := range st.Out {
				perEp[g.Ep] = append(perEp[g.Ep], g)
				outSent[g.Ep] = append(outSent[g.Ep], g)
				totalOut += 8 + g.Size
			}
			sendErr := make([]error, k)
			for e := range perEp {
				if len(perEp[e]) == 0 {
					continue
				}
				wg.Add(1)
				go func(e int) {
					defer wg.Done()
					lr := cur(e)
					for _, g := range perEp[e] {
						p := g.payload()
						seg := muxer.NewSegment(c.Eps[e].ID, p, c.Eps[e].outDir())
						if seg == nil {
							sendErr[e] = fmt.Errorf("NewSegment(%d bytes) returned nil", g.Size)
							return
						}
						switch c.SendMode[e] {
						case 1:
							if err := m.Send(seg); err != nil {
								sendErr[e] = err
								return
							}
						case 2:
							dc := make(chan error, 1)
							seg.SetDeliveryChan(dc)
							lr.sendCh <- seg
							select {
							case err := <-dc:
								if err != nil {
									sendErr[e] = fmt.Errorf("delivery report: %w", err)
									return
								}
							case <-stall:
								sendErr[e] = errors.New("no delivery report for a queued segment")
								return
							}
						default:
							lr.sendCh <- seg
							continue
						}
						// the segment has been written to the connection: the caller may reuse its buffer
						for i := range p {
							p[i] = ^p[i]
						}
						c09LifeStats.scribbled.Add(1)
					}
				}(e)
			}
			wgDone := make(chan struct{})
			go func() { wg.Wait(); close(wgDone) }()
			select {
			case <-wgDone:
			case <-stall:
				fail("C09:life:stalled", fmt.Sprintf("step %d: writer/senders blocked, nothing moved for %v", si, patience), map[string]any{"goroutines": goroutineDump()})
				aborted = true
				break stepLoop
			}
			if writeErr != nil {
				fail("C09:life:conn-closed", fmt.Sprintf("step %d: the muxer closed the connection during valid traffic: %v", si, writeErr), nil)
				aborted = true
				break stepLoop
			}
			for e, err := range sendErr {
				if err != nil {
					fail("C09:life:send-error", fmt.Sprintf("step %d endpoint %s: %v", si, c.Eps[e], err), nil)
					aborted = true
				}
			}
			if aborted {
				break stepLoop
			}
			if !waitCond(patience, farClosed, progress, func() bool {
				return delivered.Load() >= int64(totalIn) && farLen.Load() >= int64(totalOut)
			}) {
				what := fmt.Sprintf("step %d: %d of %d inbound segments delivered, %d of %d outbound bytes on the wire, then nothing moved for %v", si, delivered.Load(), totalIn, farLen.Load(), totalOut, patience)
				var errs []error
				select {
				case e, ok := <-m.ErrorChan():
					if ok {
						errs = append(errs, e)
					}
				default:
				}
				if len(errs) > 0 {
					what += fmt.Sprintf("; muxer error: %v", errs[0])
				}
				fail("C09:life:not-delivered", what, map[string]any{"goroutines": goroutineDump()})
				aborted = true
				break stepLoop
			}
			if si > 0 && c.Steps[si-1].Kind == "unreg" {
				c09LifeStats.unregSiblingTraffic.Add(1)
			}
		}
	}

	// ---- final step ----
	deliveredBefore := delivered.Load()
	if !aborted {
		switch c.Final {
		case "close":
			_ = b.Close()
		case "unregistered":
			g := c.FinalSeg
			_ = writeInbound([]rawpeer.Seg{{ProtoID: c.Eps[g.Ep].ID, Response: c.Eps[g.Ep].inDir(), Payload: g.payload()}}, -1)
		case "truncated":
			g := c.FinalSeg
			_ = writeInbound([]rawpeer.Seg{{Timestamp: tsFromSeed(g.Seed), ProtoID: c.Eps[g.Ep].ID, Response: c.Eps[g.Ep].inDir(), Payload: g.payload()}}, c.TruncAt)
			_ = b.Close()
		}
		// every open receiver channel must get closed
		for e := range c.Eps {
			if !registered[e] {
				continue
			}
			select {
			case <-cur(e).done:
			case <-stall:
				fail("C09:life:final-"+c.Final+":not-closed", fmt.Sprintf("receiver channel of %s still open after the final step (%s)", c.Eps[e], c.Final), map[string]any{"goroutines": goroutineDump()})
				aborted = true
			}
			if aborted {
				break
			}
		}
		if !aborted && c.Final == "unregistered" {
			select {
			case <-farClosed:
			case <-stall:
				fail("C09:life:final-unregistered:conn-open", "the connection was not closed after a segment for an unregistered endpoint", nil)
			}
		}
		if !aborted && delivered.Load() != deliveredBefore {
			fail("C09:life:final-"+c.Final+":delivered", fmt.Sprintf("the final (%s) segment was delivered to a receiver", c.Final), nil)
		}
	}
	m.Stop()
	_ = b.Close()
	// let all receiver goroutines end (channels are closed by the muxer's shutdown)
	teardown := patience + 60*time.Second
	if aborted {
		teardown = 3 * time.Second // a verdict exists already; do not let shrinking crawl
	}
	for e := range regs {
		for _, lr := range regs[e] {
			select {
			case <-lr.done:
			case <-time.After(teardown):
				return
			}
		}
	}
	var errs []error
	select {
	case errs = <-muxErrs:
	case <-time.After(patience + 60*time.Second):
	}
	if aborted {
		return
	}
	var cce *muxer.ConnectionClosedError
	switch c.Final {
	case "unregistered":
		if len(errs) == 0 || errors.As(errs[0], &cce) || errors.Is(errs[0], io.EOF) {
			fail("C09:life:final-unregistered:no-error", fmt.Sprintf("errors reported: %v", errs), nil)
		}
	case "close":
		for _, e := range errs {
			if !errors.As(e, &cce) {
				fail("C09:life:muxer-error", fmt.Sprintf("muxer reported %q in a history of valid traffic", e.Error()), nil)
			}
		}
	}
	// ---- what every registration received ----
	for e := range c.Eps {
		for gi, lr := range regs[e] {
			want := expect[e][gi]
			lr.mu.Lock()
			got := lr.got
			lr.mu.Unlock()
			where := fmt.Sprintf("endpoint %s registration #%d", c.Eps[e], gi)
			if len(got) != len(want) {
				fail("C09:life:count", fmt.Sprintf("%s received %d segments, %d were addressed to it while it was registered", where, len(got), len(want)), nil)
			}
			for j := 0; j < len(got) && j < len(want); j++ {
				g := got[j]
				if g.id != c.Eps[e].ID || g.response != c.Eps[e].inDir() {
					fail("C09:life:misrouted", fmt.Sprintf("%s got a segment with header id=%d response=%v", where, g.id, g.response), nil)
					break
				}
				p := g.cp
				lazy := ""
				if g.seg != nil {
					p = g.seg.Payload
					lazy = " (segment kept by the receiver and read after all later traffic)"
					c09LifeStats.lazy.Add(1)
				}
				exp := want[j].payload()
				if int(g.length) != len(exp) || !bytes.Equal(p, exp) {
					fail("C09:life:payload", fmt.Sprintf("%s segment #%d: %d bytes (header %d, fnv %x), want %d bytes (fnv %x)%s", where, j, len(p), g.length, fnv64(p), len(exp), fnv64(exp), lazy), nil)
					break
				}
			}
		}
	}
	// ---- outbound wire ----
	farMu.Lock()
	wire := append([]byte(nil), farWire...)
	farMu.Unlock()
	segs, rest := rawpeer.ParseSegs(wire)
	if len(rest) != 0 && len(wire) <= totalOut {
		fail("C09:life:wire-framing", fmt.Sprintf("outbound wire does not parse as whole segments: %d trailing bytes", len(rest)), nil)
	}
	next := make([]int, k)
	for n, s := range segs {
		e := -1
		for i, ep := range c.Eps {
			if ep.ID == s.ProtoID && ep.outDir() == s.Response {
				e = i
			}
		}
		if e < 0 {
			fail("C09:life:foreign-segment", fmt.Sprintf("outbound wire segment #%d has id=%d response=%v which no sender uses", n, s.ProtoID, s.Response), nil)
			break
		}
		if next[e] >= len(outSent[e]) {
			fail("C09:life:surplus-segment", fmt.Sprintf("endpoint %s: more segments on the wire than sent", c.Eps[e]), nil)
			break
		}
		exp := outSent[e][next[e]].payload()
		if !bytes.Equal(s.Payload, exp) {
			fail("C09:life:wire-payload", fmt.Sprintf("endpoint %s outbound segment #%d: %d bytes fnv %x on the wire, sent %d bytes fnv %x (send mode %d)", c.Eps[e], next[e], len(s.Payload), fnv64(s.Payload), len(exp), fnv64(exp), c.SendMode[e]), nil)
			break
		}
		next[e]++
	}
	for e := range c.Eps {
		if next[e] != len(outSent[e]) && len(fails) == 0 {
			fail("C09:life:missing-segment", fmt.Sprintf("endpoint %s: %d of %d outbound segments on the wire", c.Eps[e], next[e], len(outSent[e])), nil)
		}
	}
	return
}

func sortedInts(v []int) []int {
	out := append([]int(nil), v...)
	for i := 1; i < len(out); i++ {
		for j := i; j > 0 && out[j] < out[j-1]; j-- {
			out[j], out[j-1] = out[j-1], out[j]
		}
	}
	return out
}
