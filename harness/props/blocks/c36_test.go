package blocks

import (
	"bytes"
	"encoding/hex"
	"fmt"
	"testing"

	gcbor "github.com/blinklabs-io/gouroboros/cbor"
	"github.com/blinklabs-io/gouroboros/ledger"
	"github.com/blinklabs-io/gouroboros/ledger/allegra"
	"github.com/blinklabs-io/gouroboros/ledger/alonzo"
	"github.com/blinklabs-io/gouroboros/ledger/babbage"
	"github.com/blinklabs-io/gouroboros/ledger/byron"
	"github.com/blinklabs-io/gouroboros/ledger/common"
	"github.com/blinklabs-io/gouroboros/ledger/conway"
	"github.com/blinklabs-io/gouroboros/ledger/dijkstra"
	"github.com/blinklabs-io/gouroboros/ledger/mary"
	"github.com/blinklabs-io/gouroboros/ledger/shelley"
	"github.com/blinklabs-io/gouroboros/protocol/blockfetch"
	"github.com/blinklabs-io/gouroboros/protocol/chainsync"
	pcommon "github.com/blinklabs-io/gouroboros/protocol/common"
	"pgregory.net/rapid"

	"verif/harness/internal/evi"
	"verif/harness/internal/fixtures"
	"verif/harness/internal/xcbor"
)

// refEra is the harness's own table of the Cardano hard-fork-combinator era
// indices (ouroboros-consensus CardanoEras: Byron=0 .. Dijkstra=7): the
// node-to-node header tag is the era index, the node-to-client block tag is
// the era index + 1 (Byron uses 0 for boundary and 1 for main blocks), the
// ledger era id is the era index.
type refEra struct {
	Name       string
	Index      uint
	BlockTypes []uint
	TxType     uint
	// declared protocol-major range, read from the era package (the statement
	// says "each era's declared version range"); Byron declares none
	MinPV, MaxPV uint64
	HasPV        bool
	// the header-body layouts the era's own blocks use: 15 fields (Shelley..Alonzo),
	// 10 fields (Babbage..Dijkstra), 12 fields (Dijkstra with the Leios extension
	// leios_certified + leios_announcement, which the library's Dijkstra header
	// decoder documents and accepts)
	Layouts []int
}

func (e refEra) hasLayout(n int) bool {
	for _, l := range e.Layouts {
		if l == n {
			return true
		}
	}
	return false
}

var refEras = []refEra{
	{Name: "Byron", Index: 0, BlockTypes: []uint{0, 1}, TxType: 0},
	{Name: "Shelley", Index: 1, BlockTypes: []uint{2}, TxType: 1, MinPV: shelley.MinProtocolVersionShelley, MaxPV: shelley.MaxProtocolVersionShelley, HasPV: true, Layouts: []int{15}},
	{Name: "Allegra", Index: 2, BlockTypes: []uint{3}, TxType: 2, MinPV: allegra.MinProtocolVersionAllegra, MaxPV: allegra.MaxProtocolVersionAllegra, HasPV: true, Layouts: []int{15}},
	{Name: "Mary", Index: 3, BlockTypes: []uint{4}, TxType: 3, MinPV: mary.MinProtocolVersionMary, MaxPV: mary.MaxProtocolVersionMary, HasPV: true, Layouts: []int{15}},
	{Name: "Alonzo", Index: 4, BlockTypes: []uint{5}, TxType: 4, MinPV: alonzo.MinProtocolVersionAlonzo, MaxPV: alonzo.MaxProtocolVersionAlonzo, HasPV: true, Layouts: []int{15}},
	{Name: "Babbage", Index: 5, BlockTypes: []uint{6}, TxType: 5, MinPV: babbage.MinProtocolVersionBabbage, MaxPV: babbage.MaxProtocolVersionBabbage, HasPV: true, Layouts: []int{10}},
	{Name: "Conway", Index: 6, BlockTypes: []uint{7}, TxType: 6, MinPV: conway.MinProtocolVersionConway, MaxPV: conway.MaxProtocolVersionConway, HasPV: true, Layouts: []int{10}},
	{Name: "Dijkstra", Index: 7, BlockTypes: []uint{8}, TxType: 7, MinPV: dijkstra.MinProtocolVersionDijkstra, MaxPV: dijkstra.MaxProtocolVersionDijkstra, HasPV: true, Layouts: []int{10, 12}},
}

// refEraOfBlockType is the era a node-to-client block type belongs to.
func refEraOfBlockType(t uint) (refEra, bool) {
	for _, e := range refEras {
		for _, bt := range e.BlockTypes {
			if bt == t {
				return e, true
			}
		}
	}
	return refEra{}, false
}

// erasContaining lists the eras whose declared range contains pv.
func erasContaining(pv uint64) []refEra {
	var out []refEra
	for _, e := range refEras {
		if e.HasPV && pv >= e.MinPV && pv <= e.MaxPV {
			out = append(out, e)
		}
	}
	return out
}

// synthHeader builds a syntactically complete Praos/TPraos header with the
// given protocol major in the given layout; the other fields come from fill.
func synthHeader(layout int, pv, minor uint64, fill func(n int) []byte, num func() uint64) *xcbor.Node {
	vrf := func() *xcbor.Node { return xcbor.A(xcbor.B(fill(64)), xcbor.B(fill(80))) }
	var body *xcbor.Node
	if layout == 15 {
		body = xcbor.A(
			xcbor.U(num()), xcbor.U(num()), xcbor.B(fill(32)), xcbor.B(fill(32)), xcbor.B(fill(32)),
			vrf(), vrf(), xcbor.U(num()), xcbor.B(fill(32)),
			xcbor.B(fill(32)), xcbor.U(num()&0xffffffff), xcbor.U(num()&0xffffffff), xcbor.B(fill(64)),
			xcbor.U(pv), xcbor.U(minor))
	} else {
		body = xcbor.A(
			xcbor.U(num()), xcbor.U(num()), xcbor.B(fill(32)), xcbor.B(fill(32)), xcbor.B(fill(32)),
			vrf(), xcbor.U(num()), xcbor.B(fill(32)),
			xcbor.A(xcbor.B(fill(32)), xcbor.U(num()&0xffffffff), xcbor.U(num()&0xffffffff), xcbor.B(fill(64))),
			xcbor.A(xcbor.U(pv), xcbor.U(minor)))
		if layout == 12 { // Leios extension
			ann := xcbor.Null()
			if num()&1 == 1 {
				ann = xcbor.A(xcbor.B(fill(32)), xcbor.U(num()&0xffffffff))
			}
			body.Items = append(body.Items, xcbor.Bool(num()&1 == 1), ann)
			body.Apply(xcbor.FormMinimal, 0)
		}
	}
	return xcbor.A(body, xcbor.B(fill(448)))
}

// pvNode returns the protocol-major node of a real/synthetic header.
func pvNode(hdr *xcbor.Node, layout int) *xcbor.Node {
	if layout == 15 {
		return hdr.Items[0].Items[13]
	}
	return hdr.Items[0].Items[9].Items[0]
}

// judgeDispatch applies the statement to one DetermineBlockType answer.
// native = the (layout, pv) pair is one an era's own blocks use.
func judgeDispatch(layout int, pv uint64, got uint, err error) (key, what string, native bool) {
	in := erasContaining(pv)
	var nativeEra *refEra
	for i := range in {
		if in[i].hasLayout(layout) {
			nativeEra = &in[i]
		}
	}
	if err != nil {
		if layout == 12 {
			// The statement quantifies over "both header layouts" (15- and 10-field).
			// The Leios-extended 12-field Dijkstra header is a prototype layout outside
			// it; answering "unknown" infers no era at all, which the statement allows.
			// Only a *wrong* classification of such a header is judged (below).
			return "", "", false
		}
		if nativeEra != nil && len(in) == 1 {
			return fmt.Sprintf("C36:dispatch:%d-field:%s:rejected", layout, nativeEra.Name),
				fmt.Sprintf("protocol major %d is inside %s's declared range [%d,%d] and the %d-field header is that era's own layout, but DetermineBlockType fails: %v",
					pv, nativeEra.Name, nativeEra.MinPV, nativeEra.MaxPV, layout, err), true
		}
		return "", "", nativeEra != nil
	}
	if len(in) != 1 {
		return fmt.Sprintf("C36:dispatch:%d-field:pv=%d:eras=%d", layout, pv, len(in)),
			fmt.Sprintf("protocol major %d lies in the declared range of %d eras, yet DetermineBlockType classified the header as block type %d", pv, len(in), got), nativeEra != nil
	}
	want := in[0]
	if got != want.BlockTypes[0] {
		return fmt.Sprintf("C36:dispatch:%d-field:pv=%d:got=%d", layout, pv, got),
			fmt.Sprintf("protocol major %d belongs to %s (declared [%d,%d], block type %d) but DetermineBlockType returned block type %d",
				pv, want.Name, want.MinPV, want.MaxPV, want.BlockTypes[0], got), nativeEra != nil
	}
	return "", "", nativeEra != nil
}

type ctor func([]byte, ...common.VerifyConfig) (ledger.Block, error)

func wrapCtor[T ledger.Block](f func([]byte, ...common.VerifyConfig) (T, error)) ctor {
	return func(b []byte, c ...common.VerifyConfig) (ledger.Block, error) {
		v, err := f(b, c...)
		if err != nil {
			return nil, err
		}
		return v, nil
	}
}

var perEraCtor = map[uint]ctor{
	0: wrapCtor(byron.NewByronEpochBoundaryBlockFromCbor),
	1: wrapCtor(byron.NewByronMainBlockFromCbor),
	2: wrapCtor(shelley.NewShelleyBlockFromCbor),
	3: wrapCtor(allegra.NewAllegraBlockFromCbor),
	4: wrapCtor(mary.NewMaryBlockFromCbor),
	5: wrapCtor(alonzo.NewAlonzoBlockFromCbor),
	6: wrapCtor(babbage.NewBabbageBlockFromCbor),
	7: wrapCtor(conway.NewConwayBlockFromCbor),
	8: wrapCtor(dijkstra.NewDijkstraBlockFromCbor),
}

func TestC36(t *testing.T) {
	rec := evi.New(t, "C36", evi.Exploration,
		"(a) exhaustive grid: protocol major 0..64 (+ 8 large values) x {15-field, 10-field, 12-field Leios-extended} header layout x K synthetic headers with seed-derived other fields, plus every declared range boundary +-1; (b) the two header/block type maps against the harness's hard-fork-combinator era table; (c) rapid: generated blocks (C01 generator: every era, rebuilt tx list, non-canonical style plans) with the header's protocol major replaced by a drawn value, decoded as every block type 0..9 through NewBlockFromCbor, the per-era constructor, NewBlockFromCborWithOffsets, NewBlockHeaderFromCbor and the chain-sync NtC / block-fetch message decoders: whatever is accepted as type T must report Type()==T, the era T belongs to (block, header, every tx) and DetermineBlockType(header) must agree with the declared ranges. non-trivial = (grid) every case; (rapid) block accepted as at least one type and either decoded as a foreign type or protocol major replaced or non-canonical; distinct by (layout,pv,variant) resp. (template, ops, pv, edits, accepted-type set)")
	defer rec.Finish()
	rec.Assume(
		"era indices follow the Cardano hard fork combinator (Byron 0 .. Dijkstra 7); NtN header tag = era index, NtC block tag = era index+1 (Byron EBB 0 / main 1)",
		"an era's declared version range is the exported Min/MaxProtocolVersion<Era> pair of its package",
		"a header layout/protocol-major pair no era's own blocks use (15-field with a Babbage+ major, 10-field with a pre-Babbage major) may be rejected or classified by range; both are accepted, a classification contradicting the ranges is not",
	)

	// ---- (0) declared ranges: well-formed, pairwise disjoint, increasing with the era index
	for i, a := range refEras {
		if !a.HasPV {
			continue
		}
		rec.Eval()
		if a.MinPV > a.MaxPV {
			rec.Violation("C36:ranges:"+a.Name+":empty", fmt.Sprintf("%s declares the empty range [%d,%d]", a.Name, a.MinPV, a.MaxPV), nil)
		}
		for _, b := range refEras[i+1:] {
			if !b.HasPV {
				continue
			}
			if a.MaxPV >= b.MinPV {
				rec.Violation(fmt.Sprintf("C36:ranges:%s-%s:overlap-or-order", a.Name, b.Name),
					fmt.Sprintf("declared ranges %s [%d,%d] and %s [%d,%d] overlap or are out of era order: a protocol major would belong to two eras",
						a.Name, a.MinPV, a.MaxPV, b.Name, b.MinPV, b.MaxPV), nil)
			}
		}
	}

	// ---- (a) exhaustive protocol-major grid
	seed := uint64(rec.Seed())
	next := func() uint64 { // splitmix64 on the run seed: deterministic filler
		seed += 0x9e3779b97f4a7c15
		z := seed
		z = (z ^ (z >> 30)) * 0xbf58476d1ce4e5b9
		z = (z ^ (z >> 27)) * 0x94d049bb133111eb
		return z ^ (z >> 31)
	}
	fill := func(n int) []byte {
		b := make([]byte, n)
		for i := range b {
			b[i] = byte(next())
		}
		return b
	}
	variants := rec.Pick(4, 24)
	grid := 0
	pvs := []uint64{}
	for pv := uint64(0); pv <= 64; pv++ {
		pvs = append(pvs, pv)
	}
	pvs = append(pvs, 255, 256, 65535, 65536, 1<<32-1, 1<<32, 1<<63, 1<<64-1)
	for _, layout := range []int{15, 10, 12} {
		for _, pv := range pvs {
			for k := 0; k < variants; k++ {
				minor := next() % 4
				h := synthHeader(layout, pv, minor, fill, func() uint64 { return next() >> (next() % 64) })
				if k%2 == 1 { // non-minimal protocol major / indefinite body in every second variant
					n := pvNode(h, layout)
					for _, f := range []xcbor.Form{xcbor.FormW8, xcbor.FormW4, xcbor.FormW2, xcbor.FormW1} {
						if (int(next())&3 == 0 || f == xcbor.FormW1) && n.CanApply(f) {
							n.Apply(f, 0)
							break
						}
					}
					if k%4 == 3 {
						h.Items[0].Apply(xcbor.FormIndef, 0)
					}
				}
				hb := h.Encode()
				got, err := ledger.DetermineBlockType(hb)
				rec.Eval()
				grid++
				key, what, native := judgeDispatch(layout, pv, got, err)
				switch {
				case err != nil && native:
					rec.Class("grid_native_rejected")
				case err != nil:
					rec.Class("grid_rejected")
				case native:
					rec.Class("grid_native_classified")
				default:
					rec.Class("grid_foreign_layout_classified")
				}
				rec.NonTrivial(fmt.Sprintf("grid layout=%d pv=%d k=%d", layout, pv, k),
					map[string]any{"layout_fields": layout, "protocol_major": pv, "variant": k, "result_type": got, "error": fmt.Sprint(err), "header_head_hex": hexClip(hb, 24)})
				if key != "" {
					rec.Violation(key, what, map[string]any{"layout_fields": layout, "protocol_major": pv, "header_hex": hex.EncodeToString(hb)})
				}
			}
		}
	}
	rec.SetExtra("pv_grid_cases", grid)
	rec.SetExtra("pv_grid_exhaustive_0_64_all_layouts", true)

	// ---- (b) the two maps
	wantH2B := map[uint]uint{}
	for _, e := range refEras[1:] {
		wantH2B[e.Index] = e.BlockTypes[0]
	}
	rec.Eval()
	for k, v := range wantH2B {
		if got, ok := ledger.BlockHeaderToBlockTypeMap[k]; !ok || got != v {
			rec.Violation(fmt.Sprintf("C36:maps:header-to-block:%d", k), fmt.Sprintf("BlockHeaderToBlockTypeMap[%d] = %d,%v; era table says %d", k, got, ok, v), nil)
		}
		if got, ok := ledger.BlockToBlockHeaderTypeMap[v]; !ok || got != k {
			rec.Violation(fmt.Sprintf("C36:maps:block-to-header:%d", v), fmt.Sprintf("BlockToBlockHeaderTypeMap[%d] = %d,%v; era table says %d", v, got, ok, k), nil)
		}
	}
	for k, v := range ledger.BlockHeaderToBlockTypeMap {
		if back, ok := ledger.BlockToBlockHeaderTypeMap[v]; !ok || back != k {
			rec.Violation(fmt.Sprintf("C36:maps:not-inverse:h%d", k), fmt.Sprintf("BlockHeaderToBlockTypeMap[%d]=%d but BlockToBlockHeaderTypeMap[%d]=%d,%v", k, v, v, back, ok), nil)
		}
		if _, ok := wantH2B[k]; !ok {
			rec.Violation(fmt.Sprintf("C36:maps:extra-header-type:%d", k), fmt.Sprintf("BlockHeaderToBlockTypeMap has an entry for unknown header type %d", k), nil)
		}
	}
	for k, v := range ledger.BlockToBlockHeaderTypeMap {
		if back, ok := ledger.BlockHeaderToBlockTypeMap[v]; !ok || back != k {
			rec.Violation(fmt.Sprintf("C36:maps:not-inverse:b%d", k), fmt.Sprintf("BlockToBlockHeaderTypeMap[%d]=%d but BlockHeaderToBlockTypeMap[%d]=%d,%v", k, v, v, back, ok), nil)
		}
	}
	// era ids registered by the era packages
	for _, e := range refEras {
		rec.Eval()
		le := ledger.GetEraById(uint8(e.Index))
		if le.Name != e.Name || uint(le.Id) != e.Index {
			rec.Violation("C36:era-registry:"+e.Name, fmt.Sprintf("GetEraById(%d) = %+v, era table says %s", e.Index, le, e.Name), nil)
		}
	}

	// ---- (c) generated blocks through every entry point
	rec.Check(func(rt *rapid.T) {
		g := GenBlock(rt, GenOpts{MaxTx: 8, MaxEdits: 3})
		homeEra, _ := refEraOfBlockType(g.Type)
		// replace the protocol major (Shelley+): inside the era's range, at a
		// neighbouring era's edge, or anything
		pvDesc := "pv=as-is"
		var pv uint64
		if g.Type >= fixtures.TypeShelley {
			root := g.V.Root.Clone()
			v := View{Type: g.Type, Root: root}
			n := pvNode(v.Header(), len(v.HeaderBody().Items))
			pv = n.Arg
			switch rapid.IntRange(0, 3).Draw(rt, "pvMode") {
			case 1:
				pv = rapid.Uint64Range(homeEra.MinPV, homeEra.MaxPV).Draw(rt, "pvIn")
			case 2:
				pv = rapid.Uint64Range(0, 16).Draw(rt, "pvNear")
			case 3:
				pv = rapid.Uint64().Draw(rt, "pvAny")
			}
			if pv != n.Arg {
				n.Arg = pv
				w := n.Width
				n.Apply(xcbor.FormMinimal, 0)
				if w > n.Width { // keep a non-minimal width the style plan chose
					n.Width = w
				}
				pvDesc = fmt.Sprintf("pv=%d", pv)
				g.Bytes = root.Encode()
				re, err := xcbor.ParseExact(g.Bytes)
				if err != nil {
					panic(err)
				}
				g.V = View{Type: g.Type, Root: re}
			}
		}
		hdrBytes := src(g, g.V.Header())
		fail := func(key, what string) {
			cs := g.Sample()
			cs["block_hex"] = hex.EncodeToString(g.Bytes)
			cs["protocol_major"] = pvDesc
			rec.Fail(rt, key, what+" ["+g.Desc()+" "+pvDesc+"]", cs)
		}
		rec.Eval()

		// DetermineBlockType on the block's own header
		if g.Type >= fixtures.TypeShelley {
			got, err := ledger.DetermineBlockType(hdrBytes)
			key, what, native := judgeDispatch(len(g.V.HeaderBody().Items), pv, got, err)
			if key != "" {
				fail(key, what)
			}
			if native && err == nil {
				rec.Class("dispatch_on_generated_header_native")
			} else if err != nil {
				rec.Class("dispatch_on_generated_header_error")
			}
		}

		accepted := ""
		skip := common.VerifyConfig{SkipBodyHashValidation: true}
		for T := uint(0); T <= 9; T++ {
			te, known := refEraOfBlockType(T)
			blk, err := ledger.NewBlockFromCbor(T, g.Bytes, skip)
			if err != nil {
				continue
			}
			if !known {
				fail(fmt.Sprintf("C36:decode:unknown-type-%d-accepted", T), fmt.Sprintf("NewBlockFromCbor accepted block type %d, which no era has", T))
				continue
			}
			accepted += fmt.Sprintf("%d,", T)
			if T == g.Type {
				rec.Class("accepted_as_home_type")
			} else {
				rec.Class("accepted_as_foreign_type")
			}
			checkEra := func(entry string, typ int, era common.Era) {
				if uint(typ) != T {
					fail(fmt.Sprintf("C36:decode:%s:T=%d:Type", entry, T), fmt.Sprintf("%s(type %d) returned a block reporting Type()=%d", entry, T, typ))
				}
				if uint(era.Id) != te.Index || era.Name != te.Name {
					fail(fmt.Sprintf("C36:decode:%s:T=%d:Era", entry, T), fmt.Sprintf("%s(type %d) returned Era()=%+v, type %d belongs to %s (%d)", entry, T, era, T, te.Name, te.Index))
				}
			}
			checkEra("NewBlockFromCbor", blk.Type(), blk.Era())
			if he := blk.Header().Era(); uint(he.Id) != te.Index || he.Name != te.Name {
				fail(fmt.Sprintf("C36:decode:NewBlockFromCbor:T=%d:Header.Era", T), fmt.Sprintf("block decoded as type %d has a header reporting era %+v, want %s", T, he, te.Name))
			}
			for i, tx := range blk.Transactions() {
				if uint(tx.Type()) != te.TxType {
					fail(fmt.Sprintf("C36:decode:NewBlockFromCbor:T=%d:tx.Type", T), fmt.Sprintf("transaction %d of a block decoded as type %d reports Type()=%d, era %s has tx type %d", i, T, tx.Type(), te.Name, te.TxType))
					break
				}
			}
			// per-era constructor
			if b2, err := perEraCtor[T](g.Bytes, skip); err != nil {
				fail(fmt.Sprintf("C36:decode:per-era-ctor:T=%d:disagrees", T), fmt.Sprintf("NewBlockFromCbor(%d) accepts but the era constructor rejects: %v", T, err))
			} else {
				checkEra("per-era-ctor", b2.Type(), b2.Era())
			}
			// with offsets (the streaming pre-pass may reject; only an accepted answer is judged)
			if bo, err := ledger.NewBlockFromCborWithOffsets(T, g.Bytes, skip); err == nil {
				rec.Class("with_offsets_accepted")
				checkEra("NewBlockFromCborWithOffsets", bo.Block.Type(), bo.Block.Era())
			} else {
				rec.Class("with_offsets_rejected")
			}
			// header entry point
			if h, err := ledger.NewBlockHeaderFromCbor(T, hdrBytes); err == nil {
				if he := h.Era(); uint(he.Id) != te.Index || he.Name != te.Name {
					fail(fmt.Sprintf("C36:decode:NewBlockHeaderFromCbor:T=%d:Era", T), fmt.Sprintf("header decoded as type %d reports era %+v, want %s", T, he, te.Name))
				}
			} else {
				rec.Class("header_entry_point_rejects_header_of_accepted_block")
			}
			// chain-sync node-to-client message decoder
			if m, err := chainsync.NewMsgRollForwardNtC(T, g.Bytes, pcommon.Tip{}); err == nil {
				if mb, err := gcbor.Encode(m); err == nil {
					if dm, err := chainsync.NewMsgFromCborNtC(chainsync.MessageTypeRollForward, mb); err == nil {
						rf := dm.(*chainsync.MsgRollForwardNtC)
						if rf.BlockType() != T || !bytes.Equal(rf.BlockCbor(), g.Bytes) {
							fail(fmt.Sprintf("C36:decode:chainsync-ntc:T=%d", T), fmt.Sprintf("chain-sync NtC roll-forward carries type %d / %d bytes, served type %d / %d bytes", rf.BlockType(), len(rf.BlockCbor()), T, len(g.Bytes)))
						} else if b3, err := ledger.NewBlockFromCbor(rf.BlockType(), rf.BlockCbor(), skip); err == nil {
							checkEra("chainsync-ntc", b3.Type(), b3.Era())
							rec.Class("chainsync_ntc_decoded")
						}
					}
				}
			}
			// block-fetch message decoder: [4, #6.24(bytes .cbor [type, block])]
			wrapped := xcbor.A(xcbor.U(uint64(T)), g.V.Root).Encode()
			if mb, err := gcbor.Encode(blockfetch.NewMsgBlock(wrapped)); err == nil {
				if dm, err := blockfetch.NewMsgFromCbor(blockfetch.MessageTypeBlock, mb); err == nil {
					var wb blockfetch.WrappedBlock
					if _, err := gcbor.Decode(dm.(*blockfetch.MsgBlock).WrappedBlock, &wb); err == nil {
						if wb.Type != T || !bytes.Equal(wb.RawBlock, g.Bytes) {
							fail(fmt.Sprintf("C36:decode:blockfetch:T=%d", T), fmt.Sprintf("block-fetch wrapped block carries type %d / %d bytes, served type %d / %d bytes", wb.Type, len(wb.RawBlock), T, len(g.Bytes)))
						} else if b4, err := ledger.NewBlockFromCbor(wb.Type, wb.RawBlock, skip); err == nil {
							checkEra("blockfetch", b4.Type(), b4.Era())
							rec.Class("blockfetch_decoded")
						}
					}
				}
			}
		}
		rec.Class("era_" + g.Era())
		if accepted == "" {
			rec.Class("rejected_as_every_type")
			return
		}
		rec.NonTrivial(g.Desc()+" "+pvDesc+" accepted="+accepted, func() map[string]any {
			s := g.Sample()
			s["protocol_major"] = pvDesc
			s["accepted_as_types"] = accepted
			return s
		}())
	})
}
