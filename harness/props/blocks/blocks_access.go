package blocks

import (
	"reflect"

	"verif/harness/internal/xcbor"
)

type cborer interface{ Cbor() []byte }

// fieldCbor returns obj.<field>.Cbor() for a pointer-to-struct obj whose
// (possibly promoted) field has a Cbor method. ok=false when there is no such field.
func fieldCbor(obj any, field string) (b []byte, ok bool) {
	v := reflect.ValueOf(obj)
	for v.Kind() == reflect.Interface || v.Kind() == reflect.Pointer {
		if v.IsNil() {
			return nil, false
		}
		v = v.Elem()
	}
	if v.Kind() != reflect.Struct {
		return nil, false
	}
	f := v.FieldByName(field)
	if !f.IsValid() {
		return nil, false
	}
	if f.Kind() == reflect.Pointer {
		if f.IsNil() {
			return nil, false
		}
		if c, is := f.Interface().(cborer); is {
			return c.Cbor(), true
		}
		return nil, false
	}
	if !f.CanAddr() {
		return nil, false
	}
	if c, is := f.Addr().Interface().(cborer); is {
		return c.Cbor(), true
	}
	return nil, false
}

// fieldPtr returns a pointer to obj.<field> (for re-encoding a component).
func fieldPtr(obj any, field string) (any, bool) {
	v := reflect.ValueOf(obj)
	for v.Kind() == reflect.Interface || v.Kind() == reflect.Pointer {
		if v.IsNil() {
			return nil, false
		}
		v = v.Elem()
	}
	if v.Kind() != reflect.Struct {
		return nil, false
	}
	f := v.FieldByName(field)
	if !f.IsValid() || !f.CanAddr() {
		return nil, false
	}
	return f.Addr().Interface(), true
}

// metadataNode locates the transaction_metadata item inside an auxiliary data
// item: a bare map (Shelley), [metadata, scripts] (Allegra) or #6.259({0: metadata, ...}).
func metadataNode(aux *xcbor.Node) *xcbor.Node {
	switch aux.Kind {
	case xcbor.Map:
		return aux
	case xcbor.Array:
		if len(aux.Items) == 2 {
			m := aux.Items[0]
			if m.Kind == xcbor.Simple {
				return nil
			}
			return m
		}
	case xcbor.Tag:
		if aux.Arg == 259 && aux.Items[0].Kind == xcbor.Map {
			return aux.Items[0].MapGet(0)
		}
	}
	return nil
}
