package blocks

import (
	"bytes"
	"fmt"

	gcbor "github.com/blinklabs-io/gouroboros/cbor"
	"github.com/blinklabs-io/gouroboros/ledger"
	"github.com/blinklabs-io/gouroboros/ledger/common"
	"github.com/blinklabs-io/gouroboros/protocol/chainsync"
	pcommon "github.com/blinklabs-io/gouroboros/protocol/common"
	"pgregory.net/rapid"

	"verif/harness/internal/fixtures"
	"verif/harness/internal/xcbor"
)

// Ownership / buffer-reuse family of C22.
//
// A server normally reads blocks into a reusable buffer. The block that was
// *served* is the one whose bytes were in the buffer when the roll-forward
// message was constructed; whatever the caller does with its buffer afterwards
// (load the next block, zero it) must not change what arrives at the client.
// On the unchanged tree both constructors own their data (NtC copies the
// block, NtN keeps RawMessage copies), and both decoders hand out data that is
// independent of the wire buffer, so the statement's identity must hold along
//
//	sender:   copy A into buf; m := NewMsgRollForwardNtN/NtC(buf); overwrite buf; encode m; decode at the client
//	receiver: copy wire into buf; m := NewMsgFromCborNtN/NtC(buf); overwrite buf; inspect block / header
//
// exactly as when the buffer is left untouched.

func overwrite(rt *rapid.T, buf []byte, other []byte) string {
	mode := rapid.SampledFrom([]string{"next-block", "next-block", "zeros", "noise", "shifted-self", "untouched"}).Draw(rt, "overwriteMode")
	switch mode {
	case "next-block":
		n := copy(buf, other)
		for i := n; i < len(buf); i++ {
			buf[i] = 0
		}
	case "zeros":
		for i := range buf {
			buf[i] = 0
		}
	case "noise":
		x := rapid.Uint64().Draw(rt, "noiseSeed") | 1
		for i := range buf {
			x ^= x << 13
			x ^= x >> 7
			x ^= x << 17
			buf[i] = byte(x)
		}
	case "shifted-self":
		// the same bytes moved by one position: every offset now shows a neighbour
		if len(buf) > 1 {
			copy(buf[1:], buf[:len(buf)-1])
		}
	}
	return mode
}

func (c *c22) ownership(s served, other *Gen) {
	g := s.g
	rec := c.rec
	tip := pcommon.Tip{Point: pcommon.NewPoint(4242, s.hash[:]), BlockNumber: 9}
	size := len(g.Bytes)
	if len(other.Bytes) > size && rapid.Bool().Draw(c.rt, "bigScratch") {
		size = len(other.Bytes)
	}
	scratch := make([]byte, size)

	// ---------- sender side
	copy(scratch, g.Bytes)
	bufA := scratch[:len(g.Bytes)]
	var mN *chainsync.MsgRollForwardNtN
	if g.Type >= fixtures.TypeShelley {
		era, ok := ledger.BlockToBlockHeaderTypeMap[g.Type]
		if ok {
			if m, err := chainsync.NewMsgRollForwardNtN(era, 0, bufA, tip); err == nil {
				mN = m
			}
		}
	}
	mC, errC := chainsync.NewMsgRollForwardNtC(g.Type, bufA, tip)
	mode := overwrite(c.rt, scratch, other.Bytes)
	rec.Class("own_sender_" + mode)
	route := "own-sender(" + mode + ")"
	if mN != nil {
		rec.Eval()
		// what the message says it carries
		if hc := mN.WrappedHeader.HeaderCbor(); !bytes.Equal(hc, s.header) {
			c.fail(fmt.Sprintf("C22:own-sender-ntn:%s:HeaderCbor", g.Era()),
				fmt.Sprintf("after the caller's block buffer was overwritten (%s) the constructed NtN roll-forward no longer carries the served block's header %s", mode, firstDiff(hc, s.header)), s, map[string]any{"overwrite": mode})
		}
		wire, err := gcbor.Encode(mN)
		if err != nil {
			c.fail(fmt.Sprintf("C22:own-sender-ntn:%s:encode", g.Era()), fmt.Sprintf("encoding the NtN roll-forward built before the buffer was overwritten (%s) fails: %v", mode, err), s, map[string]any{"overwrite": mode})
		} else {
			wn, perr := xcbor.ParseExact(wire)
			okShape := perr == nil && wn.Kind == xcbor.Array && len(wn.Items) == 3 && wn.Items[1].Kind == xcbor.Array && len(wn.Items[1].Items) == 2 &&
				wn.Items[1].Items[1].Kind == xcbor.Tag && wn.Items[1].Items[1].Items[0].Kind == xcbor.Bytes
			if !okShape || !bytes.Equal(wn.Items[1].Items[1].Items[0].Payload(), s.header) {
				c.fail(fmt.Sprintf("C22:own-sender-ntn:%s:wire-header", g.Era()),
					fmt.Sprintf("the header on the wire is not the served block's header item after the caller's buffer was overwritten (%s)", mode), s, map[string]any{"overwrite": mode, "wire_head_hex": hexClip(wire, 64)})
			} else if dm, err := chainsync.NewMsgFromCborNtN(chainsync.MessageTypeRollForward, wire); err == nil {
				rf := dm.(*chainsync.MsgRollForwardNtN)
				if bt, ok := ledger.BlockHeaderToBlockTypeMap[rf.WrappedHeader.Era]; ok {
					a := arrival{blockType: bt, raw: rf.WrappedHeader.HeaderCbor()}
					if h, err := ledger.NewBlockHeaderFromCbor(bt, rf.WrappedHeader.HeaderCbor()); err == nil {
						a.header = h
						rec.Class("own_sender_ntn_delivered")
					}
					c.judge(route+"-ntn", true, s, a)
				}
			}
		}
	}
	if errC == nil {
		rec.Eval()
		if bc := mC.BlockCbor(); !bytes.Equal(bc, g.Bytes) || mC.BlockType() != g.Type {
			c.fail(fmt.Sprintf("C22:own-sender-ntc:%s:BlockCbor", g.Era()),
				fmt.Sprintf("after the caller's block buffer was overwritten (%s) the constructed NtC roll-forward no longer carries the served block %s", mode, firstDiff(bc, g.Bytes)), s, map[string]any{"overwrite": mode})
		}
		if wire, err := gcbor.Encode(mC); err == nil {
			if dm, err := chainsync.NewMsgFromCborNtC(chainsync.MessageTypeRollForward, wire); err == nil {
				rf := dm.(*chainsync.MsgRollForwardNtC)
				a := arrival{blockType: rf.BlockType(), raw: rf.BlockCbor()}
				if blk, err := ledger.NewBlockFromCbor(rf.BlockType(), rf.BlockCbor(), common.VerifyConfig{SkipBodyHashValidation: !g.Commitment}); err == nil {
					a.block = blk
					rec.Class("own_sender_ntc_delivered")
				}
				c.judge(route+"-ntc", false, s, a)
			} else {
				c.fail(fmt.Sprintf("C22:own-sender-ntc:%s:wire-undecodable", g.Era()), fmt.Sprintf("the NtC roll-forward built before the buffer was overwritten (%s) does not decode at the client: %v", mode, err), s, map[string]any{"overwrite": mode})
			}
		}
	}

	// ---------- receiver side: the wire buffer is reused after the message was decoded
	type rx struct {
		ntn  bool
		wire []byte
	}
	var rxs []rx
	if g.Type >= fixtures.TypeShelley {
		if era, ok := ledger.BlockToBlockHeaderTypeMap[g.Type]; ok {
			if m, err := chainsync.NewMsgRollForwardNtN(era, 0, g.Bytes, tip); err == nil {
				if w, err := gcbor.Encode(m); err == nil {
					rxs = append(rxs, rx{true, w})
				}
			}
		}
	}
	if m, err := chainsync.NewMsgRollForwardNtC(g.Type, g.Bytes, tip); err == nil {
		if w, err := gcbor.Encode(m); err == nil {
			rxs = append(rxs, rx{false, w})
		}
	}
	for _, r := range rxs {
		wbuf := append([]byte{}, r.wire...)
		var dm any
		var err error
		if r.ntn {
			dm, err = chainsync.NewMsgFromCborNtN(chainsync.MessageTypeRollForward, wbuf)
		} else {
			dm, err = chainsync.NewMsgFromCborNtC(chainsync.MessageTypeRollForward, wbuf)
		}
		if err != nil {
			continue
		}
		rmode := overwrite(c.rt, wbuf, other.Bytes)
		rec.Class("own_receiver_" + rmode)
		rec.Eval()
		rroute := "own-receiver(" + rmode + ")"
		if r.ntn {
			rf := dm.(*chainsync.MsgRollForwardNtN)
			if bt, ok := ledger.BlockHeaderToBlockTypeMap[rf.WrappedHeader.Era]; ok {
				a := arrival{blockType: bt, raw: rf.WrappedHeader.HeaderCbor()}
				if h, err := ledger.NewBlockHeaderFromCbor(bt, rf.WrappedHeader.HeaderCbor()); err == nil {
					a.header = h
					rec.Class("own_receiver_ntn_delivered")
				}
				c.judge(rroute+"-ntn", true, s, a)
			}
		} else {
			rf := dm.(*chainsync.MsgRollForwardNtC)
			a := arrival{blockType: rf.BlockType(), raw: rf.BlockCbor()}
			if blk, err := ledger.NewBlockFromCbor(rf.BlockType(), rf.BlockCbor(), common.VerifyConfig{SkipBodyHashValidation: !g.Commitment}); err == nil {
				a.block = blk
				rec.Class("own_receiver_ntc_delivered")
			}
			c.judge(rroute+"-ntc", false, s, a)
		}
	}
	rec.NonTrivial(fmt.Sprintf("ownership sender=%s A=[%s] B=[%s]", mode, g.Desc(), other.Desc()),
		map[string]any{"family": "ownership/buffer-reuse", "sender_overwrite": mode, "A": g.Sample(), "B": other.Sample()})
}
