// Package blocks holds the block-level property checks (C01, C36, C22) and the
// "generated block from template" machinery they share.
//
// A generated block is a real fixture block whose transaction list was
// rebuilt through the independent xcbor tree (transactions selected,
// duplicated, permuted, transplanted from other fixtures, integer fields
// replaced), whose CBOR head forms were then changed by a rapid-drawn style
// plan (data model unchanged by construction), and whose header commitment to
// the body was recomputed with the harness's own blake2b-256 - so that the
// era decoder accepts it with body-hash validation switched on.
package blocks

import (
	"fmt"
	"sort"
	"strings"
	"sync"

	"golang.org/x/crypto/blake2b"
	"pgregory.net/rapid"

	"verif/harness/internal/fixtures"
	"verif/harness/internal/xcbor"
)

// Layout of the top-level block array.
type Layout int

const (
	LayoutByronEbb  Layout = iota // [header, [stakeholder ids], extra]
	LayoutByronMain               // [header, [txpayload, ssc, dlg, upd], extra]
	LayoutSegwit4                 // [header, bodies, witnesses, aux map]           Shelley, Allegra, Mary
	LayoutSegwit5                 // [header, bodies, witnesses, aux map, invalid]  Alonzo, Babbage, Conway
	LayoutDijkstra                // [header, [invalid/nil, [tx...], leios/nil, peras/nil]]
)

func (l Layout) String() string {
	return [...]string{"byron-ebb", "byron-main", "segwit4", "segwit5", "dijkstra"}[l]
}

func LayoutOf(blockType uint) Layout {
	switch blockType {
	case fixtures.TypeByronEbb:
		return LayoutByronEbb
	case fixtures.TypeByronMain:
		return LayoutByronMain
	case fixtures.TypeShelley, fixtures.TypeAllegra, fixtures.TypeMary:
		return LayoutSegwit4
	case fixtures.TypeAlonzo, fixtures.TypeBabbage, fixtures.TypeConway:
		return LayoutSegwit5
	}
	return LayoutDijkstra
}

// TxTypeOf maps a block type to the ledger's transaction type id.
func TxTypeOf(blockType uint) uint {
	if blockType <= fixtures.TypeByronMain {
		return 0
	}
	return blockType - 1
}

func EraName(blockType uint) string {
	return [...]string{"byron", "byron", "shelley", "allegra", "mary", "alonzo", "babbage", "conway", "dijkstra"}[blockType]
}

// Sum256 is the harness's blake2b-256.
func Sum256(b []byte) [32]byte { return blake2b.Sum256(b) }

// ---- parsed fixtures and the transaction pool -------------------------------

// PoolTx is one transaction taken from a fixture, as independent xcbor nodes.
type PoolTx struct {
	From    string
	Type    uint        // block type of the fixture it came from
	Body    *xcbor.Node // segwit/dijkstra: body map; byron: nil
	Wit     *xcbor.Node
	Aux     *xcbor.Node // nil = none
	Invalid bool
	Whole   *xcbor.Node // byron: the [body, witnesses] item; dijkstra: nil (built from parts)
}

type parsedFixture struct {
	fx   fixtures.Block
	tree *xcbor.Node
	txs  []PoolTx
}

var (
	parseOnce sync.Once
	parsed    map[string]*parsedFixture
	poolAll   []PoolTx // every segwit transaction of every fixture + the standalone dijkstra tx
)

func loadFixtures() {
	parseOnce.Do(func() {
		parsed = map[string]*parsedFixture{}
		for _, fx := range fixtures.Blocks() {
			tree, err := xcbor.ParseExact(fx.Bytes)
			if err != nil {
				panic(fx.Name + ": " + err.Error())
			}
			pf := &parsedFixture{fx: fx, tree: tree}
			v := View{Type: fx.Type, Root: tree}
			switch LayoutOf(fx.Type) {
			case LayoutSegwit4, LayoutSegwit5:
				for i := 0; i < v.NTx(); i++ {
					pf.txs = append(pf.txs, PoolTx{From: fmt.Sprintf("%s#%d", fx.Name, i), Type: fx.Type,
						Body: v.Body(i), Wit: v.Wit(i), Aux: v.Aux(i), Invalid: !v.Valid(i)})
				}
				poolAll = append(poolAll, pf.txs...)
			case LayoutByronMain:
				for i := 0; i < v.NTx(); i++ {
					pf.txs = append(pf.txs, PoolTx{From: fmt.Sprintf("%s#%d", fx.Name, i), Type: fx.Type, Whole: v.Tx(i)})
				}
			case LayoutDijkstra:
				for i := 0; i < v.NTx(); i++ {
					tx := v.Tx(i)
					pf.txs = append(pf.txs, poolFromInline(fmt.Sprintf("%s#%d", fx.Name, i), fx.Type, tx))
				}
			}
			parsed[fx.Name] = pf
		}
		dj, err := xcbor.ParseExact(fixtures.DijkstraTx())
		if err != nil {
			panic(err)
		}
		poolAll = append(poolAll, poolFromInline("dijkstra_tx_fixture", fixtures.TypeDijkstra, dj))
	})
}

func poolFromInline(from string, typ uint, tx *xcbor.Node) PoolTx {
	p := PoolTx{From: from, Type: typ, Body: tx.Items[0], Wit: tx.Items[1]}
	last := tx.Items[len(tx.Items)-1]
	if !(last.Kind == xcbor.Simple && last.Arg == 22) {
		p.Aux = last
	}
	return p
}

// Fixture returns the parsed tree of a fixture (shared; Clone before editing).
func Fixture(name string) (*xcbor.Node, fixtures.Block) {
	loadFixtures()
	pf := parsed[name]
	return pf.tree, pf.fx
}

// ---- View: where things are in a block tree ---------------------------------

// View locates header / transactions / components in a block item tree by the
// era's CDDL layout. All positions come from xcbor, never from the library.
type View struct {
	Type uint
	Root *xcbor.Node
}

func (v View) Layout() Layout      { return LayoutOf(v.Type) }
func (v View) Header() *xcbor.Node { return v.Root.Items[0] }

// HeaderBody is the signed header body (Shelley+), nil for Byron.
func (v View) HeaderBody() *xcbor.Node {
	if v.Type <= fixtures.TypeByronMain {
		return nil
	}
	return v.Header().Items[0]
}

// bodyHashIndex is the position of block_body_hash in the header body array.
func (v View) bodyHashIndex() int {
	if v.Type >= fixtures.TypeBabbage {
		return 7
	}
	return 8
}

func (v View) txList() *xcbor.Node {
	switch v.Layout() {
	case LayoutByronMain:
		return v.Root.Items[1].Items[0]
	case LayoutSegwit4, LayoutSegwit5:
		return v.Root.Items[1]
	case LayoutDijkstra:
		return v.Root.Items[1].Items[1]
	}
	return nil
}

func (v View) NTx() int {
	l := v.txList()
	if l == nil {
		return 0
	}
	return len(l.Items)
}

// Contiguous reports whether a transaction occupies one byte range in the block.
func (v View) Contiguous() bool {
	return v.Layout() == LayoutByronMain || v.Layout() == LayoutDijkstra
}

// Tx is the whole transaction item (contiguous layouts only).
func (v View) Tx(i int) *xcbor.Node { return v.txList().Items[i] }

func (v View) Body(i int) *xcbor.Node {
	if v.Contiguous() {
		return v.Tx(i).Items[0]
	}
	return v.Root.Items[1].Items[i]
}

func (v View) Wit(i int) *xcbor.Node {
	if v.Contiguous() {
		return v.Tx(i).Items[1]
	}
	return v.Root.Items[2].Items[i]
}

// Aux returns the auxiliary data item of transaction i or nil.
func (v View) Aux(i int) *xcbor.Node {
	switch v.Layout() {
	case LayoutSegwit4, LayoutSegwit5:
		return v.Root.Items[3].MapGet(uint64(i))
	case LayoutDijkstra:
		tx := v.Tx(i)
		last := tx.Items[len(tx.Items)-1]
		if last.Kind == xcbor.Simple && last.Arg == 22 {
			return nil
		}
		return last
	}
	return nil
}

// invalidList returns the elements of the invalid-transactions list (looking
// through a tag-258 set wrapper), nil when absent.
func (v View) invalidList() []*xcbor.Node {
	var n *xcbor.Node
	switch v.Layout() {
	case LayoutSegwit5:
		n = v.Root.Items[4]
	case LayoutDijkstra:
		n = v.Root.Items[1].Items[0]
	default:
		return nil
	}
	if n.Kind == xcbor.Tag {
		n = n.Items[0]
	}
	if n.Kind != xcbor.Array {
		return nil
	}
	return n.Items
}

func (v View) Valid(i int) bool {
	for _, n := range v.invalidList() {
		if n.Kind == xcbor.Uint && n.Arg == uint64(i) {
			return false
		}
	}
	return true
}

// Outputs returns the output items of a transaction body.
func (v View) Outputs(body *xcbor.Node) []*xcbor.Node {
	if v.Layout() == LayoutByronMain {
		return body.Items[1].Items
	}
	if o := body.MapGet(1); o != nil {
		return o.Items
	}
	return nil
}

// ---- generation --------------------------------------------------------------

// Gen is one generated block.
type Gen struct {
	Template string
	Type     uint
	Ops      []string // template operations applied
	Edits    []xcbor.Edit
	Focus    string
	Bytes    []byte
	V        View // view on the re-parsed Bytes: Start/End are offsets in Bytes
	// Commitment reports whether the header's body commitment was recomputed
	// (Shelley+); Byron blocks are decoded with SkipBodyHashValidation instead.
	Commitment bool
}

func (g *Gen) Era() string { return EraName(g.Type) }

func (g *Gen) Desc() string {
	return fmt.Sprintf("%s ops=[%s] focus=%s edits=[%s]", g.Template, strings.Join(g.Ops, ";"), g.Focus, xcbor.EditsString(g.Edits))
}

func (g *Gen) Sample() map[string]any {
	return map[string]any{
		"template": g.Template, "block_type": g.Type, "template_ops": g.Ops, "style_focus": g.Focus,
		"style_edits": xcbor.EditsString(g.Edits), "n_tx": g.V.NTx(), "len": len(g.Bytes),
		"head_hex": hexClip(g.Bytes, 48),
	}
}

func hexClip(b []byte, n int) string {
	const hexd = "0123456789abcdef"
	if len(b) > n {
		b = b[:n]
	}
	out := make([]byte, 0, 2*len(b))
	for _, c := range b {
		out = append(out, hexd[c>>4], hexd[c&15])
	}
	return string(out)
}

// GenOpts tunes GenBlock.
type GenOpts struct {
	Templates []string // fixture names to draw from (nil = all small ones + occasionally the EBB)
	MaxTx     int      // upper bound on the rebuilt transaction list (default 30)
	NoStyle   bool     // keep the template's head forms
	MaxEdits  int
}

var defaultTemplates = []string{"conway", "babbage", "alonzo", "mary", "allegra", "shelley", "dijkstra", "byron_main", "shelley_testnet", "byron_main_testnet"}

// GenBlock draws a generated block. All randomness comes from rt.
func GenBlock(rt *rapid.T, o GenOpts) *Gen {
	loadFixtures()
	names := o.Templates
	if names == nil {
		// rapid favours small indices: the transaction-rich eras come first
		names = defaultTemplates
		if rapid.IntRange(0, 39).Draw(rt, "ebb") == 0 {
			names = []string{"byron_ebb"}
		}
	}
	name := rapid.SampledFrom(names).Draw(rt, "template")
	pf := parsed[name]
	g := &Gen{Template: name, Type: pf.fx.Type}
	root := pf.tree.Clone()
	v := View{Type: g.Type, Root: root}
	maxTx := o.MaxTx
	if maxTx <= 0 {
		maxTx = 30
	}

	// --- template operations: rebuild the transaction list
	if v.Layout() != LayoutByronEbb && rapid.IntRange(0, 9).Draw(rt, "rebuild") < 6 {
		g.rebuildTxs(rt, v, pf, maxTx)
	} else {
		g.Ops = append(g.Ops, "as-is")
	}

	// --- Dijkstra: plain 10-field header body, or Leios-extended 12-field body
	// (leios_certified : bool, leios_announcement : [hash32, uint .size 4] / nil)
	if g.Type == fixtures.TypeDijkstra {
		hb := v.HeaderBody()
		switch rapid.IntRange(0, 2).Draw(rt, "leiosHeader") {
		case 1:
			hb.Items = hb.Items[:10]
			fixWidth(hb)
			g.Ops = append(g.Ops, "header-body-10-fields")
		case 2:
			ann := xcbor.Null()
			if rapid.Bool().Draw(rt, "announce") {
				eb := rapid.SliceOfN(rapid.Byte(), 32, 32).Draw(rt, "ebHash")
				ann = xcbor.A(xcbor.B(eb), xcbor.U(uint64(rapid.Uint32().Draw(rt, "ebSize"))))
			}
			hb.Items = append(hb.Items[:10:10], xcbor.Bool(rapid.Bool().Draw(rt, "certified")), ann)
			fixWidth(hb)
			g.Ops = append(g.Ops, "header-body-12-fields(leios)")
		}
	}

	// --- style plan
	if !o.NoStyle {
		g.restyle(rt, v, o.MaxEdits)
	}

	// --- header commitment
	if g.Type >= fixtures.TypeShelley {
		setCommitment(v)
		g.Commitment = true
	}
	g.Bytes = root.Encode()
	re, err := xcbor.ParseExact(g.Bytes)
	if err != nil {
		panic("generated block does not re-parse: " + err.Error())
	}
	g.V = View{Type: g.Type, Root: re}
	return g
}

// drawCount draws a transaction count biased towards 0, 1 and the 23/24
// boundary where a CBOR array head grows from one to two bytes.
func drawCount(rt *rapid.T, maxTx int) int {
	switch rapid.IntRange(0, 5).Draw(rt, "countClass") {
	case 0:
		return rapid.IntRange(0, 1).Draw(rt, "n01")
	case 1:
		n := rapid.IntRange(22, 26).Draw(rt, "n24")
		if n > maxTx {
			n = maxTx
		}
		return n
	default:
		return rapid.IntRange(1, min(maxTx, 12)).Draw(rt, "n")
	}
}

func (g *Gen) rebuildTxs(rt *rapid.T, v View, pf *parsedFixture, maxTx int) {
	n := drawCount(rt, maxTx)
	switch v.Layout() {
	case LayoutByronMain:
		src := pf.txs
		if len(src) == 0 || rapid.Bool().Draw(rt, "otherByron") {
			src = parsed["byron_main"].txs
		}
		items := make([]*xcbor.Node, 0, n)
		var from []string
		for i := 0; i < n; i++ {
			p := src[rapid.IntRange(0, len(src)-1).Draw(rt, "pick")]
			items = append(items, p.Whole.Clone())
			from = append(from, p.From)
		}
		l := v.txList()
		l.Items = items
		fixWidth(l)
		g.Ops = append(g.Ops, fmt.Sprintf("txs=%d[%s]", n, strings.Join(from, ",")))
	case LayoutSegwit4, LayoutSegwit5:
		// candidates: same fixture, or any fixture of the same or an earlier era
		cross := rapid.IntRange(0, 3).Draw(rt, "crossEra") == 0
		var src []PoolTx
		if cross || len(pf.txs) == 0 {
			for _, p := range poolAll {
				if p.Type <= g.Type && LayoutOf(p.Type) != LayoutDijkstra {
					src = append(src, p)
				}
			}
		} else {
			src = pf.txs
		}
		if len(src) == 0 {
			g.Ops = append(g.Ops, "as-is(no-pool)")
			return
		}
		bodies := make([]*xcbor.Node, 0, n)
		wits := make([]*xcbor.Node, 0, n)
		var auxKV []*xcbor.Node
		var invalid []*xcbor.Node
		var from []string
		for i := 0; i < n; i++ {
			p := src[rapid.IntRange(0, len(src)-1).Draw(rt, "pick")]
			b := p.Body.Clone()
			tag := p.From
			if rapid.IntRange(0, 3).Draw(rt, "editFee") == 0 {
				fee := rapid.Uint64().Draw(rt, "fee")
				if rapid.Bool().Draw(rt, "smallFee") {
					fee &= 0xffffff
				}
				b.MapSet(2, xcbor.U(fee))
				tag += fmt.Sprintf("(fee=%d)", fee)
			}
			bodies = append(bodies, b)
			wits = append(wits, p.Wit.Clone())
			if p.Aux != nil && rapid.IntRange(0, 4).Draw(rt, "keepAux") > 0 {
				auxKV = append(auxKV, xcbor.U(uint64(i)), p.Aux.Clone())
			}
			if v.Layout() == LayoutSegwit5 && (p.Invalid || rapid.IntRange(0, 7).Draw(rt, "invalid") == 0) {
				invalid = append(invalid, xcbor.U(uint64(i)))
				tag += "(invalid)"
			}
			from = append(from, tag)
		}
		v.Root.Items[1].Items = bodies
		fixWidth(v.Root.Items[1])
		v.Root.Items[2].Items = wits
		fixWidth(v.Root.Items[2])
		v.Root.Items[3].Items = auxKV
		if auxKV == nil {
			v.Root.Items[3].Items = []*xcbor.Node{}
		}
		fixWidth(v.Root.Items[3])
		if v.Layout() == LayoutSegwit5 {
			inv := v.Root.Items[4]
			if inv.Kind == xcbor.Tag {
				inv = inv.Items[0]
			}
			inv.Items = invalid
			if invalid == nil {
				inv.Items = []*xcbor.Node{}
			}
			fixWidth(inv)
		}
		g.Ops = append(g.Ops, fmt.Sprintf("txs=%d[%s]", n, strings.Join(from, ",")))
	case LayoutDijkstra:
		var src []PoolTx
		for _, p := range poolAll {
			// Conway transactions are structurally Dijkstra transactions, except that
			// the Dijkstra decoder only takes the map form of redeemers
			if p.Type == fixtures.TypeDijkstra || (p.Type == fixtures.TypeConway && !p.Invalid &&
				(p.Wit.MapGet(5) == nil || p.Wit.MapGet(5).Kind == xcbor.Map)) {
				src = append(src, p)
			}
		}
		if n > 6 { // the standalone fixture transaction is 15 KiB
			n = 6
		}
		items := make([]*xcbor.Node, 0, n)
		var from []string
		var invalid []*xcbor.Node
		for i := 0; i < n; i++ {
			p := src[rapid.IntRange(0, len(src)-1).Draw(rt, "pick")]
			aux := xcbor.Null()
			if p.Aux != nil {
				aux = p.Aux.Clone()
			}
			items = append(items, xcbor.A(p.Body.Clone(), p.Wit.Clone(), aux))
			tag := p.From
			if rapid.IntRange(0, 7).Draw(rt, "invalid") == 0 {
				invalid = append(invalid, xcbor.U(uint64(i)))
				tag += "(invalid)"
			}
			from = append(from, tag)
		}
		l := v.txList()
		l.Items = items
		fixWidth(l)
		// invalid_transactions: nonempty set / nil
		if len(invalid) > 0 {
			v.Root.Items[1].Items[0] = xcbor.A(invalid...)
		} else {
			v.Root.Items[1].Items[0] = xcbor.Null()
		}
		g.Ops = append(g.Ops, fmt.Sprintf("txs=%d[%s]", n, strings.Join(from, ",")))
	}
}

// fixWidth restores the minimal head width after the item count of a definite
// container changed (the style plan may widen it again later).
func fixWidth(n *xcbor.Node) {
	if n.Indef {
		return
	}
	n.Apply(xcbor.FormMinimal, 0)
}

// style focus: which part of the block the plan may touch.
var focusNames = []string{"skeleton", "header", "tx-bodies", "tx-witnesses", "aux", "outputs", "ints", "anywhere"}

func depthOf(path string) int { return strings.Count(path, "/") }

func (g *Gen) restyle(rt *rapid.T, v View, maxEdits int) {
	focus := rapid.SampledFrom(focusNames).Draw(rt, "focus")
	g.Focus = focus
	if maxEdits <= 0 {
		maxEdits = 6
	}
	var bodyPre, witPre, auxPre string
	switch v.Layout() {
	case LayoutSegwit4, LayoutSegwit5:
		bodyPre, witPre, auxPre = "/1", "/2", "/3"
	case LayoutDijkstra:
		bodyPre, witPre, auxPre = "/1/1", "/1/1", "/1/1"
	case LayoutByronMain:
		bodyPre, witPre, auxPre = "/1/0", "/1/0", "/1"
	case LayoutByronEbb:
		bodyPre, witPre, auxPre = "/1", "/1", "/2"
	}
	if focus == "outputs" {
		idx := map[*xcbor.Node]bool{}
		for i := 0; i < v.NTx(); i++ {
			for _, o := range v.Outputs(v.Body(i)) {
				idx[o] = true
				for _, c := range o.Items { // value / address level too
					idx[c] = true
				}
			}
			if v.Layout() != LayoutByronMain {
				if cr := v.Body(i).MapGet(16); cr != nil {
					idx[cr] = true
				}
			}
		}
		o := xcbor.StyleOpts{Filter: func(n *xcbor.Node, _ string) bool { return idx[n] }}
		if len(idx) > 0 {
			o.MaxEdits = maxEdits
			g.Edits = xcbor.Restyle(rt, v.Root, o)
			return
		}
		focus = "skeleton"
		g.Focus = "skeleton(no-outputs)"
	}
	has := func(path, pre string) bool { return path == pre || strings.HasPrefix(path, pre+"/") }
	o := xcbor.StyleOpts{MaxEdits: maxEdits}
	switch focus {
	case "skeleton":
		// the containers the library's own offset code walks: block array,
		// segment arrays, per-transaction containers, header arrays, map keys of bodies
		o.Filter = func(n *xcbor.Node, path string) bool {
			d := depthOf(path)
			if n.Kind == xcbor.Array || n.Kind == xcbor.Map || n.Kind == xcbor.Tag {
				return d <= 4
			}
			return d <= 3 && (n.Kind == xcbor.Uint) // map keys / small ints near the top
		}
	case "header":
		o.Filter = func(n *xcbor.Node, path string) bool { return has(path, "/0") }
	case "tx-bodies":
		o.Filter = func(n *xcbor.Node, path string) bool {
			return has(path, bodyPre) && depthOf(path) <= depthOf(bodyPre)+3
		}
	case "tx-witnesses":
		o.Filter = func(n *xcbor.Node, path string) bool {
			return has(path, witPre) && depthOf(path) <= depthOf(witPre)+4
		}
	case "aux":
		o.Filter = func(n *xcbor.Node, path string) bool { return has(path, auxPre) }
	case "ints":
		o.Kinds = map[xcbor.Kind]bool{xcbor.Uint: true, xcbor.Nint: true}
	}
	g.Edits = xcbor.Restyle(rt, v.Root, o)
	if len(g.Edits) == 0 && focus != "anywhere" {
		// the focus had no admissible node (e.g. an empty aux map that was
		// already picked): fall back to the skeleton so the case is not wasted
		g.Edits = xcbor.Restyle(rt, v.Root, xcbor.StyleOpts{MaxEdits: maxEdits, Filter: func(n *xcbor.Node, path string) bool {
			return depthOf(path) <= 2
		}})
		g.Focus += "+fallback"
	}
}

// setBytes replaces the payload of a byte-string node, keeping its form
// (definite width or the sizes of its indefinite chunks).
func setBytes(n *xcbor.Node, data []byte) {
	if !n.Indef {
		if len(n.Data) != len(data) {
			n.Width = 0
			n.Data = data
			n.Apply(xcbor.FormMinimal, 0)
			return
		}
		n.Data = data
		return
	}
	if len(n.Payload()) != len(data) {
		n.Items = []*xcbor.Node{xcbor.B(data)}
		return
	}
	off := 0
	for _, c := range n.Items {
		l := len(c.Data)
		c.Data = data[off : off+l]
		off += l
	}
}

// setCommitment recomputes block_body_hash in the header body from the bytes
// the body segments will have on the wire.
//
// Shelley..Conway (ledger spec, "bbody" hash): blake2b-256 of the concatenation
// of the blake2b-256 hashes of each body segment (tx bodies, witness sets, aux
// data map [, invalid list]). Dijkstra prototype: blake2b-256 of the block_body
// item itself.
func setCommitment(v View) {
	var h [32]byte
	if v.Layout() == LayoutDijkstra {
		h = Sum256(v.Root.Items[1].Encode())
	} else {
		var cat []byte
		for _, seg := range v.Root.Items[1:] {
			s := Sum256(seg.Encode())
			cat = append(cat, s[:]...)
		}
		h = Sum256(cat)
	}
	hb := v.HeaderBody()
	setBytes(hb.Items[v.bodyHashIndex()], h[:])
}

// ---- standalone items ---------------------------------------------------------

// StandaloneTx builds the standalone ("on the wire in tx-submission") form of
// transaction i of a generated block from the block's byte ranges:
// [body, witnesses, aux/null] (Shelley..Mary, Dijkstra), [body, witnesses,
// is_valid, aux/null] (Alonzo..Conway), [body, witnesses] (Byron). The outer
// array head gets the drawn form.
func StandaloneTx(g *Gen, i int, outer xcbor.Form) []byte {
	v := g.V
	if v.Layout() == LayoutByronMain {
		n := v.Tx(i).Clone()
		if n.CanApply(outer) {
			n.Apply(outer, 0)
		}
		return n.Encode()
	}
	items := []*xcbor.Node{v.Body(i).Clone(), v.Wit(i).Clone()}
	if v.Layout() == LayoutSegwit5 {
		items = append(items, xcbor.Bool(v.Valid(i)))
	}
	if a := v.Aux(i); a != nil {
		items = append(items, a.Clone())
	} else {
		items = append(items, xcbor.Null())
	}
	n := xcbor.A(items...)
	if n.CanApply(outer) {
		n.Apply(outer, 0)
	}
	return n.Encode()
}

// sortedKeys is a small helper for deterministic iteration.
func sortedKeys(m map[string]int) []string {
	ks := make([]string, 0, len(m))
	for k := range m {
		ks = append(ks, k)
	}
	sort.Strings(ks)
	return ks
}
