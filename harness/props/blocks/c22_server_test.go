package blocks

import (
	"bytes"
	"encoding/hex"
	"fmt"
	"sync"
	"time"

	"github.com/blinklabs-io/gouroboros/connection"
	"github.com/blinklabs-io/gouroboros/ledger"
	"github.com/blinklabs-io/gouroboros/muxer"
	"github.com/blinklabs-io/gouroboros/protocol"
	"github.com/blinklabs-io/gouroboros/protocol/chainsync"
	pcommon "github.com/blinklabs-io/gouroboros/protocol/common"

	"verif/harness/internal/evi"
	"verif/harness/internal/fixtures"
	"verif/harness/internal/rawpeer"
	"verif/harness/internal/xcbor"
)

// "Real server end-to-end" family of C22 (deterministic; runs at every seed).
//
// A chainsync.Server is built directly with chainsync.NewServer from
// protocol.ProtocolOptions in every configuration
//
//	Mode {NodeToClient, NodeToNode, omitted (zero value)} x Role {omitted, Server}
//
// on its own muxer over an in-memory pipe, and Server.RollForward /
// Server.RollBackward are called for every era fixture. The other end is (a)
// the harness's raw segment peer, which reads the bytes the server put on the
// wire and parses them with xcbor, and (b) a real chainsync.Client of the
// matching mode. Which protocol the server speaks is what it REGISTERED with
// the muxer - observable as the mini-protocol id its answers arrive on
// (network spec: chain-sync node-to-node = 2, node-to-client = 5): on id 5 the
// node-to-client oracle applies (block with its type, byte-identical), on id 2
// the node-to-node oracle (header item of the block, era index, hash == block
// hash). A server with the mode omitted registers as node-to-client (that is
// what the library's initProtocol documents), so it must serve like one.

const (
	specChainSyncNtN uint16 = 2
	specChainSyncNtC uint16 = 5
)

type srvCfg struct {
	name string
	mode protocol.ProtocolMode
	role protocol.ProtocolRole
}

var srvCfgs = []srvCfg{
	{"mode=ntc,role=omitted", protocol.ProtocolModeNodeToClient, protocol.ProtocolRoleNone},
	{"mode=ntc,role=server", protocol.ProtocolModeNodeToClient, protocol.ProtocolRoleServer},
	{"mode=ntn,role=omitted", protocol.ProtocolModeNodeToNode, protocol.ProtocolRoleNone},
	{"mode=ntn,role=server", protocol.ProtocolModeNodeToNode, protocol.ProtocolRoleServer},
	{"mode=omitted,role=omitted", protocol.ProtocolModeNone, protocol.ProtocolRoleNone},
	{"mode=omitted,role=server", protocol.ProtocolModeNone, protocol.ProtocolRoleServer},
}

// action is what the server does on the next RequestNext.
type srvAction struct {
	fx       *served        // roll forward this block ...
	rollback *pcommon.Point // ... or roll back to this point
	tip      chainsync.Tip
	err      error // result of the Server call
	done     bool
}

type e2eServer struct {
	mu      sync.Mutex
	actions []*srvAction
	next    int
	srv     *chainsync.Server
	mux     *muxer.Muxer
	errCh   chan error
}

func startE2EServer(conn *rawpeer.FragConn, cfg srvCfg, actions []*srvAction) *e2eServer {
	e := &e2eServer{actions: actions, errCh: make(chan error, 32)}
	e.mux = muxer.New(conn)
	ccfg := chainsync.NewConfig(
		chainsync.WithFindIntersectFunc(func(ctx chainsync.CallbackContext, pts []pcommon.Point) (pcommon.Point, chainsync.Tip, error) {
			return pcommon.NewPointOrigin(), chainsync.Tip{Point: pcommon.NewPoint(1, make([]byte, 32)), BlockNumber: 1}, nil
		}),
		chainsync.WithRequestNextFunc(func(ctx chainsync.CallbackContext) error {
			e.mu.Lock()
			i := e.next
			e.next++
			e.mu.Unlock()
			if i >= len(e.actions) {
				return ctx.Server.AwaitReply()
			}
			a := e.actions[i]
			var err error
			if a.rollback != nil {
				err = ctx.Server.RollBackward(*a.rollback, a.tip)
			} else {
				err = ctx.Server.RollForward(a.fx.g.Type, a.fx.g.Bytes, a.tip)
			}
			e.mu.Lock()
			a.err, a.done = err, true
			e.mu.Unlock()
			if err != nil {
				// keep the session alive so the remaining blocks are still judged
				return ctx.Server.AwaitReply()
			}
			return nil
		}),
	)
	e.srv = chainsync.NewServer(protocol.ProtocolOptions{ConnectionId: connection.ConnectionId{LocalAddr: conn.LocalAddr(), RemoteAddr: conn.RemoteAddr()}, Muxer: e.mux, ErrorChan: e.errCh, Mode: cfg.mode, Role: cfg.role}, &ccfg)
	e.srv.Start()
	e.mux.Start()
	return e
}

func (e *e2eServer) stop(conns ...*rawpeer.FragConn) {
	e.mux.Stop()
	for _, c := range conns {
		_ = c.Close()
	}
}

func (e *e2eServer) result(i int) (error, bool) {
	e.mu.Lock()
	defer e.mu.Unlock()
	return e.actions[i].err, e.actions[i].done
}

// fixtureServed lists every era fixture as a served block (as-is bytes).
func fixtureServed(minType uint) []served {
	loadFixtures()
	var out []served
	for _, fx := range fixtures.Blocks() {
		if fx.Type < minType {
			continue
		}
		tree, _ := Fixture(fx.Name)
		g := &Gen{Template: fx.Name, Type: fx.Type, Ops: []string{"as-is"}, Focus: "fixture", Bytes: fx.Bytes, V: View{Type: fx.Type, Root: tree},
			Commitment: fx.Type >= fixtures.TypeShelley}
		out = append(out, newServed(g))
	}
	return out
}

func eraKeyOf(g *Gen) string {
	switch g.Type {
	case fixtures.TypeByronEbb:
		return "byron-ebb"
	case fixtures.TypeByronMain:
		return "byron-main"
	}
	return g.Era()
}

// judgeWire applies the statement to one roll-forward message read off the wire.
func judgeWire(rec *evi.Recorder, cfg srvCfg, pid uint16, s served, msg []byte) {
	g := s.g
	k := func(what string) string {
		return fmt.Sprintf("C22:server-e2e:%s:raw:%s:%s", cfg.name, eraKeyOf(g), what)
	}
	cs := map[string]any{"server": cfg.name, "protocol_id": pid, "fixture": g.Template, "wire_head_hex": hexClip(msg, 64)}
	n, err := xcbor.ParseExact(msg)
	if err != nil || n.Kind != xcbor.Array || len(n.Items) != 3 || n.Items[0].Kind != xcbor.Uint || n.Items[0].Arg != 2 {
		rec.Violation(k("not-roll-forward"), fmt.Sprintf("server %s answered RequestNext for %s on mini-protocol %d with something that is not a 3-element RollForward message", cfg.name, g.Template, pid), cs)
		return
	}
	w := n.Items[1]
	if pid == specChainSyncNtC {
		// [2, #6.24(bytes .cbor [type, block]), tip]
		if w.Kind != xcbor.Tag || w.Arg != 24 || w.Items[0].Kind != xcbor.Bytes {
			rec.Violation(k("wire-shape"), fmt.Sprintf("server %s registered the node-to-client mini-protocol (id 5) but its RollForward for %s does not carry a wrapped block #6.24(bytes) (a node-to-client client cannot decode it)", cfg.name, g.Template), cs)
			return
		}
		inner := w.Items[0].Payload()
		in, err := xcbor.ParseExact(inner)
		if err != nil || in.Kind != xcbor.Array || len(in.Items) != 2 || in.Items[0].Kind != xcbor.Uint {
			rec.Violation(k("wrapped-block-shape"), "wrapped block is not [type, block]", cs)
			return
		}
		if uint(in.Items[0].Arg) != g.Type {
			rec.Violation(k("block-type"), fmt.Sprintf("served block type %d, the wire carries type %d", g.Type, in.Items[0].Arg), cs)
		}
		if !bytes.Equal(inner[in.Items[1].Start:in.Items[1].End], g.Bytes) {
			rec.Violation(k("block-bytes"), "the block on the wire is not byte-identical to the served block", cs)
		}
		return
	}
	// node-to-node: [2, [era, #6.24(bytes = header)], tip]
	if w.Kind != xcbor.Array || len(w.Items) != 2 || w.Items[0].Kind != xcbor.Uint || w.Items[1].Kind != xcbor.Tag || w.Items[1].Arg != 24 || w.Items[1].Items[0].Kind != xcbor.Bytes {
		rec.Violation(k("wire-shape"), fmt.Sprintf("server %s registered the node-to-node mini-protocol (id 2) but its RollForward for %s does not carry [era, #6.24(header bytes)]", cfg.name, g.Template), cs)
		return
	}
	if uint(w.Items[0].Arg) != s.ntnEra {
		rec.Violation(k("era-tag"), fmt.Sprintf("block type %d served with era tag %d, era index is %d", g.Type, w.Items[0].Arg, s.ntnEra), cs)
	}
	hdr := w.Items[1].Items[0].Payload()
	if !bytes.Equal(hdr, s.header) {
		rec.Violation(k("header-bytes"), "the header on the wire is not the header item of the served block", cs)
	} else if h := Sum256(hdr); h != s.hash {
		rec.Violation(k("header-hash"), "hash of the header on the wire differs from the block hash", cs)
	}
}

// serverE2E runs the family; it returns a non-empty string when a harness
// liveness bound was hit (inconclusive, not a violation).
func serverE2E(rec *evi.Recorder) (harnessTimeout string) {
	const wait = 60 * time.Second
	for _, cfg := range srvCfgs {
		wantPid := specChainSyncNtC
		minType := uint(0)
		if cfg.mode == protocol.ProtocolModeNodeToNode {
			wantPid = specChainSyncNtN
			minType = fixtures.TypeShelley // Byron over node-to-node is outside the statement
		}
		blocks := fixtureServed(minType)
		mkActions := func() []*srvAction {
			var as []*srvAction
			for i := range blocks {
				b := &blocks[i]
				as = append(as, &srvAction{fx: b, tip: chainsync.Tip{Point: pcommon.NewPoint(uint64(1000+i), b.hash[:]), BlockNumber: uint64(i + 1)}})
			}
			pt := pcommon.NewPoint(4321, blocks[0].hash[:])
			as = append(as, &srvAction{rollback: &pt, tip: chainsync.Tip{Point: pcommon.NewPoint(9999, blocks[0].hash[:]), BlockNumber: 55}})
			return as
		}

		// ---------- (b) raw peer: what is on the wire, and on which mini-protocol
		{
			a, b := rawpeer.Pipe(nil, nil)
			actions := mkActions()
			e := startE2EServer(b, cfg, actions)
			peer := rawpeer.NewPeer(a)
			// the registered protocol id: a RequestNext on an unregistered id kills the muxer
			pid := wantPid
			for i, act := range actions {
				rec.Eval()
				_ = peer.SendMsg(pid, false, []byte{0x81, 0x00}) // MsgRequestNext
				msg, err := peer.NextMsg(pid, true, wait)
				serr, done := e.result(i)
				name := "rollback"
				if act.fx != nil {
					name = act.fx.g.Template
				}
				key := func(what string) string {
					era := "rollback"
					if act.fx != nil {
						era = eraKeyOf(act.fx.g)
					}
					return fmt.Sprintf("C22:server-e2e:%s:raw:%s:%s", cfg.name, era, what)
				}
				if done && serr != nil {
					rec.Violation(key("server-call-error"), fmt.Sprintf("server %s (answers on mini-protocol %d): Server call for %s failed: %v", cfg.name, pid, name, serr),
						map[string]any{"server": cfg.name, "fixture": name, "error": serr.Error()})
					// the callback answered AwaitReply instead; drop it
					continue
				}
				if err != nil {
					if err == rawpeer.ErrTimeout {
						e.stop(a, b)
						return fmt.Sprintf("server-e2e %s raw: no answer for %s within %v on mini-protocol %d", cfg.name, name, wait, pid)
					}
					rec.Violation(key("no-answer"), fmt.Sprintf("server %s did not answer RequestNext for %s on mini-protocol %d (the id its mode registers): %v", cfg.name, name, pid, err),
						map[string]any{"server": cfg.name, "fixture": name})
					break
				}
				if act.fx != nil {
					judgeWire(rec, cfg, pid, *act.fx, msg)
					rec.Class("server_e2e_raw_rollforward")
					rec.NonTrivial(fmt.Sprintf("server-e2e %s raw %s", cfg.name, name), map[string]any{"family": "server-e2e", "server": cfg.name, "peer": "raw", "fixture": name, "protocol_id": pid, "wire_len": len(msg)})
				} else {
					// [3, point, tip]
					n, perr := xcbor.ParseExact(msg)
					ok := perr == nil && n.Kind == xcbor.Array && len(n.Items) == 3 && n.Items[0].Kind == xcbor.Uint && n.Items[0].Arg == 3 &&
						n.Items[1].Kind == xcbor.Array && len(n.Items[1].Items) == 2 && n.Items[1].Items[0].Arg == 4321 &&
						bytes.Equal(n.Items[1].Items[1].Payload(), blocks[0].hash[:])
					if !ok {
						rec.Violation(key("wire"), fmt.Sprintf("server %s: RollBackward to (4321, hash) is not [3, [4321, hash], tip] on the wire", cfg.name), map[string]any{"wire_hex": hex.EncodeToString(msg)})
					}
					rec.Class("server_e2e_raw_rollback")
				}
			}
			e.stop(a, b)
		}

		// ---------- (a) a real client of the mode the server registered as
		for _, useRaw := range []bool{false, true} {
			a, b := rawpeer.Pipe(nil, nil)
			actions := mkActions()
			e := startE2EServer(b, cfg, actions)
			clientMode := protocol.ProtocolModeNodeToClient
			if wantPid == specChainSyncNtN {
				clientMode = protocol.ProtocolModeNodeToNode
			}
			var mu sync.Mutex
			var arrivals []arrival
			var rollbacks []pcommon.Point
			ev := make(chan struct{}, len(actions)+4)
			opts := []chainsync.ChainSyncOptionFunc{
				chainsync.WithRollBackwardFunc(func(_ chainsync.CallbackContext, p pcommon.Point, _ chainsync.Tip) error {
					mu.Lock()
					rollbacks = append(rollbacks, p)
					mu.Unlock()
					ev <- struct{}{}
					return nil
				}),
			}
			if useRaw {
				opts = append(opts, chainsync.WithRollForwardRawFunc(func(_ chainsync.CallbackContext, bt uint, data []byte, tip chainsync.Tip) error {
					mu.Lock()
					arrivals = append(arrivals, arrival{blockType: bt, raw: append([]byte{}, data...), tipSlot: tip.Point.Slot})
					mu.Unlock()
					ev <- struct{}{}
					return nil
				}))
			} else {
				opts = append(opts, chainsync.WithRollForwardFunc(func(_ chainsync.CallbackContext, bt uint, v any, tip chainsync.Tip) error {
					ar := arrival{blockType: bt, tipSlot: tip.Point.Slot}
					switch x := v.(type) {
					case ledger.Block:
						ar.block = x
					case ledger.BlockHeader:
						ar.header = x
					}
					mu.Lock()
					arrivals = append(arrivals, ar)
					mu.Unlock()
					ev <- struct{}{}
					return nil
				}))
			}
			ccfg := chainsync.NewConfig(opts...)
			cmux := muxer.New(a)
			cerr := make(chan error, 32)
			cli := chainsync.NewClient(protocol.ProtocolOptions{ConnectionId: connection.ConnectionId{LocalAddr: a.LocalAddr(), RemoteAddr: a.RemoteAddr()}, Muxer: cmux, ErrorChan: cerr, Mode: clientMode, Role: protocol.ProtocolRoleClient}, &ccfg)
			cli.Start()
			cmux.Start()
			route := "client"
			if useRaw {
				route = "client-raw"
			}
			var sessErr error
			if err := cli.Sync(nil); err != nil {
				sessErr = fmt.Errorf("Sync: %w", err)
			}
			deadline := time.NewTimer(wait)
			timedOut := false
			for n := 0; sessErr == nil && n < len(actions) && !timedOut; {
				select {
				case <-ev:
					n++
				case err := <-cerr:
					if err != nil {
						sessErr = fmt.Errorf("client: %w", err)
					}
				case err := <-e.errCh:
					if err != nil {
						sessErr = fmt.Errorf("server: %w", err)
					}
				case <-deadline.C:
					timedOut = true
				}
			}
			deadline.Stop()
			mu.Lock()
			got := append([]arrival(nil), arrivals...)
			rbs := append([]pcommon.Point(nil), rollbacks...)
			mu.Unlock()
			cmux.Stop()
			e.stop(a, b)
			// a Server call that failed is a violation in its own right
			for i, act := range actions {
				if serr, done := e.result(i); done && serr != nil {
					era := "rollback"
					if act.fx != nil {
						era = eraKeyOf(act.fx.g)
					}
					rec.Violation(fmt.Sprintf("C22:server-e2e:%s:%s:%s:server-call-error", cfg.name, route, era),
						fmt.Sprintf("server %s: Server call %d failed: %v", cfg.name, i, serr), map[string]any{"server": cfg.name, "error": serr.Error()})
				}
			}
			if timedOut && sessErr == nil && len(got)+len(rbs) < len(actions) {
				// did every server call succeed? then the blocks were sent and did not arrive in time
				return fmt.Sprintf("server-e2e %s %s: %d/%d events within %v", cfg.name, route, len(got)+len(rbs), len(actions), wait)
			}
			rec.Eval()
			c := &c22{rec: rec}
			for i, ar := range got {
				if i >= len(blocks) {
					break
				}
				idx := int(ar.tipSlot) - 1000
				if idx < 0 || idx >= len(blocks) {
					rec.Violation(fmt.Sprintf("C22:server-e2e:%s:%s:tip", cfg.name, route), "roll-forward callback with an unknown tip", nil)
					continue
				}
				c.judgeV(fmt.Sprintf("server-e2e:%s:%s", cfg.name, route), wantPid == specChainSyncNtN, blocks[idx], ar)
				rec.Class("server_e2e_client_rollforward")
				rec.NonTrivial(fmt.Sprintf("server-e2e %s %s %s", cfg.name, route, blocks[idx].g.Template),
					map[string]any{"family": "server-e2e", "server": cfg.name, "peer": route, "fixture": blocks[idx].g.Template})
			}
			if len(got) < len(blocks) {
				missing := blocks[len(got)].g
				rec.Violation(fmt.Sprintf("C22:server-e2e:%s:%s:%s:not-delivered", cfg.name, route, eraKeyOf(missing)),
					fmt.Sprintf("server %s serving a matching real %s client: only %d of %d fixture blocks arrived; first missing %s; session error: %v",
						cfg.name, map[bool]string{true: "node-to-node", false: "node-to-client"}[wantPid == specChainSyncNtN], len(got), len(blocks), missing.Template, sessErr),
					map[string]any{"server": cfg.name, "arrived": len(got), "served": len(blocks), "error": fmt.Sprint(sessErr)})
			} else if len(rbs) != 1 || rbs[0].Slot != 4321 || !bytes.Equal(rbs[0].Hash, blocks[0].hash[:]) {
				if sessErr == nil && !timedOut {
					rec.Violation(fmt.Sprintf("C22:server-e2e:%s:%s:rollback", cfg.name, route), fmt.Sprintf("RollBackward to (4321, hash) arrived as %+v", rbs), nil)
				}
			} else {
				rec.Class("server_e2e_client_rollback")
			}
		}
	}
	return ""
}
