package blocks

import (
	"fmt"
	"reflect"

	gcbor "github.com/blinklabs-io/gouroboros/cbor"
	"github.com/blinklabs-io/gouroboros/ledger"
	"github.com/blinklabs-io/gouroboros/ledger/allegra"
	"github.com/blinklabs-io/gouroboros/ledger/alonzo"
	"github.com/blinklabs-io/gouroboros/ledger/babbage"
	"github.com/blinklabs-io/gouroboros/ledger/byron"
	"github.com/blinklabs-io/gouroboros/ledger/common"
	"github.com/blinklabs-io/gouroboros/ledger/conway"
	"github.com/blinklabs-io/gouroboros/ledger/dijkstra"
	"github.com/blinklabs-io/gouroboros/ledger/mary"
	"github.com/blinklabs-io/gouroboros/ledger/shelley"
	"pgregory.net/rapid"

	"verif/harness/internal/evi"
	"verif/harness/internal/fixtures"
	"verif/harness/internal/xcbor"
)

// Receiver-reuse family of C01.
//
// The library's decoders are written to be decoded into more than once
// ("reset cached/derived fields to avoid stale state on receiver reuse"), and
// Block.Transactions() itself hands out value copies of decoded components.
// So the statement must also hold along a sequence:
//
//	decode A into receiver r; keep objects derived from r (its transactions,
//	its header, outputs, a value copy of r); decode a different B of the same
//	type into the SAME r; then
//	(i)  everything kept from A still reports A's byte ranges, blake2b-256 of
//	     them, and re-serialises to them;
//	(ii) r reports exactly B's ranges / identifiers (nothing stale from A).
//
// Identifiers are lazily computed and cached, so in half of the cases nothing is
// observed on the kept objects before the second decode.

// receivers by block type (index = ledger block type id)
var blockReceivers = []func() any{
	func() any { return new(byron.ByronEpochBoundaryBlock) },
	func() any { return new(byron.ByronMainBlock) },
	func() any { return new(shelley.ShelleyBlock) },
	func() any { return new(allegra.AllegraBlock) },
	func() any { return new(mary.MaryBlock) },
	func() any { return new(alonzo.AlonzoBlock) },
	func() any { return new(babbage.BabbageBlock) },
	func() any { return new(conway.ConwayBlock) },
	func() any { return new(dijkstra.DijkstraBlock) },
}

var headerReceivers = []func() any{
	func() any { return new(byron.ByronEpochBoundaryBlockHeader) },
	func() any { return new(byron.ByronMainBlockHeader) },
	func() any { return new(shelley.ShelleyBlockHeader) },
	func() any { return new(allegra.AllegraBlockHeader) },
	func() any { return new(mary.MaryBlockHeader) },
	func() any { return new(alonzo.AlonzoBlockHeader) },
	func() any { return new(babbage.BabbageBlockHeader) },
	func() any { return new(conway.ConwayBlockHeader) },
	func() any { return new(dijkstra.DijkstraBlockHeader) },
}

// receivers by transaction type (index = ledger tx type id)
var txReceivers = []func() any{
	func() any { return new(byron.ByronTransaction) },
	func() any { return new(shelley.ShelleyTransaction) },
	func() any { return new(allegra.AllegraTransaction) },
	func() any { return new(mary.MaryTransaction) },
	func() any { return new(alonzo.AlonzoTransaction) },
	func() any { return new(babbage.BabbageTransaction) },
	func() any { return new(conway.ConwayTransaction) },
	func() any { return new(dijkstra.DijkstraTransaction) },
}

var bodyReceivers = []func() any{
	nil,
	func() any { return new(shelley.ShelleyTransactionBody) },
	func() any { return new(allegra.AllegraTransactionBody) },
	func() any { return new(mary.MaryTransactionBody) },
	func() any { return new(alonzo.AlonzoTransactionBody) },
	func() any { return new(babbage.BabbageTransactionBody) },
	func() any { return new(conway.ConwayTransactionBody) },
	func() any { return new(dijkstra.DijkstraTransactionBody) },
}

var templatesOfType = map[uint][]string{
	0: {"byron_ebb"}, 1: {"byron_main", "byron_main_testnet"}, 2: {"shelley", "shelley_testnet"}, 3: {"allegra"},
	4: {"mary"}, 5: {"alonzo"}, 6: {"babbage"}, 7: {"conway"}, 8: {"dijkstra"},
}

// valueCopy returns a pointer to a shallow copy of *p (what `saved := *p` does).
func valueCopy(p any) any {
	v := reflect.ValueOf(p).Elem()
	cp := reflect.New(v.Type())
	cp.Elem().Set(v)
	return cp.Interface()
}

func checkReuse(rec *evi.Recorder, rt *rapid.T, g1 *Gen, collect bool) {
	kind := rapid.SampledFrom([]string{"block", "tx", "tx", "header", "body"}).Draw(rt, "reuseKind")
	eager := rapid.Bool().Draw(rt, "reuseEager")
	longerFirst := rapid.IntRange(0, 4).Draw(rt, "reuseLongerFirst") < 3
	if g1.V.Layout() == LayoutByronEbb && kind != "header" {
		kind = "block"
	}
	g2 := GenBlock(rt, GenOpts{Templates: templatesOfType[g1.Type]})
	gA, gB := g1, g2
	mk := func(g *Gen, pfx string) *c01 {
		c := &c01{rec: rec, rt: rt, g: g, pfx: pfx}
		if collect {
			c.rt = nil
		}
		return c
	}
	const keptPfx, recvPfx = "reuse-kept:", "reuse-receiver:"
	rec.Eval()
	rec.Class("reuse_" + kind)
	desc := func(extra string) string {
		return fmt.Sprintf("reuse %s eager=%v A=[%s] B=[%s] %s", kind, eager, gA.Desc(), gB.Desc(), extra)
	}
	sample := func(extra string) map[string]any {
		return map[string]any{"family": "receiver-reuse", "kind": kind, "eager_ids": eager, "A": gA.Sample(), "B": gB.Sample(), "detail": extra}
	}

	switch kind {
	case "block":
		if longerFirst && len(gB.Bytes) > len(gA.Bytes) {
			gA, gB = gB, gA
		}
		recv := blockReceivers[gA.Type]()
		if _, err := gcbor.Decode(gA.Bytes, recv); err != nil {
			rec.Class("reuse_first_decode_rejected")
			return
		}
		blk := recv.(ledger.Block)
		keptTxs := blk.Transactions()
		keptHdr := blk.Header()
		keptCopy := valueCopy(recv).(ledger.Block)
		if eager {
			for _, tx := range keptTxs {
				_ = tx.Id()
				_ = tx.Hash()
			}
			_ = keptHdr.Hash()
			_ = keptCopy.Hash()
		}
		_, err2 := gcbor.Decode(gB.Bytes, recv)
		// (i) kept from A
		ca := mk(gA, keptPfx)
		if len(keptTxs) == gA.V.NTx() {
			for i, tx := range keptTxs {
				ca.checkTx("block-tx", tx, gA.V, i)
			}
		}
		hr := src(gA, gA.V.Header())
		ca.eq("header.Cbor", keptHdr.Cbor(), hr)
		pre := hr
		if gA.Type <= fixtures.TypeByronMain {
			pre = append([]byte{0x82, byte(gA.Type)}, hr...)
		}
		ca.eqHash("header.Hash", keptHdr.Hash(), pre)
		if hb := gA.V.HeaderBody(); hb != nil {
			if got, ok := fieldCbor(keptHdr, "Body"); ok {
				ca.eq("header.Body.Cbor", got, src(gA, hb))
			}
		}
		cc := mk(gA, keptPfx+"copy:")
		cc.checkBlock(keptCopy)
		rec.ClassN("comparisons", ca.cmp+cc.cmp)
		// (ii) the receiver now is B
		if err2 != nil {
			rec.Class("reuse_second_decode_rejected")
		} else {
			cb := mk(gB, recvPfx)
			cb.checkBlock(blk)
			rec.ClassN("comparisons", cb.cmp)
		}
		if len(gB.Bytes) <= len(gA.Bytes) {
			rec.Class("reuse_second_not_longer")
		} else {
			rec.Class("reuse_second_longer")
		}
		rec.NonTrivial(desc(""), sample(""))

	case "header":
		ha, hb := src(gA, gA.V.Header()), src(gB, gB.V.Header())
		if longerFirst && len(hb) > len(ha) {
			gA, gB, ha, hb = gB, gA, hb, ha
		}
		recv := headerReceivers[gA.Type]()
		if _, err := gcbor.Decode(ha, recv); err != nil {
			rec.Class("reuse_first_decode_rejected")
			return
		}
		kept := valueCopy(recv).(common.BlockHeader)
		if eager {
			_ = kept.Hash()
			_ = recv.(common.BlockHeader).Hash()
		}
		_, err2 := gcbor.Decode(hb, recv)
		judge := func(c *c01, h common.BlockHeader, g *Gen, hdr []byte) {
			c.eq("header.Cbor", h.Cbor(), hdr)
			pre := hdr
			if g.Type <= fixtures.TypeByronMain {
				pre = append([]byte{0x82, byte(g.Type)}, hdr...)
			}
			c.eqHash("header.Hash", h.Hash(), pre)
			if hbn := g.V.HeaderBody(); hbn != nil {
				if got, ok := fieldCbor(h, "Body"); ok {
					c.eq("header.Body.Cbor", got, src(g, hbn))
				}
			}
			c.reencode("header.reencode", h, hdr)
		}
		judge(mk(gA, keptPfx+"copy:"), kept, gA, ha)
		if err2 != nil {
			rec.Class("reuse_second_decode_rejected")
		} else {
			judge(mk(gB, recvPfx), recv.(common.BlockHeader), gB, hb)
		}
		rec.NonTrivial(desc(""), sample(""))

	case "tx", "body":
		// two transactions: of the same block or of the two blocks
		if gA.V.NTx() == 0 && gB.V.NTx() > 0 {
			gA, gB = gB, gA
		}
		if gA.V.NTx() == 0 {
			rec.Class("reuse_no_transactions")
			return
		}
		ia := rapid.IntRange(0, gA.V.NTx()-1).Draw(rt, "reuseTxA")
		srcB := gB
		if gB.V.NTx() == 0 || rapid.Bool().Draw(rt, "reuseSameBlock") {
			srcB = gA
		}
		ib := rapid.IntRange(0, srcB.V.NTx()-1).Draw(rt, "reuseTxB")
		outerA := rapid.SampledFrom(xcbor.AllForms).Draw(rt, "reuseOuterA")
		outerB := rapid.SampledFrom(xcbor.AllForms).Draw(rt, "reuseOuterB")
		txType := TxTypeOf(gA.Type)
		type item struct {
			g     *Gen
			i     int
			bytes []byte
			valid bool
			op    string
		}
		var a, b item
		if kind == "tx" {
			a = item{gA, ia, StandaloneTx(gA, ia, outerA), gA.V.Valid(ia), fmt.Sprintf("reuse-tx#%d outer=%s", ia, outerA)}
			b = item{srcB, ib, StandaloneTx(srcB, ib, outerB), srcB.V.Valid(ib), fmt.Sprintf("reuse-tx#%d outer=%s", ib, outerB)}
		} else {
			if txType == 0 {
				rec.Class("reuse_no_byron_body_receiver")
				return
			}
			a = item{gA, ia, src(gA, gA.V.Body(ia)), true, fmt.Sprintf("reuse-body#%d", ia)}
			b = item{srcB, ib, src(srcB, srcB.V.Body(ib)), true, fmt.Sprintf("reuse-body#%d", ib)}
		}
		if longerFirst && len(b.bytes) > len(a.bytes) {
			a, b = b, a
		}
		extra := fmt.Sprintf("A=%s of %s, B=%s of %s", a.op, a.g.Template, b.op, b.g.Template)
		if kind == "tx" {
			// Alonzo..Conway standalone transactions carry is_valid in the bytes
			recv := txReceivers[txType]()
			if _, err := gcbor.Decode(a.bytes, recv); err != nil {
				rec.Class("reuse_first_decode_rejected")
				return
			}
			first := recv.(common.Transaction)
			keptOuts := first.Outputs()
			keptCopy := valueCopy(recv).(common.Transaction)
			if eager {
				_ = keptCopy.Id()
				_ = keptCopy.Hash()
				_ = first.Id()
			}
			_, err2 := gcbor.Decode(b.bytes, recv)
			ca := mk(a.g, keptPfx+"copy:")
			ca.txObjAgainstBytes("standalone-tx", a.op, keptCopy, a.bytes, a.valid)
			// outputs handed out before the second decode
			co := mk(a.g, keptPfx)
			outs := a.g.V.Outputs(a.g.V.Body(a.i))
			if len(keptOuts) == len(outs) {
				for j, o := range keptOuts {
					co.eq("standalone-tx.Output.Cbor", o.Cbor(), src(a.g, outs[j]))
				}
			}
			rec.ClassN("comparisons", ca.cmp+co.cmp)
			if err2 != nil {
				rec.Class("reuse_second_decode_rejected")
			} else {
				cb := mk(b.g, recvPfx)
				cb.txObjAgainstBytes("standalone-tx", b.op, recv.(common.Transaction), b.bytes, b.valid)
				rec.ClassN("comparisons", cb.cmp)
			}
		} else {
			recv := bodyReceivers[txType]()
			if _, err := gcbor.Decode(a.bytes, recv); err != nil {
				rec.Class("reuse_first_decode_rejected")
				return
			}
			keptCopy := valueCopy(recv).(common.TransactionBody)
			if eager {
				_ = keptCopy.Id()
				_ = recv.(common.TransactionBody).Id()
			}
			_, err2 := gcbor.Decode(b.bytes, recv)
			ca := mk(a.g, keptPfx+"copy:")
			ca.eq("standalone-body.Cbor", keptCopy.Cbor(), a.bytes)
			ca.eqHash("standalone-body.Id", keptCopy.Id(), a.bytes)
			ca.reencode("standalone-body.reencode", keptCopy, a.bytes)
			if err2 != nil {
				rec.Class("reuse_second_decode_rejected")
			} else {
				cb := mk(b.g, recvPfx)
				rb := recv.(common.TransactionBody)
				cb.eq("standalone-body.Cbor", rb.Cbor(), b.bytes)
				cb.eqHash("standalone-body.Id", rb.Id(), b.bytes)
				cb.reencode("standalone-body.reencode", rb, b.bytes)
			}
		}
		if len(b.bytes) <= len(a.bytes) {
			rec.Class("reuse_second_not_longer")
		} else {
			rec.Class("reuse_second_longer")
		}
		rec.NonTrivial(desc(extra), sample(extra))
	}
}
