package blocks

import (
	"bytes"
	"encoding/hex"
	"fmt"
	"os"
	"strings"
	"testing"

	gcbor "github.com/blinklabs-io/gouroboros/cbor"
	"github.com/blinklabs-io/gouroboros/ledger"
	"github.com/blinklabs-io/gouroboros/ledger/common"
	"github.com/blinklabs-io/gouroboros/ledger/dijkstra"
	"pgregory.net/rapid"

	"verif/harness/internal/evi"
	"verif/harness/internal/fixtures"
	"verif/harness/internal/xcbor"
)

// c01 carries the reporting context of one oracle evaluation.
type c01 struct {
	rec *evi.Recorder
	rt  *rapid.T // nil in the deterministic sweep
	g   *Gen
	cmp int    // comparisons made in this evaluation
	pfx string // key prefix of a check family ("" = fresh-receiver decode)
}

func (c *c01) eraKey() string {
	switch c.g.V.Layout() {
	case LayoutByronEbb:
		return "byron-ebb"
	case LayoutByronMain:
		return "byron-main"
	}
	return c.g.Era()
}

// fail reports one broken comparison. Returns true when the class is a listed
// known finding (then the caller goes on with the remaining comparisons).
func (c *c01) fail(obj, what string, got, want []byte, extra string) bool {
	key := fmt.Sprintf("C01:%s:%s", c.eraKey(), obj)
	if c.pfx != "" && !c.rec.IsKnown(key) {
		// a family prefix names the history shape (receiver reuse); a class that is
		// already a listed finding of the plain decode keeps its key - it is the
		// same defect seen again, not a new one
		obj = c.pfx + obj
		key = fmt.Sprintf("C01:%s:%s", c.eraKey(), obj)
	}
	msg := fmt.Sprintf("%s [%s]: %s; got %s want %s %s", obj, c.g.Desc(), what, evi.Hex(got), evi.Hex(want), extra)
	cs := c.g.Sample()
	cs["block_hex"] = hex.EncodeToString(c.g.Bytes)
	cs["object"] = obj
	cs["got_hex"] = hex.EncodeToString(got)
	cs["want_hex"] = hex.EncodeToString(want)
	if c.rt != nil {
		return c.rec.Fail(c.rt, key, msg, cs)
	}
	return c.rec.Violation(key, msg, cs)
}

// eq compares a reported encoding with the independent byte range.
func (c *c01) eq(obj string, got, want []byte) bool {
	c.cmp++
	if bytes.Equal(got, want) {
		return true
	}
	what := "reported bytes differ from the byte range the object was decoded from"
	if got == nil {
		what = "no stored bytes reported"
	}
	c.fail(obj, what, got, want, firstDiff(got, want))
	return false
}

func firstDiff(a, b []byte) string {
	n := min(len(a), len(b))
	for i := 0; i < n; i++ {
		if a[i] != b[i] {
			return fmt.Sprintf("(len %d vs %d, first difference at %d)", len(a), len(b), i)
		}
	}
	return fmt.Sprintf("(len %d vs %d)", len(a), len(b))
}

func (c *c01) eqHash(obj string, got common.Blake2b256, preimage []byte) {
	want := Sum256(preimage)
	c.cmp++
	if bytes.Equal(got.Bytes(), want[:]) {
		return
	}
	c.fail(obj, "identifier is not blake2b-256 of the exact wire bytes", got.Bytes(), want[:], "")
}

// reencode checks cbor.Encode(obj) == want. The finding class is the Go type
// of the object (the place a stored-bytes MarshalCBOR would have to live), not
// the era or the path that produced it.
func (c *c01) reencode(obj string, v any, want []byte) {
	got, err := gcbor.Encode(v)
	c.cmp++
	if err == nil && bytes.Equal(got, want) {
		return
	}
	key := "C01:reencode:" + strings.TrimLeft(fmt.Sprintf("%T", v), "*")
	what := "re-serialising the unmodified decoded object does not reproduce the wire bytes"
	if err != nil {
		what = "re-serialising the unmodified decoded object failed: " + err.Error()
	}
	msg := fmt.Sprintf("cbor.Encode(%T) at %s [%s]: %s; got %s want %s %s", v, obj, c.g.Desc(), what, evi.Hex(got), evi.Hex(want), firstDiff(got, want))
	cs := c.g.Sample()
	cs["block_hex"] = hex.EncodeToString(c.g.Bytes)
	cs["object"] = obj
	cs["got_hex"] = hex.EncodeToString(got)
	cs["want_hex"] = hex.EncodeToString(want)
	if c.rt != nil {
		c.rec.Fail(c.rt, key, msg, cs)
		return
	}
	c.rec.Violation(key, msg, cs)
}

func src(g *Gen, n *xcbor.Node) []byte { return g.Bytes[n.Start:n.End] }

// checkBlock runs every comparison on a decoded generated block.
func (c *c01) checkBlock(blk ledger.Block) {
	g := c.g
	v := g.V
	c.eq("block.Cbor", blk.Cbor(), g.Bytes)
	c.reencode("block.reencode", blk, g.Bytes)

	// header
	hdrRange := src(g, v.Header())
	hdr := blk.Header()
	c.eq("header.Cbor", hdr.Cbor(), hdrRange)
	pre := hdrRange
	if g.Type <= fixtures.TypeByronMain {
		// Byron: the block id is the hash of the header wrapped as [block_type, header]
		// (cardano-ledger byron: hashHeader = hash of (tag, header) encoding).
		pre = append([]byte{0x82, byte(g.Type)}, hdrRange...)
	}
	c.eqHash("header.Hash", hdr.Hash(), pre)
	c.eqHash("block.Hash", blk.Hash(), pre)
	if hb := v.HeaderBody(); hb != nil {
		if got, ok := fieldCbor(hdr, "Body"); ok {
			c.eq("header.Body.Cbor", got, src(g, hb))
		}
	}
	c.reencode("header.reencode", hdr, hdrRange)

	// transactions
	txs := blk.Transactions()
	c.cmp++
	if len(txs) != v.NTx() {
		c.fail("block.Transactions.count", fmt.Sprintf("library reports %d transactions, the block carries %d", len(txs), v.NTx()), nil, nil, "")
		return
	}
	for i, tx := range txs {
		c.checkTx("block-tx", tx, v, i)
	}
}

// checkTx compares one decoded transaction with the ranges of (body, witness,
// aux) in view v. inBlock selects the rule for tx.Cbor(): a transaction of a
// segregated block has no contiguous range, so its reported encoding must be a
// CBOR array whose component items are byte-identical to the block's ranges.
func (c *c01) checkTx(where string, tx common.Transaction, v View, i int) {
	g := c.g
	buf := func(n *xcbor.Node) []byte { return src(g, n) }
	bodyR := buf(v.Body(i))
	witR := buf(v.Wit(i))
	var auxR []byte
	auxN := v.Aux(i)
	if auxN != nil {
		auxR = buf(auxN)
	}
	c.txAgainst(where, tx, v, bodyR, witR, auxR, auxN, v.Valid(i), func() []byte {
		if v.Contiguous() {
			return buf(v.Tx(i))
		}
		return nil
	}(), v.Outputs(v.Body(i)), v.Body(i), buf)
}

func (c *c01) txAgainst(where string, tx common.Transaction, v View, bodyR, witR, auxR []byte, auxN *xcbor.Node,
	valid bool, wholeR []byte, outs []*xcbor.Node, bodyN *xcbor.Node, buf func(*xcbor.Node) []byte) {
	// body
	if got, ok := fieldCbor(tx, "Body"); ok {
		c.eq(where+".Body.Cbor", got, bodyR)
	} else {
		c.fail(where+".Body.Cbor", "transaction object has no Body with stored bytes", nil, bodyR, "")
	}
	c.eqHash(where+".Id", tx.Id(), bodyR)
	c.eqHash(where+".Hash", tx.Hash(), bodyR)
	if p, ok := fieldPtr(tx, "Body"); ok {
		c.reencode(where+".Body.reencode", p, bodyR)
	}
	// witnesses
	if bw, ok := tx.(interface{ WitnessesCbor() []byte }); ok { // Byron
		c.eq(where+".WitnessesCbor", bw.WitnessesCbor(), witR)
	} else if got, ok := fieldCbor(tx, "WitnessSet"); ok {
		c.eq(where+".WitnessSet.Cbor", got, witR)
		if p, ok := fieldPtr(tx, "WitnessSet"); ok {
			c.reencode(where+".WitnessSet.reencode", p, witR)
		}
	}
	// outputs
	louts := tx.Outputs()
	c.cmp++
	if len(louts) != len(outs) {
		c.fail(where+".Outputs.count", fmt.Sprintf("library reports %d outputs, the body carries %d", len(louts), len(outs)), nil, nil, "")
	} else {
		for j, o := range louts {
			c.eq(where+".Output.Cbor", o.Cbor(), buf(outs[j]))
			c.reencode(where+".Output.reencode", o, buf(outs[j]))
		}
	}
	if v.Layout() != LayoutByronMain {
		if crN := bodyN.MapGet(16); crN != nil {
			if cr := tx.CollateralReturn(); cr != nil {
				c.eq(where+".CollateralReturn.Cbor", cr.Cbor(), buf(crN))
			}
		}
	}
	// Dijkstra sub-transactions (body key 23: set of [body, witness set, aux/nil])
	if dtx, ok := tx.(*dijkstra.DijkstraTransaction); ok {
		if sn := bodyN.MapGet(23); sn != nil {
			if sn.Kind == xcbor.Tag {
				sn = sn.Items[0]
			}
			subs := dtx.Body.TxSubTransactions.Items()
			c.cmp++
			if len(subs) != len(sn.Items) {
				c.fail(where+".SubTransactions.count", fmt.Sprintf("library reports %d sub-transactions, the body carries %d", len(subs), len(sn.Items)), nil, nil, "")
			} else {
				for j := range subs {
					in := sn.Items[j]
					c.rec.Class("dijkstra_subtx_checked")
					c.eq(where+".SubTx.Cbor", subs[j].Cbor(), buf(in))
					c.eq(where+".SubTx.Body.Cbor", subs[j].Body.Cbor(), buf(in.Items[0]))
					c.eqHash(where+".SubTx.Body.Id", subs[j].Body.Id(), buf(in.Items[0]))
					c.eq(where+".SubTx.WitnessSet.Cbor", subs[j].WitnessSet.Cbor(), buf(in.Items[1]))
					c.reencode(where+".SubTx.reencode", &subs[j], buf(in))
				}
			}
		}
	}
	// auxiliary data
	if auxN != nil {
		if ad := tx.AuxiliaryData(); ad != nil {
			c.eq(where+".AuxiliaryData.Cbor", ad.Cbor(), auxR)
		}
		if md := tx.Metadata(); md != nil {
			if mn := metadataNode(auxN); mn != nil {
				c.eq(where+".Metadata.Cbor", md.Cbor(), buf(mn))
			}
		}
	}
	// the transaction's own encoding
	txc := tx.Cbor()
	if wholeR != nil {
		c.eq(where+".Cbor", txc, wholeR)
		c.reencode(where+".reencode", tx, wholeR)
		return
	}
	// segregated block: components must be preserved inside the reported encoding
	c.cmp++
	n, err := xcbor.ParseExact(txc)
	if err != nil || n.Kind != xcbor.Array {
		c.fail(where+".Cbor:not-an-array", fmt.Sprintf("reported transaction encoding is not one CBOR array (%v)", err), txc, nil, "")
		return
	}
	wantN := 3
	if v.Layout() == LayoutSegwit5 {
		wantN = 4
	}
	if len(n.Items) != wantN {
		c.fail(where+".Cbor:component-count", fmt.Sprintf("reported transaction has %d components, era layout has %d", len(n.Items), wantN), txc, nil, "")
		return
	}
	c.eq(where+".Cbor:body-item", txc[n.Items[0].Start:n.Items[0].End], bodyR)
	c.eq(where+".Cbor:witness-item", txc[n.Items[1].Start:n.Items[1].End], witR)
	if wantN == 4 {
		f := n.Items[2]
		c.cmp++
		if !(f.Kind == xcbor.Simple && ((valid && f.Arg == 21) || (!valid && f.Arg == 20))) {
			c.fail(where+".Cbor:is-valid-item", fmt.Sprintf("is_valid item does not reflect the block's invalid-transactions list (valid=%v)", valid), txc[f.Start:f.End], nil, "")
		}
	}
	last := n.Items[wantN-1]
	if auxN != nil {
		c.eq(where+".Cbor:aux-item", txc[last.Start:last.End], auxR)
	} else {
		c.eq(where+".Cbor:aux-item", txc[last.Start:last.End], []byte{0xf6})
	}
	// re-serialising the transaction object must agree with what it reports
	c.reencode(where+".reencode-vs-Cbor", tx, txc)
}

// checkStandalone decodes items cut out of the generated block through the
// standalone entry points.
func (c *c01) checkStandalone(i int, outer xcbor.Form) {
	g := c.g
	v := g.V
	txType := TxTypeOf(g.Type)
	// --- whole transaction
	txb := StandaloneTx(g, i, outer)
	tx, err := ledger.NewTransactionFromCbor(txType, txb)
	if err != nil {
		c.rec.Class("standalone_tx_rejected")
	} else {
		c.rec.Class("standalone_tx_accepted")
		c.rec.Class("standalone_tx_outer_" + outer.String())
		c.txObjAgainstBytes("standalone-tx", fmt.Sprintf("standalone-tx#%d outer=%s", i, outer), tx, txb, v.Valid(i))
	}
	// --- body
	if g.Type >= fixtures.TypeShelley {
		bb := src(g, v.Body(i))
		body, err := ledger.NewTransactionBodyFromCbor(txType, bb)
		if err != nil {
			c.rec.Class("standalone_body_rejected")
		} else {
			c.rec.Class("standalone_body_accepted")
			c.eq("standalone-body.Cbor", body.Cbor(), bb)
			c.eqHash("standalone-body.Id", body.Id(), bb)
			c.reencode("standalone-body.reencode", body, bb)
		}
	}
	// --- outputs
	for _, on := range v.Outputs(v.Body(i)) {
		ob := src(g, on)
		out, err := ledger.NewTransactionOutputFromCbor(ob)
		if err != nil {
			c.rec.Class("standalone_output_rejected")
			continue
		}
		c.rec.Class("standalone_output_accepted")
		c.eq("standalone-output.Cbor", out.Cbor(), ob)
	}
}

// txObjAgainstBytes compares a decoded standalone transaction object with the
// ranges of the standalone encoding txb it was decoded from.
func (c *c01) txObjAgainstBytes(where, op string, tx common.Transaction, txb []byte, valid bool) {
	g := c.g
	tn, err := xcbor.ParseExact(txb)
	if err != nil {
		panic(err)
	}
	sg := &Gen{Template: g.Template, Type: g.Type, Ops: append(append([]string{}, g.Ops...), op),
		Edits: g.Edits, Focus: g.Focus, Bytes: txb}
	sc := &c01{rec: c.rec, rt: c.rt, g: sg, pfx: c.pfx}
	buf := func(n *xcbor.Node) []byte { return txb[n.Start:n.End] }
	bodyN, witN := tn.Items[0], tn.Items[1]
	var auxN *xcbor.Node
	last := tn.Items[len(tn.Items)-1]
	if len(tn.Items) > 2 && !(last.Kind == xcbor.Simple && last.Arg == 22) {
		auxN = last
	}
	var auxR []byte
	if auxN != nil {
		auxR = buf(auxN)
	}
	sg.V = View{Type: g.Type, Root: tn} // only used for Layout()
	sc.txAgainst(where, tx, sg.V, buf(bodyN), buf(witN), auxR, auxN, valid, txb, sg.V.outputsOfBody(bodyN), bodyN, buf)
	c.cmp += sc.cmp
}

// outputsOfBody is Outputs for a body node that is not part of the view's tree.
func (v View) outputsOfBody(body *xcbor.Node) []*xcbor.Node { return v.Outputs(body) }

func (c *c01) checkStandaloneHeader() {
	g := c.g
	hb := src(g, g.V.Header())
	hdr, err := ledger.NewBlockHeaderFromCbor(g.Type, hb)
	if err != nil {
		c.rec.Class("standalone_header_rejected")
		return
	}
	c.rec.Class("standalone_header_accepted")
	c.eq("standalone-header.Cbor", hdr.Cbor(), hb)
	pre := hb
	if g.Type <= fixtures.TypeByronMain {
		pre = append([]byte{0x82, byte(g.Type)}, hb...)
	}
	c.eqHash("standalone-header.Hash", hdr.Hash(), pre)
	if hbn := g.V.HeaderBody(); hbn != nil {
		if got, ok := fieldCbor(hdr, "Body"); ok {
			c.eq("standalone-header.Body.Cbor", got, src(g, hbn))
		}
	}
	c.reencode("standalone-header.reencode", hdr, hb)
}

// decode runs the era decoder on a generated block: body-hash validation on
// when the commitment was recomputed, off for Byron.
func decodeGen(rec *evi.Recorder, g *Gen) (ledger.Block, error) {
	cfg := common.VerifyConfig{SkipBodyHashValidation: !g.Commitment}
	blk, err := ledger.NewBlockFromCbor(g.Type, g.Bytes, cfg)
	if err != nil && g.Commitment {
		if b2, err2 := ledger.NewBlockFromCbor(g.Type, g.Bytes, common.VerifyConfig{SkipBodyHashValidation: true}); err2 == nil {
			// accepted only with validation off: the library computed another body
			// hash than the harness (measured; judged by hand, see findings/C01.md)
			rec.Class("accepted_only_without_bodyhash_validation")
			rec.SetExtra("bodyhash_disagreement_example", g.Desc()+": "+err.Error())
			return b2, nil
		}
	}
	return blk, err
}

func TestC01(t *testing.T) {
	rec := evi.New(t, "C01", evi.Exploration,
		"generated block = real fixture block of every era (Byron EBB/main, Shelley..Dijkstra), transaction list rebuilt through xcbor (select/duplicate/permute/transplant from same-or-earlier-era fixtures, fee replaced, invalid marks, counts biased to 0/1/23..26), restyled by a rapid-drawn plan of up to 6 different admissible CBOR head forms (minimal/1/2/4/8-byte/indefinite, chunked strings) focused on skeleton|header|tx-bodies|tx-witnesses|aux|outputs|ints|anywhere, header body-hash commitment recomputed with the harness's blake2b-256 (Shelley+; Byron decoded with SkipBodyHashValidation); plus a deterministic sweep of every single head-form change at depth<=2 of every fixture; plus standalone transaction/body/output/header items cut from the generated block; plus (one case in three) a receiver-reuse sequence: decode A into a block/transaction/header/body receiver of the era, keep its transactions, header, outputs and a value copy (identifiers observed before the second decode in half of the cases), decode a different same-era B (not longer than A in ~80%) into the SAME receiver, then the kept objects must still report A and the receiver exactly B. Oracle: every stored-bytes accessor == xcbor byte range, every id == harness blake2b-256 of that range, cbor.Encode(decoded)==range. non-trivial = era decoder accepted the block AND at least one head form differs from the fixture's; distinct by (template, template ops, focus, style edits)")
	defer rec.Finish()
	rec.Assume(
		"xcbor (independent RFC 8949 parser/encoder in the harness) defines 'the byte range an item was decoded from'",
		"blake2b-256 from golang.org/x/crypto is trusted (the library uses the same package)",
		"Byron block id = blake2b-256 of the header wrapped as [block_type, header] (cardano-ledger Byron); Shelley+ id = blake2b-256 of the header item; tx id = blake2b-256 of the body item",
		"a transaction taken from a segregated (Shelley..Conway) block has no contiguous range; its reported encoding must be one array whose body/witness/aux items are byte-identical to the block's ranges and whose is_valid item matches the invalid list",
		"conditional on acceptance: decoders may reject exotic forms (counted, never flagged)",
	)

	// ---- deterministic sweep: fixtures as they are, then every single edit near the top
	loadFixtures()
	sweepDepth := 2
	nSweep := 0
	for _, fx := range fixtures.Blocks() {
		tree, _ := Fixture(fx.Name)
		type plan struct {
			path string
			form xcbor.Form
		}
		plans := []plan{{"", -1}}
		if fx.Name != "byron_ebb" {
			for _, p := range xcbor.Paths(tree, xcbor.StyleOpts{Filter: func(n *xcbor.Node, path string) bool { return depthOf(path) <= sweepDepth }}) {
				for _, f := range xcbor.AllForms {
					if tree.At(p).CanApply(f) {
						plans = append(plans, plan{p, f})
					}
				}
			}
		} else {
			for _, f := range xcbor.AllForms {
				if tree.CanApply(f) {
					plans = append(plans, plan{"", f})
				}
			}
		}
		for _, pl := range plans {
			root := tree.Clone()
			g := &Gen{Template: fx.Name, Type: fx.Type, Ops: []string{"as-is"}, Focus: "sweep"}
			if pl.form >= 0 {
				n := root.At(pl.path)
				n.Apply(pl.form, 3)
				g.Edits = []xcbor.Edit{{Kind: n.Kind, Form: pl.form, Path: pl.path}}
			}
			v := View{Type: fx.Type, Root: root}
			if fx.Type >= fixtures.TypeShelley {
				setCommitment(v)
				g.Commitment = true
			}
			g.Bytes = root.Encode()
			re, err := xcbor.ParseExact(g.Bytes)
			if err != nil {
				t.Fatalf("sweep re-parse: %v", err)
			}
			g.V = View{Type: fx.Type, Root: re}
			if pl.form < 0 && !bytes.Equal(g.Bytes, fx.Bytes) {
				// also validates the harness's commitment computation against a real block
				t.Fatalf("xcbor + recomputed commitment do not reproduce fixture %s", fx.Name)
			}
			blk, err := decodeGen(rec, g)
			rec.Eval()
			nSweep++
			if err != nil {
				rec.Class("sweep_rejected")
				if pl.form < 0 {
					t.Fatalf("fixture %s rejected as-is: %v", fx.Name, err)
				}
				continue
			}
			rec.Class("sweep_accepted")
			c := &c01{rec: rec, g: g}
			c.checkBlock(blk)
			if fx.Name != "byron_ebb" {
				c.checkStandaloneHeader()
				for i := 0; i < g.V.NTx() && i < 3; i++ {
					c.checkStandalone(i, xcbor.FormMinimal)
				}
			}
			rec.ClassN("comparisons", c.cmp)
			if pl.form >= 0 {
				rec.NonTrivial(g.Desc(), g.Sample())
			}
		}
	}
	rec.SetExtra("sweep_cases", nSweep)

	// ---- generated search
	// VERIF_C01_COLLECT=1 (triage aid): keep going after an unlisted failure and
	// report one replay per finding class instead of shrinking the first one.
	collect := os.Getenv("VERIF_C01_COLLECT") != ""
	rejectExamples := map[string]string{}
	rec.Check(func(rt *rapid.T) {
		g := GenBlock(rt, GenOpts{})
		outer := rapid.SampledFrom(xcbor.AllForms).Draw(rt, "standaloneOuter")
		pick := rapid.IntRange(0, 1<<20).Draw(rt, "standalonePick")
		blk, err := decodeGen(rec, g)
		rec.Eval()
		rec.Class("era_" + g.Era())
		rec.Class("focus_" + strings.TrimSuffix(g.Focus, "+fallback"))
		for _, e := range g.Edits {
			rec.Class("edit_" + e.Kind.String() + "_" + e.Form.String())
		}
		if err != nil {
			rec.Class("rejected")
			rec.Class("rejected_" + g.Era())
			if len(rejectExamples) < 12 {
				k := g.Era() + ": " + clipStr(err.Error(), 160)
				if _, seen := rejectExamples[k]; !seen {
					rejectExamples[k] = g.Desc()
					rec.SetExtra("reject_examples", rejectExamples)
				}
			}
			return
		}
		rec.Class("accepted")
		if g.Ops[0] != "as-is" {
			rec.Class("rebuilt_tx_list")
		}
		switch n := g.V.NTx(); {
		case n == 0:
			rec.Class("ntx_0")
		case n < 23:
			rec.Class("ntx_1_22")
		default:
			rec.Class("ntx_23plus")
		}
		c := &c01{rec: rec, rt: rt, g: g}
		if collect {
			c.rt = nil // report through rec.Violation: do not stop at the first class
		}
		c.checkBlock(blk)
		if g.V.Layout() != LayoutByronEbb {
			c.checkStandaloneHeader()
			if n := g.V.NTx(); n > 0 {
				c.checkStandalone(pick%n, outer)
				if n > 1 {
					c.checkStandalone((pick/7+1)%n, xcbor.FormMinimal)
				}
			}
		}
		rec.ClassN("comparisons", c.cmp)
		if len(g.Edits) > 0 {
			rec.NonTrivial(g.Desc(), g.Sample())
		}
		// receiver-reuse family (one case in three): see c01_reuse_test.go
		if rapid.IntRange(0, 2).Draw(rt, "reuse") == 0 {
			checkReuse(rec, rt, g, collect)
		}
	})
}

func clipStr(s string, n int) string {
	if len(s) > n {
		return s[:n] + "..."
	}
	return s
}
