package blocks

import (
	"fmt"
	"testing"

	"verif/harness/internal/fixtures"
	"verif/harness/internal/xcbor"
)

func TestScratchDump(t *testing.T) {
	for _, f := range fixtures.Blocks() {
		n, err := xcbor.ParseExact(f.Bytes)
		if err != nil {
			t.Fatalf("%s: %v", f.Name, err)
		}
		fmt.Printf("%s type=%d len=%d top=%s/%d indef=%v canonical=%v\n", f.Name, f.Type, len(f.Bytes), n.Kind, len(n.Items), n.Indef, n.IsCanonicalForm())
		for i, it := range n.Items {
			fmt.Printf("   [%d] %s items=%d indef=%v w=%d len=%d\n", i, it.Kind, len(it.Items), it.Indef, it.Width, it.End-it.Start)
			if i >= 1 && (it.Kind == xcbor.Array) && len(f.Bytes) < 100000 {
				for j, c := range it.Items {
					if j > 3 { break }
					fmt.Printf("        [%d][%d] %s items=%d indef=%v len=%d\n", i, j, c.Kind, len(c.Items), c.Indef, c.End-c.Start)
				}
			}
		}
	}
	d := fixtures.DijkstraTx()
	n, err := xcbor.ParseExact(d)
	fmt.Println("dijkstra tx", err, n.Kind, len(n.Items), len(d))
}
