package blocks

import (
	"bytes"
	"encoding/hex"
	"fmt"
	"os"
	"runtime"
	"sync"
	"testing"
	"time"

	ouroboros "github.com/blinklabs-io/gouroboros"
	gcbor "github.com/blinklabs-io/gouroboros/cbor"
	"github.com/blinklabs-io/gouroboros/ledger"
	"github.com/blinklabs-io/gouroboros/ledger/common"
	"github.com/blinklabs-io/gouroboros/protocol/chainsync"
	pcommon "github.com/blinklabs-io/gouroboros/protocol/common"
	"pgregory.net/rapid"

	"verif/harness/internal/evi"
	"verif/harness/internal/fixtures"
	"verif/harness/internal/rawpeer"
	"verif/harness/internal/xcbor"
)

const c22Magic = 764824073

// served is what the oracle knows about a block handed to the server, all of
// it from xcbor ranges + the harness's blake2b.
type served struct {
	g      *Gen
	header []byte   // byte range of the header item
	hash   [32]byte // blake2b-256 of the header item (Byron: of [type, header])
	ntnEra uint     // reference NtN era tag of the block type (era index)
}

func newServed(g *Gen) served {
	s := served{g: g, header: src(g, g.V.Header())}
	pre := s.header
	if g.Type <= fixtures.TypeByronMain {
		pre = append([]byte{0x82, byte(g.Type)}, s.header...)
	}
	s.hash = Sum256(pre)
	if g.Type >= fixtures.TypeShelley {
		s.ntnEra = g.Type - 1 // hard-fork-combinator era index
	}
	return s
}

// arrival is what reached the client.
type arrival struct {
	blockType uint
	raw       []byte             // RollForwardRawFunc payload (nil when the decoded callback was used)
	block     ledger.Block       // NtC decoded callback
	header    ledger.BlockHeader // NtN decoded callback
	tipSlot   uint64
}

type c22 struct {
	rec  *evi.Recorder
	rt   *rapid.T
	viol bool // report through rec.Violation (deterministic families)
}

func (c *c22) fail(key, what string, s served, extra map[string]any) {
	cs := s.g.Sample()
	cs["block_hex"] = hex.EncodeToString(s.g.Bytes)
	for k, v := range extra {
		cs[k] = v
	}
	if c.viol || c.rt == nil {
		c.rec.Violation(key, what+" ["+s.g.Desc()+"]", cs)
		return
	}
	c.rec.Fail(c.rt, key, what+" ["+s.g.Desc()+"]", cs)
}

// judgeV is judge for the deterministic families (no rapid case to fail).
func (c *c22) judgeV(route string, ntn bool, s served, a arrival) {
	c.viol = true
	defer func() { c.viol = false }()
	c.judge(route, ntn, s, a)
}

// judge compares one arrival with what was served.
func (c *c22) judge(route string, ntn bool, s served, a arrival) {
	g := s.g
	era := g.Era()
	if g.Type == fixtures.TypeByronEbb {
		era = "byron-ebb"
	}
	k := func(what string) string { return fmt.Sprintf("C22:%s:%s:%s", route, era, what) }
	if a.blockType != g.Type {
		c.fail(k("block-type"), fmt.Sprintf("served block type %d, client got block type %d", g.Type, a.blockType), s, nil)
	}
	if !ntn {
		if a.raw != nil && !bytes.Equal(a.raw, g.Bytes) {
			c.fail(k("raw-bytes"), "block bytes handed to the raw callback differ from the served encoding "+firstDiff(a.raw, g.Bytes), s, map[string]any{"got_hex": hex.EncodeToString(a.raw)})
		}
		if a.block != nil {
			if uint(a.block.Type()) != g.Type {
				c.fail(k("decoded-type"), fmt.Sprintf("decoded block reports Type()=%d, served %d", a.block.Type(), g.Type), s, nil)
			}
			if !bytes.Equal(a.block.Cbor(), g.Bytes) {
				c.fail(k("decoded-cbor"), "decoded block's Cbor() differs from the served encoding "+firstDiff(a.block.Cbor(), g.Bytes), s, map[string]any{"got_hex": hex.EncodeToString(a.block.Cbor())})
			}
			if h := a.block.Hash(); !bytes.Equal(h.Bytes(), s.hash[:]) {
				c.fail(k("decoded-hash"), fmt.Sprintf("decoded block's Hash() %x is not the served block's hash %x", h.Bytes(), s.hash), s, nil)
			}
		}
		return
	}
	// node-to-node: a header arrives
	if a.raw != nil && !bytes.Equal(a.raw, s.header) {
		c.fail(k("raw-header-bytes"), "header bytes handed to the raw callback differ from the header item of the served block "+firstDiff(a.raw, s.header), s, map[string]any{"got_hex": hex.EncodeToString(a.raw)})
	}
	if a.header != nil {
		if !bytes.Equal(a.header.Cbor(), s.header) {
			c.fail(k("header-cbor"), "arrived header's Cbor() differs from the header item of the served block "+firstDiff(a.header.Cbor(), s.header), s, map[string]any{"got_hex": hex.EncodeToString(a.header.Cbor())})
		}
		if h := a.header.Hash(); !bytes.Equal(h.Bytes(), s.hash[:]) {
			c.fail(k("header-hash"), fmt.Sprintf("arrived header's Hash() %x is not the served block's hash %x", h.Bytes(), s.hash), s, nil)
		}
		if e := a.header.Era(); uint(e.Id) != s.ntnEra {
			c.fail(k("header-era"), fmt.Sprintf("arrived header reports era %d (%s), the served block type %d belongs to era %d", e.Id, e.Name, g.Type, s.ntnEra), s, nil)
		}
	}
}

// ---- route 1: constructor -> bytes on the wire -> message decoder ------------------

// wireNtC checks the NtC constructor/decoder pair; restyle!=nil re-encodes the
// wire message's outer structure non-canonically first.
func (c *c22) pairNtC(s served, restyle bool) bool {
	g := s.g
	tip := pcommon.Tip{Point: pcommon.NewPoint(12345, s.hash[:]), BlockNumber: 77}
	m, err := chainsync.NewMsgRollForwardNtC(g.Type, g.Bytes, tip)
	if err != nil {
		c.rec.Class("pair_ntc_constructor_error")
		return false
	}
	wire, err := gcbor.Encode(m)
	if err != nil {
		c.rec.Class("pair_ntc_encode_error")
		return false
	}
	// the wire format, independently: [2, #6.24(bytes .cbor [type, block]), tip]
	wn, perr := xcbor.ParseExact(wire)
	if perr != nil || wn.Kind != xcbor.Array || len(wn.Items) != 3 || wn.Items[1].Kind != xcbor.Tag || wn.Items[1].Arg != 24 ||
		wn.Items[1].Items[0].Kind != xcbor.Bytes {
		c.fail("C22:wire-ntc:shape", "RollForward NtC message is not [2, #6.24(bytes), tip]", s, map[string]any{"wire_hex": evi.Hex(wire)})
		return false
	}
	inner := wn.Items[1].Items[0].Payload()
	in, perr := xcbor.ParseExact(inner)
	if perr != nil || in.Kind != xcbor.Array || len(in.Items) != 2 || in.Items[0].Kind != xcbor.Uint || uint(in.Items[0].Arg) != g.Type ||
		!bytes.Equal(inner[in.Items[1].Start:in.Items[1].End], g.Bytes) {
		c.fail(fmt.Sprintf("C22:wire-ntc:%s:wrapped-block", g.Era()), "the wrapped block on the wire is not [served type, byte-identical served block]", s, map[string]any{"wire_hex": evi.Hex(wire)})
		return false
	}
	route := "pair-ntc"
	if restyle {
		es := xcbor.Restyle(c.rt, wn, xcbor.StyleOpts{MaxEdits: 3, Filter: func(n *xcbor.Node, path string) bool {
			return path == "" || path == "/0" || path == "/1" || path == "/1/t"
		}})
		if len(es) == 0 {
			return false
		}
		wire = wn.Encode()
		route = "pair-ntc-restyled-wire"
		c.rec.Class("wire_restyled_ntc")
	}
	dm, err := chainsync.NewMsgFromCborNtC(chainsync.MessageTypeRollForward, wire)
	if err != nil {
		c.rec.Class(route + "_rejected")
		return false
	}
	rf := dm.(*chainsync.MsgRollForwardNtC)
	a := arrival{blockType: rf.BlockType(), raw: rf.BlockCbor()}
	cfg := common.VerifyConfig{SkipBodyHashValidation: !g.Commitment}
	if blk, err := ledger.NewBlockFromCbor(rf.BlockType(), rf.BlockCbor(), cfg); err == nil {
		a.block = blk
	} else {
		c.rec.Class(route + "_block_rejected")
	}
	c.judge(route, false, s, a)
	return a.block != nil
}

func (c *c22) pairNtN(s served, restyle bool) bool {
	g := s.g
	era, ok := ledger.BlockToBlockHeaderTypeMap[g.Type]
	if !ok {
		c.fail(fmt.Sprintf("C22:pair-ntn:%s:no-header-type", g.Era()), fmt.Sprintf("BlockToBlockHeaderTypeMap has no entry for block type %d", g.Type), s, nil)
		return false
	}
	if era != s.ntnEra {
		c.fail(fmt.Sprintf("C22:pair-ntn:%s:era-tag", g.Era()), fmt.Sprintf("block type %d is served with header era tag %d, the era index is %d", g.Type, era, s.ntnEra), s, nil)
	}
	tip := pcommon.Tip{Point: pcommon.NewPoint(12345, s.hash[:]), BlockNumber: 77}
	m, err := chainsync.NewMsgRollForwardNtN(era, 0, g.Bytes, tip)
	if err != nil {
		c.rec.Class("pair_ntn_constructor_error")
		return false
	}
	wire, err := gcbor.Encode(m)
	if err != nil {
		c.rec.Class("pair_ntn_encode_error")
		return false
	}
	// independently: [2, [era, #6.24(bytes = header item)], tip]
	wn, perr := xcbor.ParseExact(wire)
	if perr != nil || wn.Kind != xcbor.Array || len(wn.Items) != 3 || wn.Items[1].Kind != xcbor.Array || len(wn.Items[1].Items) != 2 ||
		wn.Items[1].Items[1].Kind != xcbor.Tag || wn.Items[1].Items[1].Arg != 24 || wn.Items[1].Items[1].Items[0].Kind != xcbor.Bytes {
		c.fail("C22:wire-ntn:shape", "RollForward NtN message is not [2, [era, #6.24(bytes)], tip]", s, map[string]any{"wire_hex": evi.Hex(wire)})
		return false
	}
	if e := wn.Items[1].Items[0]; e.Kind != xcbor.Uint || uint(e.Arg) != s.ntnEra || !bytes.Equal(wn.Items[1].Items[1].Items[0].Payload(), s.header) {
		c.fail(fmt.Sprintf("C22:wire-ntn:%s:wrapped-header", g.Era()), "the wrapped header on the wire is not [era index, byte-identical header item of the served block]", s, map[string]any{"wire_hex": evi.Hex(wire)})
		return false
	}
	route := "pair-ntn"
	if restyle {
		es := xcbor.Restyle(c.rt, wn, xcbor.StyleOpts{MaxEdits: 3, Filter: func(n *xcbor.Node, path string) bool {
			return path == "" || path == "/0" || path == "/1" || path == "/1/0" || path == "/1/1" || path == "/1/1/t"
		}})
		if len(es) == 0 {
			return false
		}
		wire = wn.Encode()
		route = "pair-ntn-restyled-wire"
		c.rec.Class("wire_restyled_ntn")
	}
	dm, err := chainsync.NewMsgFromCborNtN(chainsync.MessageTypeRollForward, wire)
	if err != nil {
		c.rec.Class(route + "_rejected")
		return false
	}
	rf := dm.(*chainsync.MsgRollForwardNtN)
	// the client's mapping back (client.go handleRollForward)
	bt, ok := ledger.BlockHeaderToBlockTypeMap[rf.WrappedHeader.Era]
	if !ok {
		c.fail(fmt.Sprintf("C22:%s:%s:era-unmapped", route, g.Era()), fmt.Sprintf("header era tag %d on the wire does not map back to a block type", rf.WrappedHeader.Era), s, nil)
		return false
	}
	a := arrival{blockType: bt, raw: rf.WrappedHeader.HeaderCbor()}
	if h, err := ledger.NewBlockHeaderFromCbor(bt, rf.WrappedHeader.HeaderCbor()); err == nil {
		a.header = h
	} else {
		c.rec.Class(route + "_header_rejected")
	}
	c.judge(route, true, s, a)
	// header identity equals block identity as the library itself computes it
	if a.header != nil {
		cfg := common.VerifyConfig{SkipBodyHashValidation: true}
		if blk, err := ledger.NewBlockFromCbor(g.Type, g.Bytes, cfg); err == nil {
			if bh, hh := blk.Hash(), a.header.Hash(); !bytes.Equal(bh.Bytes(), hh.Bytes()) {
				c.fail(fmt.Sprintf("C22:%s:%s:header-hash-vs-block-hash", route, g.Era()), fmt.Sprintf("header.Hash() %x != block.Hash() %x", hh.Bytes(), bh.Bytes()), s, nil)
			}
		}
	}
	return a.header != nil
}

// ---- route 2: real server, real client, in-memory connection ------------------------

type liveResult struct {
	arrivals []arrival
	err      error
	timeout  bool
	dump     string
}

// runLive serves the blocks through chainsync.Server.RollForward on a real
// server-side ouroboros.Connection and collects the client's roll-forward
// callbacks on a real client-side Connection.
func runLive(ntn bool, useRaw bool, blocks []served, planC, planS rawpeer.Plan) liveResult {
	a, b := rawpeer.Pipe(planC, planS)
	var mu sync.Mutex
	var res liveResult
	got := make(chan struct{}, len(blocks)+4)
	next := 0
	skipValidation := false
	for _, s := range blocks {
		if !s.g.Commitment {
			skipValidation = true
		}
	}

	srvCfg := chainsync.NewConfig(
		chainsync.WithFindIntersectFunc(func(ctx chainsync.CallbackContext, pts []pcommon.Point) (pcommon.Point, chainsync.Tip, error) {
			return pcommon.NewPointOrigin(), chainsync.Tip{Point: pcommon.NewPoint(1, make([]byte, 32)), BlockNumber: 1}, nil
		}),
		chainsync.WithRequestNextFunc(func(ctx chainsync.CallbackContext) error {
			mu.Lock()
			i := next
			next++
			mu.Unlock()
			if i >= len(blocks) {
				return ctx.Server.AwaitReply()
			}
			s := blocks[i]
			tip := chainsync.Tip{Point: pcommon.NewPoint(uint64(1000+i), s.hash[:]), BlockNumber: uint64(i + 1)}
			return ctx.Server.RollForward(s.g.Type, s.g.Bytes, tip)
		}),
	)
	record := func(ar arrival) error {
		mu.Lock()
		res.arrivals = append(res.arrivals, ar)
		mu.Unlock()
		got <- struct{}{}
		return nil
	}
	cliOpts := []chainsync.ChainSyncOptionFunc{
		chainsync.WithRollBackwardFunc(func(chainsync.CallbackContext, pcommon.Point, chainsync.Tip) error { return nil }),
	}
	if useRaw {
		cliOpts = append(cliOpts, chainsync.WithRollForwardRawFunc(func(ctx chainsync.CallbackContext, bt uint, data []byte, tip chainsync.Tip) error {
			return record(arrival{blockType: bt, raw: append([]byte{}, data...), tipSlot: tip.Point.Slot})
		}))
	} else {
		cliOpts = append(cliOpts, chainsync.WithRollForwardFunc(func(ctx chainsync.CallbackContext, bt uint, v any, tip chainsync.Tip) error {
			ar := arrival{blockType: bt, tipSlot: tip.Point.Slot}
			switch x := v.(type) {
			case ledger.Block:
				ar.block = x
			case ledger.BlockHeader:
				ar.header = x
			}
			return record(ar)
		}))
	}
	cliCfg := chainsync.NewConfig(cliOpts...)
	cliCfg.SkipBlockValidation = skipValidation

	type connRes struct {
		c   *ouroboros.Connection
		err error
	}
	srvCh := make(chan connRes, 1)
	cliCh := make(chan connRes, 1)
	srvErr := make(chan error, 16)
	cliErr := make(chan error, 16)
	go func() {
		c, err := ouroboros.NewConnection(
			ouroboros.WithConnection(b), ouroboros.WithNetworkMagic(c22Magic), ouroboros.WithServer(true),
			ouroboros.WithNodeToNode(ntn), ouroboros.WithKeepAlive(false), ouroboros.WithErrorChan(srvErr),
			ouroboros.WithChainSyncConfig(srvCfg))
		srvCh <- connRes{c, err}
	}()
	go func() {
		c, err := ouroboros.NewConnection(
			ouroboros.WithConnection(a), ouroboros.WithNetworkMagic(c22Magic),
			ouroboros.WithNodeToNode(ntn), ouroboros.WithKeepAlive(false), ouroboros.WithErrorChan(cliErr),
			ouroboros.WithChainSyncConfig(cliCfg))
		cliCh <- connRes{c, err}
	}()
	deadline := time.NewTimer(90 * time.Second) // bounded liveness of the harness itself, not an oracle
	defer deadline.Stop()
	var srv, cli *ouroboros.Connection
	cleanup := func() {
		if cli != nil {
			_ = cli.Close()
		}
		if srv != nil {
			_ = srv.Close()
		}
		_ = a.Close()
		_ = b.Close()
	}
	defer cleanup()
	for srv == nil || cli == nil {
		select {
		case r := <-srvCh:
			if r.err != nil {
				res.err = fmt.Errorf("server connection: %w", r.err)
				return res
			}
			srv = r.c
		case r := <-cliCh:
			if r.err != nil {
				res.err = fmt.Errorf("client connection: %w", r.err)
				return res
			}
			cli = r.c
		case <-deadline.C:
			res.timeout = true
			res.dump = goroutineDump()
			return res
		}
	}
	if err := cli.ChainSync().Client.Sync(nil); err != nil {
		res.err = fmt.Errorf("Sync: %w", err)
		return res
	}
	for n := 0; n < len(blocks); {
		select {
		case <-got:
			n++
		case err := <-cliErr:
			if err != nil {
				res.err = fmt.Errorf("client: %w", err)
				return res
			}
		case err := <-srvErr:
			if err != nil {
				res.err = fmt.Errorf("server: %w", err)
				return res
			}
		case <-deadline.C:
			res.timeout = true
			res.dump = goroutineDump()
			return res
		}
	}
	return res
}

func goroutineDump() string {
	buf := make([]byte, 1<<18)
	n := runtime.Stack(buf, true)
	return string(buf[:n])
}

// drawPlan draws the read fragmentation of one side. Sleeping yields are only
// combined with chunk sizes >= 1000 bytes: a session moves up to ~100 KiB, and
// byte-wise reads with a sleep each would turn the harness's own pipe into the
// bottleneck (seen as a 90 s "timeout" on a loaded machine).
func drawPlan(rt *rapid.T, name string) rawpeer.Plan {
	switch rapid.IntRange(0, 3).Draw(rt, name+"Frag") {
	case 0:
		return nil
	case 1:
		chunks := rapid.SliceOfN(rapid.SampledFrom([]int{1000, 4096, 0, 65535}), 1, 3).Draw(rt, name+"BigChunks")
		yields := rapid.SliceOfN(rapid.SampledFrom([]int{0, 1, 20}), 1, 3).Draw(rt, name+"Yields")
		return &rawpeer.SeqPlan{Chunks: chunks, Yields: yields}
	default:
		chunks := rapid.SliceOfN(rapid.SampledFrom([]int{1, 2, 7, 8, 9, 64, 1000, 4096, 0}), 1, 4).Draw(rt, name+"Chunks")
		yields := rapid.SliceOfN(rapid.SampledFrom([]int{0, 0, 1}), 1, 3).Draw(rt, name+"Gosched")
		return &rawpeer.SeqPlan{Chunks: chunks, Yields: yields}
	}
}

func TestC22(t *testing.T) {
	rec := evi.New(t, "C22", evi.Exploration,
		"generated blocks (C01 generator: real templates of every era, rebuilt transaction lists, non-canonical CBOR style plans, recomputed header commitment) are pushed (route 1) through NewMsgRollForwardNtC/NtN -> cbor.Encode -> independent xcbor check of the wire shape -> NewMsgFromCborNtC/NtN -> the client's type mapping and block/header decoder, also with the wire message's outer heads restyled; (route 2) through chainsync.Server.RollForward on a real server Connection to the RollForward/RollForwardRaw callback of a real client Connection over an in-memory pipe with generator-chosen read fragmentation, 1..3 blocks per session, NtC (all eras) and NtN (Shelley+). (ownership family, one case in two) the message is built from a scratch buffer holding block A which is then overwritten (next block B / zeros / noise / shifted / untouched) before the message is encoded and decoded, and likewise the wire buffer is overwritten after the client-side decode before block/header are inspected. (server family, deterministic) chainsync.NewServer in Mode {NtC,NtN,omitted} x Role {omitted,Server} serves every era fixture + a RollBackward to the raw peer and to a real client of the mode it registered as. Oracle: same block type; NtC byte-identical block (raw and decoded Cbor()) and hash; NtN header bytes == header item range of the served block, header.Hash() == blake2b-256(header range) == block.Hash(), era tag == era index and maps back to the served type. non-trivial = the message decoded at the receiving side and the block is not a fixture as-is (rebuilt tx list or >=1 non-canonical head); distinct by (route, mode, template, ops, edits)")
	defer rec.Finish()
	rec.Assume(
		"xcbor defines the header item range; blake2b-256 from x/crypto",
		"NtN header era tag = hard-fork-combinator era index (Shelley 1 .. Dijkstra 7); NtC block tag = era index + 1",
		"Byron over node-to-node is outside the statement (Shelley-or-later) and is not judged",
		"conditional on acceptance: a non-canonical block/header the receiving decoder rejects is counted, not flagged",
		"the 90 s waits in the live route are harness liveness bounds; a timeout is reported as inconclusive (harness error), never as a violation",
	)
	harnessTimeout := serverE2E(rec) // deterministic family: real server in every mode configuration
	defer func() {
		if harnessTimeout != "" {
			t.Errorf("harness (inconclusive, not a violation): %s", harnessTimeout)
		}
	}()
	rec.Check(func(rt *rapid.T) {
		if harnessTimeout != "" {
			return
		}
		g := GenBlock(rt, GenOpts{MaxTx: 12})
		s := newServed(g)
		c := &c22{rec: rec, rt: rt}
		nontrivial := g.Ops[0] != "as-is" || len(g.Edits) > 0
		rec.Class("era_" + g.Era())

		// route 1
		rec.Eval()
		okC := c.pairNtC(s, false)
		if okC {
			rec.Class("pair_ntc_ok")
			if nontrivial {
				rec.NonTrivial("pair-ntc "+g.Desc(), withRoute(g, "pair-ntc"))
			}
		}
		if rapid.Bool().Draw(rt, "restyleWireNtC") {
			rec.Eval()
			if c.pairNtC(s, true) {
				rec.Class("pair_ntc_restyled_ok")
			}
		}
		if g.Type >= fixtures.TypeShelley {
			rec.Eval()
			if c.pairNtN(s, false) {
				rec.Class("pair_ntn_ok")
				if nontrivial {
					rec.NonTrivial("pair-ntn "+g.Desc(), withRoute(g, "pair-ntn"))
				}
			}
			if rapid.Bool().Draw(rt, "restyleWireNtN") {
				rec.Eval()
				if c.pairNtN(s, true) {
					rec.Class("pair_ntn_restyled_ok")
				}
			}
		}

		// ownership / buffer-reuse family (c22_ownership_test.go), one case in two
		if rapid.Bool().Draw(rt, "ownership") && g.V.Layout() != LayoutByronEbb {
			c.ownership(s, GenBlock(rt, GenOpts{MaxTx: 6}))
		}

		// route 2
		if rapid.IntRange(0, 2).Draw(rt, "live") != 0 || g.V.Layout() == LayoutByronEbb {
			return // one case in three also takes the live route
		}
		ntn := rapid.Bool().Draw(rt, "liveNtN")
		useRaw := rapid.Bool().Draw(rt, "liveRaw")
		extra := rapid.IntRange(0, 2).Draw(rt, "liveExtraBlocks")
		planC := drawPlan(rt, "planClient")
		planS := drawPlan(rt, "planServer")
		blocks := []served{s}
		for i := 0; i < extra; i++ {
			blocks = append(blocks, newServed(GenBlock(rt, GenOpts{MaxTx: 6})))
		}
		if ntn {
			var keep []served
			for _, b := range blocks {
				if b.g.Type >= fixtures.TypeShelley {
					keep = append(keep, b)
				}
			}
			blocks = keep
			if len(blocks) == 0 {
				rec.Class("live_ntn_skipped_byron_only")
				return
			}
		}
		// the client decodes before the callback unless the raw callback is used; a
		// block its decoder rejects ends the session with an error (counted)
		res := runLive(ntn, useRaw, blocks, planC, planS)
		mode := "ntc"
		if ntn {
			mode = "ntn"
		}
		route := "live-" + mode
		if useRaw {
			route += "-raw"
		}
		rec.Eval()
		if res.timeout {
			// harness liveness bound hit: inconclusive. Do not fail the rapid case (it
			// would shrink through many 90 s sessions); stop the run instead.
			rec.Class("live_timeout")
			if harnessTimeout == "" {
				harnessTimeout = fmt.Sprintf("live %s session did not complete within 90 s: %d/%d arrivals, blocks: %s\ngoroutines:\n%s",
					route, len(res.arrivals), len(blocks), blocks[0].g.Desc(), clipStr(res.dump, 60000))
				fmt.Fprintln(os.Stderr, "HARNESS-TIMEOUT "+clipStr(harnessTimeout, 3000))
			}
			return
		}
		if res.err != nil && len(res.arrivals) < len(blocks) {
			rec.Class("live_" + mode + "_session_error")
			if _, seen := liveErrs[res.err.Error()]; !seen && len(liveErrs) < 8 {
				liveErrs[res.err.Error()] = blocks[len(res.arrivals)].g.Desc()
				rec.SetExtra("live_error_examples", liveErrs)
			}
		}
		for i, a := range res.arrivals {
			if i >= len(blocks) {
				c.fail("C22:"+route+":surplus-callback", "more roll-forward callbacks than blocks served", blocks[0], nil)
				break
			}
			if a.tipSlot != uint64(1000+i) {
				c.fail("C22:"+route+":order", fmt.Sprintf("callback %d carries the tip of served block %d", i, int(a.tipSlot)-1000), blocks[i], nil)
				break
			}
			c.judge(route, ntn, blocks[i], a)
			rec.Class("live_" + mode + "_arrived")
			bg := blocks[i].g
			if bg.Ops[0] != "as-is" || len(bg.Edits) > 0 {
				rec.NonTrivial(fmt.Sprintf("%s #%d %s", route, i, bg.Desc()), withRoute(bg, route))
			}
		}
	})
}

var liveErrs = map[string]string{}

func withRoute(g *Gen, route string) map[string]any {
	s := g.Sample()
	s["route"] = route
	return s
}
