package pipe

import (
	"context"
	"fmt"
	"strings"
	"time"

	"pgregory.net/rapid"

	"verif/harness/internal/evi"
)

// ---------------------------------------------------------------------------
// C43 under backpressure with failing submissions. The harness owns the
// schedule through gates (no latency guessing): block #1 (the plug) is held at
// a generated place, so the small pipeline fills up; the following submissions
// use contexts that expire after 0.3..5 ms or are already cancelled, so some
// are accepted and some fail while blocked on the full submit queue. Further
// accepted blocks are held at generated places. Then PendingCount() is read
// (it must not be below the number of accepted blocks the harness is holding),
// WaitForDrain is started while blocks are still held, the gates are opened one
// by one with more than one poll interval between them, and at the end the
// counter must read 0 and a second WaitForDrain must succeed.
// ---------------------------------------------------------------------------

type c43BPScenario struct {
	Cfg        pipeCfg
	Submitters int
	Items      []*itemPlan
	Gates      [][2]int // {id, stage}; stage 0/1 = decode/validate worker, 2 = ApplyFunc
	Release    []int    // indices into Gates, release order
	Pauses     []time.Duration
	WaitLead   time.Duration // WaitForDrain runs this long before the first gate opens
}

func genC43BP(rt *rapid.T) *c43BPScenario {
	sc := &c43BPScenario{}
	sc.Cfg.DecodeW = rapid.IntRange(1, 2).Draw(rt, "bpDecodeWorkers")
	if rapid.IntRange(0, 2).Draw(rt, "bpValidation") == 2 {
		sc.Cfg.ValidateW = rapid.IntRange(1, 2).Draw(rt, "bpValidateWorkers")
		sc.Cfg.SkipBodyHash = true
	} else {
		sc.Cfg.SkipBodyHash = rapid.Bool().Draw(rt, "bpSkipBodyHash")
	}
	sc.Cfg.Buf = rapid.IntRange(1, 3).Draw(rt, "bpBuffer")
	sc.Submitters = 1
	if rapid.IntRange(0, 3).Draw(rt, "bpTwoSubmitters") == 3 {
		sc.Submitters = 2
	}
	nStages := 2 // decode, (validate), apply
	stageOf := func(label string) int {
		k := rapid.IntRange(0, nStages).Draw(rt, label)
		if k == 1 && sc.Cfg.ValidateW == 0 {
			k = 2
		}
		return k
	}
	n := rapid.IntRange(4, 14).Draw(rt, "bpSubmissions")
	hdr := nFixture
	if !sc.Cfg.SkipBodyHash {
		hdr = 0
	}
	for i := 1; i <= n; i++ {
		pl := &itemPlan{ID: i, CtxKind: ctxPatient}
		if i == 1 {
			// the plug: a good block, accepted for sure (empty pipeline, background context)
			pl.In = classify(inputSpec{Base: hdr, Kind: "valid"}, sc.Cfg.SkipBodyHash, sc.Cfg.ValidateW > 0)
			sc.Gates = append(sc.Gates, [2]int{1, stageOf("bpPlugStage")})
		} else {
			pl.In = genInput(rt, sc.Cfg, 85)
			if rapid.IntRange(0, 3).Draw(rt, "bpCtx") == 3 {
				pl.CtxKind = ctxCancelled
			} else {
				pl.CtxKind = ctxExpiring
				pl.CtxTimeout = time.Duration(rapid.IntRange(300, 5000).Draw(rt, "bpCtxUs")) * time.Microsecond
			}
			if sc.Submitters > 1 {
				pl.Submitter = rapid.IntRange(0, 1).Draw(rt, "bpSubmitter")
			}
			if pl.In.good(sc.Cfg.ValidateW > 0) && rapid.IntRange(0, 2).Draw(rt, "bpGate") == 2 {
				sc.Gates = append(sc.Gates, [2]int{i, stageOf("bpGateStage")})
			}
		}
		sc.Items = append(sc.Items, pl)
	}
	// release order: usually the plug first, the others in generated order
	rest := make([]int, 0, len(sc.Gates))
	for i := 1; i < len(sc.Gates); i++ {
		rest = append(rest, i)
	}
	if len(rest) > 1 {
		rest = rapid.Permutation(rest).Draw(rt, "bpReleaseOrder")
	}
	if rapid.IntRange(0, 3).Draw(rt, "bpPlugLast") == 3 {
		sc.Release = append(rest, 0)
	} else {
		sc.Release = append([]int{0}, rest...)
	}
	for range sc.Release {
		// longer than WaitForDrain's 10 ms poll interval: every intermediate count is seen by a poll
		sc.Pauses = append(sc.Pauses, time.Duration(rapid.IntRange(12, 25).Draw(rt, "bpPauseMs"))*time.Millisecond)
	}
	sc.WaitLead = time.Duration(rapid.IntRange(0, 25).Draw(rt, "bpWaitLeadMs")) * time.Millisecond
	return sc
}

func (sc *c43BPScenario) caseObj(w *world, drains []c43Drain) map[string]any {
	validate := sc.Cfg.ValidateW > 0
	var items, gates []string
	for _, p := range sc.Items {
		it := p.desc(validate)
		if w != nil {
			it += " => Submit: " + errKind(w.ev[p.ID].submitErr)
		}
		items = append(items, it)
	}
	names := []string{"decode worker", "validate worker", "ApplyFunc"}
	for i, ri := range sc.Release {
		g := sc.Gates[ri]
		gates = append(gates, fmt.Sprintf("block #%d held in %s; released as no. %d, then pause %v", g[0], names[g[1]], i+1, sc.Pauses[i]))
	}
	m := map[string]any{
		"mode": "backpressure with failing submissions (gates)", "config": sc.Cfg, "submitters": sc.Submitters,
		"submissions": items, "held_blocks": gates, "wait_lead": sc.WaitLead.String(),
	}
	if w != nil {
		var ds, ss []string
		for i, d := range drains {
			ds = append(ds, fmt.Sprintf("WaitForDrain #%d called t=%d returned t=%d err=%v", i+1, d.call.ts, d.ret.ts, d.err))
		}
		for _, s := range w.samples {
			ss = append(ss, fmt.Sprintf("PendingCount()=%d between t=%d and t=%d (%s)", s.pc, s.t1.ts, s.t2.ts, s.note))
		}
		m["waits"], m["pending_count_readings"], m["history"] = ds, ss, w.historyText()
	}
	return m
}

func c43BackpressureCase(rec *evi.Recorder, rt *rapid.T, drainTimeouts *int) {
	sc := genC43BP(rt)
	w := newWorld(sc.Cfg, sc.Items)
	for _, g := range sc.Gates {
		w.addGate(g[0], g[1])
	}
	if err := w.start(); err != nil {
		rt.Fatalf("harness: pipeline did not start: %v", err)
	}
	// fill phase: every submission after the plug has a short or dead context, so this ends by itself
	w.submit(sc.Items[0])
	<-w.runSubmitters(sc.Items[1:])
	w.samplePending("all Submit calls returned, every gate still closed")

	bound := 2*time.Second + 20*(sc.WaitLead+25*time.Millisecond*time.Duration(len(sc.Release)))
	if *drainTimeouts >= 3 {
		bound = 700 * time.Millisecond
	}
	first := make(chan c43Drain, 1)
	go func() {
		ctx, cancel := context.WithTimeout(context.Background(), bound)
		defer cancel()
		d := c43Drain{call: w.tick()}
		d.err = w.p.WaitForDrain(ctx)
		d.ret = w.tick()
		first <- d
	}()
	time.Sleep(sc.WaitLead)
	for i, ri := range sc.Release {
		g := sc.Gates[ri]
		w.openGate(g[0], g[1])
		time.Sleep(sc.Pauses[i])
		w.samplePending(fmt.Sprintf("%v after opening the gate of block #%d", sc.Pauses[i], g[0]))
	}
	complete := w.waitCond(func() bool {
		n, r, _, _ := w.counts()
		return r >= n
	}, 10*time.Second)
	dump := ""
	if !complete {
		dump = clipStr(stackOfAll(), 30000)
	}
	drains := []c43Drain{<-first}
	endPC := 0
	if complete {
		endPC = w.p.PendingCount()
		if endPC == 0 { // then a fresh wait has nothing to wait for
			ctx, cancel := context.WithTimeout(context.Background(), bound)
			d := c43Drain{call: w.tick()}
			d.err = w.p.WaitForDrain(ctx)
			d.ret = w.tick()
			cancel()
			drains = append(drains, d)
		}
	}
	probs := w.finish()
	fs, okDrains, heldDuring := judgeC43(w, drains)
	fs = append(fs, judgePendingCount(w, complete, endPC)...)
	rec.EvalN(len(drains) + len(w.samples))

	failedCtx, accepted := 0, 0
	for _, p := range sc.Items {
		e := w.ev[p.ID]
		if e.submitted() {
			accepted++
		} else if k := errKind(e.submitErr); k == "deadline-exceeded" || k == "canceled" {
			failedCtx++
			rec.Class("bp_submit_failed_" + k)
		}
	}
	rec.Class("backpressure_case")
	rec.ClassN("bp_submits_accepted", accepted)
	rec.ClassN("drains_returned_nil", okDrains)
	rec.ClassN("drains_with_block_inside_worker_or_apply_during_wait", heldDuring)
	rec.ClassN("bp_pending_count_readings", len(w.samples))
	if failedCtx > 0 && accepted > 1 {
		rec.Class("bp_failed_submit_while_blocks_held")
		var sb strings.Builder
		fmt.Fprintf(&sb, "bp;%s;subs=%d;lead=%v", sc.Cfg.String(), sc.Submitters, sc.WaitLead)
		for _, p := range sc.Items {
			sb.WriteString(";" + p.desc(w.validate) + "=>" + errKind(w.ev[p.ID].submitErr))
		}
		for i, ri := range sc.Release {
			fmt.Fprintf(&sb, ";g%v/%v", sc.Gates[ri], sc.Pauses[i])
		}
		rec.NonTrivial(sb.String(), sc.caseObj(nil, nil))
	}
	if okDrains < len(drains) {
		rec.Class("drain_did_not_return_nil_within_bound(no claim)")
		*drainTimeouts++
	}
	for _, id := range w.sortedIDs() {
		if e := w.ev[id]; e.submitPanic != "" {
			rec.Fail(rt, "panic:submit", fmt.Sprintf("Submit of block #%d panicked: %s", id, clipStr(e.submitPanic, 20000)), sc.caseObj(w, drains))
		}
	}
	if !complete {
		rt.Fatalf("harness: pipeline did not finish the accepted blocks after all gates were opened (not a C43 question)\n%s", dump)
	}
	if s, ok := probs["stop-hangs"]; ok {
		rt.Fatalf("harness: %s", s)
	}
	for _, f := range fs {
		rec.Fail(rt, f.key, f.what, sc.caseObj(w, drains))
	}
}
