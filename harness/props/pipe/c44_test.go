package pipe

import (
	"context"
	"errors"
	"fmt"
	"sort"
	"strings"
	"testing"
	"time"

	"github.com/blinklabs-io/gouroboros/pipeline"
	"pgregory.net/rapid"

	"verif/harness/internal/evi"
)

// C44: a submission that returns an error (e.g. its context expired while the
// pipeline applied backpressure) does not prevent blocks submitted
// successfully afterwards from being applied.

type c44Scenario struct {
	Cfg        pipeCfg
	Submitters int
	Items      []*itemPlan
	GateOpen   time.Duration // ApplyFunc is blocked until this long after the start (backpressure)
}

func genC44(rt *rapid.T, maxN int) *c44Scenario {
	sc := &c44Scenario{}
	// mostly small capacities, so that the pipeline really fills up while
	// ApplyFunc is blocked and expiring submissions run into backpressure
	tight := rapid.IntRange(0, 9).Draw(rt, "tight") < 7
	maxW := 16
	if tight {
		maxW = 3
	}
	sc.Cfg.DecodeW = rapid.IntRange(1, maxW).Draw(rt, "decodeWorkers")
	if rapid.IntRange(0, 2).Draw(rt, "validation") == 2 {
		sc.Cfg.ValidateW = rapid.IntRange(1, maxW).Draw(rt, "validateWorkers")
		sc.Cfg.SkipBodyHash = true
	} else {
		sc.Cfg.SkipBodyHash = rapid.Bool().Draw(rt, "skipBodyHash")
	}
	if tight {
		sc.Cfg.Buf = rapid.IntRange(1, 2).Draw(rt, "buffer")
	} else {
		sc.Cfg.Buf = rapid.SampledFrom([]int{1, 2, 3, 8}).Draw(rt, "buffer")
	}
	sc.Submitters = rapid.IntRange(1, 2).Draw(rt, "submitters")
	n := rapid.IntRange(2, maxN).Draw(rt, "n")
	sc.GateOpen = time.Duration(rapid.IntRange(0, 30).Draw(rt, "gateOpenMs")) * time.Millisecond
	for i := 1; i <= n; i++ {
		pl := &itemPlan{ID: i, CtxKind: ctxPatient}
		pl.In = genInput(rt, sc.Cfg, 85)
		switch k := rapid.IntRange(0, 19).Draw(rt, "ctx"); {
		case k >= 18:
			pl.CtxKind = ctxCancelled
		case k >= 10:
			pl.CtxKind = ctxExpiring
			pl.CtxTimeout = time.Duration(rapid.IntRange(100, 3000).Draw(rt, "ctxUs")) * time.Microsecond
		}
		pl.Delay[sDecode] = genDelay(rt, "dec", 1500)
		if sc.Cfg.ValidateW > 0 {
			pl.Delay[sValidate] = genDelay(rt, "val", 1500)
		}
		pl.ApplyDelay = genDelay(rt, "app", 800)
		if sc.Submitters > 1 {
			pl.Submitter = rapid.IntRange(0, 1).Draw(rt, "submitter")
		}
		sc.Items = append(sc.Items, pl)
	}
	return sc
}

func errKind(err error) string {
	switch {
	case err == nil:
		return "nil"
	case errors.Is(err, context.DeadlineExceeded):
		return "deadline-exceeded"
	case errors.Is(err, context.Canceled):
		return "canceled"
	case errors.Is(err, pipeline.ErrPipelineStopped):
		return "pipeline-stopped"
	}
	return "other"
}

type c44Verdict struct {
	key, what   string
	outside     int // unapplied good blocks with no failed submission before them (outside the statement)
	failedKinds map[string]int
	nonTrivial  bool
	expiredOK   int // expiring-context submissions that nevertheless succeeded
}

// judgeC44 is the oracle: every good block whose Submit returned nil after a
// failed Submit had returned must have been applied.
func judgeC44(w *world) c44Verdict {
	w.mu.Lock()
	defer w.mu.Unlock()
	v := c44Verdict{failedKinds: map[string]int{}}
	type fe struct {
		id int
		e  *itemEv
	}
	var failed []fe
	for _, id := range w.sortedIDs() {
		e := w.ev[id]
		if e.submitEnd.ok() && e.submitErr != nil {
			failed = append(failed, fe{id, e})
			v.failedKinds[errKind(e.submitErr)]++
		}
		if e.submitted() && w.plans[id].CtxKind == ctxExpiring {
			v.expiredOK++
		}
	}
	sort.Slice(failed, func(i, j int) bool { return failed[i].e.submitEnd.ts < failed[j].e.submitEnd.ts })
	var victims []int
	var firstF *fe
	for _, id := range w.sortedIDs() {
		e, pl := w.ev[id], w.plans[id]
		if !e.submitted() || !pl.In.good(w.validate) {
			continue
		}
		var before *fe
		for i := range failed {
			if failed[i].e.submitEnd.ts < e.submitEnd.ts {
				before = &failed[i]
				break
			}
		}
		if before != nil {
			v.nonTrivial = true
		}
		if len(e.applies) > 0 {
			continue
		}
		if before == nil {
			v.outside++
			continue
		}
		victims = append(victims, id)
		if firstF == nil || before.e.submitEnd.ts < firstF.e.submitEnd.ts {
			firstF = before
		}
	}
	if len(victims) == 0 {
		return v
	}
	// Shape of the stall, for the finding key only: does the history look like
	// "one sequence number was consumed by a failed Submit and everything
	// numbered after it is stuck"? Sequence numbers are read off the items seen
	// by the worker hook (diagnostic, not part of the oracle).
	shape := "burnt-sequence-gap"
	seqs := map[uint64]int{}
	var maxSeq uint64
	for _, id := range w.sortedIDs() {
		e := w.ev[id]
		if !e.submitted() {
			continue
		}
		if !e.seqKnown {
			shape = "other-pattern(block never reached a decode worker)"
			break
		}
		if _, dup := seqs[e.seq]; dup {
			shape = "other-pattern(duplicate sequence numbers)"
			break
		}
		seqs[e.seq] = id
		if e.seq > maxSeq {
			maxSeq = e.seq
		}
	}
	if shape == "burnt-sequence-gap" {
		gap, nGaps := uint64(0), 0
		for q := uint64(0); q < maxSeq; q++ {
			if _, ok := seqs[q]; !ok {
				if nGaps == 0 {
					gap = q
				}
				nGaps++
			}
		}
		switch {
		case nGaps == 0:
			shape = "other-pattern(no sequence gap)"
		case nGaps > len(failed):
			shape = "other-pattern(more gaps than failed submissions)"
		default:
			for q, id := range seqs {
				if !w.plans[id].In.good(w.validate) {
					continue
				}
				if applied := len(w.ev[id].applies) > 0; applied != (q < gap) {
					shape = "other-pattern(applied set is not exactly the blocks numbered below the gap)"
					break
				}
			}
		}
	}
	kind := errKind(firstF.e.submitErr)
	v.key = fmt.Sprintf("never-applied-after-failed-submit:err=%s:%s", kind, shape)
	v.what = fmt.Sprintf("Submit of block #%d returned %q (t=%d); %d good block(s) whose Submit returned nil afterwards were never applied: %v", firstF.id, firstF.e.submitErr, firstF.e.submitEnd.ts, len(victims), victims)
	return v
}

func (sc *c44Scenario) caseObj(w *world) map[string]any {
	items := make([]string, len(sc.Items))
	for i, p := range sc.Items {
		items[i] = p.desc(sc.Cfg.ValidateW > 0)
	}
	m := map[string]any{
		"config":     sc.Cfg,
		"submitters": sc.Submitters,
		"items":      items,
		"apply_gate": fmt.Sprintf("ApplyFunc blocked until %v after start", sc.GateOpen),
	}
	if w != nil {
		m["history"] = w.historyText()
	}
	return m
}

func TestC44(t *testing.T) {
	rec := evi.New(t, "C44", evi.Exploration,
		"one case = pipeline config (1..16 decode workers, optional validation, buffer 1..8) + 2..N submissions by 1..2 goroutines, each with a background context, a context expiring after 0.1..3 ms, or an already-cancelled context, while ApplyFunc is blocked for the first 0..30 ms (backpressure: the pipeline fills up and expiring submissions fail), then released; non-trivial = at least one Submit returned an error and at least one good block's Submit returned nil after it; distinct by config+items+gate time+observed submit outcomes")
	defer rec.Finish()
	rec.Assume(
		"'later' is read on completion order: the successful Submit returned after the failed Submit returned (logical clock)",
		"bounded liveness: after all submissions returned and ApplyFunc is released, a good block counts as never applied when no pipeline event at all was recorded for 0.7 s (6 s before an unlisted finding is reported); the expected latency of one step is below 10 ms; the report carries a goroutine dump",
		"'decodes' / 'validates' are defined by direct calls of the ledger decoder / VerifyBlock",
	)
	maxN := rec.Pick(12, 24)
	stalls := 0
	rec.Check(func(rt *rapid.T) {
		sc := genC44(rt, maxN)
		w := newWorld(sc.Cfg, sc.Items)
		w.gate = make(chan struct{})
		if err := w.start(); err != nil {
			rt.Fatalf("harness: pipeline did not start: %v", err)
		}
		gateOpened := make(chan struct{})
		go func() {
			time.Sleep(sc.GateOpen)
			close(w.gate)
			w.touch()
			close(gateOpened)
		}()
		subDone := w.runSubmitters(sc.Items)
		<-gateOpened
		hung := ""
		if !w.waitChan(subDone, 10*time.Second) {
			hung = clipStr(stackOfAll(), 30000)
			w.stopAsync()
			w.waitChan(subDone, 10*time.Second)
		}
		allApplied := func() bool {
			_, _, ga, gs := w.counts()
			return ga >= gs
		}
		dump := ""
		if hung == "" && !w.waitCond(allApplied, 700*time.Millisecond) {
			// quiet for 0.7 s: provisional verdict; confirm longer unless it is a listed finding
			if v := judgeC44(w); v.key != "" && !rec.IsKnown(v.key) {
				w.waitCond(allApplied, 6*time.Second)
			}
			if !allApplied() {
				dump = clipStr(stackOfAll(), 30000)
			}
		}
		probs := w.finish()
		v := judgeC44(w)
		rec.Eval()

		for k, n := range v.failedKinds {
			rec.ClassN("submit_failed_"+k, n)
		}
		rec.ClassN("expiring_ctx_but_submitted", v.expiredOK)
		if v.outside > 0 {
			rec.Class("unapplied_without_prior_failed_submit(outside statement)")
		}
		if sc.Submitters > 1 {
			rec.Class("two_submitters")
		}
		if sc.Cfg.ValidateW > 0 {
			rec.Class("validation_on")
		}
		if v.nonTrivial {
			rec.Class("failed_then_successful_submit")
			var sb strings.Builder
			sb.WriteString(sc.Cfg.String() + fmt.Sprintf(";gate=%v;subs=%d", sc.GateOpen, sc.Submitters))
			outcomes := make([]string, 0, len(sc.Items))
			for _, p := range sc.Items {
				o := errKind(w.ev[p.ID].submitErr)
				sb.WriteString(";" + p.desc(w.validate) + "=>" + o)
				outcomes = append(outcomes, fmt.Sprintf("#%d:%s", p.ID, o))
			}
			smp := sc.caseObj(nil)
			smp["submit_outcomes"] = outcomes
			smp["applied"] = len(w.applyLog)
			rec.NonTrivial(sb.String(), smp)
		} else {
			rec.Class("no_failed_submit_before_a_successful_one")
		}

		for _, id := range w.sortedIDs() {
			if e := w.ev[id]; e.submitPanic != "" {
				rec.Fail(rt, "panic:submit", fmt.Sprintf("Submit of block #%d panicked: %s", id, clipStr(e.submitPanic, 20000)), sc.caseObj(w))
			}
		}
		if hung != "" {
			rt.Fatalf("harness: a Submit call did not return within 10 s after ApplyFunc was released (not a C44 question)\n%s", hung)
		}
		if s, ok := probs["stop-hangs"]; ok {
			rt.Fatalf("harness: %s", s)
		}
		if v.key != "" {
			stalls++
			rec.SetExtra("n_stalled_histories", stalls)
			cs := sc.caseObj(w)
			cs["goroutines_when_declared_stalled"] = dump
			rec.Fail(rt, v.key, v.what, cs)
		}
	})
}
