package pipe

import (
	"encoding/hex"
	"fmt"
	"testing"
	"time"

	"github.com/blinklabs-io/gouroboros/ledger"
	lcommon "github.com/blinklabs-io/gouroboros/ledger/common"

	"verif/harness/internal/fixtures"
)

func TestProbe(t *testing.T) {
	for _, h := range []struct {
		hx, eta string
		typ    uint
	}{{conwayHdrAHex, conwayHdrAEta0, 7}, {conwayHdrBHex, conwayHdrBEta0, 7}, {babbageHdrCHex, babbageHdrCEta0, 6}} {
		hb, _ := hex.DecodeString(h.hx)
		blk := append([]byte{0x85}, hb...)
		blk = append(blk, 0x80, 0x80, 0xa0, 0x80)
		for _, skip := range []bool{true, false} {
			t0 := time.Now()
			b, err := ledger.NewBlockFromCbor(h.typ, blk, lcommon.VerifyConfig{SkipBodyHashValidation: skip})
			d := time.Since(t0)
			fmt.Println("decode skip", skip, err, d)
			if err != nil {
				continue
			}
			t0 = time.Now()
			ok, _, _, _, err := ledger.VerifyBlock(b, h.eta, 129600, lcommon.VerifyConfig{SkipBodyHashValidation: true, SkipTransactionValidation: true, SkipStakePoolValidation: true})
			fmt.Println(" verify", ok, err, time.Since(t0), b.SlotNumber())
			ok, _, _, _, err = ledger.VerifyBlock(b, "0000000000000000000000000000000000000000000000000000000000000000", 129600, lcommon.VerifyConfig{SkipBodyHashValidation: true, SkipTransactionValidation: true, SkipStakePoolValidation: true})
			fmt.Println(" verify zero eta", ok, err)
		}
	}
	for _, f := range fixtures.Blocks() {
		for _, skip := range []bool{true, false} {
			t0 := time.Now()
			b, err := ledger.NewBlockFromCbor(f.Type, f.Bytes, lcommon.VerifyConfig{SkipBodyHashValidation: skip})
			fmt.Println(f.Name, len(f.Bytes), "skip", skip, err, time.Since(t0))
			if err == nil && skip {
				ok, _, _, _, err := ledger.VerifyBlock(b, "0000000000000000000000000000000000000000000000000000000000000000", 129600, lcommon.VerifyConfig{SkipBodyHashValidation: true, SkipTransactionValidation: true, SkipStakePoolValidation: true})
				fmt.Println("   verify", ok, err)
			}
		}
	}
}
