package pipe

import (
	"fmt"
	"strings"
	"sync"
	"time"

	ouroboros "github.com/blinklabs-io/gouroboros"
	"github.com/blinklabs-io/gouroboros/protocol/chainsync"
	pcommon "github.com/blinklabs-io/gouroboros/protocol/common"
	"pgregory.net/rapid"

	"verif/harness/internal/rawpeer"
	"verif/harness/internal/xcbor"
)

// ---------------------------------------------------------------------------
// C43 seen through its caller: the chain-sync client submits every NtC
// RollForward block to the pipeline and, on RollBackward, calls WaitForDrain
// before invoking the user's RollBackwardFunc. The harness plays the server
// (raw segments, own CBOR) and records when the rollback callback is entered.
// A block rolled forward before the RollBackward message and still unfinished
// when the callback is entered was, a fortiori, unfinished when WaitForDrain
// returned (the callback is entered after it).
// ---------------------------------------------------------------------------

const chainSyncNtC = 5

type csEvent struct {
	Back bool      // RollBackward
	Item *itemPlan // RollForward of this block
}

type c43ClientScenario struct {
	Cfg           pipeCfg
	PipelineLimit int
	Script        []csEvent
}

func genC43Client(rt *rapid.T) *c43ClientScenario {
	sc := &c43ClientScenario{}
	sc.Cfg.DecodeW = rapid.IntRange(1, 16).Draw(rt, "decodeWorkers")
	if rapid.Bool().Draw(rt, "validation") {
		sc.Cfg.ValidateW = rapid.IntRange(1, 16).Draw(rt, "validateWorkers")
		sc.Cfg.SkipBodyHash = true
	} else {
		sc.Cfg.SkipBodyHash = rapid.Bool().Draw(rt, "skipBodyHash")
	}
	sc.Cfg.Buf = rapid.SampledFrom([]int{1, 2, 8, 64}).Draw(rt, "buffer")
	sc.PipelineLimit = rapid.SampledFrom([]int{1, 2, 5}).Draw(rt, "pipelineLimit")
	n := rapid.IntRange(2, 8).Draw(rt, "events")
	id := 0
	haveF := false
	for i := 0; i < n; i++ {
		back := haveF && (i == n-1 || rapid.IntRange(0, 2).Draw(rt, "back") == 2)
		if back {
			sc.Script = append(sc.Script, csEvent{Back: true})
			continue
		}
		id++
		pl := &itemPlan{ID: id, CtxKind: ctxPatient}
		pl.In = genInput(rt, sc.Cfg, 80)
		if _, err := xcbor.ParseExact(pl.In.Bytes); err != nil {
			// only well-formed CBOR can travel inside a RollForward message
			pl.In = classify(inputSpec{Base: pl.In.Spec.Base, Kind: "valid"}, sc.Cfg.SkipBodyHash, sc.Cfg.ValidateW > 0)
		}
		pl.Delay[sDecode] = genHold(rt, "dec")
		if sc.Cfg.ValidateW > 0 {
			pl.Delay[sValidate] = genHold(rt, "val")
		}
		pl.ApplyDelay = genHold(rt, "app")
		sc.Script = append(sc.Script, csEvent{Item: pl})
		haveF = true
	}
	return sc
}

func csTip(id int) *xcbor.Node {
	t := tipFor(id)
	return xcbor.A(xcbor.A(xcbor.U(t.Point.Slot), xcbor.B(t.Point.Hash)), xcbor.U(t.BlockNumber))
}

type c43ClientOutcome struct {
	w        *world
	rollback []stamp // entry of RollBackwardFunc, per RollBackward event
	sentAt   []stamp // when the server sent script event i
	err      string  // harness-level problem (not a verdict)
	// stuck: the client never got past a WaitForDrain (no pipeline event for
	// 10 s, well inside the client's 60 s drain timeout); rollbacks observed
	// before that are still judged, the rest makes no claim.
	stuck bool
}

func runC43Client(sc *c43ClientScenario, patience time.Duration) *c43ClientOutcome {
	var items []*itemPlan
	for _, ev := range sc.Script {
		if ev.Item != nil {
			items = append(items, ev.Item)
		}
	}
	w := newWorld(sc.Cfg, items)
	w.probePending = true
	out := &c43ClientOutcome{w: w, sentAt: make([]stamp, len(sc.Script))}
	if err := w.start(); err != nil {
		out.err = "pipeline did not start: " + err.Error()
		return out
	}
	var mu sync.Mutex
	a, b := rawpeer.Pipe(nil, nil)
	peer := rawpeer.NewPeer(b)
	serverErr := make(chan string, 1)
	allSent := make(chan struct{})
	go func() { // the server
		fail := func(f string, args ...any) { serverErr <- fmt.Sprintf(f, args...) }
		if _, err := peer.AcceptHandshake(10*time.Second, nil); err != nil {
			fail("handshake: %v", err)
			return
		}
		msg, err := peer.NextMsg(chainSyncNtC, false, 10*time.Second)
		if err != nil {
			fail("no FindIntersect: %v", err)
			return
		}
		if n, err := xcbor.ParseExact(msg); err != nil || n.Kind != xcbor.Array || len(n.Items) == 0 || n.Items[0].Arg != 4 {
			fail("expected FindIntersect, got %x", msg)
			return
		}
		if err := peer.SendMsg(chainSyncNtC, true, xcbor.A(xcbor.U(5), xcbor.A(), csTip(0)).Encode()); err != nil {
			fail("send IntersectFound: %v", err)
			return
		}
		next := 0
		for {
			msg, err := peer.NextMsg(chainSyncNtC, false, 30*time.Second)
			if err != nil {
				if next < len(sc.Script) {
					fail("no RequestNext for script event %d: %v", next, err)
				}
				return
			}
			n, err := xcbor.ParseExact(msg)
			if err != nil || n.Kind != xcbor.Array || len(n.Items) == 0 {
				fail("unparseable client message %x", msg)
				return
			}
			if n.Items[0].Arg != 0 { // Done or anything else: stop serving
				return
			}
			if next >= len(sc.Script) {
				if next == len(sc.Script) {
					_ = peer.SendMsg(chainSyncNtC, true, xcbor.A(xcbor.U(1)).Encode()) // AwaitReply
					next++
				}
				continue
			}
			ev := sc.Script[next]
			var reply []byte
			if ev.Back {
				reply = xcbor.A(xcbor.U(3), xcbor.A(), csTip(0)).Encode()
			} else {
				// [blockType, block]: the block bytes are spliced in untouched
				wrapped := append([]byte{0x82}, xcbor.U(uint64(ev.Item.In.Type)).Encode()...)
				wrapped = append(wrapped, ev.Item.In.Bytes...)
				reply = xcbor.A(xcbor.U(2), xcbor.Tg(24, xcbor.B(wrapped)), csTip(ev.Item.ID)).Encode()
			}
			st := w.tick()
			mu.Lock()
			out.sentAt[next] = st
			mu.Unlock()
			if !ev.Back {
				w.mu.Lock()
				e := w.ev[ev.Item.ID]
				e.submitStart, e.submitEnd = st, st
				w.mu.Unlock()
			}
			if err := peer.SendMsg(chainSyncNtC, true, reply); err != nil {
				fail("send script event %d: %v", next, err)
				return
			}
			next++
			if next == len(sc.Script) {
				close(allSent)
			}
		}
	}()
	nBack := 0
	for _, ev := range sc.Script {
		if ev.Back {
			nBack++
		}
	}
	cfg := chainsync.NewConfig(
		chainsync.WithPipeline(w.p),
		chainsync.WithPipelineLimit(sc.PipelineLimit),
		// after this timeout the client goes on with the rollback even though the
		// drain failed (documented); the harness gives up long before
		chainsync.WithPipelineDrainTimeout(60*time.Second),
		chainsync.WithRollForwardRawFunc(func(chainsync.CallbackContext, uint, []byte, chainsync.Tip) error { return nil }),
		chainsync.WithRollBackwardFunc(func(chainsync.CallbackContext, pcommon.Point, chainsync.Tip) error {
			st := w.tick()
			mu.Lock()
			out.rollback = append(out.rollback, st)
			mu.Unlock()
			return nil
		}),
	)
	errChan := make(chan error, 16)
	go func() {
		for range errChan {
		}
	}()
	conn, err := ouroboros.NewConnection(
		ouroboros.WithConnection(a),
		ouroboros.WithNetworkMagic(764824073),
		ouroboros.WithKeepAlive(false),
		ouroboros.WithErrorChan(errChan),
		ouroboros.WithChainSyncConfig(cfg),
	)
	if err != nil {
		out.err = "client connection: " + err.Error()
	} else if err := conn.ChainSync().Client.Sync([]pcommon.Point{pcommon.NewPointOrigin()}); err != nil {
		out.err = "Sync: " + err.Error()
	}
	if out.err == "" {
		select {
		case <-allSent:
		case s := <-serverErr:
			out.err = "server: " + s
		case <-time.After(60 * time.Second):
			out.err = "script not consumed within 60 s\n" + clipStr(stackOfAll(), 20000)
		}
	}
	if out.err == "" {
		done := w.waitCond(func() bool {
			mu.Lock()
			nb := len(out.rollback)
			mu.Unlock()
			_, _, ga, gs := w.counts()
			return nb >= nBack && ga >= gs
		}, patience)
		if !done {
			out.stuck = true
		}
	}
	if conn != nil {
		_ = conn.Close()
	}
	peer.Close()
	_ = a.Close()
	probs := w.finish()
	if s, ok := probs["stop-hangs"]; ok && out.err == "" {
		out.err = s
	}
	return out
}

// judgeC43Client applies C43's oracle at the instants the rollback callbacks were entered.
func judgeC43Client(sc *c43ClientScenario, o *c43ClientOutcome) (fs []c43Finding, rollbacks, heldDuring int) {
	w := o.w
	w.mu.Lock()
	defer w.mu.Unlock()
	rb := 0
	for i, ev := range sc.Script {
		if !ev.Back {
			continue
		}
		if rb >= len(o.rollback) {
			break
		}
		T := o.rollback[rb]
		rb++
		rollbacks++
		byKey := map[string][]string{}
		var order []string
		held := false
		for _, pe := range sc.Script[:i] {
			if pe.Item == nil {
				continue
			}
			id := pe.Item.ID
			e := w.ev[id]
			for si := 0; si < 2; si++ {
				if e.hookIn[si].ok() && e.hookIn[si].ts < T.ts && e.hookOut[si].ts > o.sentAt[i].ts {
					held = true
				}
			}
			for _, ap := range e.applies {
				if ap.in.ts < T.ts && ap.out.ts > o.sentAt[i].ts {
					held = true
				}
			}
			fin, loc, detail := locateAt(w, id, T)
			if fin {
				continue
			}
			after := "it was never applied"
			if len(e.applies) > 0 {
				after = fmt.Sprintf("its ApplyFunc call ran at t=%d..%d", e.applies[0].in.ts, e.applies[0].out.ts)
			}
			k := "drain-returned-early:block-" + loc
			if _, ok := byKey[k]; !ok {
				order = append(order, k)
			}
			byKey[k] = append(byKey[k], fmt.Sprintf("block #%d (RollForward sent t=%d): %s; %s", id, e.submitEnd.ts, detail, after))
		}
		if held {
			heldDuring++
		}
		for _, k := range order {
			fs = append(fs, c43Finding{k, fmt.Sprintf("chain-sync client: RollBackwardFunc for RollBackward #%d (sent t=%d) was entered at t=%d, i.e. after WaitForDrain returned, although %d block(s) rolled forward before it had not finished processing: %s", rb, o.sentAt[i].ts, T.ts, len(byKey[k]), strings.Join(byKey[k], " | "))})
		}
	}
	return
}

func (sc *c43ClientScenario) caseObj(o *c43ClientOutcome) map[string]any {
	validate := sc.Cfg.ValidateW > 0
	var script []string
	for _, ev := range sc.Script {
		if ev.Back {
			script = append(script, "RollBackward")
		} else {
			script = append(script, "RollForward "+ev.Item.desc(validate))
		}
	}
	m := map[string]any{"mode": "chain-sync client (NtC) fed by a raw server", "config": sc.Cfg, "pipeline_limit": sc.PipelineLimit, "script": script}
	if o != nil {
		var rbs []int64
		for _, s := range o.rollback {
			rbs = append(rbs, s.ts)
		}
		m["rollback_callback_entered_at"] = rbs
		m["history"] = o.w.historyText()
	}
	return m
}
