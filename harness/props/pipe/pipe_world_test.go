package pipe

import (
	"bytes"
	"context"
	"errors"
	"fmt"
	"runtime"
	"sort"
	"strings"
	"sync"
	"sync/atomic"
	"time"

	"github.com/blinklabs-io/gouroboros/pipeline"
	pcommon "github.com/blinklabs-io/gouroboros/protocol/common"
)

// ---------------------------------------------------------------------------
// The "world": one pipeline under test plus the recorder of its history.
// Every observation gets a logical timestamp from one atomic counter (a
// linearisable clock); wall-clock is only kept for progress detection in the
// bounded-liveness waits and to pick between finding keys (never to decide
// whether something is a violation).
// ---------------------------------------------------------------------------

const (
	sDecode   = 0
	sValidate = 1
)

var stageNames = [2]string{"decode", "validate"}

func stageIdx(name string) int {
	switch name {
	case "decode":
		return sDecode
	case "validate":
		return sValidate
	}
	return -1
}

type pipeCfg struct {
	DecodeW      int  `json:"decode_workers"`
	ValidateW    int  `json:"validate_workers"` // 0 = validation disabled
	Buf          int  `json:"buffer"`
	MaxPending   int  `json:"max_pending"` // 0 = library default
	SkipBodyHash bool `json:"skip_body_hash"`
}

func (c pipeCfg) String() string {
	return fmt.Sprintf("dw=%d vw=%d buf=%d maxpend=%d skipbh=%v", c.DecodeW, c.ValidateW, c.Buf, c.MaxPending, c.SkipBodyHash)
}

const (
	ctxPatient   = "background"
	ctxExpiring  = "expiring"
	ctxCancelled = "cancelled"
)

type itemPlan struct {
	ID         int
	In         *input
	Delay      [2]time.Duration // latency injected into the decode / validate worker before Process
	ApplyDelay time.Duration
	ApplyErr   bool
	Submitter  int
	CtxKind    string
	CtxTimeout time.Duration
	Pause      time.Duration // submitter sleeps this long before the submission
}

func (p *itemPlan) desc(validate bool) string {
	s := fmt.Sprintf("#%d %s(%s) s%d", p.ID, p.In.Desc, p.In.class(validate), p.Submitter)
	if p.Delay[0] > 0 {
		s += fmt.Sprintf(" dec+%v", p.Delay[0])
	}
	if p.Delay[1] > 0 {
		s += fmt.Sprintf(" val+%v", p.Delay[1])
	}
	if p.ApplyDelay > 0 {
		s += fmt.Sprintf(" app+%v", p.ApplyDelay)
	}
	if p.ApplyErr {
		s += " apperr"
	}
	if p.CtxKind != "" && p.CtxKind != ctxPatient {
		s += fmt.Sprintf(" ctx=%s/%v", p.CtxKind, p.CtxTimeout)
	}
	if p.Pause > 0 {
		s += fmt.Sprintf(" pause=%v", p.Pause)
	}
	return s
}

type stamp struct {
	ts   int64 // logical; 0 = never happened
	wall time.Time
}

func (s stamp) ok() bool { return s.ts != 0 }

type applyRec struct {
	id      int
	in, out stamp
	okBytes bool
}

type itemEv struct {
	submitStart, submitEnd stamp
	submitErr              error
	submitPanic            string
	hookIn, hookOut        [2]stamp
	handoff                [2]stamp // the worker that held the item was seen taking its next item
	applies                []*applyRec
	results                int
	seq                    uint64
	seqKnown               bool
	heldZero               bool // PendingCount()==0 observed while the harness held the item in a worker
}

func (e *itemEv) submitted() bool {
	return e.submitEnd.ok() && e.submitErr == nil && e.submitPanic == ""
}

const sApply = 2

// pendingSample is one reading of PendingCount() bracketed by two clock ticks.
type pendingSample struct {
	t1, t2 stamp
	pc     int
	note   string
}

type heldRec struct {
	id, stage int
}

type world struct {
	cfg      pipeCfg
	validate bool
	p        *pipeline.BlockPipeline
	plans    map[int]*itemPlan

	clock    atomic.Int64
	progress atomic.Int64

	mu        sync.Mutex
	ev        map[int]*itemEv
	applyLog  []*applyRec
	resLog    []int // ids in the order they left Results()
	resPtrDup int
	nErrs     int
	nOverflow int // ErrPendingLimitExceeded reports seen on Errors()
	held      map[uint64]heldRec
	hookOrder [2][]int
	strays    []string
	seenPtr   map[*pipeline.BlockItem]int

	gate chan struct{} // non-nil: ApplyFunc blocks until it is closed
	// per-item gates owned by the harness: key {id, stage} with stage 0/1 =
	// decode/validate worker (hook), 2 = ApplyFunc. Filled before start; the
	// holder blocks until the channel is closed (openGate).
	gates        map[[2]int]chan struct{}
	gateOpen     map[[2]int]bool
	samples      []pendingSample
	probePending bool
	nSubmitStart int
	nApplyIn     int
	trigSubmit   map[int]chan struct{}
	trigApply    map[int]chan struct{}

	resultsDone chan struct{}
	errsDone    chan struct{}
	stopOnce    sync.Once
	stopDone    chan struct{}
	stopPanic   string
	stopStart   stamp
}

func newWorld(cfg pipeCfg, plans []*itemPlan) *world {
	w := &world{
		cfg: cfg, validate: cfg.ValidateW > 0,
		plans:       map[int]*itemPlan{},
		ev:          map[int]*itemEv{},
		held:        map[uint64]heldRec{},
		seenPtr:     map[*pipeline.BlockItem]int{},
		gates:       map[[2]int]chan struct{}{},
		gateOpen:    map[[2]int]bool{},
		trigSubmit:  map[int]chan struct{}{},
		trigApply:   map[int]chan struct{}{},
		resultsDone: make(chan struct{}),
		errsDone:    make(chan struct{}),
		stopDone:    make(chan struct{}),
	}
	for _, p := range plans {
		w.plans[p.ID] = p
		w.ev[p.ID] = &itemEv{}
	}
	w.touch()
	return w
}

func (w *world) tick() stamp {
	now := time.Now()
	w.progress.Store(now.UnixNano())
	return stamp{ts: w.clock.Add(1), wall: now}
}

func (w *world) touch() { w.progress.Store(time.Now().UnixNano()) }

func (w *world) sinceProgress() time.Duration {
	return time.Duration(time.Now().UnixNano() - w.progress.Load())
}

func gid() uint64 {
	var b [48]byte
	n := runtime.Stack(b[:], false)
	// "goroutine 123 ["
	var id uint64
	for _, c := range b[10:n] {
		if c < '0' || c > '9' {
			break
		}
		id = id*10 + uint64(c-'0')
	}
	return id
}

func (w *world) start() error {
	opts := []pipeline.PipelineOption{
		pipeline.WithDecodeWorkers(w.cfg.DecodeW),
		pipeline.WithValidateWorkers(w.cfg.ValidateW),
		pipeline.WithPrefetchBufferSize(w.cfg.Buf),
		pipeline.WithSkipBodyHashValidation(w.cfg.SkipBodyHash),
		pipeline.WithApplyFunc(w.apply),
	}
	if w.cfg.MaxPending > 0 {
		opts = append(opts, pipeline.WithMaxPendingBlocks(w.cfg.MaxPending))
	}
	if w.validate {
		opts = append(opts,
			pipeline.WithEta0Provider(w.eta0),
			pipeline.WithSlotsPerKesPeriod(slotsPerKesPeriod),
			pipeline.WithVerifyConfig(verifyCfg()))
	}
	w.p = pipeline.NewBlockPipeline(opts...)
	pipeline.SetVerifStageHook(w.hook)
	if err := w.p.Start(context.Background()); err != nil {
		pipeline.SetVerifStageHook(nil)
		return err
	}
	results, errs := w.p.Results(), w.p.Errors()
	go func() {
		defer close(w.resultsDone)
		for it := range results {
			w.tick()
			id := int(it.BlockNumber())
			w.mu.Lock()
			if _, dup := w.seenPtr[it]; dup {
				w.resPtrDup++
			}
			w.seenPtr[it] = id
			w.resLog = append(w.resLog, id)
			if e := w.ev[id]; e != nil {
				e.results++
			} else {
				w.strays = append(w.strays, fmt.Sprintf("result for unknown block number %d", id))
			}
			w.mu.Unlock()
		}
	}()
	go func() {
		defer close(w.errsDone)
		for err := range errs {
			w.mu.Lock()
			w.nErrs++
			if errors.Is(err, pipeline.ErrPendingLimitExceeded) {
				w.nOverflow++
			}
			w.mu.Unlock()
		}
	}()
	return nil
}

// eta0 is the nonce provider given to the pipeline. It runs on the validate
// worker that holds the block (the worker's goroutine id was recorded by the
// hook right before Process), so per-block provider failures can be injected.
func (w *world) eta0(slot uint64) (string, error) {
	g := gid()
	w.mu.Lock()
	h, ok := w.held[g]
	w.mu.Unlock()
	if ok && h.stage == sValidate {
		if pl := w.plans[h.id]; pl != nil && pl.In.ProvErr != "" {
			return "", providerError(pl.In.ProvErr)
		}
	}
	return eta0Provider(slot)
}

// hook runs on a decode / validate worker goroutine right before Process.
func (w *world) hook(stage string, item *pipeline.BlockItem) {
	si := stageIdx(stage)
	id := int(item.BlockNumber())
	pl := w.plans[id]
	if si < 0 || pl == nil {
		return
	}
	g := gid()
	in := w.tick()
	w.mu.Lock()
	e := w.ev[id]
	if prev, ok := w.held[g]; ok {
		if pe := w.ev[prev.id]; pe != nil && !pe.handoff[prev.stage].ok() {
			pe.handoff[prev.stage] = in
		}
	}
	w.held[g] = heldRec{id, si}
	e.hookIn[si] = in
	e.seq, e.seqKnown = item.SequenceNumber(), true
	w.mu.Unlock()
	if d := pl.Delay[si]; d > 0 {
		time.Sleep(d)
	}
	if ch := w.gates[[2]int{id, si}]; ch != nil {
		<-ch
	}
	zero := false
	if w.probePending {
		zero = w.p.PendingCount() == 0
	}
	out := w.tick()
	w.mu.Lock()
	e.hookOut[si] = out
	if zero {
		e.heldZero = true
	}
	w.hookOrder[si] = append(w.hookOrder[si], id)
	w.mu.Unlock()
}

func (w *world) apply(item *pipeline.BlockItem) error {
	id := int(item.BlockNumber())
	pl := w.plans[id]
	rec := &applyRec{id: id}
	rec.in = w.tick()
	w.mu.Lock()
	w.applyLog = append(w.applyLog, rec)
	w.nApplyIn++
	if ch, ok := w.trigApply[w.nApplyIn]; ok {
		close(ch)
		delete(w.trigApply, w.nApplyIn)
	}
	if e := w.ev[id]; e != nil {
		e.applies = append(e.applies, rec)
		rec.okBytes = pl != nil && item.BlockType() == pl.In.Type && bytes.Equal(item.RawCbor(), pl.In.Bytes)
	} else {
		w.strays = append(w.strays, fmt.Sprintf("ApplyFunc called for unknown block number %d", id))
	}
	gate := w.gate
	w.mu.Unlock()
	if gate != nil {
		<-gate
	}
	if ch := w.gates[[2]int{id, sApply}]; ch != nil {
		<-ch
	}
	if pl != nil && pl.ApplyDelay > 0 {
		time.Sleep(pl.ApplyDelay)
	}
	out := w.tick()
	w.mu.Lock()
	rec.out = out
	w.mu.Unlock()
	if pl != nil && pl.ApplyErr {
		return errors.New("harness: apply refused")
	}
	return nil
}

// addGate must be called before start.
func (w *world) addGate(id, stage int) {
	w.gates[[2]int{id, stage}] = make(chan struct{})
}

func (w *world) openGate(id, stage int) {
	k := [2]int{id, stage}
	w.mu.Lock()
	ch, open := w.gates[k], w.gateOpen[k]
	w.gateOpen[k] = true
	w.mu.Unlock()
	if ch != nil && !open {
		close(ch)
		w.tick()
	}
}

func (w *world) openAllGates() {
	for k := range w.gates {
		w.openGate(k[0], k[1])
	}
}

// samplePending reads PendingCount() between two ticks of the logical clock.
func (w *world) samplePending(note string) pendingSample {
	s := pendingSample{note: note}
	s.t1 = w.tick()
	s.pc = w.p.PendingCount()
	s.t2 = w.tick()
	w.mu.Lock()
	w.samples = append(w.samples, s)
	w.mu.Unlock()
	return s
}

// knownUnfinished returns the blocks that were certainly accepted before the
// sample began and certainly not finished when it ended: Submit returned nil
// before t1, and (good block) its ApplyFunc call had not returned by t2 /
// (bad block) its failing stage had not started by t2. Call with w.mu held.
func (w *world) knownUnfinished(s pendingSample) []int {
	var ids []int
	for _, id := range w.sortedIDs() {
		e, pl := w.ev[id], w.plans[id]
		if !e.submitted() || e.submitEnd.ts >= s.t1.ts {
			continue
		}
		if pl.In.good(w.validate) {
			if len(e.applies) == 0 || !e.applies[0].out.ok() || e.applies[0].out.ts > s.t2.ts {
				ids = append(ids, id)
			}
			continue
		}
		fs := sDecode
		if pl.In.Decodes {
			fs = sValidate
		}
		if !e.hookOut[fs].ok() || e.hookOut[fs].ts > s.t2.ts {
			ids = append(ids, id)
		}
	}
	return ids
}

func tipFor(id int) pcommon.Tip {
	h := make([]byte, 32)
	for i := range h {
		h[i] = byte(id + i)
	}
	return pcommon.Tip{Point: pcommon.NewPoint(uint64(id), h), BlockNumber: uint64(id)}
}

// submit performs one Submit call and records it. It never panics.
func (w *world) submit(pl *itemPlan) {
	if pl.Pause > 0 {
		time.Sleep(pl.Pause)
	}
	ctx, cancel := context.Background(), context.CancelFunc(func() {})
	switch pl.CtxKind {
	case ctxExpiring:
		ctx, cancel = context.WithTimeout(context.Background(), pl.CtxTimeout)
	case ctxCancelled:
		ctx, cancel = context.WithCancel(context.Background())
		cancel()
	}
	defer cancel()
	start := w.tick()
	w.mu.Lock()
	e := w.ev[pl.ID]
	e.submitStart = start
	w.nSubmitStart++
	if ch, ok := w.trigSubmit[w.nSubmitStart]; ok {
		close(ch)
		delete(w.trigSubmit, w.nSubmitStart)
	}
	w.mu.Unlock()
	var err error
	pan := ""
	func() {
		defer func() {
			if p := recover(); p != nil {
				pan = fmt.Sprintf("%v\n%s", p, stackOfAll())
			}
		}()
		err = w.p.Submit(ctx, pl.In.Type, pl.In.Bytes, tipFor(pl.ID))
	}()
	end := w.tick()
	w.mu.Lock()
	e.submitEnd, e.submitErr, e.submitPanic = end, err, pan
	w.mu.Unlock()
}

// runSubmitters starts one goroutine per submitter; each performs its plans
// in order. The returned channel is closed when all are done.
func (w *world) runSubmitters(plans []*itemPlan) <-chan struct{} {
	by := map[int][]*itemPlan{}
	var order []int
	for _, p := range plans {
		if _, ok := by[p.Submitter]; !ok {
			order = append(order, p.Submitter)
		}
		by[p.Submitter] = append(by[p.Submitter], p)
	}
	var wg sync.WaitGroup
	for _, s := range order {
		wg.Add(1)
		go func(ps []*itemPlan) {
			defer wg.Done()
			for _, p := range ps {
				w.submit(p)
			}
		}(by[s])
	}
	done := make(chan struct{})
	go func() { wg.Wait(); close(done) }()
	return done
}

// stopAsync calls Stop exactly once (in its own goroutine).
func (w *world) stopAsync() {
	w.stopOnce.Do(func() {
		st := w.tick()
		w.mu.Lock()
		w.stopStart = st
		w.mu.Unlock()
		go func() {
			defer close(w.stopDone)
			defer func() {
				if p := recover(); p != nil {
					w.stopPanic = fmt.Sprintf("%v\n%s", p, stackOfAll())
				}
			}()
			_ = w.p.Stop()
			w.tick()
		}()
	})
}

func (w *world) stopInitiated() bool {
	w.mu.Lock()
	defer w.mu.Unlock()
	return w.stopStart.ok()
}

// waitChan waits for ch; it gives up (false) only after noProgress without
// any recorded event.
func (w *world) waitChan(ch <-chan struct{}, noProgress time.Duration) bool {
	t := time.NewTimer(time.Millisecond)
	defer t.Stop()
	for {
		select {
		case <-ch:
			return true
		case <-t.C:
			if w.sinceProgress() > noProgress {
				select {
				case <-ch:
					return true
				default:
					return false
				}
			}
			t.Reset(2 * time.Millisecond)
		}
	}
}

// waitCond polls cond; it gives up (false) only after noProgress without any
// recorded event.
func (w *world) waitCond(cond func() bool, noProgress time.Duration) bool {
	sl := 100 * time.Microsecond
	for {
		if cond() {
			return true
		}
		if w.sinceProgress() > noProgress {
			return cond()
		}
		time.Sleep(sl)
		if sl < 2*time.Millisecond {
			sl *= 2
		}
	}
}

func (w *world) counts() (okSubmits, results, goodApplied, goodSubmitted int) {
	w.mu.Lock()
	defer w.mu.Unlock()
	results = len(w.resLog)
	for id, e := range w.ev {
		if e.submitted() {
			okSubmits++
			if w.plans[id].In.good(w.validate) {
				goodSubmitted++
				if len(e.applies) > 0 && e.applies[0].out.ok() {
					goodApplied++
				}
			}
		}
	}
	return
}

func stackOfAll() string {
	buf := make([]byte, 1<<20)
	n := runtime.Stack(buf, true)
	return string(buf[:n])
}

// pipelineGoroutines returns the stack blocks of goroutines that have a frame
// of the pipeline package.
func pipelineGoroutines() []string {
	var out []string
	for _, blk := range strings.Split(stackOfAll(), "\n\n") {
		if strings.Contains(blk, "gouroboros/pipeline.") {
			out = append(out, blk)
		}
	}
	return out
}

// waitNoPipelineGoroutines polls until no goroutine with a pipeline frame is
// left (they exit a few instructions after Stop returns); bound is generous.
func waitNoPipelineGoroutines(bound time.Duration) []string {
	deadline := time.Now().Add(bound)
	sl := 50 * time.Microsecond
	for {
		gs := pipelineGoroutines()
		if len(gs) == 0 || time.Now().After(deadline) {
			return gs
		}
		time.Sleep(sl)
		if sl < 20*time.Millisecond {
			sl *= 2
		}
	}
}

func clipStr(s string, n int) string {
	if len(s) > n {
		return s[:n] + fmt.Sprintf("...(+%d bytes)", len(s)-n)
	}
	return s
}

// finish stops the pipeline (if not yet), waits for the collectors, removes
// the hook and checks for left-over goroutines. It returns problems keyed by a
// short name (empty map = clean shutdown).
func (w *world) finish() map[string]string {
	probs := map[string]string{}
	w.openAllGates()
	w.stopAsync()
	if !w.waitChan(w.stopDone, 10*time.Second) {
		probs["stop-hangs"] = "Stop() did not return within 10 s without any pipeline progress\n" + clipStr(stackOfAll(), 30000)
		pipeline.SetVerifStageHook(nil)
		return probs
	}
	if w.stopPanic != "" {
		probs["panic:stop"] = clipStr(w.stopPanic, 30000)
	}
	if !w.waitChan(w.resultsDone, 10*time.Second) || !w.waitChan(w.errsDone, 10*time.Second) {
		probs["channels-not-closed"] = "Results()/Errors() not closed 10 s after Stop returned\n" + clipStr(stackOfAll(), 30000)
	}
	pipeline.SetVerifStageHook(nil)
	if gs := waitNoPipelineGoroutines(10 * time.Second); len(gs) > 0 {
		probs["goroutines-remain-after-stop"] = fmt.Sprintf("%d goroutine(s) with a pipeline frame 10 s after Stop returned:\n%s", len(gs), clipStr(strings.Join(gs, "\n\n"), 30000))
	}
	return probs
}

// hbBefore: a's submission completed before b's began (so a precedes b in
// submission order whatever the interleaving inside Submit).
func hbBefore(a, b *itemEv) bool {
	return a.submitEnd.ok() && b.submitStart.ok() && a.submitEnd.ts < b.submitStart.ts
}

func (w *world) sortedIDs() []int {
	ids := make([]int, 0, len(w.plans))
	for id := range w.plans {
		ids = append(ids, id)
	}
	sort.Ints(ids)
	return ids
}

// historyText renders the recorded history (for violation reports).
func (w *world) historyText() []string {
	w.mu.Lock()
	defer w.mu.Unlock()
	var out []string
	for _, id := range w.sortedIDs() {
		e, pl := w.ev[id], w.plans[id]
		s := pl.desc(w.validate)
		s += fmt.Sprintf(" | submit@%d..%d", e.submitStart.ts, e.submitEnd.ts)
		if e.submitErr != nil {
			s += " err=" + e.submitErr.Error()
		}
		if e.seqKnown {
			s += fmt.Sprintf(" seq=%d", e.seq)
		}
		for si := 0; si < 2; si++ {
			if e.hookIn[si].ok() {
				s += fmt.Sprintf(" %s@%d..%d", stageNames[si], e.hookIn[si].ts, e.hookOut[si].ts)
				if e.handoff[si].ok() {
					s += fmt.Sprintf("(handoff<=%d)", e.handoff[si].ts)
				}
			}
		}
		for _, a := range e.applies {
			s += fmt.Sprintf(" apply@%d..%d", a.in.ts, a.out.ts)
		}
		s += fmt.Sprintf(" results=%d", e.results)
		out = append(out, s)
	}
	return out
}
