package pipe

import (
	"fmt"
	"sort"
	"strings"
	"testing"
	"time"

	"pgregory.net/rapid"

	"verif/harness/internal/evi"
)

// C42: every block submitted to a started pipeline is applied exactly once, in
// submission order, iff it decodes (and validates when enabled); failed blocks
// are never applied; every submitted block appears exactly once on Results();
// Stop concurrent with submissions never panics and ends all pipeline
// goroutines.

type c42Scenario struct {
	Cfg        pipeCfg
	Submitters int
	Items      []*itemPlan
	StopEarly  bool
	StopOn     string // "submit" | "apply"
	StopK      int
	StopDelay  time.Duration
	StopTwice  bool
}

func genCfg(rt *rapid.T, maxW int) pipeCfg {
	cfg := pipeCfg{}
	cfg.DecodeW = rapid.IntRange(1, maxW).Draw(rt, "decodeWorkers")
	if rapid.Bool().Draw(rt, "validation") {
		cfg.ValidateW = rapid.IntRange(1, maxW).Draw(rt, "validateWorkers")
		cfg.SkipBodyHash = true
	} else {
		cfg.SkipBodyHash = rapid.Bool().Draw(rt, "skipBodyHash")
	}
	cfg.Buf = rapid.SampledFrom([]int{1, 2, 3, 8, 64}).Draw(rt, "buffer")
	cfg.MaxPending = rapid.SampledFrom([]int{0, 0, 1, 2, 5}).Draw(rt, "maxPending")
	return cfg
}

func genC42(rt *rapid.T, maxN int) *c42Scenario {
	sc := &c42Scenario{}
	sc.Cfg = genCfg(rt, 16)
	sc.Submitters = rapid.IntRange(1, 3).Draw(rt, "submitters")
	n := rapid.IntRange(1, maxN).Draw(rt, "n")
	maxUs := rapid.SampledFrom([]int{400, 1500, 4000}).Draw(rt, "maxDelayUs")
	for i := 1; i <= n; i++ {
		pl := &itemPlan{ID: i, CtxKind: ctxPatient}
		pl.In = genInput(rt, sc.Cfg, 70)
		pl.Delay[sDecode] = genDelay(rt, "dec", maxUs)
		if sc.Cfg.ValidateW > 0 {
			pl.Delay[sValidate] = genDelay(rt, "val", maxUs)
		}
		pl.ApplyDelay = genDelay(rt, "app", maxUs/2)
		pl.ApplyErr = rapid.IntRange(0, 11).Draw(rt, "applyErr") == 11
		if sc.Submitters > 1 {
			pl.Submitter = rapid.IntRange(0, sc.Submitters-1).Draw(rt, "submitter")
		}
		if rapid.IntRange(0, 7).Draw(rt, "pause") == 7 {
			pl.Pause = time.Duration(rapid.IntRange(10, 800).Draw(rt, "pauseUs")) * time.Microsecond
		}
		sc.Items = append(sc.Items, pl)
	}
	sc.StopEarly = rapid.IntRange(0, 9).Draw(rt, "stopEarly") >= 5
	if sc.StopEarly {
		sc.StopOn = rapid.SampledFrom([]string{"submit", "apply"}).Draw(rt, "stopOn")
		sc.StopK = rapid.IntRange(1, n).Draw(rt, "stopK")
		sc.StopDelay = genDelay(rt, "stop", 3000)
		sc.StopTwice = rapid.Bool().Draw(rt, "stopTwice")
	}
	return sc
}

type c42Outcome struct {
	w              *world
	demandComplete bool // Stop was called only after every submitted block had left Results()
	probs          map[string]string
	incomplete     string
	submitHung     string
}

func runC42(sc *c42Scenario) (*c42Outcome, error) {
	w := newWorld(sc.Cfg, sc.Items)
	out := &c42Outcome{w: w}
	var trig chan struct{}
	if sc.StopEarly {
		trig = make(chan struct{})
		if sc.StopOn == "submit" {
			w.trigSubmit[sc.StopK] = trig
		} else {
			w.trigApply[sc.StopK] = trig
		}
	}
	if err := w.start(); err != nil {
		return nil, err
	}
	quit := make(chan struct{})
	stopperDone := make(chan struct{})
	go func() {
		defer close(stopperDone)
		if trig == nil {
			return
		}
		select {
		case <-trig:
		case <-quit:
			return
		}
		if sc.StopDelay > 0 {
			time.Sleep(sc.StopDelay)
		}
		w.stopAsync()
		if sc.StopTwice {
			_ = w.p.Stop() // a second, concurrent Stop must be harmless
		}
	}()
	subDone := w.runSubmitters(sc.Items)
	if !w.waitChan(subDone, 10*time.Second) {
		out.submitHung = "a Submit call with a background context did not return within 10 s without any pipeline progress\n" + clipStr(stackOfAll(), 30000)
		w.stopAsync()
		w.waitChan(subDone, 10*time.Second)
	}
	if !w.stopInitiated() {
		ok := w.waitCond(func() bool {
			if w.stopInitiated() {
				return true
			}
			n, r, _, _ := w.counts()
			return r >= n
		}, 10*time.Second)
		if !ok {
			n, r, ga, gs := w.counts()
			out.incomplete = fmt.Sprintf("after all %d successful submissions returned, only %d results and %d of %d good blocks applied; no pipeline progress for 10 s\n%s", n, r, ga, gs, clipStr(stackOfAll(), 30000))
		} else if !w.stopInitiated() {
			out.demandComplete = true
		}
	}
	close(quit)
	<-stopperDone
	if out.demandComplete && w.stopInitiated() {
		// the stopper fired between the check and now: be conservative
		n, r, _, _ := w.counts()
		out.demandComplete = r >= n
	}
	out.probs = w.finish()
	return out, nil
}

type c42Finding struct {
	key, what string
}

// judgeC42 is the oracle, written from the property statement. It returns all
// findings of the history (most specific first).
func judgeC42(sc *c42Scenario, o *c42Outcome) []c42Finding {
	w := o.w
	w.mu.Lock()
	defer w.mu.Unlock()
	var fs []c42Finding
	add := func(key, what string) { fs = append(fs, c42Finding{key, what}) }
	validate := w.validate

	for _, id := range w.sortedIDs() {
		if e := w.ev[id]; e.submitPanic != "" {
			add("panic:submit", fmt.Sprintf("Submit of block #%d panicked: %s", id, clipStr(e.submitPanic, 20000)))
			break
		}
	}
	for _, k := range []string{"panic:stop", "stop-hangs", "channels-not-closed", "goroutines-remain-after-stop"} {
		if s, ok := o.probs[k]; ok {
			add(k, s)
		}
	}
	if o.submitHung != "" {
		add("submit-hangs", o.submitHung)
	}
	for _, s := range w.strays {
		add("phantom-item", s)
		break
	}

	// the apply log in the order of ApplyFunc entry
	log := append([]*applyRec(nil), w.applyLog...)
	sort.Slice(log, func(i, j int) bool { return log[i].in.ts < log[j].in.ts })
	seen := map[int]bool{}
	for i, a := range log {
		e, pl := w.ev[a.id], w.plans[a.id]
		if e == nil {
			continue // reported as phantom
		}
		if seen[a.id] {
			add("applied-twice", fmt.Sprintf("ApplyFunc called more than once for block #%d", a.id))
		}
		seen[a.id] = true
		if !e.submitted() {
			add("applied-unsubmitted", fmt.Sprintf("ApplyFunc called for block #%d whose Submit returned %v", a.id, e.submitErr))
		}
		if !pl.In.good(validate) {
			add("applied-failed-block:"+pl.In.class(validate), fmt.Sprintf("ApplyFunc called for block #%d (%s) although it %s (direct decode error: %q, direct validation: valid=%v err=%q)", a.id, pl.In.Desc, pl.In.class(validate), pl.In.DecErr, pl.In.Validates, pl.In.ValErr))
		}
		if !a.okBytes {
			add("applied-wrong-content", fmt.Sprintf("the item passed to ApplyFunc for block #%d does not carry the submitted type/bytes", a.id))
		}
		if i > 0 {
			prev := log[i-1]
			if !prev.out.ok() || prev.out.ts > a.in.ts {
				add("apply-overlap", fmt.Sprintf("ApplyFunc for block #%d entered (t=%d) before ApplyFunc for block #%d returned", a.id, a.in.ts, prev.id))
			}
		}
		// order: nothing applied earlier may have been submitted strictly later
		for _, b := range log[:i] {
			if be := w.ev[b.id]; be != nil && hbBefore(e, be) {
				add("apply-order", fmt.Sprintf("block #%d was applied before block #%d although #%d's Submit returned (t=%d) before #%d's Submit began (t=%d)", b.id, a.id, a.id, e.submitEnd.ts, b.id, be.submitStart.ts))
			}
		}
	}
	// gap-freeness: an applied block's good, successfully submitted predecessors were applied before it
	for _, a := range log {
		e := w.ev[a.id]
		if e == nil {
			continue
		}
		for _, id := range w.sortedIDs() {
			pe, pp := w.ev[id], w.plans[id]
			if id == a.id || !pe.submitted() || !pp.In.good(validate) || !hbBefore(pe, e) {
				continue
			}
			if len(pe.applies) == 0 || pe.applies[0].in.ts > a.in.ts {
				add("apply-gap", fmt.Sprintf("block #%d was applied (t=%d) although the good block #%d, submitted strictly before it, had not been applied", a.id, a.in.ts, id))
			}
		}
	}
	// results: at most once always; exactly once (and applied iff good) when Stop came after the drain
	for _, id := range w.sortedIDs() {
		e, pl := w.ev[id], w.plans[id]
		if e.results > 1 {
			add("result-duplicate", fmt.Sprintf("block #%d appeared %d times on Results()", id, e.results))
		}
		if e.results > 0 && !e.submitted() {
			add("result-unsubmitted", fmt.Sprintf("block #%d appeared on Results() although its Submit returned %v", id, e.submitErr))
		}
		if !o.demandComplete || !e.submitted() {
			continue
		}
		if e.results == 0 {
			add("result-missing", fmt.Sprintf("block #%d was submitted successfully but never appeared on Results() (Stop was called only after the pipeline went quiet)", id))
		}
		if pl.In.good(validate) && len(e.applies) == 0 {
			add("not-applied", fmt.Sprintf("good block #%d (%s) was submitted successfully but never applied", id, pl.In.Desc))
		}
	}
	if w.resPtrDup > 0 {
		add("result-duplicate", fmt.Sprintf("%d BlockItem pointer(s) delivered more than once on Results()", w.resPtrDup))
	}
	if o.incomplete != "" {
		add("results-incomplete", o.incomplete)
	}
	return fs
}

func (sc *c42Scenario) caseObj(w *world) map[string]any {
	items := make([]string, len(sc.Items))
	for i, p := range sc.Items {
		items[i] = p.desc(sc.Cfg.ValidateW > 0)
	}
	m := map[string]any{
		"config":     sc.Cfg,
		"submitters": sc.Submitters,
		"items":      items,
	}
	if sc.StopEarly {
		m["stop"] = fmt.Sprintf("Stop() %v after the %d-th %s began (second concurrent Stop: %v)", sc.StopDelay, sc.StopK, sc.StopOn, sc.StopTwice)
	} else {
		m["stop"] = "after every submitted block left Results()"
	}
	if w != nil {
		m["history"] = w.historyText()
	}
	return m
}

func TestC42(t *testing.T) {
	rec := evi.New(t, "C42", evi.Exploration,
		"one case = pipeline config (1..16 decode workers, validation off or 1..16 validate workers, buffer 1..64, max-pending 1..default) + 1..N submissions by 1..3 submitter goroutines of real fixture blocks / header-only mainnet blocks (good) and truncated / byte-flipped / mistyped / empty ones (bad), with validation on 1 decodable block in 12 fails in the validate stage because the nonce provider returns a plain / context-wrapping / bare context error for it (bad), each with generated latencies injected into its decode worker, validate worker and ApplyFunc, + Stop at a generated instant (after the k-th Submit began / k-th ApplyFunc call, plus a delay) or after the drain; non-trivial = at least 3 submissions and (a later block overtook an earlier one inside the worker pools, or Stop raced with unfinished submissions, or a bad block sat between good ones); distinct by config+items+stop plan; before the generated cases a deterministic sweep of 60 provider-failure runs (5 error kinds x failing position first/middle/last/three in a row x 1,2,5 workers)")
	defer rec.Finish()
	rec.Assume(
		"'decodes' / 'validates' are defined by calling ledger.NewBlockFromCbor / ledger.VerifyBlock directly with the pipeline's configuration (the property is about routing and ordering, not about the decoder)",
		"submission order is the partial order 'Submit of a returned before Submit of b was called' (logical clock); concurrent submissions are unordered",
		"callers drain Results() and Errors() (every real caller must, the stages block on them)",
		"submissions use context.Background(): failed submissions are C44's subject",
	)
	maxN := rec.Pick(40, 120)
	c42ProviderFailureSweep(rec)
	rec.Check(func(rt *rapid.T) {
		sc := genC42(rt, maxN)
		o, err := runC42(sc)
		if err != nil {
			rt.Fatalf("harness: pipeline did not start: %v", err)
		}
		fs := judgeC42(sc, o)
		rec.Eval()
		w := o.w

		// measured distribution
		validate := sc.Cfg.ValidateW > 0
		nGood, nBad, badBetween := 0, 0, false
		for i, p := range sc.Items {
			if p.In.good(validate) {
				nGood++
				if i > 0 && nBad > 0 {
					badBetween = true
				}
			} else {
				nBad++
				rec.Class("bad_" + p.In.class(validate) + "_" + p.In.Spec.Kind)
				if p.In.ProvErr != "" {
					rec.Class("provider_failure_" + p.In.ProvErr)
				}
			}
		}
		rec.ClassN("items_good", nGood)
		rec.ClassN("items_bad", nBad)
		overtook := false
		last := sDecode
		if validate {
			last = sValidate
		}
		ord := w.hookOrder[last]
		for i := 0; i < len(ord) && !overtook; i++ {
			for j := i + 1; j < len(ord); j++ {
				if hbBefore(w.ev[ord[j]], w.ev[ord[i]]) {
					overtook = true
					break
				}
			}
		}
		okSub, res, _, _ := w.counts()
		failedSub := 0
		for _, e := range w.ev {
			if e.submitEnd.ok() && e.submitErr != nil {
				failedSub++
			}
		}
		stopRaced := sc.StopEarly && !o.demandComplete && (failedSub > 0 || res < okSub)
		if validate {
			rec.Class("validation_on")
		} else {
			rec.Class("validation_off")
		}
		if overtook {
			rec.Class("overtaking_observed")
		}
		if stopRaced {
			rec.Class("stop_raced_with_work")
		}
		if o.demandComplete {
			rec.Class("ran_to_completion")
		}
		if sc.Submitters > 1 {
			rec.Class("multi_submitter")
		}
		if sc.Cfg.MaxPending > 0 {
			rec.Class("small_max_pending")
		}
		if failedSub > 0 {
			rec.Class("submit_rejected_after_stop")
		}
		if len(sc.Items) >= 3 && (overtook || stopRaced || badBetween) {
			var sb strings.Builder
			sb.WriteString(sc.Cfg.String())
			for _, p := range sc.Items {
				sb.WriteString(";" + p.desc(validate))
			}
			fmt.Fprintf(&sb, ";stop=%v/%s/%d/%v", sc.StopEarly, sc.StopOn, sc.StopK, sc.StopDelay)
			smp := sc.caseObj(nil)
			smp["observed"] = fmt.Sprintf("overtaking=%v stopRaced=%v applied=%d results=%d okSubmits=%d", overtook, stopRaced, len(w.applyLog), res, okSub)
			if its := smp["items"].([]string); len(its) > 12 {
				smp["items"] = append(append([]string{}, its[:12]...), fmt.Sprintf("...(+%d more)", len(its)-12))
			}
			rec.NonTrivial(sb.String(), smp)
		}

		for _, f := range fs {
			rec.Fail(rt, f.key, f.what, sc.caseObj(w))
		}
	})
}

// c42ProviderFailureSweep is the deterministic part: with validation enabled,
// six good blocks of which the first / a middle one / the last / three in a row
// fail in the validate stage because the nonce provider returns a plain error,
// an error wrapping context.DeadlineExceeded / context.Canceled, or the bare
// context errors - while the pipeline context is alive - with 1, 2 and 5
// workers per stage. Same oracle as the generated cases (run to completion).
func c42ProviderFailureSweep(rec *evi.Recorder) {
	loadBases()
	cases := 0
	for _, kind := range []string{"wraps-deadline-exceeded", "wraps-canceled", "bare-deadline-exceeded", "bare-canceled", "plain"} {
		for _, pos := range [][]int{{2}, {0}, {5}, {1, 2, 3}} {
			for _, workers := range []int{1, 2, 5} {
				sc := &c42Scenario{Cfg: pipeCfg{DecodeW: workers, ValidateW: workers, Buf: 8, SkipBodyHash: true}, Submitters: 1}
				for i := 0; i < 6; i++ {
					in := classify(inputSpec{Base: nFixture + i%3, Kind: "valid"}, true, true)
					for _, p := range pos {
						if p == i {
							in = withProviderFailure(in, kind)
						}
					}
					sc.Items = append(sc.Items, &itemPlan{ID: i + 1, In: in, CtxKind: ctxPatient})
				}
				o, err := runC42(sc)
				if err != nil {
					rec.Violation("harness:start", err.Error(), nil)
					return
				}
				fs := judgeC42(sc, o)
				rec.Eval()
				cases++
				rec.NonTrivial(fmt.Sprintf("sweep kind=%s pos=%v workers=%d", kind, pos, workers), nil)
				for _, f := range fs {
					rec.Violation(f.key+":validate-stage-error="+kind, fmt.Sprintf("provider failure sweep (block positions %v fail with a %s error in the validate stage, %d workers per stage): %s", pos, kind, workers, f.what), sc.caseObj(o.w))
				}
				if len(fs) > 0 {
					rec.SetExtra("n_provider_failure_sweep_cases", cases)
					return // one replay is enough; every failing run costs a bounded-liveness wait
				}
			}
		}
	}
	rec.SetExtra("n_provider_failure_sweep_cases", cases)
}
