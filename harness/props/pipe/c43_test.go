package pipe

import (
	"context"
	"fmt"
	"strings"
	"testing"
	"time"

	"pgregory.net/rapid"

	"verif/harness/internal/evi"
)

// C43: when WaitForDrain returns nil, every block submitted before the wait
// began has finished processing (applied or failed) and no apply call for such
// a block happens afterwards.

type c43Round struct {
	Pre    []*itemPlan   // submitted (sequentially) before the wait begins
	During []*itemPlan   // submitted by another goroutine while the wait is in progress
	Pause  time.Duration // between the last Pre submission and the WaitForDrain call
}

type c43Scenario struct {
	Cfg    pipeCfg
	Rounds []c43Round
	Long   string // "" | "decode" | "validate" | "apply": first block is held there for longHold
	// Overflow != "": the out-of-order buffer limit (MaxPendingBlocks) is small and
	// one or two early blocks are held in a worker while later blocks overtake them
	// in numbers around and above the limit.
	Overflow string
}

const (
	// classMargin is only used to choose between finding keys (which place the
	// unfinished block was in when the drain returned), never to decide whether
	// there is a violation: it is the assumed upper bound of the scheduling
	// delay between WaitForDrain's last poll and the harness reading the clock
	// after it returned.
	classMargin = 150 * time.Millisecond
	longHold    = 450 * time.Millisecond
	longPause   = 200 * time.Millisecond
)

func genHold(rt *rapid.T, label string) time.Duration {
	switch k := rapid.IntRange(0, 19).Draw(rt, label+"Kind"); {
	case k <= 8:
		return 0
	case k <= 12:
		return time.Duration(rapid.IntRange(100, 5000).Draw(rt, label+"Us")) * time.Microsecond
	default: // longer than WaitForDrain's 10 ms poll interval
		return time.Duration(rapid.IntRange(8, 45).Draw(rt, label+"Ms")) * time.Millisecond
	}
}

func genC43(rt *rapid.T) *c43Scenario {
	sc := &c43Scenario{}
	sc.Cfg.DecodeW = rapid.IntRange(1, 16).Draw(rt, "decodeWorkers")
	if rapid.Bool().Draw(rt, "validation") {
		sc.Cfg.ValidateW = rapid.IntRange(1, 16).Draw(rt, "validateWorkers")
		sc.Cfg.SkipBodyHash = true
	} else {
		sc.Cfg.SkipBodyHash = rapid.Bool().Draw(rt, "skipBodyHash")
	}
	sc.Cfg.Buf = rapid.SampledFrom([]int{1, 2, 8, 64}).Draw(rt, "buffer")
	sc.Cfg.MaxPending = rapid.SampledFrom([]int{0, 0, 1, 2, 3, 5}).Draw(rt, "maxPending")
	if rapid.IntRange(0, 3).Draw(rt, "overflow") == 3 {
		return genC43Overflow(rt, sc)
	}
	if k := rapid.IntRange(0, 19).Draw(rt, "long"); k >= 12 {
		sc.Long = []string{"decode", "decode", "decode", "validate", "validate", "validate", "apply", "apply"}[k-12]
		if sc.Long == "validate" && sc.Cfg.ValidateW == 0 {
			sc.Cfg.ValidateW, sc.Cfg.SkipBodyHash = 1, true
		}
		// few workers: the worker next to the one holding the block is then seen
		// taking further blocks, which confirms its hand-offs
		sc.Cfg.DecodeW = rapid.SampledFrom([]int{2, 2, 1}).Draw(rt, "longDecodeWorkers")
		if sc.Cfg.ValidateW > 0 {
			sc.Cfg.ValidateW = rapid.SampledFrom([]int{1, 1, 2}).Draw(rt, "longValidateWorkers")
		}
	}
	id := 0
	item := func(submitter int) *itemPlan {
		id++
		pl := &itemPlan{ID: id, CtxKind: ctxPatient, Submitter: submitter}
		pl.In = genInput(rt, sc.Cfg, 80)
		pl.Delay[sDecode] = genHold(rt, "dec")
		if sc.Cfg.ValidateW > 0 {
			pl.Delay[sValidate] = genHold(rt, "val")
		}
		pl.ApplyDelay = genHold(rt, "app")
		return pl
	}
	nr := rapid.IntRange(1, 3).Draw(rt, "rounds")
	if sc.Long != "" {
		nr = 1
	}
	for r := 0; r < nr; r++ {
		var rd c43Round
		minPre := 1
		if sc.Long == "decode" || sc.Long == "validate" {
			minPre = 3
		}
		np := rapid.IntRange(minPre, 6).Draw(rt, "pre")
		for i := 0; i < np; i++ {
			rd.Pre = append(rd.Pre, item(0))
		}
		if rapid.IntRange(0, 3).Draw(rt, "during") == 3 {
			nd := rapid.IntRange(1, 3).Draw(rt, "nDuring")
			for i := 0; i < nd; i++ {
				pl := item(1)
				pl.Pause = time.Duration(rapid.IntRange(0, 6000).Draw(rt, "duringPauseUs")) * time.Microsecond
				rd.During = append(rd.During, pl)
			}
		}
		if rapid.IntRange(0, 2).Draw(rt, "pauseBeforeWait") == 2 {
			rd.Pause = time.Duration(rapid.IntRange(100, 15000).Draw(rt, "pauseUs")) * time.Microsecond
		}
		sc.Rounds = append(sc.Rounds, rd)
	}
	if sc.Long != "" {
		// One good block is held for a long time in one place and the wait
		// starts late: this is what lets the oracle tell "a block sat in a place
		// PendingCount claims to count" (channel, pending map, running
		// ApplyFunc) from "it was inside a worker". For decode/validate the
		// first block is held (later ones pile up behind it in the pending map
		// or a channel); for apply the last one (nothing else is in flight).
		pre := sc.Rounds[0].Pre
		held := pre[0]
		if sc.Long == "apply" {
			held = pre[len(pre)-1]
		}
		hdr := nFixture
		if !sc.Cfg.SkipBodyHash {
			hdr = 0
		}
		held.In = classify(inputSpec{Base: hdr, Kind: "valid"}, sc.Cfg.SkipBodyHash, sc.Cfg.ValidateW > 0)
		switch sc.Long {
		case "decode":
			held.Delay[sDecode] = longHold
		case "validate":
			held.Delay[sValidate] = longHold
		case "apply":
			held.ApplyDelay = longHold
		}
		sc.Rounds[0].Pause = longPause
	}
	return sc
}

// genC43Overflow: MaxPendingBlocks m in 1..5; n blocks submitted in one go;
// block A (index 0 or 1) and usually a second block B further back are held
// inside a decode or validate worker (enough workers for the others to pass),
// so that the blocks between and behind them reach the apply stage out of order
// and pile up around / above the limit; A and B are released in generated order
// and the wait begins at a generated point (often while a block is still held).
func genC43Overflow(rt *rapid.T, sc *c43Scenario) *c43Scenario {
	m := rapid.SampledFrom([]int{1, 1, 2, 2, 3, 5}).Draw(rt, "ovMaxPending")
	sc.Cfg.MaxPending = m
	sc.Cfg.Buf = rapid.SampledFrom([]int{8, 64}).Draw(rt, "ovBuffer")
	stage := sDecode
	if sc.Cfg.ValidateW > 0 && rapid.Bool().Draw(rt, "ovHoldInValidate") {
		stage = sValidate
	}
	sc.Cfg.DecodeW = rapid.IntRange(3, 16).Draw(rt, "ovDecodeWorkers")
	if sc.Cfg.ValidateW > 0 {
		sc.Cfg.ValidateW = rapid.IntRange(3, 16).Draw(rt, "ovValidateWorkers")
	}
	n := rapid.IntRange(3, m+7).Draw(rt, "ovBlocks")
	ia := rapid.IntRange(0, 1).Draw(rt, "ovFirstHeld")
	ib := -1
	if rapid.IntRange(0, 4).Draw(rt, "ovSecondHeld") > 0 {
		// number of blocks between the two held ones: around the limit, most
		// often exactly limit+1 (then the overflow reports equal the blocks still
		// unfinished once the first held block and its followers are through)
		d := m + 2
		if rapid.IntRange(0, 9).Draw(rt, "ovGapKind") > 5 {
			d = rapid.IntRange(1, m+4).Draw(rt, "ovGap")
		}
		ib = ia + d
		if n < ib+1 {
			n = ib + 1 + rapid.IntRange(0, 2).Draw(rt, "ovBehindSecond")
		}
	}
	holdA := time.Duration(rapid.IntRange(12, 40).Draw(rt, "ovHoldAMs")) * time.Millisecond
	var holdB time.Duration
	if rapid.IntRange(0, 9).Draw(rt, "ovReleaseOrder") <= 6 {
		holdB = holdA + time.Duration(rapid.IntRange(15, 45).Draw(rt, "ovHoldBAfterMs"))*time.Millisecond
	} else { // released about together with, or before, the first held block
		holdB = holdA + time.Duration(rapid.IntRange(-10, 10).Draw(rt, "ovHoldBDeltaMs"))*time.Millisecond
	}
	var rd c43Round
	for i := 0; i < n; i++ {
		pl := &itemPlan{ID: i + 1, CtxKind: ctxPatient}
		pl.In = genInput(rt, sc.Cfg, 85)
		switch i {
		case ia:
			pl.Delay[stage] = holdA
		case ib:
			pl.Delay[stage] = holdB
		default:
			pl.Delay[sDecode] = genDelay(rt, "ovDec", 400)
		}
		if i == ia || i == ib {
			// a held block must be one that reaches the held stage as a live block
			hdr := nFixture
			if !sc.Cfg.SkipBodyHash {
				hdr = 0
			}
			pl.In = classify(inputSpec{Base: hdr, Kind: "valid"}, sc.Cfg.SkipBodyHash, sc.Cfg.ValidateW > 0)
		}
		rd.Pre = append(rd.Pre, pl)
	}
	// the wait begins while the first block is still held (mostly), between the
	// two releases, or after both
	switch k := rapid.IntRange(0, 9).Draw(rt, "ovWaitAt"); {
	case k <= 5:
		rd.Pause = time.Duration(rapid.IntRange(0, int(holdA/time.Millisecond)).Draw(rt, "ovPauseMs")) * time.Millisecond
	case k <= 8:
		rd.Pause = holdA + time.Duration(rapid.IntRange(0, 20).Draw(rt, "ovPauseMs"))*time.Millisecond
	default:
		rd.Pause = holdA + time.Duration(rapid.IntRange(30, 70).Draw(rt, "ovPauseMs"))*time.Millisecond
	}
	sc.Rounds = []c43Round{rd}
	sc.Overflow = fmt.Sprintf("max_pending=%d, block #%d held %v and block #%d held %v in the %s stage, %d blocks", m, ia+1, holdA, ib+1, holdB, stageNames[stage], n)
	// optionally a second round on the same pipeline (the counter must still be right)
	if rapid.Bool().Draw(rt, "ovSecondRound") {
		var r2 c43Round
		k := rapid.IntRange(1, 4).Draw(rt, "ovRound2")
		for i := 0; i < k; i++ {
			pl := &itemPlan{ID: n + i + 1, CtxKind: ctxPatient}
			pl.In = genInput(rt, sc.Cfg, 85)
			pl.Delay[sDecode] = genHold(rt, "ov2dec")
			pl.ApplyDelay = genHold(rt, "ov2app")
			r2.Pre = append(r2.Pre, pl)
		}
		sc.Rounds = append(sc.Rounds, r2)
	}
	return sc
}

type c43Drain struct {
	call, ret stamp
	err       error
}

// locate says whether the block had finished processing at T and, if not,
// where it was. Finished: a good block's ApplyFunc call had returned; a bad
// block's failing stage had at least started (necessary condition; the hook
// runs right before the stage).
func locateAt(w *world, id int, T stamp) (finished bool, loc, detail string) {
	e, pl := w.ev[id], w.plans[id]
	good := pl.In.good(w.validate)
	last := sDecode
	if w.validate {
		last = sValidate
	}
	if good {
		if len(e.applies) > 0 && e.applies[0].out.ok() && e.applies[0].out.ts < T.ts {
			return true, "", ""
		}
	} else {
		fs := sDecode
		if pl.In.Decodes {
			fs = sValidate
		}
		if e.hookOut[fs].ok() && e.hookOut[fs].ts < T.ts {
			return true, "", ""
		}
		last = fs
	}
	longAfter := func(next stamp) bool { // the block did not move on until well after T (or never)
		return !next.ok() || (next.ts > T.ts && next.wall.Sub(T.wall) >= classMargin)
	}
	applyIn := stamp{}
	if len(e.applies) > 0 {
		applyIn = e.applies[0].in
	}
	if good && applyIn.ok() && applyIn.ts < T.ts {
		detail = fmt.Sprintf("its ApplyFunc call had begun at t=%d (%v before the drain returned) and had not returned", applyIn.ts, T.wall.Sub(applyIn.wall).Round(time.Microsecond))
		if T.wall.Sub(applyIn.wall) >= classMargin {
			return false, "apply-call-running", detail
		}
		return false, "in-" + stageNames[last] + "-worker", detail + " (inside the scheduling margin: it may still have been with the worker when WaitForDrain polled)"
	}
	for si := last; si >= 0; si-- {
		if !e.hookIn[si].ok() || e.hookIn[si].ts >= T.ts {
			continue
		}
		next := applyIn
		if si < last {
			next = e.hookIn[si+1]
		}
		detail = fmt.Sprintf("a %s worker had taken it at t=%d", stageNames[si], e.hookIn[si].ts)
		if h := e.handoff[si]; h.ok() && h.ts < T.ts && T.wall.Sub(h.wall) >= classMargin && longAfter(next) {
			return false, "queued-after-" + stageNames[si], detail + fmt.Sprintf(" and had handed it on by t=%d (%v before the drain returned; the worker was seen taking its next block), the next stage did not touch it until well after", h.ts, T.wall.Sub(h.wall).Round(time.Microsecond))
		}
		if e.hookOut[si].ok() && e.hookOut[si].ts < T.ts {
			detail += fmt.Sprintf(", the injected latency ended at t=%d, no hand-off confirmed before the drain returned", e.hookOut[si].ts)
		} else {
			detail += " and the harness was still holding it there"
		}
		return false, "in-" + stageNames[si] + "-worker", detail
	}
	detail = fmt.Sprintf("its Submit had returned at t=%d and no decode worker had reported it yet", e.submitEnd.ts)
	if T.wall.Sub(e.submitEnd.wall) >= classMargin && longAfter(e.hookIn[sDecode]) {
		return false, "queued-for-decode", detail
	}
	return false, "in-decode-worker", detail + " (inside the scheduling margin: a worker may already have taken it)"
}

type c43Finding struct {
	key, what string
}

func judgeC43(w *world, drains []c43Drain) (fs []c43Finding, okDrains, heldDuringWait int) {
	w.mu.Lock()
	defer w.mu.Unlock()
	for r, d := range drains {
		if d.err != nil {
			continue
		}
		okDrains++
		held := false
		byKey := map[string][]string{}
		var order []string
		for _, id := range w.sortedIDs() {
			e := w.ev[id]
			if !e.submitted() || e.submitEnd.ts >= d.call.ts {
				continue
			}
			// was the block inside a worker / ApplyFunc while the wait was in progress?
			for si := 0; si < 2; si++ {
				if e.hookIn[si].ok() && e.hookIn[si].ts < d.ret.ts && (!e.hookOut[si].ok() || e.hookOut[si].ts > d.call.ts) {
					held = true
				}
			}
			for _, a := range e.applies {
				if a.in.ts < d.ret.ts && (!a.out.ok() || a.out.ts > d.call.ts) {
					held = true
				}
			}
			fin, loc, detail := locateAt(w, id, d.ret)
			if fin {
				continue
			}
			after := "it was never applied"
			if len(e.applies) > 0 {
				after = fmt.Sprintf("its ApplyFunc call ran at t=%d..%d", e.applies[0].in.ts, e.applies[0].out.ts)
			} else if !w.plans[id].In.good(w.validate) {
				after = "its failing stage ran afterwards"
			}
			k := "drain-returned-early:block-" + loc
			if _, ok := byKey[k]; !ok {
				order = append(order, k)
			}
			byKey[k] = append(byKey[k], fmt.Sprintf("block #%d (submitted t=%d..%d): %s; %s", id, e.submitStart.ts, e.submitEnd.ts, detail, after))
		}
		if held {
			heldDuringWait++
		}
		for _, k := range order {
			fs = append(fs, c43Finding{k, fmt.Sprintf("WaitForDrain #%d (called t=%d) returned nil at t=%d although %d block(s) submitted before the call had not finished processing: %s", r+1, d.call.ts, d.ret.ts, len(byKey[k]), strings.Join(byKey[k], " | "))})
		}
	}
	return
}

func (sc *c43Scenario) allItems() []*itemPlan {
	var all []*itemPlan
	for _, r := range sc.Rounds {
		all = append(all, r.Pre...)
		all = append(all, r.During...)
	}
	return all
}

func (sc *c43Scenario) caseObj(w *world, drains []c43Drain) map[string]any {
	validate := sc.Cfg.ValidateW > 0
	var rounds []map[string]any
	for i, r := range sc.Rounds {
		m := map[string]any{"pause_before_wait": r.Pause.String()}
		var pre, during []string
		for _, p := range r.Pre {
			pre = append(pre, p.desc(validate))
		}
		for _, p := range r.During {
			during = append(during, p.desc(validate))
		}
		m["submitted_before_wait"] = pre
		if len(during) > 0 {
			m["submitted_during_wait"] = during
		}
		if i < len(drains) {
			m["wait"] = fmt.Sprintf("WaitForDrain called t=%d returned t=%d err=%v", drains[i].call.ts, drains[i].ret.ts, drains[i].err)
		}
		rounds = append(rounds, m)
	}
	m := map[string]any{"config": sc.Cfg, "rounds": rounds}
	if sc.Long != "" {
		m["long_hold"] = fmt.Sprintf("first block held %v in %s, wait begins %v after its submission", longHold, sc.Long, longPause)
	}
	if sc.Overflow != "" {
		m["overflow_shape"] = sc.Overflow
	}
	if w != nil {
		m["history"] = w.historyText()
		m["pending_limit_overflows_seen"] = w.nOverflow
	}
	return m
}

func TestC43(t *testing.T) {
	rec := evi.New(t, "C43", evi.Exploration,
		"one case = pipeline config (1..16 workers per stage, validation on/off, buffer 1..64) + 1..3 rounds of [1..6 blocks submitted, optional pause, WaitForDrain; optionally 1..3 more blocks submitted by another goroutine during the wait]; every block gets generated hold times (0, 0.1..5 ms, or 8..45 ms = longer than the 10 ms poll) inside its decode worker, validate worker and ApplyFunc; max-pending limit drawn from {default,1,2,3,5}; 1 in 4 direct cases is an overflow shape (limit 1..5, >= 3 workers per stage, one or two early blocks held 12..85 ms inside a decode/validate worker while limit-1..limit+7 later blocks overtake them, released in generated order, the wait begins before / between / after the releases); ~25% of the cases hold one block 450 ms in one place with 1..2 workers per stage and start the wait 200 ms late; 1 case in 7 is a gate-driven backpressure case (buffer 1..3, 1..2 workers, block #1 held at a generated place by a harness gate, 3..13 further submissions with contexts expiring after 0.3..5 ms or already cancelled so that some fail while blocked on the full queue, further accepted blocks held by gates, WaitForDrain started while blocks are held, gates opened one by one >= 12 ms apart, PendingCount() read after every step); every direct round also reads PendingCount() right before the wait and at the end of the case; non-trivial = a WaitForDrain returned nil in a round where a block submitted before the call was inside a worker or ApplyFunc while the wait was in progress; distinct by config+rounds")
	defer rec.Finish()
	rec.Assume(
		"a block counts as submitted before the wait iff its Submit returned before WaitForDrain was called (logical clock); the return instant is read right after WaitForDrain returns",
		"finished = ApplyFunc returned (good block) / the failing stage has at least started (bad block: necessary condition only)",
		"wall-clock (150 ms scheduling margin) is used only to name the place the unfinished block was in (finding key), not to decide that it was unfinished",
		"'decodes' / 'validates' are defined by direct calls of the ledger decoder / VerifyBlock",
	)
	drainTimeouts := new(int)
	defer func() {
		if *drainTimeouts > 0 && !t.Failed() {
			t.Errorf("harness: %d WaitForDrain call(s) did not return nil within 2 s + 20x the injected latency although the pipeline finished every block; no C43 claim can be made for them", *drainTimeouts)
		}
	}()
	rec.Check(func(rt *rapid.T) {
		switch rapid.IntRange(0, 6).Draw(rt, "mode") {
		case 6:
			c43ClientCase(rec, rt, drainTimeouts)
			return
		case 5:
			c43BackpressureCase(rec, rt, drainTimeouts)
			return
		}
		sc := genC43(rt)
		all := sc.allItems()
		w := newWorld(sc.Cfg, all)
		w.probePending = true
		if err := w.start(); err != nil {
			rt.Fatalf("harness: pipeline did not start: %v", err)
		}
		var drains []c43Drain
		var planned time.Duration // all latency the harness injects in this case
		for _, p := range all {
			planned += p.Delay[0] + p.Delay[1] + p.ApplyDelay + p.Pause
		}
		// Not an oracle: a wait that does not succeed within the bound only means
		// "no claim". Generous first; once three waits have failed the run can at
		// best end inconclusive (unless a violation is found), so stop paying.
		drainBound := 2*time.Second + 20*planned
		if *drainTimeouts >= 3 {
			drainBound = 500*time.Millisecond + 3*planned
		}
		for _, rd := range sc.Rounds {
			if len(drains) > 0 && drains[len(drains)-1].err != nil {
				break // the previous wait never succeeded: no further claims in this case
			}
			for _, p := range rd.Pre {
				w.submit(p)
			}
			if rd.Pause > 0 {
				time.Sleep(rd.Pause)
			}
			w.samplePending("before WaitForDrain")
			var during <-chan struct{}
			if len(rd.During) > 0 {
				during = w.runSubmitters(rd.During)
			}
			ctx, cancel := context.WithTimeout(context.Background(), drainBound)
			d := c43Drain{call: w.tick()}
			d.err = w.p.WaitForDrain(ctx)
			d.ret = w.tick()
			cancel()
			drains = append(drains, d)
			if during != nil {
				<-during
			}
		}
		complete := w.waitCond(func() bool {
			n, r, _, _ := w.counts()
			return r >= n
		}, 10*time.Second)
		dump := ""
		if !complete {
			dump = clipStr(stackOfAll(), 30000)
		}
		endPC := 0
		if complete {
			endPC = w.p.PendingCount() // every Submit returned, every accepted block left Results()
		}
		probs := w.finish()
		fs, okDrains, heldDuring := judgeC43(w, drains)
		fs = append(fs, judgePendingCount(w, complete, endPC)...)
		rec.EvalN(len(drains) + len(w.samples))

		heldZero := false
		for _, e := range w.ev {
			if e.heldZero {
				heldZero = true
			}
		}
		rec.ClassN("drains_returned_nil", okDrains)
		rec.ClassN("drains_with_block_inside_worker_or_apply_during_wait", heldDuring)
		if heldZero {
			rec.Class("PendingCount_zero_observed_while_block_held_in_worker")
		}
		if sc.Cfg.ValidateW > 0 {
			rec.Class("validation_on")
		}
		if sc.Long != "" {
			rec.Class("long_hold_" + sc.Long)
		}
		if sc.Overflow != "" {
			rec.Class("overflow_shape_case")
		}
		if sc.Cfg.MaxPending > 0 {
			rec.Class("small_max_pending")
			if w.nOverflow > 0 {
				rec.Class("pending_limit_exceeded_observed")
			}
		}
		for _, rd := range sc.Rounds {
			if len(rd.During) > 0 {
				rec.Class("round_with_concurrent_submitter")
			}
		}
		if heldDuring > 0 {
			var sb strings.Builder
			sb.WriteString(sc.Cfg.String() + ";long=" + sc.Long + ";ov=" + sc.Overflow)
			for _, rd := range sc.Rounds {
				fmt.Fprintf(&sb, "|pause=%v", rd.Pause)
				for _, p := range rd.Pre {
					sb.WriteString(";" + p.desc(w.validate))
				}
				sb.WriteString("|during")
				for _, p := range rd.During {
					sb.WriteString(";" + p.desc(w.validate))
				}
			}
			smp := sc.caseObj(nil, drains)
			smp["observed"] = fmt.Sprintf("drains ok=%d, with a block inside a worker/ApplyFunc during the wait=%d, PendingCount()==0 seen while a block was held in a worker=%v", okDrains, heldDuring, heldZero)
			rec.NonTrivial(sb.String(), smp)
		}

		if okDrains < len(drains) {
			// A wait that never succeeds makes no claim (the statement is about
			// successful returns); it is counted and, if nothing else is found,
			// reported as inconclusive at the end of the test.
			rec.Class("drain_did_not_return_nil_within_bound(no claim)")
			*drainTimeouts++
		}
		if !complete {
			rt.Fatalf("harness: pipeline did not finish the submitted blocks (not a C43 question)\n%s", dump)
		}
		if s, ok := probs["stop-hangs"]; ok {
			rt.Fatalf("harness: %s", s)
		}
		for _, f := range fs {
			rec.Fail(rt, f.key, f.what, sc.caseObj(w, drains))
		}
	})
}

// c43ClientCase: the same oracle, observed through the chain-sync client's
// RollBackward handling (see c43_client_test.go).
func c43ClientCase(rec *evi.Recorder, rt *rapid.T, drainTimeouts *int) {
	sc := genC43Client(rt)
	patience := 10 * time.Second
	if *drainTimeouts >= 3 {
		patience = 2 * time.Second // the run can at best end inconclusive: stop paying
	}
	o := runC43Client(sc, patience)
	if o.err != "" {
		rt.Fatalf("harness (chain-sync client mode): %s", o.err)
	}
	if o.stuck {
		rec.Class("chainsync_client_stuck_in_drain(no claim)")
		*drainTimeouts++
	}
	fs, rollbacks, heldDuring := judgeC43Client(sc, o)
	rec.EvalN(rollbacks)
	rec.Class("chainsync_client_case")
	rec.ClassN("chainsync_rollbacks_judged", rollbacks)
	rec.ClassN("chainsync_rollbacks_with_block_inside_worker_or_apply_during_wait", heldDuring)
	if heldDuring > 0 {
		var sb strings.Builder
		fmt.Fprintf(&sb, "client;%s;limit=%d", sc.Cfg.String(), sc.PipelineLimit)
		for _, ev := range sc.Script {
			if ev.Back {
				sb.WriteString(";B")
			} else {
				sb.WriteString(";F:" + ev.Item.desc(o.w.validate))
			}
		}
		rec.NonTrivial(sb.String(), sc.caseObj(nil))
	}
	for _, f := range fs {
		rec.Fail(rt, f.key, f.what, sc.caseObj(o))
	}
}

// judgePendingCount checks the counter invariants that follow from the
// statement (WaitForDrain succeeds exactly when PendingCount() reads 0):
// a reading of PendingCount() is never below the number of blocks the harness
// knows to have been accepted before and unfinished after the reading, and
// once every Submit has returned and every accepted block has left Results()
// it reads 0 (a negative or left-over count means WaitForDrain can succeed
// early resp. never again).
func judgePendingCount(w *world, complete bool, endPC int) (fs []c43Finding) {
	w.mu.Lock()
	defer w.mu.Unlock()
	for _, sm := range w.samples {
		if sm.pc < 0 {
			fs = append(fs, c43Finding{"pending-count-negative", fmt.Sprintf("PendingCount() returned %d (%s, t=%d..%d)", sm.pc, sm.note, sm.t1.ts, sm.t2.ts)})
			break
		}
	}
	for _, sm := range w.samples {
		if ids := w.knownUnfinished(sm); sm.pc < len(ids) {
			fs = append(fs, c43Finding{"pending-count-below-unfinished", fmt.Sprintf("PendingCount() returned %d (%s, read between t=%d and t=%d) although %d blocks whose Submit had returned nil before were still unfinished afterwards: %v; WaitForDrain would return nil with %d of them unfinished", sm.pc, sm.note, sm.t1.ts, sm.t2.ts, len(ids), ids, len(ids)-sm.pc)})
			break
		}
	}
	if complete && endPC != 0 {
		sign := "positive"
		if endPC < 0 {
			sign = "negative"
		}
		fs = append(fs, c43Finding{"pending-count-nonzero-after-all-finished:" + sign, fmt.Sprintf("after every Submit had returned and every accepted block had left Results(), PendingCount() = %d instead of 0 (WaitForDrain can no longer succeed / succeeds with blocks in flight)", endPC)})
	}
	return
}
