package pipe

import (
	"context"
	"encoding/hex"
	"errors"
	"fmt"
	"sync"
	"time"

	"github.com/blinklabs-io/gouroboros/ledger"
	lcommon "github.com/blinklabs-io/gouroboros/ledger/common"
	"pgregory.net/rapid"

	"verif/harness/internal/evi"
	"verif/harness/internal/fixtures"
)

// ---------------------------------------------------------------------------
// Block inputs: real fixture blocks (valid), header-only real mainnet blocks
// (valid and passing VRF/KES validation with the right epoch nonce), and
// truncated / corrupted / mistyped variants (invalid).
// ---------------------------------------------------------------------------

const slotsPerKesPeriod = 129600

const zeroNonce = "0000000000000000000000000000000000000000000000000000000000000000"

type baseBlock struct {
	Name     string
	Type     uint
	Bytes    []byte
	Eta0     string // non-empty: header-only block validating with this nonce
	Slot     uint64
	Verified bool
}

var (
	basesOnce sync.Once
	bases     []baseBlock
	nFixture  int
	etaBySlot map[uint64]string
)

func verifyCfg() lcommon.VerifyConfig {
	return lcommon.VerifyConfig{
		SkipBodyHashValidation:    true,
		SkipTransactionValidation: true,
		SkipStakePoolValidation:   true,
	}
}

func loadBases() []baseBlock {
	basesOnce.Do(func() {
		for _, f := range fixtures.SmallBlocks() {
			bases = append(bases, baseBlock{Name: f.Name, Type: f.Type, Bytes: f.Bytes})
		}
		nFixture = len(bases)
		etaBySlot = map[uint64]string{}
		for _, h := range []struct {
			name, hx, eta string
			typ           uint
		}{
			{"hdronly_conway_a", conwayHdrAHex, conwayHdrAEta0, fixtures.TypeConway},
			{"hdronly_conway_b", conwayHdrBHex, conwayHdrBEta0, fixtures.TypeConway},
			{"hdronly_babbage_c", babbageHdrCHex, babbageHdrCEta0, fixtures.TypeBabbage},
		} {
			hb, err := hex.DecodeString(h.hx)
			if err != nil {
				panic(err)
			}
			// [header, tx_bodies [], witness_sets [], aux_data {}, invalid_txs []]
			blk := append([]byte{0x85}, hb...)
			blk = append(blk, 0x80, 0x80, 0xa0, 0x80)
			b := baseBlock{Name: h.name, Type: h.typ, Bytes: blk, Eta0: h.eta}
			if dec, err := ledger.NewBlockFromCbor(h.typ, blk, lcommon.VerifyConfig{SkipBodyHashValidation: true}); err == nil {
				b.Slot = dec.SlotNumber()
				etaBySlot[b.Slot] = h.eta
			}
			bases = append(bases, b)
		}
	})
	return bases
}

// eta0Provider is what the pipeline under test is configured with: the real
// epoch nonce for the slots of the header-only blocks, a well-formed but wrong
// nonce for everything else (so fixture blocks decode but fail validation).
func eta0Provider(slot uint64) (string, error) {
	loadBases()
	if e, ok := etaBySlot[slot]; ok {
		return e, nil
	}
	return zeroNonce, nil
}

type inputSpec struct {
	Base  int    `json:"base"`
	Kind  string `json:"kind"` // valid | trunc | flip | wrongtype | empty
	Param int    `json:"param"`
}

type input struct {
	Spec      inputSpec
	Desc      string
	Type      uint
	Bytes     []byte
	Decodes   bool // ledger.NewBlockFromCbor succeeds (with the pipeline's body-hash setting)
	Validates bool // decodes and ledger.VerifyBlock says valid (only meaningful with validation on)
	DecErr    string
	ValErr    string
	ProvErr   string // non-empty: the nonce provider fails for this block with this kind of error
}

type inputKey struct {
	spec     inputSpec
	skipBody bool
	validate bool
}

var (
	inputMu    sync.Mutex
	inputCache = map[inputKey]*input{}
)

func buildBytes(spec inputSpec) (uint, []byte, string) {
	b := loadBases()[spec.Base]
	switch spec.Kind {
	case "valid":
		return b.Type, b.Bytes, b.Name
	case "trunc":
		cut := spec.Param % len(b.Bytes)
		return b.Type, b.Bytes[:cut], fmt.Sprintf("%s[:%d]", b.Name, cut)
	case "flip":
		pos := spec.Param % len(b.Bytes)
		c := append([]byte(nil), b.Bytes...)
		c[pos] ^= 0x55
		return b.Type, c, fmt.Sprintf("%s^@%d", b.Name, pos)
	case "wrongtype":
		ty := (b.Type + uint(1+spec.Param%8)) % 9
		return ty, b.Bytes, fmt.Sprintf("%s-as-type%d", b.Name, ty)
	case "empty":
		return b.Type, nil, b.Name + "-empty"
	}
	panic("bad kind " + spec.Kind)
}

// classify is the reference for "decodes" / "validates": the ledger decoder
// and ledger.VerifyBlock called directly, outside any pipeline, with the same
// configuration the pipeline is given. The pipeline properties are about
// routing and ordering, not about what the decoder accepts.
func classify(spec inputSpec, skipBody, validate bool) *input {
	k := inputKey{spec, skipBody, validate}
	inputMu.Lock()
	if in, ok := inputCache[k]; ok {
		inputMu.Unlock()
		return in
	}
	inputMu.Unlock()
	ty, bs, desc := buildBytes(spec)
	in := &input{Spec: spec, Desc: desc, Type: ty, Bytes: bs}
	p := evi.Safely(func() {
		blk, err := ledger.NewBlockFromCbor(ty, bs, lcommon.VerifyConfig{SkipBodyHashValidation: skipBody})
		if err != nil {
			in.DecErr = err.Error()
			return
		}
		in.Decodes = true
		if !validate {
			return
		}
		eta0, _ := eta0Provider(blk.SlotNumber())
		ok, _, _, _, err := ledger.VerifyBlock(blk, eta0, slotsPerKesPeriod, verifyCfg())
		if err != nil {
			in.ValErr = err.Error()
			return
		}
		in.Validates = ok
	})
	if p != "" {
		// a crashing decoder is another property's business: do not feed this
		// input to the pipeline
		return nil
	}
	inputMu.Lock()
	if len(inputCache) < 20000 {
		inputCache[k] = in
	}
	inputMu.Unlock()
	return in
}

// good reports whether the block must be applied under cfg.
func (in *input) good(validate bool) bool {
	if validate {
		return in.Decodes && in.Validates
	}
	return in.Decodes
}

func (in *input) class(validate bool) string {
	switch {
	case !in.Decodes:
		return "decode-fails"
	case validate && !in.Validates:
		return "validation-fails"
	default:
		return "good"
	}
}

// genInput draws one block. pGoodPct is the approximate share of blocks that
// are applied (drawn as the unmodified base; the rest are mutations).
func genInput(rt *rapid.T, cfg pipeCfg, pValidPct int) *input {
	bs := loadBases()
	validate := cfg.ValidateW > 0
	var base int
	if validate && rapid.IntRange(0, 9).Draw(rt, "hdrOnly") < 6 {
		base = nFixture + rapid.IntRange(0, len(bs)-nFixture-1).Draw(rt, "hdrBase")
	} else if !cfg.SkipBodyHash {
		base = rapid.IntRange(0, nFixture-1).Draw(rt, "base") // header-only blocks have a wrong body hash
	} else {
		base = rapid.IntRange(0, len(bs)-1).Draw(rt, "base")
	}
	spec := inputSpec{Base: base, Kind: "valid"}
	if rapid.IntRange(0, 99).Draw(rt, "mut") >= pValidPct {
		switch rapid.IntRange(0, 9).Draw(rt, "mutKind") {
		case 0, 1, 2, 3:
			spec.Kind = "trunc"
			spec.Param = rapid.IntRange(0, len(bs[base].Bytes)-1).Draw(rt, "cut")
		case 4, 5, 6:
			spec.Kind = "flip"
			spec.Param = rapid.IntRange(0, len(bs[base].Bytes)-1).Draw(rt, "pos")
		case 7, 8:
			spec.Kind = "wrongtype"
			spec.Param = rapid.IntRange(0, 7).Draw(rt, "ty")
		default:
			spec.Kind = "empty"
		}
	}
	in := classify(spec, cfg.SkipBodyHash, validate)
	if in == nil {
		in = classify(inputSpec{Base: base, Kind: "valid"}, cfg.SkipBodyHash, validate)
	}
	// Failure model of the validate stage beyond "VerifyBlock says no": the
	// nonce provider fails for this block, with a plain error or with an error
	// that is / wraps a context error although the pipeline context is alive
	// (e.g. a ledger lookup bounded by its own deadline).
	if validate && in.Decodes && rapid.IntRange(0, 11).Draw(rt, "providerFails") == 11 {
		in = withProviderFailure(in, rapid.SampledFrom(providerFailKinds).Draw(rt, "providerErr"))
	}
	return in
}

var providerFailKinds = []string{"plain", "wraps-deadline-exceeded", "wraps-canceled", "bare-deadline-exceeded", "bare-canceled"}

// withProviderFailure returns a copy of in for which the harness's nonce
// provider fails: ValidateStage then records a validation error, so the block
// must come out of Results() as failed and must not be applied.
func withProviderFailure(in *input, kind string) *input {
	c := *in
	c.ProvErr = kind
	c.Validates = false
	c.ValErr = "eta0 provider error: " + kind
	c.Desc = in.Desc + "+provider:" + kind
	return &c
}

func providerError(kind string) error {
	switch kind {
	case "plain":
		return errors.New("harness: nonce unknown")
	case "wraps-deadline-exceeded":
		return fmt.Errorf("harness: nonce lookup: %w", context.DeadlineExceeded)
	case "wraps-canceled":
		return fmt.Errorf("harness: nonce lookup: %w", context.Canceled)
	case "bare-deadline-exceeded":
		return context.DeadlineExceeded
	case "bare-canceled":
		return context.Canceled
	}
	panic("bad provider failure kind " + kind)
}

// genDelay draws a latency in microseconds: mostly zero, sometimes small,
// sometimes up to maxUs. Shrinks towards zero.
func genDelay(rt *rapid.T, label string, maxUs int) time.Duration {
	switch k := rapid.IntRange(0, 9).Draw(rt, label+"Kind"); {
	case k <= 4:
		return 0
	case k <= 7:
		return time.Duration(rapid.IntRange(10, 300).Draw(rt, label+"Us")) * time.Microsecond
	default:
		if maxUs < 301 {
			maxUs = 301
		}
		return time.Duration(rapid.IntRange(300, maxUs).Draw(rt, label+"Us")) * time.Microsecond
	}
}
