package rewards

import (
	"fmt"
	"math/big"
	"sort"
	"strings"
	"testing"

	"github.com/blinklabs-io/gouroboros/cbor"
	"github.com/blinklabs-io/gouroboros/ledger/common"
	"pgregory.net/rapid"

	"verif/harness/internal/evi"
)

// ---- generated snapshot ------------------------------------------------------

type gDeleg struct {
	Key        int    `json:"key"`
	Stake      uint64 `json:"stake"`
	Registered bool   `json:"registered"`
}

type gPool struct {
	ID        int      `json:"id"`
	MarginNum int64    `json:"margin_num"`
	MarginDen int64    `json:"margin_den"`
	Cost      uint64   `json:"cost"`
	Blocks    uint32   `json:"blocks"`
	Owners    []int    `json:"owners"`
	Delegs    []gDeleg `json:"delegators"`
	NoParams  bool     `json:"no_params,omitempty"`
}

type gCase struct {
	Pot         uint64  `json:"pot"`
	PotClass    string  `json:"pot_class"`
	Pools       []gPool `json:"pools"`
	ExtraStake  uint64  `json:"unpooled_active_stake"`
	TotalBlocks uint32  `json:"total_blocks"`
	A0Num       int64   `json:"a0_num"`
	A0Den       int64   `json:"a0_den"`
}

const totalSupply = 45_000_000_000_000_000 // lovelace

func hash28(tag byte, i int) (h common.Blake2b224) {
	h[0] = tag
	h[1] = byte(i)
	h[2] = byte(i >> 8)
	h[27] = tag ^ 0x5a
	return
}

func genStake(rt *rapid.T, budget uint64, label string) uint64 {
	if budget == 0 {
		return 0
	}
	var v uint64
	switch rapid.IntRange(0, 5).Draw(rt, label+"Class") {
	case 0:
		v = rapid.Uint64Range(0, 10).Draw(rt, label+"Tiny")
	case 1:
		v = rapid.Uint64Range(1_000_000, 1_000_000_000_000).Draw(rt, label+"Mid")
	case 2:
		v = rapid.Uint64Range(1_000_000_000_000, 70_000_000_000_000).Draw(rt, label+"Pool") // up to ~saturation
	case 3:
		v = rapid.Uint64Range(1<<52, 1<<55).Draw(rt, label+"Huge")
	default:
		v = rapid.Uint64Range(0, budget).Draw(rt, label+"Any")
	}
	if v > budget {
		v = budget
	}
	return v
}

func genCase(rt *rapid.T) gCase {
	var c gCase
	switch rapid.IntRange(0, 3).Draw(rt, "potClass") {
	case 0:
		c.PotClass = "realistic(<=3e13)"
		c.Pot = rapid.Uint64Range(1, 30_000_000_000_000).Draw(rt, "pot")
	case 1:
		c.PotClass = "below-2^53"
		c.Pot = rapid.Uint64Range(30_000_000_000_001, 1<<53).Draw(rt, "pot")
	case 2:
		c.PotClass = "above-2^53"
		c.Pot = rapid.Uint64Range(1<<53+1, totalSupply).Draw(rt, "pot")
	default:
		c.PotClass = "small(<=1e6)"
		c.Pot = rapid.Uint64Range(1, 1_000_000).Draw(rt, "pot")
	}
	// pots that a float64 cannot represent exactly (odd offsets above 2^53 .. 2^55) by construction
	if c.PotClass == "above-2^53" && rapid.Bool().Draw(rt, "potOdd") {
		c.Pot = uint64(1)<<rapid.IntRange(53, 55).Draw(rt, "potPow") + uint64(rapid.IntRange(1, 9).Draw(rt, "potOff"))
		if c.Pot > totalSupply {
			c.Pot = totalSupply - uint64(rapid.IntRange(0, 9).Draw(rt, "potBelowSupply"))
		}
	}
	nPools := rapid.IntRange(1, 12).Draw(rt, "nPools")
	// degenerate shapes where one party's share is exactly 1: a single pool with a single
	// delegator (owner or not), margin 0 or 1, no cost
	degenerate := rapid.IntRange(0, 5).Draw(rt, "degenerate") == 0
	if degenerate {
		nPools = rapid.IntRange(1, 2).Draw(rt, "nPoolsDegenerate")
	}
	budget := uint64(totalSupply)
	key := 0
	for p := 0; p < nPools; p++ {
		gp := gPool{ID: p}
		gp.MarginDen = int64(rapid.IntRange(1, 1000).Draw(rt, "marginDen"))
		switch rapid.IntRange(0, 3).Draw(rt, "marginKind") {
		case 0:
			gp.MarginNum = 0
		case 1:
			gp.MarginNum = gp.MarginDen
		default:
			gp.MarginNum = int64(rapid.IntRange(0, int(gp.MarginDen)).Draw(rt, "marginNum"))
		}
		switch rapid.IntRange(0, 3).Draw(rt, "costKind") {
		case 0:
			gp.Cost = 0
		case 1:
			gp.Cost = 340_000_000
		case 2:
			gp.Cost = rapid.Uint64Range(0, c.Pot).Draw(rt, "costUpToPot")
		default:
			gp.Cost = rapid.Uint64Range(0, 1_000_000_000_000).Draw(rt, "cost")
		}
		gp.Blocks = uint32(rapid.IntRange(0, 300).Draw(rt, "blocks"))
		nd := rapid.IntRange(0, 6).Draw(rt, "nDeleg")
		if degenerate {
			nd = 1
			gp.Cost = 0
			if gp.MarginNum != 0 {
				gp.MarginNum = gp.MarginDen
			}
		}
		for d := 0; d < nd; d++ {
			st := genStake(rt, budget, "stake")
			budget -= st
			gp.Delegs = append(gp.Delegs, gDeleg{Key: key, Stake: st, Registered: rapid.IntRange(0, 4).Draw(rt, "reg") != 0})
			key++
		}
		// owners: a subset of the delegators, sometimes a key that does not delegate here
		for _, d := range gp.Delegs {
			if rapid.IntRange(0, 2).Draw(rt, "isOwner") == 0 {
				gp.Owners = append(gp.Owners, d.Key)
			}
		}
		if rapid.IntRange(0, 5).Draw(rt, "foreignOwner") == 0 {
			gp.Owners = append(gp.Owners, 60000+p)
		}
		gp.NoParams = nPools > 1 && rapid.IntRange(0, 15).Draw(rt, "noParams") == 0
		c.TotalBlocks += gp.Blocks
		c.Pools = append(c.Pools, gp)
	}
	if rapid.Bool().Draw(rt, "hasUnpooled") {
		c.ExtraStake = genStake(rt, budget, "unpooled")
	}
	if rapid.IntRange(0, 9).Draw(rt, "zeroTotalBlocks") == 0 {
		c.TotalBlocks = 0
	}
	c.A0Den = int64(rapid.IntRange(1, 100).Draw(rt, "a0Den"))
	c.A0Num = int64(rapid.IntRange(0, 100).Draw(rt, "a0Num"))
	return c
}

func (c gCase) build() (common.AdaPots, common.RewardSnapshot, common.RewardParameters) {
	snap := common.RewardSnapshot{
		PoolStake:          map[common.PoolKeyHash]uint64{},
		DelegatorStake:     map[common.PoolKeyHash]map[common.AddrKeyHash]uint64{},
		PoolParams:         map[common.PoolKeyHash]*common.PoolRegistrationCertificate{},
		StakeRegistrations: map[common.AddrKeyHash]bool{},
		PoolBlocks:         map[common.PoolKeyHash]uint32{},
		TotalBlocksInEpoch: c.TotalBlocks,
	}
	total := c.ExtraStake
	for _, p := range c.Pools {
		pid := common.PoolKeyHash(hash28(0xA0, p.ID))
		ds := map[common.AddrKeyHash]uint64{}
		sum := uint64(0)
		for _, d := range p.Delegs {
			k := common.AddrKeyHash(hash28(0xD0, d.Key))
			ds[k] = d.Stake
			sum += d.Stake
			if d.Registered {
				snap.StakeRegistrations[k] = true
			}
		}
		snap.DelegatorStake[pid] = ds
		snap.PoolStake[pid] = sum
		snap.PoolBlocks[pid] = p.Blocks
		total += sum
		if !p.NoParams {
			owners := make([]common.AddrKeyHash, len(p.Owners))
			for i, o := range p.Owners {
				owners[i] = common.AddrKeyHash(hash28(0xD0, o))
			}
			snap.PoolParams[pid] = &common.PoolRegistrationCertificate{
				Operator:   pid,
				Cost:       p.Cost,
				Margin:     cbor.Rat{Rat: big.NewRat(p.MarginNum, p.MarginDen)},
				PoolOwners: owners,
			}
		}
	}
	snap.TotalActiveStake = total
	params := common.RewardParameters{
		PoolInfluence:         big.NewRat(c.A0Num, c.A0Den),
		ActiveSlotsCoeff:      big.NewRat(1, 20),
		ExpectedSlotsPerEpoch: 432000,
	}
	return common.AdaPots{Rewards: c.Pot, Reserves: 1, Treasury: 1}, snap, params
}

// judge applies the three invariants of the statement to one result and
// returns a finding key ("" when all hold) plus a description.
func judge(c gCase, res *common.RewardCalculationResult) (string, string) {
	// what was taken out of the rewards pot is what has to be distributed: a
	// successful calculation either empties the pot or (no active stake) leaves
	// it untouched and distributes nothing
	if res.UpdatedPots.Rewards > c.Pot {
		return "updated-pot-grew", fmt.Sprintf("UpdatedPots.Rewards=%d > pot %d", res.UpdatedPots.Rewards, c.Pot)
	}
	taken := c.Pot - res.UpdatedPots.Rewards
	pot := new(big.Int).SetUint64(taken)
	if res.TotalRewards != taken {
		return "total-rewards-field", fmt.Sprintf("TotalRewards=%d, but %d was taken from the pot (pot %d, left %d)", res.TotalRewards, taken, c.Pot, res.UpdatedPots.Rewards)
	}
	sum := new(big.Int)
	ids := make([]string, 0, len(res.PoolRewards))
	for id := range res.PoolRewards {
		ids = append(ids, string(id[:]))
	}
	sort.Strings(ids)
	for _, ids_ := range ids {
		var id common.PoolKeyHash
		copy(id[:], ids_)
		pr := res.PoolRewards[id]
		sum.Add(sum, new(big.Int).SetUint64(pr.TotalRewards))
		if new(big.Int).SetUint64(pr.TotalRewards).Cmp(pot) > 0 {
			return "pool-total-exceeds-pot", fmt.Sprintf("pool %x total %d > pot %d", id[:3], pr.TotalRewards, c.Pot)
		}
		inner := new(big.Int).SetUint64(pr.OperatorRewards)
		if pr.OperatorRewards > c.Pot {
			return "operator-exceeds-pot", fmt.Sprintf("pool %x operator reward %d > pot %d", id[:3], pr.OperatorRewards, c.Pot)
		}
		for k, v := range pr.DelegatorRewards {
			if v > c.Pot {
				return "delegator-exceeds-pot", fmt.Sprintf("pool %x delegator %x reward %d > pot %d", id[:3], k[:3], v, c.Pot)
			}
			inner.Add(inner, new(big.Int).SetUint64(v))
		}
		if inner.Cmp(new(big.Int).SetUint64(pr.TotalRewards)) != 0 {
			return "pool-split-not-exact", fmt.Sprintf("pool %x: operator %d + delegators = %s, pool total %d", id[:3], pr.OperatorRewards, inner, pr.TotalRewards)
		}
	}
	if sum.Cmp(pot) != 0 {
		return "pool-totals-do-not-sum-to-pot", fmt.Sprintf("sum of pool totals %s, taken from pot %d", sum, taken)
	}
	return "", ""
}

func TestC45(t *testing.T) {
	rec := evi.New(t, "C45", evi.Exploration,
		"reward snapshots with 1..12 pools, 0..6 delegators each (stakes from tiny to 2^55, total <= 4.5e16 lovelace), owner subsets (incl. non-delegating owners), registration flags, margins as rationals in [0,1] (0 and 1 over-represented), costs (0, 340 ada, up to the pot), block counts, a0, optional unpooled active stake and pools without parameters; reward pot in four classes (<=1e6, <=3e13 'realistic', <=2^53, <=4.5e16). Pots above 2^53 are drawn half the time as 2^k+odd (not representable as float64); one case in six is degenerate (1-2 pools, one delegator each, margin 0 or 1, no cost: a share of exactly 1). Each case is evaluated 6 times because the implementation iterates Go maps, alternately on re-used and on freshly built input objects. Oracle = the statement's invariants in exact integer arithmetic: sum of pool totals == pot == TotalRewards; operator + delegators == pool total; no amount > pot. non-trivial = success with >= 2 rewarded pools or a pool whose total exceeds its cost with >= 1 registered delegator; distinct by the whole case")
	defer rec.Finish()
	rec.Assume("snapshots are internally consistent (pool stake = sum of its delegators, total active stake = sum of pools + unpooled), as a ledger-produced snapshot is",
		"errors returned by CalculateRewards are outside the statement (it speaks about successful calculations)")
	reps := 6

	rec.Check(func(rt *rapid.T) {
		c := genCase(rt)
		pots, snap, params := c.build()
		rec.Class("pot:" + c.PotClass)
		var firstKey, firstWhat string
		ok := 0
		for i := 0; i < reps; i++ {
			if i%2 == 1 {
				// every other evaluation gets freshly built inputs, the others re-use the
				// objects of the previous call (a calculation must not depend on, or leave
				// behind, anything in its inputs)
				pots, snap, params = c.build()
			}
			res, err := common.CalculateRewards(pots, snap, params)
			rec.Eval()
			if err != nil {
				rec.Class("calc_error")
				continue
			}
			ok++
			if k, w := judge(c, res); k != "" && firstKey == "" {
				firstKey, firstWhat = k, w
			}
			if i == 0 {
				rewarded, rich := 0, false
				for id, pr := range res.PoolRewards {
					if pr.TotalRewards > 0 {
						rewarded++
					}
					if len(pr.DelegatorRewards) > 0 && pr.TotalRewards > snap.PoolParams[id].Cost {
						rich = true
					}
				}
				if rewarded >= 2 || rich {
					rec.NonTrivial(fmt.Sprintf("%+v", c), c)
				}
				if rich {
					rec.Class("has_delegator_payout")
				}
			}
		}
		if firstKey != "" {
			key := fmt.Sprintf("%s:pot=%s", firstKey, c.PotClass)
			rec.Fail(rt, key, firstWhat+" ("+summ(c)+")", c)
		}
	})
}

func summ(c gCase) string {
	var sb strings.Builder
	fmt.Fprintf(&sb, "pot=%d pools=%d", c.Pot, len(c.Pools))
	for _, p := range c.Pools {
		fmt.Fprintf(&sb, " [m=%d/%d cost=%d d=%d]", p.MarginNum, p.MarginDen, p.Cost, len(p.Delegs))
	}
	return sb.String()
}
