package consensus

import (
	"fmt"
	"math/big"
	"testing"

	lc "github.com/blinklabs-io/gouroboros/consensus"
)

func TestProbe(t *testing.T) {
	one := big.NewInt(1)
	d := new(big.Int).Lsh(one, 2000)
	f := new(big.Rat).SetFrac(new(big.Int).Sub(d, one), d)
	th, err := lc.CertifiedNatThresholdWithMode(2, 3, f, lc.ConsensusModeCPraos)
	fmt.Println(err, th.Cmp(new(big.Int).Lsh(one, 256)), th.BitLen())
	// B: y = 27/2^210 * (1+2^-571), sigma 2/3
	B := uint(571)
	num := new(big.Int).Mul(big.NewInt(27), new(big.Int).Add(new(big.Int).Lsh(one, B), one))
	den := new(big.Int).Lsh(one, 210+B)
	y := new(big.Rat).SetFrac(num, den)
	f2 := new(big.Rat).Sub(big.NewRat(1, 1), y)
	th2, err := lc.CertifiedNatThresholdWithMode(2, 3, f2, lc.ConsensusModeCPraos)
	W := new(big.Int).Lsh(big.NewInt(9), 116)
	want := new(big.Int).Sub(new(big.Int).Lsh(one, 256), W)
	want.Sub(want, one)
	fmt.Println(err, new(big.Int).Sub(th2, want))
}
