package consensus

import (
	"bytes"
	"fmt"
	"math"
	"math/big"
	"os"
	"strconv"
	"testing"

	lc "github.com/blinklabs-io/gouroboros/consensus"
	"github.com/blinklabs-io/gouroboros/ledger/common"
	"github.com/blinklabs-io/gouroboros/vrf"
	"golang.org/x/crypto/blake2b"
	"pgregory.net/rapid"

	"verif/harness/internal/evi"
)

// ---------------------------------------------------------------------------
// case description

type thCase struct {
	Pool, Total uint64
	F           *big.Rat
	StakeClass  string
	FClass      string

	// constructed family: 1-f0 = Root^M, sigma = N/M (pool = N*g, total = M*g),
	// so (1-f0)^sigma = Root^N exactly; then 1-f = (1-f0)*(1 + Pert*2^-PertBits).
	Constructed bool
	Root        *big.Rat
	N, M        uint64
	Pert        int
	PertBits    uint
}

func (c *thCase) json() map[string]any {
	m := map[string]any{
		"pool": fmt.Sprint(c.Pool), "total": fmt.Sprint(c.Total),
		"f_num_hex": c.F.Num().Text(16), "f_den_hex": c.F.Denom().Text(16),
		"stake_class": c.StakeClass, "f_class": c.FClass,
	}
	if c.Constructed {
		m["constructed"] = fmt.Sprintf("1-f = (%s)^%d * (1 %+d*2^-%d), sigma = %d/%d", ratStr(c.Root), c.M, c.Pert, c.PertBits, c.N, c.M)
	}
	return m
}

func (c *thCase) sample() map[string]any {
	m := map[string]any{
		"pool": fmt.Sprint(c.Pool), "total": fmt.Sprint(c.Total), "f": ratStr(c.F),
		"stake_class": c.StakeClass, "f_class": c.FClass,
	}
	if c.Constructed {
		m["constructed"] = fmt.Sprintf("1-f = (%s)^%d * (1 %+d*2^-%d), sigma = %d/%d", ratStr(c.Root), c.M, c.Pert, c.PertBits, c.N, c.M)
	}
	return m
}

// costTier: 0 = a library call costs ~1 ms; 1 = one precision escalation
// (~20-50 ms); 2 = several escalations (0.1-2 s per call).
func (c *thCase) costTier() int {
	switch {
	case !c.Constructed || c.Pert == 0 || c.PertBits < 575:
		return 0
	case c.PertBits < 1152:
		return 1
	}
	return 2
}

// ---------------------------------------------------------------------------
// generators (all by construction)

func genU64(rt *rapid.T, label string) uint64 {
	bits := rapid.IntRange(1, 64).Draw(rt, label+"_bits")
	v := rapid.Uint64().Draw(rt, label)
	if bits < 64 {
		v &= (uint64(1) << bits) - 1
		v |= uint64(1) << (bits - 1)
	} else {
		v |= 1 << 63
	}
	return v
}

func genStake(rt *rapid.T) (pool, total uint64, class string) {
	switch rapid.IntRange(0, 9).Draw(rt, "stakeClass") {
	case 0:
		pool = uint64(rapid.IntRange(1, 16).Draw(rt, "tinyPool"))
		total = genU64(rt, "total")
		if total < pool {
			total = pool
		}
		return pool, total, "tiny_pool"
	case 1:
		total = genU64(rt, "total")
		return total, total, "equal"
	case 2:
		total = genU64(rt, "total")
		if total == math.MaxUint64 {
			total--
		}
		extra := genU64(rt, "extra")
		pool = total + extra
		if pool < total { // wrapped
			pool = math.MaxUint64
		}
		return pool, total, "pool_gt_total"
	case 3:
		total = genU64(rt, "total")
		if total < 2 {
			total = 2
		}
		d := uint64(rapid.IntRange(1, 8).Draw(rt, "short"))
		if d >= total {
			d = total - 1
		}
		return total - d, total, "near_total"
	case 4:
		pool = genU64(rt, "pool")
		total = genU64(rt, "total")
		if pool > total {
			return pool, total, "pool_gt_total"
		}
		return pool, total, "random"
	case 5:
		total = uint64(rapid.IntRange(1, 12).Draw(rt, "smallTotal"))
		pool = uint64(rapid.IntRange(1, int(total)).Draw(rt, "smallPool"))
		return pool, total, "small_fraction"
	case 6:
		// mainnet-like: total ~ 2.2e16 lovelace, pool 1e9..7e13
		total = 20_000_000_000_000_000 + rapid.Uint64Range(0, 5_000_000_000_000_000).Draw(rt, "totalReal")
		pool = rapid.Uint64Range(1_000_000_000, 70_000_000_000_000).Draw(rt, "poolReal")
		return pool, total, "realistic"
	case 7:
		m := uint64(rapid.IntRange(2, 64).Draw(rt, "m"))
		n := uint64(rapid.IntRange(1, int(m)).Draw(rt, "n"))
		g := rapid.Uint64Range(1, math.MaxUint64/m).Draw(rt, "g")
		return n * g, m * g, "scaled_fraction"
	case 8:
		pool = genU64(rt, "pool")
		return pool, math.MaxUint64, "max_total"
	default:
		total = genU64(rt, "total")
		pool = rapid.Uint64Range(1, total).Draw(rt, "pool")
		return pool, total, "uniform_below_total"
	}
}

// genBig returns an integer with exactly `bits` bits.
func genBig(rt *rapid.T, bits int, label string) *big.Int {
	nb := (bits + 7) / 8
	b := rapid.SliceOfN(rapid.Byte(), nb, nb).Draw(rt, label)
	x := new(big.Int).SetBytes(b)
	x.And(x, new(big.Int).Sub(pow2(uint(bits)), bigOne))
	x.SetBit(x, bits-1, 1)
	return x
}

func ratOne() *big.Rat { return big.NewRat(1, 1) }

func genF(rt *rapid.T, maxBits int) (*big.Rat, string) {
	switch rapid.IntRange(0, 8).Draw(rt, "fClass") {
	case 0:
		b := int64(rapid.IntRange(2, 100).Draw(rt, "fden"))
		a := int64(rapid.IntRange(1, int(b-1)).Draw(rt, "fnum"))
		return big.NewRat(a, b), "small_rational"
	case 1:
		typical := []*big.Rat{big.NewRat(1, 20), big.NewRat(1, 10), big.NewRat(1, 2), big.NewRat(9, 10),
			big.NewRat(99, 100), big.NewRat(3, 4), big.NewRat(1, 5), big.NewRat(1, 1000)}
		return new(big.Rat).Set(typical[rapid.IntRange(0, len(typical)-1).Draw(rt, "typical")]), "typical"
	case 2:
		bits := rapid.IntRange(100, maxBits).Draw(rt, "fbits")
		den := genBig(rt, bits, "fden")
		num := genBig(rt, rapid.IntRange(1, bits).Draw(rt, "fnumbits"), "fnum")
		num.Mod(num, den)
		if num.Sign() == 0 {
			num.SetInt64(1)
		}
		return new(big.Rat).SetFrac(num, den), "huge_num_den"
	case 3:
		// f = 1 - c/d with d huge: (1-f) tiny
		bits := rapid.IntRange(65, maxBits).Draw(rt, "dbits")
		var den *big.Int
		if rapid.Bool().Draw(rt, "pow2den") {
			den = pow2(uint(bits))
		} else {
			den = genBig(rt, bits, "d")
		}
		c := genBig(rt, rapid.IntRange(1, 40).Draw(rt, "cbits"), "c")
		y := new(big.Rat).SetFrac(c, den)
		return new(big.Rat).Sub(ratOne(), y), "near_one"
	case 4:
		bits := rapid.IntRange(65, maxBits).Draw(rt, "dbits")
		var den *big.Int
		if rapid.Bool().Draw(rt, "pow2den") {
			den = pow2(uint(bits))
		} else {
			den = genBig(rt, bits, "d")
		}
		c := genBig(rt, rapid.IntRange(1, 40).Draw(rt, "cbits"), "c")
		return new(big.Rat).SetFrac(c, den), "near_zero"
	case 5:
		if rapid.Bool().Draw(rt, "fIsOne") {
			return big.NewRat(1, 1), "one"
		}
		return new(big.Rat), "zero"
	case 6:
		// moderate value with a huge denominator: a small rational plus a tiny offset
		b := int64(rapid.IntRange(2, 50).Draw(rt, "fden"))
		a := int64(rapid.IntRange(1, int(b-1)).Draw(rt, "fnum"))
		f := big.NewRat(a, b)
		off := new(big.Rat).SetFrac(bigOne, pow2(uint(rapid.IntRange(70, maxBits).Draw(rt, "offbits"))))
		if rapid.Bool().Draw(rt, "offneg") {
			f.Sub(f, off)
		} else {
			f.Add(f, off)
		}
		return f, "small_plus_tiny_offset"
	case 7:
		// 1-f a power of two or a small odd over a power of two
		j := uint(rapid.IntRange(1, maxBits).Draw(rt, "j"))
		a := genBig(rt, rapid.IntRange(1, min(int(j), 64)).Draw(rt, "abits"), "a")
		if a.Cmp(pow2(j)) >= 0 {
			a = big.NewInt(1)
		}
		y := new(big.Rat).SetFrac(a, pow2(j))
		return new(big.Rat).Sub(ratOne(), y), "dyadic_complement"
	default:
		bits := rapid.IntRange(2, 64).Draw(rt, "fbits")
		den := genBig(rt, bits, "fden")
		num := genBig(rt, rapid.IntRange(1, bits).Draw(rt, "fnumbits"), "fnum")
		num.Mod(num, den)
		if num.Sign() == 0 {
			num.SetInt64(1)
		}
		return new(big.Rat).SetFrac(num, den), "word_sized"
	}
}

// pertLevels: perturbation exponents B grouped by the precision level the
// library needs to separate the result from the neighbouring integer
// (its accuracy targets are 576, 1152, 2304, 4608, 9216, 18432 bits; beyond
// that it must return an error).
var pertLevels = []struct {
	name   string
	lo, hi int
}{
	{"B<576", 20, 570}, {"B<1152", 580, 1150}, {"B<2304", 1160, 2300}, {"B<4608", 2310, 4600},
	{"B<9216", 4610, 9200}, {"B<18432", 9210, 18400}, {"B>18432", 18500, 20000},
}

// libCostWords estimates the number of machine words one library call has to
// clear for 1-f = y when the result is within ~2^-B of an integer (see the cost
// guard in genConstructed).
func libCostWords(y *big.Rat, B uint) float64 {
	num, den := y.Num(), y.Denom()
	sh := den.BitLen() - num.BitLen()
	n2 := new(big.Int).Lsh(num, uint(sh))
	if n2.Cmp(den) >= 0 {
		n2.Rsh(n2, 1)
	}
	zn := new(big.Int).Sub(den, n2)
	zd := new(big.Int).Add(den, n2)
	q := float64(zd.BitLen() - zn.BitLen())
	tb := 576.0
	for tb < float64(B)+64 && tb < 18432 {
		tb *= 2
	}
	terms := tb/3.17 + 16
	return terms * terms * q / 64
}

// mantissaQ returns q such that the mantissa m in [1/2,1) of 1-f = m*2^-sh satisfies 1-m ~ 2^-q.
func mantissaQ(f *big.Rat) int {
	y := new(big.Rat).Sub(ratOne(), f)
	num, den := y.Num(), y.Denom()
	sh := den.BitLen() - num.BitLen()
	n2 := new(big.Int).Lsh(num, uint(sh))
	if n2.Cmp(den) >= 0 {
		n2.Rsh(n2, 1)
	}
	return new(big.Int).Add(den, n2).BitLen() - new(big.Int).Sub(den, n2).BitLen()
}

// libCallTooCostly is the general form of the cost guard (see genConstructed and
// findings/C37.md): it predicts the precision level the library will escalate to
// from the distance of the result to the nearest integer (harness reference at
// 2048 bits) and the words big.Float.Add will clear. Exact-rational inputs never
// reach the series. Not a correctness decision: a skipped call is only counted.
func libCallTooCostly(pool, total uint64, f *big.Rat, k uint) bool {
	pool = min(pool, total)
	if total == 0 || pool == 0 || f.Sign() <= 0 || f.Cmp(ratOne()) >= 0 {
		return false
	}
	q := mantissaQ(f)
	if q <= 280 { // even the deepest level stays below the budget
		return false
	}
	if _, ok := exactPower(pool, total, f); ok {
		return false
	}
	sep := sepBits(refPower(pool, total, f, 2048), k, 2048)
	tb := 576.0
	for tb < sep+8 && tb < 18432 {
		tb *= 2
	}
	terms := tb/3.17 + 16
	return terms*terms*float64(q)/64 > 1.5e8
}

func genConstructed(rt *rapid.T) *thCase {
	ms := []uint64{1, 2, 2, 2, 3, 3, 4, 5, 6, 7, 8, 12, 16, 24, 31, 40, 64}
	m := ms[rapid.IntRange(0, len(ms)-1).Draw(rt, "m")]
	n := uint64(rapid.IntRange(1, int(m)).Draw(rt, "n"))
	var a, b *big.Int
	rootKind := rapid.IntRange(0, 3).Draw(rt, "rootKind")
	cls := ""
	switch rootKind {
	case 0, 1:
		// denominator 2^j; n*j relative to k decides whether 2^k*Root^n is an integer
		var j int
		switch rapid.IntRange(0, 3).Draw(rt, "jKind") {
		case 0: // integer for both modes
			j = rapid.IntRange(1, max(1, 256/int(n))).Draw(rt, "j")
			cls = "dyadic_root_int256"
		case 1: // integer for TPraos only (or both when n*j <= 256)
			j = rapid.IntRange(1, max(1, 512/int(n))).Draw(rt, "j")
			cls = "dyadic_root_int512"
		case 2: // just past k: 2^k*Root^n = odd / 2^s with small s
			k := []int{256, 512}[rapid.IntRange(0, 1).Draw(rt, "whichK")]
			j = (k+rapid.IntRange(1, 40).Draw(rt, "s"))/int(n) + 1
			cls = "dyadic_root_just_past_k"
		default:
			j = rapid.IntRange(1, 1200/int(m)+1).Draw(rt, "j")
			cls = "dyadic_root_any"
		}
		b = pow2(uint(j))
		abits := rapid.IntRange(1, j).Draw(rt, "abits")
		if abits > 80 {
			abits = rapid.IntRange(1, 80).Draw(rt, "abits2")
		}
		a = genBig(rt, abits, "a")
		a.SetBit(a, 0, 1) // odd, so the fraction is reduced
		if a.Cmp(b) >= 0 {
			a = big.NewInt(1)
		}
	case 2:
		bb := int64(rapid.IntRange(2, 30).Draw(rt, "b"))
		aa := int64(rapid.IntRange(1, int(bb-1)).Draw(rt, "a"))
		a, b = big.NewInt(aa), big.NewInt(bb)
		cls = "small_root"
	default:
		bits := rapid.IntRange(8, 2400/int(m)+8).Draw(rt, "bbits")
		b = genBig(rt, bits, "b")
		a = genBig(rt, rapid.IntRange(1, bits).Draw(rt, "abits"), "a")
		a.Mod(a, b)
		if a.Sign() == 0 {
			a.SetInt64(1)
		}
		cls = "big_root"
	}
	root := new(big.Rat).SetFrac(a, b)
	mb := new(big.Int).SetUint64(m)
	y0 := new(big.Rat).SetFrac(new(big.Int).Exp(root.Num(), mb, nil), new(big.Int).Exp(root.Denom(), mb, nil))

	g := uint64(1)
	if rapid.Bool().Draw(rt, "scale") {
		g = rapid.Uint64Range(1, math.MaxUint64/m).Draw(rt, "g")
	}
	c := &thCase{Pool: n * g, Total: m * g, StakeClass: "constructed", Constructed: true, Root: root, N: n, M: m}
	if n == m && rapid.IntRange(0, 3).Draw(rt, "overshoot") == 0 && c.Total < math.MaxUint64 {
		c.Pool = c.Total + rapid.Uint64Range(1, math.MaxUint64-c.Total).Draw(rt, "over")
		c.StakeClass = "constructed_pool_gt_total"
	}

	y := y0
	if rapid.Bool().Draw(rt, "perturb") {
		// level weights: the deep levels cost 0.1-1 s per library call
		// level weights: a library call costs ~1 ms at level 0 but 0.05-2 s at the deep levels
		w := []int{0, 0, 0, 0, 0, 0, 0, 0, 0, 0, 0, 0, 0, 0, 0, 0, 0, 0, 0, 0, 0, 0, 0, 0, 1, 1, 1, 1, 1, 1, 2, 2, 2, 3, 7}
		li := w[rapid.IntRange(0, len(w)-1).Draw(rt, "level")]
		if li == 7 {
			li = rapid.IntRange(4, 6).Draw(rt, "deepLevel")
		}
		lv := pertLevels[li]
		B := uint(rapid.IntRange(lv.lo, lv.hi).Draw(rt, "B"))
		sign := 1
		if rapid.Bool().Draw(rt, "pertDown") {
			sign = -1
		}
		mk := func(s int) *big.Rat {
			fac := new(big.Int).Add(pow2(B), big.NewInt(int64(s)))
			return new(big.Rat).SetFrac(new(big.Int).Mul(y0.Num(), fac), new(big.Int).Mul(y0.Denom(), pow2(B)))
		}
		y = mk(sign)
		if y.Cmp(ratOne()) >= 0 {
			sign = -1
			y = mk(sign)
		}
		// Cost guard (not a correctness matter): the library sums a fixed number of
		// atanh terms T ~ targetBits/3.17 with big.Float.Add, whose cost grows with the
		// exponent gap 2n*log2(1/z); for a mantissa of 1-f within 2^-q of 1 one call
		// clears ~T^2*q/64 words (85 s measured for 1-f = 2^-120*(1-2^-4700), sigma=2/3).
		// Such inputs are kept out of the generated domain; see findings/C37.md.
		if libCostWords(y, B) > 1.5e8 && sign < 0 {
			if y2 := mk(+1); y2.Cmp(ratOne()) < 0 && libCostWords(y2, B) <= 1.5e8 {
				sign, y = +1, y2
			}
		}
		if libCostWords(y, B) > 1.5e8 {
			B = uint(rapid.IntRange(20, 570).Draw(rt, "Bcheap"))
			lv = pertLevels[0]
			y = mk(sign)
		}
		c.Pert, c.PertBits = sign, B
		cls += ":perturbed:" + lv.name
	} else {
		cls += ":exact"
	}
	c.F = new(big.Rat).Sub(ratOne(), y)
	c.FClass = cls
	return c
}

func genCase(rt *rapid.T, maxBits int) *thCase {
	if rapid.IntRange(0, 9).Draw(rt, "family") < 4 {
		return genConstructed(rt)
	}
	c := &thCase{}
	c.Pool, c.Total, c.StakeClass = genStake(rt)
	c.F, c.FClass = genF(rt, maxBits)
	return c
}

// ---------------------------------------------------------------------------
// oracle

var thModes = [2]lc.ConsensusMode{lc.ConsensusModeCPraos, lc.ConsensusModeTPraos}
var thK = [2]uint{256, 512}
var thModeName = [2]string{"praos", "tpraos"}

type thOracle struct {
	want   [2]*big.Int // nil = not decided by any oracle
	src    [2]string
	refAt  [2]uint // precision at which the interval reference resolved (0 = not, 1 = trivial)
	refMax uint    // highest precision tried
	lp     float64 // ~log2((1-f)^sigma), -inf for f=1
}

type harnessFault string

// analyticPerturbed decides the perturbed constructed case without numerics.
// E0 = Root^N, W0 = 2^k*E0 (exact rational), delta = 2^-B, sigma in (0,1]:
//
//	+delta: W0 < W' = W0*(1+delta)^sigma <= W0*(1+delta); if that is <= floor(W0)+1 then ceil(W') = floor(W0)+1
//	-delta: W0 > W' >= W0*(1-delta);                     if that is >  ceil(W0)-1  then ceil(W') = ceil(W0)
func analyticPerturbed(c *thCase, k uint) (*big.Int, bool) {
	if !c.Constructed || c.Pert == 0 {
		return nil, false
	}
	nb := new(big.Int).SetUint64(c.N)
	e0 := new(big.Rat).SetFrac(new(big.Int).Exp(c.Root.Num(), nb, nil), new(big.Int).Exp(c.Root.Denom(), nb, nil))
	w0 := new(big.Rat).Mul(e0, new(big.Rat).SetInt(pow2(k)))
	fl := new(big.Int).Div(w0.Num(), w0.Denom()) // floor, w0 > 0
	ce := new(big.Int).Set(fl)
	if !w0.IsInt() {
		ce.Add(ce, bigOne)
	}
	delta := new(big.Rat).SetFrac(bigOne, pow2(c.PertBits))
	var ceilW *big.Int
	if c.Pert > 0 {
		ub := new(big.Rat).Mul(w0, new(big.Rat).Add(ratOne(), delta))
		lim := new(big.Rat).SetInt(new(big.Int).Add(fl, bigOne))
		if ub.Cmp(lim) > 0 {
			return nil, false
		}
		ceilW = new(big.Int).Add(fl, bigOne)
	} else {
		lb := new(big.Rat).Mul(w0, new(big.Rat).Sub(ratOne(), delta))
		lim := new(big.Rat).SetInt(new(big.Int).Sub(ce, bigOne))
		if lb.Cmp(lim) <= 0 {
			return nil, false
		}
		ceilW = ce
	}
	return new(big.Int).Sub(pow2(k), ceilW), true
}

// decide computes every available oracle for the case, cross-checks them and
// returns the expected values. maxPrec bounds the interval reference.
func decide(c *thCase, maxPrec uint) (o thOracle, fault harnessFault) {
	pool := c.Pool
	if pool > c.Total {
		pool = c.Total
	}
	o.refMax = maxPrec
	for i, k := range thK {
		if v, ok := trivialThreshold(pool, c.Total, c.F, k); ok {
			o.want[i], o.src[i], o.refAt[i] = v, "trivial", 1
		}
	}
	if o.want[0] != nil {
		if c.F.Cmp(ratOne()) == 0 && pool > 0 {
			o.lp = math.Inf(-1)
		}
		return
	}
	o.lp = log2Power(pool, c.Total, c.F)

	var exact, analytic [2]*big.Int
	if e, ok := exactPower(pool, c.Total, c.F); ok {
		for i, k := range thK {
			exact[i] = exactThresholdFromPower(e, k)
		}
		if c.Constructed && c.Pert == 0 {
			// generator knowledge: must equal Root^N
			nb := new(big.Int).SetUint64(c.N)
			e2 := new(big.Rat).SetFrac(new(big.Int).Exp(c.Root.Num(), nb, nil), new(big.Int).Exp(c.Root.Denom(), nb, nil))
			if e2.Cmp(e) != 0 {
				return o, harnessFault("exact root detection disagrees with the generator's construction")
			}
		}
	} else if c.Constructed && c.Pert == 0 {
		return o, harnessFault("exact root detection missed a constructed perfect power")
	}
	for i, k := range thK {
		if v, ok := analyticPerturbed(c, k); ok {
			analytic[i] = v
		}
	}
	// interval reference: always at 2048; further while some k is not resolved and has no exact oracle
	ref, at := [2]*big.Int{}, [2]uint{}
	for prec := uint(2048); prec <= maxPrec; prec *= 2 {
		a := refPower(pool, c.Total, c.F, prec)
		need := false
		for i, k := range thK {
			if ref[i] != nil {
				continue
			}
			if v, ok := refFromPower(a, k, prec); ok {
				ref[i], at[i] = v, prec
			} else if exact[i] == nil && (analytic[i] == nil || c.PertBits < 8100) {
				// no exact oracle: escalate (also when the analytic bound already decides the
				// case, to cross-check the high-precision reference against it - unless the
				// perturbation is beyond what maxPrec could separate anyway)
				need = true
			}
		}
		o.refMax = prec
		if !need {
			break
		}
	}
	o.refAt = at
	for i := range thK {
		vals := []*big.Int{exact[i], analytic[i], ref[i]}
		names := []string{"exact", "analytic", fmt.Sprintf("interval@%d", at[i])}
		for j, v := range vals {
			if v == nil {
				continue
			}
			if o.want[i] == nil {
				o.want[i], o.src[i] = v, names[j]
			} else if o.want[i].Cmp(v) != 0 {
				return o, harnessFault(fmt.Sprintf("oracles disagree for k=%d: %s=%s vs %s=%s", thK[i], o.src[i], o.want[i].Text(16), names[j], v.Text(16)))
			} else {
				o.src[i] += "+" + names[j]
			}
		}
	}
	return
}

// refResolvesAtMax escalates the interval reference to maxPrec for mode i
// (used only when the library returned an error).
func refResolvesAtMax(c *thCase, i int, o *thOracle, maxPrec uint) (uint, *big.Int) {
	if o.refAt[i] != 0 {
		return o.refAt[i], o.want[i]
	}
	pool := min(c.Pool, c.Total)
	for prec := max(o.refMax*2, 2048); prec <= maxPrec; prec *= 2 {
		a := refPower(pool, c.Total, c.F, prec)
		if v, ok := refFromPower(a, thK[i], prec); ok {
			return prec, v
		}
	}
	return 0, nil
}

func powerClass(lp float64) string {
	if lp < -128 {
		return "power<2^-128"
	}
	return "power>=2^-128"
}

func diffClass(got, want *big.Int) string {
	d := new(big.Int).Sub(got, want)
	switch {
	case d.Cmp(bigOne) == 0:
		return "+1"
	case d.Cmp(big.NewInt(-1)) == 0:
		return "-1"
	case d.Sign() > 0:
		return fmt.Sprintf("+2^%d", d.BitLen()-1)
	default:
		return fmt.Sprintf("-2^%d", d.BitLen()-1)
	}
}

// leaderValue is the statement's "VRF leader value": Praos hashes the 64-byte
// VRF output with the "L" domain separator (blake2b-256), TPraos uses the raw
// output; both as unsigned big-endian integers.
func leaderValue(out []byte, i int) *big.Int {
	if i == 0 {
		h := blake2b.Sum256(append([]byte{'L'}, out...))
		return new(big.Int).SetBytes(h[:])
	}
	return new(big.Int).SetBytes(out)
}

type stubSigner struct{ out []byte }

func (s stubSigner) Prove([]byte) ([]byte, []byte, error) { return make([]byte, 80), s.out, nil }
func (s stubSigner) PublicKey() []byte                    { return make([]byte, 32) }

// reporter abstracts rec.Fail (inside rapid) and rec.Violation (sweeps).
type reporter func(key, what string, cs any) bool

type c37 struct {
	rec     *evi.Recorder
	maxPrec uint
	long    []*longLived
	// failed is set when a deterministic section has reported an unlisted violation: the
	// verdict is then decided, and the remaining sections are skipped (a library that is
	// wrong on the small sweep can also be arbitrarily slow on the extreme inputs that follow)
	failed bool
}

// violation reports through rec.Violation and remembers an unlisted one.
func (h *c37) violation(prefix string) reporter {
	return func(key, what string, cs any) bool {
		known := h.rec.Violation(prefix+key, what, cs)
		if !known {
			h.failed = true
		}
		return known
	}
}

// longLived holds the objects of the consensus package that outlive a single
// eligibility decision: a HeaderValidator and a BlockBuilder per mode for one
// active-slot coefficient. They are created once per test run and fed with the
// stakes of many different cases, so any state they keep between decisions is
// exposed.
type longLived struct {
	f          *big.Rat
	validators [2]*lc.HeaderValidator
	builders   [2]*lc.BlockBuilder
	signers    [2]*mutSigner
	proofs     [2][]vrfTuple // real VRF certificates per mode (the validator verifies them)
}

type mutSigner struct{ out []byte }

func (s *mutSigner) Prove([]byte) ([]byte, []byte, error) { return make([]byte, 80), s.out, nil }
func (s *mutSigner) PublicKey() []byte                    { return make([]byte, 32) }

type vrfTuple struct {
	slot               uint64
	nonce              []byte
	key, proof, output []byte
}

func newLongLived(f *big.Rat, nTuples int) (*longLived, error) {
	l := &longLived{f: f}
	for i, mode := range thModes {
		cfg := lc.NetworkConfig{ActiveSlotCoeff: common.GenesisRat{Rat: new(big.Rat).Set(f)}, SlotsPerKESPeriod: 129600, MaxKESEvolutions: 62}
		l.validators[i] = lc.NewHeaderValidatorWithMode(cfg, mode)
		l.signers[i] = &mutSigner{}
		l.builders[i] = lc.NewBlockBuilderWithMode(l.signers[i], nil, nil, nil, nil, new(big.Rat).Set(f), mode)
		for t := 0; t < nTuples; t++ {
			seed := bytes.Repeat([]byte{byte(17*t + 3*i + 1)}, 32)
			pk, sk, err := vrf.KeyGen(seed)
			if err != nil {
				return nil, err
			}
			tu := vrfTuple{slot: uint64(1000 + 37*t), nonce: bytes.Repeat([]byte{byte(t + 1)}, 32), key: pk}
			var input []byte
			if i == 0 {
				input, err = vrf.MkInputVrf(int64(tu.slot), tu.nonce)
			} else {
				input, err = vrf.MkSeedTPraos(int64(tu.slot), tu.nonce, vrf.SeedL())
			}
			if err != nil {
				return nil, err
			}
			if tu.proof, tu.output, err = vrf.Prove(sk, input); err != nil {
				return nil, err
			}
			l.proofs[i] = append(l.proofs[i], tu)
		}
	}
	return l, nil
}

// leadershipRejected reports whether the validator's result carries the
// leadership error; vrfOK is false when the VRF certificate itself was not
// accepted (then the leadership check did not run).
func leadershipRejected(res *lc.ValidateResult) (rejected, vrfOK bool) {
	if res == nil {
		return false, false
	}
	for _, e := range res.Errors {
		if e != nil && bytes.Contains([]byte(e.Error()), []byte("leadership threshold")) {
			rejected = true
		}
	}
	return rejected, res.VrfOutput != nil
}

// checkLongLived asks the long-lived validator and block builder about the
// stakes A = (pool,total), B = a neighbour sharing the pool or the total stake,
// a failing input (total stake 0), and A again. Every decision must equal
// "leader value < threshold" with the threshold decided by the oracle for
// exactly these arguments.
func (h *c37) checkLongLived(rt *rapid.T, c *thCase, rep reporter, fatal func(string)) {
	rec := h.rec
	l := h.long[rapid.IntRange(0, len(h.long)-1).Draw(rt, "longLived")]
	type st struct{ pool, total uint64 }
	a := st{c.Pool, c.Total}
	var b st
	switch rapid.IntRange(0, 3).Draw(rt, "longNeighbour") {
	case 0: // same pool stake, full sigma
		b = st{a.pool, max(a.pool, 1)}
	case 1: // same pool stake, much larger total
		b = st{a.pool, math.MaxUint64}
	case 2: // same total, other pool
		b = st{a.total/2 + 1, a.total}
	default:
		p, t, _ := genStake(rt)
		b = st{p, t}
	}
	var T [2][2]*big.Int
	for si, s := range []st{a, b} {
		vc := &thCase{Pool: s.pool, Total: s.total, F: new(big.Rat).Set(l.f), StakeClass: "long_lived", FClass: "long_lived"}
		got, confirmed, _, _ := h.checkThreshold(vc, [2]bool{true, true}, rep, fatal)
		for i := range thModes {
			if confirmed[i] {
				T[si][i] = got[i]
			}
		}
	}
	seq := []int{0, 1, -1, 0}
	for step, si := range seq {
		for i := range thModes {
			if si < 0 {
				// failing input between the real ones
				_, _ = l.builders[i].CheckSlotLeadership(1, make([]byte, 31), a.pool, a.total) // bad nonce: error
				tu := l.proofs[i][0]
				_ = l.validators[i].ValidateHeader(&lc.ValidateHeaderInput{Slot: tu.slot, EpochNonce: tu.nonce, VrfKey: tu.key, VrfProof: tu.proof, VrfOutput: tu.output, PoolStake: a.pool, TotalStake: 0})
				continue
			}
			s := []st{a, b}[si]
			thr := T[si][i]
			if thr == nil || s.pool == 0 {
				continue
			}
			cs := map[string]any{"f": l.f.RatString(), "mode": thModeName[i], "pool": fmt.Sprint(s.pool), "total": fmt.Sprint(s.total),
				"previous_pool": fmt.Sprint(a.pool), "previous_total": fmt.Sprint(a.total), "other_pool": fmt.Sprint(b.pool), "other_total": fmt.Sprint(b.total),
				"step": step, "threshold_hex": thr.Text(16)}
			// block builder with a steered output: TPraos exactly at the threshold, Praos pseudo-random
			var out []byte
			if i == 1 && thr.Cmp(pow2(512)) < 0 && step%2 == 0 {
				out = bytes64(thr)
			} else if i == 1 && thr.Sign() > 0 {
				out = bytes64(new(big.Int).Sub(thr, bigOne))
			} else {
				out = rapid.SliceOfN(rapid.Byte(), 64, 64).Draw(rt, "longOut")
			}
			l.signers[i].out = out
			want := leaderValue(out, i).Cmp(thr) < 0
			res, err := l.builders[i].CheckSlotLeadership(uint64(100+step), make([]byte, 32), s.pool, s.total)
			rec.Eval()
			if err != nil || res == nil || res.Eligible != want || res.Threshold == nil || res.Threshold.Cmp(thr) != 0 {
				cs["vrf_output"] = evi.Hex(out)
				rep("history:BlockBuilder.CheckSlotLeadership:"+thModeName[i], fmt.Sprintf("long-lived block builder, step %d (pool=%d total=%d): result %+v err=%v, expected eligible=%v threshold=%s", step, s.pool, s.total, res, err, want, thr.Text(16)), cs)
			}
			// header validator with real VRF certificates
			for ti := 0; ti < 2; ti++ {
				tu := l.proofs[i][(step+ti+int(s.pool%7))%len(l.proofs[i])]
				in := &lc.ValidateHeaderInput{Slot: tu.slot, EpochNonce: tu.nonce, VrfKey: tu.key, VrfProof: tu.proof, VrfOutput: tu.output, PoolStake: s.pool, TotalStake: s.total}
				vres := l.validators[i].ValidateHeader(in)
				rec.Eval()
				rejected, vrfOK := leadershipRejected(vres)
				if !vrfOK {
					fatal("the harness-made VRF certificate was not accepted by the validator")
					return
				}
				wantOK := leaderValue(tu.output, i).Cmp(thr) < 0
				if rejected == wantOK {
					cs["vrf_output"] = evi.Hex(tu.output)
					rep("history:HeaderValidator.leadership:"+thModeName[i], fmt.Sprintf("long-lived header validator, step %d (pool=%d total=%d): leadership rejected=%v, but leader value < threshold is %v", step, s.pool, s.total, rejected, wantOK), cs)
				}
				if wantOK {
					rec.Class("validator_leadership_accepted")
				} else {
					rec.Class("validator_leadership_rejected")
				}
			}
		}
	}
	rec.Class("long_lived_sequences")
}

// checkThreshold runs the threshold oracle for one case (both modes). It
// returns the library's values (nil where it returned an error) and whether
// each is confirmed by an oracle.
func (h *c37) checkThreshold(c *thCase, run [2]bool, rep reporter, fatal func(string)) (got [2]*big.Int, confirmed [2]bool, o thOracle, ran [2]bool) {
	rec := h.rec
	o, fault := decide(c, h.maxPrec)
	if fault != "" {
		fatal(string(fault))
		return
	}
	fCopy := new(big.Rat).Set(c.F)
	for i, mode := range thModes {
		if !run[i] {
			continue
		}
		if libCallTooCostly(c.Pool, c.Total, c.F, thK[i]) {
			rec.Class("library_call_skipped_by_cost_guard")
			continue
		}
		ran[i] = true
		g, err := lc.CertifiedNatThresholdWithMode(c.Pool, c.Total, c.F, mode)
		rec.Eval()
		if c.F.Cmp(fCopy) != 0 {
			bad := ratStr(c.F)
			c.F.Set(fCopy)
			rep("argument-mutated:activeSlotCoeff", fmt.Sprintf("CertifiedNatThresholdWithMode changed the caller's activeSlotCoeff from %s to %s", ratStr(fCopy), bad), c.json())
		}
		cs := c.json()
		cs["mode"] = thModeName[i]
		if err != nil {
			at, v := refResolvesAtMax(c, i, &o, h.maxPrec)
			switch {
			case o.want[i] != nil && (o.src[i] == "trivial" || bytes.Contains([]byte(o.src[i]), []byte("exact"))):
				cs["want_hex"] = o.want[i].Text(16)
				rep(fmt.Sprintf("error:%s:decided-by-%s", thModeName[i], o.src[i]),
					fmt.Sprintf("library returned an error (%.200s) although (1-f)^sigma is rational/trivial and the threshold is %s exactly", err.Error(), o.want[i].Text(16)), cs)
			case at != 0:
				cs["want_hex"] = v.Text(16)
				rep(fmt.Sprintf("error:%s:reference-resolves@%d", thModeName[i], at),
					fmt.Sprintf("library returned an error (%.200s) although interval arithmetic at %d bits proves the threshold is %s", err.Error(), at, v.Text(16)), cs)
			default:
				rec.Class("lib_error_tolerated_reference_unresolved@" + fmt.Sprint(h.maxPrec))
			}
			continue
		}
		if g == nil {
			rep("nil-result:"+thModeName[i], "nil threshold with nil error", cs)
			continue
		}
		if c.costTier() == 0 {
			// the result must be the caller's to keep: overwrite the returned value, ask again,
			// and require the same answer (a result aliasing library state, or any dependence
			// on the previous call, shows up here)
			keep := new(big.Int).Set(g)
			g.Add(g, big.NewInt(0x5eed)).Neg(g)
			g2, err2 := lc.CertifiedNatThresholdWithMode(c.Pool, c.Total, c.F, mode)
			rec.Eval()
			if err2 != nil || g2 == nil || g2.Cmp(keep) != 0 {
				cs["first_hex"], cs["second"] = keep.Text(16), fmt.Sprint(g2, err2)
				rep("history:second-call-differs:"+thModeName[i], fmt.Sprintf("the same call returned %s, then (after the caller overwrote the returned big.Int) %v err=%v", keep.Text(16), g2, err2), cs)
			}
			g = keep
		}
		got[i] = g
		if o.want[i] == nil {
			rec.Class("unresolved_by_reference")
			continue
		}
		if g.Cmp(o.want[i]) != 0 {
			cs["got_hex"], cs["want_hex"], cs["oracle"] = g.Text(16), o.want[i].Text(16), o.src[i]
			cs["log2_power"] = o.lp
			key := fmt.Sprintf("wrong-floor:%s:%s", diffClass(g, o.want[i]), powerClass(o.lp))
			rep(key, fmt.Sprintf("threshold (%s) for pool=%d total=%d f=%s is %s, expected floor = %s (decided by %s); log2((1-f)^sigma) ~ %.0f",
				thModeName[i], c.Pool, c.Total, ratStr(c.F), g.Text(16), o.want[i].Text(16), o.src[i], o.lp), cs)
			continue
		}
		confirmed[i] = true
	}
	return
}

func (h *c37) classify(c *thCase, o *thOracle, got [2]*big.Int) {
	rec := h.rec
	rec.Class("stake:" + c.StakeClass)
	rec.Class("f:" + c.FClass)
	for i := range thK {
		if o.src[i] != "" {
			rec.Class("oracle:" + o.src[i])
		}
		if o.want[i] != nil {
			switch {
			case o.want[i].Sign() == 0:
				rec.Class("T=0")
			case o.want[i].Cmp(pow2(thK[i])) == 0:
				rec.Class("T=2^k")
			case o.want[i].Cmp(new(big.Int).Sub(pow2(thK[i]), bigOne)) == 0:
				rec.Class("T=2^k-1")
			default:
				rec.Class("T=interior")
			}
		}
	}
	if c.Pool > c.Total {
		rec.Class("sigma_capped")
	}
	if c.F.Num().BitLen() > 1000 || c.F.Denom().BitLen() > 1000 {
		rec.Class("f_over_1000_bits")
	}
	rec.Class(powerClass(o.lp))
}

func sigmaLE(p1, t1, p2, t2 uint64) bool { // min(p1,t1)/t1 <= min(p2,t2)/t2
	p1, p2 = min(p1, t1), min(p2, t2)
	l := new(big.Int).Mul(new(big.Int).SetUint64(p1), new(big.Int).SetUint64(t2))
	r := new(big.Int).Mul(new(big.Int).SetUint64(p2), new(big.Int).SetUint64(t1))
	return l.Cmp(r) <= 0
}

func lpOf(pool, total uint64, f *big.Rat) float64 {
	pool = min(pool, total)
	if f.Sign() == 0 || pool == 0 {
		return 0
	}
	if f.Cmp(ratOne()) == 0 {
		return math.Inf(-1)
	}
	return log2Power(pool, total, f)
}

func TestC37(t *testing.T) {
	rec := evi.New(t, "C37", evi.Exploration,
		"cases = (pool stake, total stake >= 1, f in [0,1]) from 10 stake classes over the full uint64 range x 9 coefficient classes (small, typical, up to 2000/6000-bit numerators and denominators, near 0, near 1, 0, 1) plus a constructed family 1-f = (a/b)^m * (1 +/- 2^-B), sigma = n/m whose exact result is an integer or within 2^-B of one (B from 20 to 20000); every case is evaluated for k=256 and k=512. Oracle = harness interval arithmetic (directed rounding, 2048->8192 bits) cross-checked by exact rational arithmetic where (1-f)^sigma is rational and by an analytic bound for the perturbed family; plus metamorphic monotonicity in sigma and f and eligibility predicates vs 'leader value < threshold'. Non-trivial = 0<f<1, pool>0 and the expected floor was decided by a non-trivial oracle; distinct by (pool,total,f)")
	defer rec.Finish()
	rec.Assume(
		"math/big (Int, Rat, and Float with ToNegativeInf/ToPositiveInf rounding) is correct",
		"golang.org/x/crypto blake2b-256 is the hash of the Praos leader value (used by both sides)",
		"total stake 0 (sigma undefined) and f<0, f>1 are outside the statement's domain and only exercised for crashes",
		"a library error is tolerated only when interval arithmetic at 8192 bits cannot separate the result from an integer and no exact oracle applies",
	)
	h := &c37{rec: rec, maxPrec: 8192}
	maxBits := rec.Pick(2000, 6000)

	fatalT := func(msg string) { t.Fatalf("harness fault: %s", msg) }

	// --- unknown modes: k is undefined, an error must be returned
	for _, m := range []lc.ConsensusMode{2, 3, -1, 255} {
		v, err := lc.CertifiedNatThresholdWithMode(1, 2, big.NewRat(1, 20), m)
		rec.Eval()
		if err == nil {
			rec.Violation("unknown-mode:no-error", fmt.Sprintf("mode %d returned %v without error", m, v), map[string]any{"mode": int(m)})
		}
		if _, err := lc.IsSlotLeaderFromComponentsWithMode(make([]byte, 64), 1, 2, big.NewRat(1, 20), m); err == nil {
			rec.Violation("unknown-mode:no-error:IsSlotLeaderFromComponentsWithMode", fmt.Sprintf("mode %d accepted", m), map[string]any{"mode": int(m)})
		}
		if _, err := lc.IsVRFOutputBelowThresholdWithMode(make([]byte, 64), big.NewInt(5), m); err == nil {
			rec.Violation("unknown-mode:no-error:IsVRFOutputBelowThresholdWithMode", fmt.Sprintf("mode %d accepted", m), map[string]any{"mode": int(m)})
		}
	}

	// --- out-of-domain inputs: crash-only
	for _, f := range []*big.Rat{big.NewRat(-1, 2), big.NewRat(3, 2), big.NewRat(1, 2)} {
		for _, st := range [][2]uint64{{0, 0}, {5, 0}, {0, 5}} {
			for _, m := range thModes {
				if p := evi.Safely(func() { _, _ = lc.CertifiedNatThresholdWithMode(st[0], st[1], f, m) }); p != "" {
					rec.Violation("panic:out-of-domain", p, map[string]any{"f": f.RatString(), "pool": st[0], "total": st[1]})
				}
				rec.Class("out_of_domain_crash_only")
			}
		}
	}

	// --- exhaustive small sweep: every sigma with total <= S (pool up to total+1) x every f = a/b, b <= Bm
	S, Bm := rec.Pick(6, 12), rec.Pick(8, 16)
	// the thorough tier runs as several processes with consecutive seeds: each sweeps one residue class
	parts, part := 1, 0
	if v, err := strconv.Atoi(os.Getenv("C37_SWEEP_PARTS")); err == nil && v > 1 {
		parts = v
		part = int(rec.Seed() % int64(v))
	}
	sweepN, sweepIdx := 0, 0
	for total := uint64(1); total <= uint64(S); total++ {
		for pool := uint64(0); pool <= total+1; pool++ {
			for b := int64(1); b <= int64(Bm); b++ {
				for a := int64(0); a <= b; a++ {
					if a > 0 && a < b && gcdU(uint64(a), uint64(b)) != 1 {
						continue
					}
					if (a == 0 || a == b) && b != 1 {
						continue
					}
					sweepIdx++
					if sweepIdx%parts != part {
						continue
					}
					c := &thCase{Pool: pool, Total: total, F: big.NewRat(a, b), StakeClass: "sweep", FClass: "sweep"}
					got, _, o, _ := h.checkThreshold(c, [2]bool{true, true}, h.violation(""), fatalT)
					sweepN++
					if a > 0 && a < b && pool > 0 && o.want[0] != nil && got[0] != nil {
						rec.NonTrivial(fmt.Sprintf("%d/%d f=%d/%d", pool, total, a, b), nil)
					}
					for i := range thK {
						if o.src[i] != "" {
							rec.Class("sweep_oracle:" + o.src[i])
						}
					}
				}
			}
		}
	}
	rec.SetExtra("n_sweep_cases", sweepN)
	rec.SetExtra("sweep_bounds", fmt.Sprintf("total<=%d, pool<=total+1, f=a/b with b<=%d (reduced), both modes; split over %d processes by case index", S, Bm, parts))
	if h.failed {
		return
	}

	// --- fixed deep cases: the implementation's last escalation levels and its error exit.
	// 1-f = (3/2^40)^3 * (1 +/- 2^-B), sigma = 2/3: 2^k*(1-f)^sigma is within ~2^(k-B) of the integer 9*2^(k-80).
	{
		type deep struct {
			B    uint
			sign int
			mode int
		}
		list := []deep{{18500, +1, 0}, {19000, -1, 1}}
		if rec.Thorough() {
			list = append(list, deep{9300, -1, 0}, deep{9300, +1, 1}, deep{18400, -1, 1}, deep{18500, -1, 0}, deep{20000, +1, 1})
		}
		root := new(big.Rat).SetFrac(big.NewInt(3), pow2(40))
		for di, d := range list {
			if parts > 1 && di%parts != part {
				continue
			}
			fac := new(big.Int).Add(pow2(d.B), big.NewInt(int64(d.sign)))
			y := new(big.Rat).SetFrac(new(big.Int).Mul(big.NewInt(27), fac), new(big.Int).Mul(pow2(120), pow2(d.B)))
			c := &thCase{Pool: 2, Total: 3, F: new(big.Rat).Sub(ratOne(), y), StakeClass: "fixed_deep", FClass: fmt.Sprintf("fixed_deep:B=%d", d.B),
				Constructed: true, Root: root, N: 2, M: 3, Pert: d.sign, PertBits: d.B}
			run := [2]bool{}
			run[d.mode] = true
			got, _, o, _ := h.checkThreshold(c, run, h.violation(""), fatalT)
			rec.Class(c.FClass)
			switch {
			case got[d.mode] == nil:
				rec.Class("fixed_deep:library_error")
			case o.want[d.mode] != nil:
				rec.Class("fixed_deep:library_value_checked_by:" + o.src[d.mode])
			}
		}
	}

	// after the error exits above a plain question must still get the plain answer
	{
		c := &thCase{Pool: 1, Total: 2, F: big.NewRat(3, 4), StakeClass: "after_error", FClass: "after_error"}
		h.checkThreshold(c, [2]bool{true, true}, h.violation("after-error:"), fatalT)
	}
	if h.failed {
		return
	}

	// --- special values, deterministic: stakes around 2^63 and 2^64-1, sigma 0 and 1,
	// perfect-power and power-of-two coefficients, f next to 0 and 1, and for each the
	// leader values 00..00, ff..ff, T-1, T, T+1
	h.sweepSpecial(part, parts, fatalT)
	if h.failed {
		return
	}

	// --- long-lived objects
	for _, f := range []*big.Rat{big.NewRat(1, 20), big.NewRat(1, 2), big.NewRat(3, 4)} {
		l, err := newLongLived(f, 8)
		if err != nil {
			t.Fatalf("harness fault: %v", err)
		}
		h.long = append(h.long, l)
	}

	// --- generated cases
	rec.Check(func(rt *rapid.T) {
		c := genCase(rt, maxBits)
		rep := func(key, what string, cs any) bool { return rec.Fail(rt, key, what, cs) }
		fatal := func(msg string) { rt.Fatalf("harness fault: %s", msg) }

		// deep-escalation inputs cost up to seconds per library call: one mode only
		run := [2]bool{true, true}
		tier := c.costTier()
		if tier == 2 {
			run[rapid.IntRange(0, 1).Draw(rt, "skipMode")] = false
		}
		rec.Class(fmt.Sprintf("cost_tier_%d", tier))
		got, confirmed, o, run := h.checkThreshold(c, run, rep, fatal)
		h.classify(c, &o, got)
		interior := c.F.Sign() > 0 && c.F.Cmp(ratOne()) < 0 && c.Pool > 0
		if interior && (o.want[0] != nil || o.want[1] != nil) {
			rec.NonTrivial(fmt.Sprintf("%d/%d f=%s", c.Pool, c.Total, c.F.RatString()), func() any {
				s := c.sample()
				for i := range thK {
					if o.want[i] != nil {
						w := o.want[i].Text(16)
						if len(w) > 40 {
							w = w[:40] + "…"
						}
						s["T_"+thModeName[i]] = "0x" + w
						s["oracle_"+thModeName[i]] = o.src[i]
					}
				}
				return s
			}())
		}

		// legacy wrapper = Praos value, or 0 on error
		if run[0] && tier == 0 && rapid.IntRange(0, 3).Draw(rt, "legacy") == 0 {
			v := lc.CertifiedNatThreshold(c.Pool, c.Total, c.F)
			rec.Eval()
			exp := got[0]
			if exp == nil {
				exp = big.NewInt(0)
			}
			if v == nil || v.Cmp(exp) != 0 {
				rec.Fail(rt, "legacy-wrapper:CertifiedNatThreshold", fmt.Sprintf("CertifiedNatThreshold = %v, WithMode(CPraos) = %v", v, got[0]), c.json())
			}
		}

		// --- monotonicity (metamorphic; library values only)
		if tier == 0 || rapid.IntRange(0, 1+2*tier).Draw(rt, "monoCostly") == 0 {
			h.checkMonotone(rt, c, got, &o, maxBits, tier == 0 && rapid.IntRange(0, 5).Draw(rt, "judgeVariants") == 0, rep, fatal)
		}

		// --- eligibility
		if tier == 0 || rapid.IntRange(0, 1+2*tier).Draw(rt, "eligCostly") == 0 {
			h.checkEligibility(rt, c, run, got, confirmed, &o, tier)
		}

		// --- long-lived validator / block builder fed with this case's stakes
		if tier == 0 && c.Pool > 0 && rapid.IntRange(0, 7).Draw(rt, "longLivedCase") == 0 {
			h.checkLongLived(rt, c, rep, fatal)
		}
	})
}

// sweepSpecial: deterministic special values (see TestC37).
func (h *c37) sweepSpecial(part, parts int, fatal func(string)) {
	rec := h.rec
	rep := h.violation("special:")
	const m63 = uint64(1) << 63
	stakes := []uint64{0, 1, m63 - 1, m63, m63 + 1, math.MaxUint64}
	two := func(n uint) *big.Rat { return new(big.Rat).SetFrac(bigOne, pow2(n)) }
	fs := []*big.Rat{new(big.Rat), ratOne(), big.NewRat(1, 20), big.NewRat(1, 2), big.NewRat(3, 4),
		two(64), new(big.Rat).Sub(ratOne(), two(64)), new(big.Rat).Sub(ratOne(), two(600))}
	type sc struct {
		pool, total uint64
		f           *big.Rat
	}
	var cases []sc
	for _, p := range stakes {
		for _, t := range stakes {
			if t == 0 {
				continue
			}
			for _, f := range fs {
				cases = append(cases, sc{p, t, f})
			}
		}
	}
	// exact roots with stakes beyond int64: sigma = 1/2, 1/3, 2/3, 1/4 as ratios of huge stakes
	third := uint64(math.MaxUint64 / 3) // 0x5555555555555555, 3*third = 2^64-1
	cases = append(cases,
		sc{m63 / 2, m63, big.NewRat(3, 4)}, sc{m63, math.MaxUint64 - 1, big.NewRat(3, 4)}, // sigma = 1/2 (2^63 / (2^64-2)), 1-f = (1/2)^2
		sc{third, math.MaxUint64, big.NewRat(26, 27)}, sc{2 * third, math.MaxUint64, big.NewRat(26, 27)}, // sigma = 1/3, 2/3, 1-f = (1/3)^3
		sc{third, math.MaxUint64, new(big.Rat).Sub(ratOne(), two(768))},                               // 1-f = (2^-256)^3: 2^256*(1-f)^(1/3) = 1
		sc{m63 / 2, math.MaxUint64 - 3, big.NewRat(3, 4)}, sc{(m63-1)/2 + 1, m63, big.NewRat(15, 16)}, // near-misses of the above
		sc{m63 + 5, m63 + 5, big.NewRat(1, 2)}, sc{math.MaxUint64, m63 + 1, big.NewRat(1, 2)}, // sigma = 1 by equality / by the cap
	)
	nSpecial := 0
	for idx, k := range cases {
		if parts > 1 && idx%parts != part {
			continue
		}
		if h.failed {
			break
		}
		c := &thCase{Pool: k.pool, Total: k.total, F: new(big.Rat).Set(k.f), StakeClass: "special", FClass: "special"}
		got, confirmed, o, _ := h.checkThreshold(c, [2]bool{true, true}, rep, fatal)
		nSpecial++
		if c.F.Sign() > 0 && c.F.Cmp(ratOne()) < 0 && c.Pool > 0 && got[0] != nil {
			rec.NonTrivial(fmt.Sprintf("special %d/%d f=%s", c.Pool, c.Total, c.F.RatString()), nil)
		}
		for i, mode := range thModes {
			if o.src[i] != "" {
				rec.Class("special_oracle:" + o.src[i])
			}
			if !confirmed[i] {
				continue
			}
			T := got[i]
			outs := [][]byte{make([]byte, 64), bytes.Repeat([]byte{0xff}, 64)}
			if i == 1 {
				for _, d := range []int64{-1, 0, 1} {
					if x := new(big.Int).Add(T, big.NewInt(d)); x.Sign() >= 0 && x.Cmp(pow2(512)) < 0 {
						outs = append(outs, bytes64(x))
					}
				}
			}
			for oi, out := range outs {
				outCopy := append([]byte(nil), out...)
				tCopy := new(big.Int).Set(T)
				want := leaderValue(out, i).Cmp(T) < 0
				cs := c.json()
				cs["mode"], cs["vrf_output"], cs["threshold_hex"] = thModeName[i], evi.Hex(out), T.Text(16)
				ok, err := lc.IsVRFOutputBelowThresholdWithMode(out, T, mode)
				ok2, err2 := want, error(nil)
				if oi%2 == 1 { // the composed predicate recomputes the threshold: every second output
					ok2, err2 = lc.IsSlotLeaderFromComponentsWithMode(out, c.Pool, c.Total, c.F, mode)
				}
				rec.EvalN(2)
				if err != nil || ok != want {
					rep("eligibility:IsVRFOutputBelowThresholdWithMode:"+thModeName[i], fmt.Sprintf("got %v err=%v, expected %v", ok, err, want), cs)
				}
				if c.Pool > 0 && (err2 != nil || ok2 != want) {
					rep("eligibility:IsSlotLeaderFromComponentsWithMode:"+thModeName[i], fmt.Sprintf("got %v err=%v, expected %v", ok2, err2, want), cs)
				}
				if !bytes.Equal(out, outCopy) || T.Cmp(tCopy) != 0 {
					rep("argument-mutated:eligibility", "the eligibility predicate changed the caller's VRF output or threshold", cs)
					T.Set(tCopy)
				}
				if want {
					rec.Class("special_eligible:" + thModeName[i])
				} else {
					rec.Class("special_not_eligible:" + thModeName[i])
				}
			}
		}
	}
	rec.SetExtra("n_special_cases", nSpecial)
}

func (h *c37) checkMonotone(rt *rapid.T, c *thCase, got [2]*big.Int, o *thOracle, maxBits int, judge bool, rep reporter, fatal func(string)) {
	rec := h.rec
	// sigma variant
	p2, t2 := c.Pool, c.Total
	switch rapid.IntRange(0, 4).Draw(rt, "sigmaVar") {
	case 0:
		if p2 < math.MaxUint64 {
			p2++
		}
	case 1:
		if p2 > 0 {
			p2--
		}
	case 2:
		if t2 < math.MaxUint64 {
			t2++
		}
	case 3:
		if t2 > 1 {
			t2--
		}
	default:
		p2, t2, _ = genStake(rt)
	}
	// f variant
	var f2 *big.Rat
	switch rapid.IntRange(0, 3).Draw(rt, "fVar") {
	case 0, 1:
		off := new(big.Rat).SetFrac(bigOne, pow2(uint(rapid.IntRange(1, maxBits).Draw(rt, "fOffBits"))))
		if rapid.Bool().Draw(rt, "fOffNeg") {
			f2 = new(big.Rat).Sub(c.F, off)
		} else {
			f2 = new(big.Rat).Add(c.F, off)
		}
		if f2.Sign() < 0 {
			f2 = new(big.Rat)
		}
		if f2.Cmp(ratOne()) > 0 {
			f2 = ratOne()
		}
	case 2:
		f2, _ = genF(rt, maxBits)
	default:
		// the other boundary
		if rapid.Bool().Draw(rt, "toOne") {
			f2 = ratOne()
		} else {
			f2 = new(big.Rat)
		}
	}
	// With judge set the two neighbours are themselves decided by the oracle (so a result
	// that depends on the previous call - e.g. a memo missing one of its keys - is wrong
	// against the reference, not merely "equal"); otherwise they are plain library calls.
	var vS, vF [2]*big.Int
	wanted := [2]bool{got[0] != nil, got[1] != nil}
	if judge {
		vS, _, _, _ = h.checkThreshold(&thCase{Pool: p2, Total: t2, F: new(big.Rat).Set(c.F), StakeClass: "variant", FClass: "variant"}, wanted, rep, fatal)
		vF, _, _, _ = h.checkThreshold(&thCase{Pool: c.Pool, Total: c.Total, F: f2, StakeClass: "variant", FClass: "variant"}, wanted, rep, fatal)
		rec.Class("mono_variants_judged_by_oracle")
	} else {
		for i, mode := range thModes {
			if !wanted[i] {
				continue
			}
			if t2 == 0 || libCallTooCostly(p2, t2, c.F, thK[i]) {
				rec.Class("mono_variant_skipped_by_cost_guard")
			} else if v, err := lc.CertifiedNatThresholdWithMode(p2, t2, c.F, mode); err == nil {
				vS[i] = v
				rec.Eval()
			}
			if libCallTooCostly(c.Pool, c.Total, f2, thK[i]) {
				rec.Class("mono_variant_skipped_by_cost_guard")
			} else if v, err := lc.CertifiedNatThresholdWithMode(c.Pool, c.Total, f2, mode); err == nil {
				vF[i] = v
				rec.Eval()
			}
		}
	}
	for i := range thModes {
		if got[i] == nil {
			continue
		}
		// sigma
		if v := vS[i]; v != nil {
			le12 := sigmaLE(c.Pool, c.Total, p2, t2)
			le21 := sigmaLE(p2, t2, c.Pool, c.Total)
			bad := (le12 && got[i].Cmp(v) > 0) || (le21 && v.Cmp(got[i]) > 0)
			switch {
			case le12 && le21:
				rec.Class("mono_sigma_equal")
			case got[i].Cmp(v) == 0:
				rec.Class("mono_sigma_same_threshold")
			default:
				rec.Class("mono_sigma_strict")
			}
			if bad {
				lp := math.Min(o.lp, lpOf(p2, t2, c.F))
				cs := c.json()
				cs["mode"], cs["pool2"], cs["total2"] = thModeName[i], fmt.Sprint(p2), fmt.Sprint(t2)
				cs["T1_hex"], cs["T2_hex"] = got[i].Text(16), v.Text(16)
				rec.Fail(rt, "monotone-sigma:"+powerClass(lp),
					fmt.Sprintf("threshold not monotone in sigma (%s): T(%d/%d)=%s, T(%d/%d)=%s, f=%s", thModeName[i], c.Pool, c.Total, got[i].Text(16), p2, t2, v.Text(16), ratStr(c.F)), cs)
			}
		}
		// f
		if v := vF[i]; v != nil {
			cmp := c.F.Cmp(f2)
			bad := (cmp <= 0 && got[i].Cmp(v) > 0) || (cmp >= 0 && v.Cmp(got[i]) > 0)
			switch {
			case cmp == 0:
				rec.Class("mono_f_equal")
			case got[i].Cmp(v) == 0:
				rec.Class("mono_f_same_threshold")
			default:
				rec.Class("mono_f_strict")
			}
			if bad {
				lp := math.Min(o.lp, lpOf(c.Pool, c.Total, f2))
				cs := c.json()
				cs["mode"] = thModeName[i]
				cs["f2_num_hex"], cs["f2_den_hex"] = f2.Num().Text(16), f2.Denom().Text(16)
				cs["T1_hex"], cs["T2_hex"] = got[i].Text(16), v.Text(16)
				rec.Fail(rt, "monotone-f:"+powerClass(lp),
					fmt.Sprintf("threshold not monotone in f (%s): T(f=%s)=%s, T(f=%s)=%s, sigma=%d/%d", thModeName[i], ratStr(c.F), got[i].Text(16), ratStr(f2), v.Text(16), c.Pool, c.Total), cs)
			}
		}
	}
	if c.costTier() != 0 {
		return
	}
	// Calls that fail or are degenerate, then the original question again: neither the
	// neighbours above nor a failed call may leave anything behind.
	_, _ = lc.CertifiedNatThresholdWithMode(c.Pool, c.Total, c.F, lc.ConsensusMode(7))     // unknown mode: error
	_, _ = lc.CertifiedNatThresholdWithMode(c.Pool, c.Total, big.NewRat(3, 2), thModes[0]) // f > 1: documented error
	_, _ = lc.CertifiedNatThresholdWithMode(c.Pool, 0, c.F, thModes[1])                    // total stake 0
	_, _ = lc.IsSlotLeaderFromComponentsWithMode(make([]byte, 63), c.Pool, c.Total, c.F, thModes[0])
	for i, mode := range thModes {
		if got[i] == nil {
			continue
		}
		again, err := lc.CertifiedNatThresholdWithMode(c.Pool, c.Total, c.F, mode)
		rec.Eval()
		if err != nil || again == nil || again.Cmp(got[i]) != 0 {
			cs := c.json()
			cs["mode"], cs["first_hex"], cs["again"] = thModeName[i], got[i].Text(16), fmt.Sprint(again, err)
			cs["pool2"], cs["total2"] = fmt.Sprint(p2), fmt.Sprint(t2)
			cs["f2_num_hex"], cs["f2_den_hex"] = f2.Num().Text(16), f2.Denom().Text(16)
			rep("history:result-changed-after-other-calls:"+thModeName[i], fmt.Sprintf("threshold for pool=%d total=%d f=%s was %s; after calls with (pool=%d,total=%d), with f=%s and three failing calls it is %v err=%v", c.Pool, c.Total, ratStr(c.F), got[i].Text(16), p2, t2, ratStr(f2), again, err), cs)
		}
	}
	rec.Class("original_reasked_after_neighbours_and_failing_calls")
}

func bytes64(x *big.Int) []byte {
	b := make([]byte, 64)
	x.FillBytes(b)
	return b
}

func (h *c37) checkEligibility(rt *rapid.T, c *thCase, run [2]bool, got [2]*big.Int, confirmed [2]bool, o *thOracle, tier int) {
	rec := h.rec
	for i, mode := range thModes {
		if !run[i] {
			continue
		}
		if got[i] == nil {
			// threshold unavailable: the composed predicate must not claim eligibility
			out := rapid.SliceOfN(rapid.Byte(), 64, 64).Draw(rt, "out")
			ok, _ := lc.IsSlotLeaderFromComponentsWithMode(out, c.Pool, c.Total, c.F, mode)
			rec.Eval()
			if ok {
				rec.Fail(rt, "eligibility:eligible-without-threshold:"+thModeName[i], "eligible although the threshold computation failed", c.json())
			}
			continue
		}
		// T is the harness-side threshold: the oracle's value; when this case hit a
		// listed wrong-floor finding (or no oracle resolved) the library's own value
		// is used so that the predicates are still checked for consistency.
		T := got[i]
		if confirmed[i] {
			T = o.want[i]
		}
		outs := [][]byte{rapid.SliceOfN(rapid.Byte(), 64, 64).Draw(rt, "out")}
		if tier > 0 {
			// costly input: a single output (TPraos: the leader value equal to the threshold)
			if i == 1 && T.Cmp(pow2(512)) < 0 {
				outs[0] = bytes64(T)
			}
		} else if i == 1 {
			// TPraos: craft the leader value right at the threshold
			for _, d := range []int64{-1, 0, 1} {
				x := new(big.Int).Add(T, big.NewInt(d))
				if x.Sign() >= 0 && x.Cmp(pow2(512)) < 0 {
					outs = append(outs, bytes64(x))
				}
			}
			// and the extreme leader values 0 and 2^512-1
			if rapid.Bool().Draw(rt, "extremeOut") {
				outs = append(outs, make([]byte, 64))
			} else {
				outs = append(outs, bytes.Repeat([]byte{0xff}, 64))
			}
		} else if T.BitLen() > 0 && T.BitLen() <= 256 {
			// Praos: the hash cannot be inverted; draw a few more outputs so both outcomes occur
			outs = append(outs, rapid.SliceOfN(rapid.Byte(), 64, 64).Draw(rt, "out2"))
		}
		thrSnap, fSnap := new(big.Int).Set(got[i]), new(big.Rat).Set(c.F)
		for oi, out := range outs {
			outSnap := append([]byte(nil), out...)
			lv := leaderValue(out, i)
			want := lv.Cmp(T) < 0
			cs := c.json()
			cs["mode"], cs["vrf_output"], cs["leader_value_hex"], cs["threshold_hex"] = thModeName[i], evi.Hex(out), lv.Text(16), T.Text(16)

			ok, err := lc.IsVRFOutputBelowThresholdWithMode(out, got[i], mode)
			rec.Eval()
			if err != nil || ok != (lv.Cmp(got[i]) < 0) {
				rec.Fail(rt, "eligibility:IsVRFOutputBelowThresholdWithMode:"+thModeName[i],
					fmt.Sprintf("IsVRFOutputBelowThresholdWithMode=%v err=%v, leader value %s, threshold %s", ok, err, lv.Text(16), got[i].Text(16)), cs)
			}
			// exact boundary of the comparison itself
			for _, d := range []int64{0, 1} {
				thr := new(big.Int).Add(lv, big.NewInt(d))
				ok, err := lc.IsVRFOutputBelowThresholdWithMode(out, thr, mode)
				rec.Eval()
				if err != nil || ok != (d == 1) {
					cs["threshold_hex"] = thr.Text(16)
					rec.Fail(rt, "eligibility:IsVRFOutputBelowThresholdWithMode:boundary:"+thModeName[i],
						fmt.Sprintf("leader value %s vs threshold leader+%d: got %v err=%v", lv.Text(16), d, ok, err), cs)
				}
			}
			ok, err = lc.IsSlotLeaderFromComponentsWithMode(out, c.Pool, c.Total, c.F, mode)
			rec.Eval()
			if err != nil || ok != want {
				rec.Fail(rt, "eligibility:IsSlotLeaderFromComponentsWithMode:"+thModeName[i],
					fmt.Sprintf("IsSlotLeaderFromComponentsWithMode=%v err=%v, expected %v (leader value %s, threshold %s)", ok, err, want, lv.Text(16), T.Text(16)), cs)
			}
			if i == 0 && oi == 0 && tier == 0 {
				if lc.IsVRFOutputBelowThreshold(out, got[i]) != (lv.Cmp(got[i]) < 0) {
					rec.Fail(rt, "eligibility:IsVRFOutputBelowThreshold", "legacy wrapper disagrees with leader value < threshold", cs)
				}
				if lc.IsSlotLeaderFromComponents(out, c.Pool, c.Total, c.F) != want {
					rec.Fail(rt, "eligibility:IsSlotLeaderFromComponents", "legacy wrapper disagrees with leader value < threshold", cs)
				}
			}
			// full election entry point with a signer that returns this output
			if c.Pool > 0 && tier == 0 && (oi == 0 || oi == 2) {
				nonce := make([]byte, 32)
				res, err := lc.IsSlotLeaderWithMode(uint64(len(out))+c.Pool%1000, nonce, c.Pool, c.Total, c.F, stubSigner{out}, mode)
				rec.Eval()
				if err != nil || res == nil || res.Eligible != want || res.Threshold == nil || res.Threshold.Cmp(got[i]) != 0 || !bytes.Equal(res.Output, out) {
					rec.Fail(rt, "eligibility:IsSlotLeaderWithMode:"+thModeName[i],
						fmt.Sprintf("IsSlotLeaderWithMode result %+v err=%v, expected eligible=%v threshold=%s", res, err, want, got[i].Text(16)), cs)
				}
			}
			// and once per case with a real VRF key: whatever output the signer produces,
			// eligibility must be "its leader value < threshold"
			if c.Pool > 0 && tier == 0 && oi == 0 && len(out) == 64 && out[0]%4 == 0 {
				signer, err := lc.NewSimpleVRFSigner(out[:32])
				if err != nil {
					rt.Fatalf("harness fault: NewSimpleVRFSigner: %v", err)
				}
				res, err := lc.IsSlotLeaderWithMode(uint64(out[1])<<8|uint64(out[2]), out[32:], c.Pool, c.Total, c.F, signer, mode)
				rec.Eval()
				if err != nil || res == nil || len(res.Output) != 64 || res.Threshold == nil || res.Threshold.Cmp(got[i]) != 0 ||
					res.Eligible != (leaderValue(res.Output, i).Cmp(T) < 0) {
					rec.Fail(rt, "eligibility:IsSlotLeaderWithMode:real-signer:"+thModeName[i],
						fmt.Sprintf("IsSlotLeaderWithMode with a real VRF key: result %+v err=%v, threshold %s", res, err, got[i].Text(16)), cs)
				}
				rec.Class("real_vrf_signer_elections")
			}
			if !bytes.Equal(out, outSnap) || got[i].Cmp(thrSnap) != 0 || c.F.Cmp(fSnap) != 0 {
				rec.Fail(rt, "argument-mutated:eligibility", "an eligibility function changed the caller's VRF output, threshold or activeSlotCoeff", cs)
				got[i].Set(thrSnap)
				c.F.Set(fSnap)
			}
			if want {
				rec.Class("eligible:" + thModeName[i])
			} else {
				rec.Class("not_eligible:" + thModeName[i])
			}
			if d := new(big.Int).Sub(lv, T); d.IsInt64() && d.Int64() >= -1 && d.Int64() <= 1 {
				rec.Class("leader_value_at_threshold_boundary")
			}
		}
	}
}
