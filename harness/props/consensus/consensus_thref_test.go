package consensus

// Independent reference for the Praos leadership threshold (property C37).
//
//	T = floor(2^k * (1 - (1-f)^sigma)),  sigma = min(pool,total)/total
//
// Written from the property statement; it shares no code and no algorithmic
// structure with gouroboros/consensus/threshold.go:
//
//   - everything is computed on W = 2^k * (1-f)^sigma and T = 2^k - ceil(W)
//     (floor(U-w) = U-ceil(w) for an integer U), so there is never a
//     subtraction of nearly equal floating point numbers;
//   - every quantity in the pipeline is positive, so an interval is a pair
//     (lo rounded toward -inf, hi rounded toward +inf) of big.Float values and
//     each operation is monotone;
//   - series remainders are added explicitly to the upper end;
//   - the result is accepted only when ceil(lo) == ceil(hi).
//
// Three further, non-numerical oracles cross-check it (see c37_test.go):
// exact rational arithmetic when (1-f)^sigma is rational (complete root
// detection by bisection), the analytic bound for one-ulp perturbations of
// such a case, and construction knowledge of the generator.

import (
	"fmt"
	"math"
	"math/big"
)

type ivCtx struct{ prec uint }

func (c ivCtx) dn() *big.Float { return new(big.Float).SetPrec(c.prec).SetMode(big.ToNegativeInf) }
func (c ivCtx) up() *big.Float { return new(big.Float).SetPrec(c.prec).SetMode(big.ToPositiveInf) }

// ival is an interval [lo, hi] with 0 <= lo <= hi enclosing a real number.
type ival struct{ lo, hi *big.Float }

func exactFloat(x *big.Int) *big.Float { return new(big.Float).SetInt(x) } // prec 0 => exact

func (c ivCtx) fromRat(num, den *big.Int) ival {
	a, b := exactFloat(num), exactFloat(den)
	return ival{c.dn().Quo(a, b), c.up().Quo(a, b)}
}

func (c ivCtx) fromInt64(v int64) ival {
	return ival{c.dn().SetInt64(v), c.up().SetInt64(v)}
}

func (c ivCtx) add(a, b ival) ival { return ival{c.dn().Add(a.lo, b.lo), c.up().Add(a.hi, b.hi)} }
func (c ivCtx) mul(a, b ival) ival { return ival{c.dn().Mul(a.lo, b.lo), c.up().Mul(a.hi, b.hi)} }

func (c ivCtx) mulU(a ival, v uint64) ival {
	f := new(big.Float).SetUint64(v) // exact (prec 64)
	return ival{c.dn().Mul(a.lo, f), c.up().Mul(a.hi, f)}
}

func (c ivCtx) quoU(a ival, v uint64) ival {
	f := new(big.Float).SetUint64(v)
	return ival{c.dn().Quo(a.lo, f), c.up().Quo(a.hi, f)}
}

// negligible reports x < 2^-(prec+8) * ref (both positive), i.e. x cannot change
// ref at the working precision. Only used as a stopping rule; the remainder is
// always bounded explicitly afterwards.
func (c ivCtx) negligible(x, ref *big.Float) bool {
	if x.Sign() == 0 {
		return true
	}
	return x.MantExp(nil) < ref.MantExp(nil)-int(c.prec)-8
}

// atanh encloses atanh(z) for an interval z with 0 < z.lo <= z.hi <= 1/3+tiny.
// atanh(z) = sum_{n>=0} z^(2n+1)/(2n+1). After adding the terms 0..N the
// remainder is sum_{n>N} z^(2n+1)/(2n+1) <= term_N * z^2/(1-z^2) <= term_N/4
// for z <= 0.4; we add a whole term_N.hi to the upper end.
func (c ivCtx) atanh(z ival) ival {
	if z.lo.Sign() <= 0 || z.hi.Cmp(big.NewFloat(0.4)) > 0 {
		panic("harness: atanh argument outside (0, 0.4]")
	}
	z2 := c.mul(z, z)
	pw := z
	sum := ival{c.dn().Set(z.lo), c.up().Set(z.hi)}
	for n := uint64(1); ; n++ {
		if n > uint64(c.prec)+64 {
			panic("harness: atanh series did not terminate")
		}
		pw = c.mul(pw, z2)
		term := c.quoU(pw, 2*n+1)
		sum = c.add(sum, term)
		if c.negligible(term.hi, sum.lo) {
			sum.hi = c.up().Add(sum.hi, term.hi)
			return sum
		}
	}
}

var ln2Cache = map[uint]ival{}

// ln2 = 2*atanh(1/3).
func (c ivCtx) ln2() ival {
	if v, ok := ln2Cache[c.prec]; ok {
		return v
	}
	v := c.mulU(c.atanh(c.fromRat(big.NewInt(1), big.NewInt(3))), 2)
	ln2Cache[c.prec] = v
	return v
}

// negLn encloses -ln(num/den) for 0 < num < den.
// num/den = m * 2^-sh with m in [1/2, 1); -ln = 2*atanh((1-m)/(1+m)) + sh*ln 2,
// and (1-m)/(1+m) is an exact rational in (0, 1/3].
func (c ivCtx) negLn(num, den *big.Int) ival {
	if num.Sign() <= 0 || num.Cmp(den) >= 0 {
		panic("harness: negLn needs 0 < num < den")
	}
	sh := den.BitLen() - num.BitLen()
	n2 := new(big.Int).Lsh(num, uint(sh))
	if n2.Cmp(den) >= 0 {
		sh-- // sh >= 1 here because num < den
		n2 = new(big.Int).Lsh(num, uint(sh))
	}
	if n2.Cmp(den) >= 0 || new(big.Int).Lsh(n2, 1).Cmp(den) < 0 {
		panic("harness: mantissa reduction failed")
	}
	// now den/2 <= n2 < den
	zn := new(big.Int).Sub(den, n2)
	zd := new(big.Int).Add(den, n2)
	res := c.mulU(c.atanh(c.fromRat(zn, zd)), 2)
	if sh > 0 {
		res = c.add(res, c.mulU(c.ln2(), uint64(sh)))
	}
	return res
}

// expPos encloses exp(u) for an interval u with 0 <= u.lo <= u.hi.
// u is scaled by 2^-s so that w = u/2^s < 2^-8, exp(w) is summed by Taylor
// (remainder after term N: sum_{j>N} w^j/j! <= term_N * w/(1-w) <= term_N), and
// the result is squared s times.
func (c ivCtx) expPos(u ival) ival {
	if u.lo.Sign() < 0 {
		panic("harness: expPos needs u >= 0")
	}
	s := 0
	if u.hi.Sign() > 0 {
		if e := u.hi.MantExp(nil) + 8; e > 0 {
			s = e
		}
	}
	w := ival{c.dn().SetMantExp(u.lo, -s), c.up().SetMantExp(u.hi, -s)}
	sum := c.fromInt64(1)
	term := c.fromInt64(1)
	for n := uint64(1); ; n++ {
		if n > uint64(c.prec)+64 {
			panic("harness: exp series did not terminate")
		}
		term = c.quoU(c.mul(term, w), n)
		sum = c.add(sum, term)
		if c.negligible(term.hi, sum.lo) {
			sum.hi = c.up().Add(sum.hi, term.hi)
			break
		}
	}
	for i := 0; i < s; i++ {
		sum = c.mul(sum, sum)
	}
	return sum
}

// ceilPos returns ceil(x) for x >= 0.
func ceilPos(x *big.Float) *big.Int {
	i, acc := x.Int(nil)
	if acc == big.Below {
		i.Add(i, big.NewInt(1))
	}
	return i
}

var bigOne = big.NewInt(1)

func pow2(k uint) *big.Int { return new(big.Int).Lsh(bigOne, k) }

// refPower encloses A = (1-f)^-sigma = exp(sigma * -ln(1-f)) >= 1 for
// 0 < f < 1, 0 < pool <= total, at the given precision.
func refPower(pool, total uint64, f *big.Rat, prec uint) ival {
	c := ivCtx{prec}
	y := new(big.Rat).Sub(big.NewRat(1, 1), f)
	l := c.negLn(y.Num(), y.Denom())
	u := c.quoU(c.mulU(l, pool), total)
	return c.expPos(u)
}

// refFromPower turns the enclosure of A into the threshold for 2^k, or
// ok=false when the enclosure of W = 2^k/A straddles an integer.
func refFromPower(a ival, k uint, prec uint) (t *big.Int, ok bool) {
	c := ivCtx{prec}
	u := exactFloat(pow2(k))
	wlo := c.dn().Quo(u, a.hi)
	whi := c.up().Quo(u, a.lo) // a.lo >= 1, so whi <= 2^k
	cl, ch := ceilPos(wlo), ceilPos(whi)
	if wlo.Sign() <= 0 {
		// (1-f)^sigma > 0 strictly; a zero lower end would be a harness fault
		panic("harness: lower bound of W is not positive")
	}
	if cl.Cmp(ch) != 0 {
		return nil, false
	}
	return new(big.Int).Sub(pow2(k), cl), true
}

// sepBits estimates how many bits of relative accuracy on W = 2^k/A are needed
// to separate it from the nearest integers: log2(W) - log2(distance). +Inf when
// the enclosure straddles an integer. Used only to estimate the running time of
// the library call (cost guard), never for correctness.
func sepBits(a ival, k uint, prec uint) float64 {
	c := ivCtx{prec}
	u := exactFloat(pow2(k))
	wlo := c.dn().Quo(u, a.hi)
	whi := c.up().Quo(u, a.lo)
	cl, ch := ceilPos(wlo), ceilPos(whi)
	if cl.Cmp(ch) != 0 {
		return math.Inf(1)
	}
	if cl.Cmp(pow2(k)) == 0 {
		return 0 // threshold 0: the library's first level already truncates both ends to 0
	}
	up := new(big.Float).Sub(exactFloat(cl), whi)                             // c - whi >= 0
	down := new(big.Float).Sub(wlo, exactFloat(new(big.Int).Sub(cl, bigOne))) // wlo - (c-1) > 0
	d := up
	if down.Cmp(up) < 0 {
		d = down
	}
	if d.Sign() <= 0 {
		return math.Inf(1)
	}
	return float64(whi.MantExp(nil) - d.MantExp(nil))
}

// log2Power returns an approximation of log2((1-f)^sigma) (<= 0) for class
// keys and counters only (never used to decide correctness).
func log2Power(pool, total uint64, f *big.Rat) float64 {
	a := refPower(pool, total, f, 128)
	e := a.hi.MantExp(nil)
	return -float64(e)
}

// trivialThreshold handles the cases the statement decides without any real
// arithmetic. pool is already capped.
func trivialThreshold(pool, total uint64, f *big.Rat, k uint) (*big.Int, bool) {
	switch {
	case f.Sign() == 0, pool == 0:
		return big.NewInt(0), true // (1-0)^s = 1, x^0 = 1
	case f.Cmp(big.NewRat(1, 1)) == 0:
		return pow2(k), true // 0^s = 0 for s > 0
	}
	return nil, false
}

// refThresholds returns the reference thresholds for k = 256 and k = 512 and
// the precision at which each was resolved (0 = unresolved up to maxPrec).
func refThresholds(pool, total uint64, f *big.Rat, maxPrec uint) (t [2]*big.Int, at [2]uint) {
	if total == 0 {
		panic("harness: total stake 0 is outside the reference's domain")
	}
	if pool > total {
		pool = total
	}
	ks := [2]uint{256, 512}
	for i, k := range ks {
		if v, ok := trivialThreshold(pool, total, f, k); ok {
			t[i], at[i] = v, 1
		}
	}
	if t[0] != nil {
		return
	}
	for prec := uint(2048); prec <= maxPrec; prec *= 2 {
		a := refPower(pool, total, f, prec)
		done := true
		for i, k := range ks {
			if t[i] != nil {
				continue
			}
			if v, ok := refFromPower(a, k, prec); ok {
				t[i], at[i] = v, prec
			} else {
				done = false
			}
		}
		if done {
			break
		}
	}
	return
}

// ---------------------------------------------------------------------------
// exact rational oracle

// intRoot returns r with r^m == x if x (>0) is a perfect m-th power (m >= 1).
// Plain bisection, complete for every m: for m >= bitlen(x) only x == 1 has a root.
func intRoot(x *big.Int, m uint64) (*big.Int, bool) {
	if x.Sign() <= 0 {
		panic("harness: intRoot needs x > 0")
	}
	if m == 1 {
		return new(big.Int).Set(x), true
	}
	if x.Cmp(bigOne) == 0 {
		return big.NewInt(1), true
	}
	if m >= uint64(x.BitLen()) {
		return nil, false // 2^m > x
	}
	mb := new(big.Int).SetUint64(m)
	lo := big.NewInt(1)
	hi := new(big.Int).Lsh(bigOne, uint(uint64(x.BitLen())/m)+1) // hi^m > x
	for new(big.Int).Sub(hi, lo).Cmp(bigOne) > 0 {
		mid := new(big.Int).Add(lo, hi)
		mid.Rsh(mid, 1)
		if new(big.Int).Exp(mid, mb, nil).Cmp(x) <= 0 {
			lo = mid
		} else {
			hi = mid
		}
	}
	if new(big.Int).Exp(lo, mb, nil).Cmp(x) == 0 {
		return lo, true
	}
	return nil, false
}

func gcdU(a, b uint64) uint64 {
	for b != 0 {
		a, b = b, a%b
	}
	return a
}

// exactPower returns (1-f)^sigma as an exact rational when it is one:
// sigma = n/m reduced, 1-f = c/d reduced; c and d must both be m-th powers
// (necessary and sufficient because gcd(c,d)=1 and gcd(n,m)=1).
func exactPower(pool, total uint64, f *big.Rat) (*big.Rat, bool) {
	if pool > total {
		pool = total
	}
	g := gcdU(pool, total)
	n, m := pool/g, total/g
	y := new(big.Rat).Sub(big.NewRat(1, 1), f)
	if y.Sign() <= 0 {
		panic("harness: exactPower needs f < 1")
	}
	rc, ok := intRoot(y.Num(), m)
	if !ok {
		return nil, false
	}
	rd, ok := intRoot(y.Denom(), m)
	if !ok {
		return nil, false
	}
	nb := new(big.Int).SetUint64(n)
	if n > 1 && (rc.BitLen() > 1 || rd.BitLen() > 1) && n*uint64(rd.BitLen()) > 1<<22 {
		return nil, false // would not fit in memory; cannot happen for m < bitlen
	}
	return new(big.Rat).SetFrac(new(big.Int).Exp(rc, nb, nil), new(big.Int).Exp(rd, nb, nil)), true
}

// exactThresholdFromPower = floor(2^k * (1-e)) for an exact rational 0 <= e <= 1.
func exactThresholdFromPower(e *big.Rat, k uint) *big.Int {
	p := new(big.Rat).Sub(big.NewRat(1, 1), e)
	n := new(big.Int).Mul(pow2(k), p.Num())
	return n.Div(n, p.Denom()) // p >= 0: Euclidean division = floor
}

func ratStr(r *big.Rat) string {
	s := r.RatString()
	if len(s) > 160 {
		return fmt.Sprintf("%s…/(%d-bit num, %d-bit den)", s[:60], r.Num().BitLen(), r.Denom().BitLen())
	}
	return s
}
