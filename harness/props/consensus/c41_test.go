package consensus

import (
	"bytes"
	"fmt"
	"math"
	"math/big"
	"strings"
	"testing"
	"time"

	lc "github.com/blinklabs-io/gouroboros/consensus"
	"github.com/blinklabs-io/gouroboros/consensus/genesis"
	"pgregory.net/rapid"

	"verif/harness/internal/evi"
)

// ---------------------------------------------------------------------------
// harness-owned tips (so the selector is also exercised with inputs that do
// not come from the library's own test doubles)

type hTip struct {
	slot, block uint64
	vrf         []byte
	dens        float64
}

func (t *hTip) Slot() uint64           { return t.slot }
func (t *hTip) BlockNumber() uint64    { return t.block }
func (t *hTip) VRFOutput() []byte      { return t.vrf }
func (t *hTip) Density(uint64) float64 { return t.dens }

type hWinTip struct {
	hTip
	slots []uint64
}

// BlocksInWindow follows the WindowBlockCounter contract literally.
func (t *hWinTip) BlocksInWindow(forkSlot, windowSlots uint64) uint64 {
	return countInWindow(t.slots, forkSlot, windowSlots)
}

// countInWindow: a block at slot s counts iff s > forkSlot && s-forkSlot <= windowSlots.
func countInWindow(slots []uint64, forkSlot, windowSlots uint64) uint64 {
	var n uint64
	for _, s := range slots {
		if s > forkSlot && s-forkSlot <= windowSlots {
			n++
		}
	}
	return n
}

// ---------------------------------------------------------------------------
// candidate sets

const (
	kindLibSimple     = iota // lc.SimpleChainTip with blocks/slots density
	kindLibWindow            // lc.WindowedChainTip with slot lists
	kindHarness              // harness ChainTip with an arbitrary finite float density
	kindHarnessWindow        // harness tip implementing WindowBlockCounter
	kindMixed                // set only: candidates of different kinds (see checkTipSet)
)

var kindName = []string{"lib_simple", "lib_windowed", "harness_plain", "harness_windowed", "mixed"}

type cand struct {
	kind                    int
	isNil                   bool // a nil ChainTip in the candidate list
	slot, block             uint64
	vrf                     []byte
	blocksAfter, slotsAfter uint64   // kindLibSimple
	dens                    float64  // harness kinds
	slots                   []uint64 // windowed kinds
	tip                     lc.ChainTip
	vrfSnap                 []byte   // copy taken at construction (the tip shares c.vrf)
	slotsSnap               []uint64 // copy of slots
}

type selCfg struct {
	kind      int
	k, window uint64
	fork      lc.ForkPoint
	tipBlock  uint64
	vrfMode   string // "fixed_len", "with_empty", "mixed_len"
}

func (c selCfg) deep() bool { // "a fork deeper than k blocks"
	return c.tipBlock > c.fork.BlockNumber && c.tipBlock-c.fork.BlockNumber > c.k
}

func (c *cand) desc(setKind int) string {
	if c.isNil {
		return "{nil}"
	}
	var sb strings.Builder
	fmt.Fprintf(&sb, "{blk=%d slot=%d vrf=%x", c.block, c.slot, c.vrfSnap)
	if setKind == kindMixed {
		sb.WriteString(" kind=" + kindName[c.kind])
	}
	switch c.kind {
	case kindLibSimple:
		fmt.Fprintf(&sb, " dens=%d/%d", c.blocksAfter, c.slotsAfter)
	case kindHarness:
		fmt.Fprintf(&sb, " dens=%g", c.dens)
	case kindHarnessWindow:
		fmt.Fprintf(&sb, " dens=%g slots=%v", c.dens, c.slots)
	default:
		fmt.Fprintf(&sb, " slots=%v", c.slots)
	}
	sb.WriteString("}")
	return sb.String()
}

func descSet(cfg selCfg, cs []*cand) string {
	var sb strings.Builder
	fmt.Fprintf(&sb, "kind=%s k=%d window=%d fork=(slot %d, blk %d) tipBlk=%d deep=%v:", kindName[cfg.kind], cfg.k, cfg.window, cfg.fork.Slot, cfg.fork.BlockNumber, cfg.tipBlock, cfg.deep())
	for _, c := range cs {
		sb.WriteString(" " + c.desc(cfg.kind))
	}
	return sb.String()
}

// ---------------------------------------------------------------------------
// reference order, written from the statement

func sgn(x int) int {
	switch {
	case x > 0:
		return 1
	case x < 0:
		return -1
	}
	return 0
}

// refDensity: +1 if a is denser than b, -1, 0; ok=false where the statement
// does not define the window density for this kind of tip.
func refDensity(cfg selCfg, a, b *cand) (int, bool) {
	if a.isNil || b.isNil || a.kind != b.kind {
		// mixed pair: the metric the selector falls back to is not fixed by the statement
		return 0, false
	}
	switch a.kind {
	case kindLibSimple:
		// density = blocks/slots after the fork (slots >= 1 by construction), compared exactly
		l := new(big.Int).Mul(new(big.Int).SetUint64(a.blocksAfter), new(big.Int).SetUint64(b.slotsAfter))
		r := new(big.Int).Mul(new(big.Int).SetUint64(b.blocksAfter), new(big.Int).SetUint64(a.slotsAfter))
		return l.Cmp(r), true
	case kindHarness:
		return cmpFloat(a.dens, b.dens), true
	case kindHarnessWindow:
		if cfg.window == 0 {
			return cmpFloat(a.dens, b.dens), true // no window configured: the tip's reported density
		}
		return cmpU(countInWindow(a.slots, cfg.fork.Slot, cfg.window), countInWindow(b.slots, cfg.fork.Slot, cfg.window)), true
	default:
		if cfg.window == 0 {
			return 0, false // legacy ratio of a windowed tip: not defined by the statement
		}
		return cmpU(countInWindow(a.slots, cfg.fork.Slot, cfg.window), countInWindow(b.slots, cfg.fork.Slot, cfg.window)), true
	}
}

func cmpFloat(a, b float64) int {
	switch {
	case a > b:
		return 1
	case a < b:
		return -1
	}
	return 0
}

func cmpU(a, b uint64) int {
	switch {
	case a > b:
		return 1
	case a < b:
		return -1
	}
	return 0
}

// refBasic: longer chain wins; ties go to the lower VRF output. Determined
// only where the statement determines it: equal-length non-empty outputs.
func refBasic(a, b *cand) (int, bool) {
	if a.isNil || b.isNil {
		return 0, false // the statement does not order absent tips
	}
	if a.block != b.block {
		return cmpU(a.block, b.block), true
	}
	if len(a.vrf) == 0 || len(b.vrf) == 0 || len(a.vrf) != len(b.vrf) {
		return 0, false
	}
	return -bytes.Compare(a.vrf, b.vrf), true
}

// refCompare is the statement's order for CompareWithDensity; useDensity=false
// gives the order for plain Compare.
func refCompare(cfg selCfg, a, b *cand, useDensity bool) (int, bool) {
	if useDensity && cfg.deep() {
		d, ok := refDensity(cfg, a, b)
		if !ok {
			return 0, false
		}
		if d != 0 {
			return d, true
		}
	}
	return refBasic(a, b)
}

// ---------------------------------------------------------------------------
// generators

func genK(rt *rapid.T) uint64 {
	switch rapid.IntRange(0, 9).Draw(rt, "kClass") {
	case 0:
		return 0
	case 1, 2, 3:
		return uint64(rapid.IntRange(1, 6).Draw(rt, "kSmall"))
	case 4, 5, 6:
		return 2160
	case 7:
		return math.MaxUint64
	case 8:
		return math.MaxUint64 - uint64(rapid.IntRange(1, 3).Draw(rt, "kNearMax"))
	default:
		return rapid.Uint64().Draw(rt, "kAny")
	}
}

func genCfg(rt *rapid.T) selCfg {
	cfg := selCfg{kind: rapid.IntRange(0, 8).Draw(rt, "kind")}
	if cfg.kind == 8 {
		cfg.kind = kindMixed
	} else {
		cfg.kind %= 4
	}
	cfg.k = genK(rt)
	// fork block and current tip: depth around k
	switch rapid.IntRange(0, 3).Draw(rt, "forkBlkClass") {
	case 0:
		cfg.fork.BlockNumber = uint64(rapid.IntRange(0, 50).Draw(rt, "forkBlk"))
	case 1:
		cfg.fork.BlockNumber = rapid.Uint64Range(0, 1<<40).Draw(rt, "forkBlk")
	case 2:
		cfg.fork.BlockNumber = math.MaxUint64 - uint64(rapid.IntRange(0, 20).Draw(rt, "forkBlkNearMax"))
	default:
		cfg.fork.BlockNumber = rapid.Uint64().Draw(rt, "forkBlk")
	}
	switch rapid.IntRange(0, 9).Draw(rt, "depthClass") {
	case 0: // fork ahead of / at the tip
		cfg.tipBlock = cfg.fork.BlockNumber - min(cfg.fork.BlockNumber, uint64(rapid.IntRange(0, 5).Draw(rt, "ahead")))
	case 1, 2, 3: // k-1, k, k+1, k+2 where representable
		d := int64(rapid.IntRange(-1, 2).Draw(rt, "depthDelta"))
		depth := cfg.k
		if d < 0 && depth > 0 {
			depth--
		} else if d > 0 {
			if depth+uint64(d) < depth {
				depth = math.MaxUint64
			} else {
				depth += uint64(d)
			}
		}
		if cfg.fork.BlockNumber+depth < depth { // would wrap: clamp
			cfg.tipBlock = math.MaxUint64
		} else {
			cfg.tipBlock = cfg.fork.BlockNumber + depth
		}
	case 4, 5, 6, 7, 8: // certainly deep when k is small
		extra := rapid.Uint64Range(1, 1<<30).Draw(rt, "deepExtra")
		cfg.tipBlock = cfg.fork.BlockNumber + extra
		if cfg.tipBlock < extra {
			cfg.tipBlock = math.MaxUint64
		}
	default:
		cfg.tipBlock = rapid.Uint64().Draw(rt, "tipBlk")
	}
	// fork slot and window
	switch rapid.IntRange(0, 3).Draw(rt, "forkSlotClass") {
	case 0:
		cfg.fork.Slot = uint64(rapid.IntRange(0, 100).Draw(rt, "forkSlot"))
	case 1:
		cfg.fork.Slot = rapid.Uint64Range(0, 1<<40).Draw(rt, "forkSlot")
	case 2:
		cfg.fork.Slot = math.MaxUint64 - uint64(rapid.IntRange(0, 40).Draw(rt, "forkSlotNearMax"))
	default:
		cfg.fork.Slot = rapid.Uint64().Draw(rt, "forkSlot")
	}
	switch rapid.IntRange(0, 5).Draw(rt, "windowClass") {
	case 0:
		cfg.window = 0
	case 1:
		cfg.window = uint64(rapid.IntRange(1, 30).Draw(rt, "winSmall"))
	case 2:
		cfg.window = 129600
	case 3:
		cfg.window = math.MaxUint64
	default:
		cfg.window = uint64(rapid.IntRange(1, 30).Draw(rt, "winSmall2"))
	}
	cfg.vrfMode = []string{"fixed_len", "fixed_len", "fixed_len", "with_empty", "mixed_len"}[rapid.IntRange(0, 4).Draw(rt, "vrfMode")]
	return cfg
}

func genSet(rt *rapid.T, cfg selCfg, maxN int) []*cand {
	n := rapid.IntRange(2, maxN).Draw(rt, "n")
	// heights: a base plus small offsets so that ties are frequent
	var base uint64
	switch rapid.IntRange(0, 2).Draw(rt, "blkBase") {
	case 0:
		base = uint64(rapid.IntRange(0, 10).Draw(rt, "blkSmall"))
	case 1:
		base = rapid.Uint64().Draw(rt, "blkAny")
	default:
		base = math.MaxUint64 - uint64(rapid.IntRange(0, 3).Draw(rt, "blkNearMax"))
	}
	spread := rapid.IntRange(0, 2).Draw(rt, "blkSpread")
	vlen := []int{1, 1, 2, 32, 64}[rapid.IntRange(0, 4).Draw(rt, "vrfLen")]
	alphabet := rapid.IntRange(1, 4).Draw(rt, "vrfAlphabet") // few distinct values => VRF ties
	// slots of interest for window membership
	F, W := cfg.fork.Slot, cfg.window
	pool := []uint64{F - 1, F, F + 1, F + 2, F + W - 1, F + W, F + W + 1, F + W/2, 0, 1, math.MaxUint64, math.MaxUint64 - 1}
	cs := make([]*cand, n)
	for i := range cs {
		c := &cand{kind: cfg.kind}
		if cfg.kind == kindMixed {
			c.kind = rapid.IntRange(0, 3).Draw(rt, "candKind")
		}
		c.block = base + uint64(rapid.IntRange(0, spread).Draw(rt, "blkOff"))
		if c.block < base {
			c.block = math.MaxUint64
		}
		c.slot = rapid.Uint64().Draw(rt, "slot")
		// VRF output
		mk := func(l int) []byte {
			v := make([]byte, l)
			sym := byte(rapid.IntRange(0, alphabet-1).Draw(rt, "vrfSym"))
			if l > 1 && rapid.Bool().Draw(rt, "vrfHighByte") {
				v[0] = sym // decides early
			} else {
				v[l-1] = sym // leading zero bytes, decides in the last byte
			}
			if l >= 32 && rapid.IntRange(0, 2).Draw(rt, "vrfRandom") == 0 {
				copy(v, rapid.SliceOfN(rapid.Byte(), l, l).Draw(rt, "vrfBytes"))
			}
			return v
		}
		switch cfg.vrfMode {
		case "with_empty":
			switch rapid.IntRange(0, 3).Draw(rt, "vrfEmpty") {
			case 0:
				c.vrf = nil
			case 1:
				c.vrf = []byte{}
			default:
				c.vrf = mk(vlen)
			}
		case "mixed_len":
			c.vrf = mk([]int{1, 2, 3, 32, 64}[rapid.IntRange(0, 4).Draw(rt, "vrfLenI")])
		default:
			c.vrf = mk(vlen)
		}
		// density information
		switch c.kind {
		case kindLibSimple:
			c.slotsAfter = uint64(rapid.IntRange(1, 1<<20).Draw(rt, "slotsAfter"))
			if rapid.Bool().Draw(rt, "smallDens") {
				c.slotsAfter = uint64(rapid.IntRange(1, 6).Draw(rt, "slotsAfterSmall"))
			}
			c.blocksAfter = uint64(rapid.IntRange(0, int(c.slotsAfter)).Draw(rt, "blocksAfter"))
			c.tip = lc.NewSimpleChainTipWithDensity(c.slot, c.block, c.vrf, c.blocksAfter, c.slotsAfter)
		case kindHarness, kindHarnessWindow:
			vals := []float64{0, 0.05, 0.05, 0.5, 1, math.SmallestNonzeroFloat64, math.MaxFloat64, -1, 0.1 + 0.2, 0.3}
			c.dens = vals[rapid.IntRange(0, len(vals)-1).Draw(rt, "dens")]
			if rapid.IntRange(0, 3).Draw(rt, "densRandom") == 0 {
				c.dens = rapid.Float64Range(0, 1).Draw(rt, "densF")
			}
			if c.kind == kindHarness {
				c.tip = &hTip{c.slot, c.block, c.vrf, c.dens}
				break
			}
			fallthrough
		default:
			m := rapid.IntRange(0, 10).Draw(rt, "nSlots")
			c.slots = make([]uint64, m)
			for j := range c.slots {
				if rapid.IntRange(0, 4).Draw(rt, "slotRandom") == 0 {
					c.slots[j] = rapid.Uint64().Draw(rt, "slotAny")
				} else {
					c.slots[j] = pool[rapid.IntRange(0, len(pool)-1).Draw(rt, "slotPool")] + uint64(rapid.IntRange(0, 1).Draw(rt, "slotJitter"))
				}
			}
			if c.kind == kindHarnessWindow {
				c.tip = &hWinTip{hTip{c.slot, c.block, c.vrf, c.dens}, c.slots}
			} else {
				c.tip = lc.NewWindowedChainTip(c.slot, c.block, c.vrf, append([]uint64(nil), c.slots...))
			}
		}
		c.vrfSnap = append([]byte(nil), c.vrf...)
		c.slotsSnap = append([]uint64(nil), c.slots...)
		cs[i] = c
	}
	// occasionally the same tip twice
	if n >= 3 && rapid.IntRange(0, 5).Draw(rt, "dup") == 0 {
		cs[n-1] = cs[0]
	}
	// occasionally an absent (nil) tip among the candidates: Compare documents nil as least preferred
	if n >= 3 && rapid.IntRange(0, 7).Draw(rt, "nilCand") == 0 {
		cs[rapid.IntRange(0, n-1).Draw(rt, "nilPos")] = &cand{isNil: true, kind: cfg.kind}
	}
	return cs
}

// genAltCfg derives a second (fork point, current tip) for the same selector and the same
// tips: another fork slot from the window edges and a tip height that usually flips the
// deep/shallow routing.
func genAltCfg(rt *rapid.T, cfg selCfg) selCfg {
	alt := cfg
	switch rapid.IntRange(0, 3).Draw(rt, "altForkSlot") {
	case 0:
		alt.fork.Slot = cfg.fork.Slot + uint64(rapid.IntRange(1, 3).Draw(rt, "altSlotUp"))
	case 1:
		alt.fork.Slot = cfg.fork.Slot - uint64(rapid.IntRange(1, 3).Draw(rt, "altSlotDown"))
	case 2:
		alt.fork.Slot = cfg.fork.Slot + cfg.window
	default:
		alt.fork.Slot = rapid.Uint64().Draw(rt, "altSlotAny")
	}
	switch rapid.IntRange(0, 2).Draw(rt, "altDepth") {
	case 0: // flip the routing where possible
		if cfg.deep() {
			alt.tipBlock = alt.fork.BlockNumber
		} else if alt.fork.BlockNumber+cfg.k+1 > cfg.k { // no wrap
			alt.tipBlock = alt.fork.BlockNumber + cfg.k + 1
		}
	case 1:
		alt.fork.BlockNumber = rapid.Uint64().Draw(rt, "altForkBlk")
	}
	return alt
}

// permutations calls f with every permutation of idx (Heap's algorithm).
func permutations(n int, f func(p []int) bool) {
	p := make([]int, n)
	for i := range p {
		p[i] = i
	}
	c := make([]int, n)
	if !f(p) {
		return
	}
	for i := 0; i < n; {
		if c[i] < i {
			if i%2 == 0 {
				p[0], p[i] = p[i], p[0]
			} else {
				p[c[i]], p[i] = p[i], p[c[i]]
			}
			if !f(p) {
				return
			}
			c[i]++
			i = 0
		} else {
			c[i] = 0
			i++
		}
	}
}

// ---------------------------------------------------------------------------

type orderCheck struct {
	name string
	cmp  func(i, j int) int                   // library comparison of candidates i, j
	ref  func(i, j int) (int, bool)           // statement's order
	pref func(order []int) (idx int, ok bool) // library selection over a permutation: index of the returned candidate
	tie  func(i, j int) bool                  // candidates tied on the primary criterion (block number); may be nil
}

// orderOpts selects the laws to check. Antisymmetry and agreement with the
// reference are always checked.
type orderOpts struct {
	consistency bool // transitivity on all triples + maximality over all permutations
}

// lazyCase builds the case description only when a failure is reported.
type lazyCase func() map[string]any

// rep41 reports a failure: rec.Fail inside rapid, rec.Violation in sweeps.
type rep41 func(key, what string, cs any) bool

func TestC41(t *testing.T) {
	rec := evi.New(t, "C41", evi.Exploration,
		"sets of 2..6 candidate tips of one kind (library SimpleChainTip with blocks/slots density, library WindowedChainTip with per-block slot lists, harness ChainTip with arbitrary finite float density, harness WindowBlockCounter tip), optionally with a nil candidate, or of mixed kinds, plus GenesisSelector fragment sets; block numbers clustered so that ties are frequent (also near 2^64), VRF outputs of one length from a 1..4-symbol alphabet (ties), optionally empty or of mixed lengths; k, fork point, current tip and window chosen around the deep-fork boundary (depth k-1,k,k+1,k+2, fork ahead of tip, values near 2^64) and window edges (fork, fork+1, fork+window, fork+window+1, wrap-around). For each set: antisymmetry on all ordered pairs, transitivity on all ordered triples, agreement with the reference order where the statement determines it, and for ALL permutations that Preferred/PreferredWithDensity returns a member no candidate beats; every comparison matrix is computed again after the selection calls and after the same selector and tips were used with a second fork point / current tip (history independence), and candidate slices, tips, VRF bytes and slot lists must be unchanged. Plus an exhaustive sweep of all multisets of 3 candidates (and sets of 5 with two equal maxima) over a 32-type universe (2 heights x window counts 0/1/window-size/just-outside x VRF absent/00../00..01/ff..) for a shallow and a deep fork. Non-trivial = at least 3 candidates and some pair tied on block number or (deep fork) ordered by density against length; distinct by the full set and configuration")
	defer rec.Finish()
	rec.Assume(
		"domain: finite, non-NaN densities; typed-nil candidates are outside the generated domain. Sets whose tips have different Go types are generated, but for a deep fork only antisymmetry, agreement on same-kind pairs, membership of the selected candidate and argument immutability are required of them (the documented per-pair fallback to the legacy ratio is not a transitive relation: see findings/C41.md)",
		"the statement fixes the VRF tie-break only for non-empty outputs of equal length; empty and mixed-length outputs and nil candidates are checked for order consistency (antisymmetry, transitivity, maximality) only",
		"for a library WindowedChainTip under a selector without a window the legacy density ratio is not defined by the statement: consistency only",
		"SimpleChainTip densities are generated with 0 <= blocks <= slots <= 2^20, slots >= 1, so that the float64 ratio orders exactly like the rational",
	)
	maxN := 6

	t0 := time.Now()
	sweepC41(rec)
	rec.SetExtra("sweep_wall_s", math.Round(time.Since(t0).Seconds()*100)/100)

	rec.Check(func(rt *rapid.T) {
		rep := func(key, what string, cs any) bool { return rec.Fail(rt, key, what, cs) }
		if rapid.IntRange(0, 5).Draw(rt, "family") == 0 {
			checkGenesisFragments(rt, rec, rep)
			return
		}
		cfg := genCfg(rt)
		cs := genSet(rt, cfg, maxN)
		alt := genAltCfg(rt, cfg)
		var sel *lc.PraosChainSelector
		if cfg.window == 0 && rapid.Bool().Draw(rt, "plainCtor") {
			sel = lc.NewPraosChainSelector(cfg.k)
		} else {
			sel = lc.NewPraosChainSelectorWithWindow(cfg.k, cfg.window)
		}
		nontrivial := checkTipSet(rep, rec, sel, cfg, &alt, cs)
		n := len(cs)
		// classes
		rec.Class("kind:" + kindName[cfg.kind])
		rec.Class(fmt.Sprintf("n=%d", n))
		rec.Class("vrf:" + cfg.vrfMode)
		if cfg.deep() {
			rec.Class("deep_fork")
		} else {
			rec.Class("shallow_fork")
		}
		if cfg.deep() != alt.deep() {
			rec.Class("alt_config_flips_routing")
		}
		if cfg.tipBlock > cfg.fork.BlockNumber {
			switch d := cfg.tipBlock - cfg.fork.BlockNumber; {
			case d == cfg.k:
				rec.Class("depth==k")
			case cfg.k < math.MaxUint64 && d == cfg.k+1:
				rec.Class("depth==k+1")
			}
		} else {
			rec.Class("fork_at_or_ahead_of_tip")
		}
		if cfg.window == 0 {
			rec.Class("no_window")
		}
		for _, c := range cs {
			if c.isNil {
				rec.Class("set_with_nil_candidate")
				break
			}
		}
		if n >= 3 && nontrivial {
			setDesc := descSet(cfg, cs)
			rec.NonTrivial(setDesc, map[string]any{"set": setDesc})
		}
	})
}

// checkTipSet runs every C41 oracle on one candidate set under one selector:
// the order laws and the reference for Compare and CompareWithDensity under cfg,
// then (alt != nil) the same selector and tips under a second fork point / tip
// height, then cfg again, requiring identical answers; finally the caller's
// data (candidate slices, tips, VRF bytes, slot lists) must be unchanged.
func checkTipSet(rep rep41, rec *evi.Recorder, sel *lc.PraosChainSelector, cfg selCfg, alt *selCfg, cs []*cand) (nontrivial bool) {
	n := len(cs)
	caseObj := lazyCase(func() map[string]any { return map[string]any{"set": descSet(cfg, cs)} })
	kn := kindName[cfg.kind]

	tips := make([]lc.ChainTip, n)
	for i, c := range cs {
		if !c.isNil {
			tips[i] = c.tip
		}
	}
	indexOf := func(tp lc.ChainTip) (int, bool) {
		for i := range tips {
			if tips[i] == tp {
				return i, true
			}
		}
		return -1, false
	}
	// selection over a permutation; the slice handed in must come back untouched
	selectOver := func(order []int, call func(in []lc.ChainTip) lc.ChainTip, what string) (int, bool) {
		in := make([]lc.ChainTip, len(order))
		for x, o := range order {
			in[x] = tips[o]
		}
		got := call(in)
		for x, o := range order {
			if len(in) != len(order) || in[x] != tips[o] {
				rep("argument-mutated:candidates:"+what, fmt.Sprintf("%s changed the caller's candidate slice (position %d of permutation %v)", what, x, order), caseObj())
				break
			}
		}
		return indexOf(got)
	}
	mkChecks := func(c selCfg) []orderCheck {
		return []orderCheck{
			{
				name: "Compare",
				cmp:  func(i, j int) int { return sel.Compare(tips[i], tips[j]) },
				ref:  func(i, j int) (int, bool) { return refCompare(c, cs[i], cs[j], false) },
				pref: func(order []int) (int, bool) {
					return selectOver(order, func(in []lc.ChainTip) lc.ChainTip { return sel.Preferred(in) }, "Preferred")
				},
			},
			{
				name: "CompareWithDensity",
				cmp:  func(i, j int) int { return sel.CompareWithDensity(tips[i], tips[j], c.fork, c.tipBlock) },
				ref:  func(i, j int) (int, bool) { return refCompare(c, cs[i], cs[j], true) },
				pref: func(order []int) (int, bool) {
					return selectOver(order, func(in []lc.ChainTip) lc.ChainTip { return sel.PreferredWithDensity(in, c.fork, c.tipBlock) }, "PreferredWithDensity")
				},
			},
		}
	}
	optsFor := func(c selCfg, withDensity bool) orderOpts {
		// candidates of different kinds on a deep fork: the per-pair metric fallback is not transitive by design
		return orderOpts{consistency: !(cfg.kind == kindMixed && withDensity && c.deep())}
	}
	deepCheck := func(c selCfg) {
		if got := sel.IsDeepFork(c.fork, c.tipBlock); got != c.deep() {
			rep("IsDeepFork", fmt.Sprintf("IsDeepFork(fork blk %d, tip blk %d) with k=%d = %v, statement: deeper than k blocks = %v", c.fork.BlockNumber, c.tipBlock, c.k, got, c.deep()), caseObj())
		}
		rec.Eval()
	}

	deepCheck(cfg)
	checks := mkChecks(cfg)
	first := make([][][]int, len(checks))
	for ci := range checks {
		checks[ci].tie = func(i, j int) bool {
			return !cs[i].isNil && !cs[j].isNil && cs[i].block == cs[j].block && cs[i] != cs[j]
		}
		st, m := runOrderChecks(rep, rec, checks[ci], n, fmt.Sprintf("%s:%s", checks[ci].name, kn), caseObj, optsFor(cfg, ci == 1))
		first[ci] = m
		if st.tieOnPrimary {
			nontrivial = true
		}
	}
	// an empty candidate list between the calls must not disturb anything
	_ = sel.Preferred(nil)
	_ = sel.PreferredWithDensity([]lc.ChainTip{}, cfg.fork, cfg.tipBlock)

	// the same selector and tips under a second fork point / current tip
	if alt != nil {
		altObj := lazyCase(func() map[string]any {
			return map[string]any{"set": descSet(*alt, cs), "first_config": descSet(cfg, cs)}
		})
		deepCheck(*alt)
		ac := mkChecks(*alt)[1]
		runOrderChecksLight(rep, rec, ac, n, "alt-config:CompareWithDensity:"+kn, altObj, optsFor(*alt, true))
		rec.Class("alt_config_checked")
	}
	// ... and the first configuration again: answers are a function of the arguments only
	for ci := range checks {
		for i := 0; i < n; i++ {
			for j := 0; j < n; j++ {
				if again := sgn(checks[ci].cmp(i, j)); again != first[ci][i][j] {
					rep("history:"+checks[ci].name+":"+kn, fmt.Sprintf("%s(c%d,c%d) was %d, and %d when asked again after selection calls and calls with another fork point", checks[ci].name, i, j, first[ci][i][j], again), caseObj())
				}
				rec.Eval()
			}
		}
	}
	// the caller's data is unchanged
	for i, c := range cs {
		if c.isNil {
			continue
		}
		if !bytes.Equal(c.vrf, c.vrfSnap) || !bytes.Equal(c.tip.VRFOutput(), c.vrfSnap) || c.tip.BlockNumber() != c.block || c.tip.Slot() != c.slot {
			rep("argument-mutated:tip", fmt.Sprintf("candidate c%d changed during comparison/selection", i), caseObj())
		}
		for x := range c.slotsSnap {
			if len(c.slots) != len(c.slotsSnap) || c.slots[x] != c.slotsSnap[x] {
				rep("argument-mutated:tip-slots", fmt.Sprintf("slot list of candidate c%d changed", i), caseObj())
				break
			}
		}
		if w, ok := c.tip.(lc.WindowBlockCounter); ok && w.BlocksInWindow(cfg.fork.Slot, cfg.window) != func() uint64 {
			if cfg.window == 0 {
				return 0
			}
			return countInWindow(c.slotsSnap, cfg.fork.Slot, cfg.window)
		}() {
			rep("BlocksInWindow:"+kindName[c.kind], fmt.Sprintf("BlocksInWindow of candidate c%d disagrees with the interface contract after the calls", i), caseObj())
		}
	}
	// density decides against length in some pair?
	if cfg.deep() {
		for i := 0; i < n && !nontrivial; i++ {
			for j := 0; j < n; j++ {
				if d, ok := refDensity(cfg, cs[i], cs[j]); ok && d > 0 && cs[i].block < cs[j].block {
					rec.Class("pair_denser_but_shorter")
					nontrivial = true
					break
				}
			}
		}
	}
	return nontrivial
}

type orderStats struct {
	tieOnPrimary bool
}

// matrixOf evaluates the comparison on all ordered pairs.
func matrixOf(rec *evi.Recorder, oc orderCheck, n int) [][]int {
	m := make([][]int, n)
	for i := range m {
		m[i] = make([]int, n)
		for j := range m[i] {
			m[i][j] = sgn(oc.cmp(i, j))
			rec.Eval()
		}
	}
	return m
}

func withPair(caseObj lazyCase, i, j int) map[string]any {
	o := map[string]any{"i": i, "j": j}
	for k, v := range caseObj() {
		o[k] = v
	}
	return o
}

// pairLaws: antisymmetry (includes cmp(a,a) == 0) and agreement with the statement's order.
func pairLaws(rep rep41, rec *evi.Recorder, oc orderCheck, m [][]int, keyBase string, caseObj lazyCase) {
	n := len(m)
	for i := 0; i < n; i++ {
		for j := 0; j < n; j++ {
			if m[i][j] != -m[j][i] {
				rep("antisymmetry:"+keyBase, fmt.Sprintf("%s(c%d,c%d)=%d but %s(c%d,c%d)=%d", oc.name, i, j, m[i][j], oc.name, j, i, m[j][i]), withPair(caseObj, i, j))
			}
			want, ok := oc.ref(i, j)
			if !ok {
				rec.Class("pair_not_determined_by_statement")
				continue
			}
			rec.Class("pair_determined")
			if want == 0 {
				rec.Class("pair_reference_tie")
			}
			if m[i][j] != sgn(want) {
				rep("reference:"+keyBase, fmt.Sprintf("%s(c%d,c%d)=%d, the statement's order gives %d", oc.name, i, j, m[i][j], sgn(want)), withPair(caseObj, i, j))
			}
		}
	}
}

// selectionLaw: the candidate selected from the given arrival order is a member that nobody beats.
func selectionLaw(rep rep41, rec *evi.Recorder, oc orderCheck, m [][]int, p []int, keyBase string, caseObj lazyCase, maximal bool) (int, bool) {
	idx, ok := oc.pref(p)
	rec.Eval()
	if !ok {
		rep("preferred-not-a-candidate:"+keyBase, fmt.Sprintf("selection over permutation %v returned a value that is not one of the candidates", p), caseObj())
		return -1, false
	}
	if !maximal {
		return idx, true
	}
	for c := range m {
		if m[c][idx] > 0 {
			o := withPair(caseObj, c, idx)
			o["permutation"] = fmt.Sprint(p)
			rep("preferred-not-maximal:"+keyBase, fmt.Sprintf("selection over permutation %v returned c%d, but %s(c%d,c%d) > 0", p, idx, oc.name, c, idx), o)
			return idx, false
		}
		if want, ok := oc.ref(c, idx); ok && want > 0 {
			o := withPair(caseObj, c, idx)
			o["permutation"] = fmt.Sprint(p)
			rep("preferred-beaten-in-reference:"+keyBase, fmt.Sprintf("selection over permutation %v returned c%d, but the statement prefers c%d", p, idx, c), o)
			return idx, false
		}
	}
	return idx, true
}

// runOrderChecksLight: pair laws plus the selection law for the given and the reversed order only.
func runOrderChecksLight(rep rep41, rec *evi.Recorder, oc orderCheck, n int, keyBase string, caseObj lazyCase, opts orderOpts) {
	m := matrixOf(rec, oc, n)
	pairLaws(rep, rec, oc, m, keyBase, caseObj)
	fwd, rev := make([]int, n), make([]int, n)
	for i := range fwd {
		fwd[i], rev[i] = i, n-1-i
	}
	selectionLaw(rep, rec, oc, m, fwd, keyBase, caseObj, opts.consistency)
	selectionLaw(rep, rec, oc, m, rev, keyBase, caseObj, opts.consistency)
}

// runOrderChecks checks one comparison function over one candidate set.
func runOrderChecks(rep rep41, rec *evi.Recorder, oc orderCheck, n int, keyBase string, caseObj lazyCase, opts orderOpts) (st orderStats, m [][]int) {
	m = matrixOf(rec, oc, n)
	pairLaws(rep, rec, oc, m, keyBase, caseObj)
	// transitivity of the weak order on all ordered triples
	if opts.consistency {
		for a := 0; a < n; a++ {
			for b := 0; b < n; b++ {
				for c := 0; c < n; c++ {
					if m[a][b] >= 0 && m[b][c] >= 0 {
						bad := m[a][c] < 0 || ((m[a][b] > 0 || m[b][c] > 0) && m[a][c] <= 0)
						if bad {
							o := withPair(caseObj, a, b)
							o["k"] = c
							rep("transitivity:"+keyBase, fmt.Sprintf("%s: c%d>=c%d (%d), c%d>=c%d (%d) but cmp(c%d,c%d)=%d", oc.name, a, b, m[a][b], b, c, m[b][c], a, c, m[a][c]), o)
						}
					}
					rec.Eval()
				}
			}
		}
	} else {
		rec.Class("mixed_kinds_deep:consistency_laws_not_required")
	}
	// the selected candidate for every permutation: a member, and (consistency) maximal
	nperm := 0
	distinctWinners := map[int]bool{}
	nMax := 0
	for i := 0; i < n; i++ {
		isMax := true
		for j := 0; j < n; j++ {
			if m[j][i] > 0 {
				isMax = false
			}
		}
		if isMax {
			nMax++
		}
	}
	permutations(n, func(p []int) bool {
		nperm++
		idx, ok := selectionLaw(rep, rec, oc, m, p, keyBase, caseObj, opts.consistency)
		if idx >= 0 {
			distinctWinners[idx] = true
		}
		return ok
	})
	rec.ClassN("permutations_checked", nperm)
	if len(distinctWinners) > 1 {
		rec.Class("several_maximal_elements_selected_across_permutations")
	}
	if opts.consistency && n >= 3 && nMax >= 2 {
		rec.Class("set_with_two_or_more_equal_maxima")
	}
	for i := 0; i < n; i++ {
		for j := i + 1; j < n; j++ {
			if m[i][j] == 0 {
				rec.Class("pair_equivalent")
			}
			if oc.tie != nil && oc.tie(i, j) {
				st.tieOnPrimary = true
			}
		}
	}
	return st, m
}

// sweepC41 enumerates a small universe exhaustively: every multiset of three candidate
// types, and sets of five with two equal maxima, for a shallow and a deep fork, all
// arrival orders. Types: height 5|6 x window count 0 | 1 | window size | 0 with blocks
// just outside both window edges x VRF absent | 00..00 | 00..01 | ff..ff.
func sweepC41(rec *evi.Recorder) {
	rep := func(key, what string, cs any) bool { return rec.Violation("sweep:"+key, what, cs) }
	const F, W, K = 100, 3, 2
	slotVariants := [][]uint64{{}, {F + 1}, {F + 1, F + 2, F + 3}, {F, F + 4}}
	vrfs := [][]byte{nil, make([]byte, 64), append(make([]byte, 63), 1), bytes.Repeat([]byte{0xff}, 64)}
	type typ struct {
		block uint64
		sv    int
		vrf   int
	}
	var types []typ
	for b := uint64(5); b <= 6; b++ {
		for sv := range slotVariants {
			for v := range vrfs {
				types = append(types, typ{b, sv, v})
			}
		}
	}
	serial := uint64(0)
	mk := func(t typ) *cand {
		serial++
		c := &cand{kind: kindLibWindow, block: t.block, slot: 1000 + serial, vrf: append([]byte(nil), vrfs[t.vrf]...), slots: append([]uint64(nil), slotVariants[t.sv]...)}
		if vrfs[t.vrf] == nil {
			c.vrf = nil
		}
		c.vrfSnap = append([]byte(nil), c.vrf...)
		c.slotsSnap = append([]uint64(nil), c.slots...)
		c.tip = lc.NewWindowedChainTip(c.slot, c.block, c.vrf, append([]uint64(nil), c.slots...))
		return c
	}
	nSets := 0
	for _, tipBlock := range []uint64{10 + K, 10 + K + 1} { // depth k (shallow) and k+1 (deep)
		cfg := selCfg{kind: kindLibWindow, k: K, window: W, fork: lc.ForkPoint{Slot: F, BlockNumber: 10}, tipBlock: tipBlock, vrfMode: "sweep"}
		sel := lc.NewPraosChainSelectorWithWindow(K, W) // one long-lived selector per configuration
		for a := 0; a < len(types); a++ {
			for b := a; b < len(types); b++ {
				for c := b; c < len(types); c++ {
					checkTipSet(rep, rec, sel, cfg, nil, []*cand{mk(types[a]), mk(types[b]), mk(types[c])})
					nSets++
				}
			}
			// two distinct tips with the keys of type a (equal maxima or equal non-maxima) among three others
			others := []typ{{4, 2, 1}, types[(a+7)%len(types)], types[(a+13)%len(types)]}
			set := []*cand{mk(others[0]), mk(types[a]), mk(others[1]), mk(types[a]), mk(others[2])}
			checkTipSet(rep, rec, sel, cfg, nil, set)
			nSets++
		}
	}
	rec.SetExtra("n_sweep_sets", nSets)
	rec.SetExtra("sweep_universe", fmt.Sprintf("%d candidate types, all multisets of 3 and %d sets of 5, fork depth k and k+1, window %d", len(types), 2*len(types), W))
}

// ---------------------------------------------------------------------------
// GenesisSelector (consensus/genesis): fragments ordered by blocks in the
// genesis window first

type hFragment struct {
	inter  uint64
	slots  []uint64 // block slots, ascending not required
	blocks uint64   // total length reported
}

func (f *hFragment) IntersectionSlot() uint64 { return f.inter }
func (f *hFragment) TipSlot() uint64 {
	var m uint64
	for _, s := range f.slots {
		m = max(m, s)
	}
	return m
}
func (f *hFragment) BlockCount() uint64 { return f.blocks }
func (f *hFragment) BlockCountInWindow(w uint64) uint64 {
	return countInWindow(f.slots, f.inter, w)
}

func checkGenesisFragments(rt *rapid.T, rec *evi.Recorder, rep rep41) {
	k := uint64(rapid.IntRange(0, 3000).Draw(rt, "k"))
	window := uint64(rapid.IntRange(0, 40).Draw(rt, "window"))
	useF := rapid.Bool().Draw(rt, "windowFromF")
	gcfg := genesis.GenesisConfig{SecurityParam: k, GenesisWindow: window}
	if useF {
		fden := int64(rapid.IntRange(1, 40).Draw(rt, "fden"))
		fnum := int64(rapid.IntRange(1, int(fden)).Draw(rt, "fnum"))
		gcfg = genesis.GenesisConfig{SecurityParam: k, ActiveSlotCoeff: big.NewRat(fnum, fden)}
		// window = ceil(3k/f) (documented); computed exactly here
		n := new(big.Int).Mul(big.NewInt(3*int64(k)), big.NewInt(fden))
		q, r := new(big.Int).QuoRem(n, big.NewInt(fnum), new(big.Int))
		if r.Sign() != 0 {
			q.Add(q, bigOne)
		}
		window = q.Uint64()
	}
	gs := genesis.NewGenesisSelector(gcfg)
	libFrag := rapid.Bool().Draw(rt, "libFragment")
	n := rapid.IntRange(2, 6).Draw(rt, "n")
	frs := make([]genesis.ChainFragment, n)
	descs := make([]string, n)
	inter := uint64(rapid.IntRange(0, 50).Draw(rt, "inter"))
	for i := range frs {
		if libFrag {
			f := &genesis.SimpleChainFragment{Intersection: inter, Tip: inter + uint64(rapid.IntRange(0, 60).Draw(rt, "span")), Blocks: uint64(rapid.IntRange(0, 30).Draw(rt, "blocks"))}
			frs[i] = f
			descs[i] = fmt.Sprintf("{lib inter=%d tip=%d blocks=%d}", f.Intersection, f.Tip, f.Blocks)
		} else {
			m := rapid.IntRange(0, 8).Draw(rt, "nSlots")
			f := &hFragment{inter: inter, slots: make([]uint64, m)}
			for j := range f.slots {
				f.slots[j] = inter + uint64(rapid.IntRange(0, 50).Draw(rt, "off"))
			}
			f.blocks = uint64(m) + uint64(rapid.IntRange(0, 2).Draw(rt, "extraBlocks"))
			if rapid.Bool().Draw(rt, "longTail") { // many blocks beyond the slots listed (e.g. far past the window)
				f.blocks += uint64(rapid.IntRange(0, 30).Draw(rt, "tailBlocks"))
			}
			frs[i] = f
			descs[i] = fmt.Sprintf("{h inter=%d slots=%v blocks=%d}", f.inter, f.slots, f.blocks)
		}
	}
	setDesc := fmt.Sprintf("genesis k=%d window=%d fromF=%v: %s", k, window, useF, strings.Join(descs, " "))
	caseObj := map[string]any{"set": setDesc}
	if gs.DefaultSyncThreshold() != window {
		// window derivation 3k/f (ceiling) is documented; a mismatch makes the density window wrong
		rep("genesis:window", fmt.Sprintf("selector window %d, expected %d", gs.DefaultSyncThreshold(), window), caseObj)
	}
	oc := orderCheck{
		name: "GenesisSelector.Compare",
		cmp:  func(i, j int) int { return gs.Compare(frs[i], frs[j]) },
		ref: func(i, j int) (int, bool) {
			// decided by window density first; the statement says nothing beyond that
			a, b := frs[i].BlockCountInWindow(window), frs[j].BlockCountInWindow(window)
			if a != b {
				return cmpU(a, b), true
			}
			return 0, false
		},
		pref: func(order []int) (int, bool) {
			in := make([]genesis.ChainFragment, len(order))
			for x, o := range order {
				in[x] = frs[o]
			}
			got := gs.Preferred(in)
			for x, o := range order {
				if in[x] != frs[o] {
					rep("argument-mutated:candidates:GenesisSelector.Preferred", fmt.Sprintf("Preferred changed the caller's slice (position %d of %v)", x, order), caseObj)
					break
				}
			}
			for i := range frs {
				if frs[i] == got {
					return i, true
				}
			}
			return -1, false
		},
	}
	_, first := runOrderChecks(rep, rec, oc, n, "genesis-fragments", func() map[string]any { return caseObj }, orderOpts{consistency: true})
	_ = gs.Preferred(nil)
	for i := 0; i < n; i++ {
		for j := 0; j < n; j++ {
			if again := sgn(oc.cmp(i, j)); again != first[i][j] {
				rep("history:GenesisSelector.Compare", fmt.Sprintf("Compare(c%d,c%d) was %d, then %d after the selection calls", i, j, first[i][j], again), caseObj)
			}
		}
	}
	rec.Class("kind:genesis_fragments")
	if libFrag {
		rec.Class("genesis:lib_fragment")
	} else {
		rec.Class("genesis:harness_fragment")
	}
	if n >= 3 {
		rec.NonTrivial(setDesc, map[string]any{"set": setDesc})
	}
}
