// Package reqresp holds the checks for the tx-submission acknowledgement window
// (C24) and for request/response pairing of the local-state-query,
// local-tx-monitor, local-tx-submission and peer-sharing clients (C25).
//
// Real ouroboros.Connection objects talk to each other (or to a scripted raw
// peer written in the harness: independent segment framing + independent CBOR)
// over the in-memory rawpeer.Pipe.
package reqresp

import (
	"flag"
	"fmt"
	"runtime"
	"strings"
	"sync"
	"sync/atomic"
	"time"

	ouroboros "github.com/blinklabs-io/gouroboros"
	"pgregory.net/rapid"

	"verif/harness/internal/rawpeer"
	"verif/harness/internal/xcbor"
)

const testMagic = 764824073

// Mini-protocol numbers (verified against the ProtocolId constants of
// protocol/{txsubmission,localstatequery,localtxmonitor,localtxsubmission,peersharing}).
const (
	protoTxSubmission      uint16 = 4
	protoLocalTxSubmission uint16 = 6
	protoLocalStateQuery   uint16 = 7
	protoLocalTxMonitor    uint16 = 9
	protoPeerSharing       uint16 = 10
)

// generous explicit waits (bounded liveness; ≥ 20× the expected latency of an
// in-memory round trip, which is well below 10 ms even on a loaded machine)
const (
	setupWait = 20 * time.Second
	callWait  = 15 * time.Second
)

// ---- error collector ------------------------------------------------------------

type errLog struct {
	mu   sync.Mutex
	errs []string
	done chan struct{}
}

func collect(oc *ouroboros.Connection) *errLog {
	l := &errLog{done: make(chan struct{})}
	go func() {
		defer close(l.done)
		for e := range oc.ErrorChan() {
			l.mu.Lock()
			l.errs = append(l.errs, e.Error())
			l.mu.Unlock()
		}
	}()
	return l
}

func (l *errLog) list() []string {
	if l == nil {
		return nil
	}
	l.mu.Lock()
	defer l.mu.Unlock()
	return append([]string(nil), l.errs...)
}

// waitDone waits until the connection's error channel was closed (the
// connection has shut down).
func (l *errLog) waitDone(d time.Duration) bool {
	select {
	case <-l.done:
		return true
	case <-time.After(d):
		return false
	}
}

// ---- connection pair -------------------------------------------------------------

// pair is a real initiator connection and a real responder connection joined
// by an in-memory pipe; the handshake runs between them.
type pair struct {
	cli, srv       *ouroboros.Connection
	cliErr, srvErr *errLog
	a, b           *rawpeer.FragConn
}

type connRes struct {
	c   *ouroboros.Connection
	err error
}

func startConn(opts []ouroboros.ConnectionOptionFunc) chan connRes {
	ch := make(chan connRes, 1)
	go func() {
		c, err := ouroboros.NewConnection(opts...)
		ch <- connRes{c, err}
	}()
	return ch
}

func newPair(ntn bool, planA, planB rawpeer.Plan, cliOpts, srvOpts []ouroboros.ConnectionOptionFunc) (*pair, error) {
	a, b := rawpeer.Pipe(planA, planB)
	so := append([]ouroboros.ConnectionOptionFunc{
		ouroboros.WithConnection(b), ouroboros.WithNetworkMagic(testMagic),
		ouroboros.WithServer(true), ouroboros.WithNodeToNode(ntn),
	}, srvOpts...)
	co := append([]ouroboros.ConnectionOptionFunc{
		ouroboros.WithConnection(a), ouroboros.WithNetworkMagic(testMagic),
		ouroboros.WithNodeToNode(ntn),
	}, cliOpts...)
	sch := startConn(so)
	cch := startConn(co)
	p := &pair{a: a, b: b}
	var firstErr error
	deadline := time.After(setupWait)
	for i := 0; i < 2; i++ {
		select {
		case r := <-sch:
			sch = nil
			if r.err != nil && firstErr == nil {
				firstErr = fmt.Errorf("server NewConnection: %w", r.err)
			}
			p.srv = r.c
		case r := <-cch:
			cch = nil
			if r.err != nil && firstErr == nil {
				firstErr = fmt.Errorf("client NewConnection: %w", r.err)
			}
			p.cli = r.c
		case <-deadline:
			if firstErr == nil {
				firstErr = fmt.Errorf("handshake between the two connections did not finish within %s", setupWait)
			}
			_ = a.Close()
			_ = b.Close()
			i = 2
		}
	}
	if firstErr != nil {
		_ = a.Close()
		_ = b.Close()
		if p.cli != nil {
			boundedClose(p.cli)
		}
		if p.srv != nil {
			boundedClose(p.srv)
		}
		return nil, firstErr
	}
	p.cliErr = collect(p.cli)
	p.srvErr = collect(p.srv)
	return p, nil
}

func boundedClose(c *ouroboros.Connection) bool {
	fin := make(chan struct{})
	go func() {
		_ = c.Close()
		close(fin)
	}()
	select {
	case <-fin:
		return true
	case <-time.After(10 * time.Second):
		return false
	}
}

func (p *pair) close() {
	boundedClose(p.cli)
	boundedClose(p.srv)
	_ = p.a.Close()
	_ = p.b.Close()
	p.cliErr.waitDone(3 * time.Second)
	p.srvErr.waitDone(3 * time.Second)
}

// ---- one real connection against a raw peer --------------------------------------

type half struct {
	oc   *ouroboros.Connection
	errs *errLog
	peer *rawpeer.Peer
	a, b *rawpeer.FragConn
}

// ntnVersionData is the NtN v13+ version data [magic, initiatorOnly, peerSharing, query].
func ntnVersionData(peerSharing uint64) *xcbor.Node {
	return xcbor.A(xcbor.U(testMagic), xcbor.Bool(false), xcbor.U(peerSharing), xcbor.Bool(false))
}

// dialRaw: the library is the initiator (client); the raw peer accepts the handshake.
func dialRaw(ntn bool, planLib, planPeer rawpeer.Plan, opts ...ouroboros.ConnectionOptionFunc) (*half, error) {
	a, b := rawpeer.Pipe(planLib, planPeer)
	h := &half{a: a, b: b, peer: rawpeer.NewPeer(b)}
	hs := make(chan error, 1)
	go func() {
		_, err := h.peer.AcceptHandshake(setupWait, nil)
		hs <- err
	}()
	all := append([]ouroboros.ConnectionOptionFunc{
		ouroboros.WithConnection(a), ouroboros.WithNetworkMagic(testMagic), ouroboros.WithNodeToNode(ntn),
	}, opts...)
	ch := startConn(all)
	var r connRes
	select {
	case r = <-ch:
	case <-time.After(setupWait):
		_ = a.Close()
		_ = b.Close()
		return nil, fmt.Errorf("NewConnection (initiator) did not return within %s", setupWait)
	}
	if r.err != nil {
		_ = a.Close()
		_ = b.Close()
		return nil, fmt.Errorf("NewConnection: %w", r.err)
	}
	if err := <-hs; err != nil {
		boundedClose(r.c)
		_ = b.Close()
		return nil, err
	}
	h.oc = r.c
	h.errs = collect(r.c)
	return h, nil
}

// listenRaw: the library is the responder (server); the raw peer proposes NtN v14.
func listenRaw(planLib, planPeer rawpeer.Plan, opts ...ouroboros.ConnectionOptionFunc) (*half, error) {
	a, b := rawpeer.Pipe(planLib, planPeer)
	h := &half{a: a, b: b, peer: rawpeer.NewPeer(b)}
	all := append([]ouroboros.ConnectionOptionFunc{
		ouroboros.WithConnection(a), ouroboros.WithNetworkMagic(testMagic),
		ouroboros.WithNodeToNode(true), ouroboros.WithServer(true),
	}, opts...)
	ch := startConn(all)
	reply, err := h.peer.ProposeHandshake(14, ntnVersionData(0), setupWait)
	if err != nil {
		_ = a.Close()
		_ = b.Close()
		return nil, fmt.Errorf("handshake: %w", err)
	}
	if n, perr := xcbor.ParseExact(reply); perr != nil || n.Kind != xcbor.Array || len(n.Items) < 1 || n.Items[0].Arg != 1 {
		_ = a.Close()
		_ = b.Close()
		return nil, fmt.Errorf("handshake: responder answered %x", reply)
	}
	var r connRes
	select {
	case r = <-ch:
	case <-time.After(setupWait):
		_ = a.Close()
		_ = b.Close()
		return nil, fmt.Errorf("NewConnection (responder) did not return within %s", setupWait)
	}
	if r.err != nil {
		_ = a.Close()
		_ = b.Close()
		return nil, fmt.Errorf("NewConnection: %w", r.err)
	}
	h.oc = r.c
	h.errs = collect(r.c)
	return h, nil
}

func (h *half) close() {
	boundedClose(h.oc)
	h.peer.Close()
	_ = h.a.Close()
	h.errs.waitDone(3 * time.Second)
}

// ---- misc ---------------------------------------------------------------------------

// limitShrinkTime: cases decided by bounded liveness cost their full bound on
// every shrink attempt. An explicit -rapid.shrinktime is respected.
func limitShrinkTime() {
	if f := flag.Lookup("rapid.shrinktime"); f != nil && f.Value.String() == f.DefValue {
		_ = flag.Set("rapid.shrinktime", "15s")
	}
}

// goroutineDump returns the stacks (clipped) of goroutines mentioning one of
// the filter strings (all goroutines inside gouroboros when no filter is given).
func goroutineDump(filter ...string) string {
	if len(filter) == 0 {
		filter = []string{"gouroboros/protocol/", "gouroboros/muxer", "gouroboros"}
	}
	buf := make([]byte, 8<<20)
	buf = buf[:runtime.Stack(buf, true)]
	gs := strings.Split(string(buf), "\n\n")
	var out []string
	seen := map[int]bool{}
	for _, f := range filter {
		for i, g := range gs {
			if seen[i] || !strings.Contains(g, f) || len(out) >= 12 {
				continue
			}
			seen[i] = true
			lines := strings.Split(g, "\n")
			if len(lines) > 15 {
				lines = lines[:15]
			}
			out = append(out, strings.Join(lines, "\n"))
		}
	}
	return strings.Join(out, "\n\n")
}

func genPlan(rt *rapid.T, label string) rawpeer.Plan {
	switch rapid.IntRange(0, 3).Draw(rt, label+"_plan") {
	case 0:
		return nil
	case 1:
		return &rawpeer.SeqPlan{Chunks: []int{0}, Yields: []int{1}}
	default:
		chunks := rapid.SliceOfN(rapid.SampledFrom([]int{1, 2, 3, 7, 8, 9, 64, 1000, 4096, 0}), 1, 5).Draw(rt, label+"_chunks")
		ys := []int{0, 0, 1, 1, 20, 200}
		for _, c := range chunks {
			if c > 0 && c < 1000 {
				ys = []int{0, 0, 1} // tiny reads: never sleep per read
			}
		}
		yields := rapid.SliceOfN(rapid.SampledFrom(ys), 1, 4).Draw(rt, label+"_yields")
		return &rawpeer.SeqPlan{Chunks: chunks, Yields: yields}
	}
}

// bigSafePlan is like genPlan but never uses tiny read chunks (for cases that
// move megabytes).
func bigSafePlan(rt *rapid.T, label string) rawpeer.Plan {
	switch rapid.IntRange(0, 2).Draw(rt, label+"_plan") {
	case 0:
		return nil
	case 1:
		return &rawpeer.SeqPlan{Chunks: []int{0}, Yields: []int{1}}
	default:
		return &rawpeer.SeqPlan{Chunks: []int{4096, 0, 65536}, Yields: []int{0, 1}}
	}
}

func planDesc(p rawpeer.Plan) string {
	sp, ok := p.(*rawpeer.SeqPlan)
	if !ok || sp == nil {
		return "plain"
	}
	return fmt.Sprintf("chunks%v/yields%v", sp.Chunks, sp.Yields)
}

// lclock is the logical clock shared by callers and server callbacks of a case.
type lclock struct{ v atomic.Int64 }

func (c *lclock) tick() int64 { return c.v.Add(1) }

// within runs f in a goroutine and waits for it for at most d.
func within(d time.Duration, f func()) bool {
	fin := make(chan struct{})
	go func() {
		defer close(fin)
		f()
	}()
	select {
	case <-fin:
		return true
	case <-time.After(d):
		return false
	}
}
