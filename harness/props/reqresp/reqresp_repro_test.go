package reqresp

import (
	"os"
	"strconv"
	"sync"
	"testing"
	"time"

	ouroboros "github.com/blinklabs-io/gouroboros"
	pcommon "github.com/blinklabs-io/gouroboros/protocol/common"
)

// Minimal reproductions of the defects found by C25 (run with VERIF_REPRO=1;
// they fail while the defects exist).

func reproEnabled(t *testing.T) {
	if os.Getenv("VERIF_REPRO") == "" {
		t.Skip("set VERIF_REPRO=1")
	}
}

// Two refused acquires in a row: the second call returns nil (acquired)
// although the server refused it, because the real server answers a refused
// acquire with MsgFailure *and* MsgAcquired and the client takes the stale
// MsgAcquired as the answer to its next acquire.
func TestReproLsqRefusedAcquire(t *testing.T) {
	reproEnabled(t)
	c := &c25Case{}
	c.log = &srvLog{clk: &c.clk}
	p, err := newPair(false, nil, nil, nil, []ouroboros.ConnectionOptionFunc{ouroboros.WithLocalStateQueryConfig(lsqServerConfig(c.log))})
	if err != nil {
		t.Fatal(err)
	}
	defer p.close()
	cl := p.cli.LocalStateQuery().Client
	p1 := pcommon.NewPoint(100, lsqPointHash(flavTooOld, 100))
	p2 := pcommon.NewPoint(101, lsqPointHash(flavNotOnChain, 101))
	e1 := cl.Acquire(&p1)
	e2 := cl.Acquire(&p2)
	t.Logf("first acquire: %v; second acquire: %v", e1, e2)
	for _, e := range c.log.snapshot() {
		t.Logf("server: %+v", *e)
	}
	if e1 == nil {
		t.Errorf("first acquire (point too old) returned nil")
	}
	if e2 == nil {
		t.Errorf("second acquire (point not on chain) returned nil: the call took the stale MsgAcquired of the first request as its answer")
	}
}

// Concurrent GetPeers: a caller receives the reply to another caller's request.
func TestReproPeerSharingConcurrent(t *testing.T) {
	reproEnabled(t)
	c := &c25Case{}
	c.log = &srvLog{clk: &c.clk}
	p, err := newPair(true, nil, nil,
		[]ouroboros.ConnectionOptionFunc{ouroboros.WithPeerSharing(true)},
		[]ouroboros.ConnectionOptionFunc{ouroboros.WithPeerSharing(true), ouroboros.WithPeerSharingConfig(pshServerConfig(c.log))})
	if err != nil {
		t.Fatal(err)
	}
	defer p.close()
	cl := p.cli.PeerSharing().Client
	var wg sync.WaitGroup
	var mu sync.Mutex
	swapped, total := 0, 0
	ng := 120
	if v, err := strconv.Atoi(os.Getenv("VERIF_REPRO_G")); err == nil {
		ng = v
	}
	for g := 0; g < ng; g++ {
		wg.Add(1)
		go func() {
			defer wg.Done()
			for i := 0; i < 30; i++ {
				amount := uint8(1 + (g*31+i)%250)
				peers, err := cl.GetPeers(amount)
				if err != nil {
					t.Errorf("GetPeers: %v", err)
					return
				}
				mu.Lock()
				total++
				if len(peers) == 0 || int(peers[0].Port) != 1000+int(amount) {
					swapped++
				}
				mu.Unlock()
			}
		}()
	}
	wg.Wait()
	t.Logf("%d of %d calls returned the reply to another caller's request", swapped, total)
	if swapped > 0 {
		t.Errorf("%d of %d GetPeers calls returned a reply that answers a different amount", swapped, total)
	}
}

// Repeated Done / Init cycles against the real tx-submission server (raw
// client): the cleanup goroutine started by Server.Start reads the result
// channels *after* it was started, so after a restart it can pick up (and
// close) the channels of the next protocol instance -> "close of closed channel".
func TestReproTxSubmissionRestartCrash(t *testing.T) {
	reproEnabled(t)
	for round := 0; round < 200; round++ {
		sv := newC24Server()
		h, err := listenRaw(nil, nil, ouroboros.WithTxSubmissionConfig(sv.config()))
		if err != nil {
			t.Fatal(err)
		}
		server := h.oc.TxSubmission().Server
		n := 1 + round%3
		for i := 0; i < n; i++ {
			_ = h.peer.SendMsg(protoTxSubmission, false, []byte{0x81, 0x06})
			if !sv.waitInit(setupWait) {
				t.Fatalf("round %d: no init (errs %v)", round, h.errs.list())
			}
			ch := callRequestTxIds(server, true, 1)
			if _, err := h.peer.NextMsg(protoTxSubmission, true, callWait); err != nil {
				t.Fatalf("round %d: %v", round, err)
			}
			old := server.ProtocolInstance()
			_ = h.peer.SendMsg(protoTxSubmission, false, []byte{0x81, 0x04})
			<-ch
			for j := 0; server.ProtocolInstance() == old && j < 5000; j++ {
				time.Sleep(time.Millisecond)
			}
			time.Sleep(5 * time.Millisecond)
		}
		h.close()
	}
}
